(* C02, parts (b) and (c): the invariant holds in every state reachable by a history; boundary (total) charges. *)
From Coq Require Import ZArith List Lia Bool Arith.
From PT Require Import Base.Scalar Base.BigSum Base.Mx Model.OpGraph Model.FromOpchains Model.GraphMPO Model.BondOps.
From PT Require Import Model.Tensor Model.MPSOps Model.History.
From PT Require Import Proofs.MPSOpsBase Proofs.MPSOpsMul Proofs.MPSOpsTop Proofs.MPSOpsShape.
From PT Require Import Proofs.HistSparse Proofs.HistChain Proofs.HistOps.
Import ListNotations.
Open Scope nat_scope.

Lemma Forall_put {A} (P : A -> Prop) k x l : P x -> Forall P l -> Forall P (put k x l).
Proof.
  intros Hx. revert k; induction l as [|y l IH]; intros k Hl; [destruct k; repeat constructor; exact Hx|].
  inversion Hl; subst. destruct k; simpl; constructor; auto.
Qed.
Lemma Forall_nth_error {A} (P : A -> Prop) l i x : Forall P l -> nth_error l i = Some x -> P x.
Proof. intros H E. rewrite Forall_forall in H. apply H. eapply nth_error_In. exact E. Qed.
Lemma nth_error_put {A} k (x : A) l : k < length l -> nth_error (put k x l) k = Some x.
Proof. revert k; induction l as [|y l IH]; intros [|k] H; simpl in *; try lia; [reflexivity|apply IH; lia]. Qed.

(* ---------- boundary bond charges of the results of the ring operations ---------- *)
Lemma last_add_qD_mid qa qb : qa <> [] -> length qa = length qb -> last (add_qD_mid qa qb) [] = last qa [].
Proof.
  revert qb; induction qa as [|a qa IH]; intros qb Hne HL; [contradiction|].
  destruct qb as [|b qb]; [discriminate HL|].
  destruct qa as [|a2 qa]; [reflexivity|]. destruct qb as [|b2 qb]; [discriminate HL|].
  change (add_qD_mid (a :: a2 :: qa) (b :: b2 :: qb)) with ((a ++ b) :: add_qD_mid (a2 :: qa) (b2 :: qb)).
  assert (E : add_qD_mid (a2 :: qa) (b2 :: qb) <> []).
  { destruct qa; simpl; discriminate. }
  destruct (add_qD_mid (a2 :: qa) (b2 :: qb)) as [|x0 l0] eqn:El; [contradiction|].
  rewrite last_cons_cons. rewrite <- El. rewrite IH; [| discriminate | simpl in *; lia].
  rewrite last_cons_cons. reflexivity.
Qed.
(* add: both boundary charge lists are copied from the first operand *)
Lemma add_qD_boundary qa qb : qa <> [] -> length qa = length qb ->
  hd [] (add_qD qa qb) = hd [] qa /\ last (add_qD qa qb) [] = last qa [].
Proof.
  intros Hne HL. destruct qa as [|a qa]; [contradiction|]. destruct qb as [|b qb]; [discriminate HL|].
  split; [reflexivity|]. destruct qa as [|a2 qa]; [reflexivity|]. destruct qb as [|b2 qb]; [discriminate HL|].
  change (add_qD (a :: a2 :: qa) (b :: b2 :: qb)) with (a :: add_qD_mid (a2 :: qa) (b2 :: qb)).
  assert (E : add_qD_mid (a2 :: qa) (b2 :: qb) <> []).
  { destruct qa; simpl; discriminate. }
  destruct (add_qD_mid (a2 :: qa) (b2 :: qb)) as [|x0 l0] eqn:El; [contradiction|].
  rewrite last_cons_cons, <- El. rewrite last_add_qD_mid; [| discriminate | simpl in *; lia].
  rewrite last_cons_cons. reflexivity.
Qed.
(* product / application: outer sums of the operands' boundary charges *)
Lemma zipw_qflat_boundary qa qb : length qa = length qb ->
  hd [] (zipw qflat qa qb) = qflat (hd [] qa) (hd [] qb) /\ last (zipw qflat qa qb) [] = qflat (last qa []) (last qb []).
Proof.
  intros HL. split; [destruct qa, qb; try discriminate HL; reflexivity|].
  revert qb HL; induction qa as [|a qa IH]; intros [|b qb] HL; try discriminate HL; [reflexivity|].
  destruct qa as [|a2 qa]; destruct qb as [|b2 qb]; try discriminate HL; [reflexivity|].
  change (zipw qflat (a :: a2 :: qa) (b :: b2 :: qb)) with (qflat a b :: qflat a2 b2 :: zipw qflat qa qb).
  rewrite !last_cons_cons. rewrite <- (IH (b2 :: qb)) by (simpl in *; lia). reflexivity.
Qed.

Section Inv.
  Variable R : cring.
  Notation mx := (mx R).
  Notation site := (site R). Notation osite := (osite R).
  Notation mps := (mps R). Notation mpo := (mpo R).
  Notation state := (state R). Notation op := (op R). Notation oracles := (oracles R).

  (* the invariant of C02 on a pool *)
  Definition Inv (s : state) : Prop :=
    Forall (fun p : mps => mps_ok p = true) (states s) /\ Forall (fun o : mpo => mpo_ok o = true) (operators s).
  Lemma Inv_b (s : state) : inv_b s = true <-> Inv s.
  Proof. unfold inv_b, Inv. rewrite andb_true_iff, !forallb_forall, !Forall_forall. tauto. Qed.

  Lemma Inv_set_state (s : state) k p : Inv s -> mps_ok p = true -> Inv (set_state s k p).
  Proof. intros [H1 H2] Hp. split; [apply Forall_put; assumption|exact H2]. Qed.
  Lemma Inv_set_oper (s : state) k o : Inv s -> mpo_ok o = true -> Inv (set_oper s k o).
  Proof. intros [H1 H2] Hp. split; [exact H1|apply Forall_put; assumption]. Qed.

  Lemma st_ok (s : state) i p : Inv s -> nth_error (states s) i = Some p -> mps_ok p = true.
  Proof. intros [H _] E. exact (Forall_nth_error (fun p : mps => mps_ok p = true) _ _ _ H E). Qed.
  Lemma op_ok (s : state) a x : Inv s -> nth_error (operators s) a = Some x -> mpo_ok x = true.
  Proof. intros [_ H] E. exact (Forall_nth_error (fun o : mpo => mpo_ok o = true) _ _ _ H E). Qed.

  Variable O : oracles.

  (* What is assumed of the oracles, only for the call issued by operation [o] in state [s], and only on arguments that
     satisfy the invariant:
       FromVector   the TT-SVD tensors chain up, with first bond dimension 1 (shapes only)
       SplitMerge   C12's contract on the one split_matrix_svd call: valid input => factors block sparse under the new charges
       Orth, OrthMpo, Compress, Tdvp, Dmrg   the returned object satisfies the invariant. *)
  Definition oracle_ok_at (s : state) (o : op) : Prop :=
    match o with
    | FromVector _ d L tag v =>
        length v = d ^ L -> let As := or_from_vector O d L tag v in chain_shape d (1 :: map site_nc As) As = true
    | SplitMerge i k _ tag =>
        forall p, nth_error (states s) i = Some p -> split_call_ok R (or_svd O tag) (split_call R k (m_qd p) (m_qD p) (m_A p))
    | Orth i md => forall p, nth_error (states s) i = Some p -> mps_ok p = true -> mps_ok (or_orth O md p) = true
    | Compress i tag md =>
        forall p, nth_error (states s) i = Some p -> mps_ok p = true -> mps_ok (or_compress O tag md p) = true
    | OrthMpo a md => forall x, nth_error (operators s) a = Some x -> mpo_ok x = true -> mpo_ok (or_orth_mpo O md x) = true
    | Tdvp two a i tag =>
        forall x p, nth_error (operators s) a = Some x -> nth_error (states s) i = Some p ->
                    mpo_ok x = true -> mps_ok p = true -> mps_ok (or_tdvp O two tag x p) = true
    | Dmrg two a i tag =>
        forall x p, nth_error (operators s) a = Some x -> nth_error (states s) i = Some p ->
                    mpo_ok x = true -> mps_ok p = true -> mps_ok (or_dmrg O two tag x p) = true
    | _ => True
    end.
  Fixpoint oracles_ok (ops : list op) (s : state) : Prop :=
    match ops with [] => True | o :: r => oracle_ok_at s o /\ oracles_ok r (step O s o) end.

  (* operations whose model contains no oracle *)
  Definition ring_op (o : op) : Prop :=
    match o with
    | NewMps _ _ _ _ | NewMpo _ _ _ _ | AddMps _ _ _ _ | SubMps _ _ _ | AddMpo _ _ _ _ | SubMpo _ _ _ | MulMpo _ _ _
    | Apply _ _ _ | Identity _ _ _ _ | FromOpgraph _ _ _ _ => True
    | _ => False
    end.
  Lemma ring_op_oracle_ok s o : ring_op o -> oracle_ok_at s o.
  Proof. destruct o; simpl; intros H; try exact I; contradiction. Qed.

  Theorem step_opt_inv (s s' : state) (o : op) : Inv s -> oracle_ok_at s o -> step_opt O s o = Some s' -> Inv s'.
  Proof.
    intros HI Hor E. pose proof HI as [HS HO]. destruct o; simpl in E, Hor.
    - (* NewMps *) destruct (new_mps qd qDs f) as [p|] eqn:E1; [|discriminate]. injection E as <-.
      apply Inv_set_state; [exact HI|]. eapply new_mps_ok; exact E1.
    - destruct (new_mpo qd qDs f) as [p|] eqn:E1; [|discriminate]. injection E as <-.
      apply Inv_set_oper; [exact HI|]. eapply new_mpo_ok; exact E1.
    - (* FromVector *) destruct (Nat.eqb (length v) (d ^ L)) eqn:E1; [|discriminate]. injection E as <-.
      apply Inv_set_state; [exact HI|]. apply from_vector_ok. apply Hor. apply Nat.eqb_eq. exact E1.
    - (* AddMps *) destruct (nth_error (states s) i) as [p|] eqn:Ei; [|discriminate].
      destruct (nth_error (states s) j) as [q|] eqn:Ej; [|discriminate]. simpl in E.
      destruct (add_mps_run alpha p q) as [r|] eqn:Er; [|discriminate]. injection E as <-.
      apply Inv_set_state; [exact HI|].
      eapply add_mps_run_ok; [exact (st_ok _ _ _ HI Ei)|exact (st_ok _ _ _ HI Ej)|exact Er].
    - (* SubMps *) destruct (nth_error (states s) i) as [p|] eqn:Ei; [|discriminate].
      destruct (nth_error (states s) j) as [q|] eqn:Ej; [|discriminate]. simpl in E.
      destruct (add_mps_run mone p q) as [r|] eqn:Er; [|discriminate]. injection E as <-.
      apply Inv_set_state; [exact HI|].
      eapply add_mps_run_ok; [exact (st_ok _ _ _ HI Ei)|exact (st_ok _ _ _ HI Ej)|exact Er].
    - (* AddMpo *) destruct (nth_error (operators s) a) as [x|] eqn:Ea; [|discriminate].
      destruct (nth_error (operators s) b) as [y|] eqn:Eb; [|discriminate]. simpl in E.
      destruct (add_mpo_run alpha x y) as [r|] eqn:Er; [|discriminate]. injection E as <-.
      apply Inv_set_oper; [exact HI|].
      eapply add_mpo_run_ok; [exact (op_ok _ _ _ HI Ea)|exact (op_ok _ _ _ HI Eb)|exact Er].
    - (* SubMpo *) destruct (nth_error (operators s) a) as [x|] eqn:Ea; [|discriminate].
      destruct (nth_error (operators s) b) as [y|] eqn:Eb; [|discriminate]. simpl in E.
      destruct (add_mpo_run mone x y) as [r|] eqn:Er; [|discriminate]. injection E as <-.
      apply Inv_set_oper; [exact HI|].
      eapply add_mpo_run_ok; [exact (op_ok _ _ _ HI Ea)|exact (op_ok _ _ _ HI Eb)|exact Er].
    - (* MulMpo *) destruct (nth_error (operators s) a) as [x|] eqn:Ea; [|discriminate].
      destruct (nth_error (operators s) b) as [y|] eqn:Eb; [|discriminate]. simpl in E.
      destruct (multiply_mpo_run x y) as [r|] eqn:Er; [|discriminate]. injection E as <-.
      apply Inv_set_oper; [exact HI|].
      eapply multiply_mpo_run_ok; [exact (op_ok _ _ _ HI Ea)|exact (op_ok _ _ _ HI Eb)|exact Er].
    - (* Apply *) destruct (nth_error (operators s) a) as [x|] eqn:Ea; [|discriminate].
      destruct (nth_error (states s) i) as [p|] eqn:Ei; [|discriminate]. simpl in E.
      destruct (apply_operator_run x p) as [r|] eqn:Er; [|discriminate]. injection E as <-.
      apply Inv_set_state; [exact HI|].
      eapply apply_operator_run_ok; [exact (op_ok _ _ _ HI Ea)|exact (st_ok _ _ _ HI Ei)|exact Er].
    - (* Identity *) injection E as <-. apply Inv_set_oper; [exact HI|apply identity_ok].
    - (* FromOpgraph *) destruct (from_opgraph qd g opmap) as [[o' m]|e] eqn:E1; [|discriminate]. injection E as <-.
      apply Inv_set_oper; [exact HI|]. eapply from_opgraph_ok; exact E1.
    - (* SplitMerge *) destruct (nth_error (states s) i) as [p|] eqn:Ei; [|discriminate]. simpl in E.
      destruct (split_merge (or_svd O tag) (or_sqrt O) distr k p) as [p'|] eqn:E1; [|discriminate]. injection E as <-.
      apply Inv_set_state; [exact HI|].
      exact (proj1 (split_merge_ok R _ _ _ _ p p' (st_ok _ _ _ HI Ei) E1 (Hor p eq_refl))).
    - (* Orth *) destruct (nth_error (states s) i) as [p|] eqn:Ei; [|discriminate]. injection E as <-.
      apply Inv_set_state; [exact HI|]. apply Hor; [reflexivity|exact (st_ok _ _ _ HI Ei)].
    - (* Compress *) destruct (nth_error (states s) i) as [p|] eqn:Ei; [|discriminate]. injection E as <-.
      apply Inv_set_state; [exact HI|]. apply Hor; [reflexivity|exact (st_ok _ _ _ HI Ei)].
    - (* OrthMpo *) destruct (nth_error (operators s) a) as [x|] eqn:Ea; [|discriminate]. injection E as <-.
      apply Inv_set_oper; [exact HI|]. apply Hor; [reflexivity|exact (op_ok _ _ _ HI Ea)].
    - (* Tdvp *) destruct (nth_error (operators s) a) as [x|] eqn:Ea; [|discriminate].
      destruct (nth_error (states s) i) as [p|] eqn:Ei; [|discriminate]. injection E as <-.
      apply Inv_set_state; [exact HI|].
      apply Hor; [reflexivity|reflexivity|exact (op_ok _ _ _ HI Ea)|exact (st_ok _ _ _ HI Ei)].
    - (* Dmrg *) destruct (nth_error (operators s) a) as [x|] eqn:Ea; [|discriminate].
      destruct (nth_error (states s) i) as [p|] eqn:Ei; [|discriminate]. injection E as <-.
      apply Inv_set_state; [exact HI|].
      apply Hor; [reflexivity|reflexivity|exact (op_ok _ _ _ HI Ea)|exact (st_ok _ _ _ HI Ei)].
  Qed.

  Theorem step_inv (s : state) (o : op) : Inv s -> oracle_ok_at s o -> Inv (step O s o).
  Proof.
    intros HI Hor. unfold step. destruct (step_opt O s o) as [s'|] eqn:E; [|exact HI].
    eapply step_opt_inv; eassumption.
  Qed.

  (* (b) induction over the history *)
  Theorem history_inv_partial : forall (ops : list op) (s : state), Inv s -> oracles_ok ops s -> Inv (run O ops s).
  Proof.
    induction ops as [|o ops IH]; intros s HI Hor; [exact HI|].
    destruct Hor as [H1 H2]. unfold run. simpl fold_left. apply IH; [apply step_inv; assumption|exact H2].
  Qed.

  Lemma oracles_ok_app ops1 : forall ops2 s, oracles_ok (ops1 ++ ops2) s -> oracles_ok ops1 s.
  Proof.
    induction ops1 as [|o ops1 IH]; intros ops2 s H; [exact I|]. destruct H as [H1 H2]. split; [exact H1|].
    eapply IH; exact H2.
  Qed.
  (* every reachable state: the invariant holds after every prefix of the history *)
  Theorem history_inv_every_prefix (ops1 ops2 : list op) (s : state) :
    Inv s -> oracles_ok (ops1 ++ ops2) s -> Inv (run O ops1 s).
  Proof. intros HI H. apply history_inv_partial; [exact HI|eapply oracles_ok_app; exact H]. Qed.

  (* histories of ring operations need no hypothesis at all *)
  Lemma ring_ops_oracles_ok : forall (ops : list op) (s : state), Forall ring_op ops -> oracles_ok ops s.
  Proof.
    induction ops as [|o ops IH]; intros s H; [exact I|]. inversion H; subst.
    split; [apply ring_op_oracle_ok; assumption|apply IH; assumption].
  Qed.
  Theorem history_inv_ring (ops : list op) (s : state) : Forall ring_op ops -> Inv s -> Inv (run O ops s).
  Proof. intros Hr HI. apply history_inv_partial; [exact HI|apply ring_ops_oracles_ok; exact Hr]. Qed.

  (* ---------- (c) what the operations do with the boundary (total) bond charges ---------- *)
  Theorem add_boundary (alpha : R) (p q : mps) (a b : mpo) :
    (add_mps_pre R p q -> length (m_qD p) = length (m_qD q) -> m_qD p <> [] ->
       hd [] (m_qD (add_mps alpha p q)) = hd [] (m_qD p) /\ last (m_qD (add_mps alpha p q)) [] = last (m_qD p) []) /\
    (add_mpo_pre R a b -> length (o_qD a) = length (o_qD b) -> o_qD a <> [] ->
       hd [] (o_qD (add_mpo alpha a b)) = hd [] (o_qD a) /\ last (o_qD (add_mpo alpha a b)) [] = last (o_qD a) []).
  Proof. split; intros _ HL Hne; apply add_qD_boundary; assumption. Qed.
  Theorem mul_boundary (a b : mpo) (p : mps) :
    (length (o_qD a) = length (o_qD b) ->
       hd [] (o_qD (multiply_mpo a b)) = qflat (hd [] (o_qD a)) (hd [] (o_qD b)) /\
       last (o_qD (multiply_mpo a b)) [] = qflat (last (o_qD a) []) (last (o_qD b) [])) /\
    (length (o_qD a) = length (m_qD p) ->
       hd [] (m_qD (apply_operator a p)) = qflat (hd [] (o_qD a)) (hd [] (m_qD p)) /\
       last (m_qD (apply_operator a p)) [] = qflat (last (o_qD a) []) (last (m_qD p) [])).
  Proof. split; intros HL; apply zipw_qflat_boundary; exact HL. Qed.

  (* the in-place two-site update (merge + split at an inner bond; the building block of two-site TDVP / DMRG and of
     compression by sweeps) rebinds one inner bond only: the first and last charge lists, qd and the length are kept *)
  Theorem split_merge_step_keeps_total (s : state) i k distr tag (p p' : mps) :
    nth_error (states s) i = Some p -> mps_ok p = true -> oracle_ok_at s (SplitMerge i k distr tag) ->
    step_opt O s (SplitMerge i k distr tag) <> None ->
    nth_error (states (step O s (SplitMerge i k distr tag))) i = Some p' ->
    mps_ok p' = true /\ m_qd p' = m_qd p /\ hd [] (m_qD p') = hd [] (m_qD p) /\ last (m_qD p') [] = last (m_qD p) [] /\
    length (m_A p') = length (m_A p).
  Proof.
    intros Ei Hp Hor Hsome E. unfold step in E. simpl in Hsome, E, Hor. rewrite Ei in Hsome, E. simpl in Hsome, E.
    destruct (split_merge (or_svd O tag) (or_sqrt O) distr k p) as [p2|] eqn:E1; [|contradiction Hsome; reflexivity].
    simpl in E. rewrite nth_error_put in E by (apply nth_error_Some; rewrite Ei; discriminate).
    injection E as <-. exact (split_merge_ok R _ _ _ _ p p2 Hp E1 (Hor p Ei)).
  Qed.
End Inv.
