(* C06, Jordan-Wigner link -- part 5:
   (a) linear_fermionic_mpo: the hand-wired graph denotes  sum_i coeff_i . JW(a+_i | a_i)  with the SAME Jordan-Wigner words
       [jw n k o] as the Fermi-Hubbard / molecular formulas (letters read through the ids A = -1, I = 0, C = 1, Z = 2);
   (b) the multiplication table [omul] against the 2x2 matrices [opR] used here (finite check);
   (c) the letter table of fermi_hubbard_mpo as 4x4 matrices (finite check over Q[i]). *)
From Coq Require Import ZArith QArith Qcanon List Lia Bool Arith Ring.
From PT Require Import Base.Scalar Base.BigSum Base.Mx Model.OpGraph Model.FromOpchains Model.GraphMPO Model.Molecular Model.MolFormula
                       Model.Hamiltonians Model.HamFormulas Proofs.HamFinite Proofs.HamLinFerm Proofs.HamJWDefs Proofs.HamJW2.
Import ListNotations.
Local Open Scope nat_scope.

Lemma map_rep {A B} (f : A -> B) x n : map f (repeat x n) = repeat (f x) n.
Proof. induction n as [|n IH]; cbn [repeat map]; [reflexivity|rewrite IH; reflexivity]. Qed.
Lemma combine_seq {A} (d : A) (l : list A) s :
  combine (seq s (length l)) l = map (fun i => (i, nth (i - s) l d)) (seq s (length l)).
Proof.
  revert s. induction l as [|a l IH]; intros s; cbn [length seq combine map]; [reflexivity|].
  rewrite Nat.sub_diag. cbn [nth]. f_equal. rewrite IH. apply map_ext_in. intros i Hi. apply in_seq in Hi.
  replace (i - s) with (S (i - S s)) by lia. reflexivity.
Qed.

Section LinFermJW.
  Variable R : cring.
  Add Ring Rring_jw5 : (k_rt R).

  Lemma lf_word L i create : map lf_id (jw L i (lf_op create)) = jw_word L (lf_oid create) i.
  Proof. unfold jw, jw_word. rewrite !map_app, !map_rep. destruct create; reflexivity. Qed.

  Theorem linferm_jw (coeff : list R) (create : bool) : 1 <= length coeff ->
    forall w, den (linferm_graph coeff create) w = pcoef_ids lf_id (lf_jw coeff create) w.
  Proof.
    intros HL w. rewrite (linferm_den R coeff create HL w). unfold linferm_formula, pcoef_ids, lf_jw.
    rewrite (combine_seq (k0 R) coeff 0), map_map, suml_map, suml_seq.
    apply sumn_ext. intros i _. cbn [fst snd]. rewrite lf_word, Nat.sub_0_r. reflexivity.
  Qed.
End LinFermJW.

(* ---- finite checks (vm_compute over the Gaussian rationals, half = 1/2) ---- *)
Definition sopR (x : sop) : mx QIring :=
  match x with SZero => zeromx 2 2 | SOp s o => scalemx (R := QIring) (if s then kopp QIring q1_ else q1_) (opR o) end.
(* [omul] is the multiplication table of the matrices [opR] *)
Lemma omul_opR_table :
  forallb (fun a => forallb (fun b => mxeqb (mulmx (opR a) (opR b)) (sopR (omul a b))) all_ops) all_ops = true.
Proof. vm_compute. reflexivity. Qed.
(* every site operator of fermi_hubbard_mpo is the stated combination of Kronecker products of mode operators *)
Lemma fh_table_checked : fh_table_okb (R := QIring) qh = true.
Proof. vm_compute. reflexivity. Qed.
(* [opR] are the matrices of Model/MolFormula.v (C07_omul_table) *)
Lemma opR_op_mx :
  forallb (fun a => mxeqb (opR (R := Zring) a) (op_mx a)) all_ops = true.
Proof. vm_compute. reflexivity. Qed.
