(* Two extra facts about the executable model [block_qr] of pytenet.bond_ops.qr:
   the intermediate bond dimension is at least one, and for a one-column matrix the single entry of R is a
   diagonal entry of a LAPACK answer. *)
From Coq Require Import ZArith List Bool Lia Arith Permutation Sorted.
From PT Require Import Base.Scalar Base.Field Base.BigSum Base.Mx Model.BondOps.
From PT Require Import Proofs.BondOpsPerm Proofs.BondOpsLoop Proofs.BondOpsSpec.
Import ListNotations.

(* ------------------------------------------------------------------ *)
(* generic facts about block_step / fold_left block_step                *)
(* ------------------------------------------------------------------ *)
Section StepFacts.
  Variable R : cring.
  Variable T : Type.
  Variable fac : mx R -> mx R * list T * mx R.
  Variable A : mx R.
  Variables q0 q1 : list Z.
  Variable m : nat.

  Lemma fold_step_none l : fold_left (block_step fac A q0 q1 m) l None = None.
  Proof. induction l as [|x l IH]; simpl; auto. Qed.

  Lemma step_shape st x st' : block_step fac A q0 q1 m (Some st) x = Some st' ->
    exists U sv V, fac (block_of A q0 q1 x) = (U, sv, V) /\
      bq st' = bq st ++ repeat x (length sv) /\ bD st' = bD st + length sv /\
      bV st' = placemx (bV st) (bD st) (fst (blk_range q1 x)) V.
  Proof.
    unfold block_step, block_of.
    destruct (blk_range q0 x) as [i0 i1]. destruct (blk_range q1 x) as [j0 j1].
    destruct (fac (slicemx A i0 i1 j0 j1)) as [[U sv] V].
    match goal with |- context [if ?c then _ else _] => destruct c end; [|discriminate].
    intros E. inversion E. exists U, sv, V. cbn [bq bD bV fst]. repeat split; reflexivity.
  Qed.

  Lemma fold_len_mono l : forall st st',
    fold_left (block_step fac A q0 q1 m) l (Some st) = Some st' -> length (bq st) <= length (bq st').
  Proof.
    induction l as [|x l IH]; intros st st' E.
    - simpl in E. inversion E. lia.
    - cbn [fold_left] in E.
      destruct (block_step fac A q0 q1 m (Some st) x) as [st1|] eqn:E1.
      + apply IH in E. destruct (step_shape _ _ _ E1) as (U & sv & V & _ & Hq & _).
        rewrite Hq, app_length in E. lia.
      + rewrite fold_step_none in E. discriminate.
  Qed.

  Lemma nr_block_of x : nr (block_of A q0 q1 x) = snd (blk_range q0 x) - fst (blk_range q0 x).
  Proof. unfold block_of. destruct (blk_range q0 x), (blk_range q1 x). reflexivity. Qed.
  Lemma nc_block_of x : nc (block_of A q0 q1 x) = snd (blk_range q1 x) - fst (blk_range q1 x).
  Proof. unfold block_of. destruct (blk_range q0 x), (blk_range q1 x). reflexivity. Qed.
End StepFacts.

Lemma blk_range_lt q x : In x q -> fst (blk_range q x) < snd (blk_range q x).
Proof.
  intros Hx. unfold blk_range. cbn [fst snd].
  assert (Hne := where_eq_nonempty q x Hx).
  destruct (hd_min _ (where_eq_ssorted q x) Hne) as [Hlo _].
  destruct (last_max _ (where_eq_ssorted q x) Hne) as [_ Hmax].
  apply Hmax in Hlo. lia.
Qed.

Lemma sorted_choice_In (q : list Z) x :
  In x q -> In x (if negb (is_id (argsort q)) then takez (argsort q) q else q).
Proof.
  intros H. destruct (negb (is_id (argsort q))); [|exact H].
  apply takez_In; [apply argsort_perm|exact H].
Qed.

(* ------------------------------------------------------------------ *)
(* Lemma 1                                                              *)
(* ------------------------------------------------------------------ *)
Lemma block_qr_len_pos : forall (R : cring) (dqr : mx R -> mx R * mx R) (A : mx R) (q0 q1 : list Z) Q Rm qi,
  valid_in A q0 q1 = true -> 1 <= nr A -> 1 <= nc A ->
  Forall (fun B => dqr_ok R B (dqr B)) (block_qr_calls A q0 q1) ->
  block_qr dqr A q0 q1 = Some (Q, Rm, qi) -> 1 <= length qi.
Proof.
  intros R dqr A q0 q1 Q Rm qi Hv Hm Hn Hcalls H.
  destruct (valid_in_spec R A q0 q1 Hv) as (HwfA & Hl0 & Hl1 & HspA).
  unfold block_qr in H. rewrite Hv in H. cbn [negb] in H.
  unfold block_qr_calls, block_calls in Hcalls.
  destruct (intersect1d q0 q1) as [|x qs] eqn:Eq.
  - destruct (negb (is_zeromx A) || Nat.eqb (nr A) 0); [discriminate|].
    inversion H. destruct q0 as [|a t]; [simpl in Hl0; lia|]. simpl. lia.
  - assert (Hx : In x q0 /\ In x q1) by (apply intersect1d_In; rewrite Eq; left; reflexivity).
    destruct Hx as [Hx0 Hx1].
    set (si := sort_input A q0 q1) in *.
    assert (Hs0 : In x (sq0 si)) by (unfold si, sort_input; cbn [sq0]; apply sorted_choice_In; exact Hx0).
    assert (Hs1 : In x (sq1 si)) by (unfold si, sort_input; cbn [sq1]; apply sorted_choice_In; exact Hx1).
    cbn [map] in Hcalls. apply Forall_inv in Hcalls.
    destruct (block_loop (qr_fac dqr) (sA si) (sq0 si) (sq1 si) (x :: qs)) as [st|] eqn:EL; [|discriminate].
    inversion H; subst. clear H.
    unfold block_loop in EL.
    destruct (fold_left _ (x :: qs) _) as [st2|] eqn:EF; [|discriminate].
    inversion EL; subst. clear EL. cbn [bq].
    cbn [fold_left] in EF.
    destruct (block_step (qr_fac dqr) (sA si) (sq0 si) (sq1 si) (Nat.min (nr (sA si)) (nc (sA si)))
                (Some (block_init (sA si))) x) as [st1|] eqn:E1;
      [|rewrite fold_step_none in EF; discriminate].
    apply fold_len_mono in EF.
    destruct (step_shape _ _ _ _ _ _ _ _ _ _ E1) as (U & sv & V & Hfac & Hq & _).
    unfold block_init in Hq. cbn [bq app] in Hq. rewrite Hq, repeat_length in EF.
    unfold qr_fac in Hfac.
    assert (HnrB := nr_block_of R (sA si) (sq0 si) (sq1 si) x).
    assert (HncB := nc_block_of R (sA si) (sq0 si) (sq1 si) x).
    assert (L0 := blk_range_lt _ _ Hs0). assert (L1 := blk_range_lt _ _ Hs1).
    unfold dqr_ok in Hcalls.
    destruct (dqr (block_of (sA si) (sq0 si) (sq1 si) x)) as [Qs Rs].
    destruct Hcalls as (_ & _ & _ & HncQ & _).
    inversion Hfac; subst. rewrite repeat_length in EF. lia.
Qed.

(* ------------------------------------------------------------------ *)
(* Lemma 2                                                              *)
(* ------------------------------------------------------------------ *)
Lemma blk_range_single c : blk_range [c] c = (0, 1).
Proof. unfold blk_range, where_eq. cbn [length seq filter nth]. rewrite Z.eqb_refl. reflexivity. Qed.

Lemma inter_single q0 c : intersect1d q0 [c] = [] \/ intersect1d q0 [c] = [c].
Proof.
  assert (Hs := intersect1d_sorted q0 [c]).
  assert (Hin : forall y, In y (intersect1d q0 [c]) -> y = c).
  { intros y Hy. apply intersect1d_In in Hy. destruct Hy as [_ [Hy|[]]]. auto. }
  destruct (intersect1d q0 [c]) as [|x [|y t]].
  - left; reflexivity.
  - right. f_equal. apply Hin. left; reflexivity.
  - exfalso. assert (x = c) by (apply Hin; simpl; auto). assert (y = c) by (apply Hin; simpl; auto).
    inversion Hs as [|? ? _ Hf]; subst. inversion Hf; subst. lia.
Qed.

Definition rdiag_real (F : ofield) (r : mx (Cx F) * mx (Cx F)) : Prop :=
  forall i, i < nr (snd r) -> i < nc (snd r) -> cim (get (snd r) i i) = f0 F.

Lemma block_qr_col_real : forall (F : ofield) (dqr : mx (Cx F) -> mx (Cx F) * mx (Cx F)) (A : mx (Cx F)) (q0 q1 : list Z) Q Rm qi,
  valid_in A q0 q1 = true -> 1 <= nr A -> nc A = 1 ->
  Forall (fun B => dqr_ok (Cx F) B (dqr B) /\ rdiag_real F (dqr B)) (block_qr_calls A q0 q1) ->
  block_qr dqr A q0 q1 = Some (Q, Rm, qi) -> cim (get Rm 0 0) = f0 F.
Proof.
  intros F dqr A q0 q1 Q Rm qi Hv Hm Hn Hcalls H.
  destruct (valid_in_spec (Cx F) A q0 q1 Hv) as (HwfA & Hl0 & Hl1 & HspA).
  destruct q1 as [|c [|c' t]]; try (simpl in Hl1; lia).
  unfold block_qr in H. rewrite Hv in H. cbn [negb] in H.
  unfold block_qr_calls, block_calls in Hcalls.
  destruct (inter_single q0 c) as [Eq|Eq]; rewrite Eq in H; cbv beta iota in H.
  - destruct (negb (is_zeromx A) || Nat.eqb (nr A) 0); [discriminate|]. inversion H.
    rewrite get_zeromx. reflexivity.
  - rewrite Eq in Hcalls. cbn [map] in Hcalls. apply Forall_inv in Hcalls. destruct Hcalls as [Hok Hreal].
    assert (Hx0 : In c q0) by (apply (intersect1d_In q0 [c] c); rewrite Eq; left; reflexivity).
    set (si := sort_input A q0 [c]) in *.
    assert (E1 : sq1 si = [c]) by reflexivity.
    assert (Ep : sperm1 si = false) by reflexivity.
    assert (Hnc : nc (sA si) = nc A).
    { unfold si, sort_input. cbn [sA]. change (negb (is_id (argsort [c]))) with false.
      destruct (negb (is_id (argsort q0))); reflexivity. }
    assert (Hnr : nr (sA si) = nr A).
    { unfold si, sort_input. cbn [sA]. change (negb (is_id (argsort [c]))) with false.
      destruct (negb (is_id (argsort q0))); [|reflexivity].
      unfold rowsel. rewrite nr_tab, argsort_length. exact Hl0. }
    assert (Hs0 : In c (sq0 si)) by (unfold si, sort_input; cbn [sq0]; apply sorted_choice_In; exact Hx0).
    destruct (block_loop (qr_fac dqr) (sA si) (sq0 si) (sq1 si) [c]) as [st|] eqn:EL; [|discriminate].
    inversion H; subst; clear H.
    unfold block_loop in EL. cbn [fold_left] in EL.
    destruct (block_step (qr_fac dqr) (sA si) (sq0 si) (sq1 si) (Nat.min (nr (sA si)) (nc (sA si)))
                (Some (block_init (sA si))) c) as [st1|] eqn:ES; [|discriminate].
    inversion EL; subst; clear EL. cbn [bV].
    unfold unperm_cols. rewrite Ep.
    destruct (step_shape _ _ _ _ _ _ _ _ _ _ ES) as (U & sv & V & Hfac & _ & HD & HV).
    unfold block_init in HD, HV. cbn [bD bV] in HD, HV.
    assert (Eb : blk_range (sq1 si) c = (0, 1)) by (rewrite E1; apply blk_range_single).
    rewrite Eb in HV. cbn [fst] in HV.
    assert (HnrB := nr_block_of (Cx F) (sA si) (sq0 si) (sq1 si) c).
    assert (HncB := nc_block_of (Cx F) (sA si) (sq0 si) (sq1 si) c).
    assert (L0 := blk_range_lt _ _ Hs0).
    rewrite Eb in HncB. cbn [fst snd] in HncB.
    unfold qr_fac in Hfac. unfold dqr_ok in Hok. unfold rdiag_real in Hreal.
    destruct (dqr (block_of (sA si) (sq0 si) (sq1 si) c)) as [Qs Rs].
    destruct Hok as (_ & _ & _ & HncQ & HnrR & HncR & _).
    inversion Hfac; subst U sv V. rewrite repeat_length in HD. cbn [snd] in Hreal.
    change (nc (if negb (is_id (argsort q0)) then rowsel (argsort q0) A else A)) with (nc (sA si)).
    rewrite get_slicemx by lia.
    rewrite HV. rewrite get_placemx by (rewrite ?nr_zeromx, ?nc_zeromx; lia).
    replace ((0 <=? 0 + 0) && (0 + 0 <? 0 + nr Rs) && (0 <=? 0 + 0) && (0 + 0 <? 0 + nc Rs)) with true.
    + apply Hreal; lia.
    + symmetry. repeat (apply andb_true_intro; split); try (apply Nat.leb_le; lia); apply Nat.ltb_lt; lia.
Qed.

Print Assumptions block_qr_len_pos.
Print Assumptions block_qr_col_real.
