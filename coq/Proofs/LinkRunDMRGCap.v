(* Link 4b' / 5c' (C10): single-site and two-site DMRG with the REPAIRED Krylov-based local eigensolver [keig_lanczos_cap]
   (Proofs/LinkSolversCap.v: _minimize_local_energy with numiter = min(numiter, Astart.size)).

   The lock-step inductions of Proofs/LinkRunDMRG.v / Proofs/Link2RunDMRG.v are redone GENERICALLY: for any eigensolver [keig]
   and any per-call predicate [cok] such that a call whose problem has consistent shapes, a self-adjoint effective Hamiltonian
   and a non-zero start tensor meets the Ritz contract keig_ok as soon as [cok] holds of it ([Hentry]), the trace contract
   "qr_ok for QR (split_ok for SPLITL/R), cok for EIG / EIG2" implies the Ritz-level trace contract rtr_ok / rtr2_ok along every
   run.  The capped solver is the instance keig := keig_lanczos_cap, cok := keig_lanczos_cap_calls_ok, Hentry :=
   keig_cap_from_krylov.  (The uncapped theorems of LinkRunDMRG.v / Link2RunDMRG.v are the instance keig_lanczos /
   keig_lanczos_calls_ok / keig_from_krylov; they are left as they are.) *)
From Coq Require Import ZArith Arith List Lia Ring Field Setoid Bool.
From PT Require Import Base.Scalar Base.Field Base.BigSum Base.Mx Model.Tensor Model.Operation Model.Krylov Model.Sweeps
  Proofs.OperationSums Proofs.OperationEntries Proofs.OperationChains Proofs.OperationLocal Proofs.OperationUniform Proofs.OperationTwoSite
  Proofs.KrylovLanczos Proofs.KrylovRitz
  Proofs.SweepsCanon Proofs.SweepsFlow Proofs.SweepsSched Proofs.SweepsLocal Proofs.SweepsGauge Proofs.SweepsBond Proofs.SweepsInv Proofs.SweepsRun
  Proofs.Sweeps2Inv Proofs.Sweeps2Run
  Proofs.LinkFlatten Proofs.LinkLocalOps Proofs.LinkSolvers Proofs.LinkCtx Proofs.Link2Ctx Proofs.LinkSolversCap.
Import ListNotations.

(* what the generic sections need of (keig, cok) *)
Definition keig_entry_spec (F : ofield)
    (keig : nat -> env (Cx F) -> env (Cx F) -> osite (Cx F) -> site (Cx F) -> Cx F * site (Cx F))
    (cok : env (Cx F) -> env (Cx F) -> osite (Cx F) -> site (Cx F) -> Prop) : Prop :=
  forall d Dl Dr Dwl Dwr pos (BL BR : env (Cx F)) (W : osite (Cx F)) (A : site (Cx F)),
    0 < d -> 0 < Dwl -> 0 < Dwr ->
    osite_ok d Dwl Dwr W -> env_ok Dwl Dl Dl BL -> env_ok Dwr Dr Dr BR -> site_ok d Dl Dr A ->
    local_sa F d Dl Dr (apply_local_hamiltonian BL BR W) ->
    site_dot A A <> k0 (Cx F) ->
    cok BL BR W A -> keig_ok d BL BR W A (keig pos BL BR W A).

(* ===================================== single-site ===================================== *)
Section LinkDMRG1Gen.
  Variable F : ofield.
  Notation K := (Cx F).
  Variable qr : nat -> mx K -> list BinNums.Z -> list BinNums.Z -> mx K * mx K * list BinNums.Z.
  Variable keig : nat -> env K -> env K -> osite K -> site K -> K * site K.
  Variable cok : env K -> env K -> osite K -> site K -> Prop.
  Variable Hs : list (osite K).
  Variable qd : list BinNums.Z.
  Variable d : nat.
  Variable DsW : list nat.
  Hypothesis Hd : 0 < d.
  Hypothesis HWs : ochain_ok (repeat d (length Hs)) DsW Hs.
  Hypothesis HhW : hd 0 DsW = 1.
  Hypothesis Hherm : mpo_herm F Hs d.
  Hypothesis Hentry : keig_entry_spec F keig cok.
  Notation L := (length Hs).
  Notation Zi := (Z K Hs d).
  Notation NNi := (NN K Hs d).
  Notation EEi := (EE K Hs d).
  Notation rok := (rtr_ok qr keig Hs d).

  (* per-call contracts of the calls recorded in a trace of single-site DMRG: qr_ok for QR, cok for EIG *)
  Definition gdmrg_call_ok (p : nat) (t : tcall K) : Prop :=
    match c_kind (t_call t), t_envs t, t_ten t, t_qs t with
    | EIG, [BL; BR], [A], _ => cok BL BR (nth (c_site (t_call t)) Hs []) A
    | QR, _, [[M]], [q0; q1] => qr_ok M (qr p M q0 q1)
    | _, _, _, _ => True
    end.
  Fixpoint grtr_ok (tr : list (tcall K)) : Prop :=
    match tr with [] => True | t :: rest => gdmrg_call_ok (length rest) t /\ grtr_ok rest end.
  Lemma grtr_ok_suffix new old : grtr_ok (new ++ old) -> grtr_ok old.
  Proof. induction new as [|t new IH]; [exact (fun H => H)|]. cbn [app grtr_ok]. intros [_ H]. exact (IH H). Qed.

  Lemma g_eig_entry_ok (st : sw K) i p : Zi st i -> NNi (s_A st) = k1 K ->
    cok (gBL st i) (gBR st i) (nth i Hs []) (gA st i) ->
    keig_ok d (gBL st i) (gBR st i) (nth i Hs []) (gA st i) (keig p (gBL st i) (gBR st i) (nth i Hs []) (gA st i)).
  Proof.
    intros HZ HN Hc.
    destruct (Z_local_ctx F Hs d DsW Hd HWs HhW st i HZ) as (Dl & Dr & Dwl & Dwr & Hwl & Hwr & HW & HBL & HBR & HA & N0 & Hsa).
    apply (Hentry d Dl Dr Dwl Dwr); try assumption.
    - apply Hsa. exact Hherm.
    - rewrite <- N0, HN. apply k1_neq_k0.
  Qed.

  Definition GQ (i : nat) (se : sw K * K) : Prop := Zi (fst se) i /\ NNi (s_A (fst se)) = k1 K /\ rok (s_tr (fst se)).

  Lemma g_lr_bridge se i : Zi (fst se) i -> NNi (s_A (fst se)) = k1 K -> rok (s_tr (fst se)) ->
    grtr_ok (s_tr (fst (dmrg1_lr qr keig Hs qd se i))) -> rok (s_tr (fst (dmrg1_lr qr keig Hs qd se i))).
  Proof.
    intros HZ HN Hold Hl. destruct se as [st en0]. cbn [fst] in HZ, HN, Hold.
    unfold dmrg1_lr, lift, upd_BL, dmrg_qr_left, qr_left, dmrg_opt in *. cbv zeta in *. cbn [fst snd] in *.
    destruct (keig (length (s_tr st)) (gBL st i) (gBR st i) (nth i Hs []) (gA st i)) as [en A1].
    cbn [fst snd s_tr s_A s_qD s_BL s_BR] in *.
    destruct (qr _ _ _ _) as [[Q0 C] qb]. cbn [fst snd s_tr] in *.
    destruct Hl as (_ & HQ & HE & _). split; [exact I|]. split; [exact HQ|]. split; [|exact Hold]. exact (g_eig_entry_ok st i (length (s_tr st)) HZ HN HE).
  Qed.
  Lemma g_rl_bridge se i : Zi (fst se) i -> NNi (s_A (fst se)) = k1 K -> rok (s_tr (fst se)) ->
    grtr_ok (s_tr (fst (dmrg1_rl qr keig Hs qd se i))) -> rok (s_tr (fst (dmrg1_rl qr keig Hs qd se i))).
  Proof.
    intros HZ HN Hold Hl. destruct se as [st en0]. cbn [fst] in HZ, HN, Hold.
    unfold dmrg1_rl, lift, upd_BR, dmrg_qr_right, qr_right, dmrg_opt in *. cbv zeta in *. cbn [fst snd] in *.
    destruct (keig (length (s_tr st)) (gBL st i) (gBR st i) (nth i Hs []) (gA st i)) as [en A1].
    cbn [fst snd s_tr s_A s_qD s_BL s_BR] in *.
    destruct (qr _ _ _ _) as [[Q0 C] qb]. cbn [fst snd s_tr] in *.
    destruct Hl as (_ & HQ & HE & _). split; [exact I|]. split; [exact HQ|]. split; [|exact Hold]. exact (g_eig_entry_ok st i (length (s_tr st)) HZ HN HE).
  Qed.
  Lemma g_final_bridge (st : sw K) : rok (s_tr st) -> grtr_ok (s_tr (dmrg_final_qr qr qd st)) -> rok (s_tr (dmrg_final_qr qr qd st)).
  Proof.
    intros Hold Hl. unfold dmrg_final_qr, qr_right in *. cbv zeta in *. destruct (qr _ _ _ _) as [[Q0 C] qb]. cbn [s_tr] in *.
    destruct Hl as (HQ & _). split; [exact HQ|exact Hold].
  Qed.

  Let LBT : K -> Prop := fun _ => True.
  Lemma g_HLBT : forall A : list (site K), NNi A = k1 K -> LBT (EEi A).
  Proof. intros; exact I. Qed.

  Lemma g_step_lr se i : GQ i se -> S i < L -> grtr_ok (s_tr (fst (dmrg1_lr qr keig Hs qd se i))) -> GQ (S i) (dmrg1_lr qr keig Hs qd se i).
  Proof.
    intros (HZ & HN & Hold) HSi Hl. pose proof (g_lr_bridge se i HZ HN Hold Hl) as Hr.
    assert (Hpre : Pre F Hs d (cre (EEi (s_A (fst se)))) i se) by (split; [exact HZ|split; [exact HN|apply fle_refl]]).
    destruct (lr_body F qr keig Hs qd d DsW Hd HWs HhW LBT g_HLBT _ se i Hpre HSi Hr) as (HZ' & HN' & _).
    split; [exact HZ'|]. split; [exact HN'|exact Hr].
  Qed.
  Lemma g_step_rl se i : GQ i se -> 0 < i -> grtr_ok (s_tr (fst (dmrg1_rl qr keig Hs qd se i))) -> GQ (i - 1) (dmrg1_rl qr keig Hs qd se i).
  Proof.
    intros (HZ & HN & Hold) Hi Hl. pose proof (g_rl_bridge se i HZ HN Hold Hl) as Hr.
    assert (Hpre : Pre F Hs d (cre (EEi (s_A (fst se)))) i se) by (split; [exact HZ|split; [exact HN|apply fle_refl]]).
    destruct (rl_body F qr keig Hs qd d DsW Hd HWs HhW LBT g_HLBT _ se i Hpre Hi Hr) as (HZ' & HN' & _).
    split; [exact HZ'|]. split; [exact HN'|exact Hr].
  Qed.

  Lemma g_sweep_bridge (st : sw K) : 2 <= L -> GQ 0 (st, k0 K) ->
    grtr_ok (s_tr (fst (dmrg1_sweep qr keig Hs qd L st))) -> GQ 0 (dmrg1_sweep qr keig Hs qd L st).
  Proof.
    intros HL2 HQ Hok. unfold dmrg1_sweep, lift in *. cbv zeta in *. cbn [fst snd] in *.
    set (se1 := fold_left (dmrg1_lr qr keig Hs qd) (seq 0 (L - 1)) (st, k0 K)) in *.
    set (se2 := fold_left (dmrg1_rl qr keig Hs qd) (rev (seq 1 (L - 1))) se1) in *.
    assert (Hok2 : grtr_ok (s_tr (fst se2))).
    { revert Hok. generalize (fst se2) as st2. intros st2. unfold dmrg_final_qr, qr_right. cbv zeta.
      destruct (qr _ _ _ _) as [[Q0 C] qb]. cbn [s_tr]. intros (_ & H). exact H. }
    assert (Hok1 : grtr_ok (s_tr (fst se1))).
    { destruct (fold_mono (fun se => s_tr (fst se)) (dmrg1_rl qr keig Hs qd) (suf_dmrg1_rl K qr keig Hs qd) (rev (seq 1 (L - 1))) se1) as [new E].
      fold se2 in E. rewrite E in Hok2. exact (grtr_ok_suffix _ _ Hok2). }
    assert (H1 : GQ (0 + (L - 1)) se1).
    { unfold se1.
      apply (fold_up (fun se => s_tr (fst se)) (dmrg1_lr qr keig Hs qd) (suf_dmrg1_lr K qr keig Hs qd) grtr_ok grtr_ok_suffix GQ (L - 1) 0 (st, k0 K) HQ Hok1).
      intros i s' Hi HQi Hoki. apply g_step_lr; [exact HQi|lia|exact Hoki]. }
    assert (H2 : GQ 0 se2).
    { unfold se2.
      apply (fold_down (fun se => s_tr (fst se)) (dmrg1_rl qr keig Hs qd) (suf_dmrg1_rl K qr keig Hs qd) grtr_ok grtr_ok_suffix GQ (L - 1) 0 se1 H1 Hok2).
      intros i s' Hi HQi Hoki. apply g_step_rl; [exact HQi|lia|exact Hoki]. }
    destruct H2 as (HZ2 & HN2 & Hr2).
    pose proof (g_final_bridge (fst se2) Hr2 Hok) as Hr3.
    destruct (final_step F qr keig Hs qd d DsW Hd HWs HhW (fst se2) HZ2 HN2 Hr3) as (HZ3 & HN3 & _).
    split; [exact HZ3|]. split; [exact HN3|exact Hr3].
  Qed.

  Lemma g_loop_bridge n : forall (st : sw K) ens, 2 <= L -> GQ 0 (st, k0 K) ->
    grtr_ok (s_tr (fst (dmrg_loop (dmrg1_sweep qr keig Hs qd L) n st ens))) ->
    rok (s_tr (fst (dmrg_loop (dmrg1_sweep qr keig Hs qd L) n st ens))).
  Proof.
    induction n as [|n IH]; intros st ens HL2 HQ Hok; cbn [dmrg_loop] in *; [cbn [fst]; apply HQ|].
    assert (Hok1 : grtr_ok (s_tr (fst (dmrg1_sweep qr keig Hs qd L st)))).
    { revert Hok. destruct (dmrg1_sweep qr keig Hs qd L st) as [st' en]. cbn [fst]. intros Hok.
      destruct (suf_dmrg_loop F qr keig Hs qd n st' (ens ++ [en])) as [new E]. rewrite E in Hok. exact (grtr_ok_suffix _ _ Hok). }
    pose proof (g_sweep_bridge st HL2 HQ Hok1) as HQ'.
    destruct (dmrg1_sweep qr keig Hs qd L st) as [st' en]. apply IH; [exact HL2| |exact Hok].
    exact HQ'.
  Qed.
End LinkDMRG1Gen.

Arguments grtr_ok {F} qr cok Hs tr.
Arguments gdmrg_call_ok {F} qr cok Hs p t.

(* generic: the per-call trace contract implies the Ritz-level one along every run of dmrg_singlesite *)
Theorem dmrg1_calls_to_ritz_gen (F : ofield) orth qr keig cok (H : mpo (Cx F)) psi n d DsW Ds0 A qD ens tr :
  keig_entry_spec F keig cok ->
  dmrg_singlesite orth qr keig H psi n = Some (A, qD, ens, tr) ->
  mpo_shapeb d DsW (o_A H) = true -> mps_shapeb d Ds0 (m_A (fst (orth psi))) = true ->
  Forall right_iso (m_A (fst (orth psi))) -> 2 <= length (o_A H) ->
  mpo_herm F (o_A H) d ->
  grtr_ok qr cok (o_A H) (rev tr) ->
  rtr_ok qr keig (o_A H) d (rev tr).
Proof.
  intros Hentry Hrun HH Hp Hiso HL2 Hherm Hok.
  unfold dmrg_singlesite in Hrun. destruct (sweep_init orth H psi) as [[st nrm]|] eqn:Einit; [|discriminate].
  assert (Hd : 0 < d).
  { unfold mpo_shapeb in HH. rewrite !andb_true_iff in HH. destruct HH as (((((HH & _) & _) & _) & _) & _). apply Nat.ltb_lt. exact HH. }
  destruct (Z_init (Cx F) d Hd orth H psi st nrm DsW Ds0 Einit HH Hp Hiso) as (HZ & HN & Etr & _ & HWs & HhW).
  destruct (dmrg_loop (dmrg1_sweep qr keig (o_A H) (m_qd psi) (length (o_A H))) n st []) as [st' ens'] eqn:El.
  injection Hrun as <- <- <- <-. rewrite rev_involutive in *.
  pose proof (g_loop_bridge F qr keig cok (o_A H) (m_qd psi) d DsW Hd HWs HhW Hherm Hentry n st [] HL2) as Hb.
  rewrite El in Hb. cbn [fst] in Hb. apply Hb; [|exact Hok].
  split; [exact HZ|]. split; [exact HN|]. cbn [fst]. rewrite Etr. exact I.
Qed.

(* ===================================== two-site ===================================== *)
Section LinkDMRG2Gen.
  Variable F : ofield.
  Notation K := (Cx F).
  Variable qr : nat -> mx K -> list BinNums.Z -> list BinNums.Z -> mx K * mx K * list BinNums.Z.
  Variable split : nat -> site K -> list BinNums.Z -> list BinNums.Z -> list BinNums.Z -> list BinNums.Z -> bool -> site K * site K * list BinNums.Z.
  Variable keig : nat -> env K -> env K -> osite K -> site K -> K * site K.
  Variable cok : env K -> env K -> osite K -> site K -> Prop.
  Variable Hs : list (osite K).
  Variable qd : list BinNums.Z.
  Variable d : nat.
  Variable DsW : list nat.
  Hypothesis Hd : 0 < d.
  Hypothesis HWs : ochain_ok (repeat d (length Hs)) DsW Hs.
  Hypothesis HhW : hd 0 DsW = 1.
  Hypothesis HWst : Forall (osite_struct d) Hs.
  Hypothesis Hherm : mpo_herm F Hs d.
  Hypothesis Hentry : keig_entry_spec F keig cok.
  Notation L := (length Hs).
  Notation Zi := (Z K Hs d).
  Notation Z2i := (Z2 K Hs d).
  Notation NNi := (NN K Hs d).
  Notation EEi := (EE K Hs d).
  Notation rok := (rtr2_ok qr split keig Hs d).

  (* per-call contracts of the calls recorded in a trace of two-site DMRG *)
  Definition gdmrg2_call_ok (p : nat) (t : tcall K) : Prop :=
    let i := c_site (t_call t) in
    match c_kind (t_call t), t_envs t, t_ten t, t_qs t with
    | EIG2, [BL; BR], [Am], _ => cok BL BR (Hm Hs i) Am
    | SPLITL, _, [Am], [q0; q1; q2; q3] => split_ok d true Am (split p Am q0 q1 q2 q3 true)
    | SPLITR, _, [Am], [q0; q1; q2; q3] => split_ok d false Am (split p Am q0 q1 q2 q3 false)
    | QR, _, [[M]], [q0; q1] => qr_ok M (qr p M q0 q1)
    | _, _, _, _ => True
    end.
  Fixpoint grtr2_ok (tr : list (tcall K)) : Prop :=
    match tr with [] => True | t :: rest => gdmrg2_call_ok (length rest) t /\ grtr2_ok rest end.
  Lemma grtr2_ok_suffix new old : grtr2_ok (new ++ old) -> grtr2_ok old.
  Proof. induction new as [|t new IH]; [exact (fun H => H)|]. cbn [app grtr2_ok]. intros [_ H]. exact (IH H). Qed.

  Lemma g_eig2_entry_ok (st : sw K) i p : Z2i st i -> NNi (s_A st) = k1 K ->
    cok (gBL st i) (gBR st (S i)) (Hm Hs i) (c04_merge_site (gA st i) (gA st (S i))) ->
    keig_ok (d * d) (gBL st i) (gBR st (S i)) (Hm Hs i) (c04_merge_site (gA st i) (gA st (S i)))
      (keig p (gBL st i) (gBR st (S i)) (Hm Hs i) (c04_merge_site (gA st i) (gA st (S i)))).
  Proof.
    intros HZ HN Hc.
    destruct (Z2_local_ctx F Hs d DsW Hd HWs HhW HWst st i HZ) as (Dl & Dr & Dwl & Dwr & Hwl & Hwr & HW & HBL & HBR & HA & N0 & Hsa).
    assert (Hdd : 0 < d * d) by (apply Nat.mul_pos_pos; exact Hd).
    apply (Hentry (d * d) Dl Dr Dwl Dwr); try assumption.
    - apply Hsa. exact Hherm.
    - rewrite <- N0, HN. apply (k1_neq_k0 F).
  Qed.

  Lemma g_pair_bridge (se : sw K * K) i left : Z2i (fst se) i -> NNi (s_A (fst se)) = k1 K -> rok (s_tr (fst se)) ->
    grtr2_ok (s_tr (fst (dmrg2_pair split keig Hs qd se i left))) -> rok (s_tr (fst (dmrg2_pair split keig Hs qd se i left))).
  Proof.
    intros HZ HN Hold Hl. destruct se as [st en0]. cbn [fst] in HZ, HN, Hold.
    unfold dmrg2_pair in *. cbv zeta in *. cbn [fst snd] in *.
    destruct (keig (length (s_tr st)) (gBL st i) (gBR st (S i))
                (c04_merge_osite (nth i Hs []) (nth (S i) Hs [])) (c04_merge_site (gA st i) (gA st (S i)))) as [en Am1].
    destruct (split _ _ _ _ _ _ _) as [[A0 A1] qb].
    cbn [fst snd s_tr] in *. destruct Hl as (LS & LK & _).
    split; [|split; [|exact Hold]].
    - unfold gdmrg2_call_ok in LS. unfold dmrg2_call_ok.
      destruct left; cbn [t_call c_kind c_site c_coef t_envs t_ten t_qs length] in *; exact LS.
    - exact (g_eig2_entry_ok st i (length (s_tr st)) HZ HN LK).
  Qed.

  Lemma g_lr_bridge2 se i : Zi (fst se) i -> NNi (s_A (fst se)) = k1 K -> S i < L -> rok (s_tr (fst se)) ->
    grtr2_ok (s_tr (fst (dmrg2_lr split keig Hs qd se i))) -> rok (s_tr (fst (dmrg2_lr split keig Hs qd se i))).
  Proof.
    intros HZ HN HSi Hold Hl. unfold dmrg2_lr, lift in *. cbn [fst snd] in *.
    assert (Hl1 : grtr2_ok (s_tr (fst (dmrg2_pair split keig Hs qd se i false)))) by (unfold upd_BL in Hl; cbn [s_tr] in Hl; exact (proj2 Hl)).
    unfold upd_BL. cbn [s_tr]. split; [exact I|].
    apply g_pair_bridge; [apply (Z_Z2_left K Hs d DsW Hd HhW); assumption|exact HN|exact Hold|exact Hl1].
  Qed.
  Lemma g_rl_bridge2 se i : Z2i (fst se) i -> NNi (s_A (fst se)) = k1 K -> rok (s_tr (fst se)) ->
    grtr2_ok (s_tr (fst (dmrg2_rl split keig Hs qd se i))) -> rok (s_tr (fst (dmrg2_rl split keig Hs qd se i))).
  Proof.
    intros HZ HN Hold Hl. unfold dmrg2_rl, lift in *. cbn [fst snd] in *.
    assert (Hl1 : grtr2_ok (s_tr (fst (dmrg2_pair split keig Hs qd se i true)))) by (unfold upd_BR in Hl; cbn [s_tr] in Hl; exact (proj2 Hl)).
    unfold upd_BR. cbn [s_tr]. split; [exact I|].
    apply g_pair_bridge; assumption.
  Qed.
  Lemma g_final_bridge2 (st : sw K) : rok (s_tr st) -> grtr2_ok (s_tr (dmrg_final_qr qr qd st)) -> rok (s_tr (dmrg_final_qr qr qd st)).
  Proof.
    intros Hold Hl. unfold dmrg_final_qr, qr_right in *. cbv zeta in *. destruct (qr _ _ _ _) as [[Q0 C] qb]. cbn [s_tr] in *.
    destruct Hl as (HQ & _). split; [exact HQ|exact Hold].
  Qed.

  Let LBT : K -> Prop := fun _ => True.
  Lemma g_HLBT2 : forall A : list (site K), NNi A = k1 K -> LBT (EEi A).
  Proof. intros; exact I. Qed.

  Definition GQ2 (i : nat) (se : sw K * K) : Prop := Zi (fst se) i /\ NNi (s_A (fst se)) = k1 K /\ rok (s_tr (fst se)).

  Lemma g_step_lr2 se i : GQ2 i se -> S i < L -> grtr2_ok (s_tr (fst (dmrg2_lr split keig Hs qd se i))) -> GQ2 (S i) (dmrg2_lr split keig Hs qd se i).
  Proof.
    intros (HZ & HN & Hold) HSi Hl. pose proof (g_lr_bridge2 se i HZ HN HSi Hold Hl) as Hr.
    assert (Hpre : Pre F Hs d (cre (EEi (s_A (fst se)))) i se) by (split; [exact HZ|split; [exact HN|apply fle_refl]]).
    destruct (dmrg2_lr_body F qr split keig Hs qd d DsW Hd HWs HhW HWst LBT g_HLBT2 _ se i Hpre HSi Hr) as (HZ' & HN' & _).
    split; [exact HZ'|]. split; [exact HN'|exact Hr].
  Qed.
  Lemma g_step_rl2 se i : Z2i (fst se) i -> NNi (s_A (fst se)) = k1 K -> rok (s_tr (fst se)) ->
    grtr2_ok (s_tr (fst (dmrg2_rl split keig Hs qd se i))) -> GQ2 i (dmrg2_rl split keig Hs qd se i).
  Proof.
    intros HZ HN Hold Hl. pose proof (g_rl_bridge2 se i HZ HN Hold Hl) as Hr.
    destruct (dmrg2_rl_body2 F qr split keig Hs qd d DsW Hd HWs HhW HWst LBT g_HLBT2 (cre (EEi (s_A (fst se)))) se i HZ HN (fle_refl F _) Hr) as (HZ' & HN' & _).
    split; [exact HZ'|]. split; [exact HN'|exact Hr].
  Qed.

  Lemma g_sweep_bridge2 (st : sw K) : 2 <= L -> GQ2 0 (st, k0 K) ->
    grtr2_ok (s_tr (fst (dmrg2_sweep qr split keig Hs qd L st))) -> GQ2 0 (dmrg2_sweep qr split keig Hs qd L st).
  Proof.
    intros HL2 HQ Hok. unfold dmrg2_sweep, lift in *. cbv zeta in *. cbn [fst snd] in *.
    set (se1 := fold_left (dmrg2_lr split keig Hs qd) (seq 0 (L - 2)) (st, k0 K)) in *.
    replace (L - 1) with (S (L - 2)) in * by lia. rewrite seq_S, rev_app_distr in *. cbn [rev app fold_left Nat.add] in *.
    set (sem := dmrg2_rl split keig Hs qd se1 (L - 2)) in *.
    set (se2 := fold_left (dmrg2_rl split keig Hs qd) (rev (seq 0 (L - 2))) sem) in *.
    assert (Hok2 : grtr2_ok (s_tr (fst se2))).
    { revert Hok. generalize (fst se2) as st2. intros st2. unfold dmrg_final_qr, qr_right. cbv zeta.
      destruct (qr _ _ _ _) as [[Q0 C] qb]. cbn [s_tr]. intros (_ & H). exact H. }
    assert (Hokm : grtr2_ok (s_tr (fst sem))).
    { destruct (fold_mono (fun se => s_tr (fst se)) (dmrg2_rl split keig Hs qd) (suf_dmrg2_rl F split keig Hs qd) (rev (seq 0 (L - 2))) sem) as [new E].
      fold se2 in E. rewrite E in Hok2. exact (grtr2_ok_suffix _ _ Hok2). }
    assert (Hok1 : grtr2_ok (s_tr (fst se1))).
    { destruct (suf_dmrg2_rl F split keig Hs qd se1 (L - 2)) as [new E]. fold sem in E. rewrite E in Hokm. exact (grtr2_ok_suffix _ _ Hokm). }
    assert (H1 : GQ2 (0 + (L - 2)) se1).
    { unfold se1.
      apply (fold_up (fun se => s_tr (fst se)) (dmrg2_lr split keig Hs qd) (suf_dmrg2_lr F split keig Hs qd) grtr2_ok grtr2_ok_suffix GQ2 (L - 2) 0 (st, k0 K) HQ Hok1).
      intros i s' Hi HQi Hoki. apply g_step_lr2; [exact HQi|lia|exact Hoki]. }
    cbn [Nat.add] in H1.
    assert (Hm1 : GQ2 (L - 2) sem).
    { destruct H1 as (HZ1 & HN1 & Hr1). apply (g_step_rl2 se1 (L - 2)); try assumption.
      apply (Z_Z2_left K Hs d DsW Hd HhW); [exact HZ1|lia]. }
    assert (H2 : GQ2 0 se2).
    { unfold se2.
      apply (fold_down0 (fun se => s_tr (fst se)) (dmrg2_rl split keig Hs qd) (suf_dmrg2_rl F split keig Hs qd) grtr2_ok grtr2_ok_suffix GQ2 (L - 2) sem Hm1 Hok2).
      intros i s' Hi (HZs & HNs & Hrs) Hoki.
      apply (g_step_rl2 s' i); try assumption. apply (Z_Z2_right K Hs d DsW Hd HhW). exact HZs. }
    destruct H2 as (HZ2 & HN2 & Hr2).
    pose proof (g_final_bridge2 (fst se2) Hr2 Hok) as Hr3.
    destruct (final_step2 F qr split keig Hs qd d DsW Hd HWs HhW (fst se2) HZ2 HN2 Hr3) as (HZ3 & HN3 & _).
    split; [exact HZ3|]. split; [exact HN3|exact Hr3].
  Qed.

  Lemma g_loop_bridge2 n : forall (st : sw K) ens, 2 <= L -> GQ2 0 (st, k0 K) ->
    grtr2_ok (s_tr (fst (dmrg_loop (dmrg2_sweep qr split keig Hs qd L) n st ens))) ->
    rok (s_tr (fst (dmrg_loop (dmrg2_sweep qr split keig Hs qd L) n st ens))).
  Proof.
    induction n as [|n IH]; intros st ens HL2 HQ Hok; cbn [dmrg_loop] in *; [cbn [fst]; apply HQ|].
    assert (Hok1 : grtr2_ok (s_tr (fst (dmrg2_sweep qr split keig Hs qd L st)))).
    { revert Hok. destruct (dmrg2_sweep qr split keig Hs qd L st) as [st' en]. cbn [fst]. intros Hok.
      destruct (suf_dmrg2_loop F qr split keig Hs qd n st' (ens ++ [en])) as [new E]. rewrite E in Hok. exact (grtr2_ok_suffix _ _ Hok). }
    pose proof (g_sweep_bridge2 st HL2 HQ Hok1) as HQ'.
    destruct (dmrg2_sweep qr split keig Hs qd L st) as [st' en]. apply IH; [exact HL2| |exact Hok].
    exact HQ'.
  Qed.
End LinkDMRG2Gen.

Arguments grtr2_ok {F} qr split cok Hs d tr.
Arguments gdmrg2_call_ok {F} qr split cok Hs d p t.

Theorem dmrg2_calls_to_ritz_gen (F : ofield) orth qr split keig cok (H : mpo (Cx F)) psi n d DsW Ds0 A qD ens tr :
  keig_entry_spec F keig cok ->
  dmrg_twosite orth qr split keig H psi n = Some (A, qD, ens, tr) ->
  mpo_shapeb d DsW (o_A H) = true -> mps_shapeb d Ds0 (m_A (fst (orth psi))) = true ->
  Forall right_iso (m_A (fst (orth psi))) -> 2 <= length (o_A H) ->
  mpo_herm F (o_A H) d ->
  grtr2_ok qr split cok (o_A H) d (rev tr) ->
  rtr2_ok qr split keig (o_A H) d (rev tr).
Proof.
  intros Hentry Hrun HH Hp Hiso HL2 Hherm Hok.
  unfold dmrg_twosite in Hrun. destruct (sweep_init orth H psi) as [[st nrm]|] eqn:Einit; [|discriminate].
  assert (Hd : 0 < d).
  { unfold mpo_shapeb in HH. rewrite !andb_true_iff in HH. destruct HH as (((((HH & _) & _) & _) & _) & _). apply Nat.ltb_lt. exact HH. }
  destruct (Z_init (Cx F) d Hd orth H psi st nrm DsW Ds0 Einit HH Hp Hiso) as (HZ & HN & Etr & _ & HWs & HhW).
  pose proof (mpo_shapeb_struct (Cx F) d DsW (o_A H) HH) as HWst.
  destruct (dmrg_loop (dmrg2_sweep qr split keig (o_A H) (m_qd psi) (length (o_A H))) n st []) as [st' ens'] eqn:El.
  injection Hrun as <- <- <- <-. rewrite rev_involutive in *.
  pose proof (g_loop_bridge2 F qr split keig cok (o_A H) (m_qd psi) d DsW Hd HWs HhW HWst Hherm Hentry n st [] HL2) as Hb.
  rewrite El in Hb. cbn [fst] in Hb. apply Hb; [|exact Hok].
  split; [exact HZ|]. split; [exact HN|]. cbn [fst]. rewrite Etr. exact I.
Qed.

(* ===================================== the capped solver ===================================== *)
(* LAPACK-level trace contracts for runs with the repaired solver: as lrtr_ok / lrtr2_ok, with the primitives' contracts on the
   calls of the CAPPED Lanczos run (min(numiter, Astart.size) iterations) of every EIG / EIG2 entry *)
Definition lrtr_cap_ok {F : ofield} qr dnorm small deigh numiter (Hs : list (osite (Cx F))) (tr : list (tcall (Cx F))) : Prop :=
  grtr_ok qr (keig_lanczos_cap_calls_ok F dnorm small deigh numiter) Hs tr.
Definition lrtr2_cap_ok {F : ofield} qr split dnorm small deigh numiter (Hs : list (osite (Cx F))) (d : nat) (tr : list (tcall (Cx F))) : Prop :=
  grtr2_ok qr split (keig_lanczos_cap_calls_ok F dnorm small deigh numiter) Hs d tr.

Lemma keig_cap_entry_spec (F : ofield) dnorm small deigh numiter : small_sound F small -> 1 <= numiter ->
  keig_entry_spec F (keig_lanczos_cap F dnorm small deigh numiter) (keig_lanczos_cap_calls_ok F dnorm small deigh numiter).
Proof.
  intros Hsm Hm d Dl Dr Dwl Dwr pos BL BR W A.
  exact (keig_cap_from_krylov F dnorm small deigh numiter Hsm Hm d Dl Dr Dwl Dwr pos BL BR W A).
Qed.

(* per entry, two-site: an EIG2 call issued at a state satisfying Z2 with norm one meets keig_ok (d*d) *)
Theorem eig2_entry_cap_from_krylov (F : ofield) dnorm small deigh numiter (Hs : list (osite (Cx F))) d DsW :
  0 < d -> ochain_ok (repeat d (length Hs)) DsW Hs -> hd 0 DsW = 1 -> Forall (osite_struct d) Hs ->
  mpo_herm F Hs d -> small_sound F small -> 1 <= numiter ->
  forall (st : sw (Cx F)) i p, Z2 (Cx F) Hs d st i -> NN (Cx F) Hs d (s_A st) = k1 (Cx F) ->
  let Am := c04_merge_site (gA st i) (gA st (S i)) in
  keig_lanczos_cap_calls_ok F dnorm small deigh numiter (gBL st i) (gBR st (S i)) (Hm Hs i) Am ->
  keig_ok (d * d) (gBL st i) (gBR st (S i)) (Hm Hs i) Am
    (keig_lanczos_cap F dnorm small deigh numiter p (gBL st i) (gBR st (S i)) (Hm Hs i) Am).
Proof.
  intros Hd HWs HhW HWst Hherm Hsm Hnit st i p HZ HN Am.
  exact (g_eig2_entry_ok F (keig_lanczos_cap F dnorm small deigh numiter) (keig_lanczos_cap_calls_ok F dnorm small deigh numiter)
           Hs d DsW Hd HWs HhW HWst Hherm (keig_cap_entry_spec F dnorm small deigh numiter Hsm Hnit) st i p HZ HN).
Qed.

Theorem dmrg1_lapack_to_ritz_cap (F : ofield) orth qr dnorm small deigh numiter (H : mpo (Cx F)) psi n d DsW Ds0 A qD ens tr :
  dmrg_singlesite orth qr (keig_lanczos_cap F dnorm small deigh numiter) H psi n = Some (A, qD, ens, tr) ->
  mpo_shapeb d DsW (o_A H) = true -> mps_shapeb d Ds0 (m_A (fst (orth psi))) = true ->
  Forall right_iso (m_A (fst (orth psi))) -> 2 <= length (o_A H) ->
  mpo_herm F (o_A H) d -> small_sound F small -> 1 <= numiter ->
  lrtr_cap_ok qr dnorm small deigh numiter (o_A H) (rev tr) ->
  rtr_ok qr (keig_lanczos_cap F dnorm small deigh numiter) (o_A H) d (rev tr).
Proof.
  intros Hrun HH Hp Hiso HL2 Hherm Hsm Hm Hok.
  exact (dmrg1_calls_to_ritz_gen F orth qr _ _ H psi n d DsW Ds0 A qD ens tr
           (keig_cap_entry_spec F dnorm small deigh numiter Hsm Hm) Hrun HH Hp Hiso HL2 Hherm Hok).
Qed.

Theorem dmrg1_run_lapack_cap (F : ofield) orth qr dnorm small deigh numiter (H : mpo (Cx F)) psi n d DsW Ds0 lam A qD ens tr :
  dmrg_singlesite orth qr (keig_lanczos_cap F dnorm small deigh numiter) H psi n = Some (A, qD, ens, tr) ->
  mpo_shapeb d DsW (o_A H) = true -> mps_shapeb d Ds0 (m_A (fst (orth psi))) = true ->
  Forall right_iso (m_A (fst (orth psi))) ->
  2 <= length (o_A H) -> bounded_below d (length (o_A H)) (o_A H) lam ->
  mpo_herm F (o_A H) d -> small_sound F small -> 1 <= numiter ->
  lrtr_cap_ok qr dnorm small deigh numiter (o_A H) (rev tr) ->
  let L := length (o_A H) in
  let E0 := denergy d L (m_A (fst (orth psi))) (o_A H) in
  dnorm2 d L A = k1 (Cx F) /\ length ens = n /\
  Forall (fun e => fle F lam (cre e) /\ fle F (cre e) (cre E0)) ens /\ noninc ens /\
  (ens <> [] -> last ens (k0 (Cx F)) = denergy d L A (o_A H)).
Proof.
  intros Hrun HH Hp Hiso HL2 Hlam Hherm Hsm Hm Hok.
  apply (dmrg1_run F orth qr (keig_lanczos_cap F dnorm small deigh numiter) H psi n d DsW Ds0 lam A qD ens tr); try assumption.
  apply (dmrg1_lapack_to_ritz_cap F orth qr dnorm small deigh numiter H psi n d DsW Ds0 A qD ens tr); assumption.
Qed.

Theorem dmrg2_lapack_to_ritz_cap (F : ofield) orth qr split dnorm small deigh numiter (H : mpo (Cx F)) psi n d DsW Ds0 A qD ens tr :
  dmrg_twosite orth qr split (keig_lanczos_cap F dnorm small deigh numiter) H psi n = Some (A, qD, ens, tr) ->
  mpo_shapeb d DsW (o_A H) = true -> mps_shapeb d Ds0 (m_A (fst (orth psi))) = true ->
  Forall right_iso (m_A (fst (orth psi))) -> 2 <= length (o_A H) ->
  mpo_herm F (o_A H) d -> small_sound F small -> 1 <= numiter ->
  lrtr2_cap_ok qr split dnorm small deigh numiter (o_A H) d (rev tr) ->
  rtr2_ok qr split (keig_lanczos_cap F dnorm small deigh numiter) (o_A H) d (rev tr).
Proof.
  intros Hrun HH Hp Hiso HL2 Hherm Hsm Hm Hok.
  exact (dmrg2_calls_to_ritz_gen F orth qr split _ _ H psi n d DsW Ds0 A qD ens tr
           (keig_cap_entry_spec F dnorm small deigh numiter Hsm Hm) Hrun HH Hp Hiso HL2 Hherm Hok).
Qed.

Theorem dmrg2_run_lapack_cap (F : ofield) orth qr split dnorm small deigh numiter (H : mpo (Cx F)) psi n d DsW Ds0 lam A qD ens tr :
  dmrg_twosite orth qr split (keig_lanczos_cap F dnorm small deigh numiter) H psi n = Some (A, qD, ens, tr) ->
  mpo_shapeb d DsW (o_A H) = true -> mps_shapeb d Ds0 (m_A (fst (orth psi))) = true ->
  Forall right_iso (m_A (fst (orth psi))) ->
  2 <= length (o_A H) -> bounded_below d (length (o_A H)) (o_A H) lam ->
  mpo_herm F (o_A H) d -> small_sound F small -> 1 <= numiter ->
  lrtr2_cap_ok qr split dnorm small deigh numiter (o_A H) d (rev tr) ->
  let L := length (o_A H) in
  let E0 := denergy d L (m_A (fst (orth psi))) (o_A H) in
  dnorm2 d L A = k1 (Cx F) /\ length ens = n /\
  Forall (fun e => fle F lam (cre e) /\ fle F (cre e) (cre E0)) ens /\ noninc ens /\
  (ens <> [] -> last ens (k0 (Cx F)) = denergy d L A (o_A H)).
Proof.
  intros Hrun HH Hp Hiso HL2 Hlam Hherm Hsm Hm Hok.
  apply (dmrg2_run F orth qr split (keig_lanczos_cap F dnorm small deigh numiter) H psi n d DsW Ds0 lam A qD ens tr); try assumption.
  apply (dmrg2_lapack_to_ritz_cap F orth qr split dnorm small deigh numiter H psi n d DsW Ds0 A qD ens tr); assumption.
Qed.
