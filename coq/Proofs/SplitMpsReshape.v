(* C12 / split_mps_tensor: the reshapes.  A two-site tensor A (d0*d1 matrices D0 x D2) and its matricisation
   M = split_matrix d0 d1 A ((d0*D0) x (d1*D2)); site tensors cut out of the rows of a left factor p and the columns
   of a right factor q.  Sums over all entries of the tensors are sums over all entries of the matrices. *)
From Coq Require Import ZArith List Lia Bool Arith Ring.
From PT Require Import Base.Scalar Base.BigSum Base.Mx Model.Tensor Model.MPSOps.
From PT Require Import Proofs.MPSOpsBase Proofs.MPSOpsMul Proofs.MPSOpsDense Proofs.MPSOpsSplit.
Import ListNotations.
Open Scope nat_scope.

Section Reshape.
  Variable R : cring.
  Add Ring Rring_splitreshape : (k_rt R).
  Notation rO := (k0 R). Notation rI := (k1 R).
  Infix "*!" := (kmul R) (at level 40, left associativity).
  Notation cj := (kconj R).
  Notation mx := (mx R).
  Notation site := (site R).

  (* sites cut out of a left factor (entries p r i, r = s0*D0 + a) and of a right factor (entries q i c', c' = s1*D2 + c) *)
  Definition lsite (d0 D0 k : nat) (p : nat -> nat -> R) : site :=
    stab d0 (fun s0 => tab D0 k (fun a i => p (s0 * D0 + a) i)).
  Definition rsite (d1 D2 k : nat) (q : nat -> nat -> R) : site :=
    stab d1 (fun s1 => tab k D2 (fun i c => q i (s1 * D2 + c))).

  Lemma length_lsite d0 D0 k p : length (lsite d0 D0 k p) = d0. Proof. apply length_stab. Qed.
  Lemma length_rsite d1 D2 k q : length (rsite d1 D2 k q) = d1. Proof. apply length_stab. Qed.

  Lemma nth_flat_map_map2 {A B C} (g : A -> B -> C) (l1 : list A) (l2 : list B) i j dA dB dC :
    i < length l1 -> j < length l2 ->
    nth (i * length l2 + j) (flat_map (fun x => map (g x) l2) l1) dC = g (nth i l1 dA) (nth j l2 dB).
  Proof.
    revert i; induction l1 as [|a l1 IH]; intros i Hi Hj; simpl in Hi; [lia|]. simpl flat_map.
    destruct i as [|i].
    - simpl. rewrite app_nth1 by (rewrite map_length; exact Hj).
      rewrite (nth_indep _ dC (g a dB)) by (rewrite map_length; exact Hj). apply map_nth.
    - rewrite app_nth2 by (rewrite map_length; simpl; lia). rewrite map_length.
      replace (S i * length l2 + j - length l2) with (i * length l2 + j) by (simpl; lia).
      simpl nth. apply IH; [lia|exact Hj].
  Qed.
  Lemma length_flat_map_map2 {A B C} (g : A -> B -> C) (l1 : list A) (l2 : list B) :
    length (flat_map (fun x => map (g x) l2) l1) = length l1 * length l2.
  Proof. induction l1 as [|a l1 IH]; simpl; [reflexivity|]. rewrite app_length, map_length, IH. reflexivity. Qed.

  Lemma length_merge2 (A0 A1 : site) : length (merge_mps_tensor_pair A0 A1) = length A0 * length A1.
  Proof. unfold merge_mps_tensor_pair. apply length_flat_map_map2. Qed.
  Lemma sel_merge2 (A0 A1 : site) s0 s1 : s0 < length A0 -> s1 < length A1 ->
    sel (merge_mps_tensor_pair A0 A1) (s0 * length A1 + s1) = mulmx (sel A0 s0) (sel A1 s1).
  Proof. intros H0 H1. unfold sel, merge_mps_tensor_pair. apply (nth_flat_map_map2 (@mulmx R)); assumption. Qed.

  (* entries of the merged pair: the matrix product of the two factors *)
  Lemma get_merge_lr d0 d1 D0 D2 k p q s0 s1 a c : s0 < d0 -> s1 < d1 -> a < D0 -> c < D2 ->
    get (sel (merge_mps_tensor_pair (lsite d0 D0 k p) (rsite d1 D2 k q)) (s0 * d1 + s1)) a c
    = sumn k (fun l => p (s0 * D0 + a) l *! q l (s1 * D2 + c)).
  Proof.
    intros Hs0 Hs1 Ha Hc.
    replace (s0 * d1 + s1) with (s0 * length (rsite d1 D2 k q) + s1) by (rewrite length_rsite; reflexivity).
    rewrite sel_merge2 by (rewrite ?length_lsite, ?length_rsite; assumption).
    unfold lsite, rsite. rewrite !sel_stab by assumption.
    rewrite get_mulmx by (rewrite ?nr_tab, ?nc_tab; assumption). rewrite nc_tab.
    apply sumn_ext. intros l Hl. rewrite !get_tab by assumption. reflexivity.
  Qed.

  Lemma shape_merge_lr d0 d1 D0 D2 k p q :
    site_shape (d0 * d1) D0 D2 (merge_mps_tensor_pair (lsite d0 D0 k p) (rsite d1 D2 k q)) = true.
  Proof.
    unfold site_shape. rewrite length_merge2, length_lsite, length_rsite, Nat.eqb_refl. cbn [andb].
    apply forallb_forall. intros M HM. unfold merge_mps_tensor_pair in HM. apply in_flat_map in HM.
    destruct HM as (M0 & HM0 & HM). apply in_map_iff in HM. destruct HM as (M1 & <- & HM1).
    unfold lsite, stab in HM0. apply in_map_iff in HM0. destruct HM0 as (s0 & <- & _).
    unfold rsite, stab in HM1. apply in_map_iff in HM1. destruct HM1 as (s1 & <- & _).
    rewrite nr_mulmx, nc_mulmx, !nr_tab, !nc_tab, !Nat.eqb_refl.
    assert (W : wfb (mulmx (tab D0 k (fun a i => p (s0 * D0 + a) i)) (tab k D2 (fun i c => q i (s1 * D2 + c)))) = true).
    { unfold mulmx. unfold wfb, tab. cbn [dat nr nc]. rewrite map_length, seq_length, Nat.eqb_refl. cbn [andb].
      apply forallb_forall. intros r Hr. apply in_map_iff in Hr. destruct Hr as (i & <- & _).
      rewrite map_length, seq_length. apply Nat.eqb_refl. }
    rewrite W. reflexivity.
  Qed.

  (* entries of the matricisation *)
  Lemma get_split_matrix d0 d1 D0 D2 (A : site) s0 s1 a c :
    site_shape (d0 * d1) D0 D2 A = true -> s0 < d0 -> s1 < d1 -> a < D0 -> c < D2 ->
    get (split_matrix d0 d1 A) (s0 * D0 + a) (s1 * D2 + c) = get (sel A (s0 * d1 + s1)) a c.
  Proof.
    intros HA Hs0 Hs1 Ha Hc.
    assert (Hpos : 0 < d0 * d1) by nia.
    destruct (site_shape_sel _ _ _ _ _ 0 HA Hpos) as (_ & HD0 & HD2).
    unfold split_matrix. rewrite HD0, HD2. rewrite get_tab by nia.
    rewrite !div_flat, !mod_flat by assumption. reflexivity.
  Qed.
  Lemma nr_split_matrix d0 d1 D0 D2 (A : site) : site_shape (d0 * d1) D0 D2 A = true -> 0 < d0 * d1 ->
    nr (split_matrix d0 d1 A) = d0 * D0.
  Proof. intros HA Hpos. destruct (site_shape_sel _ _ _ _ _ 0 HA Hpos) as (_ & HD0 & _). unfold split_matrix. rewrite nr_tab, HD0. reflexivity. Qed.
  Lemma nc_split_matrix d0 d1 D0 D2 (A : site) : site_shape (d0 * d1) D0 D2 A = true -> 0 < d0 * d1 ->
    nc (split_matrix d0 d1 A) = d1 * D2.
  Proof. intros HA Hpos. destruct (site_shape_sel _ _ _ _ _ 0 HA Hpos) as (_ & _ & HD2). unfold split_matrix. rewrite nc_tab, HD2. reflexivity. Qed.

  (* the sum over (s0, s1, a, c) in tensor order equals the sum in matrix order ((s0, a), (s1, c)) *)
  Lemma sum4_reindex d0 d1 D0 D2 (f : nat -> nat -> nat -> nat -> R) :
    sumn (d0 * d1) (fun s => sumn D0 (fun a => sumn D2 (fun c => f (s / d1) (s mod d1) a c)))
    = sumn d0 (fun s0 => sumn D0 (fun a => sumn d1 (fun s1 => sumn D2 (fun c => f s0 s1 a c)))).
  Proof.
    rewrite sumn_flatten. apply sumn_ext. intros s0 Hs0.
    rewrite sumn_exch. apply sumn_ext. intros a Ha. apply sumn_ext. intros s1 Hs1.
    rewrite div_flat, mod_flat by exact Hs1. reflexivity.
  Qed.
  Lemma sum4_matrix d0 d1 D0 D2 (g : nat -> nat -> R) :
    sumn (d0 * D0) (fun i => sumn (d1 * D2) (fun j => g i j))
    = sumn d0 (fun s0 => sumn D0 (fun a => sumn d1 (fun s1 => sumn D2 (fun c => g (s0 * D0 + a) (s1 * D2 + c))))).
  Proof.
    rewrite sumn_flatten. apply sumn_ext. intros s0 Hs0. apply sumn_ext. intros a Ha. apply sumn_flatten.
  Qed.

  (* a sum over all entries of two tensors of the same shape as a sum over the entries of the matricisations *)
  Lemma sum_sites_as_matrix d0 d1 D0 D2 (X Y : site) (h : R -> R -> R) (gX gY : nat -> nat -> R) :
    0 < d1 ->
    (forall s0 s1 a c, s0 < d0 -> s1 < d1 -> a < D0 -> c < D2 -> get (sel X (s0 * d1 + s1)) a c = gX (s0 * D0 + a) (s1 * D2 + c)) ->
    (forall s0 s1 a c, s0 < d0 -> s1 < d1 -> a < D0 -> c < D2 -> get (sel Y (s0 * d1 + s1)) a c = gY (s0 * D0 + a) (s1 * D2 + c)) ->
    sumn (d0 * d1) (fun s => sumn D0 (fun a => sumn D2 (fun c => h (get (sel X s) a c) (get (sel Y s) a c))))
    = sumn (d0 * D0) (fun i => sumn (d1 * D2) (fun j => h (gX i j) (gY i j))).
  Proof.
    intros Hd1 HX HY.
    rewrite (sum4_matrix d0 d1 D0 D2 (fun i j => h (gX i j) (gY i j))).
    rewrite <- (sum4_reindex d0 d1 D0 D2 (fun s0 s1 a c => h (gX (s0 * D0 + a) (s1 * D2 + c)) (gY (s0 * D0 + a) (s1 * D2 + c)))).
    apply sumn_ext. intros s Hs. apply sumn_ext. intros a Ha. apply sumn_ext. intros c Hc.
    assert (Es : s = s / d1 * d1 + s mod d1) by (rewrite Nat.mul_comm; apply Nat.div_mod; lia).
    assert (H0 : s / d1 < d0) by (apply Nat.div_lt_upper_bound; [lia|rewrite Nat.mul_comm; exact Hs]).
    assert (H1 : s mod d1 < d1) by (apply Nat.mod_upper_bound; lia).
    rewrite Es at 1 2. rewrite HX, HY by assumption. reflexivity.
  Qed.

  (* Gram sums of the cut-out sites are Gram sums of the factors *)
  Lemma lsite_gram d0 D0 k p i j : i < k -> j < k ->
    sumn (length (lsite d0 D0 k p)) (fun s => sumn D0 (fun a =>
       cj (get (sel (lsite d0 D0 k p) s) a i) *! get (sel (lsite d0 D0 k p) s) a j))
    = sumn (d0 * D0) (fun r => cj (p r i) *! p r j).
  Proof.
    intros Hi Hj. rewrite length_lsite, sumn_flatten. apply sumn_ext. intros s Hs. apply sumn_ext. intros a Ha.
    unfold lsite. rewrite sel_stab by exact Hs. rewrite !get_tab by assumption. reflexivity.
  Qed.
  Lemma rsite_gram d1 D2 k q i j : i < k -> j < k ->
    sumn (length (rsite d1 D2 k q)) (fun s => sumn D2 (fun c =>
       get (sel (rsite d1 D2 k q) s) i c *! cj (get (sel (rsite d1 D2 k q) s) j c)))
    = sumn (d1 * D2) (fun r => q i r *! cj (q j r)).
  Proof.
    intros Hi Hj. rewrite length_rsite, sumn_flatten. apply sumn_ext. intros s Hs. apply sumn_ext. intros c Hc.
    unfold rsite. rewrite sel_stab by exact Hs. rewrite !get_tab by assumption. reflexivity.
  Qed.

  (* two tensors of the same shape with the same entries are equal *)
  Lemma site_ext d D0 D2 (X Y : site) : site_shape d D0 D2 X = true -> site_shape d D0 D2 Y = true ->
    (forall s a c, s < d -> a < D0 -> c < D2 -> get (sel X s) a c = get (sel Y s) a c) -> X = Y.
  Proof.
    intros HX HY H.
    rewrite (site_as_tab R d X (site_shape_length _ _ _ _ _ HX)), (site_as_tab R d Y (site_shape_length _ _ _ _ _ HY)).
    apply map_ext_in. intros s Hs. apply in_seq in Hs.
    destruct (site_shape_sel _ _ _ _ _ s HX ltac:(lia)) as (wX & rX & cX).
    destruct (site_shape_sel _ _ _ _ _ s HY ltac:(lia)) as (wY & rY & cY).
    apply mx_ext; try assumption; try congruence.
    rewrite rX, cX. intros a c Ha Hc. apply H; [lia|assumption|assumption].
  Qed.

  (* if the product of the factors is the matricisation, merging the cut-out sites gives the tensor back *)
  Lemma merge_lr_exact d0 d1 D0 D2 k p q (A : site) :
    site_shape (d0 * d1) D0 D2 A = true -> 0 < d0 * d1 ->
    (forall i j, i < d0 * D0 -> j < d1 * D2 -> sumn k (fun l => p i l *! q l j) = get (split_matrix d0 d1 A) i j) ->
    merge_mps_tensor_pair (lsite d0 D0 k p) (rsite d1 D2 k q) = A.
  Proof.
    intros HA Hpos H. apply (site_ext (d0 * d1) D0 D2); [apply shape_merge_lr|exact HA|].
    intros s a c Hs Ha Hc.
    assert (Hd1 : 0 < d1) by nia.
    assert (Es : s = s / d1 * d1 + s mod d1) by (rewrite Nat.mul_comm; apply Nat.div_mod; lia).
    assert (H0 : s / d1 < d0) by (apply Nat.div_lt_upper_bound; [lia|rewrite Nat.mul_comm; exact Hs]).
    assert (H1 : s mod d1 < d1) by (apply Nat.mod_upper_bound; lia).
    rewrite Es. rewrite get_merge_lr by assumption. rewrite H by nia.
    apply get_split_matrix; assumption.
  Qed.
End Reshape.

Arguments lsite {R} d0 D0 k p. Arguments rsite {R} d1 D2 k q.
