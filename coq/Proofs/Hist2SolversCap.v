(* C02, block sparsity through the REPAIRED local eigensolver of minimization.py (Proofs/LinkSolversCap.v):

     def _minimize_local_energy(L, R, W, Astart, numiter: int):
         numiter = min(numiter, Astart.size)
         w, u_ritz = eigh_krylov(..., Astart.reshape(-1), numiter, 1)

   [keig_lanczos_cap] is [keig_lanczos] run with the capped iteration count, and the pattern theorems of Proofs/Hist2Krylov.v /
   Hist2Solvers.v hold for EVERY iteration count (no contract on the numerical primitives), so the capped corollaries are
   instances: the answer is charge conserving under the charges of its start tensor whenever the call returns, where "returns"
   now refers to the capped run ([keig_lanczos_cap_returns]; for a zero-size start tensor the cap is 0 and the call does not
   return: the code raises on the zero norm).  The per-call sparsity contracts [sp_call_ok] / [sp2_call_ok] of whole sweeps
   (Proofs/Hist2Sweep.v, Hist3Sweep2.v) are generic in the eigensolver; below they are derived for the capped solver. *)
From Coq Require Import ZArith List Lia Bool Arith Ring.
From PT Require Import Base.Scalar Base.Field Base.BigSum Base.Mx Model.Tensor Model.MPSOps Model.BondOps Model.Operation Model.Krylov Model.Sweeps.
From PT Require Import Proofs.MPSOpsBase Proofs.MPSOpsTop Proofs.MPSOpsShape Proofs.OperationSums Proofs.OperationEntries.
From PT Require Import Proofs.SweepsFlow Proofs.SweepsRun Proofs.LinkFlatten Proofs.LinkLocalOps Proofs.LinkSolvers Proofs.LinkSolversCap.
From PT Require Import Proofs.HistSparse Proofs.HistChain.
From PT Require Import Proofs.Hist2Local Proofs.Hist2Krylov Proofs.Hist2Solvers Proofs.Hist2Sweep Proofs.Hist2Dmrg Proofs.Hist2Top.
From PT Require Import Proofs.Hist3Sweep2 Proofs.Hist3Top.
Import ListNotations.
Open Scope nat_scope.

Section CapPattern.
  Variable F : ofield.
  Notation K := (Cx F).
  Variable dnorm : list K -> F.
  Variable small : F -> bool.
  Variable deigh : list F -> list F -> list F * list (list F).
  Variable dexp : K -> K.
  Variable dexpm : list (list K) -> list (list K).
  Variable numiter : nat.

  (* "the call returns" for the repaired solver: the capped Krylov run does not raise *)
  Definition keig_lanczos_cap_returns (BL BR : env K) (W : osite K) (A : site K) : Prop :=
    keig_lanczos_returns F dnorm small deigh (Nat.min numiter (site_size A)) BL BR W A.

  Theorem keig_lanczos_cap_okP qd qwl qwr ql qr (BL BR : env K) (W : osite K) :
    0 < length qd -> 0 < length qwl -> 0 < length qwr -> osite_okP K qd qwl qwr W ->
    env_okP K ql qwl ql BL -> env_okP K qr qwr qr BR ->
    forall pos (A : site K), site_okP K qd ql qr A -> keig_lanczos_cap_returns BL BR W A ->
    site_okP K qd ql qr (snd (keig_lanczos_cap F dnorm small deigh numiter pos BL BR W A)).
  Proof.
    intros Hd Hwl Hwr HW HL HR pos A HA Hret.
    exact (keig_lanczos_okP F dnorm small deigh (Nat.min numiter (site_size A)) qd qwl qwr ql qr BL BR W Hd Hwl Hwr HW HL HR pos A HA Hret).
  Qed.

  (* a returning call had a non-empty start tensor and at least one requested iteration *)
  Lemma keig_lanczos_cap_returns_pos BL BR W (A : site K) : keig_lanczos_cap_returns BL BR W A -> 1 <= numiter /\ 1 <= site_size A.
  Proof.
    unfold keig_lanczos_cap_returns, keig_lanczos_returns, eigh_krylov, lanczos. intros H.
    destruct (Nat.min numiter (site_size A)) as [|m] eqn:E.
    - exfalso. apply H. destruct (fltb F (f0 F) _); reflexivity.
    - split; lia.
  Qed.

  Variable qr : nat -> mx K -> list Z -> list Z -> mx K * mx K * list Z.
  Variable split : nat -> site K -> list Z -> list Z -> list Z -> list Z -> bool -> site K * site K * list Z.
  Variables (Hs : list (osite K)) (qd : list Z) (qWs : list (list Z)) (dt hdt : K).
  Notation kexpL := (kexp_lanczos F dnorm small deigh dexp dexpm numiter).
  Notation kexp0L := (kexp0_lanczos F dnorm small deigh dexp dexpm numiter).
  Notation keigC := (keig_lanczos_cap F dnorm small deigh numiter).
  Hypothesis Hd : 0 < length qd.
  Hypothesis HWs : chainP (osite_okP K qd) qWs Hs.
  Hypothesis HWpos : forall j, j <= length Hs -> 0 < length (nth j qWs []).

  (* single-site traces: as lz_call_ok (Proofs/Hist2Top.v), the EIG entries with the capped run *)
  Definition lzc_call_ok (p : nat) (t : tcall K) : Prop :=
    let i := c_site (t_call t) in
    let W := nth i Hs [] in
    match c_kind (t_call t), t_envs t, t_ten t, t_qs t with
    | EIG, [BL; BR], [A], _ => i < length Hs /\ keig_lanczos_cap_returns BL BR W A
    | _, _, _, _ => lz_call_ok F dnorm small deigh dexp dexpm numiter qr Hs dt hdt p t
    end.

  Theorem lzc_call_sp p t : lzc_call_ok p t -> sp_call_ok K qr kexpL kexp0L keigC Hs qd qWs dt hdt p t.
  Proof.
    unfold lzc_call_ok. cbv zeta.
    pose proof (lz_call_sp F dnorm small deigh dexp dexpm numiter qr Hs qd qWs dt hdt Hd HWs HWpos p t) as H1.
    unfold sp_call_ok in *. cbv zeta in *.
    destruct (c_kind (t_call t)); try exact H1;
      destruct (t_envs t) as [|BL [|BR [|? ?]]]; try exact H1;
      destruct (t_ten t) as [|A [|? ?]]; try exact H1.
    intros [Hi Hret] ql qr' HA HL HR.
    exact (keig_lanczos_cap_okP qd (nth (c_site (t_call t)) qWs []) (nth (S (c_site (t_call t))) qWs []) ql qr' BL BR
             (nth (c_site (t_call t)) Hs []) Hd (HWpos _ (Nat.lt_le_incl _ _ Hi)) (HWpos (S (c_site (t_call t))) Hi)
             (HW_at K Hs qd qWs HWs _ Hi) HL HR p A HA Hret).
  Qed.

  Fixpoint lzc_tr_ok (tr : list (tcall K)) : Prop :=
    match tr with [] => True | t :: rest => lzc_call_ok (length rest) t /\ lzc_tr_ok rest end.
  Theorem lzc_tr_sp tr : lzc_tr_ok tr -> sp_tr_ok K qr kexpL kexp0L keigC Hs qd qWs dt hdt tr.
  Proof. induction tr as [|t tr IH]; [exact (fun H => H)|]. intros [H1 H2]. split; [apply lzc_call_sp; exact H1|apply IH; exact H2]. Qed.

  (* two-site traces: as lz2_call_ok (Proofs/Hist3Top.v), the EIG2 / EIG entries with the capped run *)
  Definition lzc2_call_ok (p : nat) (t : tcall K) : Prop :=
    let i := c_site (t_call t) in
    match c_kind (t_call t), t_envs t, t_ten t, t_qs t with
    | EIG2, [BL; BR], [Am], _ => S i < length Hs /\ keig_lanczos_cap_returns BL BR (Hm2 K Hs i) Am
    | EIG, _, _, _ => lzc_call_ok p t
    | _, _, _, _ => lz2_call_ok F dnorm small deigh dexp dexpm numiter qr split Hs dt hdt p t
    end.

  Theorem lzc2_call_sp p t : lzc2_call_ok p t -> sp2_call_ok K qr split kexpL kexp0L keigC Hs qd qWs dt hdt p t.
  Proof.
    unfold lzc2_call_ok. cbv zeta.
    pose proof (lz2_call_sp F dnorm small deigh dexp dexpm numiter qr split Hs qd qWs dt hdt Hd HWs HWpos p t) as H2.
    pose proof (lzc_call_sp p t) as H1.
    unfold sp2_call_ok, sp_call_ok in *. cbv zeta in *.
    destruct (c_kind (t_call t)); try exact H2; try exact H1;
      destruct (t_envs t) as [|BL [|BR [|? ?]]]; try exact H2;
      destruct (t_ten t) as [|A [|? ?]]; try exact H2.
    intros [Hi Hret] ql qr' HA HL HR. assert (Hi0 : c_site (t_call t) <= length Hs) by lia.
    exact (keig_lanczos_cap_okP (qd2 qd) (nth (c_site (t_call t)) qWs []) (nth (S (S (c_site (t_call t)))) qWs []) ql qr' BL BR
             (Hm2 K Hs (c_site (t_call t))) (qd2_pos qd Hd) (HWpos _ Hi0) (HWpos (S (S (c_site (t_call t)))) Hi)
             (Hm2_okP K Hs qd qWs Hd HWs _ Hi) HL HR p A HA Hret).
  Qed.

  Fixpoint lzc2_tr_ok (tr : list (tcall K)) : Prop :=
    match tr with [] => True | t :: rest => lzc2_call_ok (length rest) t /\ lzc2_tr_ok rest end.
  Theorem lzc2_tr_sp tr : lzc2_tr_ok tr -> sp2_tr_ok K qr split kexpL kexp0L keigC Hs qd qWs dt hdt tr.
  Proof. induction tr as [|t tr IH]; [exact (fun H => H)|]. intros [H1 H2]. split; [apply lzc2_call_sp; exact H1|apply IH; exact H2]. Qed.
End CapPattern.
