(* The block loop of bond_ops.qr / split_matrix_svd on sorted charge vectors: invariant and post-condition. *)
From Coq Require Import ZArith List Bool Lia Arith Permutation Sorted Ring.
From PT Require Import Base.Scalar Base.BigSum Base.Mx Model.BondOps Proofs.BondOpsPerm.
Import ListNotations.

Ltac bdestr := repeat match goal with
  | |- context [?a <=? ?b] => destruct (Nat.leb_spec a b)
  | |- context [?a <? ?b] => destruct (Nat.ltb_spec a b)
  | |- context [Nat.eqb ?a ?b] => destruct (Nat.eqb_spec a b)
  | |- context [Z.eqb ?a ?b] => destruct (Z.eqb_spec a b)
  end; cbn [andb orb negb].

Lemma nth_repeat_lt {A} (x d : A) k i : i < k -> nth i (repeat x k) d = x.
Proof. revert i; induction k as [|k IH]; intros [|i] H; simpl; try lia; auto. apply IH. lia. Qed.

Section Loop.
  Variable R : cring.
  Add Ring Rring_loop : (k_rt R).
  Variable T : Type.
  Variable emb : T -> R.      (* weight carried by a column (1 for qr, the singular value for svd) *)
  Variable CO : Prop.         (* whether the right factors are required / shown to be co-isometric *)
  Variable PT : T -> Prop.    (* a property of the column data (non-negativity of singular values) *)
  Notation rO := (k0 R). Notation rI := (k1 R).
  Infix "+!" := (kadd R) (at level 50, left associativity).
  Infix "*!" := (kmul R) (at level 40, left associativity).
  Notation mx := (mx R).
  Notation cj := (kconj R).

  Definition wt (sv : list T) (k : nat) : R := nth k (map emb sv) rO.
  Definition delta (k l : nat) : R := if Nat.eqb k l then rI else rO.

  Lemma wt_app_l a b k : k < length a -> wt (a ++ b) k = wt a k.
  Proof. intros H. unfold wt. rewrite map_app, app_nth1 by (rewrite map_length; exact H). reflexivity. Qed.
  Lemma wt_app_r a b k : wt (a ++ b) (length a + k) = wt b k.
  Proof.
    unfold wt. rewrite map_app, app_nth2 by (rewrite map_length; lia). rewrite map_length.
    f_equal. lia.
  Qed.

  Lemma get_placemx (M : mx) i0 j0 (B : mx) i j : i < nr M -> j < nc M ->
    get (placemx M i0 j0 B) i j =
    if (i0 <=? i) && (i <? i0 + nr B) && (j0 <=? j) && (j <? j0 + nc B) then get B (i - i0) (j - j0) else get M i j.
  Proof. intros Hi Hj. unfold placemx. rewrite get_tab by assumption. reflexivity. Qed.

  Lemma get_slicemx (A : mx) i0 i1 j0 j1 i j : i < i1 - i0 -> j < j1 - j0 ->
    get (slicemx A i0 i1 j0 j1) i j = get A (i0 + i) (j0 + j).
  Proof. intros Hi Hj. unfold slicemx. rewrite get_tab by assumption. reflexivity. Qed.

  Lemma sumn_window m i0 r (f : nat -> R) : i0 + r <= m ->
    sumn m (fun i => if (i0 <=? i) && (i <? i0 + r) then f (i - i0) else rO) = sumn r f.
  Proof.
    intros H. replace m with (i0 + (r + (m - i0 - r))) by lia.
    rewrite sumn_app, sumn_app.
    rewrite (sumn_zero R i0).
    2:{ intros i Hi. bdestr; try (exfalso; lia); reflexivity. }
    rewrite (sumn_zero R (m - i0 - r)).
    2:{ intros i Hi. cbv beta. bdestr; try (exfalso; lia); reflexivity. }
    rewrite (sumn_ext R r _ f).
    - ring.
    - intros i Hi. cbv beta. bdestr; try (exfalso; lia). f_equal. lia.
  Qed.

  Lemma kconj_rO : cj rO = rO. Proof. apply kconj_0. Qed.

  Lemma delta_shift D k l : delta (D + k) (D + l) = delta k l.
  Proof. unfold delta. bdestr; try (exfalso; lia); reflexivity. Qed.

  (* the contract of the block factorisation *)
  Definition fac_ok (B : mx) (r : mx * list T * mx) : Prop :=
    let '(U, sv, V) := r in
    wf U /\ wf V /\ nr U = nr B /\ nc U = length sv /\ nr V = length sv /\ nc V = nc B /\
    length sv <= Nat.min (nr B) (nc B) /\
    (forall i j, i < nr B -> j < nc B ->
       sumn (length sv) (fun c => get U i c *! wt sv c *! get V c j) = get B i j) /\
    (forall k l, k < length sv -> l < length sv ->
       sumn (nr B) (fun i => cj (get U i k) *! get U i l) = delta k l) /\
    (CO -> forall k l, k < length sv -> l < length sv ->
       sumn (nc B) (fun j => get V k j *! cj (get V l j)) = delta k l) /\
    Forall PT sv.

  (* block sparsity  M[i,j] <> 0 -> qr[i] = qc[j] *)
  Definition qsp (M : mx) (qr qc : list Z) : Prop :=
    forall i j, i < nr M -> j < nc M -> get M i j <> rO -> nth i qr 0%Z = nth j qc 0%Z.

  Variable fac : mx -> mx * list T * mx.
  Variable A : mx.
  Variable q0 q1 : list Z.
  Hypothesis HwfA : wf A.
  Hypothesis Hl0 : length q0 = nr A.
  Hypothesis Hl1 : length q1 = nc A.
  Hypothesis Hs0 : zsorted q0.
  Hypothesis Hs1 : zsorted q1.
  Let maxd := Nat.min (nr A) (nc A).

  Record inv (dn : list Z) (st : bst R T) : Prop := {
    i_wfU : wf (bU st); i_wfV : wf (bV st);
    i_nrU : nr (bU st) = nr A; i_ncU : nc (bU st) = maxd;
    i_nrV : nr (bV st) = maxd; i_ncV : nc (bV st) = nc A;
    i_lenS : length (bS st) = bD st; i_lenq : length (bq st) = bD st; i_D : bD st <= maxd;
    i_Uz : forall i c, i < nr A -> c < maxd -> bD st <= c -> get (bU st) i c = rO;
    i_Vz : forall c j, c < maxd -> j < nc A -> bD st <= c -> get (bV st) c j = rO;
    i_Usp : forall i c, i < nr A -> c < bD st -> get (bU st) i c <> rO -> nth i q0 0%Z = nth c (bq st) 0%Z;
    i_Vsp : forall c j, c < bD st -> j < nc A -> get (bV st) c j <> rO -> nth c (bq st) 0%Z = nth j q1 0%Z;
    i_qdn : forall c, c < bD st -> In (nth c (bq st) 0%Z) dn;
    i_prod : forall i j, i < nr A -> j < nc A ->
      sumn (bD st) (fun c => get (bU st) i c *! wt (bS st) c *! get (bV st) c j) =
      if zmem (nth i q0 0%Z) dn && (nth i q0 0%Z =? nth j q1 0%Z)%Z then get A i j else rO;
    i_orth : forall k l, k < bD st -> l < bD st ->
      sumn (nr A) (fun i => cj (get (bU st) i k) *! get (bU st) i l) = delta k l;
    i_co : CO -> forall k l, k < bD st -> l < bD st ->
      sumn (nc A) (fun j => get (bV st) k j *! cj (get (bV st) l j)) = delta k l;
    i_b0 : forall x, In x q0 -> (forall y, In y dn -> (y < x)%Z) -> bD st <= fst (blk_range q0 x);
    i_b1 : forall x, In x q1 -> (forall y, In y dn -> (y < x)%Z) -> bD st <= fst (blk_range q1 x);
    i_PT : Forall PT (bS st)
  }.

  Lemma inv_init : inv [] (block_init A).
  Proof.
    unfold block_init. fold maxd.
    constructor; cbn [bU bV bS bq bD]; try reflexivity; try apply wf_zeromx; intros; try lia; try apply get_zeromx.
    all: try (exfalso; match goal with H : _ <> rO |- _ => apply H; apply get_zeromx end).
    constructor.
  Qed.

  Lemma nz_dec (a : R) : a = rO \/ a <> rO.
  Proof. destruct (keqb R a rO) eqn:E; [left; apply keqb_spec; exact E|right; apply keqb_false; exact E]. Qed.

  Lemma step_ok dn st x :
    inv dn st -> In x q0 -> In x q1 -> (forall y, In y dn -> (y < x)%Z) ->
    fac_ok (block_of A q0 q1 x) (fac (block_of A q0 q1 x)) ->
    exists st', block_step fac A q0 q1 maxd (Some st) x = Some st' /\ inv (x :: dn) st'.
  Proof.
    intros I Hx0 Hx1 Hlt Hf.
    destruct I as [I_wfU I_wfV I_nrU I_ncU I_nrV I_ncV I_lenS I_lenq I_D I_Uz I_Vz I_Usp I_Vsp I_qdn I_prod I_orth I_co I_b0 I_b1 I_PT].
    destruct (blk_range_spec q0 x Hs0 Hx0) as (Hi01 & Hi1 & Hr0).
    destruct (blk_range_spec q1 x Hs1 Hx1) as (Hj01 & Hj1 & Hr1).
    assert (Hd0 := I_b0 x Hx0 Hlt). assert (Hd1 := I_b1 x Hx1 Hlt).
    assert (Hm0 : forall x', In x' q0 -> (x < x')%Z -> snd (blk_range q0 x) <= fst (blk_range q0 x'))
      by (intros x' Hx' Hl; apply blk_range_mono; assumption).
    assert (Hm1 : forall x', In x' q1 -> (x < x')%Z -> snd (blk_range q1 x) <= fst (blk_range q1 x'))
      by (intros x' Hx' Hl; apply blk_range_mono; assumption).
    unfold block_of in Hf. unfold block_step.
    remember (blk_range q0 x) as r0 eqn:E0. destruct r0 as [i0 i1].
    remember (blk_range q1 x) as r1 eqn:E1. destruct r1 as [j0 j1].
    cbn [fst snd] in *. rewrite Hl0 in *. rewrite Hl1 in *.
    remember (slicemx A i0 i1 j0 j1) as B eqn:EB.
    assert (HnrB : nr B = i1 - i0) by (rewrite EB; reflexivity).
    assert (HncB : nc B = j1 - j0) by (rewrite EB; reflexivity).
    assert (HgB : forall a b, a < i1 - i0 -> b < j1 - j0 -> get B a b = get A (i0 + a) (j0 + b))
      by (intros a b Ha Hb; rewrite EB; apply get_slicemx; assumption).
    destruct (fac B) as [[U sv] V].
    destruct Hf as (HwU & HwV & HnrU & HncU & HnrV & HncV & Hk & Hprod & Horth & Hco & HPT).
    rewrite HnrB, HncB in *.
    set (D := bD st) in *.
    set (k := length sv) in *.
    assert (HDk : D + k <= maxd) by (unfold maxd; lia).
    match goal with |- context [if ?c then _ else _] => assert (Hc : c = true) end.
    { repeat (apply andb_true_intro; split); try (apply Nat.eqb_eq; lia). apply Nat.leb_le. exact HDk. }
    rewrite Hc. eexists. split; [reflexivity|].
    assert (HnrUs := I_nrU). assert (HncUs := I_ncU).
    assert (HnrVs := I_nrV). assert (HncVs := I_ncV).
    assert (Hnot : ~ In x dn) by (intros Hin; apply Hlt in Hin; lia).
    assert (Hzm : zmem x dn = false).
    { destruct (zmem x dn) eqn:E; [|reflexivity]. apply zmem_In in E. contradiction. }
    (* entries of the new factors *)
    assert (GU : forall i c, i < nr A -> c < maxd ->
              get (placemx (bU st) i0 D U) i c =
              if (i0 <=? i) && (i <? i1) && (D <=? c) && (c <? D + k) then get U (i - i0) (c - D) else get (bU st) i c).
    { intros i c Hi Hcc. rewrite get_placemx by (rewrite ?HnrUs, ?HncUs; assumption).
      rewrite HnrU, HncU. replace (i0 + (i1 - i0)) with i1 by lia. reflexivity. }
    assert (GV : forall c j, c < maxd -> j < nc A ->
              get (placemx (bV st) D j0 V) c j =
              if (D <=? c) && (c <? D + k) && (j0 <=? j) && (j <? j1) then get V (c - D) (j - j0) else get (bV st) c j).
    { intros c j Hcc Hj. rewrite get_placemx by (rewrite ?HnrVs, ?HncVs; assumption).
      rewrite HnrV, HncV. replace (j0 + (j1 - j0)) with j1 by lia. reflexivity. }
    assert (GUold : forall i c, i < nr A -> c < D -> get (placemx (bU st) i0 D U) i c = get (bU st) i c).
    { intros i c Hi Hcc. rewrite GU by lia. bdestr; try (exfalso; lia); reflexivity. }
    assert (GVold : forall c j, c < D -> j < nc A -> get (placemx (bV st) D j0 V) c j = get (bV st) c j).
    { intros c j Hcc Hj. rewrite GV by lia. bdestr; try (exfalso; lia); reflexivity. }
    assert (GUnew : forall i t, i < nr A -> t < k ->
              get (placemx (bU st) i0 D U) i (D + t) = if (i0 <=? i) && (i <? i1) then get U (i - i0) t else rO).
    { intros i t Hi Ht. rewrite GU by lia. replace (D + t - D) with t by lia.
      bdestr; try (exfalso; lia); try reflexivity; apply I_Uz; lia. }
    assert (GVnew : forall t j, t < k -> j < nc A ->
              get (placemx (bV st) D j0 V) (D + t) j = if (j0 <=? j) && (j <? j1) then get V t (j - j0) else rO).
    { intros t j Ht Hj. rewrite GV by lia. replace (D + t - D) with t by lia.
      bdestr; try (exfalso; lia); try reflexivity; apply I_Vz; lia. }
    (* old columns of U vanish on the rows of the new block, old rows of V on its columns *)
    assert (UoldI : forall i c, i0 <= i < i1 -> c < D -> get (bU st) i c = rO).
    { intros i c Hi Hcc. destruct (nz_dec (get (bU st) i c)) as [E|E]; [exact E|exfalso].
      apply I_Usp in E; try lia. apply Hnot. rewrite <- (proj1 (Hr0 i ltac:(lia)) Hi), E.
      apply I_qdn. exact Hcc. }
    assert (VoldJ : forall c j, j0 <= j < j1 -> c < D -> get (bV st) c j = rO).
    { intros c j Hj Hcc. destruct (nz_dec (get (bV st) c j)) as [E|E]; [exact E|exfalso].
      apply I_Vsp in E; try lia. apply Hnot. rewrite <- (proj1 (Hr1 j ltac:(lia)) Hj), <- E.
      apply I_qdn. exact Hcc. }
    constructor; cbn [bU bV bS bq bD]; fold D; fold k.
    - apply wf_tab.
    - apply wf_tab.
    - exact HnrUs.
    - exact HncUs.
    - exact HnrVs.
    - exact HncVs.
    - rewrite app_length, I_lenS. reflexivity.
    - rewrite app_length, repeat_length, I_lenq. reflexivity.
    - exact HDk.
    - (* Uz *) intros i c Hi Hcc HD. rewrite GU by assumption.
      bdestr; try (exfalso; lia); apply I_Uz; lia.
    - (* Vz *) intros c j Hcc Hj HD. rewrite GV by assumption.
      bdestr; try (exfalso; lia); apply I_Vz; lia.
    - (* Usp *) intros i c Hi Hcc Hnz.
      destruct (lt_dec c D) as [Hlt'|Hge].
      + rewrite GUold in Hnz by assumption. rewrite app_nth1 by (rewrite I_lenq; exact Hlt').
        apply I_Usp; assumption.
      + rewrite app_nth2 by (rewrite I_lenq; fold D; lia). rewrite nth_repeat_lt by (rewrite I_lenq; fold D; lia).
        replace c with (D + (c - D)) in Hnz by lia. rewrite GUnew in Hnz by lia.
        revert Hnz. bdestr; intros Hnz; try (exfalso; apply Hnz; reflexivity).
        apply (Hr0 i Hi). lia.
    - (* Vsp *) intros c j Hcc Hj Hnz.
      destruct (lt_dec c D) as [Hlt'|Hge].
      + rewrite GVold in Hnz by assumption. rewrite app_nth1 by (rewrite I_lenq; exact Hlt').
        apply I_Vsp; assumption.
      + rewrite app_nth2 by (rewrite I_lenq; fold D; lia). rewrite nth_repeat_lt by (rewrite I_lenq; fold D; lia).
        replace c with (D + (c - D)) in Hnz by lia. rewrite GVnew in Hnz by lia.
        revert Hnz. bdestr; intros Hnz; try (exfalso; apply Hnz; reflexivity).
        symmetry. apply (Hr1 j Hj). lia.
    - (* qdn *) intros c Hcc. destruct (lt_dec c D) as [Hlt'|Hge].
      + rewrite app_nth1 by (rewrite I_lenq; exact Hlt'). right. apply I_qdn. exact Hlt'.
      + rewrite app_nth2 by (rewrite I_lenq; fold D; lia). rewrite nth_repeat_lt by (rewrite I_lenq; fold D; lia). left. reflexivity.
    - (* prod *) intros i j Hi Hj. rewrite sumn_app.
      rewrite (sumn_ext R D _ (fun c => get (bU st) i c *! wt (bS st) c *! get (bV st) c j)).
      2:{ intros c Hcc. rewrite GUold, GVold, wt_app_l by (rewrite ?I_lenS; assumption). reflexivity. }
      rewrite (I_prod i j Hi Hj).
      rewrite (sumn_ext R k _ (fun t => (if (i0 <=? i) && (i <? i1) then get U (i - i0) t else rO) *! wt sv t *!
                                        (if (j0 <=? j) && (j <? j1) then get V t (j - j0) else rO))).
      2:{ intros t Ht. cbv beta. rewrite GUnew, GVnew by assumption.
          rewrite <- I_lenS. rewrite wt_app_r. reflexivity. }
      cbn [zmem existsb]. fold (zmem (nth i q0 0%Z) dn).
      destruct ((i0 <=? i) && (i <? i1)) eqn:EI.
      + assert (HiI : i0 <= i < i1) by (apply andb_true_iff in EI; destruct EI as [E2 E3]; apply Nat.leb_le in E2; apply Nat.ltb_lt in E3; lia).
        assert (Hqi : nth i q0 0%Z = x) by (apply (Hr0 i Hi); exact HiI).
        rewrite Hqi, Hzm, Z.eqb_refl. cbn [orb andb].
        destruct ((j0 <=? j) && (j <? j1)) eqn:EJ.
        * assert (HjJ : j0 <= j < j1) by (apply andb_true_iff in EJ; destruct EJ as [E2 E3]; apply Nat.leb_le in E2; apply Nat.ltb_lt in E3; lia).
          assert (Hqj : nth j q1 0%Z = x) by (apply (Hr1 j Hj); exact HjJ).
          rewrite Hqj, Z.eqb_refl. rewrite Hprod by lia. rewrite HgB by lia.
          replace (i0 + (i - i0)) with i by lia. replace (j0 + (j - j0)) with j by lia. ring.
        * assert (Hqj : nth j q1 0%Z <> x).
          { intros E. apply (Hr1 j Hj) in E. apply andb_false_iff in EJ.
            destruct EJ as [E2|E2]; [apply Nat.leb_gt in E2|apply Nat.ltb_ge in E2]; lia. }
          replace (x =? nth j q1 0%Z)%Z with false by (symmetry; apply Z.eqb_neq; congruence).
          rewrite (sumn_zero R k); [ring|]. intros t Ht. ring.
      + assert (Hqi : nth i q0 0%Z <> x).
        { intros E. apply (Hr0 i Hi) in E. apply andb_false_iff in EI.
          destruct EI as [E2|E2]; [apply Nat.leb_gt in E2|apply Nat.ltb_ge in E2]; lia. }
        replace (nth i q0 0%Z =? x)%Z with false by (symmetry; apply Z.eqb_neq; congruence).
        cbn [orb]. rewrite (sumn_zero R k); [ring|]. intros t Ht. ring.
    - (* orth *) intros c l Hcc Hl.
      destruct (lt_dec c D) as [Hc1|Hc1]; destruct (lt_dec l D) as [Hl1'|Hl1'].
      + rewrite <- (I_orth c l Hc1 Hl1'). apply sumn_ext. intros i Hi. rewrite !GUold by assumption. reflexivity.
      + replace (delta c l) with rO by (unfold delta; bdestr; try (exfalso; lia); reflexivity).
        apply sumn_zero. intros i Hi. rewrite GUold by assumption.
        replace l with (D + (l - D)) by lia. rewrite GUnew by lia.
        destruct ((i0 <=? i) && (i <? i1)) eqn:EI; [|ring].
        rewrite UoldI; [rewrite kconj_rO; ring| |exact Hc1].
        apply andb_true_iff in EI; destruct EI as [E2 E3]; apply Nat.leb_le in E2; apply Nat.ltb_lt in E3; lia.
      + replace (delta c l) with rO by (unfold delta; bdestr; try (exfalso; lia); reflexivity).
        apply sumn_zero. intros i Hi. rewrite (GUold i l) by assumption.
        replace c with (D + (c - D)) by lia. rewrite GUnew by lia.
        destruct ((i0 <=? i) && (i <? i1)) eqn:EI; [|rewrite kconj_rO; ring].
        rewrite (UoldI i l); [ring| |exact Hl1'].
        apply andb_true_iff in EI; destruct EI as [E2 E3]; apply Nat.leb_le in E2; apply Nat.ltb_lt in E3; lia.
      + replace c with (D + (c - D)) by lia. replace l with (D + (l - D)) by lia. rewrite delta_shift.
        rewrite <- (Horth (c - D) (l - D)) by lia.
        rewrite <- (sumn_window (nr A) i0 (i1 - i0)) by lia.
        apply sumn_ext. intros i Hi. rewrite !GUnew by lia.
        replace (i0 + (i1 - i0)) with i1 by lia.
        destruct ((i0 <=? i) && (i <? i1)); [reflexivity|rewrite kconj_rO; ring].
    - (* co *) intros HCO c l Hcc Hl. specialize (Hco HCO).
      destruct (lt_dec c D) as [Hc1|Hc1]; destruct (lt_dec l D) as [Hl1'|Hl1'].
      + rewrite <- (I_co HCO c l Hc1 Hl1'). apply sumn_ext. intros j Hj. rewrite !GVold by assumption. reflexivity.
      + replace (delta c l) with rO by (unfold delta; bdestr; try (exfalso; lia); reflexivity).
        apply sumn_zero. intros j Hj. rewrite GVold by assumption.
        replace l with (D + (l - D)) by lia. rewrite GVnew by lia.
        destruct ((j0 <=? j) && (j <? j1)) eqn:EJ; [|rewrite kconj_rO; ring].
        rewrite VoldJ; [ring| |exact Hc1].
        apply andb_true_iff in EJ; destruct EJ as [E2 E3]; apply Nat.leb_le in E2; apply Nat.ltb_lt in E3; lia.
      + replace (delta c l) with rO by (unfold delta; bdestr; try (exfalso; lia); reflexivity).
        apply sumn_zero. intros j Hj. rewrite (GVold l j) by assumption.
        replace c with (D + (c - D)) by lia. rewrite GVnew by lia.
        destruct ((j0 <=? j) && (j <? j1)) eqn:EJ; [|ring].
        rewrite (VoldJ l j); [rewrite kconj_rO; ring| |exact Hl1'].
        apply andb_true_iff in EJ; destruct EJ as [E2 E3]; apply Nat.leb_le in E2; apply Nat.ltb_lt in E3; lia.
      + replace c with (D + (c - D)) by lia. replace l with (D + (l - D)) by lia. rewrite delta_shift.
        rewrite <- (Hco (c - D) (l - D)) by lia.
        rewrite <- (sumn_window (nc A) j0 (j1 - j0)) by lia.
        apply sumn_ext. intros j Hj. rewrite !GVnew by lia.
        replace (j0 + (j1 - j0)) with j1 by lia.
        destruct ((j0 <=? j) && (j <? j1)); [reflexivity|rewrite kconj_rO; ring].
    - (* b0 *) intros x' Hx' Hall. assert (x < x')%Z by (apply Hall; left; reflexivity).
      specialize (Hm0 x' Hx' H). lia.
    - (* b1 *) intros x' Hx' Hall. assert (x < x')%Z by (apply Hall; left; reflexivity).
      specialize (Hm1 x' Hx' H). lia.
    - apply Forall_app. split; assumption.
  Qed.

  Lemma fold_ok qis : forall dn st,
    inv dn st -> StronglySorted Z.lt qis ->
    (forall x, In x qis -> In x q0 /\ In x q1) ->
    (forall x y, In x qis -> In y dn -> (y < x)%Z) ->
    (forall x, In x qis -> fac_ok (block_of A q0 q1 x) (fac (block_of A q0 q1 x))) ->
    exists st' dn', fold_left (block_step fac A q0 q1 maxd) qis (Some st) = Some st' /\ inv dn' st' /\
                    (forall y, In y dn' <-> In y qis \/ In y dn).
  Proof.
    induction qis as [|x qs IH]; intros dn st I Hss Hin Hlt Hf.
    - exists st, dn. split; [reflexivity|]. split; [exact I|]. intros y. simpl. tauto.
    - apply StronglySorted_inv in Hss. destruct Hss as [Hss Hall].
      destruct (step_ok dn st x I) as (st1 & E1 & I1).
      + apply Hin. left. reflexivity.
      + apply Hin. left. reflexivity.
      + intros y Hy. apply (Hlt x y); [left; reflexivity|exact Hy].
      + apply Hf. left. reflexivity.
      + destruct (IH (x :: dn) st1 I1 Hss) as (st' & dn' & E' & I' & Hdn').
        * intros x' Hx'. apply Hin. right. exact Hx'.
        * intros x' y Hx' [Hy|Hy].
          -- subst y. rewrite Forall_forall in Hall. apply Hall. exact Hx'.
          -- apply (Hlt x' y); [right; exact Hx'|exact Hy].
        * intros x' Hx'. apply Hf. right. exact Hx'.
        * exists st', dn'. split; [|split; [exact I'|]].
          -- cbn [fold_left]. rewrite E1. exact E'.
          -- intros y. rewrite Hdn'. simpl. intuition.
  Qed.

  (* what the loop (including the [:D] crop) establishes *)
  Record post (pr : Prop) (st : bst R T) : Prop := {
    p_wfU : wf (bU st); p_wfV : wf (bV st);
    p_nrU : nr (bU st) = nr A; p_ncU : nc (bU st) = bD st;
    p_nrV : nr (bV st) = bD st; p_ncV : nc (bV st) = nc A;
    p_lenS : length (bS st) = bD st; p_lenq : length (bq st) = bD st;
    p_D : bD st <= Nat.min (nr A) (nc A);
    p_Usp : qsp (bU st) q0 (bq st);
    p_Vsp : qsp (bV st) (bq st) q1;
    p_prod : pr -> forall i j, i < nr A -> j < nc A ->
      sumn (bD st) (fun c => get (bU st) i c *! wt (bS st) c *! get (bV st) c j) = get A i j;
    p_orth : forall k l, k < bD st -> l < bD st ->
      sumn (nr A) (fun i => cj (get (bU st) i k) *! get (bU st) i l) = delta k l;
    p_co : CO -> forall k l, k < bD st -> l < bD st ->
      sumn (nc A) (fun j => get (bV st) k j *! cj (get (bV st) l j)) = delta k l;
    p_PT : Forall PT (bS st)
  }.

  Lemma loop_ok qis :
    StronglySorted Z.lt qis ->
    (forall x, In x qis <-> In x q0 /\ In x q1) ->
    qsp A q0 q1 ->
    (forall x, In x qis -> fac_ok (block_of A q0 q1 x) (fac (block_of A q0 q1 x))) ->
    exists st, block_loop fac A q0 q1 qis = Some st /\ post True st.
  Proof.
    intros Hss Hq HspA Hf.
    destruct (fold_ok qis [] (block_init A) inv_init Hss) as (st & dn & E & I & Hdn).
    - intros x Hx. apply Hq. exact Hx.
    - intros x y _ [].
    - exact Hf.
    - unfold block_loop. fold maxd. rewrite E. eexists. split; [reflexivity|].
      destruct I as [I_wfU I_wfV I_nrU I_ncU I_nrV I_ncV I_lenS I_lenq I_D I_Uz I_Vz I_Usp I_Vsp I_qdn I_prod I_orth I_co I_b0 I_b1 I_PT].
      assert (GU : forall i c, i < nr A -> c < bD st -> get (slicemx (bU st) 0 (nr A) 0 (bD st)) i c = get (bU st) i c)
        by (intros i c Hi Hc; rewrite get_slicemx by lia; reflexivity).
      assert (GV : forall c j, c < bD st -> j < nc A -> get (slicemx (bV st) 0 (bD st) 0 (nc A)) c j = get (bV st) c j)
        by (intros c j Hc Hj; rewrite get_slicemx by lia; reflexivity).
      constructor; cbn [bU bV bS bq bD]; unfold slicemx; rewrite ?nr_tab, ?nc_tab; fold (slicemx (bU st) 0 (nr A) 0 (bD st));
        fold (slicemx (bV st) 0 (bD st) 0 (nc A)); try apply wf_tab; try lia; try assumption.
      + intros i c Hi Hc Hnz. unfold slicemx in Hi, Hc. rewrite ?nr_tab, ?nc_tab in *.
        rewrite GU in Hnz by lia. apply I_Usp; try lia. exact Hnz.
      + intros c j Hc Hj Hnz. unfold slicemx in Hc, Hj. rewrite ?nr_tab, ?nc_tab in *.
        rewrite GV in Hnz by lia. apply I_Vsp; try lia. exact Hnz.
      + intros _ i j Hi Hj.
        rewrite (sumn_ext R (bD st) _ (fun c => get (bU st) i c *! wt (bS st) c *! get (bV st) c j))
          by (intros c Hc; rewrite GU, GV by assumption; reflexivity).
        rewrite I_prod by assumption.
        destruct (nz_dec (get A i j)) as [E0|E0].
        * rewrite E0. destruct (_ && _); reflexivity.
        * assert (Hqq := HspA i j Hi Hj E0).
          assert (Hin : In (nth i q0 0%Z) dn).
          { apply Hdn. left. apply Hq. split; [apply nth_In; lia|rewrite Hqq; apply nth_In; lia]. }
          apply zmem_In in Hin. rewrite Hin, Hqq, Z.eqb_refl. reflexivity.
      + intros k l Hk Hl. rewrite <- (I_orth k l Hk Hl). apply sumn_ext. intros i Hi. rewrite !GU by assumption. reflexivity.
      + intros HCO k l Hk Hl. rewrite <- (I_co HCO k l Hk Hl). apply sumn_ext. intros j Hj. rewrite !GV by assumption. reflexivity.
  Qed.
End Loop.
