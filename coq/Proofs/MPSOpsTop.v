(* C03 — statements about the MPS / MPO records (what Properties/C03.v exports), bond quantum numbers of the
   results, and concrete example data for the non-vacuity checks. *)
From Coq Require Import ZArith List Lia Bool Arith Ring.
From PT Require Import Base.Scalar Base.BigSum Base.Mx Model.Tensor Model.MPSOps.
From PT Require Import Proofs.MPSOpsBase Proofs.MPSOpsAdd Proofs.MPSOpsMul Proofs.MPSOpsDense.
Import ListNotations.

Section Top.
  Variable R : cring.
  Add Ring Rring_c03top : (k_rt R).
  Notation "0" := (k0 R). Notation "1" := (k1 R).
  Infix "+" := (kadd R). Infix "*" := (kmul R).
  Notation mps := (mps R). Notation mpo := (mpo R).

  (* well-formedness hypotheses of the theorems, as executable predicates:
     tensor shapes fit the quantum-number lists, boundary bonds have dimension 1, at least one site *)
  Definition bdims (qD : list (list Z)) : list nat := map (@length Z) qD.
  Definition mps_wf (p : mps) : bool :=
    chain_shape (length (m_qd p)) (bdims (m_qD p)) (m_A p) && bdim1 (bdims (m_qD p)) && negb (Nat.eqb (length (m_A p)) 0).
  Definition mpo_wf (o : mpo) : bool :=
    ochain_shape (length (o_qd o)) (bdims (o_qD o)) (o_A o) && bdim1 (bdims (o_qD o)) && negb (Nat.eqb (length (o_A o)) 0).
  Definition wordb (d L : nat) (w : list nat) : bool := Nat.eqb (length w) L && forallb (fun s => Nat.ltb s d) w.

  Lemma wordb_ok d L w : wordb d L w = true -> word_ok d L w.
  Proof.
    unfold wordb. rewrite andb_true_iff, Nat.eqb_eq, forallb_forall. intros [Hl H]. split; [exact Hl|].
    apply Forall_forall. intros s Hs. apply Nat.ltb_lt. apply H. exact Hs.
  Qed.
  Lemma word_ok_wordb d L w : word_ok d L w -> wordb d L w = true.
  Proof.
    intros [Hl H]. unfold wordb. rewrite andb_true_iff, Nat.eqb_eq, forallb_forall. split; [exact Hl|].
    rewrite Forall_forall in H. intros s Hs. apply Nat.ltb_lt. apply H. exact Hs.
  Qed.

  Lemma mps_wf_spec p : mps_wf p = true ->
    chain_shape (length (m_qd p)) (bdims (m_qD p)) (m_A p) = true /\ bdim1 (bdims (m_qD p)) = true /\ m_A p <> [].
  Proof.
    unfold mps_wf. rewrite !andb_true_iff, negb_true_iff, Nat.eqb_neq. intros [[H1 H2] H3]. repeat split; auto.
    intros E. rewrite E in H3. apply H3. reflexivity.
  Qed.
  Lemma mpo_wf_spec o : mpo_wf o = true ->
    ochain_shape (length (o_qd o)) (bdims (o_qD o)) (o_A o) = true /\ bdim1 (bdims (o_qD o)) = true /\ o_A o <> [].
  Proof.
    unfold mpo_wf. rewrite !andb_true_iff, negb_true_iff, Nat.eqb_neq. intros [[H1 H2] H3]. repeat split; auto.
    intros E. rewrite E in H3. apply H3. reflexivity.
  Qed.

  (* ---------- sums ---------- *)
  Theorem add_mps_amp alpha (p q : mps) w :
    mps_wf p = true -> mps_wf q = true ->
    length (m_qd p) = length (m_qd q) -> length (m_A p) = length (m_A q) ->
    wordb (length (m_qd p)) (length (m_A p)) w = true ->
    amp (m_A (add_mps alpha p q)) w = amp (m_A p) w + alpha * amp (m_A q) w.
  Proof.
    intros Hp Hq Hd HL Hw. apply mps_wf_spec in Hp. apply mps_wf_spec in Hq.
    destruct Hp as (Hp1 & Hp2 & Hp3). destruct Hq as (Hq1 & Hq2 & Hq3). apply wordb_ok in Hw.
    unfold add_mps. cbn [m_A]. rewrite <- Hd in Hq1.
    apply (add_chain_amp R (length (m_qd p)) alpha _ _ _ _ w Hp1 Hq1 Hp2 Hq2 Hp3 HL Hw).
  Qed.

  Corollary sub_mps_amp (p q : mps) w :
    mps_wf p = true -> mps_wf q = true ->
    length (m_qd p) = length (m_qd q) -> length (m_A p) = length (m_A q) ->
    wordb (length (m_qd p)) (length (m_A p)) w = true ->
    amp (m_A (add_mps (kopp R 1) p q)) w = ksub R (amp (m_A p) w) (amp (m_A q) w).
  Proof. intros. rewrite add_mps_amp by assumption. ring. Qed.

  Theorem add_mpo_opamp alpha (a b : mpo) w w' :
    mpo_wf a = true -> mpo_wf b = true ->
    length (o_qd a) = length (o_qd b) -> length (o_A a) = length (o_A b) ->
    wordb (length (o_qd a)) (length (o_A a)) w = true -> wordb (length (o_qd a)) (length (o_A a)) w' = true ->
    opamp (o_A (add_mpo alpha a b)) w w' = opamp (o_A a) w w' + alpha * opamp (o_A b) w w'.
  Proof.
    intros Ha Hb Hd HL Hw Hw'. apply mpo_wf_spec in Ha. apply mpo_wf_spec in Hb.
    destruct Ha as (Ha1 & Ha2 & Ha3). destruct Hb as (Hb1 & Hb2 & Hb3). apply wordb_ok in Hw. apply wordb_ok in Hw'.
    unfold add_mpo. cbn [o_A]. rewrite <- Hd in Hb1.
    apply (add_ochain_opamp R (length (o_qd a)) alpha _ _ _ _ w w' Ha1 Hb1 Ha2 Hb2 Ha3 HL Hw Hw').
  Qed.

  Corollary sub_mpo_opamp (a b : mpo) w w' :
    mpo_wf a = true -> mpo_wf b = true ->
    length (o_qd a) = length (o_qd b) -> length (o_A a) = length (o_A b) ->
    wordb (length (o_qd a)) (length (o_A a)) w = true -> wordb (length (o_qd a)) (length (o_A a)) w' = true ->
    opamp (o_A (add_mpo (kopp R 1) a b)) w w' = ksub R (opamp (o_A a) w w') (opamp (o_A b) w w').
  Proof. intros. rewrite add_mpo_opamp by assumption. ring. Qed.

  (* ---------- composition, application, identity ---------- *)
  Theorem multiply_mpo_opamp (a b : mpo) w w' :
    mpo_wf a = true -> mpo_wf b = true ->
    length (o_qd a) = length (o_qd b) -> length (o_A a) = length (o_A b) ->
    wordb (length (o_qd a)) (length (o_A a)) w = true -> wordb (length (o_qd a)) (length (o_A a)) w' = true ->
    opamp (o_A (multiply_mpo a b)) w w' =
    suml (words (length (o_qd a)) (length (o_A a))) (fun u => opamp (o_A a) w u * opamp (o_A b) u w').
  Proof.
    intros Ha Hb Hd HL Hw Hw'. apply mpo_wf_spec in Ha. apply mpo_wf_spec in Hb.
    destruct Ha as (Ha1 & Ha2 & Ha3). destruct Hb as (Hb1 & Hb2 & Hb3). apply wordb_ok in Hw. apply wordb_ok in Hw'.
    unfold multiply_mpo. cbn [o_A]. rewrite <- Hd in Hb1.
    apply (mul_ochain_opamp R (length (o_qd a)) _ _ _ _ w w' Ha1 Hb1 Ha2 Hb2 HL Hw Hw').
  Qed.

  Theorem apply_operator_amp (o : mpo) (p : mps) w :
    mpo_wf o = true -> mps_wf p = true ->
    length (o_qd o) = length (m_qd p) -> length (o_A o) = length (m_A p) ->
    wordb (length (o_qd o)) (length (o_A o)) w = true ->
    amp (m_A (apply_operator o p)) w =
    suml (words (length (o_qd o)) (length (o_A o))) (fun u => opamp (o_A o) w u * amp (m_A p) u).
  Proof.
    intros Ho Hp Hd HL Hw. apply mpo_wf_spec in Ho. apply mps_wf_spec in Hp.
    destruct Ho as (Ho1 & Ho2 & Ho3). destruct Hp as (Hp1 & Hp2 & Hp3). apply wordb_ok in Hw.
    unfold apply_operator. cbn [m_A]. rewrite <- Hd in Hp1.
    apply (apply_chain_amp R (length (o_qd o)) _ _ _ _ w Ho1 Hp1 Ho2 Hp2 HL Hw).
  Qed.

  Theorem identity_opamp (qd : list Z) L (scale : R) w w' :
    wordb (length qd) L w = true -> wordb (length qd) L w' = true ->
    opamp (o_A (mpo_identity qd L scale)) w w' = kpow scale L * (if list_eqb Nat.eqb w w' then 1 else 0).
  Proof.
    intros Hw Hw'. apply wordb_ok in Hw. apply wordb_ok in Hw'. unfold mpo_identity. cbn [o_A].
    apply identity_chain_opamp; assumption.
  Qed.
  Lemma word_eqb_spec w w' : list_eqb Nat.eqb w w' = true <-> w = w'.
  Proof. split; [apply list_eqb_nat_eq | intros ->; apply list_eqb_nat_refl]. Qed.

  (* ---------- dense forms ---------- *)
  Theorem as_vector_words (p : mps) :
    mps_wf p = true ->
    as_vector (m_A p) = Some (map (amp (m_A p)) (words (length (m_qd p)) (length (m_A p)))).
  Proof.
    intros Hp. apply mps_wf_spec in Hp. destruct Hp as (Hp1 & Hp2 & Hp3).
    apply (as_vector_amp R _ _ _ Hp1 Hp2 Hp3).
  Qed.
  Theorem as_matrix_words (o : mpo) :
    mpo_wf o = true ->
    as_matrix (o_A o) = Some (opamp_table (length (o_qd o)) (o_A o)).
  Proof.
    intros Ho. apply mpo_wf_spec in Ho. destruct Ho as (Ho1 & Ho2 & Ho3).
    apply (as_matrix_opamp R _ _ _ Ho1 Ho2 Ho3).
  Qed.

  (* ---------- the checked [_run] versions return the same objects ---------- *)
  Lemma add_mps_run_some (alpha : R) (p q r : mps) : add_mps_run alpha p q = Some r -> r = add_mps alpha p q.
  Proof. unfold add_mps_run. destruct (add_mps_asserts alpha p q); congruence. Qed.
  Lemma add_mpo_run_some (alpha : R) (a b r : mpo) : add_mpo_run alpha a b = Some r -> r = add_mpo alpha a b.
  Proof. unfold add_mpo_run. destruct (add_mpo_asserts alpha a b); congruence. Qed.
  Lemma multiply_mpo_run_some (a b r : mpo) : multiply_mpo_run a b = Some r -> r = multiply_mpo a b.
  Proof. unfold multiply_mpo_run. destruct (multiply_mpo_asserts a b); congruence. Qed.
  Lemma apply_operator_run_some (o : mpo) (p r : mps) : apply_operator_run o p = Some r -> r = apply_operator o p.
  Proof. unfold apply_operator_run. destruct (apply_operator_asserts o p); congruence. Qed.
  (* ---------- bond quantum numbers of the results, by computation ---------- *)
  Lemma add_qD_spec (alpha : R) (p q : mps) (a b : mpo) :
    m_qD (add_mps alpha p q) = add_qD (m_qD p) (m_qD q) /\ o_qD (add_mpo alpha a b) = add_qD (o_qD a) (o_qD b).
  Proof. split; reflexivity. Qed.
  Lemma mul_qD_spec (a b : mpo) (p : mps) :
    o_qD (multiply_mpo a b) = zipw qflat (o_qD a) (o_qD b) /\ m_qD (apply_operator a p) = zipw qflat (o_qD a) (m_qD p) /\
    m_qd (apply_operator a p) = m_qd p /\ o_qd (multiply_mpo a b) = o_qd a.
  Proof. repeat split; reflexivity. Qed.
  Lemma identity_qD_spec (qd : list Z) (L : nat) (scale : R) :
    o_qD (mpo_identity qd L scale) = repeat [0%Z] (S L) /\ o_qd (mpo_identity qd L scale) = qd /\
    length (o_A (mpo_identity qd L scale)) = L.
  Proof. repeat split; try reflexivity. apply repeat_length. Qed.
End Top.

Arguments bdims qD : simpl never.
Arguments mps_wf {R} p. Arguments mpo_wf {R} o.

(* ---------- bond quantum numbers of the results (no scalars involved) ---------- *)
Lemma zipw_nth {A B C} (f : A -> B -> C) l1 l2 i da db dc : (i < length l1)%nat -> (i < length l2)%nat ->
  nth i (zipw f l1 l2) dc = f (nth i l1 da) (nth i l2 db).
Proof.
  revert l2 i; induction l1 as [|x l1 IH]; intros [|y l2] [|i] H1 H2; simpl in *; try lia; auto.
  apply IH; lia.
Qed.
Lemma zipw_length {A B C} (f : A -> B -> C) l1 l2 : length l1 = length l2 -> length (zipw f l1 l2) = length l1.
Proof. revert l2; induction l1 as [|x l1 IH]; intros [|y l2] H; simpl in *; try discriminate; auto. Qed.
Lemma qflat_length qa qb : length (qflat qa qb) = (length qa * length qb)%nat.
Proof. unfold qflat. induction qa as [|a qa IH]; simpl; [reflexivity|]. rewrite app_length, map_length, IH. reflexivity. Qed.
(* outer sum, flattened row-major: entry i*|qb| + j is qa[i] + qb[j] *)
Lemma qflat_nth qa qb i j : (i < length qa)%nat -> (j < length qb)%nat ->
  nth (i * length qb + j) (qflat qa qb) 0%Z = (nth i qa 0 + nth j qb 0)%Z.
Proof.
  unfold qflat. revert i; induction qa as [|a qa IH]; intros i Hi Hj; simpl in Hi; [lia|].
  simpl flat_map. destruct i as [|i].
  - simpl. rewrite app_nth1 by (rewrite map_length; exact Hj).
    rewrite (nth_indep _ 0%Z (a + 0)%Z) by (rewrite map_length; exact Hj).
    apply (map_nth (fun b => (a + b)%Z)).
  - rewrite app_nth2 by (rewrite map_length; simpl; lia). rewrite map_length.
    replace (S i * length qb + j - length qb)%nat with (i * length qb + j)%nat by (simpl; lia).
    apply IH; [lia | exact Hj].
Qed.

(* ---------- example data (L = 3, d = 2, bond dimensions 2 and 3) for the non-vacuity checks ---------- *)
Open Scope Z_scope.
Definition gmx : nat -> nat -> list (list GI) -> mx GIring := @mkmx GIring.
Definition ex_p : mps GIring :=
  ((@mkmps GIring) [0; 0] [[0]; [0; 0]; [0; 0; 0]; [0]] [[(gmx 1%nat 2%nat [[(2, 0); (1, 1)]]); (gmx 1%nat 2%nat [[(1, 2); (2, (-1))]])]; [(gmx 2%nat 3%nat [[((-2), 2); ((-1), (-1)); ((-1), (-1))]; [(2, (-1)); (2, 1); ((-2), (-1))]]); (gmx 2%nat 3%nat [[(0, 2); (2, 0); ((-2), 0)]; [(1, 0); ((-2), 0); (0, 0)]])]; [(gmx 3%nat 1%nat [[(0, (-1))]; [(2, 2)]; [(2, 0)]]); (gmx 3%nat 1%nat [[(1, (-1))]; [(1, 2)]; [(1, (-2))]])]]).
Definition ex_q : mps GIring :=
  ((@mkmps GIring) [0; 0] [[0]; [0; 0; 0]; [0; 0]; [0]] [[(gmx 1%nat 3%nat [[(2, (-2)); (1, 0); ((-2), 2)]]); (gmx 1%nat 3%nat [[((-2), 0); (0, 2); ((-2), 2)]])]; [(gmx 3%nat 2%nat [[(2, 2); (1, 1)]; [(0, 2); (0, (-1))]; [((-1), 1); (0, (-1))]]); (gmx 3%nat 2%nat [[((-1), 0); ((-1), (-2))]; [(2, 1); ((-2), 2)]; [((-2), 1); ((-2), (-2))]])]; [(gmx 2%nat 1%nat [[(0, (-2))]; [((-1), 0)]]); (gmx 2%nat 1%nat [[(2, 2)]; [(2, 2)]])]]).
Definition ex_a : mpo GIring :=
  ((@mkmpo GIring) [0; 0] [[0]; [0; 0]; [0; 0; 0]; [0]] [[[(gmx 1%nat 2%nat [[(1, 1); (1, 0)]]); (gmx 1%nat 2%nat [[((-2), 1); (1, 2)]])]; [(gmx 1%nat 2%nat [[(0, 1); ((-2), (-1))]]); (gmx 1%nat 2%nat [[((-1), 1); (0, 0)]])]]; [[(gmx 2%nat 3%nat [[((-2), 0); ((-2), 0); (1, (-1))]; [((-1), (-1)); (0, (-2)); ((-1), 0)]]); (gmx 2%nat 3%nat [[((-1), 2); ((-2), (-2)); ((-1), 0)]; [(2, 2); (0, 2); ((-1), (-1))]])]; [(gmx 2%nat 3%nat [[(0, (-2)); (2, 1); ((-1), (-2))]; [(0, (-1)); (0, 0); (1, 2)]]); (gmx 2%nat 3%nat [[(0, (-2)); (1, 1); (0, 0)]; [(1, (-2)); (2, 2); ((-2), 2)]])]]; [[(gmx 3%nat 1%nat [[(0, (-1))]; [(2, 0)]; [(1, (-2))]]); (gmx 3%nat 1%nat [[(2, (-2))]; [(2, (-1))]; [(0, 2)]])]; [(gmx 3%nat 1%nat [[((-1), 2)]; [((-2), 1)]; [(0, 0)]]); (gmx 3%nat 1%nat [[((-2), 0)]; [(1, (-2))]; [(2, (-1))]])]]]).
Definition ex_b : mpo GIring :=
  ((@mkmpo GIring) [0; 0] [[0]; [0; 0; 0]; [0; 0]; [0]] [[[(gmx 1%nat 3%nat [[(2, 0); (0, (-1)); ((-1), 0)]]); (gmx 1%nat 3%nat [[((-1), 1); (1, (-2)); ((-2), (-2))]])]; [(gmx 1%nat 3%nat [[(2, 1); (2, (-1)); (0, 2)]]); (gmx 1%nat 3%nat [[(0, (-2)); (1, 2); (0, (-2))]])]]; [[(gmx 3%nat 2%nat [[(0, 2); (2, (-2))]; [((-2), 0); (1, 2)]; [(1, (-1)); (0, (-2))]]); (gmx 3%nat 2%nat [[((-2), 0); (0, 1)]; [(0, 1); (2, 2)]; [(1, 1); ((-1), (-2))]])]; [(gmx 3%nat 2%nat [[((-2), 2); (0, 0)]; [((-1), 2); (1, 2)]; [(2, 2); ((-1), (-2))]]); (gmx 3%nat 2%nat [[(2, 2); (0, 1)]; [(0, 0); (1, 1)]; [(1, 2); (2, 0)]])]]; [[(gmx 2%nat 1%nat [[((-2), (-2))]; [(1, (-2))]]); (gmx 2%nat 1%nat [[((-1), (-1))]; [((-1), (-1))]])]; [(gmx 2%nat 1%nat [[((-2), (-1))]; [((-2), 2)]]); (gmx 2%nat 1%nat [[(2, 2)]; [((-1), 0)]])]]]).

(* helpers of the non-vacuity checks *)
Definition all_words (d L : nat) (f : list nat -> bool) : bool := forallb f (words d L).
Definition some_nonzero (v : list GIring) : bool := existsb (fun x => negb (keqb GIring x (k0 GIring))) v.


(* split / merge: an exact factorisation M = U diag(4, 9) V over Z[i] as the oracle answer; ksqrt 4 = 2, ksqrt 9 = 3 *)
Definition ex_U : mx GIring := gmx 4 2 [[(1, 0); (0, 1)]; [(2, (-1)); (1, 1)]; [(0, 0); ((-1), 2)]; [(1, 1); (3, 0)]]%Z.
Definition ex_V : mx GIring := gmx 2 6 [[(1, 0); (0, 2); ((-1), 1); (2, 0); (0, 0); (1, (-1))];
                                        [(0, 1); (1, 0); (2, 2); ((-1), 0); (1, 1); (0, (-2))]]%Z.
Definition ex_sigma : list GIring := [(4, 0); (9, 0)]%Z.
Definition ex_M : mx GIring := mulmx (tab 4 2 (fun i l => kmul GIring (get ex_U i l) (nth l ex_sigma (k0 GIring)))) ex_V.
(* d0 = 2, d1 = 3, D0 = 2, D2 = 2 : A[s0*3 + s1][a, c] = M[s0*2 + a, s1*2 + c] *)
Definition ex_A : site GIring :=
  stab 6 (fun s => tab 2 2 (fun a c => get ex_M ((s / 3) * 2 + a) ((s mod 3) * 2 + c))).
Definition ex_svd (_ : mx GIring) (_ _ : list Z) : mx GIring * list GIring * mx GIring * list Z := (ex_U, ex_sigma, ex_V, [0; 0]%Z).
Definition ex_sqrt (x : GIring) : GIring := if keqb GIring x (4, 0)%Z then (2, 0)%Z else if keqb GIring x (9, 0)%Z then (3, 0)%Z else (0, 0)%Z.

