(* C07 (b), all L -- part 3: the optimized chain list of molecular_hamiltonian_mpo equals the second-quantised formula
   [mol_formula] (Model/MolFormula.v) on EVERY word, for EVERY orbital count L, all coefficient functions, every cring and
   every value of [half].
   Route: (1) every Jordan-Wigner term is a tabulation of letter products (MolAllL1); (2) letter by letter the chain the code
   enumerates for i < j, k < l is the product word of a+_i a+_j a_l a_k with sign +, and the three other orderings of the same
   index set give the same word with signs -, -, + (MolAllL2: thirteen relative orders); repeated creators/annihilators
   vanish; (3) [suml_pairs]: a full double sum is the sum over pairs i < j of both orderings plus the diagonal; applied to
   (i, j) and to (k, l) this regroups 1/2 sum_ijkl v_ijkl ... into sum_{i<j, k<l} gint_ijkl ... -- the code's [gint]. *)
From Coq Require Import ZArith List Lia Bool Arith Ring.
From PT Require Import Base.Scalar Base.BigSum Model.OpGraph Model.FromOpchains Model.Molecular Model.MolFormula
                       Proofs.MolOpt Proofs.MolFormulaProofs Proofs.MolAllL1 Proofs.MolAllL2.
Import ListNotations.
Open Scope nat_scope.

Lemma skel_word_length n s : skel_wf n s -> length (skel_word n s) = n.
Proof.
  intros [_ [_ [H1 H2]]]. unfold skel_word. rewrite !app_length, !repeat_length. lia.
Qed.

(* the words *)
Lemma hop_word_tab n i j : i < n -> j < n ->
  skel_word n (hop_skel i j) = map (fun p => op_id (sop_op (F2 i j p))) (seq 0 n).
Proof.
  intros Hi Hj. apply list_eq_tab.
  - apply skel_word_length. apply hop_skel_wf; assumption.
  - intros p Hp. apply hop_word_nth; assumption.
Qed.
Lemma int_word_tab n a b c d : a < b < n -> c < d < n ->
  skel_word n (int_skel a b c d) = map (fun p => op_id (sop_op (F4 a b c d p))) (seq 0 n).
Proof.
  intros Hab Hcd. apply list_eq_tab.
  - apply skel_word_length. apply int_skel_wf; lia.
  - intros p Hp. apply int_word_nth; assumption.
Qed.

(* the terms as signed words: a+_i a_j is + the hopping chain; a+_i a+_j a_l a_k for i < j, k < l is + the interaction chain,
   exchanging the creators or the annihilators flips the sign *)
Theorem term2_word n i j : i < n -> j < n ->
  exists u, term2 n i j = Some (false, u) /\ mol_ids u = skel_word n (hop_skel i j).
Proof.
  intros Hi Hj. exists (map (fun p => sop_op (F2 i j p)) (seq 0 n)). split.
  - rewrite term2_tab by assumption.
    rewrite (stab_some _ _ (fun _ => false) (fun p => sop_op (F2 i j p))) by (intros; apply F2_sign).
    rewrite xorl_false by reflexivity. reflexivity.
  - unfold mol_ids. rewrite map_map. symmetry. apply hop_word_tab; assumption.
Qed.
Theorem term4_word n a b c d (s1 s2 : bool) : a < b < n -> c < d < n ->
  exists u, term4 n (if s1 then a else b) (if s1 then b else a) (if s2 then c else d) (if s2 then d else c)
            = Some (xorb s1 s2, u) /\ mol_ids u = skel_word n (int_skel a b c d).
Proof.
  intros Hab Hcd. exists (map (fun p => sop_op (F4 a b c d p)) (seq 0 n)). split.
  - rewrite term4_tab by (destruct s1, s2; lia).
    rewrite (stab_some _ _ (fun p => xorb (s1 && (p =? b)) (s2 && (p =? d))) (fun p => sop_op (F4 a b c d p)))
      by (intros; apply F4_sign; lia).
    rewrite xorl_xor, !xorl_and, !xorl_eqb by lia. rewrite !andb_true_r. reflexivity.
  - unfold mol_ids. rewrite map_map. symmetry. apply int_word_tab; assumption.
Qed.
Theorem term4_diag12 n i k l : i < n -> k < n -> l < n -> term4 n i i k l = None.
Proof.
  intros Hi Hk Hl. rewrite term4_tab by assumption. apply (stab_none _ _ i); [apply in_seq; lia | apply F4_diag12].
Qed.
Theorem term4_diag34 n i j k : i < n -> j < n -> k < n -> term4 n i j k k = None.
Proof.
  intros Hi Hj Hk. rewrite term4_tab by assumption. apply (stab_none _ _ k); [apply in_seq; lia | apply F4_diag34].
Qed.

Section AllL.
  Variable R : cring.
  Variable half : R.
  Add Ring Rring_molall : (k_rt R).
  Notation "0r" := (k0 R). Notation "1r" := (k1 R).

  (* ---- regrouping a double sum by unordered pairs ---- *)
  Lemma suml_ind_lt n i (h : nat -> R) : i < n ->
    suml (range_from i n) h = suml (seq 0 n) (fun j => if i <? j then h j else 0r).
  Proof.
    intros H. unfold range_from.
    replace (seq 0 n) with (seq 0 ((i + 1) + (n - (i + 1)))) by (f_equal; lia).
    rewrite seq_app, suml_app. cbn [Nat.add].
    rewrite (suml_zero R (seq 0 (i + 1))).
    - rewrite (suml_ext R (seq (i + 1) (n - (i + 1))) (fun j => if i <? j then h j else 0r) h); [ring|].
      intros j Hj. apply in_seq in Hj. destruct (Nat.ltb_spec i j); [reflexivity|lia].
    - intros j Hj. apply in_seq in Hj. destruct (Nat.ltb_spec i j); [lia|reflexivity].
  Qed.
  Lemma suml_ind_eq n i (h : nat -> R) : i < n ->
    h i = suml (seq 0 n) (fun j => if i =? j then h j else 0r).
  Proof.
    intros H. replace (seq 0 n) with (seq 0 (i + S (n - 1 - i))) by (f_equal; lia).
    rewrite seq_split3, suml_app. cbn [suml]. rewrite Nat.eqb_refl.
    rewrite !suml_zero; [ring| |].
    - intros j Hj. apply in_seq in Hj. destruct (Nat.eqb_spec i j); [lia|reflexivity].
    - intros j Hj. apply in_seq in Hj. destruct (Nat.eqb_spec i j); [lia|reflexivity].
  Qed.

  Theorem suml_pairs n (f : nat -> nat -> R) :
    suml (seq 0 n) (fun i => suml (seq 0 n) (fun j => f i j)) =
    kadd R (suml (pairs_lt n) (fun ij => kadd R (f (fst ij) (snd ij)) (f (snd ij) (fst ij))))
           (suml (seq 0 n) (fun i => f i i)).
  Proof.
    unfold pairs_lt. rewrite suml_flat_map'.
    rewrite (suml_ext R (seq 0 n)
               (fun i => suml (map (fun j => (i, j)) (range_from i n))
                              (fun ij => kadd R (f (fst ij) (snd ij)) (f (snd ij) (fst ij))))
               (fun i => kadd R (suml (seq 0 n) (fun j => if i <? j then f i j else 0r))
                                (suml (seq 0 n) (fun j => if i <? j then f j i else 0r)))).
    2:{ intros i Hi. apply in_seq in Hi. rewrite suml_map. cbn [fst snd]. rewrite suml_ind_lt by lia.
        rewrite <- suml_add. apply suml_ext. intros j _. destruct (i <? j); ring. }
    rewrite suml_add.
    rewrite (suml_exch R (seq 0 n) (seq 0 n) (fun i j => if i <? j then f j i else 0r)).
    rewrite (suml_ext R (seq 0 n) (fun i => f i i) (fun i => suml (seq 0 n) (fun j => if i =? j then f i j else 0r)))
      by (intros i Hi; apply in_seq in Hi; apply (suml_ind_eq n i (f i)); lia).
    rewrite <- !suml_add. apply suml_ext; intros i _. rewrite <- !suml_add. apply suml_ext. intros j _.
    destruct (Nat.ltb_spec i j), (Nat.ltb_spec j i), (Nat.eqb_spec i j); try lia; ring.
  Qed.

  (* ---- coefficients of a word in the terms ----
     generality used for the spin orbitals: the letters of a word are read through [ids] = [wd] o [mol_ids]
     (spinless: [wd] = identity; spin: [wd] pairs the letters of the two modes of a site) *)
  Definition ind (c : bool) (x : R) : R := if c then x else 0r.
  Variable ids : list op -> list Z.
  Variable wd : list Z -> list Z.
  Hypothesis Hids : forall u, ids u = wd (mol_ids u).

  Lemma term2_coef n i j w : i < n -> j < n ->
    sw_coef ids (term2 n i j) w = ind (zlist_eqb (wd (skel_word n (hop_skel i j))) w) 1r.
  Proof.
    intros Hi Hj. destruct (term2_word n i j Hi Hj) as [u [E Eu]]. rewrite E. unfold sw_coef. rewrite Hids, Eu. reflexivity.
  Qed.
  Lemma term4_coef n a b c d (s1 s2 : bool) w : a < b < n -> c < d < n ->
    sw_coef ids (term4 n (if s1 then a else b) (if s1 then b else a) (if s2 then c else d) (if s2 then d else c)) w
    = ind (zlist_eqb (wd (skel_word n (int_skel a b c d))) w) (if xorb s1 s2 then kopp R 1r else 1r).
  Proof.
    intros Hab Hcd. destruct (term4_word n a b c d s1 s2 Hab Hcd) as [u [E Eu]]. rewrite E. unfold sw_coef.
    rewrite Hids, Eu. reflexivity.
  Qed.

  Variable t : nat -> nat -> R.
  Variable v : nat -> nat -> nat -> nat -> R.

  (* the second-quantised formula with the letters read through [ids] *)
  Definition gen_formula (L : nat) (w : list Z) : R :=
    kadd R
      (suml (seq 0 L) (fun i => suml (seq 0 L) (fun j => kmul R (t i j) (sw_coef ids (term2 L i j) w))))
      (kmul R half
        (suml (seq 0 L) (fun i => suml (seq 0 L) (fun j => suml (seq 0 L) (fun k => suml (seq 0 L) (fun l =>
           kmul R (v i j k l) (sw_coef ids (term4 L i j k l) w))))))).
  (* the chain side: the enumerated skeletons, words read through [wd] *)
  Definition skels_den (L : nat) (sk : list (skel * mtag)) (w : list Z) : R :=
    suml sk (fun st => ind (zlist_eqb (wd (skel_word L (fst st))) w) (mol_coeff half t v (snd st))).

  (* the hopping part: sum_ij t_ij a+_i a_j = the L^2 hopping chains *)
  Theorem gen_hop_all_L L w :
    skels_den L (mol_hop_skels L) w =
    suml (seq 0 L) (fun i => suml (seq 0 L) (fun j => kmul R (t i j) (sw_coef ids (term2 L i j) w))).
  Proof.
    unfold skels_den, mol_hop_skels. rewrite suml_flat_map'. apply suml_ext; intros i Hi.
    rewrite suml_map. apply suml_ext; intros j Hj. apply in_seq in Hi. apply in_seq in Hj.
    cbn [fst snd mol_coeff]. rewrite term2_coef by lia.
    unfold ind. destruct (zlist_eqb _ w); ring.
  Qed.

  (* the interaction part: 1/2 sum_ijkl v_ijkl a+_i a+_j a_l a_k = the (L(L-1)/2)^2 chains with the antisymmetrised gint *)
  Theorem gen_int_all_L L w :
    skels_den L (mol_int_skels L) w =
    kmul R half
      (suml (seq 0 L) (fun i => suml (seq 0 L) (fun j => suml (seq 0 L) (fun k => suml (seq 0 L) (fun l =>
         kmul R (v i j k l) (sw_coef ids (term4 L i j k l) w)))))).
  Proof.
    set (f := fun i j k l => kmul R (v i j k l) (sw_coef ids (term4 L i j k l) w)).
    assert (Hd12 : forall i k l, i < L -> k < L -> l < L -> f i i k l = 0r).
    { intros i k l Hi Hk Hl. unfold f. rewrite term4_diag12 by assumption. cbn [sw_coef]. ring. }
    assert (Hd34 : forall i j k, i < L -> j < L -> k < L -> f i j k k = 0r).
    { intros i j k Hi Hj Hk. unfold f. rewrite term4_diag34 by assumption. cbn [sw_coef]. ring. }
    (* inner double sum over (k, l) *)
    assert (Hin : forall i j, i < L -> j < L ->
              suml (seq 0 L) (fun k => suml (seq 0 L) (fun l => f i j k l)) =
              suml (pairs_lt L) (fun kl => kadd R (f i j (fst kl) (snd kl)) (f i j (snd kl) (fst kl)))).
    { intros i j Hi Hj. rewrite (suml_pairs L (f i j)).
      rewrite (suml_zero R (seq 0 L) (fun k => f i j k k)); [ring|].
      intros k Hk. apply in_seq in Hk. apply Hd34; lia. }
    set (g := fun i j => suml (seq 0 L) (fun k => suml (seq 0 L) (fun l => f i j k l))).
    change (suml (seq 0 L) (fun i => suml (seq 0 L) (fun j => suml (seq 0 L) (fun k => suml (seq 0 L) (fun l =>
              kmul R (v i j k l) (sw_coef ids (term4 L i j k l) w))))))
      with (suml (seq 0 L) (fun i => suml (seq 0 L) (fun j => g i j))).
    rewrite (suml_pairs L g).
    rewrite (suml_zero R (seq 0 L) (fun i => g i i)).
    2:{ intros i Hi. apply in_seq in Hi. unfold g. apply suml_zero. intros k Hk. apply suml_zero. intros l Hl.
        apply in_seq in Hk. apply in_seq in Hl. apply Hd12; lia. }
    unfold skels_den, mol_int_skels. rewrite suml_flat_map'.
    replace (kmul R half (kadd R (suml (pairs_lt L) (fun ij => kadd R (g (fst ij) (snd ij)) (g (snd ij) (fst ij)))) 0r))
      with (suml (pairs_lt L) (fun ij => kmul R half (kadd R (g (fst ij) (snd ij)) (g (snd ij) (fst ij)))))
      by (rewrite suml_scal_l; ring).
    apply suml_ext. intros [i j] Hij. apply pairs_lt_In in Hij. cbn [fst snd].
    unfold g. rewrite !Hin by lia. rewrite <- suml_add, <- suml_scal_l, suml_map.
    apply suml_ext. intros [k l] Hkl. apply pairs_lt_In in Hkl. cbn [fst snd mol_coeff]. unfold f.
    pose proof (term4_coef L i j k l true true w ltac:(lia) ltac:(lia)) as E1.
    pose proof (term4_coef L i j k l true false w ltac:(lia) ltac:(lia)) as E2.
    pose proof (term4_coef L i j k l false true w ltac:(lia) ltac:(lia)) as E3.
    pose proof (term4_coef L i j k l false false w ltac:(lia) ltac:(lia)) as E4.
    cbn [xorb] in E1, E2, E3, E4. rewrite E1, E2, E3, E4.
    unfold ind, gint. destruct (zlist_eqb _ w); ring.
  Qed.

  Theorem gen_formula_all_L L w : skels_den L (mol_skels L) w = gen_formula L w.
  Proof.
    unfold mol_skels, gen_formula. unfold skels_den at 1. rewrite suml_app.
    pose proof (gen_hop_all_L L w) as Hh. pose proof (gen_int_all_L L w) as Hi.
    unfold skels_den in Hh, Hi. rewrite Hh, Hi. reflexivity.
  Qed.
End AllL.

(* ---- spinless: the full identity, every L, and its two halves ---- *)
Section Spinless.
  Variable R : cring.
  Variable half : R.
  Variable t : nat -> nat -> R.
  Variable v : nat -> nat -> nat -> nat -> R.
  Notation "0r" := (k0 R).

  Lemma chains_den_skels L sk w :
    chains_den L 0%Z (map (attach (mol_coeff half t v)) sk) w = skels_den R half (fun x => x) t v L sk w.
  Proof.
    unfold chains_den, skels_den. rewrite suml_map. apply suml_ext. intros st _. reflexivity.
  Qed.

  Theorem mol_hop_all_L L w :
    chains_den L 0%Z (map (attach (mol_coeff half t v)) (mol_hop_skels L)) w =
    suml (seq 0 L) (fun i => suml (seq 0 L) (fun j => kmul R (t i j) (sw_coef mol_ids (term2 L i j) w))).
  Proof. rewrite chains_den_skels. apply (gen_hop_all_L R half mol_ids). reflexivity. Qed.

  Theorem mol_int_all_L L w :
    chains_den L 0%Z (map (attach (mol_coeff half t v)) (mol_int_skels L)) w =
    kmul R half
      (suml (seq 0 L) (fun i => suml (seq 0 L) (fun j => suml (seq 0 L) (fun k => suml (seq 0 L) (fun l =>
         kmul R (v i j k l) (sw_coef mol_ids (term4 L i j k l) w)))))).
  Proof. rewrite chains_den_skels. apply (gen_int_all_L R half mol_ids). reflexivity. Qed.

  Theorem mol_formula_all_L L w :
    chains_den L 0%Z (mol_chains half L t v) w = mol_formula half L t v w.
  Proof.
    unfold mol_chains. rewrite chains_den_skels.
    rewrite (gen_formula_all_L R half mol_ids (fun x => x)) by reflexivity. reflexivity.
  Qed.
End Spinless.
