(* C02, round 2: zero patterns through the Krylov routines (Model/Krylov.v).

   Z : nat -> Prop is a set of FORBIDDEN positions; [supp Z x] says that x vanishes on Z (positions past the end of x
   read as 0).  If [Afunc] maps vectors vanishing on Z to vectors vanishing on Z and the start vector vanishes on Z, then
   every Lanczos / Arnoldi vector does, hence so does every returned Ritz vector of eigh_krylov and the result of
   expm_krylov (both branches) -- whatever numpy.linalg.norm, the breakdown test, eigh_tridiagonal, exp and expm answer:
   the results are linear combinations of Krylov vectors, which arise from Afunc by sums, differences and scalings.
   No oracle contract is used. *)
From Coq Require Import ZArith List Bool Arith Lia Ring Field.
From PT Require Import Base.Scalar Base.Field Base.BigSum Model.Krylov.
Import ListNotations.

Section Pattern.
  Variable F : ofield.
  Notation K := (Cx F).
  Add Field Ffield_h2k : (f_ft F).
  Add Ring Kring_h2k : (k_rt (Cx F)).
  Notation vec := (list K).
  Notation "0" := (k0 K).
  Infix "+" := (kadd K). Infix "*" := (kmul K). Infix "-" := (ksub K).

  Variable Z : nat -> Prop.
  Definition supp (x : vec) : Prop := forall i, Z i -> nth i x 0 = 0.

  Lemma supp_nil : supp []. Proof. intros [|i] _; reflexivity. Qed.
  Lemma supp_nth (Vs : list vec) j : Forall supp Vs -> supp (nth j Vs []).
  Proof.
    intros H. destruct (Nat.lt_ge_cases j (length Vs)) as [Hj|Hj].
    - rewrite Forall_forall in H. apply H. apply nth_In. exact Hj.
    - rewrite nth_overflow by exact Hj. apply supp_nil.
  Qed.

  Lemma nth_zipw_cases (f : K -> K -> K) : forall (x y : vec) i,
    nth i (zipw f x y) 0 = 0 \/ nth i (zipw f x y) 0 = f (nth i x 0) (nth i y 0).
  Proof.
    induction x as [|a x IH]; intros [|b y] i; cbn [zipw]; try (left; destruct i; reflexivity).
    destruct i; cbn [nth]; [right; reflexivity|apply IH].
  Qed.
  Lemma supp_zipw (f : K -> K -> K) x y : f 0 0 = 0 -> supp x -> supp y -> supp (zipw f x y).
  Proof.
    intros Hf Hx Hy i Hi. destruct (nth_zipw_cases f x y i) as [E|E]; [exact E|]. rewrite E, (Hx i Hi), (Hy i Hi). exact Hf.
  Qed.
  Lemma supp_vadd x y : supp x -> supp y -> supp (vadd x y).
  Proof. apply supp_zipw. ring. Qed.
  Lemma supp_vsub x y : supp x -> supp y -> supp (vsub x y).
  Proof. apply supp_zipw. ring. Qed.

  Lemma nth_map0 (g : K -> K) (x : vec) i : g 0 = 0 -> nth i (map g x) 0 = g (nth i x 0).
  Proof. intros Hg. rewrite <- Hg at 1. apply map_nth. Qed.
  Lemma supp_cscale c x : supp x -> supp (cscale c x).
  Proof.
    intros Hx i Hi. unfold cscale. rewrite (nth_map0 (kmul K c)) by ring. rewrite (Hx i Hi). ring.
  Qed.
  Lemma supp_rscale a x : supp x -> supp (rscale a x).
  Proof. apply supp_cscale. Qed.
  Lemma cdivr_0 r : cdivr (0 : K) r = 0.
  Proof.
    unfold cdivr. change (fst (0 : K)) with (f0 F). change (snd (0 : K)) with (f0 F).
    assert (E : fdiv F (f0 F) r = f0 F). { rewrite (Fdiv_def (f_ft F)). ring. }
    rewrite E. reflexivity.
  Qed.
  Lemma supp_vdivr x r : supp x -> supp (vdivr x r).
  Proof.
    intros Hx i Hi. unfold vdivr. rewrite (nth_map0 (fun z => cdivr z r)) by apply cdivr_0. rewrite (Hx i Hi). apply cdivr_0.
  Qed.
  Lemma supp_vzero n : supp (vzero n).
  Proof. intros i _. unfold vzero. revert i; induction n as [|n IH]; intros [|i]; cbn [repeat nth]; auto. Qed.
  Lemma supp_lincomb n : forall cs Vs, Forall supp Vs -> supp (lincomb n cs Vs).
  Proof.
    induction cs as [|c cs IH]; intros [|v Vs] H; cbn [lincomb]; try apply supp_vzero.
    inversion H; subst. apply supp_vadd; [apply supp_cscale; assumption|apply IH; assumption].
  Qed.

  Variable Afunc : vec -> vec.
  Variable dnorm : vec -> F.
  Variable small : F -> bool.
  Hypothesis HA : forall x, supp x -> supp (Afunc x).

  (* ---- Lanczos ---- *)
  Lemma lanczos_body_supp j be Vs : Forall supp Vs -> supp (snd (fst (lanczos_body F Afunc dnorm j be Vs))).
  Proof.
    intros H. unfold lanczos_body. cbv zeta. cbn [fst snd].
    apply supp_vsub; [apply HA, supp_nth; exact H|].
    destruct j as [|j']; [apply supp_rscale, supp_nth; exact H|].
    apply supp_vadd; apply supp_rscale, supp_nth; exact H.
  Qed.
  Lemma lanczos_loop_supp fuel : forall j al be Vs, Forall supp Vs ->
    Forall supp (snd (fst (lanczos_loop F Afunc dnorm small fuel j al be Vs))).
  Proof.
    induction fuel as [|fuel IH]; intros j al be Vs H; cbn [lanczos_loop]; [exact H|].
    pose proof (lanczos_body_supp j be Vs H) as Hb.
    destruct (lanczos_body F Afunc dnorm j be Vs) as [[a w'] b]. cbn [fst snd] in Hb.
    destruct (small b); [exact H|]. apply IH. apply Forall_app. split; [exact H|]. constructor; [|constructor].
    apply supp_vdivr. exact Hb.
  Qed.
  Theorem lanczos_supp v m al be Vs wn : supp v -> lanczos F Afunc dnorm small v m = Some (al, be, Vs, wn) -> Forall supp Vs.
  Proof.
    intros Hv E. unfold lanczos in E. destruct (fltb F (f0 F) (dnorm v)); [|discriminate]. destruct m as [|m']; [discriminate|].
    injection E as E.
    pose proof (lanczos_loop_supp m' 0 [] [] [vdivr v (dnorm v)]) as H. rewrite E in H. cbn [fst snd] in H.
    apply H. constructor; [apply supp_vdivr; exact Hv|constructor].
  Qed.

  (* ---- Arnoldi ---- *)
  Lemma mgs_supp : forall Vs w, Forall supp Vs -> supp w -> supp (snd (mgs F Vs w)).
  Proof.
    induction Vs as [|vk rest IH]; intros w H Hw; cbn [mgs]; [exact Hw|].
    inversion H; subst.
    specialize (IH (vsub w (cscale (vdot vk w) vk)) ltac:(assumption)
                   ltac:(apply supp_vsub; [exact Hw|apply supp_cscale; assumption])).
    destruct (mgs F rest (vsub w (cscale (vdot vk w) vk))) as [hs w']. exact IH.
  Qed.
  Lemma Forall_firstn {A} (P : A -> Prop) n (l : list A) : Forall P l -> Forall P (firstn n l).
  Proof. revert l; induction n as [|n IH]; intros [|x l] H; cbn [firstn]; try constructor; inversion H; subst; auto. Qed.
  Lemma arnoldi_body_supp j Vs : Forall supp Vs -> supp (snd (fst (arnoldi_body F Afunc dnorm j Vs))).
  Proof.
    intros H. unfold arnoldi_body. cbv zeta.
    match goal with |- context [mgs F ?a ?b] => pose proof (mgs_supp a b) as Hm; destruct (mgs F a b) as [hs w'] end.
    cbn [fst snd] in *. apply Hm; [apply Forall_firstn; exact H|apply HA, supp_nth; exact H].
  Qed.
  Lemma arnoldi_loop_supp fuel : forall j cols Vs, Forall supp Vs ->
    Forall supp (snd (fst (arnoldi_loop F Afunc dnorm small fuel j cols Vs))).
  Proof.
    induction fuel as [|fuel IH]; intros j cols Vs H; cbn [arnoldi_loop].
    - destruct (arnoldi_body F Afunc dnorm j Vs) as [[hs w'] b]. exact H.
    - pose proof (arnoldi_body_supp j Vs H) as Hb.
      destruct (arnoldi_body F Afunc dnorm j Vs) as [[hs w'] b]. cbn [fst snd] in Hb.
      destruct (small b); [exact H|]. apply IH. apply Forall_app. split; [exact H|]. constructor; [|constructor].
      apply supp_vdivr. exact Hb.
  Qed.
  Theorem arnoldi_supp v m H Vs wn : supp v -> arnoldi F Afunc dnorm small v m = Some (H, Vs, wn) -> Forall supp Vs.
  Proof.
    intros Hv E. unfold arnoldi in E. destruct (fltb F (f0 F) (dnorm v)); [|discriminate]. destruct m as [|m']; [discriminate|].
    pose proof (arnoldi_loop_supp m' 0 [] [vdivr v (dnorm v)]) as HH.
    destruct (arnoldi_loop F Afunc dnorm small m' 0 [] [vdivr v (dnorm v)]) as [[cols Vs'] wn']. cbn [fst snd] in HH.
    injection E as _ <- _. apply HH. constructor; [apply supp_vdivr; exact Hv|constructor].
  Qed.

  (* ---- eigh_krylov / expm_krylov ---- *)
  Variable deigh : list F -> list F -> list F * list (list F).
  Variable dexp : K -> K.
  Variable dexpm : list (list K) -> list (list K).

  Theorem eigh_krylov_supp v m numeig ws us : supp v ->
    eigh_krylov F Afunc dnorm small deigh v m numeig = Some (ws, us) -> Forall supp us.
  Proof.
    intros Hv E. unfold eigh_krylov in E.
    destruct (lanczos F Afunc dnorm small v m) as [[[[al be] Vs] wn]|] eqn:EL; [|discriminate].
    pose proof (lanczos_supp v m al be Vs wn Hv EL) as HVs.
    destruct (deigh al be) as [w U]. injection E as _ <-.
    apply Forall_forall. intros u Hu. apply in_map_iff in Hu. destruct Hu as (q & <- & _). apply supp_lincomb. exact HVs.
  Qed.
  (* in particular the vector that _minimize_local_energy reshapes: u_ritz[:, 0] (the empty list if there is none) *)
  Corollary eigh_krylov_supp0 v m numeig ws us : supp v ->
    eigh_krylov F Afunc dnorm small deigh v m numeig = Some (ws, us) -> supp (nth 0 us []).
  Proof. intros Hv E. apply supp_nth. eapply eigh_krylov_supp; eassumption. Qed.

  Theorem expm_krylov_supp v dt m herm x : supp v ->
    expm_krylov F Afunc dnorm small deigh dexp dexpm v dt m herm = Some x -> supp x.
  Proof.
    intros Hv E. unfold expm_krylov in E. destruct herm.
    - unfold expm_krylov_h in E.
      destruct (lanczos F Afunc dnorm small v m) as [[[[al be] Vs] wn]|] eqn:EL; [|discriminate].
      pose proof (lanczos_supp v m al be Vs wn Hv EL) as HVs.
      destruct (deigh al be) as [w U]. injection E as <-. apply supp_lincomb. exact HVs.
    - unfold expm_krylov_g in E.
      destruct (arnoldi F Afunc dnorm small v m) as [[[H Vs] wn]|] eqn:EA; [|discriminate].
      pose proof (arnoldi_supp v m H Vs wn Hv EA) as HVs.
      injection E as <-. apply supp_lincomb. exact HVs.
  Qed.
End Pattern.
