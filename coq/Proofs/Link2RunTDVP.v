(* Link 5b (C08, two-site): two-site TDVP with the Krylov-based local solver [kexp_lanczos] used for BOTH kinds of local
   problem the integrator issues: the merged two-site step (physical dimension d*d, merged MPO tensor) and the backward
   one-site step.  Along the run the LAPACK-level contracts of the calls recorded in the trace ([lttr2_ok]:
   numpy.linalg.norm, eigh_tridiagonal, numpy.exp on the calls of each local Lanczos exponential; the exact-split contract
   on the split_mps_tensor calls) imply the conserving-solver contracts [ttr2_ok] consumed by the whole-run theorem
   (Proofs/Sweeps2Run.v): the two-site invariant Z2 makes every merged effective operator self-adjoint (Hermitian MPO,
   Proofs/Link2Ctx.v) and every merged start tensor non-zero (norm one); the one-site invariant Z does the same for the
   backward steps (Proofs/LinkCtx.v).  Lock-step induction over the two-site schedule with the invariant
   "(Z, norm one, all earlier calls meet their conserving contracts)". *)
From Coq Require Import ZArith Arith List Lia Ring Field Setoid Bool.
From PT Require Import Base.Scalar Base.Field Base.BigSum Base.Mx Model.Tensor Model.Operation Model.Krylov Model.Sweeps
  Proofs.OperationSums Proofs.OperationEntries Proofs.OperationChains Proofs.OperationLocal Proofs.OperationUniform Proofs.OperationTwoSite
  Proofs.KrylovLanczos Proofs.KrylovRitz
  Proofs.SweepsCanon Proofs.SweepsFlow Proofs.SweepsSched Proofs.SweepsLocal Proofs.SweepsGauge Proofs.SweepsBond Proofs.SweepsInv Proofs.SweepsRun
  Proofs.Sweeps2Inv Proofs.Sweeps2Run
  Proofs.LinkFlatten Proofs.LinkLocalOps Proofs.LinkSolvers Proofs.LinkCtx Proofs.LinkRunTDVP Proofs.Link2Ctx.
Import ListNotations.

Section LinkTDVP2.
  Variable F : ofield.
  Notation K := (Cx F).
  Variable split : nat -> site K -> list BinNums.Z -> list BinNums.Z -> list BinNums.Z -> list BinNums.Z -> bool -> site K * site K * list BinNums.Z.
  Variable dnorm : list K -> F.
  Variable small : F -> bool.
  Variable deigh : list F -> list F -> list F * list (list F).
  Variable dexp : K -> K.
  Variable dexpm : list (list K) -> list (list K).
  Variable numiter : nat.
  Notation kexp := (kexp_lanczos F dnorm small deigh dexp dexpm numiter).
  Variable Hs : list (osite K).
  Variable qd : list BinNums.Z.
  Variables (dt hdt : K).
  Variable d : nat.
  Variable DsW : list nat.
  Hypothesis Hd : 0 < d.
  Hypothesis HWs : ochain_ok (repeat d (length Hs)) DsW Hs.
  Hypothesis HhW : hd 0 DsW = 1.
  Hypothesis HWst : Forall (osite_struct d) Hs.
  Hypothesis Hherm : mpo_herm F Hs d.
  Hypothesis small_pos : small_sound F small.
  Hypothesis Hnit : 1 <= numiter.
  Notation L := (length Hs).
  Notation Zi := (Z K Hs d).
  Notation Z2i := (Z2 K Hs d).
  Notation NNi := (NN K Hs d).
  Notation EEi := (EE K Hs d).
  Notation tok := (ttr2_ok split kexp Hs dt hdt d).

  (* LAPACK-level contracts of the calls recorded in a trace of two-site TDVP: the Lanczos exponential's primitive calls
     for the one-site steps KH (MPO tensor of the site) and the two-site steps KH2 (merged MPO tensor, as the code forms
     it); the exact-split contract for the split_mps_tensor calls *)
  Definition ltdvp2_call_ok (p : nat) (t : tcall K) : Prop :=
    let i := c_site (t_call t) in
    let tm := tval dt hdt (c_coef (t_call t)) in
    match c_kind (t_call t), t_envs t, t_ten t, t_qs t with
    | KH, [BL; BR], [A], _ => kexp_lanczos_calls_ok F dnorm small deigh dexp numiter BL BR (nth i Hs []) A tm
    | KH2, [BL; BR], [Am], _ => kexp_lanczos_calls_ok F dnorm small deigh dexp numiter BL BR (Hm Hs i) Am tm
    | SPLITL, _, [Am], [q0; q1; q2; q3] => split_ok d true Am (split p Am q0 q1 q2 q3 true)
    | SPLITR, _, [Am], [q0; q1; q2; q3] => split_ok d false Am (split p Am q0 q1 q2 q3 false)
    | _, _, _, _ => True
    end.
  Fixpoint lttr2_ok (tr : list (tcall K)) : Prop :=
    match tr with [] => True | t :: rest => ltdvp2_call_ok (length rest) t /\ lttr2_ok rest end.
  Lemma lttr2_ok_suffix new old : lttr2_ok (new ++ old) -> lttr2_ok old.
  Proof. induction new as [|t new IH]; [exact (fun H => H)|]. cbn [app lttr2_ok]. intros [_ H]. exact (IH H). Qed.

  (* per call: a merged two-site step issued at a state satisfying the two-site invariant meets the conserving contract
     for physical dimension d*d *)
  Lemma kh2_entry_ok (st : sw K) i p t : Z2i st i -> NNi (s_A st) = k1 K ->
    kexp_lanczos_calls_ok F dnorm small deigh dexp numiter (gBL st i) (gBR st (S i)) (Hm Hs i) (c04_merge_site (gA st i) (gA st (S i))) t ->
    kexp_ok (d * d) (gBL st i) (gBR st (S i)) (Hm Hs i) (c04_merge_site (gA st i) (gA st (S i)))
      (kexp p (gBL st i) (gBR st (S i)) (Hm Hs i) (c04_merge_site (gA st i) (gA st (S i))) t).
  Proof.
    intros HZ HN Hc.
    destruct (Z2_local_ctx F Hs d DsW Hd HWs HhW HWst st i HZ) as (Dl & Dr & Dwl & Dwr & Hwl & Hwr & HW & HBL & HBR & HA & N0 & Hsa).
    assert (Hdd : 0 < d * d) by (apply Nat.mul_pos_pos; exact Hd).
    apply (kexp_from_krylov F dnorm small deigh dexp dexpm numiter small_pos Hnit (d * d) Dl Dr Dwl Dwr); try assumption.
    - apply Hsa. exact Hherm.
    - rewrite <- N0, HN. apply (k1_neq_k0 F).
  Qed.
  (* ... and a one-site step issued at a state satisfying the one-site invariant *)
  Lemma kh1_entry_ok (st : sw K) j p t : Zi st j -> NNi (s_A st) = k1 K ->
    kexp_lanczos_calls_ok F dnorm small deigh dexp numiter (gBL st j) (gBR st j) (nth j Hs []) (gA st j) t ->
    kexp_ok d (gBL st j) (gBR st j) (nth j Hs []) (gA st j) (kexp p (gBL st j) (gBR st j) (nth j Hs []) (gA st j) t).
  Proof. exact (kh_entry_ok F dnorm small deigh dexp dexpm numiter Hs d DsW Hd HWs HhW Hherm small_pos Hnit st j p t). Qed.

  (* ---- the primitive moves of the schedule ---- *)
  Lemma pair_bridge (st : sw K) i c left : Z2i st i -> NNi (s_A st) = k1 K -> tok (s_tr st) ->
    lttr2_ok (s_tr (tdvp2_pair split kexp Hs qd dt hdt st i c left)) -> tok (s_tr (tdvp2_pair split kexp Hs qd dt hdt st i c left)).
  Proof.
    intros HZ HN Hold Hl. unfold tdvp2_pair in *. cbv zeta in *.
    destruct (split _ _ _ _ _ _ _) as [[A0 A1] qb] eqn:Es.
    cbn [s_tr] in *. destruct Hl as (LS & LK & _).
    split; [|split; [|exact Hold]].
    - unfold ltdvp2_call_ok in LS. unfold tdvp2_call_ok.
      destruct left; cbn [t_call c_kind c_site c_coef t_envs t_ten t_qs length] in *; exact LS.
    - exact (kh2_entry_ok st i (length (s_tr st)) (tval dt hdt c) HZ HN LK).
  Qed.
  Lemma evolve_bridge (st : sw K) j c : Zi st j -> NNi (s_A st) = k1 K -> tok (s_tr st) ->
    lttr2_ok (s_tr (evolve_site kexp Hs dt hdt st j c)) -> tok (s_tr (evolve_site kexp Hs dt hdt st j c)).
  Proof.
    intros HZ HN Hold Hl. unfold evolve_site in *. cbn [s_tr] in *. destruct Hl as [LK _].
    split; [|exact Hold]. exact (kh1_entry_ok st j (length (s_tr st)) (tval dt hdt c) HZ HN LK).
  Qed.

  (* ---- the three loop bodies ---- *)
  Lemma lr_bridge (st : sw K) i : Zi st i -> NNi (s_A st) = k1 K -> S i < L -> tok (s_tr st) ->
    lttr2_ok (s_tr (tdvp2_lr split kexp Hs qd dt hdt st i)) -> tok (s_tr (tdvp2_lr split kexp Hs qd dt hdt st i)).
  Proof.
    intros HZ HN HSi Hold Hl. unfold tdvp2_lr in *.
    set (st1 := tdvp2_pair split kexp Hs qd dt hdt st i 1 false) in *.
    assert (Hl2 : lttr2_ok (s_tr (upd_BL Hs st1 i))) by (unfold evolve_site in Hl; cbn [s_tr] in Hl; exact (proj2 Hl)).
    assert (Hl1 : lttr2_ok (s_tr st1)) by (unfold upd_BL in Hl2; cbn [s_tr] in Hl2; exact (proj2 Hl2)).
    pose proof (Z_Z2_left K Hs d DsW Hd HhW st i HZ HSi) as HZ2.
    pose proof (pair_bridge st i 1 false HZ2 HN Hold Hl1) as Hr1. fold st1 in Hr1.
    destruct (tdvp2_pair_step K split kexp Hs qd dt hdt d DsW Hd HWs HhW HWst st i 1 false HZ2 Hr1) as (HZ1 & N1 & _ & Hiso).
    fold st1 in HZ1, N1, Hiso.
    assert (HZu : Zi (upd_BL Hs st1 i) (S i)) by (apply (Z2_to_right K Hs d DsW Hd HhW st1 _ i HZ1 Hiso); reflexivity).
    assert (Hr2 : tok (s_tr (upd_BL Hs st1 i))) by (unfold upd_BL; cbn [s_tr]; split; [exact I|exact Hr1]).
    apply evolve_bridge; [exact HZu| |exact Hr2|exact Hl].
    cbn [upd_BL s_A]. rewrite N1. exact HN.
  Qed.
  Lemma mid_bridge (st : sw K) i : Zi st i -> NNi (s_A st) = k1 K -> S i < L -> tok (s_tr st) ->
    lttr2_ok (s_tr (tdvp2_mid split kexp Hs qd dt hdt st i)) -> tok (s_tr (tdvp2_mid split kexp Hs qd dt hdt st i)).
  Proof.
    intros HZ HN HSi Hold Hl. unfold tdvp2_mid in *.
    set (st1 := tdvp2_pair split kexp Hs qd dt hdt st i 2 true) in *.
    assert (Hl1 : lttr2_ok (s_tr st1)) by (unfold upd_BR in Hl; cbn [s_tr] in Hl; exact (proj2 Hl)).
    pose proof (Z_Z2_left K Hs d DsW Hd HhW st i HZ HSi) as HZ2.
    pose proof (pair_bridge st i 2 true HZ2 HN Hold Hl1) as Hr1. fold st1 in Hr1.
    unfold upd_BR. cbn [s_tr]. split; [exact I|exact Hr1].
  Qed.
  Lemma rl_bridge (st : sw K) i : Zi st (S i) -> NNi (s_A st) = k1 K -> tok (s_tr st) ->
    lttr2_ok (s_tr (tdvp2_rl split kexp Hs qd dt hdt st i)) -> tok (s_tr (tdvp2_rl split kexp Hs qd dt hdt st i)).
  Proof.
    intros HZ HN Hold Hl. unfold tdvp2_rl in *.
    set (st0 := evolve_site kexp Hs dt hdt st (S i) (-1)) in *.
    set (st1 := tdvp2_pair split kexp Hs qd dt hdt st0 i 1 true) in *.
    assert (Hl1 : lttr2_ok (s_tr st1)) by (unfold upd_BR in Hl; cbn [s_tr] in Hl; exact (proj2 Hl)).
    assert (Hl0 : lttr2_ok (s_tr st0)).
    { unfold st1, tdvp2_pair in Hl1. cbv zeta in Hl1. destruct (split _ _ _ _ _ _ _) as [[A0 A1] qb]. cbn [s_tr] in Hl1. exact (proj2 (proj2 Hl1)). }
    pose proof (evolve_bridge st (S i) (-1) HZ HN Hold Hl0) as Hr0. fold st0 in Hr0.
    destruct (evolve_site_step K split kexp Hs dt hdt d DsW Hd HWs HhW st (S i) (-1) HZ Hr0) as (HZ0 & N0 & _). fold st0 in HZ0, N0.
    assert (HN0 : NNi (s_A st0) = k1 K) by (rewrite N0; exact HN).
    pose proof (pair_bridge st0 i 1 true (Z_Z2_right K Hs d DsW Hd HhW st0 i HZ0) HN0 Hr0 Hl1) as Hr1. fold st1 in Hr1.
    unfold upd_BR. cbn [s_tr]. split; [exact I|exact Hr1].
  Qed.

  (* ---- one time step, any number of steps: the conserving contracts hold along the run ---- *)
  Definition QT2 (i : nat) (st : sw K) : Prop := Zi st i /\ NNi (s_A st) = k1 K /\ tok (s_tr st).

  Lemma step_lr (st : sw K) i : QT2 i st -> S i < L -> lttr2_ok (s_tr (tdvp2_lr split kexp Hs qd dt hdt st i)) ->
    QT2 (S i) (tdvp2_lr split kexp Hs qd dt hdt st i).
  Proof.
    intros (HZ & HN & Hold) HSi Hl. pose proof (lr_bridge st i HZ HN HSi Hold Hl) as Hr.
    destruct (tdvp2_lr_step K split kexp Hs qd dt hdt d DsW Hd HWs HhW HWst st i HZ HSi Hr) as (HZ' & HN' & _).
    split; [exact HZ'|]. split; [rewrite HN'; exact HN|exact Hr].
  Qed.
  Lemma step_mid (st : sw K) i : QT2 i st -> S i < L -> lttr2_ok (s_tr (tdvp2_mid split kexp Hs qd dt hdt st i)) ->
    QT2 i (tdvp2_mid split kexp Hs qd dt hdt st i).
  Proof.
    intros (HZ & HN & Hold) HSi Hl. pose proof (mid_bridge st i HZ HN HSi Hold Hl) as Hr.
    destruct (tdvp2_mid_step K split kexp Hs qd dt hdt d DsW Hd HWs HhW HWst st i HZ HSi Hr) as (HZ' & HN' & _).
    split; [exact HZ'|]. split; [rewrite HN'; exact HN|exact Hr].
  Qed.
  Lemma step_rl (st : sw K) i : QT2 (S i) st -> lttr2_ok (s_tr (tdvp2_rl split kexp Hs qd dt hdt st i)) ->
    QT2 i (tdvp2_rl split kexp Hs qd dt hdt st i).
  Proof.
    intros (HZ & HN & Hold) Hl. pose proof (rl_bridge st i HZ HN Hold Hl) as Hr.
    destruct (tdvp2_rl_step K split kexp Hs qd dt hdt d DsW Hd HWs HhW HWst st i HZ Hr) as (HZ' & HN' & _).
    split; [exact HZ'|]. split; [rewrite HN'; exact HN|exact Hr].
  Qed.

  Lemma step_bridge (st : sw K) : 2 <= L -> QT2 0 st ->
    lttr2_ok (s_tr (tdvp2_step split kexp Hs qd dt hdt L st)) -> QT2 0 (tdvp2_step split kexp Hs qd dt hdt L st).
  Proof.
    intros HL2 HT Hok. unfold tdvp2_step in *. cbv zeta in *.
    set (st1 := fold_left (tdvp2_lr split kexp Hs qd dt hdt) (seq 0 (L - 2)) st) in *.
    set (st2 := tdvp2_mid split kexp Hs qd dt hdt st1 (L - 2)) in *.
    assert (Hok2 : lttr2_ok (s_tr st2)).
    { destruct (fold_mono (@s_tr K) (tdvp2_rl split kexp Hs qd dt hdt) (suf_tdvp2_rl K split kexp Hs qd dt hdt) (rev (seq 0 (L - 2))) st2) as [new E].
      rewrite E in Hok. exact (lttr2_ok_suffix _ _ Hok). }
    assert (Hok1 : lttr2_ok (s_tr st1)).
    { destruct (suf_tdvp2_mid K split kexp Hs qd dt hdt st1 (L - 2)) as [new E]. fold st2 in E. rewrite E in Hok2. exact (lttr2_ok_suffix _ _ Hok2). }
    assert (H1 : QT2 (0 + (L - 2)) st1).
    { unfold st1.
      apply (fold_up (@s_tr K) (tdvp2_lr split kexp Hs qd dt hdt) (suf_tdvp2_lr K split kexp Hs qd dt hdt) lttr2_ok lttr2_ok_suffix QT2 (L - 2) 0 st HT Hok1).
      intros i s' Hi HQ Hoki. apply step_lr; [exact HQ|lia|exact Hoki]. }
    cbn [Nat.add] in H1.
    assert (H2 : QT2 (L - 2) st2) by (apply step_mid; [exact H1|lia|exact Hok2]).
    apply (fold_down0 (@s_tr K) (tdvp2_rl split kexp Hs qd dt hdt) (suf_tdvp2_rl K split kexp Hs qd dt hdt) lttr2_ok lttr2_ok_suffix QT2 (L - 2) st2 H2 Hok).
    intros i s' Hi HQ Hoki. apply step_rl; [exact HQ|exact Hoki].
  Qed.

  Lemma iter_bridge n : forall st, 2 <= L -> QT2 0 st ->
    lttr2_ok (s_tr (iter n (tdvp2_step split kexp Hs qd dt hdt L) st)) -> QT2 0 (iter n (tdvp2_step split kexp Hs qd dt hdt L) st).
  Proof.
    induction n as [|n IH]; intros st HL2 HT Hok; cbn [iter] in *; [exact HT|].
    apply IH; [exact HL2| |exact Hok]. apply step_bridge; [exact HL2|exact HT|].
    destruct (suf_tdvp2_iter K split kexp Hs qd dt hdt n (tdvp2_step split kexp Hs qd dt hdt L st)) as [new E]. rewrite E in Hok. exact (lttr2_ok_suffix _ _ Hok).
  Qed.
End LinkTDVP2.

Arguments lttr2_ok {F} split dnorm small deigh dexp numiter Hs dt hdt d tr.
Arguments ltdvp2_call_ok {F} split dnorm small deigh dexp numiter Hs dt hdt d p t.

(* per entry: a recorded KH2 entry whose oracle answers meet the Krylov contracts meets [kexp_ok (d*d)] whenever it was issued
   at a state satisfying the two-site invariant with norm one *)
Theorem kh2_entry_from_krylov (F : ofield) dnorm small deigh dexp dexpm numiter (Hs : list (osite (Cx F))) d DsW :
  0 < d -> ochain_ok (repeat d (length Hs)) DsW Hs -> hd 0 DsW = 1 -> Forall (osite_struct d) Hs ->
  mpo_herm F Hs d -> small_sound F small -> 1 <= numiter ->
  forall (st : sw (Cx F)) i p t, Z2 (Cx F) Hs d st i -> NN (Cx F) Hs d (s_A st) = k1 (Cx F) ->
  let Am := c04_merge_site (gA st i) (gA st (S i)) in
  kexp_lanczos_calls_ok F dnorm small deigh dexp numiter (gBL st i) (gBR st (S i)) (Hm Hs i) Am t ->
  kexp_ok (d * d) (gBL st i) (gBR st (S i)) (Hm Hs i) Am
    (kexp_lanczos F dnorm small deigh dexp dexpm numiter p (gBL st i) (gBR st (S i)) (Hm Hs i) Am t).
Proof.
  intros Hd HWs HhW HWst Hherm Hsm Hm st i p t HZ HN Am.
  exact (kh2_entry_ok F dnorm small deigh dexp dexpm numiter Hs d DsW Hd HWs HhW HWst Hherm Hsm Hm st i p t HZ HN).
Qed.

(* the LAPACK-level trace contract implies the conserving-solver contracts along every run of tdvp_twosite *)
Theorem tdvp2_lapack_to_conserving (F : ofield) orth split dnorm small deigh dexp dexpm numiter (H : mpo (Cx F)) psi dt hdt n d DsW Ds0 A qD nrm tr :
  tdvp_twosite orth split (kexp_lanczos F dnorm small deigh dexp dexpm numiter) H psi dt hdt n = Some (A, qD, nrm, tr) ->
  mpo_shapeb d DsW (o_A H) = true -> mps_shapeb d Ds0 (m_A (fst (orth psi))) = true ->
  Forall right_iso (m_A (fst (orth psi))) ->
  mpo_herm F (o_A H) d -> small_sound F small -> 1 <= numiter ->
  lttr2_ok split dnorm small deigh dexp numiter (o_A H) dt hdt d (rev tr) ->
  ttr2_ok split (kexp_lanczos F dnorm small deigh dexp dexpm numiter) (o_A H) dt hdt d (rev tr).
Proof.
  intros Hrun HH Hp Hiso Hherm Hsm Hm Hok.
  unfold tdvp_twosite in Hrun. destruct (Nat.ltb (length (o_A H)) 2) eqn:EL; [discriminate|]. apply Nat.ltb_ge in EL.
  destruct (sweep_init orth H psi) as [[st nrm']|] eqn:Einit; [|discriminate].
  assert (Hd : 0 < d).
  { unfold mpo_shapeb in HH. rewrite !andb_true_iff in HH. destruct HH as (((((HH0 & _) & _) & _) & _) & _). apply Nat.ltb_lt. exact HH0. }
  destruct (Z_init (Cx F) d Hd orth H psi st nrm' DsW Ds0 Einit HH Hp Hiso) as (HZ & HN & Etr & _ & HWs & HhW).
  pose proof (mpo_shapeb_struct (Cx F) d DsW (o_A H) HH) as HWst.
  injection Hrun as <- <- <- <-. rewrite rev_involutive in *.
  apply (iter_bridge F split dnorm small deigh dexp dexpm numiter (o_A H) (m_qd psi) dt hdt d DsW Hd HWs HhW HWst Hherm Hsm Hm n st EL); [|exact Hok].
  split; [exact HZ|]. split; [exact HN|]. rewrite Etr. exact I.
Qed.

(* WHOLE RUN, two-site, with the Krylov-based local solver: the remaining hypotheses are LAPACK-level contracts on the issued
   calls, the exact-split contract on the split_mps_tensor calls, and Hermiticity of the MPO *)
Theorem tdvp2_run_lapack (F : ofield) orth split dnorm small deigh dexp dexpm numiter (H : mpo (Cx F)) psi dt hdt n d DsW Ds0 A qD nrm tr :
  tdvp_twosite orth split (kexp_lanczos F dnorm small deigh dexp dexpm numiter) H psi dt hdt n = Some (A, qD, nrm, tr) ->
  mpo_shapeb d DsW (o_A H) = true -> mps_shapeb d Ds0 (m_A (fst (orth psi))) = true ->
  Forall right_iso (m_A (fst (orth psi))) ->
  mpo_herm F (o_A H) d -> small_sound F small -> 1 <= numiter ->
  lttr2_ok split dnorm small deigh dexp numiter (o_A H) dt hdt d (rev tr) ->
  let L := length (o_A H) in
  2 <= L /\ nrm = snd (orth psi) /\
  dnorm2 d L A = k1 (Cx F) /\
  denergy d L A (o_A H) = denergy d L (m_A (fst (orth psi))) (o_A H).
Proof.
  intros Hrun HH Hp Hiso Hherm Hsm Hm Hok.
  apply (tdvp2_run (Cx F) orth split (kexp_lanczos F dnorm small deigh dexp dexpm numiter) H psi dt hdt n d DsW Ds0 A qD nrm tr); try assumption.
  apply (tdvp2_lapack_to_conserving F orth split dnorm small deigh dexp dexpm numiter H psi dt hdt n d DsW Ds0 A qD nrm tr); assumption.
Qed.
