(* C08/C10 — consequences of the mixed-canonical identities for ONE local step of the sweeps:
   energy = <A|H_eff A> with the model's environment blocks, conservation by norm/energy preserving local solvers,
   the Ritz-contract consequences for DMRG, provenance of the blocks built by the prologue, result structure. *)
From Coq Require Import ZArith Arith List Lia Ring Field Setoid Bool.
From PT Require Import Base.Scalar Base.Field Base.BigSum Base.Mx Model.Tensor Model.Operation Model.Sweeps
  Proofs.OperationSums Proofs.OperationEntries Proofs.OperationChains Proofs.OperationLocal Proofs.OperationUniform
  Proofs.OperationTwoSite Proofs.SweepsCanon Proofs.SweepsSched.
Import ListNotations.

Section Local.
  Variable R : cring.
  Add Ring Rring_sweeps_local : (k_rt R).
  Infix "*" := (kmul R).
  Notation site := (site R).
  Notation osite := (osite R).
  Notation env := (env R).
  Notation mx := (mx R).
  Notation cj := (kconj R).

  (* dense quantities of a chain: <psi|psi> and <psi|H|psi> as sums over basis words *)
  Definition dnorm2 (d n : nat) (As : list site) : R := suml (words d n) (fun w => cj (amp As w) * amp As w).
  Definition denergy (d n : nat) (As : list site) (Ws : list osite) : R :=
    suml (words d n) (fun w => suml (words d n) (fun w' => cj (amp As w) * opamp Ws w w' * amp As w')).
  (* the same with the letters i, i+1 fused (two-site tensors) *)
  Definition denergy2 (d n i : nat) (As : list site) (Ws : list osite) : R :=
    suml (words d n) (fun w => suml (words d n) (fun w' =>
      cj (amp As (coarse_word i d w)) * opamp Ws w w' * amp As (coarse_word i d w'))).

  (* the environment blocks the sweeps hold at site i: BL from the sites before, BR from the sites after *)
  Definition BLof (Al : list site) (Wl : list osite) : env := lfold Al Al Wl env_one.
  Definition BRof (Ar : list site) (Wr : list osite) : env := rfold Ar Ar Wr env_one.

  (* ---- energy: no canonical form needed ---- *)
  Theorem mixed_canonical_energy_u d (Al Ar : list site) (Wl Wr : list osite) (X : site) (W : osite) DsAl DsWl Dar Dwr DsAr DsWr :
    local_shapeb d Al Ar Al Ar Wl Wr X X W DsAl DsAl DsWl Dar Dar Dwr DsAr DsAr DsWr = true ->
    site_dot X (apply_local_hamiltonian (BLof Al Wl) (BRof Ar Wr) W X) =
    denergy d (length Al + S (length Ar)) (Al ++ X :: Ar) (Wl ++ W :: Wr).
  Proof. intros H. apply (local_hamiltonian_is_projection_u R d Al Ar Al Ar Wl Wr X X W _ _ _ _ _ _ _ _ _ H). Qed.

  Theorem mixed_canonical_energy2_u d (Al Ar : list site) (Wl Wr : list osite) (X : site) (W0 W1 : osite) DsAl DsWl Dar Dwm Dwr DsAr DsWr :
    local2_shapeb d Al Ar Al Ar Wl Wr X X W0 W1 DsAl DsAl DsWl Dar Dar Dwm Dwr DsAr DsAr DsWr = true ->
    site_dot X (apply_local_hamiltonian (BLof Al Wl) (BRof Ar Wr) (c04_merge_osite W0 W1) X) =
    denergy2 d (length Al + S (S (length Ar))) (length Al) (Al ++ X :: Ar) (Wl ++ W0 :: W1 :: Wr).
  Proof. intros H. apply (two_site_is_projection_u R d Al Ar Al Ar Wl Wr X X W0 W1 _ _ _ _ _ _ _ _ _ _ H). Qed.

  Theorem mixed_canonical_bond_energy_u d (Al Ar : list site) (Wl Wr : list osite) (A : site) (W : osite) (C : mx) DsAl DsWl Dar Dwr DsAr DsWr :
    local_shapeb d Al Ar Al Ar Wl Wr A A W DsAl DsAl DsWl Dar Dar Dwr DsAr DsAr DsWr = true ->
    nr C = last DsAl 0%nat -> nc C = last DsAl 0%nat ->
    frob C (apply_local_bond_contraction (BLof Al Wl) (BRof (A :: Ar) (W :: Wr)) C) =
    denergy d (length Al + S (length Ar)) (Al ++ cmul_site C A :: Ar) (Wl ++ W :: Wr).
  Proof. intros H H1 H2. apply (local_bond_is_projection_u R d Al Ar Al Ar Wl Wr A A W C C _ _ _ _ _ _ _ _ _ H); assumption. Qed.

  (* ... and it is what operator_average computes *)
  Theorem mixed_canonical_operator_average d (Al Ar : list site) (Wl Wr : list osite) (X : site) (W : osite)
      DsAl DsWl Dar Dwr DsAr DsWr Dpsi Dop qd qD oqD :
    local_shapeb d Al Ar Al Ar Wl Wr X X W DsAl DsAl DsWl Dar Dar Dwr DsAr DsAr DsWr = true ->
    mps_shapeb d Dpsi (Al ++ X :: Ar) = true -> mpo_shapeb d Dop (Wl ++ W :: Wr) = true ->
    operator_average (mkmps qd qD (Al ++ X :: Ar)) (mkmpo qd oqD (Wl ++ W :: Wr)) =
    Some (site_dot X (apply_local_hamiltonian (BLof Al Wl) (BRof Ar Wr) W X)).
  Proof.
    intros H Hp Ho. pose proof H as H0. unfold local_shapeb in H0. rewrite !andb_true_iff, !Nat.eqb_eq in H0.
    destruct H0 as (((((((((((((_ & _) & L2) & _) & L4) & _) & _) & _) & _) & _) & _) & _) & _) & _).
    rewrite (operator_average_spec_u R _ _ d Dop Dpsi); cbn [m_A o_A]; try assumption.
    - rewrite (mixed_canonical_energy_u d Al Ar Wl Wr X W _ _ _ _ _ _ H). unfold denergy.
      rewrite app_length. cbn [length]. reflexivity.
    - rewrite !app_length. cbn [length]. lia.
  Qed.

  (* ---- a local solver that preserves <x|x> and <x|H_eff x> conserves norm and energy of the state ---- *)
  Theorem local_step_conserves d Ds (Al Ar : list site) (Wl Wr : list osite) (X X' : site) (W : osite) DsAl DsWl Dar Dwr DsAr DsWr :
    local_shapeb d Al Ar Al Ar Wl Wr X X W DsAl DsAl DsWl Dar Dar Dwr DsAr DsAr DsWr = true ->
    local_shapeb d Al Ar Al Ar Wl Wr X' X' W DsAl DsAl DsWl Dar Dar Dwr DsAr DsAr DsWr = true ->
    mps_shapeb d Ds (Al ++ X :: Ar) = true -> mps_shapeb d Ds (Al ++ X' :: Ar) = true ->
    Forall left_iso Al -> Forall right_iso Ar ->
    site_dot X' X' = site_dot X X ->
    site_dot X' (apply_local_hamiltonian (BLof Al Wl) (BRof Ar Wr) W X') = site_dot X (apply_local_hamiltonian (BLof Al Wl) (BRof Ar Wr) W X) ->
    let n := (length Al + S (length Ar))%nat in
    dnorm2 d n (Al ++ X' :: Ar) = dnorm2 d n (Al ++ X :: Ar) /\
    denergy d n (Al ++ X' :: Ar) (Wl ++ W :: Wr) = denergy d n (Al ++ X :: Ar) (Wl ++ W :: Wr).
  Proof.
    intros H H' Hp Hp' HL HR En Ee n. unfold n, dnorm2. split.
    - rewrite (mixed_canonical_norm_u R d Ds Al Ar X') by assumption.
      rewrite (mixed_canonical_norm_u R d Ds Al Ar X) by assumption. exact En.
    - rewrite <- (mixed_canonical_energy_u d Al Ar Wl Wr X' W _ _ _ _ _ _ H').
      rewrite <- (mixed_canonical_energy_u d Al Ar Wl Wr X W _ _ _ _ _ _ H). exact Ee.
  Qed.

  Theorem bond_step_conserves d Ds (Al Ar : list site) (Wl Wr : list osite) (A : site) (W : osite) (C C' : mx) DsAl DsWl Dar Dwr DsAr DsWr :
    local_shapeb d Al Ar Al Ar Wl Wr A A W DsAl DsAl DsWl Dar Dar Dwr DsAr DsAr DsWr = true ->
    mps_shapeb d Ds (Al ++ A :: Ar) = true ->
    nr C = last DsAl 0%nat -> nc C = last DsAl 0%nat -> nr C' = last DsAl 0%nat -> nc C' = last DsAl 0%nat -> sdl A = last DsAl 0%nat ->
    Forall left_iso Al -> Forall right_iso (A :: Ar) ->
    frob C' C' = frob C C ->
    frob C' (apply_local_bond_contraction (BLof Al Wl) (BRof (A :: Ar) (W :: Wr)) C') =
      frob C (apply_local_bond_contraction (BLof Al Wl) (BRof (A :: Ar) (W :: Wr)) C) ->
    let n := (length Al + S (length Ar))%nat in
    dnorm2 d n (Al ++ cmul_site C' A :: Ar) = dnorm2 d n (Al ++ cmul_site C A :: Ar) /\
    denergy d n (Al ++ cmul_site C' A :: Ar) (Wl ++ W :: Wr) = denergy d n (Al ++ cmul_site C A :: Ar) (Wl ++ W :: Wr).
  Proof.
    intros H Hp c1 c2 c3 c4 HA HL HR En Ee n. unfold n, dnorm2. split.
    - rewrite (mixed_canonical_bond_norm_u R d Ds Al Ar A C') by (try assumption; congruence).
      rewrite (mixed_canonical_bond_norm_u R d Ds Al Ar A C) by (try assumption; congruence). exact En.
    - rewrite <- (mixed_canonical_bond_energy_u d Al Ar Wl Wr A W C' _ _ _ _ _ _ H) by assumption.
      rewrite <- (mixed_canonical_bond_energy_u d Al Ar Wl Wr A W C _ _ _ _ _ _ H) by assumption. exact Ee.
  Qed.

  (* ---- provenance of the blocks built by the prologue: BR[i] is the right fold of the sites after i ---- *)
  Lemma rblocks_hd (As : list site) (Ws : list osite) : length As = length Ws -> hd env_one (rblocks As Ws) = rfold As As Ws env_one.
  Proof.
    revert Ws. induction As as [|A As IH]; intros [|W Ws]; cbn [length]; try discriminate; intros Hl; [reflexivity|].
    injection Hl as Hl. cbn [rblocks hd rfold]. rewrite IH by exact Hl. reflexivity.
  Qed.
  Lemma rblocks_nth (As : list site) : forall (Ws : list osite) i, length As = length Ws -> i <= length As ->
    nth i (rblocks As Ws) [] = rfold (skipn i As) (skipn i As) (skipn i Ws) env_one.
  Proof.
    induction As as [|A As IH]; intros Ws i Hl Hi.
    - destruct Ws; [|discriminate]. cbn [length] in Hi. assert (i = 0%nat) by lia. subst. reflexivity.
    - destruct Ws as [|W Ws]; [discriminate|]. cbn [length] in Hl. injection Hl as Hl.
      destruct i as [|i].
      + cbn [skipn rblocks nth rfold]. rewrite rblocks_hd by exact Hl. reflexivity.
      + cbn [skipn rblocks nth]. apply IH; [exact Hl|cbn [length] in Hi; lia].
  Qed.
  Theorem sweep_init_blocks (orth_right : mps R -> mps R * R) H psi st nrm :
    sweep_init orth_right H psi = Some (st, nrm) ->
    s_A st = m_A (fst (orth_right psi)) /\ nrm = snd (orth_right psi) /\ gBL st 0 = env_one /\
    forall i, i < length (s_A st) -> gBR st i = BRof (skipn (S i) (s_A st)) (skipn (S i) (o_A H)).
  Proof.
    unfold sweep_init. destruct (negb _) eqn:El; [discriminate|]. destruct (orth_right psi) as [psi1 n1].
    destruct (compute_right_operator_blocks psi1 H) as [BR|] eqn:EB; [|discriminate]. destruct (forallb _ _); [|discriminate].
    intros E. injection E as <- <-. cbn [s_A fst snd]. repeat split.
    intros i Hi. unfold gBR. cbn [s_BR].
    unfold compute_right_operator_blocks, compute_right_operator_blocks_sites in EB.
    destruct (negb (Nat.eqb (length (m_A psi1)) (length (o_A H)))) eqn:E2; [discriminate|].
    apply negb_false_iff, Nat.eqb_eq in E2.
    destruct (m_A psi1) as [|A As]; [discriminate|]. destruct (o_A H) as [|W Ws]; [discriminate|].
    injection EB as <-. cbn [length] in E2, Hi. injection E2 as E2. cbn [skipn]. unfold BRof.
    apply rblocks_nth; [exact E2|lia].
  Qed.
End Local.

Arguments dnorm2 {R} d n As. Arguments denergy {R} d n As Ws. Arguments denergy2 {R} d n i As Ws.
Arguments BLof {R} Al Wl. Arguments BRof {R} Ar Wr.

(* ---------------- ordered statements (DMRG): scalars Cx F over an arbitrary ordered field F ---------------- *)
Section Ritz.
  Variable F : ofield.
  Add Field Ffield_sweeps_ritz : (f_ft F).
  Notation K := (Cx F).
  Notation site := (site K).
  Notation osite := (osite K).

  (* H >= lam on the dense space: lam <phi|phi> <= <phi|H|phi> for every amplitude function phi on the basis words *)
  Definition bounded_below (d n : nat) (Ws : list osite) (lam : F) : Prop :=
    forall phi : list nat -> K,
      fle F (fmul F lam (cre (suml (words d n) (fun w => kmul K (kconj K (phi w)) (phi w)))))
            (cre (suml (words d n) (fun w => suml (words d n) (fun w' => kmul K (kmul K (kconj K (phi w)) (opamp Ws w w')) (phi w'))))).

  Section Step.
    Variables (d : nat) (Ds : list nat) (Al Ar : list site) (Wl Wr : list osite) (X X' : site) (W : osite).
    Variables (DsAl DsWl : list nat) (Dar Dwr : nat) (DsAr DsWr : list nat).
    Hypothesis HX : local_shapeb d Al Ar Al Ar Wl Wr X X W DsAl DsAl DsWl Dar Dar Dwr DsAr DsAr DsWr = true.
    Hypothesis HX' : local_shapeb d Al Ar Al Ar Wl Wr X' X' W DsAl DsAl DsWl Dar Dar Dwr DsAr DsAr DsWr = true.
    Hypothesis Hp : mps_shapeb d Ds (Al ++ X :: Ar) = true.
    Hypothesis Hp' : mps_shapeb d Ds (Al ++ X' :: Ar) = true.
    Hypothesis HL : Forall left_iso Al.
    Hypothesis HR : Forall right_iso Ar.
    Let n := (length Al + S (length Ar))%nat.
    Let heff (Y : site) : K := site_dot Y (apply_local_hamiltonian (BLof Al Wl) (BRof Ar Wr) W Y).
    (* the local eigensolver returned (theta, X') from the start tensor X *)
    Variable theta : K.
    Hypothesis ritz_value : theta = heff X'.                       (* theta = <X'|H_eff X'> *)
    Hypothesis ritz_normalized : site_dot X' X' = k1 K.            (* |X'| = 1 *)

    Theorem dmrg_local_energy_is_expectation :
      theta = denergy d n (Al ++ X' :: Ar) (Wl ++ W :: Wr) /\ dnorm2 d n (Al ++ X' :: Ar) = k1 K.
    Proof.
      split.
      - rewrite ritz_value. apply (mixed_canonical_energy_u K d Al Ar Wl Wr X' W _ _ _ _ _ _ HX').
      - unfold dnorm2, n. rewrite (mixed_canonical_norm_u K d Ds Al Ar X') by assumption. exact ritz_normalized.
    Qed.

    Theorem dmrg_local_variational lam : bounded_below d n (Wl ++ W :: Wr) lam -> fle F lam (cre theta).
    Proof.
      intros Hb. specialize (Hb (amp (Al ++ X' :: Ar))).
      destruct dmrg_local_energy_is_expectation as [E1 E2]. unfold denergy in E1. unfold dnorm2 in E2.
      rewrite <- E1, E2 in Hb. cbn [cre fst k1 K Cx] in Hb.
      eapply fle_eq; [| reflexivity | exact Hb]. ring.
    Qed.

    (* Ritz contract with respect to the start tensor: theta <X|X> <= <X|H_eff X>; for a normalised state before the
       step the new energy does not exceed the old one *)
    Theorem dmrg_local_monotone :
      fle F (fmul F (cre theta) (cre (site_dot X X))) (cre (heff X)) -> dnorm2 d n (Al ++ X :: Ar) = k1 K ->
      fle F (cre (denergy d n (Al ++ X' :: Ar) (Wl ++ W :: Wr))) (cre (denergy d n (Al ++ X :: Ar) (Wl ++ W :: Wr))).
    Proof.
      intros Hr Hn. destruct dmrg_local_energy_is_expectation as [E1 _]. rewrite <- E1.
      unfold heff in Hr. rewrite (mixed_canonical_energy_u K d Al Ar Wl Wr X W _ _ _ _ _ _ HX) in Hr. fold n in Hr.
      unfold dnorm2, n in Hn. rewrite (mixed_canonical_norm_u K d Ds Al Ar X) in Hn by assumption. rewrite Hn in Hr.
      cbn [cre fst k1 K Cx] in Hr. eapply fle_eq; [| reflexivity | exact Hr]. ring.
    Qed.
  End Step.
End Ritz.

Arguments bounded_below {F} d n Ws lam.

(* ---------------- which energy a sweep reports ---------------- *)
Section Reported.
  Variable R : cring.
  Variable qr : nat -> mx R -> list Z -> list Z -> mx R * mx R * list Z.
  Variable split : nat -> site R -> list Z -> list Z -> list Z -> list Z -> bool -> site R * site R * list Z.
  Variable keig : nat -> env R -> env R -> osite R -> site R -> R * site R.
  Variables (Hs : list (osite R)) (qd : list Z).

  (* single-site, L >= 2: the recorded energy is the Ritz value of the LAST local problem of the sweep (site 1, right-to-left) *)
  Theorem dmrg1_reported_energy k (st : sw R) :
    let L := S (S k) in
    let se := fold_left (dmrg1_rl qr keig Hs qd) (rev (seq 2 k)) (fold_left (dmrg1_lr qr keig Hs qd) (seq 0 (L - 1)) (st, k0 R)) in
    snd (dmrg1_sweep qr keig Hs qd L st) =
    fst (keig (length (s_tr (fst se))) (gBL (fst se) 1) (gBR (fst se) 1) (nth 1 Hs []) (gA (fst se) 1)).
  Proof.
    cbv zeta. unfold dmrg1_sweep, lift. cbn [snd].
    replace (S (S k) - 1) with (S k) by lia. rewrite <- cons_seq. cbn [rev]. rewrite fold_left_app. cbn [fold_left].
    unfold dmrg1_rl at 1. unfold lift, dmrg_opt. cbv zeta.
    destruct (keig _ _ _ _ _) as [en A1]. reflexivity.
  Qed.
  (* two-site, L >= 2: ... of the pair (0, 1) *)
  Theorem dmrg2_reported_energy k (st : sw R) :
    let L := S (S k) in
    let se := fold_left (dmrg2_rl split keig Hs qd) (rev (seq 1 k)) (fold_left (dmrg2_lr split keig Hs qd) (seq 0 (L - 2)) (st, k0 R)) in
    snd (dmrg2_sweep qr split keig Hs qd L st) =
    fst (keig (length (s_tr (fst se))) (gBL (fst se) 0) (gBR (fst se) 1)
              (c04_merge_osite (nth 0 Hs []) (nth 1 Hs [])) (c04_merge_site (gA (fst se) 0) (gA (fst se) 1))).
  Proof.
    cbv zeta. unfold dmrg2_sweep, lift. cbn [snd].
    replace (S (S k) - 1) with (S k) by lia. rewrite <- cons_seq. cbn [rev]. rewrite fold_left_app. cbn [fold_left].
    unfold dmrg2_rl at 1. unfold lift, dmrg2_pair. cbv zeta.
    destruct (keig _ _ _ _ _) as [en Am1]. destruct (split _ _ _ _ _ _ _) as [[A0 A1] qb]. reflexivity.
  Qed.
  (* L = 1: no local problem is solved, the recorded energy is 0 *)
  Theorem dmrg1_reported_energy_L1 (st : sw R) : snd (dmrg1_sweep qr keig Hs qd 1 st) = k0 R.
  Proof. reflexivity. Qed.
End Reported.
