(* C16, part 7: assembly.  merge_edges (both branches), simplify (instantiating Proofs/RewritesSimplify.v),
   add, and finite histories of rewrites. *)
From Coq Require Import ZArith List Lia Bool Permutation.
From PT Require Import Base.Scalar Base.BigSum Model.OpGraph Model.Rewrites
  Proofs.RewritesBase Proofs.RewritesFlip Proofs.RewritesIso Proofs.RewritesRename Proofs.RewritesMergeInv
  Proofs.RewritesMergeSame Proofs.RewritesMergeNode Proofs.RewritesSimplify Proofs.RewritesStepTotal
  Proofs.RewritesAdd.
Import ListNotations.
Open Scope Z_scope.

Section All.
  Variable R : cring.
  Notation graph := (graph R).

  (* ---------------- merge_edges ---------------- *)
  Lemma merge_edges_spec (g g' : graph) a b d : WF R g -> merge_edges g a b d = Some g' ->
    WF R g' /\ (forall w, den g' w = den g w) /\
    S (length (g_edges g')) = length (g_edges g) /\ (length (g_nodes g') <= length (g_nodes g))%nat.
  Proof.
    intros W H.
    destruct (merge_edges_inv R g g' a b d W H) as [Hd [Hab [e1 [e2 [He1 [He2 [Ha [Hb [Hbase Hcase]]]]]]]]].
    destruct Hcase as [[Hup ->] | [Hup [Hop [n1 [n2 [Hn1 [Hn2 [Hid1 [Hid2 [S1 [S2 [Hq ->]]]]]]]]]]]].
    - destruct (merge_same_spec R g a b d e1 e2 W Hd Hab He1 He2 Ha Hb Hbase Hup) as [W' [D [C1 C2]]].
      split; [exact W'|]. split; [exact D|]. split; [exact C1|lia].
    - rewrite <- Ha in S1. assert (Hne : e_id e1 <> b) by congruence.
      destruct (merge_node_spec R g b d e1 e2 n1 n2 W Hd He1 He2 Hb Hne Hbase Hup Hop Hn1 Hn2 Hid1 Hid2 S1 S2)
        as [W' [D [C1 C2]]].
      split; [exact W'|]. split; [exact D|]. split; [exact C1|lia].
  Qed.
  Lemma merge_edges_WF (g g' : graph) a b d : WF R g -> merge_edges g a b d = Some g' -> WF R g'.
  Proof. intros W H. apply (merge_edges_spec g g' a b d W H). Qed.
  Lemma merge_edges_den (g g' : graph) a b d w : WF R g -> merge_edges g a b d = Some g' -> den g' w = den g w.
  Proof. intros W H. apply (merge_edges_spec g g' a b d W H). Qed.
  Lemma merge_edges_cnt (g g' : graph) a b d : WF R g -> merge_edges g a b d = Some g' ->
    S (length (g_edges g')) = length (g_edges g) /\ (length (g_nodes g') <= length (g_nodes g))%nat.
  Proof. intros W H. apply (merge_edges_spec g g' a b d W H). Qed.

  (* ---------------- simplify ---------------- *)
  Definition simplify_step_ok := simplify_step_spec R merge_edges_WF merge_edges_den merge_edges_cnt.
  Definition simplify_ok := simplify_spec R merge_edges_WF merge_edges_den merge_edges_cnt.
  Lemma simplify_WF (g g' : graph) : WF R g -> simplify g = Some g' -> WF R g'.
  Proof. intros W H. apply (simplify_ok g g' W H). Qed.
  Lemma simplify_den (g g' : graph) w : WF R g -> simplify g = Some g' -> den g' w = den g w.
  Proof. intros W H. apply (simplify_ok g g' W H). Qed.
  Lemma simplify_nodes_edges_le (g g' : graph) : WF R g -> simplify g = Some g' ->
    (length (g_edges g') <= length (g_edges g))%nat /\ (length (g_nodes g') <= length (g_nodes g))%nat.
  Proof. intros W H. apply (simplify_ok g g' W H). Qed.
  Lemma simplify_terminates (g : graph) : WF R g -> exists g', simplify g = Some g'.
  Proof.
    intros W.
    pose proof (simplify_total R merge_edges_WF merge_edges_den merge_edges_cnt
                  (fun g d Hd Wg => simplify_step_total R g d Hd Wg) g W) as H.
    destruct (simplify g) as [g'|]; [exists g'; reflexivity|contradiction].
  Qed.

  (* ---------------- add ---------------- *)
  Definition AddOK (g h : graph) : Prop :=
    WF R h /\ g_t0 g <> g_t1 g /\ g_t0 h <> g_t1 h /\ SameLength R g h.
  Lemma add_ok (g h g' : graph) sn se : WF R g -> AddOK g h ->
    is_enum_inter sn (nids R g) (nids R h) = true -> is_enum_inter se (eids R g) (eids R h) = true ->
    add g h sn se = Some g' -> WF R g' /\ (forall w, den g' w = kadd R (den g w) (den h w)).
  Proof.
    intros W [Wh [Hg [Hh SL]]] Hn He H.
    apply (add_spec R (fun g g' Wg Hs => conj (simplify_WF g g' Wg Hs) (fun w => simplify_den g g' w Wg Hs))
                    g h g' sn se W Wh Hg Hh SL Hn He H).
  Qed.

  Lemma AddOK_self (g : graph) : WF R g -> g_t0 g <> g_t1 g -> AddOK g g.
  Proof.
    intros W Hne. split; [exact W|]. split; [exact Hne|]. split; [exact Hne|].
    destruct (wf_layered R g W) as [lv Hlv]. exists lv, lv. repeat split; auto.
  Qed.

  (* ---------------- finite histories ---------------- *)
  (* effect of one rewrite on the denotation (a function from words to coefficients) *)
  Definition rw_sem (r : rw R) (D : list Z -> R) : list Z -> R :=
    match r with
    | RFlip => fun w => D (rev w)
    | RAdd h _ _ => fun w => kadd R (D w) (den h w)
    | _ => D
    end.
  (* side condition of a rewrite on the current graph: only add has one *)
  Definition rw_pre (g : graph) (r : rw R) : Prop :=
    match r with RAdd h _ _ => AddOK g h | _ => True end.
  Fixpoint run_rws (g : graph) (rs : list (rw R)) : option graph :=
    match rs with
    | [] => Some g
    | r :: t => match apply_rw g r with Some g' => run_rws g' t | None => None end
    end.
  Fixpoint hist_pre (g : graph) (rs : list (rw R)) : Prop :=
    match rs with
    | [] => True
    | r :: t => rw_pre g r /\ forall g', apply_rw g r = Some g' -> hist_pre g' t
    end.
  Definition hist_sem (rs : list (rw R)) (D : list Z -> R) : list Z -> R :=
    fold_left (fun D r => rw_sem r D) rs D.

  Lemma apply_rw_spec (g g' : graph) r : WF R g -> rw_pre g r -> apply_rw g r = Some g' ->
    WF R g' /\ (forall w, den g' w = rw_sem r (den g) w).
  Proof.
    intros W Hpre H. destruct r as [|dir|a b dir|a b|a b| |h sn se]; simpl in H |- *.
    - split; [eapply simplify_WF; eauto|]. intros w. eapply simplify_den; eauto.
    - destruct (simplify_step g dir) as [[c g1]|] eqn:E; [|discriminate]. inversion H; subst g1.
      destruct (simplify_step_ok g g' dir c W E) as [W' [D _]]. split; assumption.
    - split; [eapply merge_edges_WF; eauto|]. intros w. eapply merge_edges_den; eauto.
    - split; [eapply rename_node_WF; eauto|]. intros w. eapply rename_node_den; eauto.
    - split; [eapply rename_edge_WF; eauto|]. intros w. eapply rename_edge_den; eauto.
    - inversion H; subst g'. split; [apply flip_WF; exact W|]. intros w. apply flip_den. exact W.
    - destruct (is_enum_inter sn (map n_id (g_nodes g)) (map n_id (g_nodes h))) eqn:E1; [|discriminate].
      destruct (is_enum_inter se (map (@e_id R) (g_edges g)) (map (@e_id R) (g_edges h))) eqn:E2; [|discriminate].
      simpl in H. apply (add_ok g h g' sn se W Hpre E1 E2 H).
  Qed.

  Lemma rewrite_history rs : forall (g g' : graph), WF R g -> hist_pre g rs -> run_rws g rs = Some g' ->
    WF R g' /\ (forall w, den g' w = hist_sem rs (den g) w).
  Proof.
    induction rs as [|r rs IH]; intros g g' W Hpre H; simpl in H.
    - inversion H; subst g'. split; [exact W|]. intros w. reflexivity.
    - destruct (apply_rw g r) as [g1|] eqn:E; [|discriminate]. destruct Hpre as [Hp Hrest].
      destruct (apply_rw_spec g g1 r W Hp E) as [W1 D1].
      destruct (IH g1 g' W1 (Hrest g1 E) H) as [W' D']. split; [exact W'|].
      intros w. rewrite D'. unfold hist_sem. simpl.
      assert (Hext : forall (l : list (rw R)) (D1 D2 : list Z -> R), (forall u, D1 u = D2 u) ->
                forall u, fold_left (fun D r => rw_sem r D) l D1 u = fold_left (fun D r => rw_sem r D) l D2 u).
      { induction l as [|r0 l IHl]; intros A B HAB u; simpl; [apply HAB|].
        apply IHl. intros v. destruct r0; simpl; try apply HAB. rewrite HAB. reflexivity. }
      apply Hext. exact D1.
  Qed.
End All.
