(* Non-vacuity instance for kexp_from_krylov / keig_from_krylov (Proofs/LinkSolvers.v). *)
From Coq Require Import ZArith QArith Qcanon List Bool Arith Lia.
From PT Require Import Base.Scalar Base.Field Base.BigSum Model.Krylov Proofs.KrylovVec Proofs.KrylovLanczos
  Proofs.KrylovMatvec Proofs.KrylovExpm Proofs.KrylovRitz Proofs.KrylovExamples Proofs.KrylovExamples15 Proofs.LinkExpmEnergy.
Import ListNotations.
Open Scope nat_scope.

(* ---------------------------------------------------------------------------------------------------------------
   A local problem on which every hypothesis of kexp_from_krylov / keig_from_krylov holds (non-vacuity): one site, d = 2, bond
   dimensions 1, H = diag(1, -1) as a one-site MPO, blocks [[[1]]], start tensor A = (3, 4), numiter = 2.  The Lanczos run
   issues the norms 5 and 24/25, returns T = [[-7/25, 24/25], [24/25, 7/25]]; eigh_tridiagonal answers w = (-1, 1) with the
   rational rotation U = [[4/5, 3/5], [-3/5, 4/5]]; the "phase" oracle is the constant 3/5 + 4/5 i. *)
From PT Require Import Base.Mx Model.Tensor Model.Operation Model.Sweeps
  Proofs.OperationEntries Proofs.OperationChains Proofs.OperationTransfer Proofs.OperationLocal Proofs.SweepsInv Proofs.SweepsRun
  Proofs.LinkFlatten Proofs.LinkLocalOps Proofs.LinkSolvers.

Definition lk_m (x : BinNums.Z) : mx CQ := @mkmx CQ 1 1 [[(qq x 1, qq 0 1)]].
Definition lk_W : osite CQ := [[lk_m 1; lk_m 0]; [lk_m 0; lk_m (-1)]].
Definition lk_A : site CQ := [lk_m 3; lk_m 4].
Definition lk_E : env CQ := env_one.
Definition lk_deigh (al be : list Qc) : list Qc * list (list Qc) :=
  ([qq (-1) 1; qq 1 1], [[qq 4 5; qq 3 5]; [qq (-3) 5; qq 4 5]]).
Definition lk_t : C QcF := (qq 0 1, qq 1 2).

Lemma lk_W_ok : osite_ok 2 1 1 lk_W.
Proof. split; [reflexivity|]. intros s t Hs Ht. destruct s as [|[|s]]; destruct t as [|[|t]]; try lia; split; reflexivity. Qed.
Lemma lk_A_ok : site_ok 2 1 1 lk_A.
Proof. split; [reflexivity|]. intros s Hs. destruct s as [|[|s]]; try lia; split; reflexivity. Qed.
Lemma lk_E_ok : env_ok 1 1 1 lk_E.
Proof. unfold lk_E. rewrite env_one_id. apply env_id_ok. Qed.

Lemma lk_herm : forall w w', In w (gwords ([] ++ 2 :: [])) -> In w' (gwords ([] ++ 2 :: [])) ->
  opamp ([] ++ lk_W :: []) w w' = kconj CQ (opamp ([] ++ lk_W :: []) w' w).
Proof.
  intros w w' Hw Hw'. cbn in Hw, Hw'.
  destruct Hw as [<-|[<-|[]]]; destruct Hw' as [<-|[<-|[]]]; apply keqb_spec; vm_compute; reflexivity.
Qed.

Lemma lk_sa : local_sa QcF 2 1 1 (apply_local_hamiltonian lk_E lk_E lk_W).
Proof.
  intros X Y HX HY.
  apply (heff_hermitian CQ [] [] [] [] X Y lk_W [] [] 2 1 1 1 1 [1] [1] [] []); try assumption; try reflexivity; try exact I; try lia.
  - exact lk_W_ok.
  - exact lk_herm.
Qed.

Lemma lk_nonzero : site_dot lk_A lk_A <> k0 CQ.
Proof. apply (proj1 (keqb_false CQ _ _)). vm_compute. reflexivity. Qed.

Lemma lk_kexp_calls : kexp_lanczos_calls_ok QcF dnorm_ex ex_small lk_deigh dexp_ex 2 lk_E lk_E lk_W lk_A lk_t.
Proof.
  split.
  - apply norm_okb_all. vm_compute. reflexivity.
  - intros al be Vs wn E. vm_compute in E. injection E as <- <- <- <-. split; [|split].
    + apply eigh_okb_ok. vm_compute. reflexivity.
    + apply eigh_sorted_row0, eigh_sortedb_ok. vm_compute. reflexivity.
    + intros l _. apply (feqb_spec QcF). vm_compute. reflexivity.
Qed.

Lemma lk_keig_calls : keig_lanczos_calls_ok QcF dnorm_ex ex_small lk_deigh 2 lk_E lk_E lk_W lk_A.
Proof.
  split; [|split].
  - apply norm_okb_all. vm_compute. reflexivity.
  - intros al be Vs wn E. vm_compute in E. injection E as <- <- <- <-. apply eigh_okb_ok. vm_compute. reflexivity.
  - intros al be Vs wn E. vm_compute in E. injection E as <- <- <- <-. apply eigh_sortedb_ok. vm_compute. reflexivity.
Qed.

Lemma lk_kexp_ok : kexp_ok 2 lk_E lk_E lk_W lk_A (kexp_lanczos QcF dnorm_ex ex_small lk_deigh dexp_ex (fun M => M) 2 0 lk_E lk_E lk_W lk_A lk_t).
Proof.
  apply (kexp_from_krylov QcF dnorm_ex ex_small lk_deigh dexp_ex (fun M => M) 2 ex_small_sound (le_S _ _ (le_n 1)) 2 1 1 1 1);
    try lia; [exact lk_W_ok|exact lk_E_ok|exact lk_E_ok|exact lk_A_ok|exact lk_sa|exact lk_nonzero|exact lk_kexp_calls].
Qed.

Lemma lk_keig_ok : keig_ok 2 lk_E lk_E lk_W lk_A (keig_lanczos QcF dnorm_ex ex_small lk_deigh 2 0 lk_E lk_E lk_W lk_A).
Proof.
  apply (keig_from_krylov QcF dnorm_ex ex_small lk_deigh 2 ex_small_sound (le_S _ _ (le_n 1)) 2 1 1 1 1);
    try lia; [exact lk_W_ok|exact lk_E_ok|exact lk_E_ok|exact lk_A_ok|exact lk_sa|exact lk_nonzero|exact lk_keig_calls].
Qed.
