(* C13 — boolean checkers for the hypotheses of [compress_first_bond_left] / [_right] on instances whose truncated bonds
   have dimension > 1 (Proofs/CompressBool.v only accepts the argsort answer [0]). *)
From Coq Require Import ZArith List Bool Lia Arith Permutation.
From PT Require Import Base.Scalar Base.Field Base.BigSum Base.Mx Model.Tensor Model.BondOps Model.Orthonormalize.
From PT Require Import Proofs.BondOpsRetained Proofs.BondOpsSVD Proofs.CompressLocal Proofs.CompressSweep Proofs.CompressTop.
Import ListNotations.
Open Scope nat_scope.

Section CBool2.
  Variable F : ofield.
  Notation CF := (Cx F).
  Variable dqr : mx CF -> mx CF * mx CF.
  Variable dsvd : mx CF -> mx CF * list F * mx CF.
  Variable pick : list F -> list nat.

  (* p is a permutation of 0..n-1 that sorts sn ascending *)
  Definition pick_okb_c13 (sn : list F) (p : list nat) : bool :=
    let n := length sn in
    Nat.eqb (length p) n && forallb (fun i => existsb (Nat.eqb i) p) (seq 0 n) &&
    forallb (fun a => forallb (fun b => Nat.ltb b a || fleb F (nth (nth a p 0) sn (f0 F)) (nth (nth b p 0) sn (f0 F)))
                              (seq 0 n)) (seq 0 n).

  Lemma pick_okb_c13_sound sn p : pick_okb_c13 sn p = true -> pick_ok F sn p.
  Proof.
    unfold pick_okb_c13. rewrite !andb_true_iff, Nat.eqb_eq. intros [[Hl Hs] Ho]. split.
    - apply Permutation_sym. apply NoDup_Permutation_bis.
      + apply seq_NoDup.
      + rewrite seq_length. lia.
      + intros i Hi. rewrite forallb_forall in Hs. specialize (Hs i Hi). apply existsb_exists in Hs.
        destruct Hs as (y & Hy & Ey). apply Nat.eqb_eq in Ey. subst y. exact Hy.
    - intros a b Hab Hb. rewrite forallb_forall in Ho. specialize (Ho a ltac:(apply in_seq; lia)).
      rewrite forallb_forall in Ho. specialize (Ho b ltac:(apply in_seq; lia)).
      apply orb_true_iff in Ho. destruct Ho as [Ho|Ho]; [apply Nat.ltb_lt in Ho; lia|exact Ho].
  Qed.

  Definition cstep_okb2 (left : bool) (qd : list Z) (a : site CF * list Z * list Z) : bool :=
    let M := fst (fst (step_mx left qd a)) in let q0 := snd (fst (step_mx left qd a)) in let q1 := snd (step_mx left qd a) in
    forallb (fun B => dsvd_okb F B (dsvd B)) (block_svd_calls M q0 q1) &&
    pick_okb_c13 (normsq (block_svd_spectrum F dsvd M q0 q1)) (pick (normsq (block_svd_spectrum F dsvd M q0 q1))).

  Lemma compress_hyp_of_bool2 tol left (p : mps CF) :
    match mps_orthonormalize dqr (negb left) p with
    | Some (p1, _) => forallb (cstep_okb2 left (m_qd p1)) (compress_args dsvd pick tol left p1)
    | None => false end = true ->
    forall p1 n1, mps_orthonormalize dqr (negb left) p = Some (p1, n1) -> compress_ok dsvd pick tol left p1.
  Proof.
    intros H p1 n1 E. rewrite E in H. unfold compress_ok. apply Forall_forall. intros a Ha.
    rewrite forallb_forall in H. specialize (H a Ha). unfold cstep_okb2 in H. apply andb_true_iff in H. destruct H as [H1 H2].
    split; [apply (dsvd_ok_forallb F); exact H1|apply pick_okb_c13_sound; exact H2].
  Qed.
End CBool2.
Arguments pick_okb_c13 {F} sn p.
Arguments cstep_okb2 {F} dsvd pick left qd a.
