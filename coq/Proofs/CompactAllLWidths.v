(* C20, all lattice sizes, part 3 (generic): with certified covers (valid cover + matching of equal size: what C18 proves of
   minimum_vertex_cover) the bond dimension of the MPO at cut k + 1 IS the size of the vertex cover chosen at site k:
     bond_dims g = Some (1 :: cover_sizes cover L s0)
   for every chain list, every L >= 1, every graph g returned by from_opchains.  Node ids are created in consecutive blocks
   (one per site), every edge goes from one block to the next, and every new node has an incoming edge (a V-cover vertex
   of a minimum cover has a neighbour outside the U-cover), so the layers of MPO.from_opgraph are exactly the blocks. *)
From Coq Require Import ZArith List Lia Bool.
From PT Require Import Base.Scalar Base.BigSum Base.Mx Model.OpGraph Model.Bipartite Model.FromOpchains Model.GraphMPO
                       Model.Rewrites Model.Hamiltonians Model.Compact Model.CompactAllL
                       Proofs.FromOpchainsGraph Proofs.FromOpchainsPart Proofs.FromOpchainsSem Proofs.FromOpchainsWF3 Proofs.DenRev_C05
                       Proofs.CompactCount Proofs.CompactLayers Proofs.CompactSweep Proofs.CompactCert
                       Proofs.CompactAllLPart Proofs.CompactAllLBlocks.
Import ListNotations.
Open Scope Z_scope.

(* ---- blocks given by a list of widths ---- *)
Definition off (ws : list nat) (j : nat) : Z := Z.of_nat (list_sum (firstn j ws)).
Definition blkw (ws : list nat) (j : nat) (x : Z) : Prop := off ws j <= x < off ws (S j).

Lemma list_sum_cons a l : list_sum (a :: l) = (a + list_sum l)%nat. Proof. reflexivity. Qed.
Lemma list_sum_one a : list_sum [a] = a. Proof. simpl. lia. Qed.
Lemma off_0 ws : off ws 0 = 0. Proof. reflexivity. Qed.
Lemma off_cons w ws j : off (w :: ws) (S j) = Z.of_nat w + off ws j.
Proof. unfold off. cbn [firstn]. change (list_sum (w :: firstn j ws)) with (w + list_sum (firstn j ws))%nat. lia. Qed.
Lemma off_S : forall ws j, (j < length ws)%nat -> off ws (S j) = off ws j + Z.of_nat (nth j ws 0%nat).
Proof.
  induction ws as [|w ws IH]; intros j Hj; [simpl in Hj; lia|]. destruct j as [|j].
  - rewrite off_cons, !off_0. cbn [nth]. lia.
  - rewrite !off_cons, IH by (simpl in Hj; lia). cbn [nth]. lia.
Qed.
Lemma off_app ws l j : (j <= length ws)%nat -> off (ws ++ l) j = off ws j.
Proof.
  intros Hj. unfold off. rewrite firstn_app. replace (j - length ws)%nat with 0%nat by lia. cbn [firstn]. rewrite app_nil_r. reflexivity.
Qed.
Lemma off_all ws : off ws (length ws) = Z.of_nat (list_sum ws).
Proof. unfold off. rewrite firstn_all. reflexivity. Qed.
Lemma off_snoc ws w : off (ws ++ [w]) (S (length ws)) = Z.of_nat (list_sum ws) + Z.of_nat w.
Proof.
  replace (S (length ws)) with (length (ws ++ [w])) by (rewrite app_length; simpl; lia).
  rewrite off_all, list_sum_app, list_sum_one. lia.
Qed.

(* level of an id: index of its block *)
Fixpoint lvn (ws : list nat) (lo x : Z) : nat :=
  match ws with [] => 0%nat | w :: r => if x <? lo + Z.of_nat w then 0%nat else S (lvn r (lo + Z.of_nat w) x) end.
Lemma lvn_blk : forall ws lo j x, (j < length ws)%nat -> lo + off ws j <= x < lo + off ws (S j) -> lvn ws lo x = j.
Proof.
  induction ws as [|w ws IH]; intros lo j x Hj Hx; [simpl in Hj; lia|]. cbn [lvn]. destruct j as [|j].
  - rewrite off_cons, !off_0 in Hx. destruct (Z.ltb_spec x (lo + Z.of_nat w)); [reflexivity|lia].
  - rewrite !off_cons in Hx. assert (0 <= off ws j) by (unfold off; lia).
    destruct (Z.ltb_spec x (lo + Z.of_nat w)); [lia|]. f_equal. apply IH; [simpl in Hj; lia|lia].
Qed.
Lemma lvn_spec : forall ws lo x, lo <= x < lo + Z.of_nat (list_sum ws) ->
  (lvn ws lo x < length ws)%nat /\ lo + off ws (lvn ws lo x) <= x < lo + off ws (S (lvn ws lo x)).
Proof.
  induction ws as [|w ws IH]; intros lo x Hx; [simpl in Hx; lia|]. cbn [lvn].
  destruct (Z.ltb_spec x (lo + Z.of_nat w)).
  - rewrite off_cons, !off_0. cbn [length]. split; lia.
  - rewrite list_sum_cons in Hx. destruct (IH (lo + Z.of_nat w) x ltac:(lia)) as [A B]. rewrite !off_cons. cbn [length]. split; lia.
Qed.

Lemma list_sum_ge_length l : Forall (fun w => (1 <= w)%nat) l -> (length l <= list_sum l)%nat.
Proof. induction 1; simpl; lia. Qed.
Lemma filter_map_comm {A B} (f : A -> B) (q : B -> bool) (l : list A) : filter q (map f l) = map f (filter (fun a => q (f a)) l).
Proof. induction l as [|a l IH]; simpl; [reflexivity|]. destruct (q (f a)); simpl; rewrite IH; reflexivity. Qed.
Lemma filter_all {A} (q : A -> bool) l : (forall x, In x l -> q x = true) -> filter q l = l.
Proof.
  induction l as [|a l IH]; simpl; intros H; [reflexivity|]. rewrite (H a (or_introl eq_refl)). f_equal. apply IH.
  intros x Hx. apply H. right. exact Hx.
Qed.
Lemma map_nth_seq (ws : list nat) : map (fun k => nth k ws 0%nat) (seq 0 (length ws)) = ws.
Proof.
  apply (nth_ext _ _ 0%nat 0%nat); [rewrite map_length, seq_length; reflexivity|].
  intros n Hn. rewrite map_length, seq_length in Hn.
  rewrite (nth_indep _ 0%nat (nth 0 ws 0%nat)) by (rewrite map_length, seq_length; exact Hn).
  rewrite (map_nth (fun k => nth k ws 0%nat)), seq_nth by exact Hn. reflexivity.
Qed.

Section Widths.
  Variable R : cring.
  Notation graph := (graph R).
  Notation st := (st R).
  Notation chain := (chain R).
  Notation gids := (gids R).

  (* [sz] = cover sizes of the sites processed so far *)
  Record Inv3 (sz : list nat) (s : st) : Prop := mkInv3 {
    i3_nid : s_nid s = 1 + Z.of_nat (list_sum sz);
    i3_t0 : g_t0 (s_g s) = 0;
    i3_ids : gids (s_g s) = 0 :: -1 :: zrange 1 (list_sum sz);
    i3_edges : forall e, In e (g_edges (s_g s)) ->
                 exists j, (j < length sz)%nat /\ blkw (1%nat :: sz) j (e_from e) /\ blkw (1%nat :: sz) (S j) (e_to e);
    i3_in : forall x, 1 <= x < s_nid s -> exists e, In e (g_edges (s_g s)) /\ e_to e = x;
    i3_next : forall hc, In hc (s_next s) -> blkw (1%nat :: sz) (length sz) (h_nidl (fst hc));
    i3_pos : forall j, (S j < length sz)%nat -> (1 <= nth j sz 0)%nat }.

  Lemma blkw_app ws l j x : (S j <= length ws)%nat -> blkw ws j x -> blkw (ws ++ l) j x.
  Proof. unfold blkw. intros Hj H. rewrite !off_app by lia. exact H. Qed.

  Lemma site_Inv3 cover sz s s' : Inv3 sz s ->
    (let '(nu, nv, es) := site_call s in certified nu nv es (cover nu nv es)) ->
    site cover s = Ok s' ->
    let '(nu, nv, es) := site_call s in
    Inv3 (sz ++ [(length (fst (cover nu nv es)) + length (snd (cover nu nv es)))%nat]) s'.
  Proof.
    intros I Hc H. unfold site in H. unfold site_call in *. set (p := site_partition (s_next s)) in *.
    destruct (Nat.eqb (length (p_u p)) 0 || Nat.eqb (length (p_v p)) 0) eqn:Ene; [discriminate|].
    apply orb_false_iff in Ene. destruct Ene as [Ene _]. apply Nat.eqb_neq in Ene.
    set (cv := cover (length (p_u p)) (length (p_v p)) (p_edges p)) in *.
    destruct Hc as [m Hm]. unfold certifiedb, valid_coverb, matchingb in Hm.
    repeat match goal with H : _ && _ = true |- _ => apply andb_true_iff in H; destruct H end.
    match goal with H : Nat.eqb (length m) _ = true |- _ => apply Nat.eqb_eq in H; rename H into Hlen end.
    match goal with H : nodupn (map snd m) = true |- _ => apply nodupn_NoDup' in H; rename H into Hmv end.
    match goal with H : nodupn (map fst m) = true |- _ => apply nodupn_NoDup' in H; rename H into Hmu end.
    match goal with H : forallb (fun e => pmem e (p_edges p)) m = true |- _ => rename H into Hmes end.
    match goal with H : forallb (fun e => _ || _) (p_edges p) = true |- _ => rename H into Hcov end.
    match goal with H : nodupn (snd cv) = true |- _ => apply nodupn_NoDup' in H; rename H into Hvc end.
    match goal with H : nodupn (fst cv) = true |- _ => apply nodupn_NoDup' in H; rename H into Huc end.
    assert (Hcov' : forall e, In e (p_edges p) -> In (fst e) (fst cv) \/ In (snd e) (snd cv)).
    { intros e He. rewrite forallb_forall in Hcov. specialize (Hcov e He). apply orb_true_iff in Hcov.
      destruct Hcov as [Hx|Hx]; [left|right]; apply nmem_In'; exact Hx. }
    assert (Hmes' : incl m (p_edges p)).
    { intros e He. rewrite forallb_forall in Hmes. apply pmem_In. apply Hmes. exact He. }
    destruct (site_partition_regroup R (s_next s)) as [_ [_ [HPU _]]]. fold p in HPU.
    pose proof (site_partition_PSpec R (s_next s)) as PS. fold p in PS.
    destruct (site_step_X R p cv s s' Hvc H) as [A1 [_ [A3 [A4 [A5 A6]]]]]. cbn zeta in A1, A5, A6.
    apply site_step_facts in H. cbn zeta in H. destruct H as [G _].
    destruct G as [_ [G2 [[new [G3 G4]] [add [G5 G6]]]]]. cbn [s_g s_nid s_next] in G2, G3, G4, G5, G6.
    destruct I as [Inid It0 Iids Iedges Iin Inext Ipos].
    set (k := length sz) in *. set (w := (length (fst cv) + length (snd cv))%nat).
    assert (Hlen1 : length (1%nat :: sz) = S k) by reflexivity.
    assert (Eoff1 : off ((1%nat :: sz) ++ [w]) (S k) = s_nid s).
    { rewrite off_app by (rewrite Hlen1; lia). rewrite <- Hlen1, off_all, list_sum_cons. lia. }
    assert (Eoff2 : off ((1%nat :: sz) ++ [w]) (S (S k)) = s_nid s').
    { rewrite <- Hlen1, off_snoc, list_sum_cons. unfold w. lia. }
    assert (HPUb : forall u, In u (p_u p) -> blkw (1%nat :: sz) k (u_nidl u)).
    { specialize (HPU (fun u => blkw (1%nat :: sz) k (u_nidl u))). rewrite Forall_forall in HPU. apply HPU.
      intros hc Hhc. cbn [split_u u_nidl]. apply Inext. exact Hhc. }
    change (1%nat :: sz ++ [w]) with ((1%nat :: sz) ++ [w]).
    { constructor.
      + rewrite list_sum_app, list_sum_one. unfold w. lia.
      + rewrite G2. exact It0.
      + rewrite A3, Iids. fold w. cbn [app]. do 2 f_equal. rewrite list_sum_app, list_sum_one, (zrange_app (list_sum sz) w 1).
        f_equal. f_equal. lia.
      + intros e He. rewrite G3 in He. apply in_app_or in He. destruct He as [He|He].
        * destruct (Iedges e He) as [j [Hj [B1 B2]]]. exists j. split; [rewrite app_length; simpl; lia|].
          change (1%nat :: sz ++ [w]) with ((1%nat :: sz) ++ [w]).
          split; apply blkw_app; try assumption; rewrite Hlen1; lia.
        * rewrite Forall_forall in G4. destruct (G4 e He) as [[u [Hu Eu]] P2]. exists k. split; [rewrite app_length; simpl; lia|].
          change (1%nat :: sz ++ [w]) with ((1%nat :: sz) ++ [w]). split.
          -- apply blkw_app; [rewrite Hlen1; lia|]. rewrite Eu. apply HPUb. exact Hu.
          -- unfold blkw. rewrite Eoff1, Eoff2. exact P2.
      + intros x Hx. destruct (Z_lt_ge_dec x (s_nid s)) as [Hlt|Hge].
        * destruct (Iin x ltac:(lia)) as [e [He Et]]. exists e. split; [apply A4; exact He|exact Et].
        * destruct (Z_lt_ge_dec x (s_nid s + Z.of_nat (length (fst cv)))) as [Hu|Hv]; [apply A5; lia|].
          set (b := Z.to_nat (x - s_nid s - Z.of_nat (length (fst cv)))).
          assert (Hb : (b < length (snd cv))%nat) by (unfold b; lia).
          destruct (nth_error (snd cv) b) as [j|] eqn:Ej; [|apply nth_error_None in Ej; lia].
          destruct (v_partner (p_edges p) (fst cv) (snd cv) m Hcov' Hmes' Hmu Hmv Hlen j (nth_error_In _ _ Ej)) as [i [Him Hi]].
          destruct (A6 b j i Ej (Hmes' _ Him) Hi) as [e [He Et]]. exists e. split; [exact He|]. rewrite Et. unfold b. lia.
      + intros hc Hhc. rewrite G5 in Hhc. cbn [app] in Hhc. rewrite Forall_forall in G6. specialize (G6 hc Hhc).
        assert (El : length (sz ++ [w]) = S k) by (rewrite app_length; simpl; unfold k; lia). rewrite El.
        change (1%nat :: sz ++ [w]) with ((1%nat :: sz) ++ [w]). unfold blkw. rewrite Eoff1, Eoff2. exact G6.
      + intros j Hj. rewrite app_length in Hj. cbn [length] in Hj. rewrite app_nth1 by lia.
        destruct (Nat.eq_dec (S j) k) as [Ejk|Hne]; [|apply Ipos; lia].
        (* the last finished block is inhabited: the site loop ran on a non-empty list of half-chains *)
        assert (Hex : exists u0, In u0 (p_u p)).
        { clear - Ene. destruct (p_u p) as [|u0 ul]; [simpl in Ene; lia|exists u0; left; reflexivity]. }
        destruct Hex as [u0 Hu0]. specialize (HPUb u0 Hu0). unfold blkw in HPUb. rewrite (off_S (1%nat :: sz) k) in HPUb by (rewrite Hlen1; lia).
        rewrite <- Ejk in HPUb. cbn [nth] in HPUb. lia. }
  Qed.

  Lemma sweep_Inv3 cover : forall n sz s s', Inv3 sz s -> calls_certified cover n s -> sweep cover n s = Ok s' ->
    Inv3 (sz ++ cover_sizes cover n s) s' /\ length (cover_sizes cover n s) = n.
  Proof.
    induction n as [|n IH]; intros sz s s' I Hc H; cbn [sweep cover_sizes] in *.
    - inversion H; subst. rewrite app_nil_r. split; [exact I|reflexivity].
    - cbn [calls_certified] in Hc. destruct Hc as [Hc1 Hc2].
      destruct (site cover s) as [s1|] eqn:E; [|discriminate]. cbn [bind] in H.
      pose proof (site_Inv3 cover sz s s1 I Hc1 E) as I1. destruct (site_call s) as [[nu nv] es].
      destruct (IH _ s1 s' I1 Hc2 H) as [I2 L2]. rewrite <- app_assoc in I2. cbn [app] in I2. split; [exact I2|cbn [length]; lia].
  Qed.

  Lemma finish_X (s : st) g : finish s = Ok g ->
    g_t0 g = g_t0 (s_g s) /\ gids g = filter (fun x => negb (x =? -1)) (gids (s_g s)) /\
    map (fun e => (e_from e, e_to e)) (g_edges g) = map (fun e => (e_from e, e_to e)) (g_edges (s_g s)) /\
    exists hc, s_next s = [hc].
  Proof.
    unfold finish. destruct (s_next s) as [|[h c] [|? ?]]; try discriminate.
    assert (Hg : forall g0 : graph, gids (remove_node (mkgraph (g_nodes g0) (g_edges g0) (g_t0 g0) (h_nidl h)) (-1)) =
                                    filter (fun x => negb (x =? -1)) (gids g0)).
    { intros g0. unfold CompactAllLPart.gids, remove_node. cbn [g_nodes]. rewrite filter_map_comm. reflexivity. }
    destruct (keqb R c (k1 R)); cbn [bind].
    - intros H. inversion H; subst. split; [reflexivity|]. split; [apply Hg|]. split; [reflexivity|eauto].
    - unfold absorb. destruct (find_node (s_g s) (h_nidl h)) as [n|]; [|discriminate].
      destruct (n_in n) as [|eid [|? ?]]; try discriminate.
      destruct (find_edge (s_g s) eid); [|discriminate]. cbn [bind]. intros H. inversion H; subst.
      split; [reflexivity|]. split; [apply (Hg (upd_edge (s_g s) eid _))|]. split; [|eauto].
      cbn [remove_node g_edges upd_edge]. rewrite map_map. apply map_ext. intros e. destruct (e_id e =? eid); reflexivity.
  Qed.

  (* the main statement: bond dimensions = 1 :: cover sizes *)
  Theorem opchains_bond_dims_sizes cover (chains : list chain) L idn g : (1 <= L)%nat ->
    (forall s0, start_state chains L idn = Some s0 -> calls_certified cover L s0) ->
    from_opchains cover chains L idn = Ok g ->
    exists s0, start_state chains L idn = Some s0 /\ bond_dims g = Some (1%nat :: cover_sizes cover L s0).
  Proof.
    intros HL Hc H. pose proof (proj1 (from_opchains_den_full R cover chains L idn g HL H)) as Hlk.
    unfold from_opchains in H.
    destruct (negb (forallb (@chain_ok R) chains)); [discriminate|].
    destruct chains as [|c0 ct] eqn:Ech; [discriminate|]. rewrite <- Ech in *. clear Ech c0 ct.
    unfold start_state in *.
    destruct (pad_all L idn (filter (@nonzero R) chains)) as [cs|] eqn:Ep; [|discriminate]. cbn [bind] in H.
    set (s0 := mkst init_graph 1 0 (init_next idn cs) []) in *. exists s0. split; [reflexivity|].
    specialize (Hc _ eq_refl).
    destruct (sweep cover L s0) as [s|] eqn:Es; [|discriminate]. cbn [bind] in H.
    assert (I0 : Inv3 [] s0).
    { constructor; cbn; try reflexivity.
      - intros e [].
      - intros x Hx. lia.
      - intros hc Hhc. unfold init_next in Hhc. apply in_map_iff in Hhc. destruct Hhc as [c [<- _]]. unfold blkw, off. cbn. lia.
      - intros j Hj. lia. }
    destruct (sweep_Inv3 cover L [] s0 s I0 Hc Es) as [I Lsz]. cbn [app] in I.
    set (sz := cover_sizes cover L s0) in *. set (ws := 1%nat :: sz).
    destruct (finish_X s g H) as [F1 [F2 [F3 [hc Fn]]]].
    destruct I as [Inid It0 Iids Iedges Iin Inext Ipos].
    (* the last block is inhabited too *)
    assert (Hall : Forall (fun w => (1 <= w)%nat) sz).
    { apply Forall_forall. intros w Hw. destruct (In_nth sz w 0%nat Hw) as [j [Hj Ej]].
      destruct (Nat.eq_dec (S j) (length sz)) as [Elast|Hne]; [|rewrite <- Ej; apply Ipos; lia].
      specialize (Inext hc ltac:(rewrite Fn; left; reflexivity)). unfold blkw in Inext.
      rewrite (off_S (1%nat :: sz) (length sz)) in Inext by (simpl; lia). rewrite <- Elast in Inext. cbn [nth] in Inext. lia. }
    assert (Hgids : gnids R g = 0 :: zrange 1 (list_sum sz)).
    { unfold gnids. change (map n_id (g_nodes g)) with (gids g). rewrite F2, Iids. cbn [filter]. change (0 =? -1) with false. change (-1 =? -1) with true.
      cbn [negb]. f_equal. apply filter_all. intros x Hx. apply zrange_In in Hx. apply negb_true_iff, Z.eqb_neq. lia. }
    assert (Hin : forall x, In x (gnids R g) <-> 0 <= x < 1 + Z.of_nat (list_sum sz)).
    { intros x. rewrite Hgids. cbn [In]. rewrite zrange_In. lia. }
    assert (Hedges : forall e, In e (g_edges g) -> exists e0, In e0 (g_edges (s_g s)) /\ e_from e = e_from e0 /\ e_to e = e_to e0).
    { intros e He. apply (in_map (fun e => (e_from e, e_to e))) in He. rewrite F3 in He. apply in_map_iff in He.
      destruct He as [e0 [E He0]]. inversion E. exists e0. auto. }
    assert (Hedges' : forall e0, In e0 (g_edges (s_g s)) -> exists e, In e (g_edges g) /\ e_from e = e_from e0 /\ e_to e = e_to e0).
    { intros e0 He0. apply (in_map (fun e => (e_from e, e_to e))) in He0. rewrite <- F3 in He0. apply in_map_iff in He0.
      destruct He0 as [e [E He]]. inversion E. exists e. auto. }
    set (lv := fun x => Z.of_nat (lvn ws 0 x)).
    assert (Hlen : length ws = S L) by (unfold ws; cbn [length]; lia).
    assert (Hblk : forall j x, (j < length ws)%nat -> blkw ws j x -> lv x = Z.of_nat j).
    { intros j x Hj Hb. unfold lv. f_equal. apply lvn_blk; [exact Hj|unfold blkw in Hb; lia]. }
    assert (Hspec : forall x, In x (gnids R g) -> (lvn ws 0 x < length ws)%nat /\ blkw ws (lvn ws 0 x) x).
    { intros x Hx. apply Hin in Hx. destruct (lvn_spec ws 0 x) as [A B]; [unfold ws; rewrite list_sum_cons; lia|].
      split; [exact A|unfold blkw; lia]. }
    replace ws with (map (@length Z) (map (fun k => zrange (off ws k) (nth k ws 0%nat)) (seq 0 (S L)))).
    2:{ rewrite map_map, <- Hlen.
        transitivity (map (fun k => nth k ws 0%nat) (seq 0 (length ws))); [apply map_ext; intros k; apply zrange_length|apply map_nth_seq]. }
    apply (bond_dims_linked R g Hlk lv) with (K := L).
    - intros e He. destruct (Hedges e He) as [e0 [He0 [Ef Et]]]. destruct (Iedges e0 He0) as [j [Hj [B1 B2]]].
      rewrite Ef, Et, (Hblk j _ ltac:(lia) B1), (Hblk (S j) _ ltac:(lia) B2). lia.
    - intros x Hx Hne. rewrite F1, It0 in Hne. apply Hin in Hx. destruct (Iin x ltac:(lia)) as [e0 [He0 Et]].
      destruct (Hedges' e0 He0) as [e [He [_ Et']]]. exists e. split; [exact He|congruence].
    - intros x Hx. destruct (Hspec x Hx) as [A _]. unfold lv. lia.
    - intros j Hj. exists (off ws j). assert (Hw : (1 <= nth j ws 0)%nat).
      { unfold ws. destruct j as [|j]; [cbn; lia|]. cbn [nth]. rewrite Forall_forall in Hall. apply Hall. apply nth_In. lia. }
      assert (Hb : blkw ws j (off ws j)) by (unfold blkw; rewrite (off_S ws j) by lia; lia).
      split; [|apply Hblk; [lia|exact Hb]]. apply Hin. unfold blkw in Hb.
      assert (off ws (S j) <= off ws (length ws)).
      { clear - Hj Hlen. unfold off. rewrite firstn_all. rewrite <- (firstn_skipn (S j) ws) at 2. rewrite list_sum_app. lia. }
      rewrite off_all in H0. unfold ws in H0 at 2. rewrite list_sum_cons in H0. assert (0 <= off ws j) by (unfold off; lia). lia.
    - intros x Hx Hl. destruct (Hspec x Hx) as [_ B]. unfold lv in Hl. assert (E : lvn ws 0 x = 0%nat) by lia. rewrite E in B.
      unfold blkw, ws in B. rewrite off_cons, !off_0 in B. rewrite F1, It0. lia.
    - rewrite map_length, seq_length. reflexivity.
    - pose proof (list_sum_ge_length sz Hall) as Hs. apply (f_equal (@length Z)) in Hgids. unfold gnids in Hgids.
      rewrite map_length in Hgids. rewrite Hgids. cbn [length]. rewrite zrange_length. lia.
    - intros k l Hk. assert (Hkl : (k < S L)%nat).
      { assert (Hx : nth_error (map (fun k => zrange (off ws k) (nth k ws 0%nat)) (seq 0 (S L))) k <> None) by (rewrite Hk; discriminate).
        apply nth_error_Some in Hx. rewrite map_length, seq_length in Hx. exact Hx. }
      rewrite nth_error_map in Hk.
      rewrite (nth_error_nth' (seq 0 (S L)) 0%nat) in Hk by (rewrite seq_length; exact Hkl). rewrite seq_nth in Hk by exact Hkl.
      cbn [option_map Nat.add] in Hk.
      assert (El : l = zrange (off ws k) (nth k ws 0%nat)) by congruence. subst l. clear Hk. split; [apply zrange_NoDup|].
      intros x. rewrite zrange_In, <- (off_S ws k) by lia. split.
      + intros Hb. split; [|apply Hblk; [lia|exact Hb]]. apply Hin. unfold blkw in Hb.
        assert (off ws (S k) <= off ws (length ws)).
        { clear - Hkl Hlen. unfold off. rewrite firstn_all. rewrite <- (firstn_skipn (S k) ws) at 2. rewrite list_sum_app. lia. }
        rewrite off_all in H0. unfold ws in H0 at 2. rewrite list_sum_cons in H0. assert (0 <= off ws k) by (unfold off; lia). lia.
      + intros [Hx Hl]. destruct (Hspec x Hx) as [_ B]. unfold lv in Hl. apply Nat2Z.inj in Hl. rewrite Hl in B. exact B.
  Qed.

  (* with the model of minimum_vertex_cover (certified on every call: C18) *)
  Theorem opchains_bond_dims_sizes_model (chains : list chain) L idn g : (1 <= L)%nat ->
    from_opchains cover_model chains L idn = Ok g ->
    exists s0, start_state chains L idn = Some s0 /\ bond_dims g = Some (1%nat :: cover_sizes cover_model L s0).
  Proof. intros HL. apply opchains_bond_dims_sizes; [exact HL|]. intros s0 _. apply calls_certified_model. Qed.
End Widths.
