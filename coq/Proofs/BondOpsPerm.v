From Coq Require Import ZArith List Bool Lia Arith Permutation Sorted.
From PT Require Import Base.Scalar Base.BigSum Base.Mx Model.BondOps.
Import ListNotations.

(* List / permutation facts about the index-vector operations of Model/BondOps.v
   (argsort, argsort_nat, is_id, takez, intersect1d, blk_range). *)

Definition zsorted (q : list Z) : Prop :=
  forall i j, i <= j -> j < length q -> (nth i q 0 <= nth j q 0)%Z.

(* ------------------------------------------------------------------ *)
(* generic helpers                                                      *)
(* ------------------------------------------------------------------ *)

Lemma map_nth_seq {A} (d : A) (l : list A) :
  map (fun i => nth i l d) (seq 0 (length l)) = l.
Proof.
  induction l as [|a t IH]; [reflexivity|].
  simpl. f_equal. rewrite <- seq_shift, map_map. simpl. exact IH.
Qed.

Lemma map_snd_combine {A B} (l : list A) (l' : list B) :
  length l = length l' -> map snd (combine l l') = l'.
Proof.
  revert l'. induction l as [|a t IH]; intros [|b u] H; simpl in *; try discriminate; [reflexivity|].
  f_equal. apply IH. lia.
Qed.

Lemma seq_ssorted s n : StronglySorted lt (seq s n).
Proof.
  revert s. induction n as [|n IH]; intros s; simpl; constructor; [apply IH|].
  apply Forall_forall. intros x Hx. apply in_seq in Hx. lia.
Qed.

Lemma filter_ssorted {A} (Rl : A -> A -> Prop) (f : A -> bool) l :
  StronglySorted Rl l -> StronglySorted Rl (filter f l).
Proof.
  induction 1 as [|a t Hs IH Hf]; simpl; [constructor|].
  destruct (f a); [|exact IH]. constructor; [exact IH|].
  apply Forall_forall. intros x Hx. apply filter_In in Hx. destruct Hx as [Hx _].
  rewrite Forall_forall in Hf. auto.
Qed.

Lemma ssorted_zsorted l : StronglySorted Z.le l -> zsorted l.
Proof.
  induction 1 as [|a t Hs IH Hf]; intros i j Hij Hj; simpl in Hj; [lia|].
  destruct j as [|j].
  - assert (i = 0) by lia. subst i. simpl. lia.
  - destruct i as [|i]; simpl.
    + rewrite Forall_forall in Hf. apply Hf. apply nth_In. lia.
    + apply IH; lia.
Qed.

Lemma ssorted_perm_eq l1 : forall l2,
  StronglySorted Z.le l1 -> StronglySorted Z.le l2 -> Permutation l1 l2 -> l1 = l2.
Proof.
  induction l1 as [|a t IH]; intros l2 H1 H2 HP.
  - apply Permutation_nil in HP. auto.
  - destruct l2 as [|b u]; [apply Permutation_sym, Permutation_nil in HP; discriminate|].
    inversion H1 as [|? ? Hs1 Hf1]; subst. inversion H2 as [|? ? Hs2 Hf2]; subst.
    rewrite Forall_forall in Hf1, Hf2.
    assert (Eab : a = b).
    { assert (Ha : In a (b :: u)) by (eapply Permutation_in; [exact HP|left; reflexivity]).
      assert (Hb : In b (a :: t)) by (eapply Permutation_in; [apply Permutation_sym; exact HP|left; reflexivity]).
      destruct Ha as [Ha|Ha]; [auto|]. destruct Hb as [Hb|Hb]; [auto|].
      apply Hf2 in Ha. apply Hf1 in Hb. lia. }
    subst b. f_equal. apply IH; auto. eapply Permutation_cons_inv; exact HP.
Qed.

(* ------------------------------------------------------------------ *)
(* permutations of an initial segment                                   *)
(* ------------------------------------------------------------------ *)

Lemma perm_length p n : Permutation p (seq 0 n) -> length p = n.
Proof. intros HP. apply Permutation_length in HP. rewrite seq_length in HP. exact HP. Qed.

Lemma perm_nth_lt p n i : Permutation p (seq 0 n) -> i < n -> nth i p 0 < n.
Proof.
  intros HP Hi. assert (HL := perm_length _ _ HP).
  assert (HI : In (nth i p 0) (seq 0 n)).
  { eapply Permutation_in; [exact HP|]. apply nth_In. lia. }
  apply in_seq in HI. lia.
Qed.

Lemma perm_nth_inj p n i j :
  Permutation p (seq 0 n) -> i < n -> j < n -> nth i p 0 = nth j p 0 -> i = j.
Proof.
  intros HP Hi Hj E. assert (HL := perm_length _ _ HP).
  assert (ND : NoDup p).
  { eapply Permutation_NoDup; [apply Permutation_sym; exact HP|apply seq_NoDup]. }
  rewrite NoDup_nth in ND. apply ND; [lia|lia|exact E].
Qed.

Lemma perm_nth_surj p n k : Permutation p (seq 0 n) -> k < n -> exists i, i < n /\ nth i p 0 = k.
Proof.
  intros HP Hk. assert (HL := perm_length _ _ HP).
  assert (HI : In k p).
  { eapply Permutation_in; [apply Permutation_sym; exact HP|]. apply in_seq. lia. }
  destruct (In_nth _ _ 0 HI) as [i [Hi E]]. exists i. split; [lia|exact E].
Qed.

Lemma sumn_perm (R : cring) n p (f : nat -> R) :
  Permutation p (seq 0 n) -> sumn n (fun i => f (nth i p 0)) = sumn n f.
Proof.
  intros HP. assert (HL := perm_length _ _ HP).
  rewrite <- (suml_seq R n (fun i => f (nth i p 0))).
  rewrite <- (suml_map R (fun i => nth i p 0) (seq 0 n) f).
  rewrite <- HL at 1. rewrite map_nth_seq.
  rewrite (suml_permutation R _ _ f HP). apply suml_seq.
Qed.

(* ------------------------------------------------------------------ *)
(* stable argsort                                                       *)
(* ------------------------------------------------------------------ *)

Definition lexle (x y : Z * nat) : Prop :=
  (fst x < fst y)%Z \/ (fst x = fst y /\ snd x <= snd y).

Lemma lexlt_true x y : lexlt x y = true -> lexle x y.
Proof.
  unfold lexlt, lexle. intros H. apply orb_true_iff in H. destruct H as [H|H].
  - apply Z.ltb_lt in H. auto.
  - apply andb_true_iff in H. destruct H as [H1 H2]. apply Z.eqb_eq in H1. apply Nat.ltb_lt in H2.
    right. split; [exact H1|lia].
Qed.

Lemma lexlt_false x y : lexlt x y = false -> lexle y x.
Proof.
  unfold lexlt, lexle. intros H. apply orb_false_iff in H. destruct H as [H1 H2].
  apply Z.ltb_ge in H1. apply andb_false_iff in H2. destruct H2 as [H2|H2].
  - apply Z.eqb_neq in H2. left. lia.
  - apply Nat.ltb_ge in H2. destruct (Z.eq_dec (fst x) (fst y)) as [E|E]; [right; split; [auto|lia]|left; lia].
Qed.

Lemma lexle_trans x y z : lexle x y -> lexle y z -> lexle x z.
Proof. unfold lexle. intros [H1|[H1 H1']] [H2|[H2 H2']]; try (left; lia). right. split; lia. Qed.

Lemma ins_perm x l : Permutation (ins x l) (x :: l).
Proof.
  induction l as [|y t IH]; simpl; [apply Permutation_refl|].
  destruct (lexlt x y); [apply Permutation_refl|].
  eapply Permutation_trans; [apply perm_skip; exact IH|apply perm_swap].
Qed.

Lemma isort_perm l : Permutation (fold_right ins [] l) l.
Proof.
  induction l as [|x t IH]; simpl; [constructor|].
  eapply Permutation_trans; [apply ins_perm|]. apply perm_skip. exact IH.
Qed.

Lemma ins_ssorted x l : StronglySorted lexle l -> StronglySorted lexle (ins x l).
Proof.
  induction 1 as [|y t Hs IH Hf]; simpl.
  - constructor; constructor.
  - destruct (lexlt x y) eqn:E.
    + apply lexlt_true in E. constructor; [constructor; assumption|].
      constructor; [exact E|]. rewrite Forall_forall in Hf. apply Forall_forall.
      intros z Hz. eapply lexle_trans; [exact E|auto].
    + apply lexlt_false in E. constructor; [exact IH|].
      apply Forall_forall. intros z Hz.
      assert (Hz' : In z (x :: t)) by (eapply Permutation_in; [apply ins_perm|exact Hz]).
      rewrite Forall_forall in Hf. destruct Hz' as [Hz'|Hz']; [subst z; exact E|auto].
Qed.

Lemma isort_ssorted l : StronglySorted lexle (fold_right ins [] l).
Proof. induction l as [|x t IH]; simpl; [constructor|apply ins_ssorted; exact IH]. Qed.

Lemma sort_pairs_perm q : Permutation (sort_pairs q) (combine q (seq 0 (length q))).
Proof. apply isort_perm. Qed.

Lemma sort_pairs_ssorted q : StronglySorted lexle (sort_pairs q).
Proof. apply isort_ssorted. Qed.

Lemma combine_seq_In q k i :
  In (k, i) (combine q (seq 0 (length q))) -> i < length q /\ k = nth i q 0%Z.
Proof.
  intros H. destruct (In_nth _ _ (0%Z, 0) H) as [n [Hn E]].
  rewrite combine_length, seq_length, Nat.min_id in Hn.
  rewrite combine_nth in E by (rewrite seq_length; reflexivity).
  rewrite seq_nth in E by exact Hn. simpl in E. inversion E; subst. split; [exact Hn|reflexivity].
Qed.

Lemma sort_pairs_In q k i : In (k, i) (sort_pairs q) -> i < length q /\ k = nth i q 0%Z.
Proof.
  intros H. apply combine_seq_In. eapply Permutation_in; [apply sort_pairs_perm|exact H].
Qed.

Lemma argsort_perm q : Permutation (argsort q) (seq 0 (length q)).
Proof.
  unfold argsort.
  assert (E : map snd (combine q (seq 0 (length q))) = seq 0 (length q))
    by (apply map_snd_combine; rewrite seq_length; reflexivity).
  rewrite <- E at 1. apply Permutation_map. apply sort_pairs_perm.
Qed.

Lemma takez_argsort q : takez (argsort q) q = map fst (sort_pairs q).
Proof.
  unfold takez, argsort. rewrite map_map. apply map_ext_in.
  intros [k i] H. apply sort_pairs_In in H. simpl. symmetry. apply H.
Qed.

Lemma map_fst_ssorted l : StronglySorted lexle l -> StronglySorted Z.le (map fst l).
Proof.
  induction 1 as [|y t Hs IH Hf]; simpl; constructor; [exact IH|].
  rewrite Forall_forall in Hf. apply Forall_forall. intros z Hz.
  apply in_map_iff in Hz. destruct Hz as [w [E Hw]]. subst z.
  apply Hf in Hw. unfold lexle in Hw. lia.
Qed.

Lemma argsort_ssorted q : StronglySorted Z.le (takez (argsort q) q).
Proof. rewrite takez_argsort. apply map_fst_ssorted, sort_pairs_ssorted. Qed.

Lemma argsort_sorted q : zsorted (takez (argsort q) q).
Proof. apply ssorted_zsorted, argsort_ssorted. Qed.

Lemma takez_length p q : length (takez p q) = length p.
Proof. apply map_length. Qed.

Lemma takez_seq q : takez (seq 0 (length q)) q = q.
Proof. apply map_nth_seq. Qed.

Lemma takez_perm p q : Permutation p (seq 0 (length q)) -> Permutation (takez p q) q.
Proof.
  intros HP. rewrite <- (takez_seq q) at 2. unfold takez. apply Permutation_map. exact HP.
Qed.

Lemma takez_In p q x : Permutation p (seq 0 (length q)) -> (In x (takez p q) <-> In x q).
Proof.
  intros HP. apply takez_perm in HP. split; intros H.
  - eapply Permutation_in; [exact HP|exact H].
  - eapply Permutation_in; [apply Permutation_sym; exact HP|exact H].
Qed.

Lemma takez_nth p q i : i < length p -> nth i (takez p q) 0%Z = nth (nth i p 0) q 0%Z.
Proof.
  intros Hi. unfold takez.
  rewrite (nth_indep _ 0%Z ((fun k => nth k q 0%Z) 0)) by (rewrite map_length; exact Hi).
  apply (map_nth (fun k => nth k q 0%Z)).
Qed.

Lemma is_id_gen p : forall s,
  forallb (fun x => Nat.eqb (fst x) (snd x)) (combine p (seq s (length p))) = true ->
  p = seq s (length p).
Proof.
  induction p as [|a t IH]; intros s H; [reflexivity|].
  simpl in H. apply andb_true_iff in H. destruct H as [H1 H2].
  apply Nat.eqb_eq in H1. simpl. f_equal; [exact H1|apply IH; exact H2].
Qed.

Lemma is_id_true p : is_id p = true -> p = seq 0 (length p).
Proof. apply is_id_gen. Qed.

Lemma argsort_length q : length (argsort q) = length q.
Proof. apply perm_length, argsort_perm. Qed.

Lemma is_id_argsort_sorted q : is_id (argsort q) = true -> zsorted q.
Proof.
  intros H. apply is_id_true in H. rewrite argsort_length in H.
  rewrite <- (takez_seq q). rewrite <- H. apply argsort_sorted.
Qed.

(* np.argsort of a permutation is its inverse *)
Lemma argsort_nat_perm p : Permutation (argsort_nat p) (seq 0 (length p)).
Proof.
  unfold argsort_nat. rewrite <- (map_length Z.of_nat p). apply argsort_perm.
Qed.

Lemma map_of_nat_seq_ssorted s n : StronglySorted Z.le (map Z.of_nat (seq s n)).
Proof.
  revert s. induction n as [|n IH]; intros s; simpl; constructor; [apply IH|].
  apply Forall_forall. intros z Hz. apply in_map_iff in Hz. destruct Hz as [k [E Hk]].
  apply in_seq in Hk. lia.
Qed.

Lemma argsort_nat_inv p n i :
  Permutation p (seq 0 n) -> i < n -> nth (nth i (argsort_nat p) 0) p 0 = i.
Proof.
  intros HP Hi. assert (HL := perm_length _ _ HP).
  set (q := map Z.of_nat p).
  assert (HLq : length q = n) by (unfold q; rewrite map_length; exact HL).
  assert (HA : Permutation (argsort q) (seq 0 (length q))) by apply argsort_perm.
  assert (E : takez (argsort q) q = map Z.of_nat (seq 0 n)).
  { apply ssorted_perm_eq.
    - apply argsort_ssorted.
    - apply map_of_nat_seq_ssorted.
    - eapply Permutation_trans; [apply takez_perm; exact HA|].
      unfold q. apply Permutation_map. exact HP. }
  assert (E2 : nth i (takez (argsort q) q) 0%Z = Z.of_nat i).
  { rewrite E. change 0%Z with (Z.of_nat 0). rewrite map_nth. rewrite seq_nth by exact Hi. reflexivity. }
  rewrite takez_nth in E2 by (rewrite argsort_length; lia).
  unfold q in E2 at 2. change 0%Z with (Z.of_nat 0) in E2. rewrite map_nth in E2.
  apply Nat2Z.inj in E2. exact E2.
Qed.

Lemma argsort_nat_inv' p n i :
  Permutation p (seq 0 n) -> i < n -> nth (nth i p 0) (argsort_nat p) 0 = i.
Proof.
  intros HP Hi. assert (HL := perm_length _ _ HP).
  assert (HA : Permutation (argsort_nat p) (seq 0 n)) by (rewrite <- HL; apply argsort_nat_perm).
  assert (Hj : nth i p 0 < n) by (apply perm_nth_lt; assumption).
  assert (Hk : nth (nth i p 0) (argsort_nat p) 0 < n) by (apply perm_nth_lt; assumption).
  apply (perm_nth_inj p n); [exact HP|exact Hk|exact Hi|].
  apply (argsort_nat_inv p n); assumption.
Qed.

(* ------------------------------------------------------------------ *)
(* np.intersect1d                                                       *)
(* ------------------------------------------------------------------ *)

Lemma zins_In x l y : In y (zins x l) <-> y = x \/ In y l.
Proof.
  induction l as [|a t IH]; simpl.
  - split; intros [H|H]; auto.
  - destruct (Z.ltb_spec x a) as [H1|H1]; simpl.
    + split; intros [H|H]; auto.
    + destruct (Z.eqb_spec x a) as [H2|H2]; simpl.
      * subst a. split; [auto|]. intros [H|H]; auto.
      * rewrite IH. split; intros H; destruct H as [H|[H|H]]; auto.
Qed.

Lemma zuniq_In q x : In x (zuniq q) <-> In x q.
Proof.
  induction q as [|a t IH]; simpl; [reflexivity|].
  rewrite zins_In, IH. split; intros [H|H]; auto.
Qed.

Lemma zins_ssorted x l : StronglySorted Z.lt l -> StronglySorted Z.lt (zins x l).
Proof.
  induction 1 as [|a t Hs IH Hf]; simpl.
  - constructor; constructor.
  - rewrite Forall_forall in Hf.
    destruct (Z.ltb_spec x a) as [H1|H1].
    + constructor; [constructor; [assumption|apply Forall_forall; assumption]|].
      constructor; [exact H1|]. apply Forall_forall. intros z Hz. apply Hf in Hz. lia.
    + destruct (Z.eqb_spec x a) as [H2|H2].
      * constructor; [assumption|apply Forall_forall; assumption].
      * constructor; [exact IH|]. apply Forall_forall. intros z Hz.
        apply zins_In in Hz. destruct Hz as [Hz|Hz]; [lia|auto].
Qed.

Lemma zuniq_ssorted q : StronglySorted Z.lt (zuniq q).
Proof. induction q as [|a t IH]; simpl; [constructor|apply zins_ssorted; exact IH]. Qed.

Lemma zmem_In x l : zmem x l = true <-> In x l.
Proof.
  unfold zmem. rewrite existsb_exists. split.
  - intros [y [Hy E]]. apply Z.eqb_eq in E. subst y. exact Hy.
  - intros H. exists x. split; [exact H|apply Z.eqb_refl].
Qed.

Lemma intersect1d_In a b x : In x (intersect1d a b) <-> In x a /\ In x b.
Proof. unfold intersect1d. rewrite filter_In, zuniq_In, zmem_In. reflexivity. Qed.

Lemma intersect1d_sorted a b : StronglySorted Z.lt (intersect1d a b).
Proof. unfold intersect1d. apply filter_ssorted, zuniq_ssorted. Qed.

(* ------------------------------------------------------------------ *)
(* block ranges on a sorted vector                                      *)
(* ------------------------------------------------------------------ *)

Lemma where_eq_In q x i : In i (where_eq q x) <-> i < length q /\ nth i q 0%Z = x.
Proof.
  unfold where_eq. rewrite filter_In, in_seq, Z.eqb_eq. split; intros [H1 H2]; split; auto; lia.
Qed.

Lemma where_eq_ssorted q x : StronglySorted lt (where_eq q x).
Proof. unfold where_eq. apply filter_ssorted, seq_ssorted. Qed.

Lemma hd_min w : StronglySorted lt w -> w <> [] ->
  In (hd 0 w) w /\ forall i, In i w -> hd 0 w <= i.
Proof.
  intros Hs Hne. destruct w as [|a t]; [congruence|]. simpl. split; [auto|].
  inversion Hs as [|? ? Hs' Hf]; subst. rewrite Forall_forall in Hf.
  intros i [Hi|Hi]; [lia|]. apply Hf in Hi. lia.
Qed.

Lemma last_max w : StronglySorted lt w -> w <> [] ->
  In (last w 0) w /\ forall i, In i w -> i <= last w 0.
Proof.
  induction 1 as [|a t Hs IH Hf]; intros Hne; [congruence|].
  destruct t as [|b u].
  - simpl. split; [auto|]. intros i [Hi|[]]. lia.
  - assert (Hne' : b :: u <> []) by discriminate.
    destruct (IH Hne') as [H1 H2].
    change (last (a :: b :: u) 0) with (last (b :: u) 0).
    split; [right; exact H1|].
    intros i [Hi|Hi]; [|apply H2; exact Hi].
    subst i. rewrite Forall_forall in Hf. apply Hf in H1. lia.
Qed.

Lemma where_eq_nonempty q x : In x q -> where_eq q x <> [].
Proof.
  intros H. destruct (In_nth _ _ 0%Z H) as [n [Hn E]].
  assert (Hw : In n (where_eq q x)) by (apply where_eq_In; auto).
  intros E0. rewrite E0 in Hw. destruct Hw.
Qed.

Lemma blk_range_spec q x : zsorted q -> In x q ->
  fst (blk_range q x) < snd (blk_range q x) /\ snd (blk_range q x) <= length q /\
  forall i, i < length q -> (fst (blk_range q x) <= i < snd (blk_range q x) <-> nth i q 0%Z = x).
Proof.
  intros Hz Hx. unfold blk_range. simpl fst. simpl snd.
  assert (Hne := where_eq_nonempty q x Hx).
  destruct (hd_min _ (where_eq_ssorted q x) Hne) as [Hlo Hmin].
  destruct (last_max _ (where_eq_ssorted q x) Hne) as [Hhi Hmax].
  set (lo := hd 0 (where_eq q x)) in *. set (hi := last (where_eq q x) 0) in *.
  apply where_eq_In in Hlo. apply where_eq_In in Hhi.
  destruct Hlo as [Hlo1 Hlo2]. destruct Hhi as [Hhi1 Hhi2].
  assert (Hlh : lo <= hi) by (apply Hmax, where_eq_In; auto).
  split; [lia|]. split; [lia|].
  intros i Hi. split.
  - intros [H1 H2].
    assert (A1 := Hz lo i H1 Hi). assert (A2 := Hz i hi ltac:(lia) Hhi1). lia.
  - intros E. assert (Hw : In i (where_eq q x)) by (apply where_eq_In; auto).
    assert (B1 := Hmin i Hw). assert (B2 := Hmax i Hw). lia.
Qed.

Lemma blk_range_mono q x y : zsorted q -> In x q -> In y q -> (x < y)%Z ->
  snd (blk_range q x) <= fst (blk_range q y).
Proof.
  intros Hz Hx Hy Hxy. unfold blk_range. simpl fst. simpl snd.
  destruct (last_max _ (where_eq_ssorted q x) (where_eq_nonempty q x Hx)) as [Hhi _].
  destruct (hd_min _ (where_eq_ssorted q y) (where_eq_nonempty q y Hy)) as [Hlo _].
  set (lo := hd 0 (where_eq q y)) in *. set (hi := last (where_eq q x) 0) in *.
  apply where_eq_In in Hlo. apply where_eq_In in Hhi.
  destruct Hlo as [Hlo1 Hlo2]. destruct Hhi as [Hhi1 Hhi2].
  destruct (le_lt_dec lo hi) as [H|H]; [|lia].
  assert (A := Hz lo hi H Hhi1). lia.
Qed.

Print Assumptions argsort_nat_inv.
Print Assumptions blk_range_spec.
