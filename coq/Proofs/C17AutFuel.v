(* C17, totality of from_automaton, part 1: the model's fuel [cons_fuel] for the breadth-first level search of
   OpGraph.is_consistent suffices on every levelled well-formed graph whose levels stay below the number of nodes,
   in particular on every graph [Built] by from_automaton / from_optrees.  The search dequeues one entry per walk
   that starts at the terminal; [walks] counts exactly these. *)
From Coq Require Import ZArith List Lia Bool Permutation.
From PT Require Import Base.Scalar Base.BigSum Model.OpGraph Model.Rewrites Model.C17Common Model.AutOp
                       Proofs.RewritesBase Proofs.RewritesMergeInv Proofs.RewritesConsistent Proofs.C17LenBase.
Import ListNotations.
Open Scope Z_scope.

Lemma fold_add_sum {A} (f : A -> nat) (l : list A) : forall a,
  fold_left (fun acc e => (acc + f e)%nat) l a = (a + list_sum (map f l))%nat.
Proof.
  induction l as [|x t IH]; intros a; simpl; [lia|]. rewrite IH. lia.
Qed.

Section Fuel.
  Variable R : cring.
  Notation graph := (graph R).
  Notation gedge := (gedge R).

  Definition qcost (g : graph) (d D : nat) (q : list (Z * nat)) : nat :=
    list_sum (map (fun p => walks g d (D - snd p) (fst p)) q).

  Lemma walks_pos (g : graph) d k nid : (1 <= walks g d k nid)%nat.
  Proof. destruct k; cbn [walks]; [lia|]. destruct (find_node g nid); lia. Qed.

  Lemma WF_ends (g : graph) e : WF R g -> In e (g_edges g) -> In (e_from e) (nids R g) /\ In (e_to e) (nids R g).
  Proof.
    intros W He. split.
    - destruct (wf_ref0 R g W) as [_ [_ R3]]. destruct (R3 e He) as [n [Hn [Hid _]]]. cbn [end_d] in Hid.
      rewrite <- Hid. apply in_map. exact Hn.
    - destruct (wf_ref1 R g W) as [_ [_ R3]]. destruct (R3 e He) as [n [Hn [Hid _]]]. cbn [end_d] in Hid.
      rewrite <- Hid. apply in_map. exact Hn.
  Qed.

  (* the level search does not run out of fuel: every queue entry (nid, k) costs the number of walks of at most
     D - k further steps from nid; levels stay below D *)
  Lemma levels_ok_enough (g : graph) (l : Z -> Z) d c (D : nat) :
    WF R g -> (forall e, In e (g_edges g) -> l (e_to e) = l (e_from e) + 1) -> (d <= 1)%nat ->
    (forall x, In x (nids R g) -> sgn_dir d * l x - c < Z.of_nat D) ->
    forall fuel queue lv,
      LvInv l d c queue -> (forall nid k, In (nid, k) queue -> In nid (nids R g)) ->
      (qcost g d D queue <= fuel)%nat ->
      levels_ok_fuel R fuel g d queue lv <> None.
  Proof.
    intros W Hl Hd HD. induction fuel as [|f IH]; intros queue lv Hq Hin Hc.
    - destruct queue as [|[nid k] q']; [cbn; discriminate|]. exfalso.
      unfold qcost in Hc. cbn [map list_sum fold_right fst snd] in Hc. pose proof (walks_pos g d (D - k) nid). lia.
    - destruct queue as [|[nid k] q']; [cbn; discriminate|]. cbn [levels_ok_fuel].
      assert (Hnid : In nid (nids R g)) by (apply (Hin nid k); left; reflexivity).
      destruct (proj1 (In_nids R g nid) Hnid) as [n [Hn Hid]].
      assert (Fn : find_node g nid = Some n) by (rewrite <- Hid; apply find_node_In; [apply W|exact Hn]).
      assert (Hk : (k < D)%nat).
      { assert (E : Z.of_nat k = sgn_dir d * l nid - c) by (apply Hq; left; reflexivity). specialize (HD nid Hnid). lia. }
      set (succ := map (fun e : gedge => (edge_nid e (1 - d), S k)) (edges_of g (node_eids n (1 - d)))).
      assert (Hcost : walks g d (D - k) nid = S (qcost g d D succ)).
      { replace (D - k)%nat with (S (D - S k)) by lia. cbn [walks]. rewrite Fn, fold_add_sum. cbn [Nat.add].
        unfold qcost, succ. rewrite map_map. cbn [fst snd]. reflexivity. }
      assert (HA : forall lv', levels_ok_fuel R f g d (q' ++ succ) lv' <> None).
      { intros lv'. apply IH.
        - eapply LvInv_succ; eauto.
        - intros x j Hx. apply in_app_or in Hx. destruct Hx as [Hx|Hx]; [apply (Hin x j); right; exact Hx|].
          unfold succ in Hx. apply in_map_iff in Hx. destruct Hx as [e [Heq He]]. injection Heq as Hx _.
          apply edges_of_In in He. destruct He as [eid [_ Fe]]. apply find_edge_Some in Fe. destruct Fe as [He _].
          destruct (WF_ends g e W He) as [E1 E2]. rewrite <- Hx.
          destruct d as [|[|d]]; [exact E2|exact E1|lia].
        - unfold qcost in *. cbn [map list_sum fold_right fst snd] in Hc. rewrite map_app, list_sum_app. unfold list_sum in *. lia. }
      destruct (find (fun p : Z * nat => fst p =? nid) lv) as [[nid' k']|].
      + destruct (Nat.eqb k k'); [|discriminate]. rewrite Fn. apply HA.
      + rewrite Fn. apply HA.
  Qed.

  (* a graph assembled by from_automaton / from_optrees passes the model's is_consistent with the model's own fuel *)
  Theorem Built_is_consistent (g : graph) (L : nat) : Built R g L -> is_consistent g = Some true.
  Proof.
    intros HB. pose proof (Built_WF R g L HB) as W. destruct HB as [lv [P [B _]]].
    assert (Hlen : (S L <= length (g_nodes g))%nat).
    { destruct (depth_path R g lv (Z.of_nat L) W B (pw_lev R g lv P) L (g_t0 g) (lb_t0 R g lv _ B)) as [p [P1 [P2 [_ [P4 _]]]]].
      { rewrite (lb_l0 R g lv _ B). lia. }
      pose proof (NoDup_incl_length P4 P2) as Hl. unfold nids in Hl. rewrite map_length in Hl. lia. }
    unfold is_consistent, is_consistent_fuel.
    rewrite (WF_node_refs_ok R g W), (WF_edge_refs_ok R g W), (WF_terminal_ok R g W). cbn [negb].
    set (D := S (length (g_nodes g))).
    assert (H0 : levels_ok_fuel R (cons_fuel g) g 0 [(g_t0 g, 0%nat)] [] <> None).
    { apply (levels_ok_enough g lv 0 0 D W (pw_lev R g lv P) (le_S _ _ (le_n _))).
      - intros x Hx. pose proof (lb_b R g lv _ B x Hx). cbn [sgn_dir]. unfold D. lia.
      - intros x j [Heq|[]]. inversion Heq; subst x j. cbn [sgn_dir]. rewrite (lb_l0 R g lv _ B). reflexivity.
      - intros x j [Heq|[]]. inversion Heq; subst x j. apply (lb_t0 R g lv _ B).
      - unfold qcost, cons_fuel. cbn [map list_sum fold_right fst snd]. rewrite Nat.sub_0_r. fold D. lia. }
    assert (H1 : levels_ok_fuel R (cons_fuel g) g 1 [(g_t1 g, 0%nat)] [] <> None).
    { apply (levels_ok_enough g lv 1 (- Z.of_nat L) D W (pw_lev R g lv P) (le_n _)).
      - intros x Hx. pose proof (lb_b R g lv _ B x Hx). cbn [sgn_dir]. unfold D. lia.
      - intros x j [Heq|[]]. inversion Heq; subst x j. cbn [sgn_dir]. rewrite (lb_l1 R g lv _ B). cbn [Z.of_nat]. lia.
      - intros x j [Heq|[]]. inversion Heq; subst x j. apply (lb_t1 R g lv _ B).
      - unfold qcost, cons_fuel. cbn [map list_sum fold_right fst snd]. rewrite Nat.sub_0_r. fold D. lia. }
    pose proof (WF_levels_ok R g 0 (cons_fuel g) W (le_S _ _ (le_n _))) as F0.
    pose proof (WF_levels_ok R g 1 (cons_fuel g) W (le_n _)) as F1.
    change (terminal g 0) with (g_t0 g) in F0. change (terminal g 1) with (g_t1 g) in F1.
    destruct (levels_ok_fuel R (cons_fuel g) g 0 [(g_t0 g, 0%nat)] []) as [[|]|];
      destruct (levels_ok_fuel R (cons_fuel g) g 1 [(g_t1 g, 0%nat)] []) as [[|]|]; try congruence. reflexivity.
  Qed.
End Fuel.

Print Assumptions Built_is_consistent.
