(* C02, round 2: block sparsity is an invariant of the single-site DMRG sweeps (Model/Sweeps.v: dmrg_singlesite), with the
   invariant [ZQ] and the per-call contracts [sp_tr_ok] of Proofs/Hist2Sweep.v.  In addition BL[0] stays [[[1]]] (it is never
   rewritten), which makes the final QR of a sweep -- it rebinds psi.qD[0] -- keep the invariant: the returned bond charges are
   non-empty and not longer than the old first bond, hence of length one. *)
From Coq Require Import ZArith List Lia Bool Arith Ring.
From PT Require Import Base.Scalar Base.BigSum Base.Mx Model.Tensor Model.MPSOps Model.Operation Model.Sweeps.
From PT Require Import Proofs.MPSOpsBase Proofs.MPSOpsTop Proofs.MPSOpsShape Proofs.OperationSums Proofs.OperationEntries.
From PT Require Import Proofs.SweepsFlow Proofs.SweepsRun.
From PT Require Import Proofs.HistSparse Proofs.HistChain Proofs.Hist2Local Proofs.Hist2Sweep.
Import ListNotations.
Open Scope nat_scope.

Section SweepD.
  Variable R : cring.
  Notation mx := (mx R).
  Notation site := (site R). Notation osite := (osite R). Notation env := (env R).
  Notation sw := (sw R).
  Notation site_okP := (site_okP R). Notation osite_okP := (osite_okP R).
  Notation env_okP := (env_okP R). Notation bond_okP := (bond_okP R).

  Variable qr : nat -> mx -> list Z -> list Z -> mx * mx * list Z.
  Variable keig : nat -> env -> env -> osite -> site -> R * site.
  Variables (Hs : list osite) (qd : list Z) (qWs : list (list Z)).
  Notation L := (length Hs).
  Notation qW j := (nth j qWs []).
  (* the TDVP oracles do not occur in DMRG traces *)
  Let kexp : nat -> env -> env -> osite -> site -> R -> site := fun _ _ _ _ A _ => A.
  Let kexp0 : nat -> env -> env -> mx -> R -> mx := fun _ _ _ C _ => C.
  Notation ZQi := (ZQ R Hs qd qWs).
  Notation tr_ok := (sp_tr_ok R qr kexp kexp0 keig Hs qd qWs (k0 R) (k0 R)).

  Hypothesis Hd : 0 < length qd.
  Hypothesis HWs : chainP (osite_okP qd) qWs Hs.
  Hypothesis HWpos : forall j, j <= L -> 0 < length (qW j).
  Hypothesis HW0 : qW 0 = [0%Z].

  (* ---------- generic moves of the invariant (components of the new state given by equations) ---------- *)
  Lemma ZQ_set_site (st st' : sw) i A' : ZQi st i -> i < L ->
    site_okP qd (gq st i) (gq st (S i)) A' ->
    s_A st' = lset (s_A st) i A' -> s_qD st' = s_qD st -> s_BL st' = s_BL st -> s_BR st' = s_BR st -> ZQi st' i.
  Proof.
    intros (lA & lq & lBL & lBR & HA & HBL & HBR) Hi HA' EA Eq EBL EBR. unfold ZQ, gq, gA, gBL, gBR in *.
    rewrite EA, Eq, EBL, EBR, lset_length. repeat (split; [assumption|]). split; [|split; assumption].
    intros j Hj. destruct (Nat.eq_dec i j) as [<-|Hne].
    - rewrite nth_lset_same by lia. exact HA'.
    - rewrite nth_lset_other by exact Hne. apply HA. exact Hj.
  Qed.

  Lemma ZQ_move_right (st st' : sw) i Aq An qb BLn : ZQi st i -> S i < L ->
    site_okP qd (gq st i) qb Aq -> site_okP qd qb (gq st (S (S i))) An -> env_okP qb (qW (S i)) qb BLn ->
    s_A st' = lset (lset (s_A st) i Aq) (S i) An -> s_qD st' = lset (s_qD st) (S i) qb ->
    s_BL st' = lset (s_BL st) (S i) BLn -> s_BR st' = s_BR st -> ZQi st' (S i).
  Proof.
    intros (lA & lq & lBL & lBR & HA & HBL & HBR) HSi HAq HAn HBLn EA Eq EBL EBR. unfold ZQ, gq, gA, gBL, gBR in *.
    rewrite EA, Eq, EBL, EBR, !lset_length. repeat (split; [assumption|]).
    assert (Gq : forall j, nth j (lset (s_qD st) (S i) qb) [] = if Nat.eqb j (S i) then qb else nth j (s_qD st) []).
    { intros j. destruct (Nat.eqb j (S i)) eqn:E.
      - apply Nat.eqb_eq in E. subst j. apply nth_lset_same. lia.
      - apply Nat.eqb_neq in E. apply nth_lset_other. lia. }
    split; [|split].
    - intros j Hj. rewrite !Gq. destruct (Nat.eq_dec j (S i)) as [->|N1].
      + rewrite nth_lset_same by (rewrite lset_length; lia). rewrite Nat.eqb_refl.
        replace (Nat.eqb (S (S i)) (S i)) with false by (symmetry; apply Nat.eqb_neq; lia). exact HAn.
      + rewrite nth_lset_other by lia. replace (Nat.eqb j (S i)) with false by (symmetry; apply Nat.eqb_neq; lia).
        destruct (Nat.eq_dec j i) as [->|N2].
        * rewrite nth_lset_same by lia. rewrite Nat.eqb_refl. exact HAq.
        * rewrite nth_lset_other by lia. replace (Nat.eqb (S j) (S i)) with false by (symmetry; apply Nat.eqb_neq; lia). apply HA. exact Hj.
    - intros j Hj. rewrite !Gq. destruct (Nat.eq_dec j (S i)) as [->|N1].
      + rewrite nth_lset_same by lia. rewrite Nat.eqb_refl. exact HBLn.
      + rewrite nth_lset_other by lia. replace (Nat.eqb j (S i)) with false by (symmetry; apply Nat.eqb_neq; lia). apply HBL. lia.
    - intros j Hj1 Hj2. rewrite !Gq. replace (Nat.eqb (S j) (S i)) with false by (symmetry; apply Nat.eqb_neq; lia). apply HBR; lia.
  Qed.

  Lemma ZQ_move_left (st st' : sw) i Aq Ap qb BRn : ZQi st i -> 0 < i -> i < L ->
    site_okP qd qb (gq st (S i)) Aq -> site_okP qd (gq st (i - 1)) qb Ap -> env_okP qb (qW i) qb BRn ->
    s_A st' = lset (lset (s_A st) i Aq) (i - 1) Ap -> s_qD st' = lset (s_qD st) i qb ->
    s_BL st' = s_BL st -> s_BR st' = lset (s_BR st) (i - 1) BRn -> ZQi st' (i - 1).
  Proof.
    intros (lA & lq & lBL & lBR & HA & HBL & HBR) Hi0 Hi HAq HAp HBRn EA Eq EBL EBR. unfold ZQ, gq, gA, gBL, gBR in *.
    rewrite EA, Eq, EBL, EBR, !lset_length. repeat (split; [assumption|]).
    assert (ESi : S (i - 1) = i) by lia.
    assert (Gq : forall j, nth j (lset (s_qD st) i qb) [] = if Nat.eqb j i then qb else nth j (s_qD st) []).
    { intros j. destruct (Nat.eqb j i) eqn:E.
      - apply Nat.eqb_eq in E. subst j. apply nth_lset_same. lia.
      - apply Nat.eqb_neq in E. apply nth_lset_other. lia. }
    split; [|split].
    - intros j Hj. rewrite !Gq. destruct (Nat.eq_dec j (i - 1)) as [->|N1].
      + rewrite nth_lset_same by (rewrite lset_length; lia). rewrite ESi, Nat.eqb_refl.
        replace (Nat.eqb (i - 1) i) with false by (symmetry; apply Nat.eqb_neq; lia). exact HAp.
      + rewrite nth_lset_other by lia. destruct (Nat.eq_dec j i) as [->|N2].
        * rewrite nth_lset_same by lia. rewrite Nat.eqb_refl. replace (Nat.eqb (S i) i) with false by (symmetry; apply Nat.eqb_neq; lia). exact HAq.
        * rewrite nth_lset_other by lia. replace (Nat.eqb j i) with false by (symmetry; apply Nat.eqb_neq; lia).
          replace (Nat.eqb (S j) i) with false by (symmetry; apply Nat.eqb_neq; lia). apply HA. exact Hj.
    - intros j Hj. rewrite !Gq. replace (Nat.eqb j i) with false by (symmetry; apply Nat.eqb_neq; lia). apply HBL. lia.
    - intros j Hj1 Hj2. rewrite !Gq. destruct (Nat.eq_dec j (i - 1)) as [->|N1].
      + rewrite nth_lset_same by lia. rewrite ESi, Nat.eqb_refl. exact HBRn.
      + rewrite nth_lset_other by lia. replace (Nat.eqb (S j) i) with false by (symmetry; apply Nat.eqb_neq; lia). apply HBR; lia.
  Qed.

  (* ---------- the loop bodies ---------- *)
  Definition ZD (i : nat) (se : sw * R) : Prop := ZQi (fst se) i /\ gBL (fst se) 0 = env_one.

  Lemma dmrg_lr_sp (se : sw * R) i : ZD i se -> S i < L ->
    tr_ok (s_tr (fst (dmrg1_lr qr keig Hs qd se i))) -> ZD (S i) (dmrg1_lr qr keig Hs qd se i).
  Proof.
    intros [HZ HB0] HSi Hok. destruct se as [st en0]. cbn [fst] in *.
    pose proof HZ as HZu. unfold ZQ in HZu. destruct HZu as (lA & lq & lBL & lBR & HA & HBL & HBR).
    unfold dmrg1_lr, lift, upd_BL, dmrg_qr_left, dmrg_opt in *. cbv zeta in *. cbn [fst snd] in *.
    destruct (keig (length (s_tr st)) (gBL st i) (gBR st i) (nth i Hs []) (gA st i)) as [en A1] eqn:Ek. cbn [fst snd s_tr s_A s_qD s_BL s_BR] in *.
    set (sta := mksw (lset (s_A st) i A1) (s_qD st) (s_BL st) (s_BR st)
                     (mkt (mkcall EIG i 0) [gBL st i; gBR st i] [gA st i] [] :: s_tr st)) in *.
    assert (GAa : gA sta i = A1) by (unfold gA, sta; cbn [s_A]; apply nth_lset_same; lia).
    assert (GAb : gA sta (S i) = gA st (S i)) by (unfold gA, sta; cbn [s_A]; apply nth_lset_other; lia).
    change (gq sta i) with (gq st i) in *. change (gq sta (S i)) with (gq st (S i)) in *.
    cbn [length] in Hok |- *.
    pose proof (qr_left_sp R qr qd Hd (S (length (s_tr st))) (gA sta i) (gq st i) (gq st (S i))) as Hq.
    unfold qr_left in *. cbv zeta in *.
    destruct (qr (S (length (s_tr st))) (site_flat (gA sta i)) (qflat qd (gq st i)) (gq st (S i))) as [[Q C] qb] eqn:Eq.
    cbn [fst snd s_tr s_A s_qD s_BL s_BR] in *. destruct Hok as (_ & HcQ & HcK & _).
    unfold sp_call_ok in HcQ, HcK. cbn [at_site t_call c_kind c_site c_coef t_envs t_ten t_qs length] in HcQ, HcK.
    rewrite Eq in HcQ.
    rewrite Ek in HcK. cbn [snd] in HcK.
    assert (HA1 : site_okP qd (gq st i) (gq st (S i)) (gA sta i)).
    { rewrite GAa. apply HcK; [apply HA; lia|apply HBL; lia|apply HBR; lia]. }
    destruct (Hq HA1 HcQ) as (HAq & HC & Hwf & Hp & Hle).
    set (Aq := site_unflat (length (gA sta i)) (sdl (gA sta i)) Q) in *.
    assert (HAn : site_okP qd qb (gq st (S (S i))) (lmul_site C (gA sta (S i)))).
    { rewrite GAb. apply (lmul_site_okP R qd Hd qb (gq st (S i))); [exact HC|apply HA; lia]. }
    match goal with |- ZD _ (?s, _) => set (stf := s) end.
    assert (HBLn : env_okP qb (qW (S i)) qb (contraction_operator_step_left Aq Aq (nth i Hs []) (gBL st i))).
    { apply (opstep_left_okP R qd (qW i) (qW (S i)) (nth i Hs []) Hd (HWpos i ltac:(lia)) (HWpos (S i) ltac:(lia))
               (HW_at R Hs qd qWs HWs i ltac:(lia)) (gq st i) qb (gq st i) qb); [exact HAq|exact HAq|apply HBL; lia]. }
    split.
    - apply (ZQ_move_right st stf i Aq (lmul_site C (gA sta (S i))) qb (contraction_operator_step_left Aq Aq (nth i Hs []) (gBL st i)) HZ HSi HAq HAn HBLn).
      + unfold stf. cbn [s_A]. unfold sta at 1. cbn [s_A]. rewrite lset_lset. reflexivity.
      + reflexivity.
      + unfold stf, gA, gBL. cbn [s_BL s_A]. rewrite !(nth_lset_other _ (S i) i) by lia.
        rewrite !nth_lset_same by (rewrite ?lset_length; lia). reflexivity.
      + reflexivity.
    - unfold stf, gBL. cbn [fst s_BL]. rewrite nth_lset_other by lia. exact HB0.
  Qed.

  Lemma dmrg_rl_sp (se : sw * R) i : ZD i se -> 0 < i -> i < L ->
    tr_ok (s_tr (fst (dmrg1_rl qr keig Hs qd se i))) -> ZD (i - 1) (dmrg1_rl qr keig Hs qd se i).
  Proof.
    intros [HZ HB0] Hi0 Hi Hok. destruct se as [st en0]. cbn [fst] in *.
    pose proof HZ as HZu. unfold ZQ in HZu. destruct HZu as (lA & lq & lBL & lBR & HA & HBL & HBR).
    unfold dmrg1_rl, lift, upd_BR, dmrg_qr_right, dmrg_opt in *. cbv zeta in *. cbn [fst snd] in *.
    destruct (keig (length (s_tr st)) (gBL st i) (gBR st i) (nth i Hs []) (gA st i)) as [en A1] eqn:Ek. cbn [fst snd s_tr s_A s_qD s_BL s_BR] in *.
    set (sta := mksw (lset (s_A st) i A1) (s_qD st) (s_BL st) (s_BR st)
                     (mkt (mkcall EIG i 0) [gBL st i; gBR st i] [gA st i] [] :: s_tr st)) in *.
    assert (GAa : gA sta i = A1) by (unfold gA, sta; cbn [s_A]; apply nth_lset_same; lia).
    assert (GAb : gA sta (i - 1) = gA st (i - 1)) by (unfold gA, sta; cbn [s_A]; apply nth_lset_other; lia).
    change (gq sta i) with (gq st i) in *. change (gq sta (S i)) with (gq st (S i)) in *.
    cbn [length] in Hok |- *.
    pose proof (qr_right_sp R qr qd Hd (S (length (s_tr st))) (gA sta i) (gq st i) (gq st (S i))) as Hq.
    unfold qr_right in *. cbv zeta in *.
    destruct (qr (S (length (s_tr st))) (site_flat (site_tr (gA sta i))) (qflat qd (zneg (gq st (S i)))) (zneg (gq st i))) as [[Q C] qb0] eqn:Eq.
    cbn [fst snd s_tr s_A s_qD s_BL s_BR] in *. destruct Hok as (_ & HcQ & HcK & _).
    unfold sp_call_ok in HcQ, HcK. cbn [at_site t_call c_kind c_site c_coef t_envs t_ten t_qs length] in HcQ, HcK.
    rewrite Eq in HcQ.
    rewrite Ek in HcK. cbn [snd] in HcK.
    assert (HA1 : site_okP qd (gq st i) (gq st (S i)) (gA sta i)).
    { rewrite GAa. apply HcK; [apply HA; lia|apply HBL; lia|apply HBR; lia]. }
    destruct (Hq HA1 HcQ) as (HAq & HCt & Hp & Hle).
    set (qb := zneg qb0) in *.
    set (Aq := site_tr (site_unflat (length (site_tr (gA sta i))) (sdl (site_tr (gA sta i))) Q)) in *.
    assert (ESi : S (i - 1) = i) by lia.
    assert (HAp : site_okP qd (gq st (i - 1)) qb (rmul_site (gA sta (i - 1)) (trmx C))).
    { rewrite GAb. apply (rmul_site_okP R qd Hd (gq st (i - 1)) (gq st i) qb); [|exact HCt]. rewrite <- ESi at 2. apply HA. lia. }
    match goal with |- ZD _ (?s, _) => set (stf := s) end.
    assert (HBRn : env_okP qb (qW i) qb (contraction_operator_step_right Aq Aq (nth i Hs []) (gBR st i))).
    { apply (opstep_right_okP R qd (qW i) (qW (S i)) (nth i Hs []) Hd (HWpos i ltac:(lia)) (HWpos (S i) ltac:(lia))
               (HW_at R Hs qd qWs HWs i Hi) qb (gq st (S i)) qb (gq st (S i))); [exact HAq|exact HAq|apply HBR; lia]. }
    split.
    - apply (ZQ_move_left st stf i Aq (rmul_site (gA sta (i - 1)) (trmx C)) qb (contraction_operator_step_right Aq Aq (nth i Hs []) (gBR st i))
               HZ Hi0 Hi HAq HAp HBRn).
      + unfold stf. cbn [s_A]. unfold sta at 1. cbn [s_A]. rewrite lset_lset. reflexivity.
      + reflexivity.
      + reflexivity.
      + unfold stf, gA, gBR. cbn [s_BR s_A]. rewrite !(nth_lset_other _ (i - 1) i) by lia.
        rewrite !nth_lset_same by (rewrite ?lset_length; lia). reflexivity.
    - unfold stf, gBL. cbn [fst s_BL]. exact HB0.
  Qed.

  (* psi.A[0], _, psi.qD[0] = local_orthonormalize_right_qr(psi.A[0], [[[1]]], ...) *)
  Lemma dmrg_final_sp (st : sw) : ZQi st 0 -> gBL st 0 = env_one -> 1 <= L ->
    tr_ok (s_tr (dmrg_final_qr qr qd st)) -> ZQi (dmrg_final_qr qr qd st) 0 /\ gBL (dmrg_final_qr qr qd st) 0 = env_one.
  Proof.
    intros HZ HB0 HL1 Hok. pose proof HZ as HZu. unfold ZQ in HZu. destruct HZu as (lA & lq & lBL & lBR & HA & HBL & HBR).
    unfold dmrg_final_qr in *.
    pose proof (qr_right_sp R qr qd Hd (length (s_tr st)) (gA st 0) (gq st 0) (gq st 1)) as Hq.
    unfold qr_right in *. cbv zeta in *.
    destruct (qr (length (s_tr st)) (site_flat (site_tr (gA st 0))) (qflat qd (zneg (gq st 1))) (zneg (gq st 0))) as [[Q C] qb0] eqn:Eq.
    cbn [s_tr s_A s_qD s_BL s_BR] in *. destruct Hok as (HcQ & _).
    unfold sp_call_ok in HcQ. cbn [at_site t_call c_kind c_site c_coef t_envs t_ten t_qs length] in HcQ. rewrite Eq in HcQ.
    destruct (Hq (HA 0 ltac:(lia)) HcQ) as (HAq & _ & Hp & Hle).
    set (qb := zneg qb0) in *.
    (* the first bond has dimension one: BL[0] = [[[1]]] is a block of shape (D0, 1, D0) *)
    assert (H01 : length (gq st 0) = 1).
    { destruct (HBL 0 (le_n 0)) as [[_ Hsh] _]. rewrite HB0 in Hsh. destruct (Hsh 0 (HWpos 0 ltac:(lia))) as [E _].
      symmetry. exact E. }
    destruct (len1_single qb ltac:(lia)) as [x Ex].
    split; [|exact HB0].
    unfold ZQ, gq, gA, gBL, gBR in *. cbn [s_A s_qD s_BL s_BR]. rewrite !lset_length. repeat (split; [assumption|]).
    assert (Gq : forall j, nth j (lset (s_qD st) 0 qb) [] = if Nat.eqb j 0 then qb else nth j (s_qD st) []).
    { intros j. destruct (Nat.eqb j 0) eqn:E.
      - apply Nat.eqb_eq in E. subst j. apply nth_lset_same. lia.
      - apply Nat.eqb_neq in E. apply nth_lset_other. lia. }
    split; [|split].
    - intros j Hj. rewrite !Gq. destruct j as [|j].
      + rewrite nth_lset_same by lia. cbn [Nat.eqb]. exact HAq.
      + rewrite nth_lset_other by lia. cbn [Nat.eqb]. apply HA. exact Hj.
    - intros j Hj. assert (j = 0) as -> by lia. rewrite Gq. cbn [Nat.eqb]. rewrite HB0, HW0, Ex. apply env_one_okP.
    - intros j _ Hj. rewrite !Gq. cbn [Nat.eqb]. apply HBR; lia.
  Qed.

  (* ---------- one sweep, any number of sweeps ---------- *)
  Notation trse := (fun se : sw * R => s_tr (fst se)).
  Lemma suf_dmrg1_sweep' st : exists new, s_tr (fst (dmrg1_sweep qr keig Hs qd L st)) = new ++ s_tr st.
  Proof.
    unfold dmrg1_sweep, lift. cbv zeta. cbn [fst].
    set (se1 := fold_left (dmrg1_lr qr keig Hs qd) (seq 0 (L - 1)) (st, k0 R)).
    set (se2 := fold_left (dmrg1_rl qr keig Hs qd) (rev (seq 1 (L - 1))) se1).
    destruct (fold_mono (fun se => s_tr (fst se)) (dmrg1_lr qr keig Hs qd) (suf_dmrg1_lr R qr keig Hs qd) (seq 0 (L - 1)) (st, k0 R)) as [n1 E1].
    destruct (fold_mono (fun se => s_tr (fst se)) (dmrg1_rl qr keig Hs qd) (suf_dmrg1_rl R qr keig Hs qd) (rev (seq 1 (L - 1))) se1) as [n2 E2].
    fold se1 in E1. fold se2 in E2. cbn [fst] in E1.
    unfold dmrg_final_qr, qr_right. cbv zeta. destruct (qr _ _ _ _) as [[Q C] qb]. cbn [s_tr].
    rewrite E2, E1. eexists (_ :: n2 ++ n1). cbn [app]. rewrite app_assoc. reflexivity.
  Qed.
  Lemma suf_dmrg1_loop n : forall st ens, exists new, s_tr (fst (dmrg_loop (dmrg1_sweep qr keig Hs qd L) n st ens)) = new ++ s_tr st.
  Proof.
    induction n as [|n IH]; intros st ens; cbn [dmrg_loop]; [exists []; reflexivity|].
    destruct (suf_dmrg1_sweep' st) as [n1 E1]. destruct (dmrg1_sweep qr keig Hs qd L st) as [st' en]. cbn [fst] in E1.
    destruct (IH st' (ens ++ [en])) as [n2 E2]. exists (n2 ++ n1). rewrite E2, E1, app_assoc. reflexivity.
  Qed.
  Lemma dmrg_sweep_sp (st : sw) : 1 <= L -> ZQi st 0 -> gBL st 0 = env_one ->
    tr_ok (s_tr (fst (dmrg1_sweep qr keig Hs qd L st))) ->
    ZQi (fst (dmrg1_sweep qr keig Hs qd L st)) 0 /\ gBL (fst (dmrg1_sweep qr keig Hs qd L st)) 0 = env_one.
  Proof.
    intros HL1 HZ HB0 Hok. unfold dmrg1_sweep, lift in *. cbv zeta in *. cbn [fst] in *.
    set (se1 := fold_left (dmrg1_lr qr keig Hs qd) (seq 0 (L - 1)) (st, k0 R)) in *.
    set (se2 := fold_left (dmrg1_rl qr keig Hs qd) (rev (seq 1 (L - 1))) se1) in *.
    assert (Hok2 : tr_ok (s_tr (fst se2))).
    { unfold dmrg_final_qr, qr_right in Hok. cbv zeta in Hok. destruct (qr _ _ _ _) as [[Q C] qb]. cbn [s_tr] in Hok. exact (proj2 Hok). }
    assert (Hok1 : tr_ok (s_tr (fst se1))).
    { destruct (fold_mono trse (dmrg1_rl qr keig Hs qd) (suf_dmrg1_rl R qr keig Hs qd) (rev (seq 1 (L - 1))) se1) as [new E].
      fold se2 in E. cbn beta in E. rewrite E in Hok2. exact (sp_tr_ok_suffix _ _ _ _ _ _ _ _ _ _ _ _ Hok2). }
    assert (H1 : ZD (0 + (L - 1)) se1).
    { unfold se1.
      apply (fold_up trse (dmrg1_lr qr keig Hs qd) (suf_dmrg1_lr R qr keig Hs qd) tr_ok
               (sp_tr_ok_suffix R qr kexp kexp0 keig Hs qd qWs (k0 R) (k0 R)) ZD (L - 1) 0 (st, k0 R)); [split; assumption|exact Hok1|].
      intros i s' Hi HZi Hoki. apply dmrg_lr_sp; [exact HZi|lia|exact Hoki]. }
    cbn [Nat.add] in H1.
    assert (H2 : ZD 0 se2).
    { unfold se2.
      apply (fold_down trse (dmrg1_rl qr keig Hs qd) (suf_dmrg1_rl R qr keig Hs qd) tr_ok
               (sp_tr_ok_suffix R qr kexp kexp0 keig Hs qd qWs (k0 R) (k0 R)) ZD (L - 1) 0 se1 H1 Hok2).
      intros i s' Hi HZi Hoki. apply dmrg_rl_sp; [exact HZi|lia|lia|exact Hoki]. }
    destruct H2 as [HZ2 HB2]. apply dmrg_final_sp; assumption.
  Qed.

  Lemma dmrg_loop_sp n : forall st ens, 1 <= L -> ZQi st 0 -> gBL st 0 = env_one ->
    tr_ok (s_tr (fst (dmrg_loop (dmrg1_sweep qr keig Hs qd L) n st ens))) ->
    ZQi (fst (dmrg_loop (dmrg1_sweep qr keig Hs qd L) n st ens)) 0.
  Proof.
    induction n as [|n IH]; intros st ens HL1 HZ HB0 Hok; cbn [dmrg_loop] in *; [exact HZ|].
    pose proof (dmrg_sweep_sp st HL1 HZ HB0) as Hs1.
    destruct (suf_dmrg1_loop n (fst (dmrg1_sweep qr keig Hs qd L st)) (ens ++ [snd (dmrg1_sweep qr keig Hs qd L st)])) as [new E].
    destruct (dmrg1_sweep qr keig Hs qd L st) as [st' en]. cbn [fst snd] in *.
    rewrite E in Hok. destruct (Hs1 (sp_tr_ok_suffix _ _ _ _ _ _ _ _ _ _ _ _ Hok)) as [HZ' HB'].
    rewrite <- E in Hok. apply IH; assumption.
  Qed.
End SweepD.
