(* Link 4c: the zero-site (bond) effective operator as a one-site operator,
     <Cy | K_eff Cx> = < Cy.A | H_eff (Cx.A) >   with the right block one step further out,
   and the neighbour facts of the sweep invariant needed to use it. *)
From Coq Require Import ZArith Arith List Lia Ring Setoid Bool.
From PT Require Import Base.Scalar Base.BigSum Base.Mx Model.Tensor Model.Operation Model.Sweeps
  Proofs.OperationSums Proofs.OperationEntries Proofs.OperationChains Proofs.OperationTransfer Proofs.OperationLocal Proofs.OperationUniform
  Proofs.SweepsCanon Proofs.SweepsFlow Proofs.SweepsLocal Proofs.SweepsGauge Proofs.SweepsBond Proofs.SweepsInv.
Import ListNotations.

Section BondAsSite.
  Variable R : cring.
  Add Ring Rring_lbond : (k_rt R).
  Notation site := (site R).
  Notation osite := (osite R).
  Notation env := (env R).
  Notation mx := (mx R).

  Lemma bond_as_site d k Da Dar Dwl Dwr (L E : env) (W : osite) (A : site) (Cx Cy : mx) :
    0 < d -> 0 < Dwl -> 0 < Dwr -> env_ok Dwl k k L -> env_ok Dwr Dar Dar E -> osite_ok d Dwl Dwr W -> site_ok d Da Dar A ->
    nr Cx = k -> nc Cx = Da -> nr Cy = k -> nc Cy = Da ->
    frob Cy (apply_local_bond_contraction L (contraction_operator_step_right A A W E) Cx) =
    site_dot (cmul_site Cy A) (apply_local_hamiltonian L E W (cmul_site Cx A)).
  Proof.
    intros Hd Hwl Hwr HL HE HW HA c1 c2 c3 c4.
    assert (HXc : site_ok d k Dar (cmul_site Cx A)) by (apply (cmul_site_ok R d k Da); assumption).
    assert (HYc : site_ok d k Dar (cmul_site Cy A)) by (apply (cmul_site_ok R d k Da); assumption).
    rewrite (heff_pairing R d k Dar k Dar Dwl Dwr) by assumption.
    rewrite (bond_pairing_rect R Dwl k Da k Da); try assumption.
    2: { apply (shape_opstep_right R d Da Dar Da Dar Dwl Dwr); assumption. }
    unfold pair3. apply sumn_ext; intros w Hw. apply sumn_ext; intros a Ha. apply sumn_ext; intros b Hb. f_equal.
    symmetry. apply (opstep_right_absorb_rect R d k Da Dar k Da Dar Dwl Dwr); assumption.
  Qed.

  Variable Hs : list osite.
  Variable d : nat.
  Notation L := (length Hs).

  Lemma skipn_nth_cons {T} (l : list T) n dflt : n < length l -> skipn n l = nth n l dflt :: skipn (S n) l.
  Proof. revert n; induction l as [|a l IH]; intros [|n] Hn; cbn [length] in Hn; try lia; [reflexivity|]. cbn [skipn nth]. apply IH. lia. Qed.

  (* the right neighbour of the centre, and the right block of the centre as one more step *)
  Lemma Z_right_neighbour (st : sw R) i : Z R Hs d st i -> S i < L ->
    exists Da D2, site_ok d Da D2 (gA st (S i)) /\ (forall Dl Dr, site_ok d Dl Dr (gA st i) -> 0 < d -> Dr = Da) /\
      gBR st i = contraction_operator_step_right (gA st (S i)) (gA st (S i)) (nth (S i) Hs []) (gBR st (S i)).
  Proof.
    intros (Al & X & Ar & DsAl & Dar & DsAr & EA & Hlen & HL & HAl & Hh & HX & HAr & Hli & Hri & HBL & HBR & lBL & lBR) HSi.
    subst i. destruct Ar as [|B Ar']; [cbn [length] in HL; lia|].
    cbn [length repeat] in HAr, HL. apply chain_ok_cons_inv in HAr.
    destruct HAr as (d0 & ds' & Dl0 & D2 & DsAr' & E1 & E2 & _ & HB & HAr'). injection E1 as <- <-. injection E2 as <- ->.
    assert (GA : gA st (length Al) = X) by (unfold gA; rewrite EA; apply nth_middle).
    assert (GB : gA st (S (length Al)) = B) by (unfold gA; rewrite EA; apply nth_app_mid2).
    exists Dar, D2. rewrite GA, GB. split; [exact HB|]. split.
    - intros Dl Dr HX' Hd. destruct (site_ok_sdl R d _ _ X Hd HX) as (_ & E2 & _). destruct (site_ok_sdl R d _ _ X Hd HX') as (_ & E4 & _). congruence.
    - pose proof (HBR 0 ltac:(lia)) as E0. rewrite Nat.add_0_r in E0. pose proof (HBR 1 ltac:(cbn [length]; lia)) as E1.
      rewrite Nat.add_1_r in E1.
      change (skipn 0 (B :: Ar')) with (B :: Ar') in E0. change (skipn 1 (B :: Ar')) with Ar' in E1. rewrite E0, E1.
      rewrite (skipn_nth_cons Hs (S (length Al)) []) by lia. reflexivity.
  Qed.
End BondAsSite.
