(* C02, round 4 (3): WHEN the Krylov-based local solvers return.

   The sparsity theorems for the concrete solvers (Proofs/Hist2Solvers.v, Hist2Top.v lz_tr_sp, Hist3Top.v lz2_tr_sp) carry the
   hypothesis "the call returns" ([kexp_lanczos_returns] etc.: the Krylov routine underneath does not raise).  The model of
   pytenet/krylov.py raises in exactly two places, both at the top of lanczos_iteration:
         nrmv = np.linalg.norm(vstart);  assert nrmv > 0          and          numiter >= 1 (otherwise alpha[0] is out of range)
   so a call returns IFF numiter >= 1 and the value numpy.linalg.norm answers for the flattened start tensor is positive
   ([*_returns_iff_norm]: no contract at all), and under numpy.linalg.norm's contract ON THAT ONE CALL (answer >= 0, square =
   sum of |entries|^2) IFF numiter >= 1 and the start tensor is not zero ([*_returns_iff]).  For the repaired eigensolver
   (numiter capped by Astart.size) the same statement holds with the same right-hand side.  Trace level: [nz_tr_lz],
   [nz2_tr_lz2]: the hypothesis "solver calls return" of the history theorem is "numiter >= 1 and every start tensor handed to a
   solver is not zero". *)
From Coq Require Import ZArith List Lia Bool Arith Ring Field.
From PT Require Import Base.Scalar Base.Field Base.BigSum Base.Mx Model.Tensor Model.MPSOps Model.Operation Model.Krylov Model.Sweeps.
From PT Require Import Proofs.OperationEntries Proofs.KrylovVec Proofs.KrylovLanczos Proofs.LinkFlatten Proofs.LinkLocalOps Proofs.LinkSolvers Proofs.LinkSolversCap.
From PT Require Import Proofs.HistSparse Proofs.HistChain Proofs.Hist2Local Proofs.Hist2Solvers Proofs.Hist2SolversCap Proofs.Hist2Sweep Proofs.Hist2Top Proofs.Hist3Sweep2 Proofs.Hist3Top.
Import ListNotations.
Open Scope nat_scope.

Section Returns.
  Variable F : ofield.
  Add Field Ffield_hist4ret : (f_ft F).
  Notation K := (Cx F).
  Notation vec := (list K).
  Variable dnorm : vec -> F.
  Variable small : F -> bool.
  Variable deigh : list F -> list F -> list F * list (list F).
  Variable dexp : K -> K.
  Variable dexpm : list (list K) -> list (list K).

  (* ---------- the Krylov routines ---------- *)
  Lemma lanczos_some_iff Af (v : vec) m : lanczos F Af dnorm small v m <> None <-> flt F (f0 F) (dnorm v) /\ 1 <= m.
  Proof.
    unfold lanczos, fltb, flt. cbv zeta. destruct (fleb F (dnorm v) (f0 F)); cbn [negb].
    - split; [intros H; contradiction H; reflexivity|intros [H _]; discriminate H].
    - destruct m as [|m]; split.
      + intros H. contradiction H. reflexivity.
      + intros [_ H]. lia.
      + intros _. split; [reflexivity|lia].
      + intros _. discriminate.
  Qed.
  Lemma eigh_some_iff Af (v : vec) m k : eigh_krylov F Af dnorm small deigh v m k <> None <-> lanczos F Af dnorm small v m <> None.
  Proof.
    unfold eigh_krylov. destruct (lanczos F Af dnorm small v m) as [[[[al be] Vs] wn]|]; [|tauto].
    destruct (deigh al be). split; intros _; discriminate.
  Qed.
  Lemma expm_h_some_iff Af (v : vec) dt m :
    expm_krylov F Af dnorm small deigh dexp dexpm v dt m true <> None <-> lanczos F Af dnorm small v m <> None.
  Proof.
    unfold expm_krylov, expm_krylov_h. destruct (lanczos F Af dnorm small v m) as [[[[al be] Vs] wn]|]; [|tauto].
    destruct (deigh al be). split; intros _; discriminate.
  Qed.

  (* numpy.linalg.norm's contract on one call: the answer is positive iff the vector is not zero *)
  Lemma norm_pos_iff (v : vec) r : norm_ok F (v, r) -> (flt F (f0 F) r <-> nrm2 v <> f0 F).
  Proof.
    unfold norm_ok. cbn [fst snd]. intros [H0 Hsq]. split.
    - intros Hr E. rewrite <- Hsq in E. apply (flt_neq F _ _ (fmul_pos F r r Hr Hr)). symmetry. exact E.
    - intros Hn. apply fle_neq_lt; [exact H0|]. intros E. apply Hn. rewrite <- Hsq, <- E. ring.
  Qed.

  (* a tensor of uniform shape: its flattening vanishes iff <A|A> = 0 *)
  Lemma site_nz_iff d Dl Dr (A : site K) : 0 < d -> OperationEntries.site_ok d Dl Dr A ->
    (nrm2 (site_vec F d Dl Dr A) <> f0 F <-> site_dot A A <> k0 K).
  Proof.
    intros Hd HA. rewrite (site_dot_via_vec F d Dl Dr Hd A A HA), vdot_self. change (k0 K) with (@cof F (f0 F)). split.
    - intros H E. apply H. apply (cof_inj F). exact E.
    - intros H E. apply H. rewrite E. reflexivity.
  Qed.

  Variable numiter : nat.
  Notation sv A := (site_vec F (length A) (sdl A) (sdr A) A).
  (* the start tensor as numpy sees it: an array, i.e. all matrices have the shape of the first *)
  Definition uniform (A : site K) : Prop := 0 < length A /\ OperationEntries.site_ok (length A) (sdl A) (sdr A) A.
  Definition start_ok (A : site K) : Prop := uniform A /\ norm_ok F (sv A, dnorm (sv A)) /\ site_dot A A <> k0 K.

  (* ---------- one-site / merged two-site Hamiltonian step and eigensolver ---------- *)
  Theorem kexp_returns_iff_norm BL BR W (A : site K) t :
    kexp_lanczos_returns F dnorm small deigh dexp dexpm numiter BL BR W A t <-> 1 <= numiter /\ flt F (f0 F) (dnorm (sv A)).
  Proof. unfold kexp_lanczos_returns. rewrite expm_h_some_iff, lanczos_some_iff. tauto. Qed.
  Theorem keig_returns_iff_norm BL BR W (A : site K) :
    keig_lanczos_returns F dnorm small deigh numiter BL BR W A <-> 1 <= numiter /\ flt F (f0 F) (dnorm (sv A)).
  Proof. unfold keig_lanczos_returns. rewrite eigh_some_iff, lanczos_some_iff. tauto. Qed.

  Lemma start_pos (A : site K) : uniform A -> norm_ok F (sv A, dnorm (sv A)) ->
    (flt F (f0 F) (dnorm (sv A)) <-> site_dot A A <> k0 K).
  Proof. intros [Hl HA] Hn. rewrite (norm_pos_iff _ _ Hn). apply site_nz_iff; assumption. Qed.

  Theorem kexp_returns_iff BL BR W (A : site K) t : uniform A -> norm_ok F (sv A, dnorm (sv A)) ->
    (kexp_lanczos_returns F dnorm small deigh dexp dexpm numiter BL BR W A t <-> 1 <= numiter /\ site_dot A A <> k0 K).
  Proof. intros HA Hn. rewrite kexp_returns_iff_norm, (start_pos A HA Hn). tauto. Qed.
  Theorem keig_returns_iff BL BR W (A : site K) : uniform A -> norm_ok F (sv A, dnorm (sv A)) ->
    (keig_lanczos_returns F dnorm small deigh numiter BL BR W A <-> 1 <= numiter /\ site_dot A A <> k0 K).
  Proof. intros HA Hn. rewrite keig_returns_iff_norm, (start_pos A HA Hn). tauto. Qed.

  (* ---------- bond step: C.reshape(-1) = [C].reshape(-1) ---------- *)
  Lemma uniform_one (C : mx K) : uniform [C].
  Proof. split; [cbn; lia|]. split; [reflexivity|]. intros s Hs. cbn [length] in Hs. assert (s = 0) as -> by lia. split; reflexivity. Qed.
  Theorem kexp0_returns_iff BL BR (C : mx K) t :
    norm_ok F (site_vec F 1 (nr C) (nc C) [C], dnorm (site_vec F 1 (nr C) (nc C) [C])) ->
    (kexp0_lanczos_returns F dnorm small deigh dexp dexpm numiter BL BR C t <-> 1 <= numiter /\ site_dot [C] [C] <> k0 K).
  Proof.
    intros Hn. unfold kexp0_lanczos_returns. rewrite expm_h_some_iff, lanczos_some_iff.
    pose proof (start_pos [C] (uniform_one C) Hn) as H. cbn [length] in H. change (sdl [C]) with (nr C) in H. change (sdr [C]) with (nc C) in H.
    rewrite H. tauto.
  Qed.

  (* ---------- the repaired eigensolver: numiter = min(numiter, Astart.size) ---------- *)
  Lemma nz_size (A : site K) : uniform A -> site_dot A A <> k0 K -> 1 <= site_size A.
  Proof.
    intros [Hl HA] Hnz. unfold site_size. destruct (length A * sdl A * sdr A) eqn:E; [|lia].
    exfalso. apply Hnz. unfold site_dot.
    destruct (Nat.eq_dec (sdl A) 0) as [E1|N1].
    - apply sumn_zero. intros s _. rewrite E1. reflexivity.
    - assert (E2 : sdr A = 0) by nia. apply sumn_zero. intros s _. apply sumn_zero. intros b _. rewrite E2. reflexivity.
  Qed.
  Theorem keig_cap_returns_iff BL BR W (A : site K) : uniform A -> norm_ok F (sv A, dnorm (sv A)) ->
    (keig_lanczos_cap_returns F dnorm small deigh numiter BL BR W A <-> 1 <= numiter /\ site_dot A A <> k0 K).
  Proof.
    intros HA Hn. unfold keig_lanczos_cap_returns, keig_lanczos_returns. rewrite eigh_some_iff, lanczos_some_iff, (start_pos A HA Hn).
    split.
    - intros [H1 H2]. split; [lia|exact H1].
    - intros [H1 H2]. split; [exact H2|]. pose proof (nz_size A HA H2). lia.
  Qed.

  (* ---------- traces: "solver calls return" = "numiter >= 1 and the start tensors are not zero" ---------- *)
  Variable qr : nat -> mx K -> list Z -> list Z -> mx K * mx K * list Z.
  Variable split : nat -> site K -> list Z -> list Z -> list Z -> list Z -> bool -> site K * site K * list Z.
  Variables (Hs : list (osite K)) (dt hdt : K).

  (* single-site sweeps *)
  Definition nz_call_ok (p : nat) (t : tcall K) : Prop :=
    let i := c_site (t_call t) in
    match c_kind (t_call t), t_envs t, t_ten t, t_qs t with
    | KH, [BL; BR], [A], _ => i < length Hs /\ start_ok A
    | EIG, [BL; BR], [A], _ => i < length Hs /\ start_ok A
    | KB, [BL; BR], [[C]], _ => S i <= length Hs /\ start_ok [C]
    | QR, _, [[M]], [q0; q1] => bond_okP K q0 q1 M -> qr_sp_ok K M q0 q1 (qr p M q0 q1)
    | _, _, _, _ => True
    end.
  Fixpoint nz_tr_ok (tr : list (tcall K)) : Prop :=
    match tr with [] => True | t :: rest => nz_call_ok (length rest) t /\ nz_tr_ok rest end.

  Hypothesis Hm : 1 <= numiter.

  Theorem nz_call_lz p t : nz_call_ok p t -> lz_call_ok F dnorm small deigh dexp dexpm numiter qr Hs dt hdt p t.
  Proof.
    unfold nz_call_ok, lz_call_ok. cbv zeta.
    destruct (c_kind (t_call t)); try exact (fun H => H);
      destruct (t_envs t) as [|BL [|BR [|? ?]]]; try exact (fun H => H);
      destruct (t_ten t) as [|A [|? ?]]; try exact (fun H => H).
    - intros [Hi (HA & Hn & Hnz)]. split; [exact Hi|]. apply kexp_returns_iff; [exact HA|exact Hn|split; assumption].
    - destruct A as [|C [|? ?]]; try exact (fun H => H). intros [Hi (HA & Hn & Hnz)]. split; [exact Hi|].
      apply kexp0_returns_iff; [exact Hn|split; assumption].
    - intros [Hi (HA & Hn & Hnz)]. split; [exact Hi|]. apply keig_returns_iff; [exact HA|exact Hn|split; assumption].
  Qed.
  Theorem nz_tr_lz tr : nz_tr_ok tr -> lz_tr_ok F dnorm small deigh dexp dexpm numiter qr Hs dt hdt tr.
  Proof. induction tr as [|t tr IH]; [exact (fun H => H)|]. intros [H1 H2]. split; [apply nz_call_lz; exact H1|apply IH; exact H2]. Qed.

  (* two-site sweeps: the merged start tensor *)
  Definition nz2_call_ok (p : nat) (t : tcall K) : Prop :=
    let i := c_site (t_call t) in
    match c_kind (t_call t), t_envs t, t_ten t, t_qs t with
    | KH2, [BL; BR], [Am], _ => S i < length Hs /\ start_ok Am
    | EIG2, [BL; BR], [Am], _ => S i < length Hs /\ start_ok Am
    | SPLITL, _, [Am], [q0; q1; q2; q3] =>
        site_okP K (Sweeps.qflat q0 q1) q2 q3 Am -> split_sp_ok K q0 q1 q2 q3 (split p Am q0 q1 q2 q3 true)
    | SPLITR, _, [Am], [q0; q1; q2; q3] =>
        site_okP K (Sweeps.qflat q0 q1) q2 q3 Am -> split_sp_ok K q0 q1 q2 q3 (split p Am q0 q1 q2 q3 false)
    | _, _, _, _ => nz_call_ok p t
    end.
  Fixpoint nz2_tr_ok (tr : list (tcall K)) : Prop :=
    match tr with [] => True | t :: rest => nz2_call_ok (length rest) t /\ nz2_tr_ok rest end.

  Theorem nz2_call_lz2 p t : nz2_call_ok p t -> lz2_call_ok F dnorm small deigh dexp dexpm numiter qr split Hs dt hdt p t.
  Proof.
    unfold nz2_call_ok, lz2_call_ok. cbv zeta. pose proof (nz_call_lz p t) as H1.
    destruct (c_kind (t_call t)); try exact H1;
      destruct (t_envs t) as [|BL [|BR [|? ?]]]; try exact H1;
      destruct (t_ten t) as [|A [|? ?]]; try exact H1;
      try (destruct (t_qs t) as [|q0 [|q1 [|q2 [|q3 [|? ?]]]]]; try exact H1; exact (fun H => H)).
    - intros [Hi (HA & Hn & Hnz)]. split; [exact Hi|]. apply kexp_returns_iff; [exact HA|exact Hn|split; assumption].
    - intros [Hi (HA & Hn & Hnz)]. split; [exact Hi|]. apply keig_returns_iff; [exact HA|exact Hn|split; assumption].
  Qed.
  Theorem nz2_tr_lz2 tr : nz2_tr_ok tr -> lz2_tr_ok F dnorm small deigh dexp dexpm numiter qr split Hs dt hdt tr.
  Proof. induction tr as [|t tr IH]; [exact (fun H => H)|]. intros [H1 H2]. split; [apply nz2_call_lz2; exact H1|apply IH; exact H2]. Qed.
End Returns.
