(* C17, the final simplify() of from_optrees: on a graph that is well formed (C16's WF) and levelled with
   terminal levels 0 and L, simplify returns a well-formed graph with the same meaning, the same terminals and
   the same length.  (The lifting through the loops of simplify repeats Proofs/CompactSimplify.v's [Shrink],
   extended by the end terminal; kept separate so that C17 does not depend on the C20 development.) *)
From Coq Require Import ZArith List Lia Bool Permutation.
From PT Require Import Base.Scalar Base.BigSum Model.OpGraph Model.Rewrites
                       Proofs.RewritesBase Proofs.RewritesMergeInv Proofs.RewritesMergeSame Proofs.RewritesMergeNode
                       Proofs.RewritesSimplify Proofs.RewritesAll Proofs.RewritesConsistent Proofs.C17LenBase.
Import ListNotations.
Open Scope Z_scope.

Section Simp.
  Variable R : cring.
  Notation graph := (graph R).

  Definition LV (g : graph) (lv : Z -> Z) : Prop := forall e, In e (g_edges g) -> lv (e_to e) = lv (e_from e) + 1.
  (* what a rewrite may do: node ids stay inside the old ones, same terminals, level functions stay valid *)
  Definition Keep (g g' : graph) : Prop :=
    (forall x, In x (nids R g') -> In x (nids R g)) /\ g_t0 g' = g_t0 g /\ g_t1 g' = g_t1 g /\ (forall lv, LV g lv -> LV g' lv).
  Lemma Keep_refl g : Keep g g.
  Proof. repeat split; auto. Qed.
  Lemma Keep_trans a b c : Keep a b -> Keep b c -> Keep a c.
  Proof. intros [A1 [A2 [A3 A4]]] [B1 [B2 [B3 B4]]]. repeat split; [auto|congruence|congruence|auto]. Qed.

  Lemma V1_id d base b n : n_id (V1 d base b n) = n_id n.
  Proof. unfold V1. destruct (n_id n =? base); [apply rm_id|reflexivity]. Qed.
  Lemma V3_id d m1 L2 n : n_id (V3 d m1 L2 n) = n_id n.
  Proof. unfold V3. destruct (n_id n =? m1); [apply ap_id|reflexivity]. Qed.

  Lemma merge_edges_Keep (g g' : graph) a b d : WF R g -> merge_edges g a b d = Some g' -> Keep g g'.
  Proof.
    intros W H.
    destruct (merge_edges_inv R g g' a b d W H) as [Hd [Hab [e1 [e2 [He1 [He2 [Ha [Hb [Hbase Hcase]]]]]]]]].
    destruct Hcase as [[Hup ->] | [Hup [Hop [n1 [n2 [Hn1 [Hn2 [Hid1 [Hid2 [S1 [S2 [Hq ->]]]]]]]]]]]].
    - unfold Keep, G_same, nids. cbn [g_nodes g_edges g_t0 g_t1]. split; [|split; [reflexivity|split; [reflexivity|]]].
      + intros x Hx. rewrite map_map in Hx. apply in_map_iff in Hx. destruct Hx as [n [<- Hn]].
        rewrite Vsame_id. apply in_map. exact Hn.
      + intros lv Hlv e' He'. apply in_map_iff in He'. destruct He' as [e [<- He]]. apply filter_In in He.
        rewrite Usame_from, Usame_to. apply Hlv. apply He.
    - unfold Keep, G_node, nids. cbn [g_nodes g_edges g_t0 g_t1]. split; [|split; [reflexivity|split; [reflexivity|]]].
      + intros x Hx. rewrite map_map in Hx. apply in_map_iff in Hx. destruct Hx as [n [<- Hn]].
        rewrite V3_id. apply filter_In in Hn. destruct Hn as [Hn _]. apply in_map_iff in Hn. destruct Hn as [n0 [<- Hn0]].
        rewrite V1_id. apply in_map. exact Hn0.
      + intros lv Hlv e' He'. apply in_map_iff in He'. destruct He' as [e [<- He]]. apply filter_In in He.
        apply redir_lv; [|apply Hlv; apply He].
        apply (lv_sibling R d e1 e2 lv Hd); [apply Hlv; exact He1|apply Hlv; exact He2|exact Hbase].
  Qed.

  Lemma step_fuel_Keep fuel : forall (g g' : graph) d nids0 c,
    WF R g -> simplify_step_fuel fuel g d nids0 = Some (c, g') -> Keep g g'.
  Proof.
    induction fuel as [|f IH]; intros g g' d nids0 c W H; [discriminate|].
    rewrite simplify_step_fuel_S in H. destruct (layer_pair g d nids0) as [[a b]|].
    - destruct (merge_edges g a b d) as [gm|] eqn:Hm; [|discriminate]. inversion H; subst.
      exact (merge_edges_Keep g g' a b d W Hm).
    - destruct (next_layer g d nids0) as [|z l].
      + inversion H; subst. apply Keep_refl.
      + exact (IH g g' d (z :: l) c W H).
  Qed.
  Lemma steps_dir_Keep fuel : forall (g g' : graph) d c, WF R g -> steps_dir fuel g d = Some (c, g') -> Keep g g'.
  Proof.
    induction fuel as [|f IH]; intros g g' d c W H; [discriminate|].
    rewrite steps_dir_S in H. destruct (simplify_step g d) as [[[|] g1]|] eqn:Hs; [| |discriminate].
    - destruct (simplify_step_ok R g g1 d true W Hs) as [W1 _].
      destruct (steps_dir f g1 d) as [[c2 g2]|] eqn:Hr; [|discriminate]. inversion H; subst.
      eapply Keep_trans; [exact (step_fuel_Keep _ g g1 d _ true W Hs)|exact (IH g1 g' d c2 W1 Hr)].
    - inversion H; subst. apply Keep_refl.
  Qed.
  Lemma steps_dir_WF' fuel (g g' : graph) d c : WF R g -> steps_dir fuel g d = Some (c, g') -> WF R g'.
  Proof. intros W H. exact (proj1 (steps_dir_spec R (merge_edges_WF R) (merge_edges_den R) (merge_edges_cnt R) fuel g g' d c W H)). Qed.
  Lemma simplify_fuel_Keep fuel : forall (g g' : graph), WF R g -> simplify_fuel fuel g = Some g' -> Keep g g'.
  Proof.
    induction fuel as [|f IH]; intros g g' W H; [discriminate|].
    rewrite simplify_fuel_S in H.
    destruct (steps_dir (S (length (g_edges g))) g 0) as [[c0 g0]|] eqn:H0; [|discriminate].
    pose proof (steps_dir_WF' _ g g0 0%nat c0 W H0) as W0.
    destruct (steps_dir (S (length (g_edges g0))) g0 1) as [[c1 g1]|] eqn:H1; [|discriminate].
    pose proof (steps_dir_WF' _ g0 g1 1%nat c1 W0 H1) as W1.
    pose proof (Keep_trans _ _ _ (steps_dir_Keep _ g g0 0%nat c0 W H0) (steps_dir_Keep _ g0 g1 1%nat c1 W0 H1)) as S01.
    destruct (c0 || c1).
    - eapply Keep_trans; [exact S01|exact (IH g1 g' W1 H)].
    - inversion H; subst. exact S01.
  Qed.
  Lemma simplify_Keep (g g' : graph) : WF R g -> simplify g = Some g' -> Keep g g'.
  Proof. intros W H. exact (simplify_fuel_Keep _ g g' W H). Qed.

  (* simplify on a built graph *)
  Theorem simplify_built (g g' : graph) L : Built R g L -> simplify g = Some g' ->
    WF R g' /\ (forall w, den g' w = den g w) /\ glength g' = Some L /\
    g_t0 g' = g_t0 g /\ g_t1 g' = g_t1 g /\
    (length (g_edges g') <= length (g_edges g))%nat /\ (length (g_nodes g') <= length (g_nodes g))%nat.
  Proof.
    intros HB H. pose proof (Built_WF R g L HB) as W.
    destruct (simplify_ok R g g' W H) as [W' [Hden [Hc1 Hc2]]].
    destruct (simplify_Keep g g' W H) as [K1 [K2 [K3 K4]]].
    destruct HB as [lv [P [B _]]].
    split; [exact W'|]. split; [exact Hden|]. split; [|auto].
    apply (WF_glength R g' lv L W').
    - destruct (wf_term0 R g' W') as [n0 [Hn0 [Hid0 _]]]. destruct (wf_term1 R g' W') as [n1 [Hn1 [Hid1 _]]].
      cbn [terminal] in Hid0, Hid1. constructor.
      + rewrite <- Hid0. apply in_map. exact Hn0.
      + rewrite <- Hid1. apply in_map. exact Hn1.
      + rewrite K2. apply B.
      + rewrite K3. apply B.
      + intros x Hx. apply (lb_b R g lv _ B). apply K1. exact Hx.
    - apply K4. intros e He. apply (pw_lev R g lv P e He).
  Qed.

  Theorem simplify_built_total (g : graph) L : Built R g L -> exists g', simplify g = Some g'.
  Proof. intros HB. apply simplify_terminates. eapply Built_WF; eauto. Qed.

  Theorem simplify_built_consistent (g g' : graph) L fuel b : Built R g L -> simplify g = Some g' ->
    is_consistent_fuel fuel g' = Some b -> b = true.
  Proof. intros HB H. apply WF_is_consistent_true. apply (simplify_built g g' L HB H). Qed.
End Simp.

Print Assumptions simplify_built.
Print Assumptions simplify_built_total.
