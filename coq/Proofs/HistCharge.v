(* C02, part (c): along a chain that satisfies the invariant every non-zero amplitude <w|psi> fixes the difference of the
   boundary charges:  qD[0][0] + sum_i qd[w_i] = qD[L][0].  Hence two chains with the same physical charges, the same
   leading charge and a common word of non-zero amplitude have the same trailing charge (and vice versa). *)
From Coq Require Import ZArith List Lia Bool Arith Ring.
From PT Require Import Base.Scalar Base.BigSum Base.Mx Model.Tensor Model.MPSOps.
From PT Require Import Proofs.MPSOpsBase Proofs.MPSOpsMul Proofs.MPSOpsTop Proofs.MPSOpsShape Proofs.HistSparse Proofs.HistChain.
Import ListNotations.
Open Scope nat_scope.

(* total physical charge of a word *)
Fixpoint wcharge (qd : list Z) (w : list nat) : Z :=
  match w with [] => 0%Z | s :: w' => (zget qd s + wcharge qd w')%Z end.

Section Charge.
  Variable R : cring.
  Notation mx := (mx R).
  Notation site := (site R).
  Notation mps := (mps R).
  Notation rO := (k0 R).

  Lemma mprod_charge qd : forall (As : list site) qDs w,
    chainP (site_okP R qd) qDs As -> length w = length As -> Forall (fun s => s < length qd) w ->
    forall a b, a < length (hd [] qDs) -> b < length (last qDs []) ->
    get (mprod (length (hd [] qDs)) (pick As w)) a b <> rO ->
    (zget (hd [] qDs) a + wcharge qd w = zget (last qDs []) b)%Z.
  Proof.
    induction As as [|A As IH]; intros qDs w HC HL Hw a b Ha Hb Hnz.
    - destruct qDs as [|q [|? ?]]; try contradiction HC. destruct w; [|discriminate HL].
      simpl in *. rewrite get_idmx in Hnz by assumption.
      destruct (Nat.eqb a b) eqn:E; [apply Nat.eqb_eq in E; subst b; lia|congruence].
    - destruct qDs as [|ql [|qr qs]]; [contradiction HC|contradiction HC|].
      apply chainP_cons in HC. destruct HC as [[SA HA] HC].
      destruct w as [|s w]; [discriminate HL|]. inversion Hw as [|? ? Hs Hw']; subst.
      rewrite last_cons_cons in Hb |- *. cbn [hd] in Ha, Hnz |- *.
      change (pick (A :: As) (s :: w)) with (sel A s :: pick As w) in Hnz.
      change (mprod (length ql) (sel A s :: pick As w)) with (mulmx (sel A s) (mprod (nc (sel A s)) (pick As w))) in Hnz.
      destruct (site_shape_sel R _ _ _ _ s SA Hs) as (_ & rM & cM).
      set (P := mprod (nc (sel A s)) (pick As w)) in *.
      destruct (Nat.lt_ge_cases b (nc P)) as [Hb2|Hb2].
      2:{ exfalso. apply Hnz. unfold mulmx. apply get_tab_out. right. exact Hb2. }
      rewrite get_mulmx in Hnz by (rewrite ?rM; assumption).
      apply sumn_nz in Hnz. destruct Hnz as (c & Hc & Hnz). rewrite cM in Hc.
      pose proof (HA s Hs a c Ha Hc (mul_nz_l R _ _ Hnz)) as E1.
      unfold P in Hnz. rewrite cM in Hnz.
      pose proof (IH (qr :: qs) w HC ltac:(simpl in HL; lia) Hw' c b Hc Hb (mul_nz_r R _ _ Hnz)) as E2.
      cbn [hd] in E2. simpl wcharge. lia.
  Qed.

  Theorem amp_charge (p : mps) (w : list nat) :
    mps_ok p = true -> length (hd [] (m_qD p)) = 1 -> length (last (m_qD p) []) = 1 ->
    length w = length (m_A p) -> Forall (fun s => s < length (m_qd p)) w -> amp (m_A p) w <> rO ->
    (zget (hd [] (m_qD p)) 0 + wcharge (m_qd p) w = zget (last (m_qD p) []) 0)%Z.
  Proof.
    intros Hok H1 H2 HL Hw Hnz. apply mps_ok_P in Hok. unfold amp in Hnz. rewrite <- H1 in Hnz.
    apply (mprod_charge (m_qd p) (m_A p) (m_qD p) w Hok HL Hw 0 0); [lia|lia|exact Hnz].
  Qed.

  Lemma single_eq (l l' : list Z) : length l = 1 -> length l' = 1 -> zget l 0 = zget l' 0 -> l = l'.
  Proof. destruct l as [|x [|? ?]], l' as [|y [|? ?]]; simpl; try discriminate. unfold zget. simpl. intros _ _ ->. reflexivity. Qed.

  (* same physical charges, a common word with non-zero amplitude, boundary bonds of dimension 1:
     equal leading charges <-> equal trailing charges *)
  Theorem boundary_charge_determined (p p' : mps) (w : list nat) :
    mps_ok p = true -> mps_ok p' = true -> m_qd p' = m_qd p -> length (m_A p') = length (m_A p) ->
    length (hd [] (m_qD p)) = 1 -> length (last (m_qD p) []) = 1 ->
    length (hd [] (m_qD p')) = 1 -> length (last (m_qD p') []) = 1 ->
    length w = length (m_A p) -> Forall (fun s => s < length (m_qd p)) w ->
    amp (m_A p) w <> rO -> amp (m_A p') w <> rO ->
    (hd [] (m_qD p') = hd [] (m_qD p) <-> last (m_qD p') [] = last (m_qD p) []).
  Proof.
    intros Hok Hok' Eqd EL H1 H2 H1' H2' HL Hw Hnz Hnz'.
    pose proof (amp_charge p w Hok H1 H2 HL Hw Hnz) as E.
    pose proof (amp_charge p' w Hok' H1' H2' ltac:(congruence) ltac:(rewrite Eqd; exact Hw) Hnz') as E'.
    rewrite Eqd in E'. split; intros Eq.
    - apply single_eq; try assumption. rewrite Eq in E'. lia.
    - apply single_eq; try assumption. rewrite Eq in E'. lia.
  Qed.
End Charge.
