(* Operator-coefficient lists of Model/OpGraph.v: [opics_add] adds coefficients, keeps the
   list strictly sorted, and [opics_eqb] decides equality. *)
From Coq Require Import ZArith List Lia Bool Permutation Ring.
From PT Require Import Base.Scalar Base.BigSum Model.OpGraph.
Import ListNotations.
Open Scope Z_scope.

Section Opics.
  Variable R : cring.
  Add Ring Rring_rwopics : (k_rt R).

  (* ---------- coefficients ---------- *)
  Lemma opics_coeff_insert o i c (l : list (Z * R)) :
    opics_coeff o (opics_insert R i c l) = kadd R (if i =? o then c else k0 R) (opics_coeff o l).
  Proof.
    unfold opics_coeff. induction l as [|[j d] t IH].
    - cbn [opics_insert suml fst snd]. reflexivity.
    - cbn [opics_insert]. destruct (i =? j) eqn:E.
      + apply Z.eqb_eq in E. subst j. rewrite suml_app. cbn [suml fst snd].
        destruct (i =? o); ring.
      + cbn [suml fst snd]. rewrite IH. ring.
  Qed.

  Lemma opics_coeff_fold o (b acc : list (Z * R)) :
    opics_coeff o (fold_left (fun acc p => opics_insert R (fst p) (snd p) acc) b acc)
    = kadd R (opics_coeff o acc) (opics_coeff o b).
  Proof.
    revert acc. induction b as [|[j d] t IH]; intros acc.
    - cbn [fold_left]. unfold opics_coeff at 3. cbn [suml]. ring.
    - cbn [fold_left]. rewrite IH. cbn [fst snd]. rewrite opics_coeff_insert.
      unfold opics_coeff at 4. cbn [suml fst snd]. fold (opics_coeff o t). ring.
  Qed.

  Lemma opics_sort_insert_perm p (l : list (Z * R)) : Permutation (opics_sort_insert R p l) (p :: l).
  Proof.
    induction l as [|q t IH].
    - cbn [opics_sort_insert]. apply Permutation_refl.
    - cbn [opics_sort_insert]. destruct (fst p <? fst q).
      + apply Permutation_refl.
      + eapply Permutation_trans; [apply perm_skip; exact IH|apply perm_swap].
  Qed.

  Lemma opics_sort_perm (l : list (Z * R)) : Permutation (opics_sort R l) l.
  Proof.
    induction l as [|p t IH].
    - apply Permutation_refl.
    - unfold opics_sort. cbn [fold_right]. fold (opics_sort R t).
      eapply Permutation_trans; [apply opics_sort_insert_perm|apply perm_skip; exact IH].
  Qed.

  Lemma opics_coeff_sort o (l : list (Z * R)) : opics_coeff o (opics_sort R l) = opics_coeff o l.
  Proof. unfold opics_coeff. apply suml_permutation. apply opics_sort_perm. Qed.

  Lemma opics_coeff_add (a b : list (Z * R)) o :
    opics_coeff o (opics_add a b) = kadd R (opics_coeff o a) (opics_coeff o b).
  Proof. unfold opics_add. rewrite opics_coeff_sort. apply opics_coeff_fold. Qed.

  (* ---------- sortedness ---------- *)
  Lemma sorted_opics_cons p (t : list (Z * R)) :
    sorted_opics (p :: t) = true -> Forall (fun q => fst p < fst q) t /\ sorted_opics t = true.
  Proof.
    revert p. induction t as [|q t' IH]; intros p Hs.
    - split; [constructor|reflexivity].
    - cbn [sorted_opics] in Hs. apply andb_true_iff in Hs. destruct Hs as [Hlt Hs'].
      apply Z.ltb_lt in Hlt. split; [|exact Hs'].
      constructor; [exact Hlt|].
      destruct (IH q Hs') as [Hall _].
      eapply Forall_impl; [|exact Hall]. intros r Hr. cbv beta in Hr. lia.
  Qed.

  Lemma sorted_opics_nodup (l : list (Z * R)) : sorted_opics l = true -> NoDup (map fst l).
  Proof.
    induction l as [|p t IH]; intros Hs.
    - constructor.
    - destruct (sorted_opics_cons p t Hs) as [Hall Hs'].
      cbn [map]. constructor; [|apply IH; exact Hs'].
      intros Hin. apply in_map_iff in Hin. destruct Hin as [q [Hq Hin]].
      rewrite Forall_forall in Hall. specialize (Hall q Hin). lia.
  Qed.

  Lemma opics_insert_keys i c (l : list (Z * R)) k :
    In k (map fst (opics_insert R i c l)) -> k = i \/ In k (map fst l).
  Proof.
    induction l as [|[j d] t IH]; intros Hin.
    - cbn [opics_insert map fst In] in Hin. destruct Hin as [Hk|[]]. left. symmetry. exact Hk.
    - cbn [opics_insert] in Hin. destruct (i =? j) eqn:E.
      + rewrite map_app in Hin. apply in_app_or in Hin. destruct Hin as [Hin|Hin].
        * right. cbn [map]. right. exact Hin.
        * cbn [map fst In] in Hin. destruct Hin as [Hk|[]]. left. symmetry. exact Hk.
      + cbn [map fst In] in Hin. destruct Hin as [Hk|Hin].
        * right. cbn [map fst In]. left. exact Hk.
        * destruct (IH Hin) as [Hk|Hk]; [left; exact Hk|right; cbn [map In]; right; exact Hk].
  Qed.

  Lemma opics_insert_nodup i c (l : list (Z * R)) :
    NoDup (map fst l) -> NoDup (map fst (opics_insert R i c l)).
  Proof.
    induction l as [|[j d] t IH]; intros Hnd.
    - cbn [opics_insert map fst]. constructor; [intros []|constructor].
    - cbn [map fst] in Hnd. inversion Hnd as [|x xs Hnotin Hnd']. subst x xs.
      cbn [opics_insert]. destruct (i =? j) eqn:E.
      + apply Z.eqb_eq in E. subst j. rewrite map_app. cbn [map fst].
        eapply Permutation_NoDup; [apply Permutation_cons_append|].
        constructor; assumption.
      + apply Z.eqb_neq in E. cbn [map fst]. constructor; [|apply IH; exact Hnd'].
        intros Hin. apply opics_insert_keys in Hin. destruct Hin as [Hk|Hk].
        * apply E. symmetry. exact Hk.
        * apply Hnotin. exact Hk.
  Qed.

  Lemma opics_fold_nodup (b acc : list (Z * R)) :
    NoDup (map fst acc) ->
    NoDup (map fst (fold_left (fun acc p => opics_insert R (fst p) (snd p) acc) b acc)).
  Proof.
    revert acc. induction b as [|p t IH]; intros acc Hnd.
    - exact Hnd.
    - cbn [fold_left]. apply IH. apply opics_insert_nodup. exact Hnd.
  Qed.

  Lemma opics_sort_insert_sorted p (l : list (Z * R)) :
    sorted_opics l = true -> ~ In (fst p) (map fst l) -> sorted_opics (opics_sort_insert R p l) = true.
  Proof.
    induction l as [|q t IH]; intros Hs Hnotin.
    - reflexivity.
    - cbn [opics_sort_insert]. destruct (fst p <? fst q) eqn:Epq.
      + change (sorted_opics (p :: q :: t)) with ((fst p <? fst q) && sorted_opics (q :: t)).
        rewrite Epq, Hs. reflexivity.
      + apply Z.ltb_ge in Epq.
        assert (Hqp : fst q < fst p).
        { assert (Hne : fst p <> fst q).
          { intros Heq. apply Hnotin. cbn [map In]. left. symmetry. exact Heq. }
          lia. }
        assert (Hnotin' : ~ In (fst p) (map fst t)).
        { intros Hin. apply Hnotin. cbn [map In]. right. exact Hin. }
        destruct t as [|r t'].
        * cbn [opics_sort_insert sorted_opics]. apply Z.ltb_lt in Hqp. rewrite Hqp. reflexivity.
        * change (sorted_opics (q :: r :: t')) with ((fst q <? fst r) && sorted_opics (r :: t')) in Hs.
          apply andb_true_iff in Hs. destruct Hs as [Hqr Hs'].
          specialize (IH Hs' Hnotin').
          cbn [opics_sort_insert] in IH |- *.
          destruct (fst p <? fst r) eqn:Epr.
          -- change (sorted_opics (q :: p :: r :: t'))
               with ((fst q <? fst p) && sorted_opics (p :: r :: t')).
             apply Z.ltb_lt in Hqp. rewrite Hqp, IH. reflexivity.
          -- change (sorted_opics (q :: r :: opics_sort_insert R p t'))
               with ((fst q <? fst r) && sorted_opics (r :: opics_sort_insert R p t')).
             rewrite Hqr, IH. reflexivity.
  Qed.

  Lemma opics_sort_sorted (l : list (Z * R)) : NoDup (map fst l) -> sorted_opics (opics_sort R l) = true.
  Proof.
    induction l as [|p t IH]; intros Hnd.
    - reflexivity.
    - cbn [map] in Hnd. inversion Hnd as [|x xs Hnotin Hnd']. subst x xs.
      unfold opics_sort. cbn [fold_right]. fold (opics_sort R t).
      apply opics_sort_insert_sorted; [apply IH; exact Hnd'|].
      intros Hin. apply Hnotin.
      eapply Permutation_in; [|exact Hin].
      apply Permutation_map. apply opics_sort_perm.
  Qed.

  Lemma opics_add_sorted (a b : list (Z * R)) : sorted_opics a = true -> sorted_opics (opics_add a b) = true.
  Proof.
    intros Hs. unfold opics_add. apply opics_sort_sorted. apply opics_fold_nodup.
    apply sorted_opics_nodup. exact Hs.
  Qed.

  (* ---------- decidable equality ---------- *)
  Lemma opics_eqb_eq (a b : list (Z * R)) : opics_eqb a b = true -> a = b.
  Proof.
    revert b. induction a as [|[i c] a' IH]; intros b Hb; destruct b as [|[j d] b'].
    - reflexivity.
    - cbn [opics_eqb] in Hb. discriminate Hb.
    - cbn [opics_eqb] in Hb. discriminate Hb.
    - cbn [opics_eqb] in Hb. apply andb_true_iff in Hb. destruct Hb as [Hb Hrest].
      apply andb_true_iff in Hb. destruct Hb as [Hij Hcd].
      apply Z.eqb_eq in Hij. apply keqb_spec in Hcd. subst j d.
      rewrite (IH b' Hrest). reflexivity.
  Qed.
End Opics.

Print Assumptions opics_coeff_add.
Print Assumptions opics_add_sorted.
Print Assumptions opics_eqb_eq.
