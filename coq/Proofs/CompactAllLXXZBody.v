(* C20, all lattice sizes, XXZ family (heisenberg_xxz_mpo: charge step c = 2; heisenberg_xxz_spin1_mpo: c = 1), part 1:
   the half-chains in flight as explicit words.  With n sites to go (identity id 0, trailing identity included):
     b2 n m o1 o2 c  a two-site term o1 o2 (charge c between them) starting m sites ahead        (m + 2 <= n)
     b1 n m o        a one-site term o starting m sites ahead                                    (m + 1 <= n)
     bp n o2 c       the second half of a two-site term started at the previous site
     bd n            identities only
   [Fut c n]: the not yet started terms of the XXZ table, [Late c n]: started or finished ones.  Splitting off the first site. *)
From Coq Require Import ZArith List Lia Bool.
From PT Require Import Base.Scalar Model.FromOpchains Proofs.CompactAllLPart.
Import ListNotations.
Open Scope Z_scope.

Definition wbody : Type := (list Z * list Z)%type.
Definition zs (m : nat) : list Z := repeat 0 m.
Definition b2 (n m : nat) (o1 o2 c : Z) : wbody := (zs m ++ o1 :: o2 :: zs (n - 1 - m), zs m ++ 0 :: c :: 0 :: zs (n - 1 - m)).
Definition b1 (n m : nat) (o : Z) : wbody := (zs m ++ o :: zs (n - m), zs (S (S n))).
Definition bp (n : nat) (o c : Z) : wbody := (o :: zs n, c :: 0 :: zs n).
Definition bd (n : nat) : wbody := (zs (S n), zs (S (S n))).

Definition body (h : hchain) : wbody := (h_oids h, h_qnums h).
Definition tailb (b : wbody) : wbody := (tl (fst b), tl (snd b)).
Definition usig (b : wbody) : Z * Z * Z := (hd 0 (fst b), hd 0 (snd b), hd 0 (tl (snd b))).
Definition mkU (t : Z * Z * Z) (nid : Z) : unode := mku (fst (fst t)) (snd (fst t)) (snd t) nid.

Lemma split_u_sig h : split_u h = mkU (usig (body h)) (h_nidl h). Proof. reflexivity. Qed.
Lemma split_v_body h : body (split_v h) = tailb (body h). Proof. reflexivity. Qed.
Lemma split_v_eq h h' : body (split_v h) = body (split_v h') -> split_v h = split_v h'.
Proof. unfold body, split_v. cbn [h_oids h_qnums]. intros E. inversion E. reflexivity. Qed.
Lemma body_reh v nid : body (reh v nid) = body v. Proof. reflexivity. Qed.
Lemma nidl_reh v nid : h_nidl (reh v nid) = nid. Proof. reflexivity. Qed.
Lemma hchain_eta h : h = mkh (fst (body h)) (snd (body h)) (h_nidl h). Proof. destruct h; reflexivity. Qed.
Lemma mkU_inj t t' n n' : mkU t n = mkU t' n' -> t = t' /\ n = n'.
Proof. destruct t as [[a b] c], t' as [[a' b'] c']. unfold mkU. cbn [fst snd]. intros E. inversion E. auto. Qed.

Lemma zs_S m : zs (S m) = 0 :: zs m. Proof. reflexivity. Qed.
Lemma hd_zs_app m l : hd 0 (zs m ++ 0 :: l) = 0. Proof. destruct m; reflexivity. Qed.

(* ---- splitting off the first site ---- *)
Lemma T1 n m o1 o2 c : (S m + 2 <= S n)%nat -> tailb (b2 (S n) (S m) o1 o2 c) = b2 n m o1 o2 c /\ usig (b2 (S n) (S m) o1 o2 c) = (0, 0, 0).
Proof.
  intros H. unfold b2, tailb, usig. cbn [fst snd]. rewrite !zs_S. cbn [app tl hd].
  replace (S n - 1 - S m)%nat with (n - 1 - m)%nat by lia. rewrite hd_zs_app. auto.
Qed.
Lemma T2 n o1 o2 c : tailb (b2 (S n) 0 o1 o2 c) = bp n o2 c /\ usig (b2 (S n) 0 o1 o2 c) = (o1, 0, c).
Proof. unfold b2, bp, tailb, usig. cbn [fst snd zs repeat app tl hd]. replace (S n - 1 - 0)%nat with n by lia. auto. Qed.
Lemma T3 n m o : (S m + 1 <= S n)%nat -> tailb (b1 (S n) (S m) o) = b1 n m o /\ usig (b1 (S n) (S m) o) = (0, 0, 0).
Proof.
  intros H. unfold b1, tailb, usig. cbn [fst snd]. rewrite !zs_S. cbn [app tl hd].
  replace (S n - S m)%nat with (n - m)%nat by lia. destruct n as [|n]; [lia|]. rewrite !zs_S. auto.
Qed.
Lemma T4 n o : tailb (b1 (S n) 0 o) = bd n /\ usig (b1 (S n) 0 o) = (o, 0, 0).
Proof. unfold b1, bd, tailb, usig. cbn [fst snd]. rewrite !zs_S. cbn [zs repeat app tl hd]. replace (S n - 0)%nat with (S n) by lia. auto. Qed.
Lemma T5 n o c : tailb (bp (S n) o c) = bd n /\ usig (bp (S n) o c) = (o, c, 0).
Proof. unfold bp, bd, tailb, usig. cbn [fst snd tl hd]. rewrite !zs_S. auto. Qed.
Lemma T6 n : tailb (bd (S n)) = bd n /\ usig (bd (S n)) = (0, 0, 0).
Proof. unfold bd, tailb, usig. cbn [fst snd]. rewrite !zs_S. cbn [tl hd]. auto. Qed.
Lemma bp_b1 n : bp n 2 0 = b1 n 0 2.
Proof. unfold bp, b1. cbn [zs repeat app]. rewrite Nat.sub_0_r. reflexivity. Qed.

Section XXZ.
  Variable c : Z.
  Hypothesis c_nz : c <> 0.

  Definition Fut (n : nat) (b : wbody) : Prop :=
    (exists m, (m + 2 <= n)%nat /\ (b = b2 n m 1 (-1) c \/ b = b2 n m (-1) 1 (- c) \/ b = b2 n m 2 2 0)) \/
    (exists m, (m + 1 <= n)%nat /\ b = b1 n m 2).
  Definition Late (n : nat) (b : wbody) : Prop :=
    b = bp n (-1) c \/ b = bp n 1 (- c) \/ b = bp n 2 0 \/ b = bd n.

  Definition sP : Z * Z * Z := (0, 0, 0).
  Definition sX : Z * Z * Z := (1, 0, c).
  Definition sY : Z * Z * Z := (-1, 0, - c).
  Definition sS : Z * Z * Z := (2, 0, 0).

  Lemma FutCase n b : Fut (S n) b ->
    (usig b = sP /\ Fut n (tailb b)) \/ (usig b = sX /\ tailb b = bp n (-1) c) \/ (usig b = sY /\ tailb b = bp n 1 (- c)) \/
    (usig b = sS /\ (tailb b = bp n 2 0 \/ tailb b = bd n)).
  Proof.
    intros [[m [Hm Hb]]|[m [Hm Hb]]].
    - destruct m as [|m].
      + destruct Hb as [Hb|[Hb|Hb]]; subst b.
        * right. left. destruct (T2 n 1 (-1) c) as [A B]. auto.
        * right. right. left. destruct (T2 n (-1) 1 (- c)) as [A B]. auto.
        * right. right. right. destruct (T2 n 2 2 0) as [A B]. auto.
      + left. assert (Hm' : (m + 2 <= n)%nat) by lia.
        destruct Hb as [Hb|[Hb|Hb]]; subst b; match goal with |- context [b2 (S n) (S m) ?a ?b' ?d] => destruct (T1 n m a b' d ltac:(lia)) as [A B] end;
          (split; [exact B|rewrite A; left; exists m; split; [exact Hm'|auto]]).
    - subst b. destruct m as [|m].
      + right. right. right. destruct (T4 n 2) as [A B]. auto.
      + left. destruct (T3 n m 2 ltac:(lia)) as [A B]. split; [exact B|]. rewrite A. right. exists m. split; [lia|reflexivity].
  Qed.
  Lemma FutUp n b' : Fut n b' -> exists b, Fut (S n) b /\ usig b = sP /\ tailb b = b'.
  Proof.
    intros [[m [Hm Hb]]|[m [Hm Hb]]].
    - destruct Hb as [Hb|[Hb|Hb]]; subst b'; match goal with |- context [b2 n m ?a ?b' ?d] => exists (b2 (S n) (S m) a b' d); destruct (T1 n m a b' d ltac:(lia)) as [A B] end;
        (split; [left; exists (S m); split; [lia|auto]|auto]).
    - subst b'. exists (b1 (S n) (S m) 2). destruct (T3 n m 2 ltac:(lia)) as [A B]. split; [right; exists (S m); split; [lia|reflexivity]|auto].
  Qed.
  Lemma LateCase n b : Late (S n) b -> tailb b = bd n.
  Proof. intros [H|[H|[H|H]]]; subst b; [apply T5|apply T5|apply T5|apply T6]. Qed.

  (* members *)
  Lemma Fut_X n : (1 <= n)%nat -> Fut (S n) (b2 (S n) 0 1 (-1) c).
  Proof. intros H. left. exists 0%nat. split; [lia|auto]. Qed.
  Lemma Fut_Y n : (1 <= n)%nat -> Fut (S n) (b2 (S n) 0 (-1) 1 (- c)).
  Proof. intros H. left. exists 0%nat. split; [lia|auto]. Qed.
  Lemma Fut_S2 n : (1 <= n)%nat -> Fut (S n) (b2 (S n) 0 2 2 0).
  Proof. intros H. left. exists 0%nat. split; [lia|auto]. Qed.
  Lemma Fut_S1 n : Fut (S n) (b1 (S n) 0 2).
  Proof. right. exists 0%nat. split; [lia|reflexivity]. Qed.
  Lemma Fut_one b : Fut 1 b -> b = b1 1 0 2.
  Proof. intros [[m [Hm _]]|[m [Hm ->]]]; [lia|]. replace m with 0%nat by lia. reflexivity. Qed.

  (* distinctness *)
  Lemma late_distinct n : NoDup [bp n (-1) c; bp n 1 (- c); bp n 2 0; bd n].
  Proof.
    unfold bp, bd. rewrite !zs_S. repeat constructor; cbn [In]; intros H; repeat (destruct H as [H|H]; [inversion H; lia|]); exact H.
  Qed.
  Lemma l1_not_late n : (1 <= n)%nat -> ~ Late (S n) (b2 (S n) 0 1 (-1) c).
  Proof.
    intros Hn. unfold Late, b2, bp, bd. rewrite !zs_S. cbn [zs repeat app].
    intros [H|[H|[H|H]]]; inversion H; lia.
  Qed.
  Lemma l2_not_late n : (1 <= n)%nat -> ~ Late (S n) (b2 (S n) 0 (-1) 1 (- c)).
  Proof.
    intros Hn. unfold Late, b2, bp, bd. rewrite !zs_S. cbn [zs repeat app].
    intros [H|[H|[H|H]]]; inversion H; lia.
  Qed.
  Lemma l1_l2 n : b2 n 0 1 (-1) c <> b2 n 0 (-1) 1 (- c).
  Proof. unfold b2. cbn [zs repeat app]. intros H. inversion H. Qed.

  Lemma sig_distinct : NoDup [sP; sX; sY; sS].
  Proof. unfold sP, sX, sY, sS. repeat constructor; cbn [In]; intros H; repeat (destruct H as [H|H]; [inversion H; lia|]); exact H. Qed.

  (* the same for n >= 2 without successor patterns *)
  Lemma Fut_l1 n : (2 <= n)%nat -> Fut n (b2 n 0 1 (-1) c).
  Proof. intros H. left. exists 0%nat. split; [lia|auto]. Qed.
  Lemma Fut_l2 n : (2 <= n)%nat -> Fut n (b2 n 0 (-1) 1 (- c)).
  Proof. intros H. left. exists 0%nat. split; [lia|auto]. Qed.
  Lemma l1_not_late' n : (2 <= n)%nat -> ~ Late n (b2 n 0 1 (-1) c).
  Proof. intros H. destruct n as [|n0]; [lia|]. apply l1_not_late. lia. Qed.
  Lemma l2_not_late' n : (2 <= n)%nat -> ~ Late n (b2 n 0 (-1) 1 (- c)).
  Proof. intros H. destruct n as [|n0]; [lia|]. apply l2_not_late. lia. Qed.
  Lemma Fut_c1 n : (1 <= n)%nat -> Fut n (bp n 2 0).
  Proof. intros H. rewrite bp_b1. right. exists 0%nat. split; [lia|reflexivity]. Qed.
  Lemma Fut_1_late b : Fut 1 b -> Late 1 b.
  Proof. intros H. rewrite (Fut_one b H), <- bp_b1. right. right. left. reflexivity. Qed.
End XXZ.
