(* C05 structure, part 6: the length of the returned graph.  Extra invariants of the site loop:
   partition converse (every half-chain's (i,j) is an edge with ulist[i] its U half), a consumed edge leaves an
   out-edge at u_nidl, every new node owns a [next] entry, node count.  Hence: following first out-edges from the
   start node one reaches the end node after exactly L steps (glength g = Some L), within the fuel. *)
From Coq Require Import ZArith List Lia Bool.
From PT Require Import Base.Scalar Base.BigSum Model.OpGraph Model.FromOpchains
                       Proofs.FromOpchainsGraph Proofs.FromOpchainsPart Proofs.FromOpchainsSem Proofs.FromOpchainsMain
                       Proofs.FromOpchainsThm Proofs.FromOpchainsOk1
                       Proofs.FromOpchainsWF1 Proofs.FromOpchainsWF2 Proofs.FromOpchainsWF3 Proofs.FromOpchainsWF4.
Import ListNotations.
Open Scope Z_scope.

Lemma premove_keep e x l : In x l -> x <> e -> In x (premove e l).
Proof.
  induction l as [|y l IH]; simpl; intros H Hne; [contradiction|].
  destruct (pair_eqb e y) eqn:E.
  - apply pair_eqb_eq in E. subst y. destruct H as [H|H]; [congruence|exact H].
  - destruct H as [H|H]; [left; exact H|right; apply IH; assumption].
Qed.
Lemma notin_premove e x l : ~ In x (premove e l) -> ~ In x l \/ x = e.
Proof.
  intros H. destruct (pair_eqb x e) eqn:E; [right; apply pair_eqb_eq; exact E|].
  left. intros Hin. apply H. apply premove_keep; [exact Hin|]. intros ->.
  rewrite (proj2 (pair_eqb_eq e e) eq_refl) in E. discriminate.
Qed.
Lemma filter_all_id {A} (f : A -> bool) l : (forall x, In x l -> f x = true) -> filter f l = l.
Proof.
  induction l as [|a l IH]; simpl; intros H; [reflexivity|]. rewrite (H a (or_introl eq_refl)). f_equal. apply IH.
  intros x Hx. apply H. right. exact Hx.
Qed.
Lemma filter_one_len (l : list gnode) (x : Z) : NoDup (map n_id l) ->
  (length l <= S (length (filter (fun n => negb (n_id n =? x)%Z) l)))%nat.
Proof.
  induction l as [|a l IH]; simpl; intros Hn; [lia|]. inversion Hn as [|? ? Ha Hl]; subst.
  destruct (n_id a =? x) eqn:E; simpl.
  - apply Z.eqb_eq in E. rewrite filter_all_id; [lia|]. intros y Hy. apply negb_true_iff, Z.eqb_neq. intros Ey.
    apply Ha. rewrite E, <- Ey. apply in_map. exact Hy.
  - specialize (IH Hl). lia.
Qed.

Section Len.
  Variable R : cring.
  Notation graph := (graph R).
  Notation gedge := (gedge R).
  Notation st := (st R).
  Notation part := (part R).

  (* ---- partition converse ---- *)
  Lemma part_step_conv (p : part) hc :
    (forall k u', nth_error (p_u p) k = Some u' -> nth_error (p_u (part_step p hc)) k = Some u') /\
    (forall e, In e (p_edges p) -> In e (p_edges (part_step p hc))) /\
    exists i j, In (i, j) (p_edges (part_step p hc)) /\ nth_error (p_u (part_step p hc)) i = Some (split_u (fst hc)).
  Proof.
    unfold part_step.
    set (u := split_u (fst hc)). set (v := split_v (fst hc)).
    assert (LU : exists ul i, (match index_of unode_eqb u (p_u p) with
                               | Some i => (p_u p, i) | None => (p_u p ++ [u], length (p_u p)) end) = (ul, i) /\
                 nth_error ul i = Some u /\ forall k u', nth_error (p_u p) k = Some u' -> nth_error ul k = Some u').
    { destruct (index_of unode_eqb u (p_u p)) as [i|] eqn:E.
      - exists (p_u p), i. split; [reflexivity|]. split; [|auto]. apply (index_of_Some unode_eqb u _ (unode_eqb_eq u)). exact E.
      - exists (p_u p ++ [u]), (length (p_u p)). split; [reflexivity|]. split; [apply nth_error_app_end|].
        intros k u' Hk. rewrite nth_error_app1; [exact Hk|]. apply nth_error_Some. congruence. }
    assert (LV : exists vl j, (match index_of hchain_eqb v (p_v p) with
                               | Some j => (p_v p, j) | None => (p_v p ++ [v], length (p_v p)) end) = (vl, j)).
    { destruct (index_of hchain_eqb v (p_v p)); eexists; eexists; reflexivity. }
    destruct LU as [ul [i [EU [Hi Hk]]]]. destruct LV as [vl [j EV]]. rewrite EU, EV.
    cbn beta iota zeta. unfold p_edges. cbn [p_u p_v p_gamma].
    assert (Keys : forall e, In e (map fst (p_gamma p)) \/ e = (i, j) -> In e (map fst (gamma_add (i, j) (snd hc) (p_gamma p)))).
    { intros e He. rewrite gamma_add_keys. destruct (pmem (i, j) (map fst (p_gamma p))) eqn:Em.
      - destruct He as [He| ->]; [exact He|apply pmem_In; exact Em].
      - apply in_app_iff. destruct He as [He| ->]; [left; exact He|right; left; reflexivity]. }
    split; [exact Hk|]. split; [intros e He; apply Keys; left; exact He|].
    exists i, j. split; [apply Keys; right; reflexivity|exact Hi].
  Qed.

  Lemma fold_part_conv : forall (hcs : list (hchain * R)) (p : part),
    (forall k u', nth_error (p_u p) k = Some u' -> nth_error (p_u (fold_left (@part_step R) hcs p)) k = Some u') /\
    (forall e, In e (p_edges p) -> In e (p_edges (fold_left (@part_step R) hcs p))) /\
    forall hc, In hc hcs -> exists i j, In (i, j) (p_edges (fold_left (@part_step R) hcs p)) /\
                                        nth_error (p_u (fold_left (@part_step R) hcs p)) i = Some (split_u (fst hc)).
  Proof.
    induction hcs as [|hc hcs IH]; intros p; cbn [fold_left].
    - split; [auto|]. split; [auto|]. intros hc [].
    - destruct (part_step_conv p hc) as [A [B [i [j [C D]]]]]. destruct (IH (part_step p hc)) as [A' [B' C']].
      split; [intros k u' Hk; apply A', A; exact Hk|]. split; [intros e He; apply B', B; exact He|].
      intros hc' [<-|Hin]; [|apply C'; exact Hin]. exists i, j. split; [apply B'; exact C|apply A'; exact D].
  Qed.

  Lemma site_partition_conv (hcs : list (hchain * R)) hc : In hc hcs ->
    exists i j, In (i, j) (p_edges (site_partition hcs)) /\ nth_error (p_u (site_partition hcs)) i = Some (split_u (fst hc)).
  Proof. intros H. unfold site_partition. destruct (fold_part_conv hcs (mkpart [] [] [])) as [_ [_ C]]. apply C. exact H. Qed.

  (* ---- monotone facts about the growing graph ---- *)
  Definition has_out (g : graph) (m : Z) : Prop := exists n, In n (g_nodes g) /\ n_id n = m /\ n_out n <> [].
  Definition nqr (g : graph) (m q : Z) : Prop := exists n, In n (g_nodes g) /\ n_id n = m /\ n_q n = q.
  Definition ext (g g' : graph) : Prop :=
    forall n, In n (g_nodes g) -> exists n', In n' (g_nodes g') /\ n_id n' = n_id n /\ n_q n' = n_q n /\ (n_out n <> [] -> n_out n' <> []).
  Lemma ext_refl g : ext g g.
  Proof. intros n Hn. exists n. auto. Qed.
  Lemma ext_trans g1 g2 g3 : ext g1 g2 -> ext g2 g3 -> ext g1 g3.
  Proof.
    intros H1 H2 n Hn. destruct (H1 n Hn) as [n2 [A [B [C D]]]]. destruct (H2 n2 A) as [n3 [A' [B' [C' D']]]].
    exists n3. split; [exact A'|]. split; [congruence|]. split; [congruence|]. intros X. apply D', D, X.
  Qed.
  Lemma has_out_ext g g' m : ext g g' -> has_out g m -> has_out g' m.
  Proof. intros He [n [A [B C]]]. destruct (He n A) as [n' [A' [B' [_ D']]]]. exists n'. split; [exact A'|]. split; [congruence|apply D', C]. Qed.
  Lemma nqr_ext g g' m q : ext g g' -> nqr g m q -> nqr g' m q.
  Proof. intros He [n [A [B C]]]. destruct (He n A) as [n' [A' [B' [C' _]]]]. exists n'. split; [exact A'|]. split; congruence. Qed.

  Lemma GS_node_uniq (g : graph) nb eb a b : GS R g nb eb -> In a (g_nodes g) -> In b (g_nodes g) -> n_id a = n_id b -> a = b.
  Proof.
    intros Hg Ha Hb E. pose proof (find_node_In_nd R g a (gs_nn R _ _ _ Hg) Ha) as F1.
    pose proof (find_node_In_nd R g b (gs_nn R _ _ _ Hg) Hb) as F2. rewrite E in F1. congruence.
  Qed.

  Lemma add_node5 (g : graph) n0 g1 : add_node g n0 = Some g1 -> g_nodes g1 = g_nodes g ++ [n0] /\ ext g g1.
  Proof.
    intros H. apply add_node_spec in H. destruct H as [-> _]. cbn [g_nodes]. split; [reflexivity|].
    intros n Hn. exists n. split; [apply in_app_iff; left; exact Hn|auto].
  Qed.

  Lemma connect5 (g : graph) nb eb a b o cf g1 np : GS R g nb eb -> find_node g a = Some np -> In b (ids R g) -> 0 <= a < b ->
    add_connect_edge g (new_edge eb a b [(o, cf)]) = Some g1 ->
    GS R g1 nb (eb + 1) /\ ids R g1 = ids R g /\ ext g g1 /\ has_out g1 a /\ length (g_nodes g1) = length (g_nodes g) /\
    g_edges g1 = g_edges g ++ [new_edge eb a b [(o, cf)]].
  Proof.
    intros Hg Fa Hb Hab Hc. destruct (ids_find R g b Hb) as [nbn Fb].
    destruct (GS_connect R g nb eb a b o cf g1 np nbn Hg Fa Fb Hab Hc) as [G1 [E1 [I1 [_ [_ [N1 N2]]]]]].
    split; [exact G1|]. split; [exact I1|]. split; [|split; [|split; [|exact E1]]].
    - intros n Hn. destruct (N2 n Hn) as [n1 [Hn1 [A1 [A2 [_ A4]]]]]. exists n1. split; [exact Hn1|]. split; [exact A1|]. split; [exact A2|].
      intros X Y. rewrite A4 in Y. apply app_eq_nil in Y. destruct Y as [Y _]. contradiction.
    - destruct (find_node_id R _ _ _ Fa) as [Eid Hnp]. destruct (N2 np Hnp) as [n1 [Hn1 [A1 [_ [_ A4]]]]].
      exists n1. split; [exact Hn1|]. split; [congruence|]. rewrite A4, Eid, Z.eqb_refl. intros Y. apply app_eq_nil in Y. destruct Y as [_ Y]. discriminate.
    - apply (f_equal (@length Z)) in I1. unfold ids in I1. rewrite !map_length in I1. exact I1.
  Qed.

  Section Site.
    Variables (g0 : graph) (nb0 : Z) (p : part).
    Hypothesis HU : Forall (fun u => 0 <= u_nidl u < nb0) (p_u p).
    Hypothesis HC : covered R p.

    Record H5 (c : st) : Prop := mkH5 {
      h5_4 : H4 R g0 nb0 p c;
      h5_ext : ext g0 (s_g c);
      h5_cnt : Z.of_nat (length (g_nodes (s_g c))) = s_nid c + 1;
      h5_ids : forall n, In n (g_nodes (s_g c)) -> In (n_id n) (ids R g0) \/ nb0 <= n_id n;
      h5_cons : forall i j u, In (i, j) (p_edges p) -> ~ In (i, j) (s_rem c) -> nth_error (p_u p) i = Some u -> has_out (s_g c) (u_nidl u);
      h5_own : forall n, In n (g_nodes (s_g c)) -> nb0 <= n_id n -> exists hc, In hc (s_next c) /\ h_nidl (fst hc) = n_id n;
      h5_prog : nb0 < s_nid c \/ s_rem c = p_edges p }.

    Lemma ids_node (g : graph) m : In m (ids R g) -> exists n, In n (g_nodes g) /\ n_id n = m.
    Proof. unfold ids. intros H. apply in_map_iff in H. destruct H as [n [E Hn]]. exists n. auto. Qed.
    Lemma node_ids (g : graph) n : In n (g_nodes g) -> In (n_id n) (ids R g).
    Proof. intros H. unfold ids. apply in_map. exact H. Qed.

    Lemma u_step_H5 c i c' : H5 c -> u_step p (Ok c) i = Ok c' -> H5 c'.
    Proof.
      intros [H4c Hext Hcnt Hids Hcons Hown Hprog] H.
      pose proof (u_step_H4 R g0 nb0 p HU c i c' H4c H) as H4c'.
      destruct H4c as [Hg Hnb Hz Hd Ho Hp Hnx].
      unfold u_step in H. cbn [bind] in H.
      destruct (nth_error (p_u p) i) as [u|] eqn:Eu; [|discriminate].
      assert (Hin : In u (p_u p)) by (eapply nth_error_In; exact Eu).
      assert (Hul : 0 <= u_nidl u < nb0). { rewrite Forall_forall in HU. apply HU. exact Hin. }
      set (eid := s_eid c) in *. set (nid := s_nid c) in *.
      set (enew := new_edge eid (u_nidl u) nid [(u_oid u, k1 R)]) in *.
      destruct (add_edge (s_g c) enew) as [g1|] eqn:Ea; [|discriminate].
      destruct (find_node g1 (u_nidl u)) as [np|] eqn:Fnp; [|discriminate].
      destruct (negb (n_q np =? u_q0 u)); [discriminate|].
      destruct (add_node (upd_node g1 (u_nidl u) (node_add_eid eid 1)) (mknode nid [eid] [] (u_q1 u))) as [g2|] eqn:En; [|discriminate].
      destruct (u_graph_eq R (s_g c) enew (u_nidl u) nid eid (u_q1 u) g1 g2 eq_refl eq_refl eq_refl ltac:(lia) Ea En) as [h [Eh Ec]].
      destruct (GS_add_node R _ _ _ _ _ Hg Eh) as [Gh [_ [Nh _]]].
      destruct (add_node5 _ _ _ Eh) as [_ Xh].
      assert (Fnp' : find_node h (u_nidl u) = Some np).
      { apply add_edge_spec in Ea. destruct Ea as [-> _]. change (find_node (s_g c) (u_nidl u) = Some np) in Fnp.
        apply add_node_spec in Eh. destruct Eh as [-> _]. unfold find_node in *. cbn [g_nodes]. rewrite find_app, Fnp. reflexivity. }
      assert (Ih : ids R h = ids R (s_g c) ++ [nid]). { unfold ids. rewrite Nh, map_app. reflexivity. }
      destruct (connect5 h (nid + 1) eid (u_nidl u) nid (u_oid u) (k1 R) g2 np Gh Fnp') as [G2 [I2 [X2 [O2 [L2 _]]]]];
        [rewrite Ih; apply in_app_iff; right; left; reflexivity|lia|exact Ec|].
      assert (Eids : ids R g2 = ids R (s_g c) ++ [nid]) by congruence.
      assert (X02 : ext (s_g c) g2) by (eapply ext_trans; eauto).
      set (UI := fun cc : st => s_g cc = g2 /\ s_nid cc = nid + 1 /\ s_eid cc = eid + 1 /\
                   (forall hc, In hc (s_next c) -> In hc (s_next cc)) /\
                   (forall i' j' u', In (i', j') (p_edges p) -> ~ In (i', j') (s_rem cc) -> nth_error (p_u p) i' = Some u' -> has_out g2 (u_nidl u'))).
      assert (Ustep : forall cc j cc', UI cc -> u_inner p i nid (Ok cc) j = Ok cc' ->
                        UI cc' /\ exists hc, In hc (s_next cc') /\ h_nidl (fst hc) = nid).
      { intros cc j cc' [E1 [E2 [E3 [E4 E5]]]] Hj. unfold u_inner in Hj. cbn [bind] in Hj.
        destruct (nth_error (p_v p) j) as [v|]; [|discriminate]. destruct (gamma_get (i, j) (p_gamma p)) as [cf|]; [|discriminate].
        destruct (pmem (i, j) (s_rem cc)); [|discriminate]. inversion Hj; subst cc'. unfold UI. cbn [s_g s_nid s_eid s_next s_rem].
        split; [|eexists; split; [apply in_app_iff; right; left; reflexivity|reflexivity]].
        split; [exact E1|]. split; [exact E2|]. split; [exact E3|]. split.
        - intros hc Hhc. apply in_app_iff. left. apply E4. exact Hhc.
        - intros i' j' u' Hij Hnot Hu'. destruct (notin_premove _ _ _ Hnot) as [A|A]; [apply (E5 i' j' u'); auto|].
          inversion A; subst i' j'. rewrite Eu in Hu'. inversion Hu'; subst u'. exact O2. }
      assert (UI0 : UI (mkst g2 (nid + 1) (eid + 1) (s_next c) (s_rem c))).
      { unfold UI. cbn [s_g s_nid s_eid s_next s_rem]. repeat split; auto.
        intros i' j' u' Hij Hnot Hu'. apply (has_out_ext _ _ _ X02). apply Hcons with (i := i') (j := j'); auto. }
      assert (Hil : (i < length (p_u p))%nat) by (apply nth_error_Some; congruence).
      destruct HC as [Cu _]. destruct (Cu i Hil) as [j0 Hj0].
      destruct (adj_u_spec (p_edges p) i) as [_ Hadj].
      destruct (adj_u (p_edges p) i) as [|ja rest] eqn:Eadj; [exfalso; apply (proj2 (Hadj j0)) in Hj0; destruct Hj0|].
      cbn [fold_left] in H.
      destruct (u_inner p i nid (Ok (mkst g2 (nid + 1) (eid + 1) (s_next c) (s_rem c))) ja) as [s1|er] eqn:E1;
        [|rewrite fold_res_err in H by reflexivity; discriminate].
      destruct (Ustep _ _ _ UI0 E1) as [U1 En1].
      set (UI2 := fun cc : st => UI cc /\ exists hc, In hc (s_next cc) /\ h_nidl (fst hc) = nid).
      assert (HUI : UI2 c').
      { refine (fold_res_inv (u_inner p i nid) UI2 (fun e b => eq_refl) _ _ _ _ _ H).
        - split; assumption.
        - intros cc j cc' _ [Ucc _] Hj. apply (Ustep cc j cc' Ucc Hj). }
      destruct HUI as [[E1' [E2' [E3' [E4' E5']]]] [hcn [Hhcn Ehcn]]].
      constructor.
      - exact H4c'.
      - rewrite E1'. eapply ext_trans; eauto.
      - rewrite E1', E2', L2, Nh, app_length. cbn [length]. lia.
      - intros n Hn. rewrite E1' in Hn. apply node_ids in Hn. rewrite Eids in Hn. apply in_app_iff in Hn.
        destruct Hn as [Hn|[Hn|[]]]; [|right; lia]. destruct (ids_node _ _ Hn) as [n0 [Hn0 En0]]. rewrite <- En0. apply Hids. exact Hn0.
      - rewrite E1'. exact E5'.
      - intros n Hn Hlo. rewrite E1' in Hn. apply node_ids in Hn. rewrite Eids in Hn. apply in_app_iff in Hn.
        destruct Hn as [Hn|[Hn|[]]].
        + destruct (ids_node _ _ Hn) as [n0 [Hn0 En0]]. rewrite <- En0 in Hlo. destruct (Hown n0 Hn0 Hlo) as [hc [A B]].
          exists hc. split; [apply E4'; exact A|congruence].
        + exists hcn. split; [exact Hhcn|congruence].
      - left. lia.
    Qed.

    Lemma v_step_H5 c j c' : H5 c -> v_step p (Ok c) j = Ok c' -> H5 c'.
    Proof.
      intros [H4c Hext Hcnt Hids Hcons Hown Hprog] H.
      pose proof (v_step_H4 R g0 nb0 p HU c j c' H4c H) as H4c'.
      destruct H4c as [Hg Hnb Hz Hd Ho Hp Hnx].
      unfold v_step in H. cbn [bind] in H.
      destruct (nth_error (p_v p) j) as [v|] eqn:Ev; [|discriminate].
      destruct (h_qnums v) as [|q qs] eqn:Eq; [discriminate|].
      set (nid := s_nid c) in *.
      destruct (add_node (s_g c) (mknode nid [] [] q)) as [g1|] eqn:En; [|discriminate].
      destruct (GS_add_node R _ _ _ _ _ Hg En) as [G1 [_ [N1 _]]].
      destruct (add_node5 _ _ _ En) as [_ X1].
      assert (I1 : ids R g1 = ids R (s_g c) ++ [nid]). { unfold ids. rewrite N1, map_app. reflexivity. }
      set (VI := fun cc : st => GS R (s_g cc) (nid + 1) (s_eid cc) /\ ids R (s_g cc) = ids R (s_g c) ++ [nid] /\ ext g1 (s_g cc) /\
                   length (g_nodes (s_g cc)) = length (g_nodes g1) /\
                   s_nid cc = nid + 1 /\ s_next cc = s_next c ++ [(mkh (h_oids v) (q :: qs) nid, k1 R)] /\
                   (forall i' j' u', In (i', j') (p_edges p) -> ~ In (i', j') (s_rem cc) -> nth_error (p_u p) i' = Some u' ->
                                     has_out (s_g cc) (u_nidl u'))).
      assert (HVI : VI c').
      { refine (fold_res_inv (v_inner p j nid q) VI (fun e b => eq_refl) _ _ _ _ _ H).
        - unfold VI. cbn [s_g s_nid s_eid s_next s_rem]. split; [exact G1|]. split; [exact I1|]. split; [apply ext_refl|].
          split; [reflexivity|]. split; [reflexivity|]. split; [reflexivity|].
          intros i' j' u' Hij Hnot Hu'. apply (has_out_ext _ _ _ X1). apply Hcons with (i := i') (j := j'); auto.
        - intros cc i cc' _ [V1 [V2 [V3 [V4 [V5 [V6 V7]]]]]] Hi. unfold v_inner in Hi. cbn [bind] in Hi.
          destruct (negb (pmem (i, j) (s_rem cc))); [inversion Hi; subst; unfold VI; auto 10|].
          destruct (nth_error (p_u p) i) as [u|] eqn:Eu; [|discriminate].
          assert (Hin : In u (p_u p)) by (eapply nth_error_In; exact Eu).
          assert (Hul : 0 <= u_nidl u < nb0). { rewrite Forall_forall in HU. apply HU. exact Hin. }
          destruct (gamma_get (i, j) (p_gamma p)) as [cf|]; [|discriminate].
          destruct (negb (u_q1 u =? q)); [discriminate|].
          destruct (find_node (s_g cc) (u_nidl u)) as [np|] eqn:Fnp; [|discriminate].
          destruct (negb (n_q np =? u_q0 u)); [discriminate|].
          destruct (add_connect_edge (s_g cc) (new_edge (s_eid cc) (u_nidl u) nid [(u_oid u, cf)])) as [g2|] eqn:Ec; [|discriminate].
          inversion Hi; subst cc'. clear Hi.
          destruct (connect5 (s_g cc) (nid + 1) (s_eid cc) (u_nidl u) nid (u_oid u) cf g2 np V1 Fnp) as [G2 [I2 [X2 [O2 [L2 _]]]]];
            [rewrite V2; apply in_app_iff; right; left; reflexivity|lia|exact Ec|].
          unfold VI. cbn [s_g s_nid s_eid s_next s_rem]. split; [exact G2|]. split; [rewrite I2; exact V2|].
          split; [eapply ext_trans; eauto|]. split; [congruence|]. split; [exact V5|]. split; [exact V6|].
          intros i' j' u' Hij Hnot Hu'. destruct (notin_premove _ _ _ Hnot) as [A|A].
          + apply (has_out_ext _ _ _ X2). apply V7 with (i' := i') (j' := j'); auto.
          + inversion A; subst i' j'. rewrite Eu in Hu'. inversion Hu'; subst u'. exact O2. }
      destruct HVI as [V1 [V2 [V3 [V4 [V5 [V6 V7]]]]]].
      constructor.
      - exact H4c'.
      - eapply ext_trans; [exact Hext|]. eapply ext_trans; eauto.
      - rewrite V4, V5, N1, app_length. cbn [length]. lia.
      - intros n Hn. apply node_ids in Hn. rewrite V2 in Hn. apply in_app_iff in Hn.
        destruct Hn as [Hn|[Hn|[]]]; [|right; lia]. destruct (ids_node _ _ Hn) as [n0 [Hn0 En0]]. rewrite <- En0. apply Hids. exact Hn0.
      - exact V7.
      - intros n Hn Hlo. apply node_ids in Hn. rewrite V2 in Hn. rewrite V6. apply in_app_iff in Hn.
        destruct Hn as [Hn|[Hn|[]]].
        + destruct (ids_node _ _ Hn) as [n0 [Hn0 En0]]. rewrite <- En0 in Hlo. destruct (Hown n0 Hn0 Hlo) as [hc [A B]].
          exists hc. split; [apply in_app_iff; left; exact A|congruence].
        + eexists. split; [apply in_app_iff; right; left; reflexivity|]. cbn. exact Hn.
      - left. lia.
    Qed.

    Lemma site_step_H5 cv s s' : H5 (mkst (s_g s) (s_nid s) (s_eid s) [] (p_edges p)) -> site_step p cv s = Ok s' ->
      H5 s' /\ s_rem s' = [].
    Proof.
      intros S0 H. unfold site_step in H.
      destruct (fold_left (v_step p) (snd cv) (fold_left (u_step p) (fst cv)
                  (Ok (mkst (s_g s) (s_nid s) (s_eid s) [] (p_edges p))))) as [s2|] eqn:E; [|discriminate].
      cbn [bind] in H. destruct (s_rem s2) eqn:Er; [|discriminate]. inversion H; subst s'. split; [|exact Er].
      destruct (fold_left (u_step p) (fst cv) (Ok (mkst (s_g s) (s_nid s) (s_eid s) [] (p_edges p)))) as [s1|er] eqn:EU;
        [|rewrite fold_res_err in E by reflexivity; discriminate].
      assert (S1 : H5 s1).
      { refine (fold_res_inv (u_step p) H5 (fun e b => eq_refl) _ _ _ S0 _ EU). intros a b a' _ Ha Hs. eapply u_step_H5; eauto. }
      refine (fold_res_inv (v_step p) H5 (fun e b => eq_refl) _ _ _ S1 _ E). intros a b a' _ Ha Hs. eapply v_step_H5; eauto.
    Qed.
  End Site.

  (* ---- the sweep ---- *)
  Definition HW5 (s : st) (t : nat) : Prop :=
    GS R (s_g s) (s_nid s) (s_eid s) /\ zero_ok R (s_g s) /\ dummy_ok R (s_g s) /\
    Z.of_nat (length (g_nodes (s_g s))) = s_nid s + 1 /\ Z.of_nat t + 1 <= s_nid s /\
    exists lv, layered_by R (s_g s) lv /\ lv 0 = 0 /\
      (forall n, In n (g_nodes (s_g s)) -> n_id n <> -1 -> 0 <= lv (n_id n) <= Z.of_nat t /\
          (n_out n <> [] \/ exists hc, In hc (s_next s) /\ h_nidl (fst hc) = n_id n)) /\
      Forall (fun hc : hchain * R => 0 <= h_nidl (fst hc) < s_nid s /\ lv (h_nidl (fst hc)) = Z.of_nat t /\
                exists n, In n (g_nodes (s_g s)) /\ n_id n = h_nidl (fst hc) /\ n_out n = []) (s_next s).

  Lemma site_HW5 cover s s' t : HW5 s t -> site cover s = Ok s' -> HW5 s' (S t).
  Proof.
    intros [Hg [Hz [Hd [Hcnt [Hnid [lv [Hl [Hl0 [Hnodes Hnx]]]]]]]]] H. unfold site in H. set (p := site_partition (s_next s)) in *.
    destruct (Nat.eqb (length (p_u p)) 0 || Nat.eqb (length (p_v p)) 0) eqn:Ene; [discriminate|].
    apply orb_false_iff in Ene. destruct Ene as [Ene _]. apply Nat.eqb_neq in Ene.
    destruct (site_partition_regroup R (s_next s)) as [_ [_ [HPU _]]]. fold p in HPU.
    destruct (site_partition_rel R (fun _ _ => True) (s_next s) (fun _ _ => I)) as [_ [HC _]]. fold p in HC.
    assert (HCV : forall hc, In hc (s_next s) -> exists i j, In (i, j) (p_edges p) /\ nth_error (p_u p) i = Some (split_u (fst hc))).
    { intros hc Hhc. apply site_partition_conv. exact Hhc. }
    assert (HU : Forall (fun u => 0 <= u_nidl u < s_nid s /\ lv (u_nidl u) = Z.of_nat t) (p_u p)).
    { apply HPU. intros hc Hh. rewrite Forall_forall in Hnx. destruct (Hnx hc Hh) as [A [B _]]. split; [exact A|exact B]. }
    assert (HU1 : Forall (fun u => 0 <= u_nidl u < s_nid s) (p_u p)) by (eapply Forall_impl; [|exact HU]; intros u [A _]; exact A).
    assert (Hne : p_edges p <> []).
    { destruct HC as [Cu _]. destruct (Cu 0%nat ltac:(lia)) as [j0 Hj0]. intros E. rewrite E in Hj0. destruct Hj0. }
    assert (S0 : H5 (s_g s) (s_nid s) p (mkst (s_g s) (s_nid s) (s_eid s) [] (p_edges p))).
    { constructor; cbn [s_g s_nid s_eid s_next s_rem].
      - constructor; cbn [s_g s_nid s_eid s_next]; auto; try lia.
        + intros n Hn Hl'. pose proof (gs_nb R _ _ _ Hg n Hn). lia.
        + intros e He. left. exact He.
      - apply ext_refl.
      - exact Hcnt.
      - intros n Hn. left. apply node_ids. exact Hn.
      - intros i j u Hij Hnot. contradiction.
      - intros n Hn Hlo. pose proof (gs_nb R _ _ _ Hg n Hn). lia.
      - right. reflexivity. }
    destruct (site_step_H5 (s_g s) (s_nid s) p HU1 HC _ s s' S0 H) as [[S4 Sext Scnt Sids Scons Sown Sprog] Srem].
    destruct S4 as [Sg Snb Sz Sd So Sp Snx].
    pose proof (zero_pos R _ _ _ Hg Hz) as Hpos.
    split; [exact Sg|]. split; [exact Sz|]. split; [exact Sd|]. split; [exact Scnt|]. split.
    { destruct Sprog as [A|A]; [rewrite Nat2Z.inj_succ; lia|]. rewrite Srem in A. exfalso. apply Hne. symmetry. exact A. }
    exists (fun m => if m <? s_nid s then lv m else Z.of_nat t + 1). split; [|split; [|split]].
    - intros e He. destruct (Sp e He) as [Hold|[[u [Hu Ef]] Ht]].
      + destruct (gs_eto R _ _ _ Hg e Hold) as [n1 [Hn1 [E1 _]]]. destruct (gs_efrom R _ _ _ Hg e Hold) as [n2 [Hn2 [E2 _]]].
        pose proof (gs_nb R _ _ _ Hg n1 Hn1). pose proof (gs_nb R _ _ _ Hg n2 Hn2).
        assert (X1 : (e_to e <? s_nid s) = true) by (apply Z.ltb_lt; lia). assert (X2 : (e_from e <? s_nid s) = true) by (apply Z.ltb_lt; lia).
        rewrite X1, X2. apply Hl. exact Hold.
      + rewrite Forall_forall in HU. destruct (HU u Hu) as [A B].
        assert (X1 : (e_to e <? s_nid s) = false) by (apply Z.ltb_ge; lia). assert (X2 : (e_from e <? s_nid s) = true) by (apply Z.ltb_lt; lia).
        rewrite X1, X2, Ef, B. reflexivity.
    - assert (X : (0 <? s_nid s) = true) by (apply Z.ltb_lt; lia). rewrite X. exact Hl0.
    - intros n' Hn' Hne'. destruct (Sids n' Hn') as [Hold|Hnew].
      + destruct (ids_node _ _ Hold) as [n [Hn En]]. pose proof (gs_nb R _ _ _ Hg n Hn) as Hb.
        assert (X : (n_id n' <? s_nid s) = true) by (apply Z.ltb_lt; lia). rewrite X.
        destruct (Hnodes n Hn ltac:(congruence)) as [Hr Hown]. rewrite En in Hr. split; [rewrite Nat2Z.inj_succ; lia|]. left.
        assert (Ho : has_out (s_g s') (n_id n')).
        { destruct Hown as [Hout|[hc [Hhc Ehc]]].
          - apply (has_out_ext _ _ _ Sext). exists n. auto.
          - destruct (HCV hc Hhc) as [i [j [Hij Hu]]].
            pose proof (Scons i j (split_u (fst hc)) Hij ltac:(rewrite Srem; intros []) Hu) as X0.
            change (u_nidl (split_u (fst hc))) with (h_nidl (fst hc)) in X0. rewrite Ehc, En in X0. exact X0. }
        destruct Ho as [n'' [Hn'' [En'' Ho]]]. rewrite <- (GS_node_uniq _ _ _ _ _ Sg Hn'' Hn' En''). exact Ho.
      + assert (X : (n_id n' <? s_nid s) = false) by (apply Z.ltb_ge; lia). rewrite X. split; [rewrite Nat2Z.inj_succ; lia|].
        right. apply Sown; assumption.
    - eapply Forall_impl; [|exact Snx]. intros hc [A B]. unfold ids in B. apply in_map_iff in B. destruct B as [n [E Hn]].
      pose proof (gs_nb R _ _ _ Sg n Hn).
      split; [lia|]. split.
      + assert (X : (h_nidl (fst hc) <? s_nid s) = false) by (apply Z.ltb_ge; lia). rewrite X. lia.
      + exists n. split; [exact Hn|]. split; [exact E|]. apply So; [exact Hn|lia].
  Qed.

  Lemma sweep_HW5 cover : forall n s s' t, HW5 s t -> sweep cover n s = Ok s' -> HW5 s' (t + n).
  Proof.
    induction n as [|n IH]; intros s s' t HS H; simpl in H.
    - inversion H; subst. rewrite Nat.add_0_r. exact HS.
    - destruct (site cover s) as [s1|] eqn:E; [|discriminate]. cbn [bind] in H.
      replace (t + S n)%nat with (S t + n)%nat by lia. eapply IH; [|exact H]. eapply site_HW5; eauto.
  Qed.

  Lemma HW5_init idn (cs : list (chain R)) : cs <> [] -> HW5 (mkst init_graph 1 0 (init_next idn cs) []) 0.
  Proof.
    intros Hne. destruct (HSW_init R idn cs) as [Hg _]. cbn [s_g s_nid s_eid] in Hg.
    split; [exact Hg|]. cbn [s_g s_nid s_eid s_next].
    split; [exists (mknode 0 [] [] 0); split; [left; reflexivity|auto]|].
    split; [exists (mknode (-1) [] [] 0); split; [right; left; reflexivity|auto]|].
    split; [reflexivity|]. split; [cbn; lia|].
    exists (fun _ => 0). split; [intros e []|]. split; [reflexivity|]. split.
    - intros n [<-|[<-|[]]] Hid; cbn in *; [|congruence]. split; [lia|]. right.
      destruct cs as [|c0 ct]; [congruence|]. eexists. split; [left; reflexivity|reflexivity].
    - unfold init_next. rewrite Forall_map. apply Forall_forall. intros c _. cbn. split; [lia|]. split; [reflexivity|].
      exists (mknode 0 [] [] 0). split; [left; reflexivity|auto].
  Qed.

  (* ---- depth along first out-edges in a layered graph whose only sinks sit on level L ---- *)
  Lemma depth_levels (g : graph) nb eb (lv : Z -> Z) (L : Z) : GS R g nb eb -> layered_by R g lv ->
    (forall n, In n (g_nodes g) -> lv (n_id n) <= L /\ (n_out n = [] -> lv (n_id n) = L)) ->
    forall f nid, In nid (ids R g) -> Z.of_nat f > L - lv nid -> node_depth_fuel f g nid 1 = Some (Z.to_nat (L - lv nid)).
  Proof.
    intros Hg Hl Hb. induction f as [|f IH]; intros nid Hin Hf.
    - destruct (ids_node _ _ Hin) as [n [Hn En]]. destruct (Hb n Hn) as [A _]. rewrite En in A. cbn in Hf. lia.
    - destruct (ids_node _ _ Hin) as [n [Hn En]]. destruct (Hb n Hn) as [A B]. rewrite En in A, B.
      cbn [node_depth_fuel]. rewrite <- En, (find_node_In_nd R g n (gs_nn R _ _ _ Hg) Hn), En. cbn [node_eids].
      destruct (n_out n) as [|x r] eqn:Eo.
      + rewrite (B eq_refl). replace (L - L) with 0 by lia. reflexivity.
      + destruct (gs_out R _ _ _ Hg n x Hn ltac:(rewrite Eo; left; reflexivity)) as [e [He [E1 E2]]].
        rewrite <- E1, (find_edge_In_nd R g e (gs_ne R _ _ _ Hg) He). cbn [edge_nid].
        destruct (gs_eto R _ _ _ Hg e He) as [n2 [Hn2 [E3 _]]]. destruct (Hb n2 Hn2) as [A2 _].
        pose proof (Hl e He) as Hlv. rewrite E2, En in Hlv. rewrite E3 in A2.
        rewrite (IH (e_to e)); [|rewrite <- E3; apply node_ids; exact Hn2|lia].
        cbn [option_map]. f_equal. lia.
  Qed.

  Lemma site_next_ne cover (s s' : st) : site cover s = Ok s' -> s_next s <> [].
  Proof. intros H E. unfold site in H. rewrite E in H. cbn in H. discriminate. Qed.

  Theorem from_opchains_glength cover (chains : list (chain R)) L idn g : (1 <= L)%nat ->
    from_opchains cover chains L idn = Ok g -> glength g = Some L.
  Proof.
    intros HL H. unfold from_opchains in H.
    destruct (negb (forallb (@chain_ok R) chains)); [discriminate|].
    destruct chains as [|c0 ct] eqn:Ech; [discriminate|]. rewrite <- Ech in *. clear Ech c0 ct.
    destruct (pad_all L idn (filter (@nonzero R) chains)) as [cs|] eqn:Ep; [|discriminate]. cbn [bind] in H.
    destruct (sweep cover L (mkst init_graph 1 0 (init_next idn cs) [])) as [s|] eqn:Es; [|discriminate]. cbn [bind] in H.
    destruct (pad_all_spec R L idn [] _ _ Ep) as [Hcs _].
    pose proof (SW_sweep R L idn cs Hcs cover L _ _ O (SW_init R L idn cs Hcs) ltac:(lia) Es) as [_ [_ [_ [Ht0 _]]]].
    assert (Hne : cs <> []).
    { destruct L as [|L']; [lia|]. cbn [sweep] in Es.
      destruct (site cover (mkst init_graph 1 0 (init_next idn cs) [])) as [s1|] eqn:E1; [|discriminate].
      apply site_next_ne in E1. cbn [s_next] in E1. intros ->. apply E1. reflexivity. }
    pose proof (sweep_HW5 cover L _ _ O (HW5_init idn cs Hne) Es) as [Hg [Hz [Hd [Hcnt [Hnid [lv [Hl [Hl0 [Hnodes Hnx]]]]]]]]].
    cbn [plus] in Hnid, Hnodes, Hnx.
    unfold finish in H. destruct (s_next s) as [|[h c] [|? ?]] eqn:En; try discriminate.
    inversion Hnx as [|? ? [Hh1 [Hh2 [n1 [Hn1 [E1 O1]]]]] _]; subst. cbn [fst] in *.
    assert (Fin : forall g' : graph, GS R g' (s_nid s) (s_eid s) -> g_nodes g' = g_nodes (s_g s) -> g_t0 g' = 0 -> layered_by R g' lv ->
                    glength (remove_node (mkgraph (g_nodes g') (g_edges g') (g_t0 g') (h_nidl h)) (-1)) = Some L).
    { intros g' Hg' En' Et' Hl'.
      pose proof (GS_remove_dummy R g' _ _ (h_nidl h) Hg') as Gf.
      set (gf := remove_node (mkgraph (g_nodes g') (g_edges g') (g_t0 g') (h_nidl h)) (-1)) in *.
      unfold glength. change (g_t0 gf) with (g_t0 g'). rewrite Et'.
      rewrite (depth_levels gf _ _ lv (Z.of_nat L) Gf Hl').
      - rewrite Hl0, Z.sub_0_r, Nat2Z.id. reflexivity.
      - intros n Hn. change (g_nodes gf) with (filter (fun n0 => negb (n_id n0 =? -1)) (g_nodes g')) in Hn.
        apply filter_In in Hn. destruct Hn as [Hn Hid]. rewrite En' in Hn. apply negb_true_iff, Z.eqb_neq in Hid.
        destruct (Hnodes n Hn Hid) as [Hr Hown]. split; [lia|]. intros Oe.
        destruct Hown as [Hout|[hc [[<-|[]] Ehc]]]; [contradiction|]. cbn [fst] in Ehc. rewrite <- Ehc. exact Hh2.
      - destruct Hz as [n0 [Hn0 [E0 _]]]. apply (ids_remove_dummy R g' (h_nidl h) 0); [|lia].
        unfold ids. rewrite En', <- E0. apply in_map. exact Hn0.
      - rewrite Hl0.
        pose proof (filter_one_len (g_nodes g') (-1) ltac:(rewrite En'; exact (gs_nn R _ _ _ Hg))) as Hlen.
        change (g_nodes gf) with (filter (fun n0 => negb (n_id n0 =? -1)) (g_nodes g')). rewrite En' in Hlen. rewrite En'. lia. }
    destruct (keqb R c (k1 R)); cbn [bind] in H.
    - inversion H; subst g. apply Fin; auto.
    - unfold absorb in H. destruct (find_node (s_g s) (h_nidl h)) as [n|]; [|discriminate].
      destruct (n_in n) as [|eid [|? ?]]; try discriminate. destruct (find_edge (s_g s) eid); [|discriminate].
      cbn [bind] in H. inversion H; subst g.
      apply (Fin (upd_edge (s_g s) eid (fun e : gedge => mkedge (e_id e) (e_from e) (e_to e) (map (fun p => (fst p, kmul R c (snd p))) (e_opics e)))));
        [apply GS_scale; exact Hg|reflexivity|exact Ht0|].
      intros e' He'. unfold upd_edge in He'. cbn [g_edges] in He'. apply in_map_iff in He'. destruct He' as [e [<- He]].
      destruct (e_id e =? eid); cbn [e_to e_from]; apply Hl; exact He.
  Qed.
End Len.
