(* Link 5a (two-site): what the two-site invariant Z2 of the sweep proofs (Proofs/Sweeps2Inv.v) gives for the MERGED local
   problem at the pair (i, i+1): shapes of the environment blocks and of the merged MPO tensor (physical dimension d*d),
   shape of the merged start tensor, the norm carried by it, and self-adjointness of the merged effective Hamiltonian
   w.r.t. site_dot when the MPO is Hermitian (two_site_projection = C04_two_site_is_projection, used for bra and ket
   sharing the environment, + mpo_herm: the two-site analogue of C04_heff_hermitian). *)
From Coq Require Import ZArith Arith List Lia Ring Field Setoid Bool.
From PT Require Import Base.Scalar Base.Field Base.BigSum Base.Mx Model.Tensor Model.Operation Model.Sweeps
  Proofs.OperationSums Proofs.OperationEntries Proofs.OperationChains Proofs.OperationTransfer Proofs.OperationLocal Proofs.OperationUniform
  Proofs.OperationTwoSite Proofs.SweepsCanon Proofs.SweepsLocal Proofs.SweepsInv Proofs.Sweeps2Inv Proofs.LinkFlatten Proofs.LinkCtx.
Import ListNotations.

(* ---- Hermiticity of the merged two-site effective operator (bra and ket share the environment) ---- *)
Section Heff2.
  Variable R : cring.
  Add Ring Rring_link2ctx : (k_rt R).
  Infix "*" := (kmul R).
  Notation site := (site R).
  Notation osite := (osite R).
  Notation cj := (kconj R).

  Theorem heff2_hermitian
      (Al Ar : list site) (Wl Wr : list osite) (X Y : site) (W0 W1 : osite)
      dsl dsr d0 d1 Dal Dar Dwl Dwm Dwr DsAl DsWl DsAr DsWr :
    chainx_ok dsl DsAl Al -> ochainx_ok dsl DsWl Wl ->
    hd 0%nat DsAl = 1%nat -> hd 0%nat DsWl = 1%nat ->
    last DsAl 0%nat = Dal -> last DsWl 0%nat = Dwl ->
    (0 < d0)%nat -> (0 < d1)%nat -> (0 < Dwr)%nat ->
    site_ok (d0 * d1) Dal Dar X -> site_ok (d0 * d1) Dal Dar Y ->
    osite_struct d0 W0 -> osite_struct d1 W1 -> osite_ok d0 Dwl Dwm W0 -> osite_ok d1 Dwm Dwr W1 ->
    chain_ok dsr (Dar :: DsAr) Ar -> ochain_ok dsr (Dwr :: DsWr) Wr ->
    (forall w w', In w (gwords (dsl ++ d0 :: d1 :: dsr)) -> In w' (gwords (dsl ++ d0 :: d1 :: dsr)) ->
       opamp (Wl ++ W0 :: W1 :: Wr) w w' = cj (opamp (Wl ++ W0 :: W1 :: Wr) w' w)) ->
    site_dot Y (apply_local_hamiltonian (lfold Al Al Wl env_one) (rfold Ar Ar Wr env_one) (c04_merge_osite W0 W1) X) =
    cj (site_dot X (apply_local_hamiltonian (lfold Al Al Wl env_one) (rfold Ar Ar Wr env_one) (c04_merge_osite W0 W1) Y)).
  Proof.
    intros HAl HWl h1 h3 l1 l3 Hd0 Hd1 HDwr HX HY S0 S1 K0 K1 HAr HWr Hherm.
    rewrite (two_site_projection R Al Ar Al Ar Wl Wr X Y W0 W1 dsl dsr d0 d1 Dal Dar Dal Dar Dwl Dwm Dwr DsAl DsAl DsWl DsAr DsAr DsWr)
      by assumption.
    rewrite (two_site_projection R Al Ar Al Ar Wl Wr Y X W0 W1 dsl dsr d0 d1 Dal Dar Dal Dar Dwl Dwm Dwr DsAl DsAl DsWl DsAr DsAr DsWr)
      by assumption.
    cbv zeta.
    rewrite suml_conj. rewrite suml_exch. apply suml_ext; intros w Hw.
    rewrite suml_conj. apply suml_ext; intros w' Hw'.
    rewrite !kconj_mul, kconj_inv. rewrite (Hherm w' w Hw' Hw). ring.
  Qed.
End Heff2.

Section Ctx2.
  Variable F : ofield.
  Notation K := (Cx F).
  Add Ring Kring_l2ctx : (k_rt (Cx F)).
  Notation site := (site K).
  Notation osite := (osite K).
  Variable Hs : list osite.
  Variable d : nat.
  Variable DsW : list nat.
  Hypothesis Hd : 0 < d.
  Hypothesis HWs : ochain_ok (repeat d (length Hs)) DsW Hs.
  Hypothesis HhW : hd 0 DsW = 1.
  Hypothesis HWst : Forall (osite_struct d) Hs.
  Notation L := (length Hs).

  Theorem Z2_local_ctx (st : sw K) i : Z2 K Hs d st i ->
    let M := c04_merge_site (gA st i) (gA st (S i)) in
    exists Dl Dr Dwl Dwr, 0 < Dwl /\ 0 < Dwr /\ osite_ok (d * d) Dwl Dwr (Hm Hs i) /\
      env_ok Dwl Dl Dl (gBL st i) /\ env_ok Dwr Dr Dr (gBR st (S i)) /\ site_ok (d * d) Dl Dr M /\
      NN K Hs d (s_A st) = site_dot M M /\
      (mpo_herm F Hs d -> local_sa F (d * d) Dl Dr (apply_local_hamiltonian (gBL st i) (gBR st (S i)) (Hm Hs i))).
  Proof.
    intros HZ M. destruct (Z2_center K Hs d DsW Hd HWs HhW HWst st i HZ) as (Dl0 & Dr0 & _ & N0 & _ & _). fold M in N0.
    destruct HZ as (Al & X0 & X1 & Ar & DsAl & Dm & Dar & DsAr & EA & Hlen & HL & HAl & Hh & HX0 & HX1 & HAr & Hli & Hri & HBL & HBR & lBL & lBR).
    subst i.
    destruct (ochain_split2 K Hs d DsW Hd HWs HhW (length Al) ltac:(lia))
      as (Wl & W0 & W1 & Wr & DsWl & Dwm & Dwr & DsWr & EH & Hl & HWl & HhWl & HDwr & HW0 & HW1 & HWr).
    assert (HlenWr : length Wr = length Ar).
    { pose proof (f_equal (@length _) EH) as E. rewrite app_length in E. cbn [length] in E. lia. }
    rewrite HlenWr in HWr.
    assert (F1 : firstn (length Al) Hs = Wl) by (rewrite EH, <- Hl; apply firstn_app_exact).
    assert (F2 : skipn (S (S (length Al))) Hs = Wr).
    { rewrite EH, <- Hl. clear. induction Wl as [|a Wl IH]; [reflexivity|]. cbn [app length]. exact IH. }
    assert (F3 : nth (length Al) Hs [] = W0) by (rewrite EH, <- Hl; apply nth_middle).
    assert (F4 : nth (S (length Al)) Hs [] = W1) by (rewrite EH, <- Hl; apply nth_app_mid2).
    assert (S0 : osite_struct d W0).
    { rewrite Forall_forall in HWst. apply HWst. rewrite EH. apply in_or_app. right. left. reflexivity. }
    assert (S1 : osite_struct d W1).
    { rewrite Forall_forall in HWst. apply HWst. rewrite EH. apply in_or_app. right. right. left. reflexivity. }
    assert (GA0 : gA st (length Al) = X0) by (unfold gA; rewrite EA; apply nth_middle).
    assert (GA1 : gA st (S (length Al)) = X1) by (unfold gA; rewrite EA; apply nth_app_mid2).
    assert (GL : gBL st (length Al) = BLof Al Wl) by (rewrite (HBL (length Al)) by lia; rewrite firstn_all, F1; reflexivity).
    assert (GR : gBR st (S (length Al)) = BRof Ar Wr).
    { pose proof (HBR 0 ltac:(lia)) as E. rewrite Nat.add_0_r in E. rewrite E, F2. reflexivity. }
    unfold Hm. unfold M in *. rewrite F3, F4, GA0, GA1, GL, GR in *.
    assert (HDwl : 0 < last DsWl 0). { apply (ochainx_last_pos K Wl (repeat d (length Al))); [exact HWl|]. rewrite HhWl. lia. }
    exists (last DsAl 0), Dar, (last DsWl 0), Dwr.
    split; [exact HDwl|]. split; [exact HDwr|].
    split; [apply (merge_osite_ok K d d (last DsWl 0) Dwm Dwr); assumption|].
    assert (EBL : env_ok (last DsWl 0) (last DsAl 0) (last DsAl 0) (BLof Al Wl)).
    { unfold BLof. rewrite env_one_id. apply (lfoldx_shape K Al Al Wl (repeat d (length Al))); try assumption.
      rewrite Hh, HhWl. apply env_id_ok. }
    assert (EBR : env_ok Dwr Dar Dar (BRof Ar Wr)).
    { unfold BRof. rewrite env_one_id. apply (rfold_shape K (repeat d (length Ar)) (Dar :: DsAr) (Dar :: DsAr) (Dwr :: DsWr)); assumption. }
    split; [exact EBL|]. split; [exact EBR|].
    split; [apply (merge_site_ok K d d (last DsAl 0) Dm Dar); assumption|]. split; [exact N0|].
    intros Hherm X' Y' HX' HY'.
    apply (heff2_hermitian K Al Ar Wl Wr X' Y' W0 W1 (repeat d (length Al)) (repeat d (length Ar)) d d (last DsAl 0) Dar
             (last DsWl 0) Dwm Dwr DsAl DsWl DsAr DsWr); try assumption; try reflexivity.
    rewrite (words_glue2 d), HL, <- EH. exact Hherm.
  Qed.
End Ctx2.
