(* C03 — the sparse path of MPO.as_matrix: proved equal to the dense path for a single site (L = 1);
   for L >= 2 the equality is validated by the correspondence check only. *)
From Coq Require Import ZArith List Lia Bool Arith Ring.
From PT Require Import Base.Scalar Base.BigSum Base.Mx Model.Tensor Model.MPSOps.
From PT Require Import Proofs.MPSOpsBase Proofs.MPSOpsMul Proofs.MPSOpsDense.
Import ListNotations.

Section Sparse.
  Variable R : cring.
  Notation mx := (mx R).
  Notation osite := (osite R).

  Lemma as_matrix_single d (W : osite) : osite_shape d 1 1 W = true -> (0 < d)%nat ->
    as_matrix [W] = Some (tab d d (fun i j => get (osel W i j) 0%nat 0%nat)).
  Proof.
    intros HW Hd. unfold as_matrix. cbn [fold_left].
    pose proof (osite_shape_length _ _ _ _ _ HW) as HdW. pose proof (osite_shape_rows _ _ _ _ _ HW) as HrW.
    assert (Hall : forallb (forallb (@is1x1 R)) W = true).
    { apply forallb_forall. intros r Hr. apply forallb_forall. intros M HM.
      destruct (osite_shape_in _ _ _ _ _ _ _ HW Hr HM) as (_ & Hr1 & Hc1). unfold is1x1. rewrite Hr1, Hc1. reflexivity. }
    rewrite Hall. f_equal.
    assert (Hhd : length (hd [] W) = d).
    { destruct W as [|r W]; [simpl in HdW; lia|]. simpl. apply (Forall_inv HrW). }
    rewrite HdW, Hhd.
    rewrite (osite_as_tab R d W HdW HrW) at 1. rewrite map_map. unfold tab. f_equal.
    apply map_ext_in. intros s Hs. rewrite map_map. reflexivity.
  Qed.

  Theorem as_matrix_sparse_single d (W : osite) : osite_shape d 1 1 W = true -> (0 < d)%nat ->
    as_matrix_sparse d [W] = as_matrix [W].
  Proof.
    intros HW Hd. rewrite (as_matrix_single d W HW Hd). unfold as_matrix_sparse. cbn [fold_left].
    destruct (osite_shape_osel _ _ _ _ _ 0%nat 0%nat HW Hd Hd) as (_ & Hr0 & Hc0).
    rewrite Hr0, Hc0. cbn [Nat.eqb negb]. rewrite nc_tab. cbn [Nat.eqb]. f_equal.
    unfold reshape. rewrite nc_tab. apply tab_ext. intros i j Hi Hj. cbv zeta.
    rewrite Nat.div_1_r, Nat.mod_1_r.
    rewrite get_tab by (try lia; nia).
    rewrite div_flat, mod_flat by assumption. reflexivity.
  Qed.
End Sparse.
