(* C09 — time reversal at the level of the local flows: running the integrators with -dt is running them with +dt and
   local solvers whose time argument is negated; opposite local flows on the same local problem cancel. *)
From Coq Require Import ZArith List Lia Bool Ring.
From PT Require Import Base.Scalar Base.BigSum Base.Mx Model.Tensor Model.Operation Model.Sweeps.
Import ListNotations.

Lemma lset_length {T} (l : list T) i x : length (lset l i x) = length l.
Proof. revert i; induction l as [|h t IH]; intros [|i]; cbn [lset length]; auto. Qed.
Lemma nth_lset_same {T} (l : list T) i x d : i < length l -> nth i (lset l i x) d = x.
Proof. revert i; induction l as [|h t IH]; intros [|i] Hi; cbn [lset nth length] in *; try lia; auto. apply IH. lia. Qed.
Lemma nth_lset_other {T} (l : list T) i j x d : i <> j -> nth j (lset l i x) d = nth j l d.
Proof. revert i j; induction l as [|h t IH]; intros [|i] [|j] Hij; cbn [lset nth]; auto; try lia. Qed.
Lemma lset_lset {T} (l : list T) i x y : lset (lset l i x) i y = lset l i y.
Proof. revert i; induction l as [|h t IH]; intros [|i]; cbn [lset]; auto. rewrite IH. reflexivity. Qed.
Lemma lset_nth {T} (l : list T) i d : lset l i (nth i l d) = l.
Proof. revert i; induction l as [|h t IH]; intros [|i]; cbn [lset nth]; auto. rewrite IH. reflexivity. Qed.

Section Flow.
  Variable R : cring.
  Add Ring Rring_sweeps_flow : (k_rt R).
  Variable orth_right : mps R -> mps R * R.
  Variable qr : nat -> mx R -> list Z -> list Z -> mx R * mx R * list Z.
  Variable split : nat -> site R -> list Z -> list Z -> list Z -> list Z -> bool -> site R * site R * list Z.
  Variable kexp : nat -> env R -> env R -> osite R -> site R -> R -> site R.
  Variable kexp0 : nat -> env R -> env R -> mx R -> R -> mx R.

  (* time passed for coefficient c when the user's step is -dt (and 0.5*(-dt) = -(0.5*dt)) *)
  Lemma tval_neg dt hdt c : tval (kopp R dt) (kopp R hdt) c = kopp R (tval dt hdt c).
  Proof. unfold tval. destruct (Z.eqb c 1), (Z.eqb c (-1)), (Z.eqb c 2), (Z.eqb c (-2)); try reflexivity. ring. Qed.
  Lemma tval_opp dt hdt c : In c [1; -1; 2; -2]%Z -> tval dt hdt (- c) = kopp R (tval dt hdt c).
  Proof. intros [<-|[<-|[<-|[<-|[]]]]]; cbn; try reflexivity; ring. Qed.
  (* ... so the schedule for -dt, in units of the ORIGINAL dt/2, is the pointwise negation *)
  Lemma tval_neg_coef dt hdt c : In c [1; -1; 2; -2]%Z -> tval (kopp R dt) (kopp R hdt) c = tval dt hdt (- c).
  Proof. intros Hc. rewrite tval_neg, tval_opp by exact Hc. reflexivity. Qed.

  Definition kexp_rev : nat -> env R -> env R -> osite R -> site R -> R -> site R :=
    fun p BL BR W A t => kexp p BL BR W A (kopp R t).
  Definition kexp0_rev : nat -> env R -> env R -> mx R -> R -> mx R :=
    fun p BL BR C t => kexp0 p BL BR C (kopp R t).

  Theorem tdvp1_negated_dt H psi dt hdt n :
    tdvp_singlesite orth_right qr kexp kexp0 H psi (kopp R dt) (kopp R hdt) n =
    tdvp_singlesite orth_right qr kexp_rev kexp0_rev H psi dt hdt n.
  Proof. reflexivity. Qed.
  Theorem tdvp2_negated_dt H psi dt hdt n :
    tdvp_twosite orth_right split kexp H psi (kopp R dt) (kopp R hdt) n =
    tdvp_twosite orth_right split kexp_rev H psi dt hdt n.
  Proof. reflexivity. Qed.

  (* opposite local flows on the same local problem cancel, for local solvers that are exactly invertible
     (kexp(-t) o kexp(t) = id on the same environments: exact local exponentials) *)
  Theorem local_flows_cancel Hs dt hdt (st : sw R) j c :
    (forall p p' BL BR W A t, kexp p' BL BR W (kexp p BL BR W A t) (kopp R t) = A) ->
    In c [1; -1; 2; -2]%Z -> j < length (s_A st) ->
    let st2 := evolve_site kexp Hs dt hdt (evolve_site kexp Hs dt hdt st j c) j (- c) in
    s_A st2 = s_A st /\ s_qD st2 = s_qD st /\ s_BL st2 = s_BL st /\ s_BR st2 = s_BR st /\
    map (@t_call R) (s_tr st2) = mkcall KH j (- c) :: mkcall KH j c :: map (@t_call R) (s_tr st).
  Proof.
    intros Hinv Hc Hj. unfold evolve_site. cbv zeta. cbn [s_A s_qD s_BL s_BR s_tr map t_call].
    repeat split.
    unfold gA, gBL, gBR. cbn [s_A s_BL s_BR]. rewrite nth_lset_same by exact Hj.
    rewrite tval_opp by exact Hc. rewrite Hinv, lset_lset. apply lset_nth.
  Qed.

  (* the junction of two consecutive steps: K_0(1/2) K_0(1/2) act on the same local problem *)
  Theorem bond_flows_cancel (BL BR : env R) C t :
    (forall p p' BL BR C t, kexp0 p' BL BR (kexp0 p BL BR C t) (kopp R t) = C) ->
    forall p p', kexp0_rev p' BL BR (kexp0 p BL BR C t) t = C.
  Proof. intros Hinv p p'. unfold kexp0_rev. apply Hinv. Qed.
End Flow.
