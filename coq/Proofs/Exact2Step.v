(* C09 exactness, two-site — the loop bodies of integrate_local_twosite (Model/Sweeps.v: tdvp2_lr, tdvp2_mid, tdvp2_rl) under
   the contracts of Proofs/Exact2Defs.v: unfolding of the bodies relative to the per-call exact-split contract, and
   preservation of the structural invariant [EI] of Proofs/ExactStep.v (the SAME invariant as for the single-site integrator:
   shapes, complete frames left of min(centre, m) and right of max(centre, m), environment recurrences; the centre is the left
   site of the active pair). *)
From Coq Require Import ZArith Arith List Lia Ring Setoid Bool.
From PT Require Import Base.Scalar Base.BigSum Base.Mx Model.Tensor Model.Operation Model.Sweeps
  Proofs.OperationEntries Proofs.OperationLocal Proofs.OperationTwoSite Proofs.SweepsCanon Proofs.SweepsFlow Proofs.SweepsGauge
  Proofs.ReverseDefs Proofs.ReverseMx Proofs.ReverseGauge Proofs.ReverseQR Proofs.ReverseFwd
  Proofs.ExactDefs Proofs.ExactStep Proofs.Exact2Defs.
Import ListNotations.

Section Step2.
  Variable R : cring.
  Add Ring Rring_exact2_step : (k_rt R).
  Notation site := (site R).
  Notation osite := (osite R).
  Notation env := (env R).
  Notation mx := (mx R).
  Notation sw := (sw R).
  Variable split : nat -> site -> list BinNums.Z -> list BinNums.Z -> list BinNums.Z -> list BinNums.Z -> bool -> site * site * list BinNums.Z.
  Variable kexp : kexp_t R.
  Variable Hs : list osite.
  Variable qd : list BinNums.Z.
  Variable d : nat.
  Variables Ds DW : nat -> nat.
  Notation L := (length Hs).
  Variables (dt hdt : R).
  Notation pair := (tdvp2_pair split kexp Hs qd dt hdt).
  Notation lr := (tdvp2_lr split kexp Hs qd dt hdt).
  Notation rl := (tdvp2_rl split kexp Hs qd dt hdt).
  Notation mid := (tdvp2_mid split kexp Hs qd dt hdt).
  Notation evo := (evolve_site kexp Hs dt hdt).
  Notation ok := (ex2_tr_ok split d Ds).
  Notation Wat i := (nth i Hs []).
  Notation W2at i := (c04_merge_osite (nth i Hs []) (nth (S i) Hs [])).
  Notation mrg := (@c04_merge_site R).
  Notation stepL := (@contraction_operator_step_left R).
  Notation stepR := (@contraction_operator_step_right R).

  (* ---------------- the building blocks, unfolded ---------------- *)
  Lemma pair_unfold (st : sw) i c left : S i < length (s_A st) -> ok (s_tr (pair st i c left)) ->
    exists (p : nat) (A0 A1 : site) (qb : list BinNums.Z),
      split_full d (Ds i) (Ds (S i)) (Ds (S (S i))) left
        (kexp p (gBL st i) (gBR st (S i)) (W2at i) (mrg (gA st i) (gA st (S i))) (tval dt hdt c)) (A0, A1, qb) /\
      (forall k, gA (pair st i c left) k = if Nat.eqb k i then A0 else if Nat.eqb k (S i) then A1 else gA st k) /\
      s_BL (pair st i c left) = s_BL st /\ s_BR (pair st i c left) = s_BR st /\
      length (s_A (pair st i c left)) = length (s_A st).
  Proof.
    intros HA Hok. unfold tdvp2_pair in *. cbv zeta in *.
    set (Am1 := kexp (length (s_tr st)) (gBL st i) (gBR st (S i)) (W2at i) (mrg (gA st i) (gA st (S i))) (tval dt hdt c)) in *.
    destruct (split (S (length (s_tr st))) Am1 qd qd (gq st i) (gq st (S (S i))) left) as [[A0 A1] qb] eqn:Es.
    cbn [s_tr s_A s_BL s_BR] in *. destruct Hok as (HcS & _).
    exists (length (s_tr st)), A0, A1, qb. fold Am1.
    split.
    { unfold ex2_call_ok in HcS. destruct left; cbn [t_call c_kind c_site c_coef t_envs t_ten t_qs length] in HcS; rewrite Es in HcS; exact HcS. }
    split; [|split; [reflexivity|split; [reflexivity|rewrite !lset_length; reflexivity]]].
    intros k. unfold gA. cbn [s_A]. rewrite nth_lset_if by (rewrite lset_length; lia).
    destruct (Nat.eqb_spec k (S i)) as [->|Hne].
    - replace (Nat.eqb (S i) i) with false by (symmetry; apply Nat.eqb_neq; lia). reflexivity.
    - rewrite nth_lset_if by lia. reflexivity.
  Qed.

  Lemma evo_unfold (st : sw) j c : j < length (s_A st) ->
    (forall k, gA (evo st j c) k =
       if Nat.eqb k j then kexp (length (s_tr st)) (gBL st j) (gBR st j) (Wat j) (gA st j) (tval dt hdt c) else gA st k) /\
    s_BL (evo st j c) = s_BL st /\ s_BR (evo st j c) = s_BR st /\ length (s_A (evo st j c)) = length (s_A st).
  Proof.
    intros Hj. unfold evolve_site. cbn [s_A s_BL s_BR].
    split; [|split; [reflexivity|split; [reflexivity|apply lset_length]]].
    intros k. unfold gA at 1. cbn [s_A]. apply nth_lset_if. exact Hj.
  Qed.

  Lemma updBL_unfold (st : sw) i : S i < length (s_BL st) ->
    s_A (upd_BL Hs st i) = s_A st /\ s_BR (upd_BL Hs st i) = s_BR st /\ length (s_BL (upd_BL Hs st i)) = length (s_BL st) /\
    (forall k, gBL (upd_BL Hs st i) k = if Nat.eqb k (S i) then stepL (gA st i) (gA st i) (Wat i) (gBL st i) else gBL st k).
  Proof.
    intros Hi. unfold upd_BL. cbn [s_A s_BL s_BR].
    split; [reflexivity|split; [reflexivity|split; [apply lset_length|]]].
    intros k. unfold gBL at 1. cbn [s_BL]. apply nth_lset_if. exact Hi.
  Qed.

  Lemma updBR_unfold (st : sw) i : i < length (s_BR st) ->
    s_A (upd_BR Hs st (S i)) = s_A st /\ s_BL (upd_BR Hs st (S i)) = s_BL st /\ length (s_BR (upd_BR Hs st (S i))) = length (s_BR st) /\
    (forall k, gBR (upd_BR Hs st (S i)) k = if Nat.eqb k i then stepR (gA st (S i)) (gA st (S i)) (Wat (S i)) (gBR st (S i)) else gBR st k).
  Proof.
    intros Hi. unfold upd_BR. cbn [s_A s_BL s_BR]. replace (S i - 1) with i by lia.
    split; [reflexivity|split; [reflexivity|split; [apply lset_length|]]].
    intros k. unfold gBR at 1. cbn [s_BR]. apply nth_lset_if. exact Hi.
  Qed.

  Lemma ok_lr_pair (st : sw) i : ok (s_tr (lr st i)) -> ok (s_tr (pair st i 1 false)).
  Proof. unfold tdvp2_lr, evolve_site, upd_BL. cbn [s_tr]. cbn [ex2_tr_ok]. intros (_ & _ & H). exact H. Qed.
  Lemma ok_mid_pair (st : sw) i : ok (s_tr (mid st i)) -> ok (s_tr (pair st i 2 true)).
  Proof. unfold tdvp2_mid, upd_BR. cbn [s_tr]. cbn [ex2_tr_ok]. intros (_ & H). exact H. Qed.
  Lemma ok_rl_pair (st : sw) i : ok (s_tr (rl st i)) -> ok (s_tr (pair (evo st (S i) (-1)) i 1 true)).
  Proof. unfold tdvp2_rl, upd_BR. cbn [s_tr]. cbn [ex2_tr_ok]. intros (_ & H). exact H. Qed.

  (* ---------------- standing hypotheses ---------------- *)
  Hypothesis Hd : 0 < d.
  Hypothesis HW : forall j, j < L -> osite_ok d (DW j) (DW (S j)) (nth j Hs []).
  Hypothesis HDW : forall j, 0 < DW j.
  Variable m : nat.
  Hypothesis Hprof : complete_profile Hs d Ds m.
  Hypothesis Hk : kexp_flowH Hs d Ds DW kexp.
  Hypothesis Hk2 : kexp2_flowH Hs d Ds DW kexp.
  Notation EIi := (EI Hs d Ds DW m).
  Notation siteT i := (wsite d (Ds i) (Ds (S i))).
  Notation pairT i := (wsite (d * d) (Ds i) (Ds (S (S i)))).
  Notation envL i := (wenv (DW i) (Ds i) (Ds i)).

  (* merge, evolve for time tau, split: common part of the three bodies *)
  Lemma pair_facts (X : sw) i c left : S i < L -> length (s_A X) = L ->
    siteT i (gA X i) -> siteT (S i) (gA X (S i)) -> envL i (gBL X i) -> envL (S (S i)) (gBR X (S i)) ->
    ok (s_tr (pair X i c left)) ->
    exists p A0 A1,
      let M0 := mrg (gA X i) (gA X (S i)) in
      let M1 := kexp p (gBL X i) (gBR X (S i)) (W2at i) M0 (tval dt hdt c) in
      pairT i M0 /\ pairT i M1 /\ siteT i A0 /\ siteT (S i) A1 /\ mrg A0 A1 = M1 /\
      (if left then Ds (S i) = (d * Ds (S (S i)))%nat -> runitary A1 else (d * Ds i)%nat = Ds (S i) -> lunitary A0) /\
      (forall k, gA (pair X i c left) k = if Nat.eqb k i then A0 else if Nat.eqb k (S i) then A1 else gA X k) /\
      s_BL (pair X i c left) = s_BL X /\ s_BR (pair X i c left) = s_BR X /\ length (s_A (pair X i c left)) = L.
  Proof.
    intros HSi lA H0 H1 HBL HBR Hok.
    destruct (pair_unfold X i c left ltac:(lia) Hok) as (p & A0 & A1 & qb & HS & EA & EBL & EBR & l1).
    exists p, A0, A1. cbv zeta.
    assert (HM0 : pairT i (mrg (gA X i) (gA X (S i)))) by (apply (wsite_merge R d (Ds i) (Ds (S i))); assumption).
    destruct (Hk2 i p p p (gBL X i) (gBR X (S i)) _ (tval dt hdt c) (tval dt hdt c) HSi HM0 HBL HBR) as (HM1 & _ & _).
    destruct (HS HM1) as (HA0 & HA1 & Em & Hiso). cbn [fst snd] in *.
    split; [exact HM0|]. split; [exact HM1|]. split; [exact HA0|]. split; [exact HA1|]. split; [exact Em|].
    split; [exact Hiso|]. split; [exact EA|]. split; [exact EBL|]. split; [exact EBR|]. lia.
  Qed.

  (* ---------------- one left-to-right body ---------------- *)
  Lemma lr2_facts (X : sw) i : EIi i X -> S (S i) < L -> ok (s_tr (lr X i)) ->
    exists p p' A0 A1,
      let M0 := mrg (gA X i) (gA X (S i)) in
      let M1 := kexp p (gBL X i) (gBR X (S i)) (W2at i) M0 hdt in
      let BLn := stepL A0 A0 (Wat i) (gBL X i) in
      let A1' := kexp p' BLn (gBR X (S i)) (Wat (S i)) A1 (kopp R hdt) in
      pairT i M0 /\ pairT i M1 /\ siteT i A0 /\ siteT (S i) A1 /\ mrg A0 A1 = M1 /\
      ((d * Ds i)%nat = Ds (S i) -> lunitary A0) /\
      envL (S i) BLn /\ siteT (S i) A1' /\
      (forall k, gA (lr X i) k = if Nat.eqb k i then A0 else if Nat.eqb k (S i) then A1' else gA X k) /\
      (forall k, gBL (lr X i) k = if Nat.eqb k (S i) then BLn else gBL X k) /\
      (forall k, gBR (lr X i) k = gBR X k) /\
      length (s_A (lr X i)) = L /\ length (s_BL (lr X i)) = L /\ length (s_BR (lr X i)) = L.
  Proof.
    intros (lA & lBL & lBR & Hsh & Hlu & Hru & HwL & HwR & HrL & HrR & H0 & HL1) HSi Hok.
    destruct (pair_facts X i 1 false ltac:(lia) lA (Hsh i ltac:(lia)) (Hsh (S i) ltac:(lia)) (HwL i ltac:(lia)) (HwR (S i) ltac:(lia))
                (ok_lr_pair X i Hok)) as (p & A0 & A1 & HM0 & HM1 & HA0 & HA1 & Em & Hun & EA & EBL & EBR & l1).
    cbv zeta in *. change (tval dt hdt 1) with hdt in *.
    set (P := pair X i 1 false) in *.
    destruct (updBL_unfold P i ltac:(rewrite EBL; lia)) as (UA & UBR & Ul & UBL).
    set (P' := upd_BL Hs P i) in *.
    destruct (evo_unfold P' (S i) (-1) ltac:(rewrite UA, l1; lia)) as (VA & VBL & VBR & Vl).
    change (tval dt hdt (-1)) with (kopp R hdt) in VA.
    assert (gAP : forall k, gA P' k = gA P k) by (intros k; unfold gA; rewrite UA; reflexivity).
    assert (gBLP : forall k, gBL P k = gBL X k) by (intros k; unfold gBL; rewrite EBL; reflexivity).
    assert (gBRP' : forall k, gBR P' k = gBR X k) by (intros k; unfold gBR; rewrite UBR, EBR; reflexivity).
    assert (EPi : gA P i = A0) by (rewrite EA, Nat.eqb_refl; reflexivity).
    assert (EPSi : gA P (S i) = A1).
    { rewrite EA, Nat.eqb_refl. replace (Nat.eqb (S i) i) with false by (symmetry; apply Nat.eqb_neq; lia). reflexivity. }
    assert (EBLn : gBL P' (S i) = stepL A0 A0 (Wat i) (gBL X i)) by (rewrite UBL, Nat.eqb_refl, EPi, gBLP; reflexivity).
    exists p, (length (s_tr P')), A0, A1. cbv zeta.
    set (BLn := stepL A0 A0 (Wat i) (gBL X i)) in *.
    assert (HBLn : envL (S i) BLn) by (apply (wenv_stepL R Hs d Ds DW Hd HW); [lia|exact HA0]).
    split; [exact HM0|]. split; [exact HM1|]. split; [exact HA0|]. split; [exact HA1|]. split; [exact Em|].
    split; [exact Hun|]. split; [exact HBLn|].
    split.
    { apply (Hk (S i) (length (s_tr P')) 0 0 BLn (gBR X (S i)) A1 (kopp R hdt) (kopp R hdt)); [lia|exact HA1|exact HBLn|apply HwR; lia]. }
    split.
    { intros k. change (lr X i) with (evo P' (S i) (-1)). rewrite VA, EBLn, gBRP', gAP, EPSi.
      destruct (Nat.eqb_spec k (S i)) as [->|N].
      - replace (Nat.eqb (S i) i) with false by (symmetry; apply Nat.eqb_neq; lia). reflexivity.
      - rewrite gAP, EA. replace (Nat.eqb k (S i)) with false by (symmetry; apply Nat.eqb_neq; lia). reflexivity. }
    split.
    { intros k. change (lr X i) with (evo P' (S i) (-1)). unfold gBL at 1. rewrite VBL. change (nth k (s_BL P') []) with (gBL P' k).
      rewrite UBL, EPi, !gBLP. reflexivity. }
    split.
    { intros k. change (lr X i) with (evo P' (S i) (-1)). unfold gBR at 1. rewrite VBR. apply gBRP'. }
    change (lr X i) with (evo P' (S i) (-1)). rewrite Vl, VBL, VBR, UA, Ul, UBR, EBL, EBR. split; [exact l1|]. split; assumption.
  Qed.

  Lemma EI2_lr (X : sw) i : EIi i X -> S (S i) < L -> ok (s_tr (lr X i)) -> EIi (S i) (lr X i).
  Proof.
    intros HEI HSi Hok.
    destruct (lr2_facts X i HEI HSi Hok) as (p & p' & A0 & A1 & HM0 & HM1 & HA0 & HA1 & Em & Hun & HBLn & HA1' & EA & EBL & EBR & l1 & l2 & l3).
    cbv zeta in *. destruct HEI as (lA & lBL & lBR & Hsh & Hlu & Hru & HwL & HwR & HrL & HrR & H0 & HL1).
    destruct Hprof as (_ & _ & _ & PL & PR).
    split; [exact l1|]. split; [exact l2|]. split; [exact l3|].
    split.
    { intros j Hj. rewrite EA. destruct (Nat.eqb_spec j i) as [->|N1]; [exact HA0|].
      destruct (Nat.eqb_spec j (S i)) as [->|N2]; [exact HA1'|apply Hsh; exact Hj]. }
    split.
    { intros j Hj Hjm. rewrite EA. destruct (Nat.eqb_spec j i) as [->|N1]; [apply Hun; apply PL; exact Hjm|].
      destruct (Nat.eqb_spec j (S i)) as [->|N2]; [lia|]. apply Hlu; lia. }
    split.
    { intros j Hj Hjm. rewrite EA. destruct (Nat.eqb_spec j i) as [->|N1]; [lia|].
      destruct (Nat.eqb_spec j (S i)) as [->|N2]; [lia|]. apply Hru; lia. }
    split.
    { intros j Hj. rewrite EBL. destruct (Nat.eqb_spec j (S i)) as [->|N1]; [exact HBLn|]. apply HwL. lia. }
    split.
    { intros j Hj. rewrite EBR. apply HwR. lia. }
    split.
    { intros j Hj. rewrite (EBL (S j)), (EBL j), (EA j).
      destruct (Nat.eqb_spec j i) as [->|N1].
      - rewrite Nat.eqb_refl. replace (Nat.eqb i (S i)) with false by (symmetry; apply Nat.eqb_neq; lia). reflexivity.
      - replace (Nat.eqb (S j) (S i)) with false by (symmetry; apply Nat.eqb_neq; lia).
        replace (Nat.eqb j (S i)) with false by (symmetry; apply Nat.eqb_neq; lia). apply HrL. lia. }
    split.
    { intros j Hj. rewrite !EBR, (EA j).
      replace (Nat.eqb j i) with false by (symmetry; apply Nat.eqb_neq; lia).
      replace (Nat.eqb j (S i)) with false by (symmetry; apply Nat.eqb_neq; lia). apply HrR. lia. }
    split; [rewrite EBL; exact H0|rewrite EBR; exact HL1].
  Qed.

  (* ---------------- the rightmost pair ---------------- *)
  Lemma mid2_facts (X : sw) i : EIi i X -> S i < L -> ok (s_tr (mid X i)) ->
    exists p A0 A1,
      let M0 := mrg (gA X i) (gA X (S i)) in
      let M1 := kexp p (gBL X i) (gBR X (S i)) (W2at i) M0 dt in
      let BRn := stepR A1 A1 (Wat (S i)) (gBR X (S i)) in
      pairT i M0 /\ pairT i M1 /\ siteT i A0 /\ siteT (S i) A1 /\ mrg A0 A1 = M1 /\
      (Ds (S i) = (d * Ds (S (S i)))%nat -> runitary A1) /\ envL (S i) BRn /\
      (forall k, gA (mid X i) k = if Nat.eqb k i then A0 else if Nat.eqb k (S i) then A1 else gA X k) /\
      (forall k, gBL (mid X i) k = gBL X k) /\
      (forall k, gBR (mid X i) k = if Nat.eqb k i then BRn else gBR X k) /\
      length (s_A (mid X i)) = L /\ length (s_BL (mid X i)) = L /\ length (s_BR (mid X i)) = L.
  Proof.
    intros (lA & lBL & lBR & Hsh & Hlu & Hru & HwL & HwR & HrL & HrR & H0 & HL1) HSi Hok.
    destruct (pair_facts X i 2 true HSi lA (Hsh i ltac:(lia)) (Hsh (S i) HSi) (HwL i ltac:(lia)) (HwR (S i) ltac:(lia))
                (ok_mid_pair X i Hok)) as (p & A0 & A1 & HM0 & HM1 & HA0 & HA1 & Em & Hun & EA & EBL & EBR & l1).
    cbv zeta in *. change (tval dt hdt 2) with dt in *.
    set (P := pair X i 2 true) in *.
    destruct (updBR_unfold P i ltac:(rewrite EBR; lia)) as (UA & UBL & Ul & UBR).
    assert (gBRP : forall k, gBR P k = gBR X k) by (intros k; unfold gBR; rewrite EBR; reflexivity).
    assert (EPSi : gA P (S i) = A1).
    { rewrite EA, Nat.eqb_refl. replace (Nat.eqb (S i) i) with false by (symmetry; apply Nat.eqb_neq; lia). reflexivity. }
    exists p, A0, A1. cbv zeta.
    split; [exact HM0|]. split; [exact HM1|]. split; [exact HA0|]. split; [exact HA1|]. split; [exact Em|].
    split; [exact Hun|].
    split; [apply (wenv_stepR R Hs d Ds DW Hd HW); [lia|exact HA1]|].
    split.
    { intros k. change (mid X i) with (upd_BR Hs P (S i)). unfold gA at 1. rewrite UA. apply EA. }
    split.
    { intros k. change (mid X i) with (upd_BR Hs P (S i)). unfold gBL. rewrite UBL, EBL. reflexivity. }
    split.
    { intros k. change (mid X i) with (upd_BR Hs P (S i)). rewrite UBR, EPSi, !gBRP. reflexivity. }
    change (mid X i) with (upd_BR Hs P (S i)). rewrite UA, UBL, Ul, EBL, EBR. split; [exact l1|]. split; assumption.
  Qed.

  Lemma EI2_mid (X : sw) i : EIi i X -> S i < L -> ok (s_tr (mid X i)) -> EIi i (mid X i).
  Proof.
    intros HEI HSi Hok.
    destruct (mid2_facts X i HEI HSi Hok) as (p & A0 & A1 & HM0 & HM1 & HA0 & HA1 & Em & Hun & HBRn & EA & EBL & EBR & l1 & l2 & l3).
    cbv zeta in *. destruct HEI as (lA & lBL & lBR & Hsh & Hlu & Hru & HwL & HwR & HrL & HrR & H0 & HL1).
    destruct Hprof as (_ & _ & _ & PL & PR).
    split; [exact l1|]. split; [exact l2|]. split; [exact l3|].
    split.
    { intros j Hj. rewrite EA. destruct (Nat.eqb_spec j i) as [->|N1]; [exact HA0|].
      destruct (Nat.eqb_spec j (S i)) as [->|N2]; [exact HA1|apply Hsh; exact Hj]. }
    split.
    { intros j Hj Hjm. rewrite EA. destruct (Nat.eqb_spec j i) as [->|N1]; [lia|].
      destruct (Nat.eqb_spec j (S i)) as [->|N2]; [lia|]. apply Hlu; lia. }
    split.
    { intros j Hj Hjm. rewrite EA. destruct (Nat.eqb_spec j i) as [->|N1]; [lia|].
      destruct (Nat.eqb_spec j (S i)) as [->|N2]; [apply Hun; apply PR; lia|]. apply Hru; lia. }
    split.
    { intros j Hj. rewrite EBL. apply HwL. lia. }
    split.
    { intros j Hj. rewrite EBR. destruct (Nat.eqb_spec j i) as [->|N1]; [exact HBRn|]. apply HwR. lia. }
    split.
    { intros j Hj. rewrite !EBL, (EA j).
      replace (Nat.eqb j i) with false by (symmetry; apply Nat.eqb_neq; lia).
      replace (Nat.eqb j (S i)) with false by (symmetry; apply Nat.eqb_neq; lia). apply HrL. lia. }
    split.
    { intros j Hj. rewrite (EBR (j - 1)), (EBR j), (EA j).
      replace (Nat.eqb j i) with false by (symmetry; apply Nat.eqb_neq; lia).
      destruct (Nat.eqb_spec j (S i)) as [->|N1].
      - replace (S i - 1) with i by lia. rewrite Nat.eqb_refl. reflexivity.
      - replace (Nat.eqb (j - 1) i) with false by (symmetry; apply Nat.eqb_neq; lia). apply HrR. lia. }
    split; [rewrite EBL; exact H0|].
    rewrite EBR. replace (Nat.eqb (L - 1) i) with false by (symmetry; apply Nat.eqb_neq; lia). exact HL1.
  Qed.

  (* ---------------- one right-to-left body (pair (k, k+1)) ---------------- *)
  Lemma rl2_facts (X : sw) k : EIi (S k) X -> S (S k) < L -> ok (s_tr (rl X k)) ->
    exists p p' A0 A1,
      let Ae := kexp p (gBL X (S k)) (gBR X (S k)) (Wat (S k)) (gA X (S k)) (kopp R hdt) in
      let M0 := mrg (gA X k) Ae in
      let M1 := kexp p' (gBL X k) (gBR X (S k)) (W2at k) M0 hdt in
      let BRn := stepR A1 A1 (Wat (S k)) (gBR X (S k)) in
      siteT (S k) Ae /\ pairT k M0 /\ pairT k M1 /\ siteT k A0 /\ siteT (S k) A1 /\ mrg A0 A1 = M1 /\
      (Ds (S k) = (d * Ds (S (S k)))%nat -> runitary A1) /\ envL (S k) BRn /\
      (forall j, gA (rl X k) j = if Nat.eqb j k then A0 else if Nat.eqb j (S k) then A1 else gA X j) /\
      (forall j, gBL (rl X k) j = gBL X j) /\
      (forall j, gBR (rl X k) j = if Nat.eqb j k then BRn else gBR X j) /\
      length (s_A (rl X k)) = L /\ length (s_BL (rl X k)) = L /\ length (s_BR (rl X k)) = L.
  Proof.
    intros (lA & lBL & lBR & Hsh & Hlu & Hru & HwL & HwR & HrL & HrR & H0 & HL1) HSk Hok.
    destruct (evo_unfold X (S k) (-1) ltac:(lia)) as (VA & VBL & VBR & Vl).
    change (tval dt hdt (-1)) with (kopp R hdt) in VA.
    set (X' := evo X (S k) (-1)) in *.
    set (Ae := kexp (length (s_tr X)) (gBL X (S k)) (gBR X (S k)) (Wat (S k)) (gA X (S k)) (kopp R hdt)) in *.
    assert (HAe : siteT (S k) Ae).
    { apply (Hk (S k) (length (s_tr X)) 0 0 (gBL X (S k)) (gBR X (S k)) (gA X (S k)) (kopp R hdt) (kopp R hdt));
        [lia|apply Hsh; lia|apply HwL; lia|apply HwR; lia]. }
    assert (gBLX' : forall j, gBL X' j = gBL X j) by (intros j; unfold gBL; rewrite VBL; reflexivity).
    assert (gBRX' : forall j, gBR X' j = gBR X j) by (intros j; unfold gBR; rewrite VBR; reflexivity).
    assert (EXk : gA X' k = gA X k) by (rewrite VA; replace (Nat.eqb k (S k)) with false by (symmetry; apply Nat.eqb_neq; lia); reflexivity).
    assert (EXSk : gA X' (S k) = Ae) by (rewrite VA, Nat.eqb_refl; reflexivity).
    destruct (pair_facts X' k 1 true ltac:(lia) ltac:(lia)) as (p & A0 & A1 & HM0 & HM1 & HA0 & HA1 & Em & Hun & EA & EBL & EBR & l1).
    { rewrite EXk. apply Hsh. lia. }
    { rewrite EXSk. exact HAe. }
    { rewrite gBLX'. apply HwL. lia. }
    { rewrite gBRX'. apply HwR. lia. }
    { exact (ok_rl_pair X k Hok). }
    cbv zeta in *. change (tval dt hdt 1) with hdt in *. rewrite ?EXk, ?EXSk, ?gBLX', ?gBRX' in HM0, HM1, Em.
    set (P := pair X' k 1 true) in *.
    destruct (updBR_unfold P k ltac:(rewrite EBR, VBR; lia)) as (UA & UBL & Ul & UBR).
    assert (gBRP : forall j, gBR P j = gBR X j) by (intros j; unfold gBR; rewrite EBR, VBR; reflexivity).
    assert (EPSk : gA P (S k) = A1).
    { rewrite EA, Nat.eqb_refl. replace (Nat.eqb (S k) k) with false by (symmetry; apply Nat.eqb_neq; lia). reflexivity. }
    exists (length (s_tr X)), p, A0, A1. cbv zeta. fold Ae.
    split; [exact HAe|]. split; [exact HM0|]. split; [exact HM1|]. split; [exact HA0|]. split; [exact HA1|]. split; [exact Em|].
    split; [exact Hun|].
    split; [apply (wenv_stepR R Hs d Ds DW Hd HW); [lia|exact HA1]|].
    split.
    { intros j. change (rl X k) with (upd_BR Hs P (S k)). unfold gA at 1. rewrite UA. change (nth j (s_A P) []) with (gA P j). rewrite EA.
      destruct (Nat.eqb_spec j k) as [->|N1]; [reflexivity|]. destruct (Nat.eqb_spec j (S k)) as [->|N2]; [reflexivity|].
      rewrite VA. replace (Nat.eqb j (S k)) with false by (symmetry; apply Nat.eqb_neq; lia). reflexivity. }
    split.
    { intros j. change (rl X k) with (upd_BR Hs P (S k)). unfold gBL. rewrite UBL, EBL, VBL. reflexivity. }
    split.
    { intros j. change (rl X k) with (upd_BR Hs P (S k)). rewrite UBR, EPSk, !gBRP. reflexivity. }
    change (rl X k) with (upd_BR Hs P (S k)). rewrite UA, UBL, Ul, EBL, EBR, VBL, VBR. split; [exact l1|]. split; assumption.
  Qed.

  Lemma EI2_rl (X : sw) k : EIi (S k) X -> S (S k) < L -> ok (s_tr (rl X k)) -> EIi k (rl X k).
  Proof.
    intros HEI HSk Hok.
    destruct (rl2_facts X k HEI HSk Hok) as (p & p' & A0 & A1 & HAe & HM0 & HM1 & HA0 & HA1 & Em & Hun & HBRn & EA & EBL & EBR & l1 & l2 & l3).
    cbv zeta in *. destruct HEI as (lA & lBL & lBR & Hsh & Hlu & Hru & HwL & HwR & HrL & HrR & H0 & HL1).
    destruct Hprof as (_ & _ & _ & PL & PR).
    split; [exact l1|]. split; [exact l2|]. split; [exact l3|].
    split.
    { intros j Hj. rewrite EA. destruct (Nat.eqb_spec j k) as [->|N1]; [exact HA0|].
      destruct (Nat.eqb_spec j (S k)) as [->|N2]; [exact HA1|apply Hsh; exact Hj]. }
    split.
    { intros j Hj Hjm. rewrite EA. destruct (Nat.eqb_spec j k) as [->|N1]; [lia|].
      destruct (Nat.eqb_spec j (S k)) as [->|N2]; [lia|]. apply Hlu; lia. }
    split.
    { intros j Hj Hjm. rewrite EA. destruct (Nat.eqb_spec j k) as [->|N1]; [lia|].
      destruct (Nat.eqb_spec j (S k)) as [->|N2]; [apply Hun; apply PR; lia|]. apply Hru; lia. }
    split.
    { intros j Hj. rewrite EBL. apply HwL. lia. }
    split.
    { intros j Hj. rewrite EBR. destruct (Nat.eqb_spec j k) as [->|N1]; [exact HBRn|]. apply HwR. lia. }
    split.
    { intros j Hj. rewrite !EBL, (EA j).
      replace (Nat.eqb j k) with false by (symmetry; apply Nat.eqb_neq; lia).
      replace (Nat.eqb j (S k)) with false by (symmetry; apply Nat.eqb_neq; lia). apply HrL. lia. }
    split.
    { intros j Hj. rewrite (EBR (j - 1)), (EBR j), (EA j).
      replace (Nat.eqb j k) with false by (symmetry; apply Nat.eqb_neq; lia).
      destruct (Nat.eqb_spec j (S k)) as [->|N1].
      - replace (S k - 1) with k by lia. rewrite Nat.eqb_refl. reflexivity.
      - replace (Nat.eqb (j - 1) k) with false by (symmetry; apply Nat.eqb_neq; lia). apply HrR. lia. }
    split; [rewrite EBL; exact H0|].
    rewrite EBR. replace (Nat.eqb (L - 1) k) with false by (symmetry; apply Nat.eqb_neq; lia). exact HL1.
  Qed.
End Step2.
