(* C08/C09/C10 — the call schedule of the sweep skeletons (Model/Sweeps.v): for every number of sites, every number of
   steps / sweeps and ALL oracles, the emitted trace is a fixed list; its local-solver subsequence is the palindromic
   schedule of the symmetric integrator. *)
From Coq Require Import ZArith List Lia Bool.
From PT Require Import Base.Scalar Base.BigSum Base.Mx Model.Tensor Model.Operation Model.Sweeps.
Import ListNotations.

(* ---------------- list facts ---------------- *)
Lemma rev_flat_map {A B} (f : A -> list B) (l : list A) : rev (flat_map f l) = flat_map (fun x => rev (f x)) (rev l).
Proof.
  induction l as [|a l IH]; [reflexivity|]. cbn [flat_map rev]. rewrite rev_app_distr, IH, flat_map_app. cbn [flat_map].
  rewrite app_nil_r. reflexivity.
Qed.
Lemma filter_flat_map {A B} (p : B -> bool) (f : A -> list B) (l : list A) :
  filter p (flat_map f l) = flat_map (fun x => filter p (f x)) l.
Proof. induction l as [|a l IH]; [reflexivity|]. cbn [flat_map]. rewrite filter_app, IH. reflexivity. Qed.
Lemma filter_ncat {A} (p : A -> bool) n (l : list A) : filter p (ncat n l) = ncat n (filter p l).
Proof. induction n as [|n IH]; [reflexivity|]. cbn [ncat]. rewrite filter_app, IH. reflexivity. Qed.
Lemma rev_ncat {A} n (l : list A) : rev (ncat n l) = ncat n (rev l).
Proof.
  assert (H : forall m, ncat m (rev l) ++ rev l = rev l ++ ncat m (rev l)).
  { induction m as [|m IHm]; cbn [ncat]; [rewrite app_nil_r; reflexivity|]. rewrite <- app_assoc, IHm. reflexivity. }
  induction n as [|n IH]; [reflexivity|]. cbn [ncat]. rewrite rev_app_distr, IH. apply H.
Qed.
Lemma map_ncat {A B} (f : A -> B) n (l : list A) : map f (ncat n l) = ncat n (map f l).
Proof. induction n as [|n IH]; [reflexivity|]. cbn [ncat]. rewrite map_app, IH. reflexivity. Qed.
Lemma flat_map_map {A B C} (f : A -> B) (g : B -> list C) (l : list A) : flat_map g (map f l) = flat_map (fun x => g (f x)) l.
Proof. induction l as [|a l IH]; [reflexivity|]. cbn [map flat_map]. rewrite IH. reflexivity. Qed.
Lemma flat_map_ext_in {A B} (f g : A -> list B) (l : list A) : (forall x, In x l -> f x = g x) -> flat_map f l = flat_map g l.
Proof.
  induction l as [|a l IH]; intros H; [reflexivity|]. cbn [flat_map]. rewrite (H a) by (left; reflexivity).
  rewrite IH; [reflexivity|]. intros x Hx. apply H. right. exact Hx.
Qed.
Lemma seq_shift1 n : seq 1 n = map S (seq 0 n).
Proof. symmetry. apply seq_shift. Qed.

(* ---------------- palindromes ---------------- *)
Lemma sched1_rl_alt L : sched1_rl L = flat_map (fun j => [mkcall KB j (-1); mkcall KH j 1]) (rev (seq 0 (L - 1))).
Proof.
  unfold sched1_rl. rewrite seq_shift1, <- map_rev, flat_map_map. apply flat_map_ext_in. intros x _.
  cbn [Nat.sub]. rewrite Nat.sub_0_r. reflexivity.
Qed.
Theorem sched1_palindrome L : rev (sched1 L) = sched1 L.
Proof.
  unfold sched1. rewrite !rev_app_distr. cbn [rev app]. rewrite sched1_rl_alt.
  unfold sched1_lr. rewrite !rev_flat_map, rev_involutive. cbn [rev app]. rewrite <- app_assoc. reflexivity.
Qed.
Theorem sched2_palindrome L : rev (sched2 L) = sched2 L.
Proof.
  unfold sched2, sched2_lr, sched2_rl. rewrite !rev_app_distr. cbn [rev app].
  rewrite !rev_flat_map, rev_involutive. cbn [rev app]. rewrite <- app_assoc. reflexivity.
Qed.
Theorem sched_ncat_palindrome n (l : list call) : rev l = l -> rev (ncat n l) = ncat n l.
Proof. intros H. rewrite rev_ncat, H. reflexivity. Qed.

(* explicit shape of the single-site schedule for L = k+1 sites (readable form of the statement in DESIGN C09) *)
Theorem sched1_explicit k :
  sched1 (S k) = flat_map (fun i => [mkcall KH i 1; mkcall KB i (-1)]) (seq 0 k) ++ [mkcall KH k 2] ++
                 flat_map (fun i => [mkcall KB i (-1); mkcall KH i 1]) (rev (seq 0 k)).
Proof. unfold sched1. rewrite sched1_rl_alt. unfold sched1_lr. cbn [Nat.sub]. rewrite Nat.sub_0_r. reflexivity. Qed.

(* ---------------- the full traces ---------------- *)
Definition full1 (L : nat) : list call :=
  flat_map (fun i => [mkcall KH i 1; mkcall QR i 0; mkcall STL i 0; mkcall KB i (-1)]) (seq 0 (L - 1)) ++
  [mkcall KH (L - 1) 2] ++
  flat_map (fun i => [mkcall QR i 0; mkcall STR i 0; mkcall KB (i - 1) (-1); mkcall KH (i - 1) 1]) (rev (seq 1 (L - 1))).
Definition full2 (L : nat) : list call :=
  flat_map (fun i => [mkcall KH2 i 1; mkcall SPLITR i 0; mkcall STL i 0; mkcall KH (S i) (-1)]) (seq 0 (L - 2)) ++
  [mkcall KH2 (L - 2) 2; mkcall SPLITL (L - 2) 0; mkcall STR (S (L - 2)) 0] ++
  flat_map (fun i => [mkcall KH (S i) (-1); mkcall KH2 i 1; mkcall SPLITL i 0; mkcall STR (S i) 0]) (rev (seq 0 (L - 2))).
Definition dfull1 (L : nat) : list call :=
  flat_map (fun i => [mkcall EIG i 0; mkcall QR i 0; mkcall STL i 0]) (seq 0 (L - 1)) ++
  flat_map (fun i => [mkcall EIG i 0; mkcall QR i 0; mkcall STR i 0]) (rev (seq 1 (L - 1))) ++ [mkcall QR 0 0].
Definition dfull2 (L : nat) : list call :=
  flat_map (fun i => [mkcall EIG2 i 0; mkcall SPLITR i 0; mkcall STL i 0]) (seq 0 (L - 2)) ++
  flat_map (fun i => [mkcall EIG2 i 0; mkcall SPLITL i 0; mkcall STR (S i) 0]) (rev (seq 0 (L - 1))) ++ [mkcall QR 0 0].

Lemma flat_map_singletons {A B} (f : A -> B) (l : list A) : flat_map (fun x => [f x]) l = map f l.
Proof. induction l as [|a l IH]; [reflexivity|]. cbn [flat_map map app]. rewrite IH. reflexivity. Qed.

Lemma full1_solver L : filter is_solver (full1 L) = sched1 L.
Proof. unfold full1, sched1, sched1_lr, sched1_rl. rewrite !filter_app, !filter_flat_map. reflexivity. Qed.
Lemma full2_solver L : filter is_solver (full2 L) = sched2 L.
Proof. unfold full2, sched2, sched2_lr, sched2_rl. rewrite !filter_app, !filter_flat_map. reflexivity. Qed.
Lemma dfull1_solver L : filter is_solver (dfull1 L) = dsched1 L.
Proof.
  unfold dfull1, dsched1. rewrite !filter_app, !filter_flat_map. cbn [filter is_solver c_kind app].
  rewrite app_nil_r, !flat_map_singletons. reflexivity.
Qed.
Lemma dfull2_solver L : filter is_solver (dfull2 L) = dsched2 L.
Proof.
  unfold dfull2, dsched2. rewrite !filter_app, !filter_flat_map. cbn [filter is_solver c_kind app].
  rewrite app_nil_r, !flat_map_singletons. reflexivity.
Qed.

Section Sched.
  Variable R : cring.
  Notation sw := (sw R).
  Variable orth_right : mps R -> mps R * R.
  Variable qr : nat -> mx R -> list Z -> list Z -> mx R * mx R * list Z.
  Variable split : nat -> site R -> list Z -> list Z -> list Z -> list Z -> bool -> site R * site R * list Z.
  Variable kexp : nat -> env R -> env R -> osite R -> site R -> R -> site R.
  Variable kexp0 : nat -> env R -> env R -> mx R -> R -> mx R.
  Variable keig : nat -> env R -> env R -> osite R -> site R -> R * site R.

  (* the trace in program order *)
  Definition fwd (st : sw) : list call := map (@t_call R) (rev (s_tr st)).

  Lemma fwd_cons (st st' : sw) new : s_tr st' = new ++ s_tr st -> fwd st' = fwd st ++ map (@t_call R) (rev new).
  Proof. intros H. unfold fwd. rewrite H, rev_app_distr, map_app. reflexivity. Qed.

  Lemma fwd_fold {S} (proj : S -> sw) (body : S -> nat -> S) (g : nat -> list call) (l : list nat) :
    (forall s i, fwd (proj (body s i)) = fwd (proj s) ++ g i) ->
    forall s, fwd (proj (fold_left body l s)) = fwd (proj s) ++ flat_map g l.
  Proof.
    intros Hb. induction l as [|i l IH]; intros s; cbn [fold_left flat_map]; [rewrite app_nil_r; reflexivity|].
    rewrite IH, Hb, <- app_assoc. reflexivity.
  Qed.

  Lemma fwd_iter (step : sw -> sw) (g : list call) : (forall st, fwd (step st) = fwd st ++ g) ->
    forall n st, fwd (iter n step st) = fwd st ++ ncat n g.
  Proof.
    intros Hs. induction n as [|n IH]; intros st; cbn [iter ncat]; [rewrite app_nil_r; reflexivity|].
    rewrite IH, Hs, <- app_assoc. reflexivity.
  Qed.

  Section WithH.
    Variables (Hs : list (osite R)) (qd : list Z) (dt hdt : R).

    Lemma fwd_tdvp1_lr st i : fwd (tdvp1_lr qr kexp kexp0 Hs qd dt hdt st i) =
      fwd st ++ [mkcall KH i 1; mkcall QR i 0; mkcall STL i 0; mkcall KB i (-1)].
    Proof.
      unfold tdvp1_lr, qr_left. cbv zeta.
      destruct (qr _ _ _ _) as [[Q C] qb]. unfold fwd. cbn [s_tr rev]. rewrite !map_app. cbn [map at_site t_call c_kind c_coef].
      rewrite <- !app_assoc. reflexivity.
    Qed.
    Lemma fwd_tdvp1_mid st i : fwd (tdvp1_mid kexp Hs dt hdt st i) = fwd st ++ [mkcall KH i 2].
    Proof. unfold tdvp1_mid, fwd. cbn [s_tr rev]. rewrite map_app. reflexivity. Qed.
    Lemma fwd_tdvp1_rl st i : fwd (tdvp1_rl qr kexp kexp0 Hs qd dt hdt st i) =
      fwd st ++ [mkcall QR i 0; mkcall STR i 0; mkcall KB (i - 1) (-1); mkcall KH (i - 1) 1].
    Proof.
      unfold tdvp1_rl, qr_right. cbv zeta.
      destruct (qr _ _ _ _) as [[Q C] qb]. unfold fwd. cbn [s_tr rev]. rewrite !map_app. cbn [map at_site t_call c_kind c_coef].
      rewrite <- !app_assoc. reflexivity.
    Qed.
    Lemma fwd_tdvp1_step L st : fwd (tdvp1_step qr kexp kexp0 Hs qd dt hdt L st) = fwd st ++ full1 L.
    Proof.
      unfold tdvp1_step. cbv zeta.
      rewrite (fwd_fold (fun s => s) _ _ _ (fun s i => fwd_tdvp1_rl s i)).
      rewrite fwd_tdvp1_mid.
      rewrite (fwd_fold (fun s => s) _ _ _ (fun s i => fwd_tdvp1_lr s i)).
      unfold full1. rewrite <- !app_assoc. reflexivity.
    Qed.

    Lemma fwd_tdvp2_pair st i c left : fwd (tdvp2_pair split kexp Hs qd dt hdt st i c left) =
      fwd st ++ [mkcall KH2 i c; mkcall (if left then SPLITL else SPLITR) i 0].
    Proof.
      unfold tdvp2_pair. cbv zeta. destruct (split _ _ _ _ _ _ _) as [[A0 A1] qb]. unfold fwd. cbn [s_tr rev].
      rewrite !map_app. cbn [map t_call]. rewrite <- !app_assoc. reflexivity.
    Qed.
    Lemma fwd_upd_BL st i : fwd (upd_BL Hs st i) = fwd st ++ [mkcall STL i 0].
    Proof. unfold upd_BL, fwd. cbn [s_tr rev]. rewrite map_app. reflexivity. Qed.
    Lemma fwd_upd_BR st j : fwd (upd_BR Hs st j) = fwd st ++ [mkcall STR j 0].
    Proof. unfold upd_BR, fwd. cbn [s_tr rev]. rewrite map_app. reflexivity. Qed.
    Lemma fwd_evolve_site st j c : fwd (evolve_site kexp Hs dt hdt st j c) = fwd st ++ [mkcall KH j c].
    Proof. unfold evolve_site, fwd. cbn [s_tr rev]. rewrite map_app. reflexivity. Qed.
    Lemma fwd_tdvp2_lr st i : fwd (tdvp2_lr split kexp Hs qd dt hdt st i) =
      fwd st ++ [mkcall KH2 i 1; mkcall SPLITR i 0; mkcall STL i 0; mkcall KH (S i) (-1)].
    Proof. unfold tdvp2_lr. rewrite fwd_evolve_site, fwd_upd_BL, fwd_tdvp2_pair, <- !app_assoc. reflexivity. Qed.
    Lemma fwd_tdvp2_mid st i : fwd (tdvp2_mid split kexp Hs qd dt hdt st i) =
      fwd st ++ [mkcall KH2 i 2; mkcall SPLITL i 0; mkcall STR (S i) 0].
    Proof. unfold tdvp2_mid. rewrite fwd_upd_BR, fwd_tdvp2_pair, <- !app_assoc. reflexivity. Qed.
    Lemma fwd_tdvp2_rl st i : fwd (tdvp2_rl split kexp Hs qd dt hdt st i) =
      fwd st ++ [mkcall KH (S i) (-1); mkcall KH2 i 1; mkcall SPLITL i 0; mkcall STR (S i) 0].
    Proof. unfold tdvp2_rl. rewrite fwd_upd_BR, fwd_tdvp2_pair, fwd_evolve_site, <- !app_assoc. reflexivity. Qed.
    Lemma fwd_tdvp2_step L st : fwd (tdvp2_step split kexp Hs qd dt hdt L st) = fwd st ++ full2 L.
    Proof.
      unfold tdvp2_step. cbv zeta.
      rewrite (fwd_fold (fun s => s) _ _ _ (fun s i => fwd_tdvp2_rl s i)).
      rewrite fwd_tdvp2_mid.
      rewrite (fwd_fold (fun s => s) _ _ _ (fun s i => fwd_tdvp2_lr s i)).
      unfold full2. rewrite <- !app_assoc. reflexivity.
    Qed.

    (* ---- DMRG ---- *)
    Lemma fwd_dmrg_opt se i : fwd (fst (dmrg_opt keig Hs se i)) = fwd (fst se) ++ [mkcall EIG i 0].
    Proof. unfold dmrg_opt. cbv zeta. destruct (keig _ _ _ _ _) as [en A1]. unfold fwd. cbn [fst s_tr rev]. rewrite map_app. reflexivity. Qed.
    Lemma fwd_dmrg_qr_left st i : fwd (dmrg_qr_left qr qd st i) = fwd st ++ [mkcall QR i 0].
    Proof.
      unfold dmrg_qr_left, qr_left. cbv zeta. destruct (qr _ _ _ _) as [[Q C] qb]. unfold fwd. cbn [s_tr rev].
      rewrite map_app. reflexivity.
    Qed.
    Lemma fwd_dmrg_qr_right st i : fwd (dmrg_qr_right qr qd st i) = fwd st ++ [mkcall QR i 0].
    Proof.
      unfold dmrg_qr_right, qr_right. cbv zeta. destruct (qr _ _ _ _) as [[Q C] qb]. unfold fwd. cbn [s_tr rev].
      rewrite map_app. reflexivity.
    Qed.
    Lemma fwd_dmrg_final_qr st : fwd (dmrg_final_qr qr qd st) = fwd st ++ [mkcall QR 0 0].
    Proof.
      unfold dmrg_final_qr, qr_right. cbv zeta. destruct (qr _ _ _ _) as [[Q C] qb]. unfold fwd. cbn [s_tr rev].
      rewrite map_app. reflexivity.
    Qed.
    Lemma fwd_dmrg1_lr se i : fwd (fst (dmrg1_lr qr keig Hs qd se i)) = fwd (fst se) ++ [mkcall EIG i 0; mkcall QR i 0; mkcall STL i 0].
    Proof. unfold dmrg1_lr, lift. cbn [fst]. rewrite fwd_upd_BL, fwd_dmrg_qr_left, fwd_dmrg_opt, <- !app_assoc. reflexivity. Qed.
    Lemma fwd_dmrg1_rl se i : fwd (fst (dmrg1_rl qr keig Hs qd se i)) = fwd (fst se) ++ [mkcall EIG i 0; mkcall QR i 0; mkcall STR i 0].
    Proof. unfold dmrg1_rl, lift. cbn [fst]. rewrite fwd_upd_BR, fwd_dmrg_qr_right, fwd_dmrg_opt, <- !app_assoc. reflexivity. Qed.
    Lemma fwd_dmrg1_sweep L st : fwd (fst (dmrg1_sweep qr keig Hs qd L st)) = fwd st ++ dfull1 L.
    Proof.
      unfold dmrg1_sweep, lift. cbv zeta. cbn [fst]. rewrite fwd_dmrg_final_qr.
      rewrite (fwd_fold (@fst sw R) _ _ _ (fun s i => fwd_dmrg1_rl s i)).
      rewrite (fwd_fold (@fst sw R) _ _ _ (fun s i => fwd_dmrg1_lr s i)).
      cbn [fst]. unfold dfull1. rewrite <- !app_assoc. reflexivity.
    Qed.
    Lemma fwd_dmrg2_pair se i left : fwd (fst (dmrg2_pair split keig Hs qd se i left)) =
      fwd (fst se) ++ [mkcall EIG2 i 0; mkcall (if left then SPLITL else SPLITR) i 0].
    Proof.
      unfold dmrg2_pair. cbv zeta. destruct (keig _ _ _ _ _) as [en Am1]. destruct (split _ _ _ _ _ _ _) as [[A0 A1] qb].
      unfold fwd. cbn [fst s_tr rev]. rewrite !map_app. cbn [map t_call]. rewrite <- !app_assoc. reflexivity.
    Qed.
    Lemma fwd_dmrg2_lr se i : fwd (fst (dmrg2_lr split keig Hs qd se i)) = fwd (fst se) ++ [mkcall EIG2 i 0; mkcall SPLITR i 0; mkcall STL i 0].
    Proof. unfold dmrg2_lr, lift. cbn [fst]. rewrite fwd_upd_BL, fwd_dmrg2_pair, <- !app_assoc. reflexivity. Qed.
    Lemma fwd_dmrg2_rl se i : fwd (fst (dmrg2_rl split keig Hs qd se i)) = fwd (fst se) ++ [mkcall EIG2 i 0; mkcall SPLITL i 0; mkcall STR (S i) 0].
    Proof. unfold dmrg2_rl, lift. cbn [fst]. rewrite fwd_upd_BR, fwd_dmrg2_pair, <- !app_assoc. reflexivity. Qed.
    Lemma fwd_dmrg2_sweep L st : fwd (fst (dmrg2_sweep qr split keig Hs qd L st)) = fwd st ++ dfull2 L.
    Proof.
      unfold dmrg2_sweep, lift. cbv zeta. cbn [fst]. rewrite fwd_dmrg_final_qr.
      rewrite (fwd_fold (@fst sw R) _ _ _ (fun s i => fwd_dmrg2_rl s i)).
      rewrite (fwd_fold (@fst sw R) _ _ _ (fun s i => fwd_dmrg2_lr s i)).
      cbn [fst]. unfold dfull2. rewrite <- !app_assoc. reflexivity.
    Qed.

    Lemma fwd_dmrg_loop (sweep : sw -> sw * R) (g : list call) : (forall st, fwd (fst (sweep st)) = fwd st ++ g) ->
      forall n st ens, fwd (fst (dmrg_loop sweep n st ens)) = fwd st ++ ncat n g.
    Proof.
      intros Hs'. induction n as [|n IH]; intros st ens; cbn [dmrg_loop ncat fst]; [rewrite app_nil_r; reflexivity|].
      specialize (Hs' st). destruct (sweep st) as [st' en]. cbn [fst] in Hs'. rewrite IH, Hs', <- app_assoc. reflexivity.
    Qed.
    Lemma len_dmrg_loop (sweep : sw -> sw * R) : forall n st ens, length (snd (dmrg_loop sweep n st ens)) = (length ens + n)%nat.
    Proof.
      induction n as [|n IH]; intros st ens; cbn [dmrg_loop snd]; [lia|].
      destruct (sweep st) as [st' en]. rewrite IH, app_length. cbn [length]. lia.
    Qed.
  End WithH.

  Lemma sweep_init_trace H psi st nrm : sweep_init orth_right H psi = Some (st, nrm) -> s_tr st = [] /\ nrm = snd (orth_right psi).
  Proof.
    unfold sweep_init. destruct (negb _); [discriminate|]. destruct (orth_right psi) as [psi1 n1].
    destruct (compute_right_operator_blocks psi1 H); [|discriminate]. destruct (forallb _ _); [|discriminate].
    intros E. injection E as <- <-. split; reflexivity.
  Qed.

  (* ---------------- the trace theorems ---------------- *)
  Theorem tdvp1_trace H psi dt hdt n A qD nrm tr :
    tdvp_singlesite orth_right qr kexp kexp0 H psi dt hdt n = Some (A, qD, nrm, tr) ->
    map (@t_call R) tr = ncat n (full1 (length (o_A H))) /\ nrm = snd (orth_right psi).
  Proof.
    unfold tdvp_singlesite. destruct (sweep_init orth_right H psi) as [[st nrm']|] eqn:E; [|discriminate].
    apply sweep_init_trace in E. destruct E as [E1 E2]. intros E. injection E as <- <- <- <-. split; [|exact E2].
    change (fwd (iter n (tdvp1_step qr kexp kexp0 (o_A H) (m_qd psi) dt hdt (length (o_A H))) st) = ncat n (full1 (length (o_A H)))).
    rewrite (fwd_iter _ _ (fun s => fwd_tdvp1_step (o_A H) (m_qd psi) dt hdt (length (o_A H)) s)).
    unfold fwd. rewrite E1. reflexivity.
  Qed.
  Theorem tdvp2_trace H psi dt hdt n A qD nrm tr :
    tdvp_twosite orth_right split kexp H psi dt hdt n = Some (A, qD, nrm, tr) ->
    map (@t_call R) tr = ncat n (full2 (length (o_A H))) /\ nrm = snd (orth_right psi).
  Proof.
    unfold tdvp_twosite. destruct (Nat.ltb _ _); [discriminate|].
    destruct (sweep_init orth_right H psi) as [[st nrm']|] eqn:E; [|discriminate].
    apply sweep_init_trace in E. destruct E as [E1 E2]. intros E. injection E as <- <- <- <-. split; [|exact E2].
    change (fwd (iter n (tdvp2_step split kexp (o_A H) (m_qd psi) dt hdt (length (o_A H))) st) = ncat n (full2 (length (o_A H)))).
    rewrite (fwd_iter _ _ (fun s => fwd_tdvp2_step (o_A H) (m_qd psi) dt hdt (length (o_A H)) s)).
    unfold fwd. rewrite E1. reflexivity.
  Qed.
  Theorem dmrg1_trace H psi n A qD ens tr :
    dmrg_singlesite orth_right qr keig H psi n = Some (A, qD, ens, tr) ->
    map (@t_call R) tr = ncat n (dfull1 (length (o_A H))) /\ length ens = n.
  Proof.
    unfold dmrg_singlesite. destruct (sweep_init orth_right H psi) as [[st nrm']|] eqn:E; [|discriminate].
    apply sweep_init_trace in E. destruct E as [E1 _].
    destruct (dmrg_loop _ n st []) as [st' ens'] eqn:El. intros E. injection E as <- <- <- <-.
    pose proof (fwd_dmrg_loop _ _ (fun s => fwd_dmrg1_sweep (o_A H) (m_qd psi) (length (o_A H)) s) n st []) as Hf.
    pose proof (len_dmrg_loop (dmrg1_sweep qr keig (o_A H) (m_qd psi) (length (o_A H))) n st []) as Hl.
    rewrite El in Hf, Hl. cbn [fst snd length] in Hf, Hl. split; [|exact Hl].
    unfold fwd in Hf. rewrite E1 in Hf. exact Hf.
  Qed.
  Theorem dmrg2_trace H psi n A qD ens tr :
    dmrg_twosite orth_right qr split keig H psi n = Some (A, qD, ens, tr) ->
    map (@t_call R) tr = ncat n (dfull2 (length (o_A H))) /\ length ens = n.
  Proof.
    unfold dmrg_twosite. destruct (sweep_init orth_right H psi) as [[st nrm']|] eqn:E; [|discriminate].
    apply sweep_init_trace in E. destruct E as [E1 _].
    destruct (dmrg_loop _ n st []) as [st' ens'] eqn:El. intros E. injection E as <- <- <- <-.
    pose proof (fwd_dmrg_loop _ _ (fun s => fwd_dmrg2_sweep (o_A H) (m_qd psi) (length (o_A H)) s) n st []) as Hf.
    pose proof (len_dmrg_loop (dmrg2_sweep qr split keig (o_A H) (m_qd psi) (length (o_A H))) n st []) as Hl.
    rewrite El in Hf, Hl. cbn [fst snd length] in Hf, Hl. split; [|exact Hl].
    unfold fwd in Hf. rewrite E1 in Hf. exact Hf.
  Qed.

  (* solver-call subsequences *)
  Lemma solver_calls_of (tr : list (tcall R)) l : map (@t_call R) tr = l -> solver_calls tr = filter is_solver l.
  Proof. intros <-. reflexivity. Qed.

  Theorem tdvp1_schedule H psi dt hdt n A qD nrm tr :
    tdvp_singlesite orth_right qr kexp kexp0 H psi dt hdt n = Some (A, qD, nrm, tr) ->
    solver_calls tr = ncat n (sched1 (length (o_A H))) /\ rev (solver_calls tr) = solver_calls tr.
  Proof.
    intros E. apply tdvp1_trace in E. destruct E as [E _]. rewrite (solver_calls_of _ _ E), filter_ncat, full1_solver.
    split; [reflexivity|]. apply sched_ncat_palindrome, sched1_palindrome.
  Qed.
  Theorem tdvp2_schedule H psi dt hdt n A qD nrm tr :
    tdvp_twosite orth_right split kexp H psi dt hdt n = Some (A, qD, nrm, tr) ->
    solver_calls tr = ncat n (sched2 (length (o_A H))) /\ rev (solver_calls tr) = solver_calls tr.
  Proof.
    intros E. apply tdvp2_trace in E. destruct E as [E _]. rewrite (solver_calls_of _ _ E), filter_ncat, full2_solver.
    split; [reflexivity|]. apply sched_ncat_palindrome, sched2_palindrome.
  Qed.
  Theorem dmrg1_schedule H psi n A qD ens tr :
    dmrg_singlesite orth_right qr keig H psi n = Some (A, qD, ens, tr) ->
    solver_calls tr = ncat n (dsched1 (length (o_A H))) /\ length ens = n.
  Proof.
    intros E. apply dmrg1_trace in E. destruct E as [E El]. rewrite (solver_calls_of _ _ E), filter_ncat, dfull1_solver. auto.
  Qed.
  Theorem dmrg2_schedule H psi n A qD ens tr :
    dmrg_twosite orth_right qr split keig H psi n = Some (A, qD, ens, tr) ->
    solver_calls tr = ncat n (dsched2 (length (o_A H))) /\ length ens = n.
  Proof.
    intros E. apply dmrg2_trace in E. destruct E as [E El]. rewrite (solver_calls_of _ _ E), filter_ncat, dfull2_solver. auto.
  Qed.
End Sched.
