(* C04 — environment blocks and the effective local operators:
   adjointness of the left and right contraction steps, and the projection identities. *)
From Coq Require Import Arith List Lia Ring Setoid Morphisms Bool.
From PT Require Import Base.Scalar Base.BigSum Base.Mx Model.Tensor Model.Operation
  Proofs.OperationSums Proofs.OperationEntries Proofs.OperationChains Proofs.OperationTransfer.
Import ListNotations.

Section Local.
  Variable R : cring.
  Add Ring Rring_c04_local : (k_rt R).
  Notation "0" := (k0 R). Notation "1" := (k1 R).
  Infix "+" := (kadd R). Infix "*" := (kmul R).
  Notation site := (site R).
  Notation osite := (osite R).
  Notation env := (env R).
  Notation mx := (mx R).
  Notation cj := (kconj R).

  (* chains without the constraint on the trailing bond dimension (left parts of a chain) *)
  Fixpoint chainx_ok (ds Ds : list nat) (As : list site) : Prop :=
    match As, ds, Ds with
    | [], [], [D] => True
    | A :: As', d :: ds', Dl :: ((Dr :: _) as Ds') => 0 < d /\ site_ok d Dl Dr A /\ chainx_ok ds' Ds' As'
    | _, _, _ => False
    end.
  Fixpoint ochainx_ok (ds Ds : list nat) (Ws : list osite) : Prop :=
    match Ws, ds, Ds with
    | [], [], [D] => True
    | W :: Ws', d :: ds', Dl :: ((Dr :: _) as Ds') => 0 < d /\ 0 < Dr /\ osite_ok d Dl Dr W /\ ochainx_ok ds' Ds' Ws'
    | _, _, _ => False
    end.

  Lemma chainx_ok_nil_inv ds Ds : chainx_ok ds Ds [] -> ds = [] /\ exists D, Ds = [D].
  Proof. destruct ds; destruct Ds as [|D [|? ?]]; simpl; try tauto. intros _. split; [reflexivity|]. exists D. reflexivity. Qed.
  Lemma chainx_ok_cons_inv ds Ds A As : chainx_ok ds Ds (A :: As) ->
    exists d ds' Dl Dr Ds', ds = d :: ds' /\ Ds = Dl :: Dr :: Ds' /\ 0 < d /\ site_ok d Dl Dr A /\ chainx_ok ds' (Dr :: Ds') As.
  Proof.
    destruct ds as [|d ds']; destruct Ds as [|Dl [|Dr Ds']]; try (simpl; tauto).
    intros H. exists d, ds', Dl, Dr, Ds'. split; [reflexivity|]. split; [reflexivity|]. exact H.
  Qed.
  Lemma ochainx_ok_nil_inv ds Ds : ochainx_ok ds Ds [] -> ds = [] /\ exists D, Ds = [D].
  Proof. destruct ds; destruct Ds as [|D [|? ?]]; simpl; try tauto. intros _. split; [reflexivity|]. exists D. reflexivity. Qed.
  Lemma ochainx_ok_cons_inv ds Ds W Ws : ochainx_ok ds Ds (W :: Ws) ->
    exists d ds' Dl Dr Ds', ds = d :: ds' /\ Ds = Dl :: Dr :: Ds' /\ 0 < d /\ 0 < Dr /\ osite_ok d Dl Dr W /\ ochainx_ok ds' (Dr :: Ds') Ws.
  Proof.
    destruct ds as [|d ds']; destruct Ds as [|Dl [|Dr Ds']]; try (simpl; tauto).
    intros H. exists d, ds', Dl, Dr, Ds'. split; [reflexivity|]. split; [reflexivity|]. exact H.
  Qed.

  (* gluing  left part ++ site :: right part *)
  Lemma chain_glue (Al : list site) : forall dsl Dsl d Dl Dr X dsr Dsr Ar,
    chainx_ok dsl Dsl Al -> last Dsl 0%nat = Dl -> 0 < d -> site_ok d Dl Dr X -> chain_ok dsr (Dr :: Dsr) Ar ->
    chain_ok (dsl ++ d :: dsr) (Dsl ++ Dr :: Dsr) (Al ++ X :: Ar) /\ hd 0%nat (Dsl ++ Dr :: Dsr) = hd 0%nat Dsl.
  Proof.
    induction Al as [|A Al IH]; intros dsl Dsl d Dl Dr X dsr Dsr Ar HAl Hl Hd HX HAr.
    - apply chainx_ok_nil_inv in HAl. destruct HAl as [-> [D ->]]. cbn [last] in Hl. subst D.
      cbn [app hd]. split; [|reflexivity]. apply chain_ok_cons; assumption.
    - apply chainx_ok_cons_inv in HAl. destruct HAl as (d0 & ds' & Dl0 & Dr0 & Ds' & -> & -> & Hd0 & HA & HAl).
      change (last (Dl0 :: Dr0 :: Ds') 0%nat) with (last (Dr0 :: Ds') 0%nat) in Hl.
      destruct (IH _ _ _ _ _ _ _ _ _ HAl Hl Hd HX HAr) as [IH1 IH2].
      cbn [app hd] in *. split; [|reflexivity]. apply chain_ok_cons; assumption.
  Qed.
  Lemma ochain_glue (Wl : list osite) : forall dsl Dsl d Dl Dr X dsr Dsr Wr,
    ochainx_ok dsl Dsl Wl -> last Dsl 0%nat = Dl -> 0 < d -> 0 < Dr -> osite_ok d Dl Dr X -> ochain_ok dsr (Dr :: Dsr) Wr ->
    ochain_ok (dsl ++ d :: dsr) (Dsl ++ Dr :: Dsr) (Wl ++ X :: Wr) /\ hd 0%nat (Dsl ++ Dr :: Dsr) = hd 0%nat Dsl.
  Proof.
    induction Wl as [|A Al IH]; intros dsl Dsl d Dl Dr X dsr Dsr Ar HAl Hl Hd HDr HX HAr.
    - apply ochainx_ok_nil_inv in HAl. destruct HAl as [-> [D ->]]. cbn [last] in Hl. subst D.
      cbn [app hd]. split; [|reflexivity]. apply ochain_ok_cons; assumption.
    - apply ochainx_ok_cons_inv in HAl. destruct HAl as (d0 & ds' & Dl0 & Dr0 & Ds' & -> & -> & Hd0 & HDr0 & HA & HAl).
      change (last (Dl0 :: Dr0 :: Ds') 0%nat) with (last (Dr0 :: Ds') 0%nat) in Hl.
      destruct (IH _ _ _ _ _ _ _ _ _ HAl Hl Hd HDr HX HAr) as [IH1 IH2].
      cbn [app hd] in *. split; [|reflexivity]. apply ochain_ok_cons; assumption.
  Qed.

  (* pairing of a left block with a right block *)
  Definition pair3 (Dw Da Db : nat) (L E : env) : R :=
    sumn Dw (fun w => sumn Da (fun a => sumn Db (fun b => get (esel L w) a b * get (esel E w) a b))).

  Lemma step_adjoint d Dal Dar Dbl Dbr Dwl Dwr (A B : site) (W : osite) (L E : env) :
    0 < d -> 0 < Dwl -> 0 < Dwr -> site_ok d Dal Dar A -> site_ok d Dbl Dbr B -> osite_ok d Dwl Dwr W ->
    env_ok Dwl Dal Dbl L -> env_ok Dwr Dar Dbr E ->
    pair3 Dwr Dar Dbr (contraction_operator_step_left A B W L) E =
    pair3 Dwl Dal Dbl L (contraction_operator_step_right A B W E).
  Proof.
    intros Hd Hwl Hwr HA HB HW HL HE. unfold pair3.
    transitivity (sumn Dwr (fun wr => sumn Dar (fun c' => sumn Dbr (fun c =>
      sumn d (fun t => sumn Dal (fun a => get (sel A t) a c' *
        sumn d (fun s => sumn Dwl (fun wl => get (osel W s t) wl wr *
          sumn Dbl (fun b => get (esel L wl) a b * cj (get (sel B s) b c)))))) * get (esel E wr) c' c)))).
    { apply sumn_ext; intros wr Hw. apply sumn_ext; intros c' Hc'. apply sumn_ext; intros c Hc. f_equal.
      apply (get_opstep_left R d Dal Dar Dbl Dbr Dwl Dwr); assumption. }
    transitivity (sumn Dwl (fun wl => sumn Dal (fun a => sumn Dbl (fun b => get (esel L wl) a b *
      sumn d (fun s => sumn Dbr (fun c =>
        sumn d (fun t => sumn Dwr (fun wr => get (osel W s t) wl wr *
          sumn Dar (fun c' => get (sel A t) a c' * get (esel E wr) c' c))) * cj (get (sel B s) b c))))))).
    2: { apply sumn_ext; intros wl Hw. apply sumn_ext; intros a Ha. apply sumn_ext; intros b Hb. f_equal. symmetry.
         apply (get_opstep_right R d Dal Dar Dbl Dbr Dwl Dwr); assumption. }
    to_suml. spush.
    sfront 7. senter. sfront 5. senter. sfront 6. senter. sfront 5. senter. sfront 3. senter. sfront 3. senter.
    senter. senter. ring.
  Qed.
  (* shape of a right fold started from an arbitrary block *)
  Lemma rfoldx_shape (As : list site) : forall (Bs : list site) (Ws : list osite) ds Das Dbs Dws E,
    chainx_ok ds Das As -> chainx_ok ds Dbs Bs -> ochainx_ok ds Dws Ws ->
    env_ok (last Dws 0%nat) (last Das 0%nat) (last Dbs 0%nat) E ->
    env_ok (hd 0%nat Dws) (hd 0%nat Das) (hd 0%nat Dbs) (rfold As Bs Ws E).
  Proof.
    intros Bs Ws ds Das Dbs Dws E HA HB HW HE. destruct As as [|A As].
    - apply chainx_ok_nil_inv in HA. destruct HA as [-> [Da ->]].
      destruct Bs as [|B Bs]; [|apply chainx_ok_cons_inv in HB; destruct HB as (? & ? & ? & ? & ? & E0 & _); discriminate].
      destruct Ws as [|W Ws]; [|apply ochainx_ok_cons_inv in HW; destruct HW as (? & ? & ? & ? & ? & E0 & _); discriminate].
      apply chainx_ok_nil_inv in HB. destruct HB as [_ [Db ->]]. apply ochainx_ok_nil_inv in HW. destruct HW as [_ [Dw ->]].
      exact HE.
    - apply chainx_ok_cons_inv in HA. destruct HA as (d & ds' & Dal & Dar & Das' & -> & -> & Hd & HA & HAs).
      destruct Bs as [|B Bs]; [apply chainx_ok_nil_inv in HB; destruct HB; discriminate|].
      destruct Ws as [|W Ws]; [apply ochainx_ok_nil_inv in HW; destruct HW; discriminate|].
      apply chainx_ok_cons_inv in HB. destruct HB as (d2 & ds2 & Dbl & Dbr & Dbs' & E0 & -> & _ & HB & HBs).
      injection E0 as <- <-.
      apply ochainx_ok_cons_inv in HW. destruct HW as (d2 & ds2 & Dwl & Dwr & Dws' & E0 & -> & _ & HDw & HW & HWs).
      injection E0 as <- <-.
      cbn [rfold hd]. apply (shape_opstep_right R d Dal Dar Dbl Dbr Dwl Dwr); assumption.
  Qed.

  (* the left fold is the adjoint of the right fold with respect to the pairing *)
  Lemma lfold_adjoint (As : list site) : forall (Bs : list site) (Ws : list osite) ds Das Dbs Dws L E,
    chainx_ok ds Das As -> chainx_ok ds Dbs Bs -> ochainx_ok ds Dws Ws -> 0 < hd 0%nat Dws ->
    env_ok (hd 0%nat Dws) (hd 0%nat Das) (hd 0%nat Dbs) L ->
    env_ok (last Dws 0%nat) (last Das 0%nat) (last Dbs 0%nat) E ->
    pair3 (last Dws 0%nat) (last Das 0%nat) (last Dbs 0%nat) (lfold As Bs Ws L) E =
    pair3 (hd 0%nat Dws) (hd 0%nat Das) (hd 0%nat Dbs) L (rfold As Bs Ws E).
  Proof.
    induction As as [|A As IH]; intros Bs Ws ds Das Dbs Dws L E HA HB HW Hp HL HE.
    - apply chainx_ok_nil_inv in HA. destruct HA as [-> [Da ->]].
      destruct Bs as [|B Bs]; [|apply chainx_ok_cons_inv in HB; destruct HB as (? & ? & ? & ? & ? & E0 & _); discriminate].
      destruct Ws as [|W Ws]; [|apply ochainx_ok_cons_inv in HW; destruct HW as (? & ? & ? & ? & ? & E0 & _); discriminate].
      apply chainx_ok_nil_inv in HB. destruct HB as [_ [Db ->]]. apply ochainx_ok_nil_inv in HW. destruct HW as [_ [Dw ->]].
      reflexivity.
    - apply chainx_ok_cons_inv in HA. destruct HA as (d & ds' & Dal & Dar & Das' & -> & -> & Hd & HA & HAs).
      destruct Bs as [|B Bs]; [apply chainx_ok_nil_inv in HB; destruct HB; discriminate|].
      destruct Ws as [|W Ws]; [apply ochainx_ok_nil_inv in HW; destruct HW; discriminate|].
      apply chainx_ok_cons_inv in HB. destruct HB as (d2 & ds2 & Dbl & Dbr & Dbs' & E0 & -> & _ & HB & HBs).
      injection E0 as <- <-.
      apply ochainx_ok_cons_inv in HW. destruct HW as (d2 & ds2 & Dwl & Dwr & Dws' & E0 & -> & _ & HDw & HW & HWs).
      injection E0 as <- <-.
      change (last (Dal :: Dar :: Das') 0%nat) with (last (Dar :: Das') 0%nat) in *.
      change (last (Dbl :: Dbr :: Dbs') 0%nat) with (last (Dbr :: Dbs') 0%nat) in *.
      change (last (Dwl :: Dwr :: Dws') 0%nat) with (last (Dwr :: Dws') 0%nat) in *.
      cbn [hd] in *. cbn [lfold rfold].
      rewrite (IH Bs Ws ds' (Dar :: Das') (Dbr :: Dbs') (Dwr :: Dws')); try assumption.
      2: { cbn [hd]. apply (shape_opstep_left R d Dal Dar Dbl Dbr Dwl Dwr); assumption. }
      cbn [hd].
      apply (step_adjoint d Dal Dar Dbl Dbr Dwl Dwr); try assumption.
      apply (rfoldx_shape As Bs Ws ds' (Dar :: Das') (Dbr :: Dbs') (Dwr :: Dws')); assumption.
  Qed.

  Lemma rfold_app (Al : list site) : forall (Bl : list site) (Wl : list osite) X Y W Ar Br Wr E,
    length Bl = length Al -> length Wl = length Al ->
    rfold (Al ++ X :: Ar) (Bl ++ Y :: Br) (Wl ++ W :: Wr) E =
    rfold Al Bl Wl (contraction_operator_step_right X Y W (rfold Ar Br Wr E)).
  Proof.
    induction Al as [|A Al IH]; intros Bl Wl X Y W Ar Br Wr E H1 H2.
    - destruct Bl; [|discriminate]. destruct Wl; [|discriminate]. reflexivity.
    - destruct Bl as [|B Bl]; [discriminate|]. destruct Wl as [|W0 Wl]; [discriminate|].
      cbn [app rfold]. rewrite IH by (simpl in *; lia). reflexivity.
  Qed.

  Lemma chainx_ok_length ds Ds (As : list site) : chainx_ok ds Ds As -> length As = length ds.
  Proof.
    revert ds Ds. induction As as [|A As IH]; intros ds Ds H.
    - apply chainx_ok_nil_inv in H. destruct H as [-> _]. reflexivity.
    - apply chainx_ok_cons_inv in H. destruct H as (d & ds' & Dl & Dr & Ds' & -> & -> & _ & _ & H).
      simpl. f_equal. apply (IH _ _ H).
  Qed.
  Lemma ochainx_ok_length ds Ds (Ws : list osite) : ochainx_ok ds Ds Ws -> length Ws = length ds.
  Proof.
    revert ds Ds. induction Ws as [|A As IH]; intros ds Ds H.
    - apply ochainx_ok_nil_inv in H. destruct H as [-> _]. reflexivity.
    - apply ochainx_ok_cons_inv in H. destruct H as (d & ds' & Dl & Dr & Ds' & -> & -> & _ & _ & _ & H).
      simpl. f_equal. apply (IH _ _ H).
  Qed.

  (* <Y | H_eff X>  is the pairing of the left block with one more right step *)
  Lemma heff_pairing d Dal Dar Dbl Dbr Dwl Dwr (X Y : site) (W : osite) (L E : env) :
    0 < d -> 0 < Dwl -> 0 < Dwr -> site_ok d Dal Dar X -> site_ok d Dbl Dbr Y -> osite_ok d Dwl Dwr W ->
    env_ok Dwl Dal Dbl L -> env_ok Dwr Dar Dbr E ->
    site_dot Y (apply_local_hamiltonian L E W X) =
    pair3 Dwl Dal Dbl L (contraction_operator_step_right X Y W E).
  Proof.
    intros Hd Hwl Hwr HX HY HW HL HE. unfold pair3, site_dot.
    destruct (site_ok_sdl _ _ _ _ _ Hd HY) as (E1 & E2 & E3). rewrite E1, E2, E3.
    transitivity (sumn d (fun s => sumn Dbl (fun b => sumn Dbr (fun c => cj (get (sel Y s) b c) *
      sumn Dal (fun a => sumn Dwl (fun wl =>
        sumn d (fun t => sumn Dwr (fun wr => get (osel W s t) wl wr *
          sumn Dar (fun c' => get (sel X t) a c' * get (esel E wr) c' c))) * get (esel L wl) a b)))))).
    { apply sumn_ext; intros s Hs. apply sumn_ext; intros b Hb. apply sumn_ext; intros c Hc. f_equal.
      apply (get_local_hamiltonian R d Dal Dar Dbl Dbr Dwl Dwr); assumption. }
    transitivity (sumn Dwl (fun wl => sumn Dal (fun a => sumn Dbl (fun b => get (esel L wl) a b *
      sumn d (fun s => sumn Dbr (fun c =>
        sumn d (fun t => sumn Dwr (fun wr => get (osel W s t) wl wr *
          sumn Dar (fun c' => get (sel X t) a c' * get (esel E wr) c' c))) * cj (get (sel Y s) b c))))))).
    2: { apply sumn_ext; intros wl Hw. apply sumn_ext; intros a Ha. apply sumn_ext; intros b Hb. f_equal. symmetry.
         apply (get_opstep_right R d Dal Dar Dbl Dbr Dwl Dwr); assumption. }
    to_suml. spush.
    sfront 5. senter. sfront 4. senter. sfront 2. senter. senter. senter. senter. senter. senter. ring.
  Qed.
  Lemma lfoldx_shape (As : list site) : forall (Bs : list site) (Ws : list osite) ds Das Dbs Dws L,
    chainx_ok ds Das As -> chainx_ok ds Dbs Bs -> ochainx_ok ds Dws Ws ->
    env_ok (hd 0%nat Dws) (hd 0%nat Das) (hd 0%nat Dbs) L ->
    env_ok (last Dws 0%nat) (last Das 0%nat) (last Dbs 0%nat) (lfold As Bs Ws L).
  Proof.
    induction As as [|A As IH]; intros Bs Ws ds Das Dbs Dws L HA HB HW HL.
    - apply chainx_ok_nil_inv in HA. destruct HA as [-> [Da ->]].
      destruct Bs as [|B Bs]; [|apply chainx_ok_cons_inv in HB; destruct HB as (? & ? & ? & ? & ? & E0 & _); discriminate].
      destruct Ws as [|W Ws]; [|apply ochainx_ok_cons_inv in HW; destruct HW as (? & ? & ? & ? & ? & E0 & _); discriminate].
      apply chainx_ok_nil_inv in HB. destruct HB as [_ [Db ->]]. apply ochainx_ok_nil_inv in HW. destruct HW as [_ [Dw ->]].
      exact HL.
    - apply chainx_ok_cons_inv in HA. destruct HA as (d & ds' & Dal & Dar & Das' & -> & -> & Hd & HA & HAs).
      destruct Bs as [|B Bs]; [apply chainx_ok_nil_inv in HB; destruct HB; discriminate|].
      destruct Ws as [|W Ws]; [apply ochainx_ok_nil_inv in HW; destruct HW; discriminate|].
      apply chainx_ok_cons_inv in HB. destruct HB as (d2 & ds2 & Dbl & Dbr & Dbs' & E0 & -> & _ & HB & HBs).
      injection E0 as <- <-.
      apply ochainx_ok_cons_inv in HW. destruct HW as (d2 & ds2 & Dwl & Dwr & Dws' & E0 & -> & _ & HDw & HW & HWs).
      injection E0 as <- <-.
      change (last (Dal :: Dar :: Das') 0%nat) with (last (Dar :: Das') 0%nat).
      change (last (Dbl :: Dbr :: Dbs') 0%nat) with (last (Dbr :: Dbs') 0%nat).
      change (last (Dwl :: Dwr :: Dws') 0%nat) with (last (Dwr :: Dws') 0%nat).
      cbn [lfold]. apply (IH Bs Ws ds'); try assumption.
      cbn [hd]. apply (shape_opstep_left R d Dal Dar Dbl Dbr Dwl Dwr); assumption.
  Qed.

  Lemma ochainx_last_pos (Ws : list osite) : forall ds Ds, ochainx_ok ds Ds Ws -> 0 < hd 0%nat Ds -> 0 < last Ds 0%nat.
  Proof.
    induction Ws as [|W Ws IH]; intros ds Ds H Hp.
    - apply ochainx_ok_nil_inv in H. destruct H as [_ [D ->]]. exact Hp.
    - apply ochainx_ok_cons_inv in H. destruct H as (d & ds' & Dl & Dr & Ds' & -> & -> & _ & HDr & _ & H).
      change (last (Dl :: Dr :: Ds') 0%nat) with (last (Dr :: Ds') 0%nat). apply (IH _ _ H). exact HDr.
  Qed.

  Lemma env_one_id : env_one (R:=R) = env_id 1.
  Proof. reflexivity. Qed.

  Lemma pair3_111 (E : env) : pair3 1 1 1 (env_id 1) E = get (esel E 0) 0 0.
  Proof. unfold pair3, env_id, esel. cbn [sumn nth]. rewrite get_idmx by lia. simpl. ring. Qed.

  (* ---- the effective one-site operator is the projection of the full operator ---- *)
  Theorem local_hamiltonian_projection
      (Al Ar Bl Br : list site) (Wl Wr : list osite) (X Y : site) (W : osite)
      dsl dsr d Dal Dar Dbl Dbr Dwl Dwr DsAl DsBl DsWl DsAr DsBr DsWr :
    chainx_ok dsl DsAl Al -> chainx_ok dsl DsBl Bl -> ochainx_ok dsl DsWl Wl ->
    hd 0%nat DsAl = 1%nat -> hd 0%nat DsBl = 1%nat -> hd 0%nat DsWl = 1%nat ->
    last DsAl 0%nat = Dal -> last DsBl 0%nat = Dbl -> last DsWl 0%nat = Dwl ->
    0 < d -> 0 < Dwr -> site_ok d Dal Dar X -> site_ok d Dbl Dbr Y -> osite_ok d Dwl Dwr W ->
    chain_ok dsr (Dar :: DsAr) Ar -> chain_ok dsr (Dbr :: DsBr) Br -> ochain_ok dsr (Dwr :: DsWr) Wr ->
    site_dot Y (apply_local_hamiltonian (lfold Al Bl Wl env_one) (rfold Ar Br Wr env_one) W X) =
    suml (gwords (dsl ++ d :: dsr)) (fun w => suml (gwords (dsl ++ d :: dsr)) (fun w' =>
      cj (amp (Bl ++ Y :: Br) w) * opamp (Wl ++ W :: Wr) w w' * amp (Al ++ X :: Ar) w')).
  Proof.
    intros HAl HBl HWl h1 h2 h3 l1 l2 l3 Hd HDwr HX HY HW HAr HBr HWr.
    rewrite env_one_id.
    assert (HDwl : 0 < Dwl). { rewrite <- l3. apply (ochainx_last_pos Wl dsl); [exact HWl|]. rewrite h3. lia. }
    assert (HBR : env_ok Dwr Dar Dbr (rfold Ar Br Wr (env_id 1))).
    { apply (rfold_shape R dsr (Dar :: DsAr) (Dbr :: DsBr) (Dwr :: DsWr)); assumption. }
    assert (HBL : env_ok Dwl Dal Dbl (lfold Al Bl Wl (env_id 1))).
    { rewrite <- l1, <- l2, <- l3. apply (lfoldx_shape Al Bl Wl dsl); try assumption.
      rewrite h1, h2, h3. apply env_id_ok. }
    rewrite (heff_pairing d Dal Dar Dbl Dbr Dwl Dwr) by assumption.
    set (Emid := contraction_operator_step_right X Y W (rfold Ar Br Wr (env_id 1))).
    assert (HEm : env_ok Dwl Dal Dbl Emid).
    { apply (shape_opstep_right R d Dal Dar Dbl Dbr Dwl Dwr); assumption. }
    rewrite <- l1, <- l2, <- l3.
    rewrite (lfold_adjoint Al Bl Wl dsl DsAl DsBl DsWl); try assumption.
    2: { rewrite h3. lia. }
    2: { rewrite h1, h2, h3. apply env_id_ok. }
    2: { rewrite l1, l2, l3. exact HEm. }
    rewrite h1, h2, h3, pair3_111. unfold Emid.
    rewrite <- rfold_app.
    2: { rewrite (chainx_ok_length _ _ _ HAl), (chainx_ok_length _ _ _ HBl). reflexivity. }
    2: { rewrite (chainx_ok_length _ _ _ HAl), (ochainx_ok_length _ _ _ HWl). reflexivity. }
    destruct (chain_glue Al dsl DsAl d Dal Dar X dsr DsAr Ar HAl l1 Hd HX HAr) as [GA gA].
    destruct (chain_glue Bl dsl DsBl d Dbl Dbr Y dsr DsBr Br HBl l2 Hd HY HBr) as [GB gB].
    destruct (ochain_glue Wl dsl DsWl d Dwl Dwr W dsr DsWr Wr HWl l3 Hd HDwr HW HWr) as [GW gW].
    rewrite (rfold_spec R _ _ _ _ _ _ _ GA GB GW) by (rewrite ?gA, ?gB, ?gW, ?h1, ?h2, ?h3; lia).
    apply suml_ext; intros w _. apply suml_ext; intros w' _. rewrite !amp_cvec, opamp_ocvec. ring.
  Qed.
  (* ---- Hermiticity of the effective operator (bra and ket share the environment) ---- *)
  Theorem heff_hermitian
      (Al Ar : list site) (Wl Wr : list osite) (X Y : site) (W : osite)
      dsl dsr d Dal Dar Dwl Dwr DsAl DsWl DsAr DsWr :
    chainx_ok dsl DsAl Al -> ochainx_ok dsl DsWl Wl ->
    hd 0%nat DsAl = 1%nat -> hd 0%nat DsWl = 1%nat ->
    last DsAl 0%nat = Dal -> last DsWl 0%nat = Dwl ->
    0 < d -> 0 < Dwr -> site_ok d Dal Dar X -> site_ok d Dal Dar Y -> osite_ok d Dwl Dwr W ->
    chain_ok dsr (Dar :: DsAr) Ar -> ochain_ok dsr (Dwr :: DsWr) Wr ->
    (forall w w', In w (gwords (dsl ++ d :: dsr)) -> In w' (gwords (dsl ++ d :: dsr)) ->
       opamp (Wl ++ W :: Wr) w w' = cj (opamp (Wl ++ W :: Wr) w' w)) ->
    site_dot Y (apply_local_hamiltonian (lfold Al Al Wl env_one) (rfold Ar Ar Wr env_one) W X) =
    cj (site_dot X (apply_local_hamiltonian (lfold Al Al Wl env_one) (rfold Ar Ar Wr env_one) W Y)).
  Proof.
    intros HAl HWl h1 h3 l1 l3 Hd HDwr HX HY HW HAr HWr Hherm.
    rewrite (local_hamiltonian_projection Al Ar Al Ar Wl Wr X Y W dsl dsr d Dal Dar Dal Dar Dwl Dwr DsAl DsAl DsWl DsAr DsAr DsWr)
      by assumption.
    rewrite (local_hamiltonian_projection Al Ar Al Ar Wl Wr Y X W dsl dsr d Dal Dar Dal Dar Dwl Dwr DsAl DsAl DsWl DsAr DsAr DsWr)
      by assumption.
    rewrite suml_conj. rewrite suml_exch. apply suml_ext; intros w Hw.
    rewrite suml_conj. apply suml_ext; intros w' Hw'.
    rewrite !kconj_mul, kconj_inv. rewrite (Hherm w' w Hw' Hw). ring.
  Qed.

  (* ---- zero-site (bond) problem ---- *)
  Definition cmul_site (C : mx) (A : site) : site := map (mulmx C) A.

  Lemma cmul_site_sel C (A : site) s : s < length A -> sel (cmul_site C A) s = mulmx C (sel A s).
  Proof.
    intros Hs. unfold sel, cmul_site.
    rewrite (nth_indep _ (zeromx 0 0) (mulmx C (zeromx 0 0))) by (rewrite map_length; exact Hs).
    apply map_nth.
  Qed.

  Lemma cmul_site_ok d Dc Dl Dr C (A : site) : site_ok d Dl Dr A -> nr C = Dc -> site_ok d Dc Dr (cmul_site C A).
  Proof.
    intros [Hl H] HC. split; [unfold cmul_site; rewrite map_length; exact Hl|].
    intros s Hs. rewrite cmul_site_sel by lia. rewrite nr_mulmx, nc_mulmx. destruct (H s Hs). auto.
  Qed.

  Lemma get_cmul_site d Dc Dl Dr C (A : site) s a c :
    site_ok d Dl Dr A -> nr C = Dc -> nc C = Dl -> s < d -> a < Dc -> c < Dr ->
    get (sel (cmul_site C A) s) a c = sumn Dl (fun k => get C a k * get (sel A s) k c).
  Proof.
    intros [Hl H] H1 H2 Hs Ha Hc. rewrite cmul_site_sel by lia. destruct (H s Hs) as [F1 F2].
    rewrite get_mulmx by lia. rewrite H2. reflexivity.
  Qed.

  Lemma opstep_right_absorb d Dal Dar Dbl Dbr Dwl Dwr (A B : site) (W : osite) (E : env) Cx Cy wl a b :
    0 < d -> 0 < Dwr -> site_ok d Dal Dar A -> site_ok d Dbl Dbr B -> osite_ok d Dwl Dwr W -> env_ok Dwr Dar Dbr E ->
    nr Cx = Dal -> nc Cx = Dal -> nr Cy = Dbl -> nc Cy = Dbl -> wl < Dwl -> a < Dal -> b < Dbl ->
    get (esel (contraction_operator_step_right (cmul_site Cx A) (cmul_site Cy B) W E) wl) a b =
    sumn Dal (fun k => sumn Dbl (fun m =>
      get Cx a k * get (esel (contraction_operator_step_right A B W E) wl) k m * cj (get Cy b m))).
  Proof.
    intros Hd Hw HA HB HW HE c1 c2 c3 c4 Hwl Ha Hb.
    rewrite (get_opstep_right R d Dal Dar Dbl Dbr Dwl Dwr); try assumption.
    2: { apply (cmul_site_ok d Dal Dal); assumption. }
    2: { apply (cmul_site_ok d Dbl Dbl); assumption. }
    transitivity (sumn d (fun s => sumn Dbr (fun c =>
      sumn d (fun t => sumn Dwr (fun wr => get (osel W s t) wl wr *
        sumn Dar (fun c' => sumn Dal (fun k => get Cx a k * get (sel A t) k c') * get (esel E wr) c' c))) *
      cj (sumn Dbl (fun m => get Cy b m * get (sel B s) m c))))).
    { apply sumn_ext; intros s Hs. apply sumn_ext; intros c Hc. f_equal.
      - apply sumn_ext; intros t Ht. apply sumn_ext; intros wr Hwr. f_equal.
        apply sumn_ext; intros c' Hc'. f_equal. apply (get_cmul_site d Dal Dal Dar); assumption.
      - f_equal. apply (get_cmul_site d Dbl Dbl Dbr); assumption. }
    transitivity (sumn Dal (fun k => sumn Dbl (fun m => get Cx a k *
      sumn d (fun s => sumn Dbr (fun c =>
        sumn d (fun t => sumn Dwr (fun wr => get (osel W s t) wl wr *
          sumn Dar (fun c' => get (sel A t) k c' * get (esel E wr) c' c))) * cj (get (sel B s) m c))) *
      cj (get Cy b m)))).
    2: { apply sumn_ext; intros k Hk. apply sumn_ext; intros m Hm. f_equal. f_equal. symmetry.
         apply (get_opstep_right R d Dal Dar Dbl Dbr Dwl Dwr); assumption. }
    to_suml. spush.
    sfront 6. senter. sfront 6. senter. senter. senter. senter. senter. senter. ring.
  Qed.
  Lemma bond_pairing Dw Dal Dbl (L BRk : env) (Cx Cy : mx) :
    0 < Dw -> env_ok Dw Dal Dbl L -> env_ok Dw Dal Dbl BRk ->
    nr Cx = Dal -> nc Cx = Dal -> nr Cy = Dbl -> nc Cy = Dbl ->
    frob Cy (apply_local_bond_contraction L BRk Cx) =
    sumn Dw (fun w => sumn Dal (fun a => sumn Dbl (fun b => get (esel L w) a b *
      sumn Dal (fun k => sumn Dbl (fun m => get Cx a k * get (esel BRk w) k m * cj (get Cy b m)))))).
  Proof.
    intros Hw HL HE c1 c2 c3 c4. unfold frob. rewrite c3, c4.
    transitivity (sumn Dbl (fun b => sumn Dbl (fun m => cj (get Cy b m) *
      sumn Dal (fun a => sumn Dw (fun w => get (esel L w) a b *
        sumn Dal (fun k => get Cx a k * get (esel BRk w) k m)))))).
    { apply sumn_ext; intros b Hb. apply sumn_ext; intros m Hm. f_equal.
      apply (get_local_bond R Dal Dal Dbl Dbl Dw); assumption. }
    to_suml. spush.
    sfront 4. senter. sfront 3. senter. senter. sfront 2. senter. senter. ring.
  Qed.
  (* the zero-site effective operator on the bond in front of site A: C is absorbed into that site *)
  Theorem local_bond_projection
      (Al Ar Bl Br : list site) (Wl Wr : list osite) (A B : site) (W : osite) (Cx Cy : mx)
      dsl dsr d Dal Dar Dbl Dbr Dwl Dwr DsAl DsBl DsWl DsAr DsBr DsWr :
    chainx_ok dsl DsAl Al -> chainx_ok dsl DsBl Bl -> ochainx_ok dsl DsWl Wl ->
    hd 0%nat DsAl = 1%nat -> hd 0%nat DsBl = 1%nat -> hd 0%nat DsWl = 1%nat ->
    last DsAl 0%nat = Dal -> last DsBl 0%nat = Dbl -> last DsWl 0%nat = Dwl ->
    0 < d -> 0 < Dwr -> site_ok d Dal Dar A -> site_ok d Dbl Dbr B -> osite_ok d Dwl Dwr W ->
    chain_ok dsr (Dar :: DsAr) Ar -> chain_ok dsr (Dbr :: DsBr) Br -> ochain_ok dsr (Dwr :: DsWr) Wr ->
    nr Cx = Dal -> nc Cx = Dal -> nr Cy = Dbl -> nc Cy = Dbl ->
    frob Cy (apply_local_bond_contraction (lfold Al Bl Wl env_one) (rfold (A :: Ar) (B :: Br) (W :: Wr) env_one) Cx) =
    suml (gwords (dsl ++ d :: dsr)) (fun w => suml (gwords (dsl ++ d :: dsr)) (fun w' =>
      cj (amp (Bl ++ cmul_site Cy B :: Br) w) * opamp (Wl ++ W :: Wr) w w' * amp (Al ++ cmul_site Cx A :: Ar) w')).
  Proof.
    intros HAl HBl HWl h1 h2 h3 l1 l2 l3 Hd HDwr HA HB HW HAr HBr HWr c1 c2 c3 c4.
    assert (HXc : site_ok d Dal Dar (cmul_site Cx A)) by (apply (cmul_site_ok d Dal Dal); assumption).
    assert (HYc : site_ok d Dbl Dbr (cmul_site Cy B)) by (apply (cmul_site_ok d Dbl Dbl); assumption).
    rewrite <- (local_hamiltonian_projection Al Ar Bl Br Wl Wr (cmul_site Cx A) (cmul_site Cy B) W
                  dsl dsr d Dal Dar Dbl Dbr Dwl Dwr DsAl DsBl DsWl DsAr DsBr DsWr) by assumption.
    rewrite env_one_id.
    assert (HDwl : 0 < Dwl). { rewrite <- l3. apply (ochainx_last_pos Wl dsl); [exact HWl|]. rewrite h3. lia. }
    assert (HBR : env_ok Dwr Dar Dbr (rfold Ar Br Wr (env_id 1))).
    { apply (rfold_shape R dsr (Dar :: DsAr) (Dbr :: DsBr) (Dwr :: DsWr)); assumption. }
    assert (HBL : env_ok Dwl Dal Dbl (lfold Al Bl Wl (env_id 1))).
    { rewrite <- l1, <- l2, <- l3. apply (lfoldx_shape Al Bl Wl dsl); try assumption.
      rewrite h1, h2, h3. apply env_id_ok. }
    rewrite (heff_pairing d Dal Dar Dbl Dbr Dwl Dwr) by assumption.
    cbn [rfold].
    rewrite (bond_pairing Dwl Dal Dbl); try assumption.
    2: { apply (shape_opstep_right R d Dal Dar Dbl Dbr Dwl Dwr); assumption. }
    unfold pair3. apply sumn_ext; intros w Hw. apply sumn_ext; intros a Ha. apply sumn_ext; intros b Hb. f_equal.
    symmetry. apply (opstep_right_absorb d Dal Dar Dbl Dbr Dwl Dwr); assumption.
  Qed.
End Local.

Arguments chainx_ok {R} ds Ds As. Arguments ochainx_ok {R} ds Ds Ws.
Arguments pair3 {R} Dw Da Db L E. Arguments cmul_site {R} C A.
