(* Exhausted Krylov space: if A V = V T (all k columns, i.e. the iteration stopped with zero residual) and A is
   linear, then for every polynomial p (coefficient list, lowest degree first)
       p(A) (V c) = V (p(T) c),       in particular   p(A) v = ||v|| V p(T) e_0   for  v = ||v|| v_0. *)
From Coq Require Import ZArith List Bool Arith Lia Ring Field.
From PT Require Import Base.Scalar Base.Field Base.BigSum Base.Mx Model.Krylov Proofs.KrylovVec Proofs.KrylovLanczos
  Proofs.KrylovRitz.
Import ListNotations.

Section Poly.
  Variable F : ofield.
  Notation K := (Cx F).
  Add Ring Kring_kp : (k_rt (Cx F)).
  Notation vec := (list K).
  Notation "0" := (k0 K). Notation "1" := (k1 K).
  Infix "+" := (kadd K). Infix "*" := (kmul K).
  Variable n k : nat.
  Variable Afunc : vec -> vec.
  Variable t : nat -> nat -> K.              (* the k x k matrix T (tridiagonal or Hessenberg), as a function *)
  Notation vat := (vat F).

  (* T c  and  p(T) c,  p(A) x  by Horner *)
  Definition mulT (c : list K) : list K := map (fun i => sumn k (fun j => t i j * nth j c 0)) (seq 0 k).
  Fixpoint pevalT (p : list K) (c : list K) : list K :=
    match p with [] => vzero k | a :: p' => vadd (cscale a c) (mulT (pevalT p' c)) end.
  Fixpoint pevalA (p : list K) (x : vec) : vec :=
    match p with [] => vzero n | a :: p' => vadd (cscale a x) (Afunc (pevalA p' x)) end.
  Definition tcol (j : nat) : list K := map (fun i => t i j) (seq 0 k).
  Definition e0 : list K := map (fun i => if Nat.eqb i 0 then 1 else 0) (seq 0 k).

  (* ---- entries ---- *)
  Lemma nth_vadd (x y : vec) i : length x = length y -> nth i (vadd x y) 0 = nth i x 0 + nth i y 0.
  Proof.
    revert y i; induction x as [|a x IH]; intros [|b y] i H; cbn [length] in H; try discriminate.
    - destruct i; cbn [vadd zipw nth]; ring.
    - destruct i; cbn [vadd zipw nth]; [reflexivity|]. apply IH. lia.
  Qed.
  Lemma nth_cscale c (x : vec) i : nth i (cscale c x) 0 = c * nth i x 0.
  Proof.
    revert i; induction x as [|a x IH]; intros i; cbn [cscale map].
    - destruct i; cbn [nth]; ring.
    - destruct i; cbn [nth]; [reflexivity|]. apply IH.
  Qed.
  Lemma nth_vzero m i : nth i (@vzero F m) 0 = 0.
  Proof. revert i; induction m as [|m IH]; intros [|i]; cbn [vzero repeat nth]; try reflexivity. apply IH. Qed.

  Lemma nth_lincomb cs (Vs : list vec) i : (forall v, In v Vs -> length v = n) -> length cs <= length Vs ->
    nth i (lincomb n cs Vs) 0 = sumn (length Vs) (fun j => nth j cs 0 * nth i (nth j Vs []) 0).
  Proof.
    revert cs; induction Vs as [|v Vs IH]; intros [|c cs] H Hl; cbn [length] in Hl; try lia.
    - cbn [lincomb length sumn]. apply nth_vzero.
    - cbn [lincomb]. rewrite nth_vzero. symmetry. apply sumn_zero. intros j _. destruct j; cbn [nth]; ring.
    - cbn [lincomb length]. rewrite nth_vadd.
      2:{ rewrite (length_cscale F n), (length_lincomb F n); auto. - intros u Hu. apply H. right. exact Hu. - apply H. left. reflexivity. }
      rewrite nth_cscale, IH; [|intros u Hu; apply H; right; exact Hu|lia].
      clear IH. generalize (length Vs). intros m.
      transitivity (sumn (1 + m) (fun j => nth j (c :: cs) 0 * nth i (nth j (v :: Vs) []) 0)).
      + rewrite sumn_app. cbn [sumn nth Nat.add]. ring.
      + reflexivity.
  Qed.

  Lemma vec_ext (x y : vec) : length x = n -> length y = n -> (forall i, i < n -> nth i x 0 = nth i y 0) -> x = y.
  Proof. intros Hx Hy H. apply (list_eq_nth 0); [congruence|]. intros i Hi. apply H. lia. Qed.

  Lemma length_mulT c : length (mulT c) = k.
  Proof. unfold mulT. rewrite map_length, seq_length. reflexivity. Qed.
  Lemma nth_mulT c i : i < k -> nth i (mulT c) 0 = sumn k (fun j => t i j * nth j c 0).
  Proof. intros Hi. unfold mulT. exact (nth_map_seq 0 k (fun i => sumn k (fun j => t i j * nth j c 0)) i Hi). Qed.
  Lemma length_pevalT p c : length c = k -> length (pevalT p c) = k.
  Proof.
    intros Hc. destruct p as [|a p]; cbn [pevalT]; [apply length_vzero|].
    apply length_vadd; [apply length_cscale; exact Hc|apply length_mulT].
  Qed.

  Variable Vs : list vec.
  Hypothesis A_len : maps_len F n Afunc.
  Hypothesis A_lin : linear F n Afunc.
  Hypothesis V_len : forall v, In v Vs -> length v = n.
  Hypothesis V_k : length Vs = k.
  (* A V = V T, column by column *)
  Hypothesis AV_VT : forall j, j < k -> Afunc (vat Vs j) = lincomb n (tcol j) Vs.

  Lemma length_tcol j : length (tcol j) = k.
  Proof. unfold tcol. rewrite map_length, seq_length. reflexivity. Qed.

  Lemma A_lincomb c : length c = k -> Afunc (lincomb n c Vs) = lincomb n (mulT c) Vs.
  Proof.
    intros Hc. rewrite (Afunc_lincomb F n Afunc A_lin) by exact V_len.
    assert (LA : forall y, In y (map Afunc Vs) -> length y = n).
    { intros y Hy. apply in_map_iff in Hy. destruct Hy as (x & <- & Hx). apply A_len, V_len, Hx. }
    apply vec_ext; try (apply (length_lincomb F n); assumption).
    intros i Hi. rewrite !nth_lincomb by (try assumption; rewrite ?map_length, ?length_mulT; lia).
    rewrite map_length, V_k.
    transitivity (sumn k (fun j => sumn k (fun l => (t l j * nth j c 0) * nth i (nth l Vs []) 0))).
    - apply (sumn_ext (Cx F)). intros j Hj.
      rewrite (nth_indep (map Afunc Vs) [] (Afunc [])) by (rewrite map_length; lia). rewrite map_nth.
      fold (vat Vs j). rewrite AV_VT by exact Hj.
      rewrite nth_lincomb by (try exact V_len; rewrite length_tcol; lia). rewrite V_k, <- sumn_scal_l.
      apply (sumn_ext (Cx F)). intros l Hl. unfold tcol. rewrite nth_map_seq by exact Hl. ring.
    - rewrite sumn_exch. apply (sumn_ext (Cx F)). intros l Hl. rewrite nth_mulT by exact Hl.
      rewrite <- sumn_scal_r. reflexivity.
  Qed.

  Lemma lincomb_vadd c d : length c = k -> length d = k ->
    lincomb n (vadd c d) Vs = vadd (lincomb n c Vs) (lincomb n d Vs).
  Proof.
    intros Hc Hd. assert (Lcd : length (vadd c d) = k) by (apply length_vadd; assumption).
    apply vec_ext; try (apply length_vadd); try (apply (length_lincomb F n); assumption).
    intros i Hi. rewrite nth_vadd by (rewrite !(length_lincomb F n) by assumption; reflexivity).
    rewrite !nth_lincomb by (try assumption; lia). rewrite <- sumn_add.
    apply (sumn_ext (Cx F)). intros j Hj. rewrite nth_vadd by congruence. ring.
  Qed.
  Lemma lincomb_cscale a c : length c = k -> lincomb n (cscale a c) Vs = cscale a (lincomb n c Vs).
  Proof.
    intros Hc. apply vec_ext; try (apply length_cscale); try (apply (length_lincomb F n); assumption).
    intros i Hi. rewrite nth_cscale. rewrite !nth_lincomb by (try assumption; rewrite ?(length_cscale F k) by exact Hc; lia).
    rewrite <- sumn_scal_l. apply (sumn_ext (Cx F)). intros j Hj. rewrite nth_cscale. ring.
  Qed.
  Lemma lincomb_vzero : lincomb n (vzero k) Vs = vzero n.
  Proof.
    apply vec_ext; [apply (length_lincomb F n); assumption|apply length_vzero|].
    intros i Hi. rewrite nth_lincomb by (try assumption; rewrite length_vzero; lia). rewrite nth_vzero.
    apply sumn_zero. intros j Hj. rewrite nth_vzero. ring.
  Qed.

  (* p(A) (V c) = V (p(T) c) *)
  Theorem krylov_exhausted_poly (p : list K) (c : list K) : length c = k ->
    pevalA p (lincomb n c Vs) = lincomb n (pevalT p c) Vs.
  Proof.
    intros Hc. induction p as [|a p IH]; cbn [pevalA pevalT].
    - symmetry. apply lincomb_vzero.
    - rewrite IH, A_lincomb by (apply length_pevalT; exact Hc).
      rewrite lincomb_vadd by (try apply length_cscale; try apply length_mulT; exact Hc).
      rewrite lincomb_cscale by exact Hc. reflexivity.
  Qed.

  (* the start vector: v = ||v|| v_0 = V (||v|| e_0) *)
  Lemma start_vector (nrm : F) : 0 < k -> rscale nrm (vat Vs 0) = lincomb n (cscale (cof nrm) e0) Vs.
  Proof.
    intros Hk. assert (L0 : length (vat Vs 0) = n) by (apply V_len, nth_In; lia).
    assert (Le : length e0 = k) by (unfold e0; rewrite map_length, seq_length; reflexivity).
    apply vec_ext; [apply length_rscale; exact L0|apply (length_lincomb F n); assumption|].
    intros i Hi. unfold rscale. rewrite nth_cscale, nth_lincomb by (try assumption; rewrite (length_cscale F k) by exact Le; lia).
    rewrite V_k. rewrite (sumn_single (Cx F) k 0) by
      (try exact Hk; intros j Hj Hne; rewrite nth_cscale; unfold e0; rewrite nth_map_seq by exact Hj;
       replace (Nat.eqb j 0) with false by (symmetry; apply Nat.eqb_neq; exact Hne); ring).
    rewrite nth_cscale. unfold e0. rewrite nth_map_seq by exact Hk. cbn [Nat.eqb]. fold (vat Vs 0). ring.
  Qed.

  Corollary krylov_exhausted_poly_start (p : list K) (v : vec) (nrm : F) : 0 < k -> nrm <> f0 F ->
    vat Vs 0 = vdivr v nrm -> pevalA p v = lincomb n (pevalT p (cscale (cof nrm) e0)) Vs.
  Proof.
    intros Hk Hn H0. assert (Le : length e0 = k) by (unfold e0; rewrite map_length, seq_length; reflexivity).
    rewrite <- krylov_exhausted_poly by (apply length_cscale; exact Le).
    rewrite <- start_vector by exact Hk. rewrite H0, rscale_vdivr by exact Hn. reflexivity.
  Qed.
End Poly.
