(* Exhausted Krylov space, part 3: statements about the model functions eigh_krylov / expm_krylov (Hermitian branch)
   when the last Lanczos residual vanishes exactly -- either signalled as a breakdown with norm answer 0
   ([..._breakdown]) or, more generally, whenever the residual recomputed from the returned state is the zero
   vector ([..._zero_resid]; covers numiter = Krylov dimension, where the code never computes that residual). *)
From Coq Require Import ZArith List Bool Arith Lia Ring Field.
From PT Require Import Base.Scalar Base.Field Base.BigSum Base.Mx Model.Krylov Proofs.KrylovVec Proofs.KrylovLanczos
  Proofs.KrylovArnoldi Proofs.KrylovMatvec Proofs.KrylovExpm Proofs.KrylovRitz Proofs.KrylovPoly Proofs.KrylovExhaust
  Proofs.KrylovExhaustSpec.
Import ListNotations.

Section ExhaustTop.
  Variable F : ofield.
  Notation K := (Cx F).
  Add Field Ffield_kt : (f_ft F).
  Add Ring Kring_kt : (k_rt (Cx F)).
  Notation vec := (list K).
  Notation kz := (k0 K).
  Variable n : nat.
  Variable Afunc : vec -> vec.
  Variable dnorm : vec -> F.
  Variable small : F -> bool.
  Variable deigh : list F -> list F -> list F * list (list F).
  Variable dexp : K -> K.
  Variable dexpm : list (list K) -> list (list K).
  Notation vat := (vat F).
  Notation tri := (tri F).
  Notation uent U i j := (nth j (nth i U []) (f0 F)).
  Hypothesis A_len : maps_len F n Afunc.
  Hypothesis A_lin : linear F n Afunc.
  Hypothesis A_sa : self_adjoint F n Afunc.
  Hypothesis small_pos : small_sound F small.

  (* "the Krylov space is exhausted" for a run: A V = V tridiag(alpha, beta) on all returned columns *)
  Definition AV_VT_h (al be : list F) (Vs : list vec) : Prop :=
    forall j, j < length Vs -> Afunc (vat Vs j) = lincomb n (tcol F (length Vs) (tri al be) j) Vs.

  Section Run.
    Variables (v : vec) (m : nat) (al be : list F) (Vs : list vec) (wn : bool).
    Hypothesis Hv : length v = n.
    Hypothesis Hnz : v <> vzero n.
    Hypothesis Hm : 1 <= m.
    Hypothesis HC : Forall (norm_ok F) (lanczos_calls F Afunc dnorm small v m).
    Hypothesis HR : lanczos F Afunc dnorm small v m = Some (al, be, Vs, wn).
    Hypothesis HAV : AV_VT_h al be Vs.

    Lemma run_facts : lanczos_post F n Afunc m (al, be, Vs, wn) /\ dnorm v <> f0 F /\
                      v = rscale (dnorm v) (vat Vs 0) /\ 0 < length Vs.
    Proof.
      destruct (lanczos_spec F n Afunc dnorm small A_len A_sa small_pos v m Hv Hnz Hm HC) as (r & Hr & HP & H0).
      rewrite HR in Hr. injection Hr as <-. cbn [fst snd] in H0.
      assert (Hc : norm_ok F (v, dnorm v)) by (unfold lanczos_calls in HC; inversion HC; assumption).
      pose proof (dnorm_start_ne F n dnorm v Hv Hnz Hc) as Hne.
      split; [exact HP|]. split; [exact Hne|]. split.
      - rewrite H0. symmetry. apply rscale_vdivr. exact Hne.
      - destruct HP as (H1 & _). lia.
    Qed.

    (* expm_krylov(hermitian=True) returns E v for every linear E that multiplies each lam-eigenvector of A by dexp(dt lam) *)
    Lemma expm_h_given_AV (dt : K) (E : vec -> vec) :
      eigh_ok F (length Vs) al be (deigh al be) -> eigh_sorted F (length Vs) (deigh al be) ->
      linear F n E ->
      (forall lam (y : vec), length y = n -> Afunc y = cscale lam y -> E y = cscale (dexp (kmul K dt lam)) y) ->
      expm_krylov F Afunc dnorm small deigh dexp dexpm v dt m true = Some (E v).
    Proof.
      intros HE HS E_lin E_eig. destruct run_facts as (HP & Hne & Ev & Hk).
      destruct HP as (_ & _ & _ & _ & _ & Ho & _).
      unfold expm_krylov, expm_krylov_h. rewrite HR. destruct (deigh al be) as [w U]. destruct HS as [_ Hrow0].
      f_equal. rewrite Hv. rewrite Ev at 2. symmetry.
      exact (expm_spectral_h F n Afunc al be Vs w U (length Vs) A_len A_lin Ho eq_refl HAV HE Hrow0 dexp E (dnorm v) dt Hk E_lin E_eig).
    Qed.

    (* what eigh_krylov returns on an exhausted Krylov space *)
    Definition ritz_exact_post (numeig : nat) (ws : list F) (us : list vec) : Prop :=
      length ws = length us /\ length us = Nat.min numeig (length Vs) /\
      (forall q, q < length us ->
         let y := nth q us [] in let th := nth q ws (f0 F) in
         length y = n /\ Afunc y = cscale (cof th) y /\ vdot y y = k1 K /\ y <> vzero n /\
         reachable F n Afunc v th /\ fle F (nth 0 ws (f0 F)) th) /\
      (1 <= numeig -> 1 <= length us /\ forall lam, reachable F n Afunc v lam -> fle F (nth 0 ws (f0 F)) lam).

    Lemma ritz_given_AV (numeig : nat) :
      eigh_ok F (length Vs) al be (deigh al be) -> eigh_sorted F (length Vs) (deigh al be) ->
      exists ws us, eigh_krylov F Afunc dnorm small deigh v m numeig = Some (ws, us) /\ ritz_exact_post numeig ws us.
    Proof.
      intros HE HS. destruct run_facts as (HP & Hne & Ev & Hk).
      pose proof HP as (_ & _ & _ & _ & _ & Ho & Hpos & _).
      unfold eigh_krylov. rewrite HR. destruct (deigh al be) as [w U] eqn:ED. destruct HS as [Hsort Hrow0].
      eexists. eexists. split; [reflexivity|].
      pose proof HE as (Hw & HU & Hrow & Hcols & HT).
      assert (Hnc : ncols U = length Vs).
      { unfold ncols. destruct U as [|r0 U']; [cbn [length] in HU; lia|]. apply (Hrow 0%nat). lia. }
      rewrite Hnc, Hv. set (kk := Nat.min numeig (length Vs)).
      assert (Hnth : forall q, q < kk -> nth q (map (fun q => lincomb n (ucol U q) Vs) (seq 0 kk)) [] = ritz F n Vs U q).
      { intros q Hq. apply nth_map_seq. exact Hq. }
      assert (Hws : forall q, q < kk -> nth q (firstn numeig w) (f0 F) = nth q w (f0 F)).
      { intros q Hq. rewrite <- (firstn_skipn numeig w) at 2. rewrite app_nth1; [reflexivity|].
        rewrite firstn_length. unfold kk in Hq. lia. }
      assert (Hbe : forall i, S i < length Vs -> fat F be i <> f0 F).
      { intros i Hi E0. apply (flt_neq F _ _ (Hpos i Hi)). symmetry. exact E0. }
      unfold ritz_exact_post. rewrite map_length, seq_length. fold kk.
      split; [rewrite firstn_length; unfold kk; lia|]. split; [reflexivity|]. split.
      - intros q Hq. cbv zeta. rewrite Hnth by exact Hq. rewrite Hws by exact Hq.
        assert (Hq' : q < length Vs) by (unfold kk in Hq; lia).
        destruct (ritz_exact F n Afunc al be Vs w U (length Vs) A_len A_lin Ho eq_refl HAV HE q Hq') as (R1 & R2 & R3 & R4).
        split; [exact R2|]. split; [exact R1|]. split; [exact R3|]. split; [exact R4|]. split.
        + rewrite Ev. exact (ritz_reachable F n Afunc al be Vs w U (length Vs) A_len A_lin Ho eq_refl HAV HE Hbe (dnorm v) q Hne Hq').
        + assert (H0q : 0 < kk) by lia. rewrite (Hws 0%nat H0q). apply Hsort. exact Hq'.
      - intros Hne1. assert (H0q : 0 < kk) by (unfold kk; lia). split; [exact H0q|].
        intros lam Hr. rewrite (Hws 0%nat H0q). rewrite Ev in Hr.
        exact (ritz_lowest F n Afunc al be Vs w U (length Vs) A_len A_lin Ho eq_refl HAV HE Hrow0 A_sa Hsort (dnorm v) lam Hk Hr).
    Qed.

    (* the start vector is a combination of the (exact eigen-) Ritz vectors *)
    Lemma start_span_given_AV :
      eigh_ok F (length Vs) al be (deigh al be) -> eigh_sorted F (length Vs) (deigh al be) ->
      v = lincomb n (cs_h F (snd (deigh al be)) (length Vs) (dnorm v)) (ritzs F n Vs (snd (deigh al be)) (length Vs)).
    Proof.
      intros HE HS. destruct run_facts as (HP & Hne & Ev & Hk).
      destruct HP as (_ & _ & _ & _ & _ & Ho & _).
      destruct (deigh al be) as [w U]. destruct HS as [_ Hrow0]. cbn [snd]. rewrite Ev at 1.
      exact (start_ritz_span F n al be Vs w U (length Vs) Ho eq_refl HE Hrow0 (dnorm v) Hk).
    Qed.
  End Run.

  (* ---- the two ways the hypothesis A V = V T is discharged ---- *)
  Lemma AV_of_zero_resid (v : vec) m al be (Vs : list vec) wn :
    length v = n -> v <> vzero n -> 1 <= m -> Forall (norm_ok F) (lanczos_calls F Afunc dnorm small v m) ->
    lanczos F Afunc dnorm small v m = Some (al, be, Vs, wn) ->
    lanczos_last_resid F Afunc dnorm be Vs = vzero n -> AV_VT_h al be Vs.
  Proof.
    intros Hv Hnz Hm HC HR Hz.
    destruct (lanczos_spec F n Afunc dnorm small A_len A_sa small_pos v m Hv Hnz Hm HC) as (r & Hr & HP & _).
    rewrite HR in Hr. injection Hr as <-.
    exact (lanczos_zero_resid_AV_VT F n Afunc dnorm A_len A_sa m al be Vs wn HP Hz).
  Qed.
  Lemma AV_of_breakdown (v : vec) m al be (Vs : list vec) :
    length v = n -> v <> vzero n -> 1 <= m -> Forall (norm_ok F) (lanczos_calls F Afunc dnorm small v m) ->
    lanczos F Afunc dnorm small v m = Some (al, be, Vs, true) ->
    lanczos_last_norm F Afunc dnorm be Vs = f0 F -> AV_VT_h al be Vs.
  Proof.
    intros Hv Hnz Hm HC HR Hb.
    exact (proj2 (proj2 (proj2 (proj2
      (lanczos_exact_breakdown_AV_VT F n Afunc dnorm small A_len A_sa small_pos v m al be Vs Hv Hnz Hm HC HR Hb))))).
  Qed.

  Definition E_spec (dt : K) (E : vec -> vec) : Prop :=
    linear F n E /\
    forall lam (y : vec), length y = n -> Afunc y = cscale lam y -> E y = cscale (dexp (kmul K dt lam)) y.

  Theorem expm_exhausted_zero_resid (v : vec) (dt : K) m (E : vec -> vec) al be (Vs : list vec) wn :
    length v = n -> v <> vzero n -> 1 <= m -> Forall (norm_ok F) (lanczos_calls F Afunc dnorm small v m) ->
    eigh_oracle_ok F Afunc dnorm small deigh v m -> eigh_oracle_sorted F Afunc dnorm small deigh v m ->
    E_spec dt E ->
    lanczos F Afunc dnorm small v m = Some (al, be, Vs, wn) ->
    lanczos_last_resid F Afunc dnorm be Vs = vzero n ->
    expm_krylov F Afunc dnorm small deigh dexp dexpm v dt m true = Some (E v).
  Proof.
    intros Hv Hnz Hm HC HO HS [E_lin E_eig] HR Hz.
    exact (expm_h_given_AV v m al be Vs wn Hv Hnz Hm HC HR (AV_of_zero_resid v m al be Vs wn Hv Hnz Hm HC HR Hz) dt E
             (HO al be Vs wn HR) (HS al be Vs wn HR) E_lin E_eig).
  Qed.

  Theorem expm_exhausted_breakdown (v : vec) (dt : K) m (E : vec -> vec) al be (Vs : list vec) :
    length v = n -> v <> vzero n -> 1 <= m -> Forall (norm_ok F) (lanczos_calls F Afunc dnorm small v m) ->
    eigh_oracle_ok F Afunc dnorm small deigh v m -> eigh_oracle_sorted F Afunc dnorm small deigh v m ->
    E_spec dt E ->
    lanczos F Afunc dnorm small v m = Some (al, be, Vs, true) ->
    lanczos_last_norm F Afunc dnorm be Vs = f0 F ->
    expm_krylov F Afunc dnorm small deigh dexp dexpm v dt m true = Some (E v).
  Proof.
    intros Hv Hnz Hm HC HO HS [E_lin E_eig] HR Hb.
    exact (expm_h_given_AV v m al be Vs true Hv Hnz Hm HC HR (AV_of_breakdown v m al be Vs Hv Hnz Hm HC HR Hb) dt E
             (HO al be Vs true HR) (HS al be Vs true HR) E_lin E_eig).
  Qed.

  Theorem ritz_exhausted_zero_resid (v : vec) m numeig al be (Vs : list vec) wn :
    length v = n -> v <> vzero n -> 1 <= m -> Forall (norm_ok F) (lanczos_calls F Afunc dnorm small v m) ->
    eigh_oracle_ok F Afunc dnorm small deigh v m -> eigh_oracle_sorted F Afunc dnorm small deigh v m ->
    lanczos F Afunc dnorm small v m = Some (al, be, Vs, wn) ->
    lanczos_last_resid F Afunc dnorm be Vs = vzero n ->
    (exists ws us, eigh_krylov F Afunc dnorm small deigh v m numeig = Some (ws, us) /\ ritz_exact_post v Vs numeig ws us) /\
    v = lincomb n (cs_h F (snd (deigh al be)) (length Vs) (dnorm v)) (ritzs F n Vs (snd (deigh al be)) (length Vs)).
  Proof.
    intros Hv Hnz Hm HC HO HS HR Hz.
    pose proof (AV_of_zero_resid v m al be Vs wn Hv Hnz Hm HC HR Hz) as HAV. split.
    - exact (ritz_given_AV v m al be Vs wn Hv Hnz Hm HC HR HAV numeig (HO al be Vs wn HR) (HS al be Vs wn HR)).
    - exact (start_span_given_AV v m al be Vs wn Hv Hnz Hm HC HR (HO al be Vs wn HR) (HS al be Vs wn HR)).
  Qed.

  Theorem ritz_exhausted_breakdown (v : vec) m numeig al be (Vs : list vec) :
    length v = n -> v <> vzero n -> 1 <= m -> Forall (norm_ok F) (lanczos_calls F Afunc dnorm small v m) ->
    eigh_oracle_ok F Afunc dnorm small deigh v m -> eigh_oracle_sorted F Afunc dnorm small deigh v m ->
    lanczos F Afunc dnorm small v m = Some (al, be, Vs, true) ->
    lanczos_last_norm F Afunc dnorm be Vs = f0 F ->
    (exists ws us, eigh_krylov F Afunc dnorm small deigh v m numeig = Some (ws, us) /\ ritz_exact_post v Vs numeig ws us) /\
    v = lincomb n (cs_h F (snd (deigh al be)) (length Vs) (dnorm v)) (ritzs F n Vs (snd (deigh al be)) (length Vs)).
  Proof.
    intros Hv Hnz Hm HC HO HS HR Hb.
    pose proof (AV_of_breakdown v m al be Vs Hv Hnz Hm HC HR Hb) as HAV. split.
    - exact (ritz_given_AV v m al be Vs true Hv Hnz Hm HC HR HAV numeig (HO al be Vs true HR) (HS al be Vs true HR)).
    - exact (start_span_given_AV v m al be Vs true Hv Hnz Hm HC HR (HO al be Vs true HR) (HS al be Vs true HR)).
  Qed.
End ExhaustTop.
