(* C09 — extra matrix algebra for the gauge arguments (general lemmas over any cring; Base/Mx.v is not edited):
   transposes / conjugates of products, cancellation of inverse pairs inside products, the "sandwich" functional
   P . M . Q entry-wise and its linearity, consequences of unitarity. *)
From Coq Require Import Arith List Lia Ring Setoid Bool.
From PT Require Import Base.Scalar Base.BigSum Base.Mx.
Import ListNotations.

Section MxMore.
  Variable R : cring.
  Add Ring Rring_reverse_mx : (k_rt R).
  Notation "0" := (k0 R). Notation "1" := (k1 R).
  Infix "+" := (kadd R). Infix "*" := (kmul R).
  Notation mx := (mx R).
  Notation cj := (kconj R).

  Lemma nr_trmx (A : mx) : nr (trmx A) = nc A. Proof. reflexivity. Qed.
  Lemma nc_trmx (A : mx) : nc (trmx A) = nr A. Proof. reflexivity. Qed.
  Lemma nr_conjmx (A : mx) : nr (conjmx A) = nr A. Proof. reflexivity. Qed.
  Lemma nc_conjmx (A : mx) : nc (conjmx A) = nc A. Proof. reflexivity. Qed.
  Lemma wf_conjmx (A : mx) : wf (conjmx A). Proof. apply wf_tab. Qed.
  Lemma get_trmx (A : mx) i j : i < nc A -> j < nr A -> get (trmx A) i j = get A j i.
  Proof. intros. unfold trmx. rewrite get_tab by assumption. reflexivity. Qed.
  Lemma get_conjmx (A : mx) i j : i < nr A -> j < nc A -> get (conjmx A) i j = cj (get A i j).
  Proof. intros. unfold conjmx. rewrite get_tab by assumption. reflexivity. Qed.

  Lemma trmx_mulmx (A B : mx) : nc A = nr B -> trmx (mulmx A B) = mulmx (trmx B) (trmx A).
  Proof.
    intros H. apply mx_ext; try apply wf_mulmx; try apply wf_trmx; auto.
    rewrite nr_trmx, nc_trmx, nr_mulmx, nc_mulmx. intros i j Hi Hj.
    rewrite get_trmx, !get_mulmx by (rewrite ?nr_trmx, ?nc_trmx, ?nr_mulmx, ?nc_mulmx; assumption).
    rewrite nc_trmx, H. apply sumn_ext; intros k Hk. rewrite !get_trmx by lia. ring.
  Qed.
  Lemma conjmx_mulmx (A B : mx) : nc A = nr B -> conjmx (mulmx A B) = mulmx (conjmx A) (conjmx B).
  Proof.
    intros H. apply mx_ext; try apply wf_mulmx; try apply wf_conjmx; auto.
    rewrite nr_conjmx, nc_conjmx, nr_mulmx, nc_mulmx. intros i j Hi Hj.
    rewrite get_conjmx, !get_mulmx by (rewrite ?nr_conjmx, ?nc_conjmx, ?nr_mulmx, ?nc_mulmx; assumption).
    rewrite sumn_conj, nc_conjmx. apply sumn_ext; intros k Hk. rewrite !get_conjmx by lia. apply kconj_mul.
  Qed.
  Lemma trmx_adjmx (A : mx) : trmx (adjmx A) = conjmx A.
  Proof.
    apply mx_ext; try apply wf_trmx; try apply wf_conjmx; auto. rewrite nr_trmx, nc_trmx, nr_adjmx, nc_adjmx.
    intros i j Hi Hj. rewrite get_trmx, get_adjmx, get_conjmx by (rewrite ?nr_adjmx, ?nc_adjmx; assumption). reflexivity.
  Qed.
  Lemma conjmx_adjmx (A : mx) : conjmx (adjmx A) = trmx A.
  Proof.
    apply mx_ext; try apply wf_trmx; try apply wf_conjmx; auto. rewrite nr_conjmx, nc_conjmx, nr_adjmx, nc_adjmx.
    intros i j Hi Hj. rewrite get_conjmx, get_adjmx, get_trmx by (rewrite ?nr_adjmx, ?nc_adjmx; assumption). apply kconj_inv.
  Qed.
  Lemma adjmx_trmx (A : mx) : adjmx (trmx A) = conjmx A.
  Proof.
    apply mx_ext; try apply wf_adjmx; try apply wf_conjmx; auto. rewrite nr_adjmx, nc_adjmx, nr_trmx, nc_trmx.
    intros i j Hi Hj. rewrite get_adjmx, get_trmx, get_conjmx by (rewrite ?nr_trmx, ?nc_trmx; assumption). reflexivity.
  Qed.
  Lemma adjmx_conjmx (A : mx) : adjmx (conjmx A) = trmx A.
  Proof.
    apply mx_ext; try apply wf_adjmx; try apply wf_trmx; auto. rewrite nr_adjmx, nc_adjmx, nr_conjmx, nc_conjmx.
    intros i j Hi Hj. rewrite get_adjmx, get_conjmx, get_trmx by (rewrite ?nr_conjmx, ?nc_conjmx; assumption). apply kconj_inv.
  Qed.
  Lemma adjmx_adjmx (A : mx) : wf A -> adjmx (adjmx A) = A.
  Proof.
    intros HA. apply mx_ext; try apply wf_adjmx; auto. rewrite nr_adjmx, nc_adjmx.
    intros i j Hi Hj. rewrite !get_adjmx by (rewrite ?nr_adjmx, ?nc_adjmx; assumption). apply kconj_inv.
  Qed.
  Lemma trmx_trmx (A : mx) : wf A -> trmx (trmx A) = A.
  Proof.
    intros HA. apply mx_ext; try apply wf_trmx; auto. rewrite nr_trmx, nc_trmx.
    intros i j Hi Hj. rewrite !get_trmx by (rewrite ?nr_trmx, ?nc_trmx; assumption). reflexivity.
  Qed.
  Lemma trmx_idmx n : trmx (@idmx R n) = idmx n.
  Proof.
    apply mx_ext; try apply wf_trmx; try apply wf_idmx; auto. rewrite nr_trmx, nc_idmx.
    intros i j Hi Hj. rewrite nc_trmx, nr_idmx in Hj. rewrite get_trmx, !get_idmx by (rewrite ?nr_idmx, ?nc_idmx; assumption).
    rewrite Nat.eqb_sym. reflexivity.
  Qed.
  Lemma conjmx_idmx n : conjmx (@idmx R n) = idmx n.
  Proof.
    apply mx_ext; try apply wf_conjmx; try apply wf_idmx; auto. rewrite nr_conjmx, nr_idmx.
    intros i j Hi Hj. rewrite nc_conjmx, nc_idmx in Hj. rewrite get_conjmx, !get_idmx by (rewrite ?nr_idmx, ?nc_idmx; assumption).
    destruct (Nat.eqb i j); [apply kconj_1|apply kconj_0].
  Qed.
  Lemma adjmx_idmx n : adjmx (@idmx R n) = idmx n.
  Proof.
    apply mx_ext; try apply wf_adjmx; try apply wf_idmx; auto. rewrite nr_adjmx, nc_idmx.
    intros i j Hi Hj. rewrite nc_adjmx, nr_idmx in Hj. rewrite get_adjmx, !get_idmx by (rewrite ?nr_idmx, ?nc_idmx; assumption).
    rewrite Nat.eqb_sym. destruct (Nat.eqb i j); [apply kconj_1|apply kconj_0].
  Qed.
  Lemma conjmx_scalemx c (A : mx) : conjmx (scalemx c A) = scalemx (cj c) (conjmx A).
  Proof.
    apply mx_ext; try apply wf_conjmx; try apply wf_scalemx; auto. rewrite nr_conjmx, nc_conjmx, nr_scalemx, nc_scalemx.
    intros i j Hi Hj. rewrite get_conjmx, !get_scalemx, get_conjmx by (rewrite ?nr_scalemx, ?nc_scalemx, ?nr_conjmx, ?nc_conjmx; assumption).
    apply kconj_mul.
  Qed.
  Lemma trmx_scalemx c (A : mx) : trmx (scalemx c A) = scalemx c (trmx A).
  Proof.
    apply mx_ext; try apply wf_trmx; try apply wf_scalemx; auto. rewrite nr_trmx, nc_trmx, nr_scalemx, nc_scalemx.
    intros i j Hi Hj. rewrite get_trmx, !get_scalemx, get_trmx by (rewrite ?nr_scalemx, ?nc_scalemx, ?nr_trmx, ?nc_trmx; assumption).
    reflexivity.
  Qed.
  Lemma scalemx_scalemx a b (A : mx) : scalemx a (scalemx b A) = scalemx (a * b) A.
  Proof.
    apply mx_ext; try apply wf_scalemx; auto. rewrite !nr_scalemx, !nc_scalemx. intros i j Hi Hj.
    rewrite !get_scalemx by (rewrite ?nr_scalemx, ?nc_scalemx; assumption). ring.
  Qed.
  Lemma scalemx_1 (A : mx) : wf A -> scalemx 1 A = A.
  Proof.
    intros HA. apply mx_ext; try apply wf_scalemx; auto. rewrite nr_scalemx, nc_scalemx. intros i j Hi Hj.
    rewrite get_scalemx by assumption. ring.
  Qed.

  (* cancellation inside right-nested products *)
  Lemma mulmx_cancel (P Q X : mx) n : mulmx P Q = idmx n -> nc P = nr Q -> nc Q = nr X -> nr X = n -> wf X ->
    mulmx P (mulmx Q X) = X.
  Proof.
    intros HPQ H1 H2 H3 HX. rewrite <- mulmx_assoc by assumption. rewrite HPQ, <- H3. apply mulmx_1_l. exact HX.
  Qed.
  Lemma mulmx_cancel_r (X P Q : mx) n : mulmx P Q = idmx n -> nc X = nr P -> nc P = nr Q -> nc X = n -> wf X ->
    mulmx (mulmx X P) Q = X.
  Proof.
    intros HPQ H1 H2 H3 HX. rewrite mulmx_assoc by assumption. rewrite HPQ, <- H3. apply mulmx_1_r. exact HX.
  Qed.

  (* ---------------- the sandwich functional  sum_k sum_l p k * M k l * q l ---------------- *)
  Definition sand (m n : nat) (p q : nat -> R) (M : nat -> nat -> R) : R :=
    sumn m (fun k => sumn n (fun l => p k * M k l * q l)).
  Lemma sand_ext m n p q M M' : (forall k l, k < m -> l < n -> M k l = M' k l) -> sand m n p q M = sand m n p q M'.
  Proof. intros H. unfold sand. apply sumn_ext; intros k Hk. apply sumn_ext; intros l Hl. rewrite H by assumption. reflexivity. Qed.
  Lemma sand_sum m n p q N (f : nat -> nat -> nat -> R) :
    sand m n p q (fun k l => sumn N (fun i => f i k l)) = sumn N (fun i => sand m n p q (f i)).
  Proof.
    unfold sand.
    transitivity (sumn m (fun k => sumn N (fun i => sumn n (fun l => p k * f i k l * q l)))).
    { apply sumn_ext; intros k _. rewrite sumn_exch. apply sumn_ext; intros l _.
      rewrite <- (sumn_scal_l R N (p k)), <- sumn_scal_r. reflexivity. }
    apply sumn_exch.
  Qed.
  Lemma sand_scal m n p q c M : sand m n p q (fun k l => c * M k l) = c * sand m n p q M.
  Proof.
    unfold sand. rewrite <- sumn_scal_l. apply sumn_ext; intros k _. rewrite <- sumn_scal_l. apply sumn_ext; intros l _. ring.
  Qed.
  Lemma get_sandwich (P M Q : mx) i j : nc P = nr M -> nc M = nr Q -> i < nr P -> j < nc Q ->
    get (mulmx (mulmx P M) Q) i j = sand (nr M) (nc M) (get P i) (fun l => get Q l j) (get M).
  Proof.
    intros H1 H2 Hi Hj. rewrite get_mulmx by (rewrite ?nr_mulmx; assumption). rewrite nc_mulmx. unfold sand.
    transitivity (sumn (nc M) (fun l => sumn (nr M) (fun k => get P i k * get M k l * get Q l j))).
    { apply sumn_ext; intros l Hl. rewrite get_mulmx by assumption. rewrite H1, <- sumn_scal_r. reflexivity. }
    apply sumn_exch.
  Qed.
End MxMore.

Arguments sand {R} m n p q M.

Global Hint Rewrite nr_mulmx nc_mulmx nr_trmx nc_trmx nr_conjmx nc_conjmx nr_adjmx nc_adjmx nr_scalemx nc_scalemx
  nr_idmx nc_idmx nr_tab nc_tab : mxshape.
