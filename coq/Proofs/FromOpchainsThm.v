(* C05 (b): if from_opchains returns a graph (whatever the cover oracle answered), the graph denotes
   the sum of the identity-padded chains — repeated, accumulating and cancelling coefficients and the
   single chain with an arbitrary coefficient included. *)
From Coq Require Import ZArith List Lia Bool Ring.
From PT Require Import Base.Scalar Base.BigSum Model.OpGraph Model.FromOpchains
                       Proofs.FromOpchainsGraph Proofs.FromOpchainsPart Proofs.FromOpchainsSem Proofs.FromOpchainsMain
                       Proofs.DenRev_C05.
Import ListNotations.
Open Scope Z_scope.

Section Thm.
  Variable R : cring.
  Add Ring Rring_thm : (k_rt R).
  Notation "0r" := (k0 R). Notation "1r" := (k1 R).
  Infix "+r" := (kadd R) (at level 50, left associativity).
  Infix "*r" := (kmul R) (at level 40, left associativity).
  Notation chain := (chain R).
  Notation ind := (ind R).

  Lemma padded_spec L idn (c c' : chain) : padded L idn c = Ok c' ->
    c_oids c' = padded_oids L idn c /\ c_coeff c' = c_coeff c /\ length (c_oids c') = L.
  Proof.
    unfold padded, padded_oids. destruct (Nat.ltb L (length (c_oids c) + c_istart c)) eqn:E; [discriminate|].
    apply Nat.ltb_ge in E. intros H. inversion H; subst. cbn. repeat split; auto.
    rewrite !app_length, !repeat_length. lia.
  Qed.

  Lemma pad_all_spec L idn w : forall (l l' : list chain), pad_all L idn l = Ok l' ->
    Forall (fun c : chain => length (c_oids c) = L) l' /\
    suml l' (fun c => c_coeff c *r ind (zlist_eqb (c_oids c) w)) =
    suml l (fun c => c_coeff c *r ind (zlist_eqb (padded_oids L idn c) w)).
  Proof.
    induction l as [|c l IH]; intros l' H; simpl in H.
    - inversion H; subst. split; [constructor|reflexivity].
    - destruct (padded L idn c) as [c'|] eqn:Ec; [|discriminate]. cbn [bind] in H.
      destruct (pad_all L idn l) as [t'|] eqn:Et; [|discriminate]. cbn [bind] in H. inversion H; subst.
      destruct (IH t' eq_refl) as [A B]. destruct (padded_spec _ _ _ _ Ec) as [E1 [E2 E3]].
      split; [constructor; assumption|]. cbn [suml]. rewrite B, E1, E2. reflexivity.
  Qed.

  Lemma suml_filter {A} (f : A -> bool) (g : A -> R) l :
    (forall x, In x l -> f x = false -> g x = 0r) -> suml (filter f l) g = suml l g.
  Proof.
    induction l as [|a l IH]; intros H; simpl; [reflexivity|].
    destruct (f a) eqn:E; simpl; rewrite IH by (intros; apply H; auto; right; assumption); [reflexivity|].
    rewrite (H a) by (auto; left; reflexivity). ring.
  Qed.

  Theorem from_opchains_den_rev cover (chains : list chain) L idn g : (1 <= L)%nat ->
    from_opchains cover chains L idn = Ok g ->
    forall w, den_rev g w = chains_den L idn chains w.
  Proof.
    intros HL H w. unfold from_opchains in H.
    destruct (negb (forallb (@chain_ok R) chains)); [discriminate|].
    destruct chains as [|c0 ct] eqn:Ech; [discriminate|]. rewrite <- Ech in *. clear Ech c0 ct.
    destruct (pad_all L idn (filter (@nonzero R) chains)) as [cs|] eqn:Ep; [|discriminate]. cbn [bind] in H.
    destruct (sweep cover L (mkst init_graph 1 0 (init_next idn cs) [])) as [s|] eqn:Es; [|discriminate]. cbn [bind] in H.
    destruct (pad_all_spec L idn w _ _ Ep) as [Hcs Hsum].
    pose proof (SW_init R L idn cs Hcs) as H0.
    pose proof (SW_sweep R L idn cs Hcs cover L _ _ O H0 ltac:(lia) Es) as HS.
    rewrite (finish_den R L idn cs s g HS HL H w).
    unfold REF, chains_den.
    transitivity (suml cs (fun c => c_coeff c *r ind (zlist_eqb (c_oids c) w))).
    { apply suml_ext. intros c _. rewrite zlist_eqb_app_r. reflexivity. }
    rewrite Hsum. rewrite suml_filter.
    - apply suml_ext. intros c _. unfold FromOpchainsSem.ind. destruct (zlist_eqb (padded_oids L idn c) w); ring.
    - intros c _ Hc. unfold nonzero in Hc. apply negb_false_iff, keqb_spec in Hc. rewrite Hc. ring.
  Qed.

  (* with the linkage check of Proofs/DenRev_C05.v (evaluated on every generated case by the harness)
     the forward meaning [den] is the same *)
  Corollary from_opchains_den cover (chains : list chain) L idn g : (1 <= L)%nat ->
    from_opchains cover chains L idn = Ok g -> linked g = true ->
    forall w, den g w = chains_den L idn chains w.
  Proof.
    intros HL H Hl w. rewrite (den_eq_den_rev R g w Hl). eapply from_opchains_den_rev; eauto.
  Qed.
End Thm.
