(* Vector algebra over K = Cx F on lists: sesquilinearity of vdot, norms, linear combinations. *)
From Coq Require Import ZArith List Bool Arith Lia Ring Field.
From PT Require Import Base.Scalar Base.Field Base.BigSum Model.Krylov.
Import ListNotations.

Section KrylovVec.
  Variable F : ofield.
  Notation K := (Cx F).
  Add Field Ffield_kv : (f_ft F).
  Add Ring Kring_kv : (k_rt (Cx F)).
  Notation vec := (list K).
  Notation "0" := (k0 K). Notation "1" := (k1 K).
  Infix "+" := (kadd K). Infix "*" := (kmul K). Infix "-" := (ksub K).
  Notation conj := (kconj K).

  (* ---- scalars ---- *)
  Lemma cof_add a b : cof (fadd F a b) = cof a + cof b.
  Proof. apply injective_projections; cbn; ring. Qed.
  Lemma cof_mul a b : cof (fmul F a b) = cof a * cof b.
  Proof. apply injective_projections; cbn; ring. Qed.
  Lemma cof_0 : cof (f0 F) = 0. Proof. reflexivity. Qed.
  Lemma cof_1 : cof (f1 F) = 1. Proof. reflexivity. Qed.
  Lemma conj_cof a : conj (cof a) = cof a.
  Proof. apply injective_projections; cbn; ring. Qed.
  Lemma cof_inj a b : @cof F a = cof b -> a = b.
  Proof. unfold cof. intros H. inversion H. reflexivity. Qed.
  Lemma cre_cof a : cre (@cof F a) = a. Proof. reflexivity. Qed.

  Lemma fdiv_def a b : fdiv F a b = fmul F a (finv F b).
  Proof. apply (Fdiv_def (f_ft F)). Qed.
  Lemma cdivr_mul (z : K) r : cdivr z r = cof (finv F r) * z.
  Proof. destruct z as [x y]. apply injective_projections; cbn; rewrite fdiv_def; ring. Qed.

  Lemma f2_neq0 : fadd F (f1 F) (f1 F) <> f0 F.
  Proof.
    intros E. assert (H : flt F (f0 F) (fadd F (f1 F) (f1 F))).
    { eapply flt_le_trans; [apply f1_pos|].
      eapply fle_eq; [| |apply (fle_add_compat F (f0 F) (f1 F) (f1 F) (f1 F))]; try ring.
      - apply flt_le, f1_pos. - apply fle_refl. }
    rewrite E in H. exact (flt_irrefl F _ H).
  Qed.
  (* a complex number equal to its conjugate is real *)
  Lemma conj_fixed_real (z : K) : conj z = z -> z = cof (cre z).
  Proof.
    destruct z as [x y]. intros H. apply (f_equal snd) in H. cbn in H.
    assert (Hy : y = f0 F).
    { assert (E : fmul F (fadd F (f1 F) (f1 F)) y = f0 F).
      { transitivity (fadd F y y); [ring|]. rewrite <- H at 1. ring. }
      transitivity (fmul F (finv F (fadd F (f1 F) (f1 F))) (fmul F (fadd F (f1 F) (f1 F)) y)).
      - field. exact f2_neq0.
      - rewrite E. ring. }
    subst y. reflexivity.
  Qed.

  (* ---- lengths ---- *)
  Lemma length_zipw {A B X} (f : A -> B -> X) x y : length x = length y -> length (zipw f x y) = length x.
  Proof. revert y; induction x as [|a x IH]; intros [|b y] H; simpl in *; try discriminate; auto. Qed.
  Lemma length_vadd n (x y : vec) : length x = n -> length y = n -> length (vadd x y) = n.
  Proof. intros Hx Hy. unfold vadd. rewrite length_zipw; congruence. Qed.
  Lemma length_vsub n (x y : vec) : length x = n -> length y = n -> length (vsub x y) = n.
  Proof. intros Hx Hy. unfold vsub. rewrite length_zipw; congruence. Qed.
  Lemma length_cscale n c (x : vec) : length x = n -> length (cscale c x) = n.
  Proof. intros H. unfold cscale. rewrite map_length. exact H. Qed.
  Lemma length_rscale n a (x : vec) : length x = n -> length (rscale a x) = n.
  Proof. apply length_cscale. Qed.
  Lemma length_vdivr n (x : vec) r : length x = n -> length (vdivr x r) = n.
  Proof. intros H. unfold vdivr. rewrite map_length. exact H. Qed.
  Lemma length_vzero n : length (@vzero F n) = n.
  Proof. apply repeat_length. Qed.

  (* ---- vdot ---- *)
  Lemma vdot_nil_r (x : vec) : vdot x [] = 0. Proof. destruct x; reflexivity. Qed.
  Lemma vdot_add_r (x y z : vec) : length y = length z ->
    vdot x (vadd y z) = vdot x y + vdot x z.
  Proof.
    revert y z; induction x as [|a x IH]; intros [|b y] [|c z] H; cbn [vdot vadd zipw] in *; try discriminate; try ring.
    fold (vadd y z). rewrite IH by (cbn [length] in H; lia). ring.
  Qed.
  Lemma vdot_add_l (x y z : vec) : length x = length y ->
    vdot (vadd x y) z = vdot x z + vdot y z.
  Proof.
    revert y z; induction x as [|a x IH]; intros [|b y] [|c z] H; cbn [vdot vadd zipw] in *; try discriminate; try ring.
    fold (vadd x y). rewrite IH by (cbn [length] in H; lia). rewrite kconj_add. ring.
  Qed.
  Lemma vdot_sub_r (x y z : vec) : length y = length z ->
    vdot x (vsub y z) = vdot x y - vdot x z.
  Proof.
    revert y z; induction x as [|a x IH]; intros [|b y] [|c z] H; cbn [vdot vsub zipw] in *; try discriminate; try ring.
    fold (vsub y z). rewrite IH by (cbn [length] in H; lia). ring.
  Qed.
  Lemma vdot_sub_l (x y z : vec) : length x = length y ->
    vdot (vsub x y) z = vdot x z - vdot y z.
  Proof.
    revert y z; induction x as [|a x IH]; intros [|b y] [|c z] H; cbn [vdot vsub zipw] in *; try discriminate; try ring.
    fold (vsub x y). rewrite IH by (cbn [length] in H; lia). rewrite kconj_sub. ring.
  Qed.
  Lemma vdot_cscale_r c (x y : vec) : vdot x (cscale c y) = c * vdot x y.
  Proof.
    revert y; induction x as [|a x IH]; intros [|b y]; cbn [vdot cscale map]; try ring.
    fold (cscale c y). rewrite IH. ring.
  Qed.
  Lemma vdot_cscale_l c (x y : vec) : vdot (cscale c x) y = conj c * vdot x y.
  Proof.
    revert y; induction x as [|a x IH]; intros [|b y]; cbn [vdot cscale map]; try ring.
    fold (cscale c x). rewrite IH, kconj_mul. ring.
  Qed.
  Lemma vdot_rscale_r a (x y : vec) : vdot x (rscale a y) = cof a * vdot x y.
  Proof. apply vdot_cscale_r. Qed.
  Lemma vdot_rscale_l a (x y : vec) : vdot (rscale a x) y = cof a * vdot x y.
  Proof. unfold rscale. rewrite vdot_cscale_l, conj_cof. reflexivity. Qed.
  Lemma vdot_conj (x y : vec) : conj (vdot x y) = vdot y x.
  Proof.
    revert y; induction x as [|a x IH]; intros [|b y]; cbn [vdot]; try apply kconj_0.
    rewrite kconj_add, kconj_mul, kconj_inv, IH. ring.
  Qed.
  Lemma vdot_zero_r n (x : vec) : vdot x (vzero n) = 0.
  Proof.
    revert n; induction x as [|a x IH]; intros [|n]; cbn [vdot vzero repeat]; try reflexivity.
    fold (@vzero F n). rewrite IH. ring.
  Qed.
  Lemma vdot_zero_l n (x : vec) : vdot (vzero n) x = 0.
  Proof. rewrite <- vdot_conj, vdot_zero_r. apply kconj_0. Qed.
  Lemma vdot_self (x : vec) : vdot x x = cof (nrm2 x).
  Proof.
    induction x as [|a x IH]; cbn [vdot nrm2]; [reflexivity|].
    rewrite IH, cof_add. f_equal. apply (cconj_mul_self F).
  Qed.
  Lemma vdot_vdivr_r (x y : vec) r : vdot x (vdivr y r) = cof (finv F r) * vdot x y.
  Proof.
    rewrite <- vdot_cscale_r. f_equal. unfold vdivr, cscale. apply map_ext. intros z. apply cdivr_mul.
  Qed.
  Lemma vdot_vdivr_l (x y : vec) r : vdot (vdivr x r) y = cof (finv F r) * vdot x y.
  Proof. rewrite <- vdot_conj, vdot_vdivr_r, kconj_mul, conj_cof, vdot_conj. reflexivity. Qed.

  (* ---- norms ---- *)
  Lemma nrm2_nonneg (x : vec) : fle F (f0 F) (nrm2 x).
  Proof. induction x as [|a x IH]; cbn [nrm2]; [apply fle_refl|]. apply fle_add_nonneg; [apply cnorm2_nonneg|exact IH]. Qed.
  Lemma nrm2_zero (x : vec) : nrm2 x = f0 F -> x = vzero (length x).
  Proof.
    induction x as [|a x IH]; cbn [nrm2 length vzero repeat]; intros H; [reflexivity|].
    apply fadd_nonneg_zero in H; [|apply cnorm2_nonneg|apply nrm2_nonneg]. destruct H as [H1 H2].
    apply cnorm2_zero in H1. rewrite H1. f_equal. apply IH. exact H2.
  Qed.

  (* ---- vector identities ---- *)
  Lemma vadd_zero_r n (x : vec) : length x = n -> vadd x (vzero n) = x.
  Proof.
    revert n; induction x as [|a x IH]; intros [|n] H; cbn [length] in H; try discriminate; [reflexivity|].
    cbn [vadd zipw vzero repeat]. fold (@vzero F n). fold (vadd x (vzero n)). rewrite IH by lia. f_equal. ring.
  Qed.
  Lemma vsub_vadd (x y : vec) : length x = length y -> vadd (vsub x y) y = x.
  Proof.
    revert y; induction x as [|a x IH]; intros [|b y] H; cbn [length] in H; try discriminate; [reflexivity|].
    cbn [vadd vsub zipw]. fold (vsub x y). fold (vadd (vsub x y) y). rewrite IH by lia. f_equal. ring.
  Qed.
  Lemma vadd_comm (x y : vec) : vadd x y = vadd y x.
  Proof.
    revert y; induction x as [|a x IH]; intros [|b y]; try reflexivity.
    cbn [vadd zipw]. fold (vadd x y). fold (vadd y x). rewrite IH. f_equal. ring.
  Qed.
  Lemma vadd_zero_l n (x : vec) : length x = n -> vadd (vzero n) x = x.
  Proof. intros H. rewrite vadd_comm. apply vadd_zero_r. exact H. Qed.
  Lemma vadd_assoc (x y z : vec) : vadd (vadd x y) z = vadd x (vadd y z).
  Proof.
    revert y z; induction x as [|a x IH]; intros [|b y] [|c z]; try reflexivity.
    cbn [vadd zipw]. fold (vadd x y). fold (vadd y z). fold (vadd (vadd x y) z). fold (vadd x (vadd y z)).
    rewrite IH. f_equal. ring.
  Qed.
  Lemma vsub_vadd' (x y : vec) : length x = length y -> x = vadd y (vsub x y).
  Proof. intros H. rewrite vadd_comm. symmetry. apply vsub_vadd. exact H. Qed.
  Lemma rscale_vdivr (x : vec) r : r <> f0 F -> rscale r (vdivr x r) = x.
  Proof.
    intros Hr. unfold rscale, cscale, vdivr. rewrite map_map. rewrite <- (map_id x) at 2. apply map_ext.
    intros [a b]. unfold cdivr, cof. cbn. unfold cmul. cbn. f_equal; field; exact Hr.
  Qed.

  (* ---- linear combinations ---- *)
  Lemma length_lincomb n cs (Vs : list vec) : (forall v, In v Vs -> length v = n) -> length (lincomb n cs Vs) = n.
  Proof.
    revert cs; induction Vs as [|v Vs IH]; intros [|c cs] H; cbn [lincomb]; try apply length_vzero.
    apply length_vadd; [apply length_cscale; apply H; left; reflexivity|]. apply IH. intros u Hu. apply H. right. exact Hu.
  Qed.
  (* <x, sum_j c_j v_j> = sum_j c_j <x, v_j> *)
  Lemma vdot_lincomb_r n (x : vec) cs (Vs : list vec) : (forall v, In v Vs -> length v = n) -> length cs <= length Vs ->
    vdot x (lincomb n cs Vs) = sumn (length Vs) (fun j => nth j cs 0 * vdot x (nth j Vs [])).
  Proof.
    revert cs; induction Vs as [|v Vs IH]; intros [|c cs] H Hl; cbn [length] in Hl; try lia.
    - cbn [lincomb length sumn]. apply vdot_zero_r.
    - cbn [lincomb]. rewrite vdot_zero_r. symmetry. apply sumn_zero. intros j _. destruct j; cbn [nth]; ring.
    - cbn [lincomb length]. rewrite vdot_add_r.
      2:{ rewrite length_cscale with (n := n), length_lincomb; auto. - intros u Hu. apply H. right. exact Hu. - apply H. left. reflexivity. }
      rewrite vdot_cscale_r, IH; [|intros u Hu; apply H; right; exact Hu|lia].
      clear IH. generalize (length Vs). intros k.
      transitivity (sumn (1 + k) (fun j => nth j (c :: cs) 0 * vdot x (nth j (v :: Vs) []))).
      + rewrite sumn_app. cbn [sumn nth Nat.add]. ring.
      + reflexivity.
  Qed.
  Lemma vdot_lincomb_l n (y : vec) cs (Vs : list vec) : (forall v, In v Vs -> length v = n) -> length cs <= length Vs ->
    vdot (lincomb n cs Vs) y = sumn (length Vs) (fun j => conj (nth j cs 0) * vdot (nth j Vs []) y).
  Proof.
    intros H Hl. rewrite <- vdot_conj, (vdot_lincomb_r n) by assumption. rewrite sumn_conj.
    apply sumn_ext. intros j Hj. rewrite kconj_mul, vdot_conj. reflexivity.
  Qed.
  Lemma lincomb_app n cs cs' (Vs Ws : list vec) : (forall v, In v Ws -> length v = n) -> length cs = length Vs ->
    lincomb n (cs ++ cs') (Vs ++ Ws) = vadd (lincomb n cs Vs) (lincomb n cs' Ws).
  Proof.
    intros HW. revert cs; induction Vs as [|v Vs IH]; intros [|c cs] Hl; cbn [length] in Hl; try discriminate.
    - cbn [app lincomb]. rewrite vadd_zero_l; [reflexivity|]. apply length_lincomb. exact HW.
    - cbn [app lincomb]. rewrite IH by lia. rewrite vadd_assoc. reflexivity.
  Qed.
  Lemma lincomb_more n cs (Vs Ws : list vec) : length cs <= length Vs -> lincomb n cs (Vs ++ Ws) = lincomb n cs Vs.
  Proof.
    revert cs; induction Vs as [|v Vs IH]; intros [|c cs] Hl; cbn [length] in Hl; try lia; try reflexivity.
    cbn [app lincomb]. rewrite IH by lia. reflexivity.
  Qed.
End KrylovVec.
