(* C02: the oracle hypotheses of the history theorem for MPS.orthonormalize / MPO.orthonormalize are consequences of C01's
   theorems about the executable model of these routines (Model/Orthonormalize.v) under LAPACK's contract for
   numpy.linalg.qr, and orthonormalization keeps the total charge of a non-zero state. *)
From Coq Require Import ZArith List Lia Bool Arith.
From PT Require Import Base.Scalar Base.Field Base.BigSum Base.Mx Model.Tensor Model.BondOps Model.Orthonormalize Model.History.
From PT Require Import Proofs.BondOpsSpec Proofs.OrthDefs Proofs.OrthQRExtra Proofs.OrthSweep Proofs.OrthTop Proofs.OrthRight Proofs.OrthMPO.
From PT Require Import Proofs.HistSparse Proofs.HistCharge Proofs.HistInv.
Import ListNotations.
Open Scope nat_scope.

Section HistOrth.
  Variable F : ofield.
  Notation CF := (Cx F).
  Variable dqr : mx CF -> mx CF * mx CF.

  (* the result function of MPS.orthonormalize / MPO.orthonormalize given by the executable model *)
  Definition orth_result (left : bool) (p : mps CF) : mps CF :=
    match mps_orthonormalize dqr left p with Some (p', _) => p' | None => p end.
  Definition orth_mpo_result (left : bool) (o : mpo CF) : mpo CF :=
    match mpo_orthonormalize dqr left o with Some (o', _) => o' | None => o end.

  (* preconditions of C01's theorems: L >= 1, d >= 1, boundary bonds of dimension 1, no empty bond *)
  Definition orth_pre (p : mps CF) : Prop :=
    1 <= length (m_qd p) /\ m_A p <> [] /\ length (hd [] (m_qD p)) = 1 /\ length (last (m_qD p) []) = 1 /\
    Forall (fun q => 1 <= length q) (m_qD p).
  Definition orth_mpo_pre (o : mpo CF) : Prop :=
    1 <= length (o_qd o) /\ o_A o <> [] /\ length (hd [] (o_qD o)) = 1 /\ length (last (o_qD o) []) = 1 /\
    Forall (fun q => 1 <= length q) (o_qD o).

  Theorem orth_result_ok (left : bool) (p : mps CF) :
    mps_ok p = true -> orth_pre p -> Forall (qr_call_ok F dqr) (mps_orth_calls dqr left p) ->
    mps_ok (orth_result left p) = true.
  Proof.
    intros Hok (Hd & Hne & H1 & H2 & Hpos) Hc. unfold orth_result. destruct left.
    - destruct (orth_left_spec F dqr p (length (m_qd p)) Hd eq_refl Hne Hok H1 H2 Hpos Hc) as (p' & nrm & E & _ & _ & Hok' & _).
      rewrite E. exact Hok'.
    - destruct (orth_right_spec F dqr p (length (m_qd p)) Hd eq_refl Hne Hok H1 H2 Hpos Hc) as (p' & nrm & E & _ & _ & Hok' & _).
      rewrite E. exact Hok'.
  Qed.
  Theorem orth_mpo_result_ok (o : mpo CF) :
    mpo_ok o = true -> orth_mpo_pre o -> Forall (qr_call_ok F dqr) (mpo_orth_calls dqr true o) ->
    mpo_ok (orth_mpo_result true o) = true.
  Proof.
    intros Hok (Hd & Hne & H1 & H2 & Hpos) Hc. unfold orth_mpo_result.
    destruct (mpo_orth_left_spec F dqr o (length (o_qd o)) Hd eq_refl Hne Hok H1 H2 Hpos Hc) as (o' & nrm & E & _ & _ & Hok' & _).
    rewrite E. exact Hok'.
  Qed.

  (* the Orth step of the state machine with this result function meets its oracle hypothesis *)
  Theorem orth_step_contract (O : oracles CF) (s : state CF) (i : nat) (left : bool) :
    or_orth O = orth_result ->
    (forall p, nth_error (states s) i = Some p -> orth_pre p /\ Forall (qr_call_ok F dqr) (mps_orth_calls dqr left p)) ->
    oracle_ok_at CF O s (Orth i left).
  Proof.
    intros EO H. simpl. intros p Ei Hok. rewrite EO. destruct (H p Ei) as [Hpre Hc]. apply orth_result_ok; assumption.
  Qed.
  Theorem orth_mpo_step_contract (O : oracles CF) (s : state CF) (a : nat) :
    or_orth_mpo O = orth_mpo_result ->
    (forall x, nth_error (operators s) a = Some x -> orth_mpo_pre x /\ Forall (qr_call_ok F dqr) (mpo_orth_calls dqr true x)) ->
    oracle_ok_at CF O s (OrthMpo a true).
  Proof.
    intros EO H. simpl. intros x Ea Hok. rewrite EO. destruct (H x Ea) as [Hpre Hc]. apply orth_mpo_result_ok; assumption.
  Qed.

  (* (c) total charge: for a non-zero state (some amplitude is not zero) both boundary charge lists are returned unchanged *)
  Theorem orth_total_charge_kept (left : bool) (p : mps CF) (w : list nat) :
    mps_ok p = true -> orth_pre p -> Forall (qr_call_ok F dqr) (mps_orth_calls dqr left p) ->
    length w = length (m_A p) -> Forall (fun s => s < length (m_qd p)) w -> amp (m_A p) w <> k0 CF ->
    exists p' nrm, mps_orthonormalize dqr left p = Some (p', nrm) /\ mps_ok p' = true /\ m_qd p' = m_qd p /\
      hd [] (m_qD p') = hd [] (m_qD p) /\ last (m_qD p') [] = last (m_qD p) [].
  Proof.
    intros Hok (Hd & Hne & H1 & H2 & Hpos) Hc HL Hw Hnz. destruct left.
    - destruct (orth_left_spec F dqr p (length (m_qd p)) Hd eq_refl Hne Hok H1 H2 Hpos Hc)
        as (p' & nrm & E & Eqd & EL & Hok' & Ehd & Hl1 & _ & _ & _ & _ & Hamp & _).
      exists p', nrm. split; [exact E|]. split; [exact Hok'|]. split; [exact Eqd|]. split; [exact Ehd|].
      assert (Hnz' : amp (m_A p') w <> k0 CF).
      { rewrite (Hamp w HL Hw) in Hnz. exact (mul_nz_r CF _ _ Hnz). }
      apply (boundary_charge_determined CF p p' w); try assumption. congruence.
    - destruct (orth_right_spec F dqr p (length (m_qd p)) Hd eq_refl Hne Hok H1 H2 Hpos Hc)
        as (p' & nrm & E & Eqd & EL & Hok' & Elast & Hh1 & _ & _ & _ & _ & Hamp & _).
      exists p', nrm. split; [exact E|]. split; [exact Hok'|]. split; [exact Eqd|].
      assert (Hnz' : amp (m_A p') w <> k0 CF).
      { rewrite (Hamp w HL Hw) in Hnz. exact (mul_nz_r CF _ _ Hnz). }
      split; [|exact Elast].
      apply (boundary_charge_determined CF p p' w); try assumption. congruence.
  Qed.
End HistOrth.
