(* C09 exactness -- contract (A) [kexp_global] DERIVED from the analytic contract [solver_natural]:
     natural_global : solver_natural Hs d Ds DW G m kexp -> kexp_global Hs d Ds G m kexp
   (the frames of kexp_global are unitary, their environment blocks are the model's lfold / rfold, so by
   Proofs/ExactGlobalEmbed.v the embedding is unitary and intertwines the local operator with the dense one), and the main
   theorems restated with (A) replaced by the new contract (tdvp1_exact_natural, _L1, _L2). *)
From Coq Require Import ZArith Arith List Lia Ring Setoid Bool.
From PT Require Import Base.Scalar Base.BigSum Base.Mx Model.Tensor Model.Operation Model.Sweeps
  Proofs.OperationEntries Proofs.SweepsCanon Proofs.SweepsFlow Proofs.ReverseDefs Proofs.ReverseGauge Proofs.ReverseFwd
  Proofs.ExactDefs Proofs.ExactRun Proofs.ExactGlobalDefs Proofs.ExactGlobalFrames Proofs.ExactGlobalEmbed.
Import ListNotations.
Open Scope nat_scope.

(* ---------------- list plumbing ---------------- *)
Lemma split_nth {T} (dflt : T) (l : list T) : forall i, i < length l -> l = firstn i l ++ nth i l dflt :: skipn (S i) l.
Proof.
  induction l as [|x l IH]; intros i Hi; [cbn [length] in Hi; lia|]. destruct i as [|i]; [reflexivity|].
  cbn [firstn nth skipn app]. f_equal. apply IH. cbn [length] in Hi. lia.
Qed.
Lemma lset_split {T} (l : list T) : forall i x, i < length l -> lset l i x = firstn i l ++ x :: skipn (S i) l.
Proof.
  induction l as [|y l IH]; intros i x Hi; [cbn [length] in Hi; lia|]. destruct i as [|i]; [reflexivity|].
  cbn [lset firstn skipn app]. f_equal. apply IH. cbn [length] in Hi. lia.
Qed.
Lemma nth_firstn_lt {T} (dflt : T) (l : list T) : forall i j, j < i -> nth j (firstn i l) dflt = nth j l dflt.
Proof.
  induction l as [|x l IH]; intros i j Hj; [rewrite firstn_nil; reflexivity|]. destruct i as [|i]; [lia|].
  destruct j as [|j]; [reflexivity|]. cbn [firstn nth]. apply IH. lia.
Qed.
Lemma nth_skipn_add {T} (dflt : T) (l : list T) : forall i j, nth j (skipn i l) dflt = nth (i + j) l dflt.
Proof.
  induction l as [|x l IH]; intros i j; [rewrite skipn_nil; generalize (i + j); intros k; destruct j, k; reflexivity|].
  destruct i as [|i]; [reflexivity|]. cbn [skipn Nat.add nth]. apply IH.
Qed.
Lemma firstn_S_snoc {T} (dflt : T) (l : list T) : forall i, i < length l -> firstn (S i) l = firstn i l ++ [nth i l dflt].
Proof.
  induction l as [|x l IH]; intros i Hi; [cbn [length] in Hi; lia|]. destruct i as [|i]; [reflexivity|].
  cbn [firstn nth app]. f_equal. apply IH. cbn [length] in Hi. lia.
Qed.
Lemma skipn_cons_nth {T} (dflt : T) (l : list T) : forall i, i < length l -> skipn i l = nth i l dflt :: skipn (S i) l.
Proof.
  induction l as [|x l IH]; intros i Hi; [cbn [length] in Hi; lia|]. destruct i as [|i]; [reflexivity|].
  cbn [skipn nth]. apply IH. cbn [length] in Hi. lia.
Qed.

Section Global.
  Variable R : cring.
  Notation site := (site R).
  Notation osite := (osite R).
  Notation env := (env R).
  Notation mx := (mx R).
  Variable Hs : list osite.
  Variable d : nat.
  Variables Ds DW : nat -> nat.
  Variable m : nat.
  Notation L := (length Hs).
  Hypothesis Hd : 0 < d.
  Hypothesis HW : forall j, j < L -> osite_ok d (DW j) (DW (S j)) (nth j Hs []).
  Hypothesis HDWpos : forall j, 0 < DW j.
  Hypothesis HDW0 : DW 0 = 1.
  Hypothesis HDWL : DW L = 1.
  Hypothesis HD0 : Ds 0 = 1.
  Hypothesis HDL : Ds L = 1.
  Hypothesis HmL : m < L.

  Lemma lfold_snoc (As : list site) : forall (Bs : list site) (Ws : list osite) A B W0 (E0 : env),
    length Bs = length As -> length Ws = length As ->
    lfold (As ++ [A]) (Bs ++ [B]) (Ws ++ [W0]) E0 = contraction_operator_step_left A B W0 (lfold As Bs Ws E0).
  Proof.
    induction As as [|A0 As IH]; intros Bs Ws A B W0 E0 lB lW.
    - destruct Bs; [|discriminate]. destruct Ws; [|discriminate]. reflexivity.
    - destruct Bs as [|B0 Bs]; [discriminate|]. destruct Ws as [|W1 Ws]; [discriminate|]. cbn [app lfold].
      apply IH; cbn [length] in *; lia.
  Qed.

  Section Frames.
    Variable As : list site.
    Variables EL ER : nat -> env.
    Hypothesis lA : length As = L.
    Hypothesis Hsh : forall j, j < L -> wsite d (Ds j) (Ds (S j)) (nth j As []).
    Hypothesis EL0 : EL 0 = env_one.
    Hypothesis ELr : forall j, j < m -> EL (S j) = contraction_operator_step_left (nth j As []) (nth j As []) (nth j Hs []) (EL j).
    Hypothesis ERl : ER (L - 1) = env_one.
    Hypothesis ERr : forall j, m < j < L -> ER (j - 1) = contraction_operator_step_right (nth j As []) (nth j As []) (nth j Hs []) (ER j).

    Lemma EL_lfold k : k <= m -> EL k = lfold (firstn k As) (firstn k As) (firstn k Hs) env_one.
    Proof.
      induction k as [|k IH]; intros Hk; [exact EL0|].
      rewrite (@firstn_S_snoc site [] As k) by lia. rewrite (@firstn_S_snoc osite [] Hs k) by lia.
      rewrite lfold_snoc by (rewrite !firstn_length; lia). rewrite <- IH by lia. apply ELr. lia.
    Qed.
    Lemma ER_rfold nn : forall j, j + nn = L - 1 -> m <= j ->
      ER j = rfold (skipn (S j) As) (skipn (S j) As) (skipn (S j) Hs) env_one.
    Proof.
      induction nn as [|nn IH]; intros j Hj Hmj.
      - replace j with (L - 1) by lia. replace (S (L - 1)) with L by lia.
        rewrite <- lA at 2 3. rewrite !skipn_all. rewrite ERl. reflexivity.
      - rewrite (@skipn_cons_nth site [] As (S j)) by lia. rewrite (@skipn_cons_nth osite [] Hs (S j)) by lia. cbn [rfold].
        rewrite <- (IH (S j)) by lia. replace j with (S j - 1) at 1 by lia. apply ERr. lia.
    Qed.
    Lemma EL_wenv k : k <= m -> wenv (DW k) (Ds k) (Ds k) (EL k).
    Proof.
      intros Hk. destruct k as [|k]; [rewrite EL0, HDW0, HD0; apply wenv_one|].
      rewrite ELr by lia. pose proof (wenv_opstep_left R (nth k As []) (nth k As []) (nth k Hs []) (EL k)) as H.
      destruct (osite_ok_odl R _ _ _ _ Hd (HW k ltac:(lia))) as (_ & o2 & _).
      destruct (site_ok_sdl R _ _ _ _ Hd (wsite_ok R _ _ _ _ (Hsh k ltac:(lia)))) as (_ & s2 & _).
      rewrite o2, s2 in H. exact H.
    Qed.
    Lemma ER_wenv j : m <= j -> j < L -> wenv (DW (S j)) (Ds (S j)) (Ds (S j)) (ER j).
    Proof.
      intros Hmj Hj. destruct (Nat.eq_dec j (L - 1)) as [->|N].
      - rewrite ERl. replace (S (L - 1)) with L by lia. rewrite HDWL, HDL. apply wenv_one.
      - replace j with (S j - 1) at 4 by lia. rewrite ERr by lia.
        pose proof (wenv_opstep_right R (nth (S j) As []) (nth (S j) As []) (nth (S j) Hs []) (ER (S j))) as H.
        destruct (osite_ok_odl R _ _ _ _ Hd (HW (S j) ltac:(lia))) as (o1 & _ & _).
        destruct (site_ok_sdl R _ _ _ _ Hd (wsite_ok R _ _ _ _ (Hsh (S j) ltac:(lia)))) as (s1 & _ & _).
        rewrite o1, s1 in H. exact H.
    Qed.
  End Frames.

  (* the algebraic identity behind (A), in the vocabulary of kexp_global: between complete frames, with the environment
     blocks built by the model's own step functions, the embedding at site m is a unitary map that intertwines the local
     operator with the dense MPO matrix *)
  Theorem complete_frames_embedding (As : list site) (EL ER : nat -> env) :
    length As = L -> (forall j, j < L -> wsite d (Ds j) (Ds (S j)) (nth j As [])) ->
    (forall j, j < m -> lunitary (nth j As [])) -> (forall j, m < j < L -> runitary (nth j As [])) ->
    EL 0 = env_one -> (forall j, j < m -> EL (S j) = contraction_operator_step_left (nth j As []) (nth j As []) (nth j Hs []) (EL j)) ->
    ER (L - 1) = env_one -> (forall j, m < j < L -> ER (j - 1) = contraction_operator_step_right (nth j As []) (nth j As []) (nth j Hs []) (ER j)) ->
    let E := fun Z => dense d L (lset As m Z) in
    wenv (DW m) (Ds m) (Ds m) (EL m) /\ wenv (DW (S m)) (Ds (S m)) (Ds (S m)) (ER m) /\
    (exists Einv, unitary_emb Hs d Ds m E Einv) /\
    (forall X, wsite d (Ds m) (Ds (S m)) X ->
       E (apply_local_hamiltonian (EL m) (ER m) (nth m Hs []) X) = Hvec d Hs (E X)).
  Proof.
    intros lA Hsh Hlu Hru EL0 ELr ERl ERr E.
    set (Al := firstn m As). set (Ar := skipn (S m) As). set (Wl := firstn m Hs). set (Wr := skipn (S m) Hs).
    assert (lAl : length Al = m) by (unfold Al; rewrite firstn_length; lia).
    assert (lAr : length Ar = L - S m) by (unfold Ar; rewrite skipn_length; lia).
    assert (lWl : length Wl = length Al) by (unfold Wl; rewrite firstn_length; lia).
    assert (lWr : length Wr = length Ar) by (unfold Wr; rewrite skipn_length; lia).
    assert (EHs : Wl ++ nth m Hs [] :: Wr = Hs) by (symmetry; apply split_nth; lia).
    assert (Elen : length Al + S (length Ar) = L) by lia.
    assert (EE_E : forall Z, EE d Al Ar Z = E Z).
    { intros Z. unfold EE, E. rewrite Elen. rewrite (lset_split As m Z) by lia. reflexivity. }
    assert (fAl : fr_ok d Ds 0 Al).
    { intros j Hj. unfold Al. rewrite nth_firstn_lt by lia. cbn [Nat.add]. apply Hsh. lia. }
    assert (fAr : fr_ok d Ds (S (length Al)) Ar).
    { intros j Hj. unfold Ar. rewrite nth_skipn_add. rewrite lAl. apply Hsh. lia. }
    assert (HDLr : Ds (S (length Al) + length Ar) = 1) by (replace (S (length Al) + length Ar) with L by lia; exact HDL).
    assert (HDWLr : DW (S (length Al) + length Ar) = 1) by (replace (S (length Al) + length Ar) with L by lia; exact HDWL).
    assert (coL : forall j, j < length Al -> lcoiso (nth j Al [])).
    { intros j Hj. unfold Al. rewrite nth_firstn_lt by lia. apply (Hlu j). lia. }
    assert (isoL : forall j, j < length Al -> left_iso (nth j Al [])).
    { intros j Hj. unfold Al. rewrite nth_firstn_lt by lia. apply (Hlu j). lia. }
    assert (coR : forall j, j < length Ar -> rcoiso (nth j Ar [])).
    { intros j Hj. unfold Ar. rewrite nth_skipn_add. apply (Hru (S m + j)). lia. }
    assert (isoR : forall j, j < length Ar -> right_iso (nth j Ar [])).
    { intros j Hj. unfold Ar. rewrite nth_skipn_add. apply (Hru (S m + j)). lia. }
    assert (fWl : ofr_ok R d DW 0 Wl).
    { intros j Hj. unfold Wl. rewrite nth_firstn_lt by lia. cbn [Nat.add]. apply HW. lia. }
    assert (fWr : ofr_ok R d DW (S (length Al)) Wr).
    { intros j Hj. unfold Wr. rewrite nth_skipn_add. rewrite lAl. apply HW. lia. }
    assert (wL : wenv (DW m) (Ds m) (Ds m) (EL m)) by (apply (EL_wenv As EL); try assumption; lia).
    assert (wR : wenv (DW (S m)) (Ds (S m)) (Ds (S m)) (ER m)) by (apply (ER_wenv As ER); try assumption; lia).
    assert (eL : EL m = lfold Al Al Wl env_one) by (apply (EL_lfold As EL); try assumption; lia).
    assert (eR : ER m = rfold Ar Ar Wr env_one) by (apply (ER_rfold As ER) with (nn := L - 1 - m); try assumption; lia).
    split; [exact wL|]. split; [exact wR|]. split.
    - exists (Einv d Ds Al Ar). unfold unitary_emb. rewrite <- Elen. rewrite <- lAl.
      split; [intros X _; rewrite <- EE_E; apply length_EE|].
      split; [intros X Y HX HY; rewrite <- !EE_E; apply (EE_add R d Ds Hd Al Ar fAl fAr HD0 HDLr); assumption|].
      split; [intros c X HX; rewrite <- !EE_E; apply (EE_scale R d Ds Hd Al Ar fAl fAr HD0 HDLr); assumption|].
      split; [intros X Y HX HY; rewrite <- !EE_E; apply (EE_iso R d Ds Hd Al Ar fAl fAr HD0 HDLr coR isoL isoR); assumption|].
      split; [intros v _; apply wsite_Einv|].
      split; [intros v Hv; rewrite <- EE_E; apply (EE_Einv R d Ds Hd Al Ar fAl fAr HD0 HDLr coL coR); exact Hv|].
      intros X HX. rewrite <- EE_E. apply (Einv_EE R d Ds Hd Al Ar fAl fAr HD0 HDLr coR isoL isoR). exact HX.
    - intros X HX. rewrite <- !EE_E. rewrite eL, eR. rewrite <- EHs at 2. unfold EE.
      rewrite eL in wL. rewrite eR in wR. rewrite <- lAl in HX, wL, wR.
      apply (embed_intertwine R d Ds Hd Al Ar fAl fAr HD0 HDLr coL coR DW HDWpos Wl Wr (nth m Hs []) lWl lWr fWl); try assumption.
      rewrite lAl. apply HW. exact HmL.
  Qed.

  (* contract (A) follows from naturality of the solver *)
  Theorem natural_global (G : R -> list R -> list R) (kexp : kexp_t R) :
    solver_natural Hs d Ds DW G m kexp -> kexp_global Hs d Ds G m kexp.
  Proof.
    intros Hnat As EL ER p X t lA Hsh HX Hlu Hru EL0 ELr ERl ERr.
    destruct (complete_frames_embedding As EL ER lA Hsh Hlu Hru EL0 ELr ERl ERr) as (wL & wR & (Einv0 & HU) & Hint).
    apply (Hnat (fun Z => dense d L (lset As m Z)) Einv0 p (EL m) (ER m) wL wR HU Hint X t HX).
  Qed.
End Global.

(* ---------------- the exactness theorems with (A) replaced by the naturality contract ---------------- *)
Section Top.
  Variable R : cring.

  Theorem tdvp1_exact_natural orth qr (kexp : kexp_t R) (kexp0 : kexp0_t R) (H : mpo R) psi dt hdt n d Ds DW m G A1 qD1 nrm tr :
    let L := length (o_A H) in
    tdvp_singlesite orth qr kexp kexp0 H psi dt hdt n = Some (A1, qD1, nrm, tr) ->
    0 < d -> (forall j, j < L -> osite_ok d (DW j) (DW (S j)) (nth j (o_A H) [])) -> (forall j, 0 < DW j) ->
    DW 0 = 1 -> DW L = 1 -> complete_profile (o_A H) d Ds m -> kadd R hdt hdt = dt ->
    kexp_flowH (o_A H) d Ds DW kexp -> kexp0_shape (o_A H) Ds DW kexp0 ->
    intertwine_left (o_A H) d Ds DW kexp kexp0 -> intertwine_right (o_A H) d Ds DW kexp kexp0 ->
    solver_natural (o_A H) d Ds DW G m kexp -> G_flow (o_A H) d G ->
    (forall j, j < L -> wsite d (Ds j) (Ds (S j)) (nth j (m_A (fst (orth psi))) [])) ->
    (forall j, m < j < L -> runitary (nth j (m_A (fst (orth psi))) [])) ->
    ex_tr_ok qr (rev tr) ->
    nrm = snd (orth psi) /\ dense d L A1 = G (nmul n dt) (dense d L (m_A (fst (orth psi)))).
  Proof.
    intros L Hrun Hd HW HDW HW0 HWL Hprof Hdt Hk Hk0 HIL HIR Hnat HGf Hsh Hru Hok.
    destruct Hprof as (HD0 & HDL & HmL & Hp4) eqn:Eprof.
    apply (tdvp1_exact R orth qr kexp kexp0 H psi dt hdt n d Ds DW m G A1 qD1 nrm tr); try assumption.
    apply (natural_global R (o_A H) d Ds DW m Hd HW HDW HW0 HWL HD0 HDL HmL G kexp Hnat).
  Qed.

  Theorem tdvp1_exact_L1_natural orth qr (kexp : kexp_t R) (kexp0 : kexp0_t R) (H : mpo R) psi dt hdt n d Ds DW G A1 qD1 nrm tr :
    length (o_A H) = 1 ->
    tdvp_singlesite orth qr kexp kexp0 H psi dt hdt n = Some (A1, qD1, nrm, tr) ->
    0 < d -> osite_ok d (DW 0) (DW 1) (nth 0 (o_A H) []) -> (forall j, 0 < DW j) -> DW 0 = 1 -> DW 1 = 1 -> Ds 0 = 1 -> Ds 1 = 1 ->
    kexp_flowH (o_A H) d Ds DW kexp -> solver_natural (o_A H) d Ds DW G 0 kexp -> G_flow (o_A H) d G ->
    wsite d 1 1 (nth 0 (m_A (fst (orth psi))) []) ->
    nrm = snd (orth psi) /\ dense d 1 A1 = G (nmul n dt) (dense d 1 (m_A (fst (orth psi)))).
  Proof.
    intros HL Hrun Hd HW HDW HW0 HW1 HD0 HD1 Hk Hnat HGf Hsh.
    apply (tdvp1_exact_L1 R orth qr kexp kexp0 H psi dt hdt n d Ds DW G A1 qD1 nrm tr); try assumption.
    apply (natural_global R (o_A H) d Ds DW 0 Hd); try assumption; rewrite ?HL; try assumption; try lia.
    intros j Hj. assert (j = 0) by lia. subst j. exact HW.
  Qed.

  Theorem tdvp1_exact_L2_natural orth qr (kexp : kexp_t R) (kexp0 : kexp0_t R) (H : mpo R) psi dt hdt n d DW G A1 qD1 nrm tr :
    let Ds := fun j => if Nat.eqb j 1 then d else 1 in
    length (o_A H) = 2 ->
    tdvp_singlesite orth qr kexp kexp0 H psi dt hdt n = Some (A1, qD1, nrm, tr) ->
    0 < d -> (forall j, j < 2 -> osite_ok d (DW j) (DW (S j)) (nth j (o_A H) [])) -> (forall j, 0 < DW j) -> DW 0 = 1 -> DW 2 = 1 ->
    kadd R hdt hdt = dt ->
    kexp_flowH (o_A H) d Ds DW kexp -> kexp0_shape (o_A H) Ds DW kexp0 ->
    intertwine_left (o_A H) d Ds DW kexp kexp0 -> intertwine_right (o_A H) d Ds DW kexp kexp0 ->
    solver_natural (o_A H) d Ds DW G 1 kexp -> G_flow (o_A H) d G ->
    wsite d 1 d (nth 0 (m_A (fst (orth psi))) []) -> wsite d d 1 (nth 1 (m_A (fst (orth psi))) []) ->
    ex_tr_ok qr (rev tr) ->
    nrm = snd (orth psi) /\ dense d 2 A1 = G (nmul n dt) (dense d 2 (m_A (fst (orth psi)))).
  Proof.
    intros Ds HL Hrun Hd HW HDW HW0 HW2 Hdt Hk Hk0 HIL HIR Hnat HGf Hs0 Hs1 Hok.
    apply (tdvp1_exact_L2 R orth qr kexp kexp0 H psi dt hdt n d DW G A1 qD1 nrm tr); try assumption.
    apply (natural_global R (o_A H) d Ds DW 1 Hd); try assumption; rewrite ?HL; try assumption; try reflexivity; try lia.
  Qed.
End Top.
