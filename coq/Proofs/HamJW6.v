(* C06 -- the operator map of bose_hubbard_mpo over any commutative ring: with elements [sq k] such that
   sq k * sq k = k (1 <= k < d) -- the only property of np.sqrt the construction uses -- the truncated operators satisfy
     b+ b = n,     [b, b+] = 1 on the levels below the top one, and -(d-1) on the top level (truncation),
     2 . (n (n - 1) / 2) = n (n - 1). *)
From Coq Require Import ZArith List Lia Bool Arith Ring.
From PT Require Import Base.Scalar Base.BigSum Base.Mx Model.OpGraph Model.FromOpchains Model.GraphMPO Model.Hamiltonians.
Import ListNotations.
Local Open Scope nat_scope.

Section Bose.
  Variable R : cring.
  Add Ring Rring_jw6 : (k_rt R).
  Notation "0r" := (k0 R). Notation "1r" := (k1 R).
  Infix "+r" := (kadd R) (at level 50, left associativity).
  Infix "*r" := (kmul R) (at level 40, left associativity).
  Infix "-r" := (ksub R) (at level 50, left associativity).
  Variable d : nat.
  Variable sq : nat -> R.
  Hypothesis Hsq : forall k, 1 <= k < d -> sq k *r sq k = rnat k.
  Notation om := (opmap_of (bose_opmap d sq)).
  Definition bo_b : mx R := om (-1)%Z.
  Definition bo_bd : mx R := om 1%Z.
  Definition bo_n : mx R := om 2%Z.
  Definition bo_ni : mx R := om 3%Z.

  Lemma rnat_S m : rnat (R := R) (S m) = rnat m +r 1r.
  Proof. reflexivity. Qed.
  Lemma rnat_add a b : rnat (R := R) (a + b) = rnat a +r rnat b.
  Proof. induction b as [|b IH]; [rewrite Nat.add_0_r; cbn [rnat]; ring|]. rewrite Nat.add_succ_r. cbn [rnat]. rewrite IH. ring. Qed.
  Lemma rnat_mul a b : rnat (R := R) (a * b) = rnat a *r rnat b.
  Proof.
    induction b as [|b IH]; [rewrite Nat.mul_0_r; cbn [rnat]; ring|].
    rewrite Nat.mul_succ_r, rnat_add, IH. cbn [rnat]. ring.
  Qed.
  Lemma tri_even i : 2 * (i * (i - 1) / 2) = i * (i - 1).
  Proof.
    assert (H : exists m, i * (i - 1) = m * 2).
    { induction i as [|i [m Hm]]; [exists 0; reflexivity|]. exists (m + i).
      destruct i as [|i]; [assert (m = 0) by lia; subst; reflexivity|].
      replace (S (S i) - 1) with (S i) by lia. replace (S i - 1) with i in Hm by lia. nia. }
    destruct H as [m Hm]. rewrite Hm, Nat.div_mul by lia. lia.
  Qed.

  Lemma get_b i j : i < d -> j < d -> get bo_b i j = if Nat.eqb (S i) j then sq j else 0r.
  Proof. intros Hi Hj. unfold bo_b. cbn [opmap_of bose_opmap find fst snd Z.eqb]. apply get_tab; assumption. Qed.
  Lemma get_bd i j : i < d -> j < d -> get bo_bd i j = if Nat.eqb i (S j) then sq i else 0r.
  Proof. intros Hi Hj. unfold bo_bd. cbn [opmap_of bose_opmap find fst snd Z.eqb Pos.eqb]. apply get_tab; assumption. Qed.
  Lemma get_n i j : i < d -> j < d -> get bo_n i j = if Nat.eqb i j then rnat i else 0r.
  Proof. intros Hi Hj. unfold bo_n. cbn [opmap_of bose_opmap find fst snd Z.eqb Pos.eqb]. apply get_tab; assumption. Qed.
  Lemma get_ni i j : i < d -> j < d -> get bo_ni i j = if Nat.eqb i j then rnat (i * (i - 1) / 2) else 0r.
  Proof. intros Hi Hj. unfold bo_ni. cbn [opmap_of bose_opmap find fst snd Z.eqb Pos.eqb]. apply get_tab; assumption. Qed.
  Lemma shape_b : nr bo_b = d /\ nc bo_b = d /\ nr bo_bd = d /\ nc bo_bd = d /\ nr bo_n = d /\ nc bo_n = d /\ nr bo_ni = d /\ nc bo_ni = d.
  Proof. repeat split; reflexivity. Qed.

  (* (b+ b)[i,j] and (b b+)[i,j] *)
  Lemma get_bdb i j : i < d -> j < d -> get (mulmx bo_bd bo_b) i j = if Nat.eqb i j then rnat i else 0r.
  Proof.
    intros Hi Hj. rewrite get_mulmx by assumption. change (nc bo_bd) with d.
    rewrite (sumn_ext R d _ (fun k => (if Nat.eqb i (S k) then sq i else 0r) *r (if Nat.eqb (S k) j then sq j else 0r)))
      by (intros k Hk; rewrite get_bd, get_b by assumption; reflexivity).
    destruct i as [|i'].
    - rewrite sumn_zero by (intros k _; cbn [Nat.eqb]; ring). destruct j; reflexivity.
    - rewrite (sumn_single R d i'); [|lia|intros k _ Hne; destruct (Nat.eqb_spec (S i') (S k)); [lia|ring]].
      rewrite Nat.eqb_refl. destruct (Nat.eqb_spec (S i') j) as [<-|_]; [apply Hsq; lia|ring].
  Qed.
  Lemma get_bbd i j : i < d -> j < d ->
    get (mulmx bo_b bo_bd) i j = if Nat.eqb i j then (if Nat.ltb (S i) d then rnat (S i) else 0r) else 0r.
  Proof.
    intros Hi Hj. rewrite get_mulmx by assumption. change (nc bo_b) with d.
    rewrite (sumn_ext R d _ (fun k => (if Nat.eqb (S i) k then sq k else 0r) *r (if Nat.eqb k (S j) then sq k else 0r)))
      by (intros k Hk; rewrite get_b, get_bd by assumption; reflexivity).
    destruct (Nat.ltb_spec (S i) d) as [Hlt|Hge].
    - rewrite (sumn_single R d (S i)); [|lia|intros k _ Hne; destruct (Nat.eqb_spec (S i) k); [lia|ring]].
      rewrite Nat.eqb_refl. cbn [Nat.eqb]. destruct (Nat.eqb_spec i j) as [_|_]; [apply Hsq; lia|ring].
    - rewrite sumn_zero by (intros k Hk; destruct (Nat.eqb_spec (S i) k); [lia|ring]). destruct (Nat.eqb i j); reflexivity.
  Qed.

  Theorem bose_opmap_relations :
    mulmx bo_bd bo_b = bo_n /\
    submx (mulmx bo_b bo_bd) (mulmx bo_bd bo_b) =
      tab d d (fun i j => if Nat.eqb i j then (if Nat.ltb (S i) d then 1r else kopp R (rnat i)) else 0r) /\
    addmx bo_ni bo_ni = mulmx bo_n (submx bo_n (idmx d)).
  Proof.
    repeat split.
    - apply mx_ext; try apply wf_mulmx; try apply wf_tab; try reflexivity.
      intros i j Hi Hj. change (nr (mulmx bo_bd bo_b)) with d in Hi. change (nc (mulmx bo_bd bo_b)) with d in Hj.
      rewrite get_bdb, get_n by assumption. reflexivity.
    - apply mx_ext; try apply wf_submx; try apply wf_tab; try reflexivity.
      intros i j Hi Hj. change (nr (submx (mulmx bo_b bo_bd) (mulmx bo_bd bo_b))) with d in Hi.
      change (nc (submx (mulmx bo_b bo_bd) (mulmx bo_bd bo_b))) with d in Hj.
      unfold submx. change (nr (mulmx bo_b bo_bd)) with d. change (nc (mulmx bo_b bo_bd)) with d.
      rewrite !get_tab by assumption. rewrite get_bbd, get_bdb by assumption.
      destruct (Nat.eqb i j); [|ring]. destruct (Nat.ltb (S i) d); [rewrite rnat_S|]; ring.
    - apply mx_ext; try apply wf_addmx; try apply wf_mulmx; try reflexivity.
      intros i j Hi Hj. change (nr (addmx bo_ni bo_ni)) with d in Hi. change (nc (addmx bo_ni bo_ni)) with d in Hj.
      rewrite get_addmx, get_mulmx by assumption. change (nc bo_n) with d.
      rewrite (sumn_single R d i); try assumption.
      + unfold submx. change (nr bo_n) with d. change (nc bo_n) with d. rewrite get_tab, !get_n, get_ni, get_idmx by assumption.
        rewrite Nat.eqb_refl. destruct (Nat.eqb_spec i j) as [<-|_]; [|ring].
        rewrite <- rnat_add. replace (i * (i - 1) / 2 + i * (i - 1) / 2) with (i * (i - 1)) by (pose proof (tri_even i); lia).
        rewrite rnat_mul. destruct i as [|i']; [cbn [rnat]; ring|]. cbn [Nat.sub]. rewrite Nat.sub_0_r, rnat_S. ring.
      + intros k Hk Hne. rewrite get_n by assumption. destruct (Nat.eqb_spec i k); [congruence|ring].
  Qed.
End Bose.
