(* Specification of [retained] (pytenet/bond_ops.py: retained_bond_indices) over an arbitrary ordered field. *)
From Coq Require Import ZArith List Bool Lia Arith Permutation Sorted Ring Field.
From PT Require Import Base.Scalar Base.Field Base.BigSum Base.Mx Model.BondOps.
Import ListNotations.

Definition pick_ok (F : ofield) (sn : list F) (p : list nat) : Prop :=
  Permutation p (seq 0 (length sn)) /\
  forall a b, a <= b -> b < length sn ->
    fle F (nth (nth a p 0) sn (f0 F)) (nth (nth b p 0) sn (f0 F)).
Definition weight {F : ofield} (s : list F) (i : nat) : F := nth i (normsq s) (f0 F).   (* s_i^2 / sum s^2 *)
Definition discarded {F : ofield} (s : list F) (K : list nat) : list nat :=
  filter (fun i => negb (existsb (Nat.eqb i) K)) (seq 0 (length s)).
Definition disc_weight {F : ofield} (s : list F) (K : list nat) : F := fsum (map (weight s) (discarded s K)).

(* ------------------------------------------------------------------ *)
(* generic list lemmas                                                  *)
(* ------------------------------------------------------------------ *)
Lemma upd_length {A} (l : list A) i x : length (upd l i x) = length l.
Proof. revert i; induction l as [|h t IH]; intros [|i]; simpl; auto. Qed.

Lemma nth_upd_eq {A} (l : list A) i x d : i < length l -> nth i (upd l i x) d = x.
Proof.
  revert i; induction l as [|h t IH]; intros [|i] H; simpl in *; try lia; auto.
  apply IH; lia.
Qed.

Lemma nth_upd_neq {A} (l : list A) i j x d : i <> j -> nth i (upd l j x) d = nth i l d.
Proof.
  revert i j; induction l as [|h t IH]; intros [|i] [|j] H; simpl; auto; try congruence.
Qed.

Lemma nth_firstn_lt {A} (l : list A) k u d : u < k -> nth u (firstn k l) d = nth u l d.
Proof.
  revert k u; induction l as [|h t IH]; intros [|k] [|u] H; simpl; auto; try lia.
  apply IH; lia.
Qed.

Lemma nth_map_lt {A B} (f : A -> B) l t d d' : t < length l -> nth t (map f l) d' = f (nth t l d).
Proof.
  intros H. rewrite (nth_indep _ d' (f d)) by (rewrite map_length; exact H). apply map_nth.
Qed.

Lemma map_nth_seq0 {A} (l : list A) d : map (fun i => nth i l d) (seq 0 (length l)) = l.
Proof.
  induction l as [|h t IH]; simpl; auto. f_equal. rewrite <- seq_shift, map_map. exact IH.
Qed.

Lemma perm_filter {A} (h : A -> bool) l l' : Permutation l l' -> Permutation (filter h l) (filter h l').
Proof.
  induction 1 as [|x l l' HP IH|x y l|l l' l'' HP1 IH1 HP2 IH2]; simpl; auto.
  - destruct (h x); auto.
  - destruct (h x), (h y); auto. apply perm_swap.
  - eapply perm_trans; eauto.
Qed.

Lemma existsb_eqb_filter (g : nat -> bool) l i : In i l -> existsb (Nat.eqb i) (filter g l) = g i.
Proof.
  intros Hi. destruct (g i) eqn:E.
  - apply existsb_exists. exists i. split; [apply filter_In; auto|apply Nat.eqb_refl].
  - destruct (existsb (Nat.eqb i) (filter g l)) eqn:E2; auto.
    apply existsb_exists in E2. destruct E2 as [x [Hx He]]. apply Nat.eqb_eq in He. subst x.
    apply filter_In in Hx. destruct Hx; congruence.
Qed.

Lemma sorted_filter_seq (g : nat -> bool) a n : StronglySorted lt (filter g (seq a n)).
Proof.
  revert a; induction n as [|n IH]; intros a; simpl; [constructor|].
  destruct (g a).
  - constructor; [apply IH|]. apply Forall_forall. intros x Hx. apply filter_In in Hx.
    destruct Hx as [Hx _]. apply in_seq in Hx. lia.
  - apply IH.
Qed.

Lemma filter_prefix {A} (h : A -> bool) (l : list A) d :
  (forall a b, a <= b -> b < length l -> h (nth b l d) = true -> h (nth a l d) = true) ->
  exists k, k <= length l /\ filter h l = firstn k l /\
    (forall t, t < k -> h (nth t l d) = true) /\
    (forall t, k <= t -> t < length l -> h (nth t l d) = false).
Proof.
  induction l as [|x l IH]; intros Hm.
  - exists 0. simpl. split; [lia|split; [reflexivity|split; intros; lia]].
  - destruct IH as [k [Hk [Hf [Ht Hfalse]]]].
    { intros a b Hab Hb Hh. apply (Hm (S a) (S b)); simpl; auto; lia. }
    destruct (h x) eqn:E.
    + exists (S k). simpl. rewrite E. split; [lia|split; [f_equal; exact Hf|split]].
      * intros [|t] H; auto. apply Ht; lia.
      * intros [|t] H1 H2; [lia|]. apply Hfalse; lia.
    + assert (k = 0) as ->.
      { destruct k; auto. exfalso. specialize (Ht 0 ltac:(lia)).
        specialize (Hm 0 1 ltac:(lia)). simpl in Hm. rewrite Hm in E; [discriminate|lia|exact Ht]. }
      exists 0. simpl. rewrite E. simpl in Hf.
      split; [lia|split; [exact Hf|split; [intros; lia|]]].
      intros [|t] _ H2; auto. apply Hfalse; lia.
Qed.

(* ------------------------------------------------------------------ *)
(* sums and order                                                       *)
(* ------------------------------------------------------------------ *)
Section RetainedProofs.
  Variable F : ofield.
  Add Field Ffield_ret : (f_ft F).
  Local Notation zero := (f0 F).
  Local Notation one := (f1 F).
  Local Infix "+!" := (fadd F) (at level 50, left associativity).
  Local Infix "-!" := (fsub F) (at level 50, left associativity).
  Local Infix "*!" := (fmul F) (at level 40, left associativity).
  Local Infix "/!" := (fdiv F) (at level 40, left associativity).
  Local Infix "<=!" := (fle F) (at level 70).
  Local Infix "<!" := (flt F) (at level 70).

  Lemma fsum_perm (l l' : list F) : Permutation l l' -> fsum l = fsum l'.
  Proof.
    induction 1 as [|x l l' HP IH|x y l|l l' l'' HP1 IH1 HP2 IH2]; simpl; auto.
    - rewrite IH; reflexivity.
    - ring.
    - congruence.
  Qed.

  Lemma fsum_firstn_nonneg (l : list F) : (forall x, In x l -> zero <=! x) -> forall k, zero <=! fsum (firstn k l).
  Proof.
    induction l as [|y l IH]; intros H [|k]; simpl; try apply fle_refl.
    apply fle_add_nonneg; [apply H; left; reflexivity|apply IH; intros; apply H; right; assumption].
  Qed.

  Lemma fsum_firstn_mono (l : list F) : (forall x, In x l -> zero <=! x) ->
    forall a b, a <= b -> fsum (firstn a l) <=! fsum (firstn b l).
  Proof.
    induction l as [|y l IH]; intros H [|a] [|b] Hab; simpl; try apply fle_refl; try lia.
    - apply (fsum_firstn_nonneg (y :: l) H (S b)).
    - apply fle_add_compat; [apply fle_refl|]. apply IH; [intros; apply H; right; assumption|lia].
  Qed.

  Lemma fsum_firstn_S (l : list F) k : k < length l -> fsum (firstn (S k) l) = fsum (firstn k l) +! nth k l zero.
  Proof.
    revert k; induction l as [|y l IH]; intros k H; simpl in H; [lia|].
    destruct k as [|k].
    - simpl. ring.
    - change (y +! fsum (firstn (S k) l) = y +! fsum (firstn k l) +! nth k l zero).
      rewrite IH by lia. ring.
  Qed.

  Lemma fsum_zero (l : list F) : (forall x, In x l -> x = zero) -> fsum l = zero.
  Proof.
    induction l as [|y l IH]; intros H; simpl; auto.
    rewrite (H y (or_introl eq_refl)), IH by (intros; apply H; right; assumption). ring.
  Qed.

  Lemma flt_sub_pos a b : b <! a -> zero <! a -! b.
  Proof.
    intros H. apply flt_not_le. intros H2. apply (proj1 (flt_not_le F b a) H).
    eapply fle_eq; [| |apply (fle_add F (a -! b) zero b); exact H2]; ring.
  Qed.

  Lemma sq_le_le a b : zero <=! a -> zero <=! b -> a *! a <=! b *! b -> a <=! b.
  Proof.
    intros Ha Hb H. destruct (fle_lt_dec F a b) as [H1|H1]; [exact H1|exfalso].
    assert (P1 : zero <! a -! b) by (apply flt_sub_pos; exact H1).
    assert (P2 : zero <! a +! b).
    { apply (flt_le_trans F _ a); [apply (fle_lt_trans F _ b); assumption|].
      eapply fle_eq; [| |apply (fle_add_compat F a a zero b); [apply fle_refl|exact Hb]]; ring. }
    pose proof (fmul_pos F _ _ P1 P2) as P3.
    apply (proj1 (flt_not_le F _ _) P3).
    apply (proj1 (fle_sub_nonneg F _ _)) in H.
    eapply fle_eq; [| |apply (fle_opp F _ H)]; ring.
  Qed.

  (* ---------- sqsum / normsq ---------- *)
  Lemma sqsum_nonneg (s : list F) : zero <=! sqsum s.
  Proof.
    unfold sqsum. induction s as [|x s IH]; simpl; [apply fle_refl|].
    apply fle_add_nonneg; [apply fsq_nonneg|exact IH].
  Qed.

  Lemma sqsum_zero_all (s : list F) : sqsum s = zero -> forall x, In x s -> x = zero.
  Proof.
    unfold sqsum. induction s as [|y s IH]; simpl; intros H x Hx; [contradiction|].
    apply fadd_nonneg_zero in H; [|apply fsq_nonneg|apply (sqsum_nonneg s)].
    destruct H as [H1 H2]. destruct Hx as [->|Hx]; [apply fsq_zero; exact H1|apply IH; assumption].
  Qed.

  Lemma all_zero_sqsum (s : list F) : (forall x, In x s -> x = zero) -> sqsum s = zero.
  Proof.
    unfold sqsum. induction s as [|y s IH]; intros H; simpl; auto.
    rewrite (H y (or_introl eq_refl)), IH by (intros; apply H; right; assumption). ring.
  Qed.

  Lemma fsum_map_div (f : F -> F) d (l : list F) : d <> zero ->
    fsum (map (fun x => f x /! d) l) = fsum (map f l) /! d.
  Proof.
    intros Hd. induction l as [|y l IH]; simpl; [field; exact Hd|]. rewrite IH. field; exact Hd.
  Qed.

  Lemma normsq_sum (s : list F) : sqsum s <> zero -> fsum (normsq s) = one.
  Proof.
    intros H. unfold normsq. rewrite (fsum_map_div (fun x => x *! x) (sqsum s) s H).
    change (fsum (map (fun x => x *! x) s)) with (sqsum s). field; exact H.
  Qed.

  Lemma normsq_nth (s : list F) i : i < length s ->
    nth i (normsq s) zero = (nth i s zero *! nth i s zero) /! sqsum s.
  Proof. intros H. unfold normsq. apply (nth_map_lt (fun x => (x *! x) /! sqsum s) s i zero zero H). Qed.

  Lemma normsq_nonneg (s : list F) : zero <! sqsum s -> forall x, In x (normsq s) -> zero <=! x.
  Proof.
    intros H x Hx. unfold normsq in Hx. apply in_map_iff in Hx. destruct Hx as [y [<- _]].
    assert (Hn : sqsum s <> zero) by (intros E; apply (flt_neq F _ _ H); auto).
    replace ((y *! y) /! sqsum s) with ((y *! y) *! finv F (sqsum s)) by (field; exact Hn).
    apply fle_mul; [apply fsq_nonneg|apply flt_le, finv_pos; exact H].
  Qed.

  (* ---------- scatter_cum ---------- *)
  Lemma scatter_length idx (sn : list F) acc out : length (scatter_cum idx sn acc out) = length out.
  Proof.
    revert acc out; induction idx as [|i idx IH]; intros acc out; simpl; auto.
    rewrite IH. apply upd_length.
  Qed.

  Lemma scatter_notin idx (sn : list F) acc out i : ~ In i idx ->
    nth i (scatter_cum idx sn acc out) zero = nth i out zero.
  Proof.
    revert acc out; induction idx as [|j idx IH]; intros acc out H; simpl; auto.
    rewrite IH by (intros H2; apply H; right; exact H2).
    apply nth_upd_neq. intros E. apply H. left. auto.
  Qed.

  Lemma scatter_nth idx (sn : list F) : NoDup idx ->
    forall acc out, (forall i, In i idx -> i < length out) ->
    forall t, t < length idx ->
      nth (nth t idx 0) (scatter_cum idx sn acc out) zero =
      acc +! fsum (firstn (S t) (map (fun i => nth i sn zero) idx)).
  Proof.
    induction 1 as [|i idx Hni Hnd IH]; intros acc out Hlt t Ht; simpl in Ht; [lia|].
    destruct t as [|t].
    - simpl. rewrite scatter_notin by exact Hni.
      rewrite nth_upd_eq by (apply Hlt; left; reflexivity). ring.
    - change (nth (nth t idx 0) (scatter_cum idx sn (acc +! nth i sn zero) (upd out i (acc +! nth i sn zero))) zero =
              acc +! (nth i sn zero +! fsum (firstn (S t) (map (fun i => nth i sn zero) idx)))).
      rewrite IH; [ring| |lia].
      intros j Hj. rewrite upd_length. apply Hlt. right. exact Hj.
  Qed.

  (* ---------- the main argument ---------- *)
  Section Main.
    Variable pick : list F -> list nat.
    Variable s : list F.
    Variable tol : F.
    Hypothesis Hs_nonneg : forall x, In x s -> zero <=! x.
    Hypothesis Hs_nz : exists x, In x s /\ x <> zero.
    Hypothesis Htol0 : zero <=! tol.
    Hypothesis Htol1 : tol <! one.
    Hypothesis Hpick : pick_ok F (normsq s) (pick (normsq s)).

    Local Notation sn := (normsq s).
    Local Notation n := (length s).
    Local Notation p := (pick (normsq s)).
    Local Notation v := (map (fun i => nth i (normsq s) zero) (pick (normsq s))).
    Local Notation c := (cumweights pick s).
    Local Notation K := (retained pick s tol).
    Local Notation C t := (fsum (firstn (S t) v)).

    Lemma rt_w2_pos : zero <! sqsum s.
    Proof.
      apply fle_neq_lt; [apply sqsum_nonneg|]. intros E. destruct Hs_nz as [x [Hx Hn]].
      apply Hn. apply (sqsum_zero_all s); auto.
    Qed.

    Lemma rt_w2_nz : sqsum s <> zero.
    Proof. intros E. apply (flt_neq F _ _ rt_w2_pos). auto. Qed.

    Lemma rt_n_pos : 0 < n.
    Proof. destruct Hs_nz as [x [Hx _]]. destruct (In_nth _ _ zero Hx) as [i [Hi _]]. lia. Qed.

    Lemma rt_len_sn : length sn = n.
    Proof. unfold normsq. apply map_length. Qed.

    Lemma rt_perm : Permutation p (seq 0 n).
    Proof. destruct Hpick as [H _]. rewrite rt_len_sn in H. exact H. Qed.

    Lemma rt_len_p : length p = n.
    Proof. rewrite (Permutation_length rt_perm). apply seq_length. Qed.

    Lemma rt_p_lt i : In i p -> i < n.
    Proof. intros Hi. apply (Permutation_in _ rt_perm) in Hi. apply in_seq in Hi. lia. Qed.

    Lemma rt_p_nth_lt t : t < n -> nth t p 0 < n.
    Proof. intros Ht. apply rt_p_lt, nth_In. rewrite rt_len_p. exact Ht. Qed.

    Lemma rt_p_nodup : NoDup p.
    Proof. apply (Permutation_NoDup (Permutation_sym rt_perm)), seq_NoDup. Qed.

    Lemma rt_pos i : i < n -> exists t, t < n /\ nth t p 0 = i.
    Proof.
      intros Hi. assert (H : In i p).
      { apply (Permutation_in _ (Permutation_sym rt_perm)). apply in_seq. lia. }
      destruct (In_nth _ _ 0 H) as [t [Ht1 Ht2]]. exists t. rewrite rt_len_p in Ht1. auto.
    Qed.

    Lemma rt_len_v : length v = n.
    Proof. rewrite map_length. apply rt_len_p. Qed.

    Lemma rt_v_nth t : t < n -> nth t v zero = nth (nth t p 0) sn zero.
    Proof.
      intros Ht. apply (nth_map_lt (fun i => nth i sn zero) p t 0 zero). rewrite rt_len_p; exact Ht.
    Qed.

    Lemma rt_sorted a b : a <= b -> b < n -> nth a v zero <=! nth b v zero.
    Proof.
      intros Hab Hb. rewrite !rt_v_nth by lia. destruct Hpick as [_ H2]. apply H2; auto.
      rewrite rt_len_sn; exact Hb.
    Qed.

    Lemma rt_v_perm : Permutation v sn.
    Proof.
      destruct Hpick as [H _]. apply (Permutation_map (fun i => nth i sn zero)) in H.
      rewrite map_nth_seq0 in H. exact H.
    Qed.

    Lemma rt_v_nonneg x : In x v -> zero <=! x.
    Proof. intros Hx. apply (normsq_nonneg s rt_w2_pos). apply (Permutation_in _ rt_v_perm). exact Hx. Qed.

    Lemma rt_v_sum : fsum v = one.
    Proof. rewrite (fsum_perm _ _ rt_v_perm). apply normsq_sum, rt_w2_nz. Qed.

    Lemma rt_C t : t < n -> nth (nth t p 0) c zero = C t.
    Proof.
      intros Ht. unfold cumweights. cbv zeta.
      rewrite (scatter_nth p sn rt_p_nodup zero sn); [ring| |rewrite rt_len_p; exact Ht].
      intros i Hi. rewrite rt_len_sn. apply rt_p_lt; exact Hi.
    Qed.

    Lemma rt_K : K = filter (fun i => fltb F tol (nth i c zero)) (seq 0 n).
    Proof.
      unfold retained. destruct (feqb F (sqsum s) zero) eqn:E; [|reflexivity].
      apply feqb_spec in E. destruct (rt_w2_nz E).
    Qed.

    Lemma rt_inK i : In i K <-> i < n /\ tol <! nth i c zero.
    Proof.
      rewrite rt_K, filter_In, in_seq. unfold fltb, flt. rewrite negb_true_iff.
      split; intros [H1 H2]; split; auto; lia.
    Qed.

    Lemma rt_disc_eq : discarded s K = filter (fun i => negb (fltb F tol (nth i c zero))) (seq 0 n).
    Proof.
      unfold discarded. apply filter_ext_in. intros i Hi. rewrite rt_K.
      rewrite existsb_eqb_filter by exact Hi. reflexivity.
    Qed.

    Lemma rt_h_true i : negb (fltb F tol (nth i c zero)) = true <-> nth i c zero <=! tol.
    Proof. unfold fltb, fle. rewrite negb_involutive. tauto. Qed.

    Lemma rt_h_false i : negb (fltb F tol (nth i c zero)) = false <-> tol <! nth i c zero.
    Proof. unfold fltb, flt. rewrite negb_involutive. tauto. Qed.

    Lemma rt_prefix : exists k, k <= n /\ disc_weight s K = fsum (firstn k v) /\
       (forall t, t < k -> C t <=! tol) /\ (forall t, k <= t -> t < n -> tol <! C t).
    Proof.
      destruct (filter_prefix (fun i => negb (fltb F tol (nth i c zero))) p 0) as [k [Hk [Hf [Ht Hfl]]]].
      { intros a b Hab Hb Hh. rewrite rt_len_p in Hb. cbv beta in Hh. cbv beta.
        apply rt_h_true. apply rt_h_true in Hh. rewrite rt_C in Hh by lia. rewrite rt_C by lia.
        eapply (fle_trans F); [|exact Hh]. apply fsum_firstn_mono; [apply rt_v_nonneg|lia]. }
      exists k. rewrite rt_len_p in *. split; [exact Hk|split; [|split]].
      - unfold disc_weight. rewrite rt_disc_eq.
        rewrite <- (fsum_perm _ _ (Permutation_map (weight s) (perm_filter _ _ _ rt_perm))).
        rewrite Hf. rewrite <- firstn_map. reflexivity.
      - intros t Ht2. specialize (Ht t Ht2). cbv beta in Ht. apply rt_h_true in Ht.
        rewrite rt_C in Ht by lia. exact Ht.
      - intros t H1 H2. specialize (Hfl t H1 H2). cbv beta in Hfl. apply rt_h_false in Hfl.
        rewrite rt_C in Hfl by lia. exact Hfl.
    Qed.

    Lemma rt_nonempty : K <> [].
    Proof.
      pose proof rt_n_pos as Hn. intros E.
      assert (H : In (nth (n - 1) p 0) K).
      { apply rt_inK. split; [apply rt_p_nth_lt; lia|]. rewrite rt_C by lia.
        replace (S (n - 1)) with (length v) by (rewrite rt_len_v; lia).
        rewrite firstn_all, rt_v_sum. exact Htol1. }
      rewrite E in H. exact H.
    Qed.

    Lemma rt_disc_le : disc_weight s K <=! tol.
    Proof.
      destruct rt_prefix as [k [Hk [Hd [Ht _]]]]. rewrite Hd.
      destruct k as [|k]; [simpl; exact Htol0|]. apply Ht; lia.
    Qed.

    Lemma rt_sn_le_s i j : i < n -> j < n -> nth j sn zero <=! nth i sn zero -> nth j s zero <=! nth i s zero.
    Proof.
      intros Hi Hj H. rewrite !normsq_nth in H by assumption.
      apply sq_le_le; [apply Hs_nonneg, nth_In; exact Hj|apply Hs_nonneg, nth_In; exact Hi|].
      apply (fle_mul_nonneg_compat F _ _ (sqsum s) (flt_le F _ _ rt_w2_pos)) in H.
      eapply fle_eq; [| |exact H]; field; apply rt_w2_nz.
    Qed.

    Lemma rt_kept_ge i j : In i K -> j < n -> ~ In j K -> nth j s zero <=! nth i s zero.
    Proof.
      intros Hi Hj Hnj. apply rt_inK in Hi. destruct Hi as [Hi Hci].
      destruct (rt_pos i Hi) as [a [Ha Ea]]. destruct (rt_pos j Hj) as [b [Hb Eb]].
      assert (Hcj : nth j c zero <=! tol).
      { destruct (fle_lt_dec F (nth j c zero) tol) as [H|H]; auto. exfalso. apply Hnj. apply rt_inK. auto. }
      subst i j. rewrite rt_C in Hci by assumption. rewrite rt_C in Hcj by assumption.
      assert (Hba : b <= a).
      { destruct (le_lt_dec b a) as [H|H]; auto. exfalso. apply (proj1 (flt_not_le F _ _) Hci).
        eapply (fle_trans F); [|exact Hcj]. apply fsum_firstn_mono; [apply rt_v_nonneg|lia]. }
      apply rt_sn_le_s; auto. rewrite <- !rt_v_nth by assumption. apply rt_sorted; auto.
    Qed.

    Lemma rt_maximal m : In m K -> tol <! disc_weight s K +! weight s m.
    Proof.
      intros Hm. apply rt_inK in Hm. destruct Hm as [Hm Hcm]. destruct (rt_pos m Hm) as [a [Ha Ea]].
      subst m. rewrite rt_C in Hcm by assumption.
      destruct rt_prefix as [k [Hk [Hd [Ht Hf]]]]. rewrite Hd.
      assert (Hka : k <= a).
      { destruct (le_lt_dec k a) as [H|H]; auto. exfalso. apply (proj1 (flt_not_le F _ _) Hcm). apply Ht; auto. }
      pose proof (Hf k (le_n k) ltac:(lia)) as Hck. rewrite fsum_firstn_S in Hck by (rewrite rt_len_v; lia).
      eapply (flt_le_trans F); [exact Hck|]. apply fle_add_compat; [apply fle_refl|].
      unfold weight. rewrite <- rt_v_nth by assumption. apply rt_sorted; auto.
    Qed.

    Lemma rt_sn_zero_iff i : i < n -> (nth i sn zero = zero <-> nth i s zero = zero).
    Proof.
      intros Hi. rewrite normsq_nth by assumption. split; intros H.
      - apply fsq_zero.
        replace (nth i s zero *! nth i s zero) with ((nth i s zero *! nth i s zero) /! sqsum s *! sqsum s)
          by (field; apply rt_w2_nz).
        rewrite H. ring.
      - rewrite H. field. apply rt_w2_nz.
    Qed.

    Lemma rt_tol0 : tol = zero -> forall i, i < n -> (In i K <-> nth i s zero <> zero).
    Proof.
      intros Et i Hi. rewrite <- (rt_sn_zero_iff i Hi). rewrite rt_inK.
      destruct (rt_pos i Hi) as [a [Ha Ea]]. subst i. rewrite rt_C by assumption.
      rewrite <- rt_v_nth by assumption. rewrite Et. split.
      - intros [_ Hc] E. rewrite fsum_zero in Hc; [exact (flt_irrefl F _ Hc)|].
        intros x Hx. destruct (In_nth _ _ zero Hx) as [u [Hu Eu]]. rewrite firstn_length, rt_len_v in Hu.
        rewrite nth_firstn_lt in Eu by lia. subst x.
        apply (fle_antisym F); [eapply fle_eq; [reflexivity|exact E|apply rt_sorted; lia]|apply rt_v_nonneg, nth_In; rewrite rt_len_v; lia].
      - intros Hne. split; [apply rt_p_nth_lt; exact Ha|]. rewrite fsum_firstn_S by (rewrite rt_len_v; exact Ha).
        apply (flt_le_trans F _ (nth a v zero)).
        + apply fle_neq_lt; [apply rt_v_nonneg, nth_In; rewrite rt_len_v; exact Ha|]. intros E; apply Hne; auto.
        + eapply fle_eq; [| |apply (fle_add_compat F zero (fsum (firstn a v)) (nth a v zero) (nth a v zero));
                              [apply fsum_firstn_nonneg, rt_v_nonneg|apply fle_refl]]; ring.
    Qed.

    Lemma rt_spec :
      StronglySorted lt K /\ (forall i, In i K -> i < n) /\ K <> [] /\
      disc_weight s K <=! tol /\
      (forall i j, In i K -> j < n -> ~ In j K -> nth j s zero <=! nth i s zero) /\
      (forall m, In m K -> tol <! disc_weight s K +! weight s m) /\
      (tol = zero -> forall i, i < n -> (In i K <-> nth i s zero <> zero)).
    Proof.
      split; [rewrite rt_K; apply sorted_filter_seq|].
      split; [intros i Hi; apply rt_inK in Hi; tauto|].
      split; [exact rt_nonempty|]. split; [exact rt_disc_le|]. split; [exact rt_kept_ge|].
      split; [exact rt_maximal|exact rt_tol0].
    Qed.
  End Main.

End RetainedProofs.

Theorem retained_zero : forall (F : ofield) pick (s : list F) tol,
  (forall x, In x s -> x = f0 F) -> retained pick s tol = [].
Proof.
  intros F pick s tol H. unfold retained. rewrite (all_zero_sqsum F s H).
  replace (feqb F (f0 F) (f0 F)) with true; [reflexivity|]. symmetry. apply feqb_spec. reflexivity.
Qed.

Theorem retained_spec : forall (F : ofield) (pick : list F -> list nat) (s : list F) (tol : F),
  (forall x, In x s -> fle F (f0 F) x) -> (exists x, In x s /\ x <> f0 F) ->
  fle F (f0 F) tol -> flt F tol (f1 F) ->
  pick_ok F (normsq s) (pick (normsq s)) ->
  let K := retained pick s tol in
  StronglySorted lt K /\ (forall i, In i K -> i < length s) /\ K <> [] /\
  fle F (disc_weight s K) tol /\
  (forall i j, In i K -> j < length s -> ~ In j K -> fle F (nth j s (f0 F)) (nth i s (f0 F))) /\
  (forall m, In m K -> flt F tol (fadd F (disc_weight s K) (weight s m))) /\
  (tol = f0 F -> forall i, i < length s -> (In i K <-> nth i s (f0 F) <> f0 F)).
Proof.
  intros F pick s tol H1 H2 H3 H4 H5 K. exact (rt_spec F pick s tol H1 H2 H3 H4 H5).
Qed.

(* non-vacuity: the hypotheses of [retained_spec] are met by s = [2; 0; 1], tol = 1/10, argsort = [1; 2; 0];
   the model keeps indices 0 and 2 *)
Example retained_spec_nonvacuous :
  let s := [Qcanon.Q2Qc (QArith_base.Qmake 2 1); Qcanon.Q2Qc (QArith_base.Qmake 0 1); Qcanon.Q2Qc (QArith_base.Qmake 1 1)] : list QcF in
  let tol : QcF := Qcanon.Q2Qc (QArith_base.Qmake 1 10) in
  let pick := (fun _ : list QcF => [1; 2; 0]) in
  (forall x, In x s -> fle QcF (f0 QcF) x) /\ (exists x, In x s /\ x <> f0 QcF) /\
  fle QcF (f0 QcF) tol /\ flt QcF tol (f1 QcF) /\ pick_ok QcF (normsq s) (pick (normsq s)) /\
  retained pick s tol = [0; 2].
Proof.
  cbv zeta. split; [|split; [|split; [|split; [|split]]]].
  - intros x [<-|[<-|[<-|[]]]]; vm_compute; reflexivity.
  - exists (Qcanon.Q2Qc (QArith_base.Qmake 1 1)). split; [right; right; left; reflexivity|]. intros E. discriminate E.
  - vm_compute; reflexivity.
  - vm_compute; reflexivity.
  - split.
    + change (Permutation [1; 2; 0] [0; 1; 2]).
      apply Permutation_sym. apply (Permutation_cons_app [1; 2] [] 0). apply Permutation_refl.
    + intros a b Hab Hb. change (b < 3) in Hb.
      destruct a as [|[|[|a]]]; destruct b as [|[|[|b]]]; try lia; vm_compute; reflexivity.
  - vm_compute. reflexivity.
Qed.

Print Assumptions retained_zero.
Print Assumptions retained_spec.
