(* C09 — exactness of TWO-SITE TDVP (integrate_local_twosite, tol_split = 0) on a complete manifold (no quantum numbers),
   relative to an abstract exact global flow [G]: common definitions.  Same style as Proofs/ExactDefs.v (single-site):
     * the EXACT-SPLIT contract of one split_mps_tensor call with tol = 0 on the complete manifold [split_full]:
       merging the two answers gives back the tensor that was split (C03_merge_split_id), the kept bond has the FULL
       dimension k of the profile (= min(d*Dl, d*Dr) for the profile min(d^j, d^(L-j)): no singular value is dropped),
       and WHEN the factor that did not receive the singular values is SQUARE ('right': A0 as a (d*Dl) x k matrix, 'left':
       A1 as a k x (d*Dr) matrix) it is unitary: isometric (U^H U = 1 resp. V V^H = 1 of the SVD, which the SVD guarantees
       for every shape) and its other Gram matrix is the identity as well (over C a consequence for square matrices; not
       derivable in a commutative ring without determinants) -- the analogue of [qr_full].  Nothing is required of a
       non-square factor beyond exactness of the split, so the contract is WEAKER than what split_mps_tensor delivers;
     * the per-call contract of a recorded trace [ex2_tr_ok]: every SPLITL / SPLITR call at the pair (i, i+1) meets
       split_full with the bond dimensions Ds i, Ds (i+1), Ds (i+2) of the profile;
     * the CONTRACTS tying the ONE oracle [kexp] (= _local_hamiltonian_step, used by the code both for the merged two-site
       problem, forward in time, and for the one-site problem, backward in time) to the global flow:
         (F)   kexp_flowH        (Proofs/ExactDefs.v) the one-site solver is a shape-preserving flow in its time argument;
         (F2)  kexp2_flowH       the same for the two-site problem (merged MPO tensor, merged MPS tensor of shape
                                 d^2 x Ds i x Ds (i+2));
         (IL2) intertwine2_left  two-site flow on merge(Q, C) = merge(Q, one-site flow on C) for left-UNITARY Q, the one-site
                                 problem being built with the left block updated by the model's own
                                 contraction_operator_step_left Q Q W_i BL;
         (IR2) intertwine2_right two-site flow on merge(C, B) = merge(one-site flow on C, B) for right-unitary B, right block
                                 updated by contraction_operator_step_right B B W_{i+1} BR;
         (A2)  kexp2_global      when the pair (i, i+1) sits between complete frames (all tensors left of i left-unitary, all
                                 tensors right of i+1 right-unitary) and the environment blocks are the ones the model builds
                                 from these frames, evolving the merged pair tensor by the two-site solver changes the dense
                                 state by G t;
         (G)   G_flow            (Proofs/ExactDefs.v).
       Mathematical content: (IL2)/(IR2) encode  H_pair (Q (x) 1) = (Q (x) 1) H_site  (proved for the model's own functions in
       Proofs/Exact2Local.v) together with "H1 V = V H2  =>  exp(t H1) V = V exp(t H2)";  (A2) encodes
       H_eff = V^H H V with V unitary and exp(t V^H H V) = V^H exp(tH) V. *)
From Coq Require Import ZArith Arith List Lia Ring Setoid Bool.
From PT Require Import Base.Scalar Base.BigSum Base.Mx Model.Tensor Model.Operation Model.Sweeps
  Proofs.OperationEntries Proofs.OperationTwoSite Proofs.SweepsCanon Proofs.SweepsGauge Proofs.ReverseDefs Proofs.ExactDefs.
Import ListNotations.

Section Defs2.
  Variable R : cring.
  Add Ring Rring_exact2_defs : (k_rt R).
  Notation site := (site R).
  Notation osite := (osite R).
  Notation env := (env R).
  Notation mx := (mx R).

  (* ---------------- merged tensors ---------------- *)
  Lemma wsite_merge d Dl k Dr (A0 A1 : site) : 0 < d -> wsite d Dl k A0 -> wsite d k Dr A1 ->
    wsite (d * d) Dl Dr (c04_merge_site A0 A1).
  Proof.
    intros Hd H0 H1. pose proof (merge_site_ok R d d Dl k Dr A0 A1 Hd (wsite_ok R _ _ _ _ H0) (wsite_ok R _ _ _ _ H1)) as [Hl _].
    split; [exact Hl|]. apply Forall_forall. intros M HM. unfold c04_merge_site in HM.
    apply in_flat_map in HM. destruct HM as (M0 & HM0 & HM). apply in_map_iff in HM. destruct HM as (M1 & <- & HM1).
    destruct H0 as [_ F0]. destruct H1 as [_ F1]. rewrite Forall_forall in F0, F1.
    destruct (F0 M0 HM0) as (_ & a1 & _). destruct (F1 M1 HM1) as (_ & _ & b2).
    split; [apply wf_mulmx|]. rewrite nr_mulmx, nc_mulmx. auto.
  Qed.

  (* equal merged tensors have equal two-site products *)
  Lemma merge_eq_pair d Dl k Dr Dl' k' Dr' (A0 A1 P0 P1 : site) :
    wsite d Dl k A0 -> wsite d k Dr A1 -> wsite d Dl' k' P0 -> wsite d k' Dr' P1 ->
    c04_merge_site A0 A1 = c04_merge_site P0 P1 ->
    forall s t, s < d -> t < d -> mulmx (sel A0 s) (sel A1 t) = mulmx (sel P0 s) (sel P1 t).
  Proof.
    intros [l0 _] [l1 _] [l2 _] [l3 _] E s t Hs Ht.
    rewrite <- (merge_sel R d A0 A1 s t) by (try assumption; lia).
    rewrite <- (merge_sel R d P0 P1 s t) by (try assumption; lia).
    rewrite E. reflexivity.
  Qed.

  (* ---------------- the exact-split contract (tol = 0, complete manifold) ---------------- *)
  Definition split_full (d Dl k Dr : nat) (left : bool) (Am : site) (ans : site * site * list BinNums.Z) : Prop :=
    wsite (d * d) Dl Dr Am ->
    let A0 := fst (fst ans) in
    let A1 := snd (fst ans) in
    wsite d Dl k A0 /\ wsite d k Dr A1 /\ c04_merge_site A0 A1 = Am /\
    (if left then k = (d * Dr)%nat -> runitary A1 else (d * Dl)%nat = k -> lunitary A0).

  Lemma split_full_spec d Dl k Dr left (Am A0 A1 : site) q :
    split_full d Dl k Dr left Am (A0, A1, q) <->
    (wsite (d * d) Dl Dr Am ->
     wsite d Dl k A0 /\ wsite d k Dr A1 /\ c04_merge_site A0 A1 = Am /\
     (if left then k = (d * Dr)%nat -> runitary A1 else (d * Dl)%nat = k -> lunitary A0)).
  Proof. split; intros H; exact H. Qed.

  Section Trace.
  Variable split : nat -> site -> list BinNums.Z -> list BinNums.Z -> list BinNums.Z -> list BinNums.Z -> bool -> site * site * list BinNums.Z.
  Variable d : nat.
  Variable Ds : nat -> nat.

  Definition ex2_call_ok (p : nat) (t : tcall R) : Prop :=
    let i := c_site (t_call t) in
    match c_kind (t_call t), t_ten t, t_qs t with
    | SPLITL, [Am], [q0; q1; q2; q3] => split_full d (Ds i) (Ds (S i)) (Ds (S (S i))) true Am (split p Am q0 q1 q2 q3 true)
    | SPLITR, [Am], [q0; q1; q2; q3] => split_full d (Ds i) (Ds (S i)) (Ds (S (S i))) false Am (split p Am q0 q1 q2 q3 false)
    | _, _, _ => True
    end.
  Fixpoint ex2_tr_ok (tr : list (tcall R)) : Prop :=
    match tr with [] => True | t :: rest => ex2_call_ok (length rest) t /\ ex2_tr_ok rest end.
  Lemma ex2_tr_ok_suffix new old : ex2_tr_ok (new ++ old) -> ex2_tr_ok old.
  Proof. induction new as [|t new IH]; [exact (fun H => H)|]. cbn [app ex2_tr_ok]. intros [_ H]. exact (IH H). Qed.

  End Trace.

  (* ---------------- the contracts on the solver ---------------- *)
  Section Contracts.
    Variable Hs : list osite.
    Variable d : nat.
    Variables Ds DW : nat -> nat.
    Notation L := (length Hs).
    Notation Wat i := (nth i Hs []).
    Notation W2at i := (c04_merge_osite (nth i Hs []) (nth (S i) Hs [])).
    Notation siteT i := (wsite d (Ds i) (Ds (S i))).
    Notation pairT i := (wsite (d * d) (Ds i) (Ds (S (S i)))).
    Notation envL i := (wenv (DW i) (Ds i) (Ds i)).

    (* (F2) *)
    Definition kexp2_flowH (kexp : kexp_t R) : Prop :=
      forall i p p' p'' BL BR M s t, S i < L -> pairT i M -> envL i BL -> envL (S (S i)) BR ->
        pairT i (kexp p BL BR (W2at i) M t) /\
        kexp p BL BR (W2at i) M (k0 R) = M /\
        kexp p' BL BR (W2at i) (kexp p BL BR (W2at i) M s) t = kexp p'' BL BR (W2at i) M (kadd R s t).
    (* (IL2) *)
    Definition intertwine2_left (kexp : kexp_t R) : Prop :=
      forall i p p' BL BR Q C t, S i < L -> siteT i Q -> lunitary Q -> siteT (S i) C -> envL i BL -> envL (S (S i)) BR ->
        kexp p BL BR (W2at i) (c04_merge_site Q C) t =
        c04_merge_site Q (kexp p' (contraction_operator_step_left Q Q (Wat i) BL) BR (Wat (S i)) C t).
    (* (IR2) *)
    Definition intertwine2_right (kexp : kexp_t R) : Prop :=
      forall i p p' BL BR C B t, S i < L -> siteT i C -> siteT (S i) B -> runitary B -> envL i BL -> envL (S (S i)) BR ->
        kexp p BL BR (W2at i) (c04_merge_site C B) t =
        c04_merge_site (kexp p' BL (contraction_operator_step_right B B (Wat (S i)) BR) (Wat i) C t) B.
    (* (A2): EL j = the left block seen by site j, ER j = the right block seen by site j *)
    Definition kexp2_global (G : R -> list R -> list R) (i : nat) (kexp : kexp_t R) : Prop :=
      forall (As : list site) (EL ER : nat -> env) p P0 P1 Q0 Q1 t,
        length As = L -> (forall j, j < L -> siteT j (nth j As [])) ->
        siteT i P0 -> siteT (S i) P1 -> siteT i Q0 -> siteT (S i) Q1 ->
        (forall j, j < i -> lunitary (nth j As [])) -> (forall j, S i < j < L -> runitary (nth j As [])) ->
        EL 0 = env_one -> (forall j, j < i -> EL (S j) = contraction_operator_step_left (nth j As []) (nth j As []) (Wat j) (EL j)) ->
        ER (L - 1) = env_one -> (forall j, S i < j < L -> ER (j - 1) = contraction_operator_step_right (nth j As []) (nth j As []) (Wat j) (ER j)) ->
        c04_merge_site Q0 Q1 = kexp p (EL i) (ER (S i)) (W2at i) (c04_merge_site P0 P1) t ->
        dense d L (lset (lset As i Q0) (S i) Q1) = G t (dense d L (lset (lset As i P0) (S i) P1)).
  End Contracts.
End Defs2.

Arguments split_full {R} d Dl k Dr left Am ans.
Arguments ex2_call_ok {R} split d Ds p t. Arguments ex2_tr_ok {R} split d Ds tr.
Arguments kexp2_flowH {R} Hs d Ds DW kexp.
Arguments intertwine2_left {R} Hs d Ds DW kexp. Arguments intertwine2_right {R} Hs d Ds DW kexp.
Arguments kexp2_global {R} Hs d Ds G i kexp.
