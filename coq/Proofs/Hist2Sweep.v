(* C02, round 2: block sparsity is an invariant of the single-site sweeps (Model/Sweeps.v: integrate_local_singlesite,
   calculate_ground_state_local_singlesite).

   Invariant [ZQ st i] of the sweep state with centre i: every site tensor is charge conserving under the CURRENT bond
   charges s_qD, the left blocks BL[0..i] and the right blocks BR[i..L-1] are charge conserving under
   (psi.qD[j], H.qD[j], psi.qD[j]) (Proofs/Hist2Local.v [env_okP]; for BR this is the code's own assertion).
   It is established by the common prologue ([ZQ_init]: the right blocks computed from a charge-conserving state are charge
   conserving, so the assertion of the prologue cannot fire) and preserved by every loop body, relative to the contracts
   [sp_call_ok] of the calls the run actually issues, read off the emitted trace:
       local solvers   the answer is charge conserving under the charges of the start tensor whenever the arguments are
                       (a THEOREM for the Krylov solvers whenever the call returns: Proofs/Hist2Solvers.v)
       bond_ops.qr     Q and R are charge conserving under the returned bond charges, which are non-empty and not longer
                       than the matrix is wide (C11_block_qr_spec).
   Consequence: the returned (A, qD) satisfy the invariant mps_ok of C02 ([tdvp1_mps_ok], [dmrg1_mps_ok]). *)
From Coq Require Import ZArith List Lia Bool Arith Ring.
From PT Require Import Base.Scalar Base.BigSum Base.Mx Model.Tensor Model.MPSOps Model.Operation Model.Sweeps.
From PT Require Import Proofs.MPSOpsBase Proofs.MPSOpsTop Proofs.MPSOpsShape Proofs.OperationSums Proofs.OperationEntries.
From PT Require Import Proofs.SweepsFlow Proofs.SweepsRun.
From PT Require Import Proofs.HistSparse Proofs.HistChain Proofs.Hist2Local.
Import ListNotations.
Open Scope nat_scope.

(* ---------- chains by position ---------- *)
Lemma chainP_nth {T} (P : list Z -> list Z -> T -> Prop) (dflt : T) : forall (As : list T) qDs,
  chainP P qDs As <-> length qDs = S (length As) /\ forall j, j < length As -> P (nth j qDs []) (nth (S j) qDs []) (nth j As dflt).
Proof.
  induction As as [|A As IH]; intros qDs.
  - destruct qDs as [|q [|q2 qs]]; cbn [chainP length]; split; try tauto; try (intros [H _]; discriminate H).
    intros _. split; [reflexivity|]. intros j Hj. lia.
  - destruct qDs as [|ql [|qr qs]]; [cbn [chainP length]; split; [tauto|intros [H _]; discriminate H]..|].
    rewrite chainP_cons, IH. cbn [length]. split.
    + intros [H1 [H2 H3]]. split; [lia|]. intros [|j] Hj; [exact H1|]. cbn [nth]. apply (H3 j). lia.
    + intros [H2 H3]. split; [exact (H3 0 ltac:(lia))|]. split; [lia|]. intros j Hj. exact (H3 (S j) ltac:(lia)).
Qed.
Lemma nth_tl {T} (l : list T) j d : nth j (tl l) d = nth (S j) l d.
Proof. destruct l; [destruct j; reflexivity|reflexivity]. Qed.
Lemma zneg_involutive q : zneg (zneg q) = q.
Proof. unfold zneg. rewrite map_map. rewrite <- (map_id q) at 2. apply map_ext. intros. lia. Qed.
Lemma len1_single (q : list Z) : length q = 1 -> exists x, q = [x].
Proof. destruct q as [|x [|? ?]]; try discriminate. intros _. exists x. reflexivity. Qed.

Section Sweep.
  Variable R : cring.
  Notation mx := (mx R).
  Notation site := (site R). Notation osite := (osite R). Notation env := (env R).
  Notation sw := (sw R).
  Notation site_okP := (site_okP R). Notation osite_okP := (osite_okP R).
  Notation env_okP := (env_okP R). Notation bond_okP := (bond_okP R).

  Variable qr : nat -> mx -> list Z -> list Z -> mx * mx * list Z.
  Variable kexp : nat -> env -> env -> osite -> site -> R -> site.
  Variable kexp0 : nat -> env -> env -> mx -> R -> mx.
  Variable keig : nat -> env -> env -> osite -> site -> R * site.
  Variables (Hs : list osite) (qd : list Z) (qWs : list (list Z)) (dt hdt : R).
  Notation L := (length Hs).
  Notation qW j := (nth j qWs []).

  Hypothesis Hd : 0 < length qd.
  Hypothesis HWs : chainP (osite_okP qd) qWs Hs.
  Hypothesis HWpos : forall j, j <= L -> 0 < length (qW j).
  Hypothesis HW0 : qW 0 = [0%Z].

  Lemma HW_at j : j < L -> osite_okP qd (qW j) (qW (S j)) (nth j Hs []).
  Proof. intros Hj. exact (proj2 (proj1 (chainP_nth (osite_okP qd) [] Hs qWs) HWs) j Hj). Qed.

  (* ---------- the invariant ---------- *)
  Definition ZQ (st : sw) (i : nat) : Prop :=
    length (s_A st) = L /\ length (s_qD st) = S L /\ length (s_BL st) = L /\ length (s_BR st) = L /\
    (forall j, j < L -> site_okP qd (gq st j) (gq st (S j)) (gA st j)) /\
    (forall j, j <= i -> env_okP (gq st j) (qW j) (gq st j) (gBL st j)) /\
    (forall j, i <= j -> j < L -> env_okP (gq st (S j)) (qW (S j)) (gq st (S j)) (gBR st j)).

  (* the returned object satisfies the invariant of C02 *)
  Theorem ZQ_mps_ok st i : ZQ st i -> mps_ok (mkmps qd (s_qD st) (s_A st)) = true.
  Proof.
    intros (lA & lq & _ & _ & HA & _). apply mps_ok_P. cbn [m_qd m_qD m_A].
    apply (chainP_nth (site_okP qd) []). split; [lia|]. intros j Hj. apply HA. lia.
  Qed.

  (* ---------- per-call contracts, read off the trace ---------- *)
  Definition qr_sp_ok (M : mx) (q0 q1 : list Z) (ans : mx * mx * list Z) : Prop :=
    let '(Q, C, qb) := ans in
    bond_okP q0 qb Q /\ bond_okP qb q1 C /\ wfb C = true /\ 0 < length qb /\ length qb <= length q1.
  Definition sp_call_ok (p : nat) (t : tcall R) : Prop :=
    let i := c_site (t_call t) in
    let W := nth i Hs [] in
    let tm := tval dt hdt (c_coef (t_call t)) in
    match c_kind (t_call t), t_envs t, t_ten t, t_qs t with
    | KH, [BL; BR], [A], _ =>
        forall ql qr', site_okP qd ql qr' A -> env_okP ql (qW i) ql BL -> env_okP qr' (qW (S i)) qr' BR ->
          site_okP qd ql qr' (kexp p BL BR W A tm)
    | EIG, [BL; BR], [A], _ =>
        forall ql qr', site_okP qd ql qr' A -> env_okP ql (qW i) ql BL -> env_okP qr' (qW (S i)) qr' BR ->
          site_okP qd ql qr' (snd (keig p BL BR W A))
    | KB, [BL; BR], [[C]], _ =>
        forall ql qr', bond_okP ql qr' C -> wfb C = true -> env_okP ql (qW (S i)) ql BL -> env_okP qr' (qW (S i)) qr' BR ->
          bond_okP ql qr' (kexp0 p BL BR C tm)
    | QR, _, [[M]], [q0; q1] => bond_okP q0 q1 M -> qr_sp_ok M q0 q1 (qr p M q0 q1)
    | _, _, _, _ => True
    end.
  Fixpoint sp_tr_ok (tr : list (tcall R)) : Prop :=
    match tr with [] => True | t :: rest => sp_call_ok (length rest) t /\ sp_tr_ok rest end.
  Lemma sp_tr_ok_suffix new old : sp_tr_ok (new ++ old) -> sp_tr_ok old.
  Proof. induction new as [|t new IH]; [exact (fun H => H)|]. cbn [app sp_tr_ok]. intros [_ H]. exact (IH H). Qed.

  (* ---------- accessors after updates ---------- *)
  Lemma g_same {T} (l : list T) i x d : i < length l -> nth i (lset l i x) d = x.
  Proof. apply nth_lset_same. Qed.
  Lemma g_other {T} (l : list T) i j x d : i <> j -> nth j (lset l i x) d = nth j l d.
  Proof. apply nth_lset_other. Qed.

  (* ---------- the QR moves ---------- *)
  (* left: A -> (Aq, C, qb) *)
  Lemma qr_left_sp p (A : site) ql qr' :
    site_okP qd ql qr' A ->
    (bond_okP (qflat qd ql) qr' (site_flat A) -> qr_sp_ok (site_flat A) (qflat qd ql) qr' (qr p (site_flat A) (qflat qd ql) qr')) ->
    let '(Aq, C, qb, _) := qr_left qr p A qd ql qr' in
    site_okP qd ql qb Aq /\ bond_okP qb qr' C /\ wfb C = true /\ 0 < length qb /\ length qb <= length qr'.
  Proof.
    intros HA Hc. unfold qr_left. cbv zeta. specialize (Hc (site_flat_okP R qd Hd ql qr' A HA)).
    destruct (qr p (site_flat A) (qflat qd ql) qr') as [[Q C] qb]. destruct Hc as (HQ & HC & Hwf & Hp & Hle).
    destruct (site_okP_sdl R qd Hd ql qr' A HA) as (E1 & E2 & E3). rewrite E1, E3.
    split; [apply site_unflat_okP; assumption|]. auto.
  Qed.
  (* right: A -> (Aq, C, qb) with qb the NEW left bond charges and C[k, a] <> 0 -> qb0[k] = -ql[a] *)
  Lemma qr_right_sp p (A : site) ql qr' :
    site_okP qd ql qr' A ->
    (let M := site_flat (site_tr A) in let q0 := qflat qd (zneg qr') in let q1 := zneg ql in
     bond_okP q0 q1 M -> qr_sp_ok M q0 q1 (qr p M q0 q1)) ->
    let '(Aq, C, qb, _) := qr_right qr p A qd ql qr' in
    site_okP qd qb qr' Aq /\ bond_okP ql qb (trmx C) /\ 0 < length qb /\ length qb <= length ql.
  Proof.
    intros HA Hc. unfold qr_right. cbv zeta in *.
    pose proof (site_tr_okP R qd Hd ql qr' A HA) as HAt.
    specialize (Hc (site_flat_okP R qd Hd _ _ _ HAt)).
    destruct (qr p (site_flat (site_tr A)) (qflat qd (zneg qr')) (zneg ql)) as [[Q C] qb0]. destruct Hc as (HQ & HC & Hwf & Hp & Hle).
    destruct (site_okP_sdl R qd Hd _ _ _ HAt) as (E1 & E2 & E3). rewrite E1, E3.
    assert (El : length (zneg qr') = length qr') by (unfold zneg; apply map_length).
    assert (El2 : length (zneg ql) = length ql) by (unfold zneg; apply map_length).
    assert (El3 : length (zneg qb0) = length qb0) by (unfold zneg; apply map_length).
    split.
    - pose proof (site_unflat_okP R qd Hd (zneg qr') qb0 Q HQ) as H1.
      pose proof (site_tr_okP R qd Hd _ _ _ H1) as H2. rewrite zneg_involutive in H2. exact H2.
    - split; [|lia]. apply bond_okP_trmx in HC. apply bond_okP_zneg in HC. rewrite zneg_involutive in HC. exact HC.
  Qed.

  (* ======================= TDVP, single site ======================= *)
  Lemma tdvp_mid_sp (st : sw) i : ZQ st i -> i < L -> sp_tr_ok (s_tr (tdvp1_mid kexp Hs dt hdt st i)) ->
    ZQ (tdvp1_mid kexp Hs dt hdt st i) i.
  Proof.
    intros (lA & lq & lBL & lBR & HA & HBL & HBR) Hi Hok. unfold tdvp1_mid in *. cbn [s_tr] in Hok. destruct Hok as [Hc _].
    unfold sp_call_ok in Hc. cbn [t_call c_kind c_site c_coef t_envs t_ten t_qs] in Hc.
    specialize (Hc _ _ (HA i Hi) (HBL i (le_n i)) (HBR i (le_n i) Hi)).
    unfold ZQ. cbn [s_A s_qD s_BL s_BR]. rewrite lset_length.
    repeat (split; [assumption|]). split; [|split; assumption].
    intros j Hj. unfold gA, gq in *. cbn [s_A s_qD]. destruct (Nat.eq_dec i j) as [<-|Hne].
    - rewrite g_same by lia. exact Hc.
    - rewrite g_other by exact Hne. apply HA. exact Hj.
  Qed.

  Lemma tdvp_lr_sp (st : sw) i : ZQ st i -> S i < L ->
    sp_tr_ok (s_tr (tdvp1_lr qr kexp kexp0 Hs qd dt hdt st i)) ->
    ZQ (tdvp1_lr qr kexp kexp0 Hs qd dt hdt st i) (S i).
  Proof.
    intros (lA & lq & lBL & lBR & HA & HBL & HBR) HSi Hok.
    unfold tdvp1_lr in *. cbv zeta in *.
    set (A1 := kexp (length (s_tr st)) (gBL st i) (gBR st i) (nth i Hs []) (gA st i) (tval dt hdt 1)) in *.
    pose proof (qr_left_sp (S (length (s_tr st))) A1 (gq st i) (gq st (S i))) as Hq.
    unfold qr_left in *. cbv zeta in *.
    destruct (qr (S (length (s_tr st))) (site_flat A1) (qflat qd (gq st i)) (gq st (S i))) as [[Q C] qb] eqn:Eq.
    cbn [s_tr s_A s_BL s_BR s_qD] in *. destruct Hok as (HcB & _ & HcQ & HcK & _).
    unfold sp_call_ok in HcB, HcQ, HcK. cbn [at_site t_call c_kind c_site c_coef t_envs t_ten t_qs length] in HcB, HcQ, HcK.
    fold A1 in HcK. rewrite Eq in HcQ.
    assert (HA1 : site_okP qd (gq st i) (gq st (S i)) A1).
    { apply HcK; [apply HA; lia|apply HBL; lia|apply HBR; lia]. }
    destruct (Hq HA1 HcQ) as (HAq & HC & Hwf & Hp & Hle).
    set (Aq := site_unflat (length A1) (sdl A1) Q) in *.
    set (BLn := contraction_operator_step_left Aq Aq (nth i Hs []) (gBL st i)) in *.
    assert (HBLn : env_okP qb (qW (S i)) qb BLn).
    { apply (opstep_left_okP R qd (qW i) (qW (S i)) (nth i Hs []) Hd (HWpos i ltac:(lia)) (HWpos (S i) ltac:(lia)) (HW_at i ltac:(lia))
               (gq st i) qb (gq st i) qb); [exact HAq|exact HAq|apply HBL; lia]. }
    set (C1 := kexp0 (S (S (S (length (s_tr st))))) BLn (gBR st i) C (tval dt hdt (-1))) in *.
    assert (HC1 : bond_okP qb (gq st (S i)) C1).
    { apply HcB; [exact HC|exact Hwf|exact HBLn|apply HBR; lia]. }
    assert (HAn : site_okP qd qb (gq st (S (S i))) (lmul_site C1 (gA st (S i)))).
    { apply (lmul_site_okP R qd Hd qb (gq st (S i))); [exact HC1|apply HA; lia]. }
    unfold ZQ. cbn [s_A s_qD s_BL s_BR]. rewrite !lset_length.
    repeat (split; [assumption|]).
    assert (Gq : forall j, gq (mksw (lset (lset (s_A st) i Aq) (S i) (lmul_site C1 (gA st (S i)))) (lset (s_qD st) (S i) qb)
                               (lset (s_BL st) (S i) BLn) (s_BR st)
                               (mkt (mkcall KB i (-1)) [BLn; gBR st i] [[C]] [] :: mkt (mkcall STL i 0) [gBL st i; BLn] [Aq] []
                                :: at_site i (mkt (mkcall QR 0 0) [] [[site_flat A1]] [qflat qd (gq st i); gq st (S i)])
                                :: mkt (mkcall KH i 1) [gBL st i; gBR st i] [gA st i] [] :: s_tr st)) j
                          = if Nat.eqb j (S i) then qb else gq st j).
    { intros j. unfold gq. cbn [s_qD]. destruct (Nat.eqb j (S i)) eqn:E.
      - apply Nat.eqb_eq in E. subst j. apply g_same. lia.
      - apply Nat.eqb_neq in E. apply g_other. lia. }
    split; [|split].
    - intros j Hj. rewrite !Gq. unfold gA. cbn [s_A].
      destruct (Nat.eq_dec j (S i)) as [->|N1].
      + rewrite g_same by (rewrite lset_length; lia). rewrite Nat.eqb_refl.
        replace (Nat.eqb (S (S i)) (S i)) with false by (symmetry; apply Nat.eqb_neq; lia). exact HAn.
      + rewrite g_other by lia. replace (Nat.eqb j (S i)) with false by (symmetry; apply Nat.eqb_neq; lia).
        destruct (Nat.eq_dec j i) as [->|N2].
        * rewrite g_same by lia. rewrite Nat.eqb_refl. exact HAq.
        * rewrite g_other by lia. replace (Nat.eqb (S j) (S i)) with false by (symmetry; apply Nat.eqb_neq; lia). apply HA. exact Hj.
    - intros j Hj. rewrite !Gq. unfold gBL. cbn [s_BL]. destruct (Nat.eq_dec j (S i)) as [->|N1].
      + rewrite g_same by lia. rewrite Nat.eqb_refl. exact HBLn.
      + rewrite g_other by lia. replace (Nat.eqb j (S i)) with false by (symmetry; apply Nat.eqb_neq; lia). apply HBL. lia.
    - intros j Hj1 Hj2. rewrite !Gq. unfold gBR. cbn [s_BR].
      replace (Nat.eqb (S j) (S i)) with false by (symmetry; apply Nat.eqb_neq; lia). apply HBR; lia.
  Qed.

  Lemma tdvp_rl_sp (st : sw) i : ZQ st i -> 0 < i -> i < L ->
    sp_tr_ok (s_tr (tdvp1_rl qr kexp kexp0 Hs qd dt hdt st i)) ->
    ZQ (tdvp1_rl qr kexp kexp0 Hs qd dt hdt st i) (i - 1).
  Proof.
    intros (lA & lq & lBL & lBR & HA & HBL & HBR) Hi0 Hi Hok.
    unfold tdvp1_rl in *. cbv zeta in *.
    pose proof (qr_right_sp (length (s_tr st)) (gA st i) (gq st i) (gq st (S i))) as Hq.
    unfold qr_right in *. cbv zeta in *.
    destruct (qr (length (s_tr st)) (site_flat (site_tr (gA st i))) (qflat qd (zneg (gq st (S i)))) (zneg (gq st i))) as [[Q C] qb0] eqn:Eq.
    cbn [s_tr s_A s_BL s_BR s_qD] in *. destruct Hok as (HcK & HcB & _ & HcQ & _).
    unfold sp_call_ok in HcB, HcQ, HcK. cbn [at_site t_call c_kind c_site c_coef t_envs t_ten t_qs length] in HcB, HcQ, HcK.
    rewrite Eq in HcQ.
    destruct (Hq (HA i Hi) HcQ) as (HAq & HCt & Hp & Hle).
    set (qb := zneg qb0) in *.
    set (Aq := site_tr (site_unflat (length (site_tr (gA st i))) (sdl (site_tr (gA st i))) Q)) in *.
    set (BRn := contraction_operator_step_right Aq Aq (nth i Hs []) (gBR st i)) in *.
    assert (HBRn : env_okP qb (qW i) qb BRn).
    { apply (opstep_right_okP R qd (qW i) (qW (S i)) (nth i Hs []) Hd (HWpos i ltac:(lia)) (HWpos (S i) ltac:(lia)) (HW_at i Hi)
               qb (gq st (S i)) qb (gq st (S i))); [exact HAq|exact HAq|apply HBR; lia]. }
    set (C1 := kexp0 (S (S (length (s_tr st)))) (gBL st i) BRn (trmx C) (tval dt hdt (-1))) in *.
    assert (ESi : S (i - 1) = i) by lia.
    assert (HC1 : bond_okP (gq st i) qb C1).
    { rewrite ESi in HcB. apply HcB; [exact HCt|apply wfb_tab|apply HBL; lia|exact HBRn]. }
    set (Ap := rmul_site (gA st (i - 1)) C1) in *.
    assert (HAp : site_okP qd (gq st (i - 1)) qb Ap).
    { apply (rmul_site_okP R qd Hd (gq st (i - 1)) (gq st i) qb); [|exact HC1]. rewrite <- ESi at 2. apply HA. lia. }
    set (Ap1 := kexp (S (S (S (length (s_tr st))))) (gBL st (i - 1)) BRn (nth (i - 1) Hs []) Ap (tval dt hdt 1)) in *.
    assert (HAp1 : site_okP qd (gq st (i - 1)) qb Ap1).
    { apply HcK; [exact HAp|apply HBL; lia|rewrite ESi; exact HBRn]. }
    unfold ZQ. cbn [s_A s_qD s_BL s_BR]. rewrite !lset_length.
    repeat (split; [assumption|]).
    assert (Gq : forall tr j, gq (mksw (lset (lset (s_A st) i Aq) (i - 1) Ap1) (lset (s_qD st) i qb) (s_BL st) (lset (s_BR st) (i - 1) BRn) tr) j
                          = if Nat.eqb j i then qb else gq st j).
    { intros tr j. unfold gq. cbn [s_qD]. destruct (Nat.eqb j i) eqn:E.
      - apply Nat.eqb_eq in E. subst j. apply g_same. lia.
      - apply Nat.eqb_neq in E. apply g_other. lia. }
    split; [|split].
    - intros j Hj. rewrite !Gq. unfold gA. cbn [s_A].
      destruct (Nat.eq_dec j (i - 1)) as [->|N1].
      + rewrite g_same by (rewrite lset_length; lia). rewrite ESi, Nat.eqb_refl.
        replace (Nat.eqb (i - 1) i) with false by (symmetry; apply Nat.eqb_neq; lia). exact HAp1.
      + rewrite g_other by lia. destruct (Nat.eq_dec j i) as [->|N2].
        * rewrite g_same by lia. rewrite Nat.eqb_refl. replace (Nat.eqb (S i) i) with false by (symmetry; apply Nat.eqb_neq; lia). exact HAq.
        * rewrite g_other by lia. replace (Nat.eqb j i) with false by (symmetry; apply Nat.eqb_neq; lia).
          replace (Nat.eqb (S j) i) with false by (symmetry; apply Nat.eqb_neq; lia). apply HA. exact Hj.
    - intros j Hj. rewrite !Gq. unfold gBL. cbn [s_BL].
      replace (Nat.eqb j i) with false by (symmetry; apply Nat.eqb_neq; lia). apply HBL. lia.
    - intros j Hj1 Hj2. rewrite !Gq. unfold gBR. cbn [s_BR]. destruct (Nat.eq_dec j (i - 1)) as [->|N1].
      + rewrite g_same by lia. rewrite ESi, Nat.eqb_refl. exact HBRn.
      + rewrite g_other by lia. replace (Nat.eqb (S j) i) with false by (symmetry; apply Nat.eqb_neq; lia). apply HBR; lia.
  Qed.

  (* one time step, any number of time steps *)
  Lemma tdvp_step_sp (st : sw) : 1 <= L -> ZQ st 0 ->
    sp_tr_ok (s_tr (tdvp1_step qr kexp kexp0 Hs qd dt hdt L st)) ->
    ZQ (tdvp1_step qr kexp kexp0 Hs qd dt hdt L st) 0.
  Proof.
    intros HL1 HT Hok. unfold tdvp1_step in *. cbv zeta in *.
    set (st1 := fold_left (tdvp1_lr qr kexp kexp0 Hs qd dt hdt) (seq 0 (L - 1)) st) in *.
    set (st2 := tdvp1_mid kexp Hs dt hdt st1 (L - 1)) in *.
    assert (Hok2 : sp_tr_ok (s_tr st2)).
    { destruct (fold_mono (@s_tr R) (tdvp1_rl qr kexp kexp0 Hs qd dt hdt) (suf_tdvp1_rl R qr kexp kexp0 Hs qd dt hdt) (rev (seq 1 (L - 1))) st2) as [new E].
      rewrite E in Hok. exact (sp_tr_ok_suffix _ _ Hok). }
    assert (Hok1 : sp_tr_ok (s_tr st1)).
    { unfold st2, tdvp1_mid in Hok2. cbn [s_tr] in Hok2. exact (proj2 Hok2). }
    assert (H1 : ZQ st1 (0 + (L - 1))).
    { unfold st1.
      apply (fold_up (@s_tr R) (tdvp1_lr qr kexp kexp0 Hs qd dt hdt) (suf_tdvp1_lr R qr kexp kexp0 Hs qd dt hdt) sp_tr_ok sp_tr_ok_suffix
               (fun i s => ZQ s i) (L - 1) 0 st HT Hok1).
      intros i s' Hi HZ Hoki. apply tdvp_lr_sp; [exact HZ|lia|exact Hoki]. }
    cbn [Nat.add] in H1.
    assert (H2 : ZQ st2 (L - 1)) by (apply tdvp_mid_sp; [exact H1|lia|exact Hok2]).
    apply (fold_down (@s_tr R) (tdvp1_rl qr kexp kexp0 Hs qd dt hdt) (suf_tdvp1_rl R qr kexp kexp0 Hs qd dt hdt) sp_tr_ok sp_tr_ok_suffix
             (fun i s => ZQ s i) (L - 1) 0 st2 H2 Hok).
    intros i s' Hi HZ Hoki. apply tdvp_rl_sp; [exact HZ|lia|lia|exact Hoki].
  Qed.

  Lemma tdvp_iter_sp n : forall st, 1 <= L -> ZQ st 0 ->
    sp_tr_ok (s_tr (iter n (tdvp1_step qr kexp kexp0 Hs qd dt hdt L) st)) ->
    ZQ (iter n (tdvp1_step qr kexp kexp0 Hs qd dt hdt L) st) 0.
  Proof.
    induction n as [|n IH]; intros st HL1 HT Hok; cbn [iter] in *; [exact HT|].
    apply IH; [exact HL1| |exact Hok]. apply tdvp_step_sp; [exact HL1|exact HT|].
    destruct (suf_tdvp_iter R qr kexp kexp0 Hs qd dt hdt n (tdvp1_step qr kexp kexp0 Hs qd dt hdt L st)) as [new E].
    rewrite E in Hok. exact (sp_tr_ok_suffix _ _ Hok).
  Qed.
End Sweep.

(* ======================= the common prologue ======================= *)
Section Init.
  Variable R : cring.
  Notation mx := (mx R).
  Notation site := (site R). Notation osite := (osite R). Notation env := (env R).
  Notation sw := (sw R).
  Notation site_okP := (site_okP R). Notation osite_okP := (osite_okP R).
  Notation env_okP := (env_okP R). Notation bond_okP := (bond_okP R).
  Variable qd : list Z.
  Hypothesis Hd : 0 < length qd.

  Lemma rblocks_ne (As : list site) (Ws : list osite) : rblocks As Ws <> [].
  Proof. destruct As, Ws; discriminate. Qed.
  Lemma hd_nth0 {T} (l : list T) d d' : l <> [] -> hd d l = nth 0 l d'.
  Proof. destruct l; [congruence|reflexivity]. Qed.

  (* the right blocks of a charge-conserving state and operator are charge conserving: BR[j] under the charges of bond j+1 *)
  Lemma rblocks_okP : forall (As : list site) (Ws : list osite) qDs qws,
    length As = length Ws -> chainP (site_okP qd) qDs As -> chainP (osite_okP qd) qws Ws ->
    (exists q, last qDs [] = [q]) -> last qws [] = [0%Z] -> Forall (fun q => 0 < length q) qws ->
    forall j, j <= length As -> env_okP (nth j qDs []) (nth j qws []) (nth j qDs []) (nth j (rblocks As Ws) []).
  Proof.
    induction As as [|A As IH]; intros [|W Ws] qDs qws Hl HA HW Hq Hw0 Hpos j Hj; try discriminate Hl.
    - destruct qDs as [|q0 [|? ?]]; try contradiction HA. destruct qws as [|w0 [|? ?]]; try contradiction HW.
      cbn [length] in Hj. assert (j = 0) as -> by lia. cbn [rblocks nth]. cbn [last] in Hq, Hw0. destruct Hq as [q ->]. subst w0.
      apply env_one_okP.
    - destruct qDs as [|ql [|qr' qs]]; [contradiction HA|contradiction HA|].
      destruct qws as [|wl [|wr ws]]; [contradiction HW|contradiction HW|].
      apply chainP_cons in HA, HW. destruct HA as [HA0 HA]. destruct HW as [HW0' HW].
      inversion Hpos as [|? ? Hp0 Hpos']; subst. inversion Hpos' as [|? ? Hp1 _]; subst.
      assert (IHj : forall j, j <= length As -> env_okP (nth j (qr' :: qs) []) (nth j (wr :: ws) []) (nth j (qr' :: qs) []) (nth j (rblocks As Ws) [])).
      { apply IH; try assumption; cbn [length] in Hl; lia. }
      cbn [rblocks]. destruct j as [|j]; cbn [nth].
      + rewrite (hd_nth0 _ env_one []) by apply rblocks_ne.
        apply (opstep_right_okP R qd wl wr W Hd Hp0 Hp1 HW0' ql qr' ql qr'); try assumption. apply (IHj 0). lia.
      + apply (IHj j). cbn [length] in Hj. lia.
  Qed.

  Theorem ZQ_init (Hs : list osite) (qWs : list (list Z)) (orth : mps R -> mps R * R) (H : mpo R) psi st nrm :
    chainP (osite_okP qd) qWs Hs -> (forall j, j <= length Hs -> 0 < length (nth j qWs [])) -> nth 0 qWs [] = [0%Z] ->
    sweep_init orth H psi = Some (st, nrm) ->
    o_A H = Hs -> o_qD H = qWs -> last qWs [] = [0%Z] ->
    m_qd (fst (orth psi)) = qd -> mps_ok (fst (orth psi)) = true ->
    length (hd [] (m_qD (fst (orth psi)))) = 1 -> length (last (m_qD (fst (orth psi))) []) = 1 ->
    ZQ R Hs qd qWs st 0 /\ gBL st 0 = env_one /\ s_tr st = [] /\ nrm = snd (orth psi).
  Proof.
    intros HWs HWpos HW0 Hinit EH EW Hwl Eqd Hok Hh1 Hl1. unfold sweep_init in Hinit. rewrite EH in Hinit.
    destruct (negb (Nat.eqb (length Hs) (length (m_A psi)))); [discriminate|].
    destruct (orth psi) as [psi1 n1]. cbn [fst snd] in *.
    destruct (compute_right_operator_blocks psi1 H) as [BR|] eqn:EB; [|discriminate].
    destruct (forallb _ _); [|discriminate]. injection Hinit as <- <-.
    unfold compute_right_operator_blocks, compute_right_operator_blocks_sites in EB. rewrite EH in EB.
    destruct (negb (Nat.eqb (length (m_A psi1)) (length Hs))) eqn:E2; [discriminate|]. apply negb_false_iff, Nat.eqb_eq in E2.
    apply mps_ok_P in Hok. rewrite Eqd in Hok.
    pose proof (chainP_length _ _ _ _ Hok) as LqD. pose proof (chainP_length _ _ _ _ HWs) as LqW.
    destruct (m_A psi1) as [|A0 As] eqn:EA; [discriminate|]. destruct Hs as [|W0 Ws] eqn:EHs; [discriminate|]. injection EB as <-.
    destruct (m_qD psi1) as [|q0 [|q1 qs]] eqn:EqD; [contradiction Hok|contradiction Hok|].
    destruct qWs as [|w0 [|w1 ws]] eqn:EqW; [contradiction HWs|contradiction HWs|].
    pose proof Hok as Hok0. pose proof HWs as HWs0. apply chainP_cons in Hok, HWs0. destruct Hok as [HA0 HAs]. destruct HWs0 as [HW0' HWs'].
    cbn [length] in *. cbn [hd] in Hh1.
    assert (Hposl : Forall (fun q => 0 < length q) (w1 :: ws)).
    { apply Forall_forall. intros q Hq. apply (In_nth _ _ []) in Hq. destruct Hq as (k & Hk & <-).
      change (nth k (w1 :: ws) []) with (nth (S k) (w0 :: w1 :: ws) []). apply HWpos. cbn [length] in Hk. lia. }
    assert (HBRall : forall j, j <= length As -> env_okP (nth j (q1 :: qs) []) (nth j (w1 :: ws) []) (nth j (q1 :: qs) []) (nth j (rblocks As Ws) [])).
    { apply rblocks_okP; [lia|exact HAs|exact HWs'| | |exact Hposl].
      - apply len1_single. rewrite <- Hl1. reflexivity.
      - rewrite <- Hwl. reflexivity. }
    split; [|split; [reflexivity|split; reflexivity]].
    unfold ZQ. cbn [s_A s_qD s_BL s_BR length]. rewrite repeat_length.
    rewrite (rblocks_length R (length qd) Hd As Ws) by lia.
    split; [lia|]. split; [lia|]. split; [lia|]. split; [lia|]. split; [|split].
    - intros j Hj. unfold gq, gA. cbn [s_A s_qD].
      exact (proj2 (proj1 (chainP_nth (site_okP qd) [] (A0 :: As) (q0 :: q1 :: qs)) Hok0) j ltac:(cbn [length]; lia)).
    - intros j Hj. assert (j = 0) as -> by lia. unfold gq, gBL. cbn [s_qD s_BL nth].
      cbn [nth] in HW0. rewrite HW0. destruct (len1_single q0 Hh1) as [x ->]. apply env_one_okP.
    - intros j _ Hj. unfold gq, gBR. cbn [s_qD s_BR]. change (nth (S j) (q0 :: q1 :: qs) []) with (nth j (q1 :: qs) []).
      change (nth (S j) (w0 :: w1 :: ws) []) with (nth j (w1 :: ws) []). apply HBRall. lia.
  Qed.
End Init.

(* ---------- integrate_local_singlesite: the returned (A, qD) satisfy the invariant of C02 ---------- *)
Theorem tdvp1_mps_ok (R : cring) orth qr kexp kexp0 (H : mpo R) (psi : mps R) dt hdt n A qD nrm tr :
  tdvp_singlesite orth qr kexp kexp0 H psi dt hdt n = Some (A, qD, nrm, tr) ->
  (* the operator: invariant of C02, non-empty bonds, charge neutral (boundary bond charges [0]) *)
  mpo_ok H = true -> o_qd H = m_qd psi -> Forall (fun q => 0 < length q) (o_qD H) ->
  hd [] (o_qD H) = [0%Z] -> last (o_qD H) [] = [0%Z] ->
  (* the state after psi.orthonormalize(mode='right') (C01 / C02_orth_step_contract): invariant of C02, boundary bonds 1 *)
  0 < length (m_qd psi) -> m_qd (fst (orth psi)) = m_qd psi -> mps_ok (fst (orth psi)) = true ->
  length (hd [] (m_qD (fst (orth psi)))) = 1 -> length (last (m_qD (fst (orth psi))) []) = 1 ->
  (* contracts of the calls actually issued *)
  sp_tr_ok R qr kexp kexp0 (fun _ _ _ _ _ => (k0 R, [])) (o_A H) (m_qd psi) (o_qD H) dt hdt (rev tr) ->
  mps_ok (mkmps (m_qd psi) qD A) = true /\ nrm = snd (orth psi).
Proof.
  intros Hrun HokH Eqd Hpos Hh0 Hl0 Hd Eqd1 Hok1 Hh1 Hl1 Hok.
  unfold tdvp_singlesite in Hrun. destruct (sweep_init orth H psi) as [[st nrm']|] eqn:Einit; [|discriminate].
  injection Hrun as <- <- <- <-. rewrite rev_involutive in Hok.
  apply mpo_ok_P in HokH. rewrite Eqd in HokH.
  assert (HWpos : forall j, j <= length (o_A H) -> 0 < length (nth j (o_qD H) [])).
  { intros j Hj. rewrite Forall_forall in Hpos. apply Hpos. apply nth_In. rewrite (chainP_length _ _ _ _ HokH). lia. }
  assert (HW0 : nth 0 (o_qD H) [] = [0%Z]).
  { destruct (o_qD H) as [|w0 ws]; [discriminate Hh0|]. exact Hh0. }
  destruct (ZQ_init R (m_qd psi) Hd (o_A H) (o_qD H) orth H psi st nrm' HokH HWpos HW0 Einit eq_refl eq_refl Hl0 Eqd1 Hok1 Hh1 Hl1)
    as (HZ & _ & _ & En).
  assert (HL1 : 1 <= length (o_A H)).
  { destruct HZ as (lA & _). unfold sweep_init in Einit. destruct (negb _); [discriminate|]. destruct (orth psi) as [psi1 n1].
    destruct (compute_right_operator_blocks psi1 H) as [BR|] eqn:EB; [|discriminate].
    unfold compute_right_operator_blocks, compute_right_operator_blocks_sites in EB. destruct (negb _); [discriminate|].
    destruct (m_A psi1); [discriminate|]. destruct (o_A H); [discriminate|]. cbn [length]. lia. }
  split; [|exact En].
  apply (ZQ_mps_ok R (o_A H) (m_qd psi) (o_qD H) Hd _ 0).
  apply (tdvp_iter_sp R qr kexp kexp0 (fun _ _ _ _ _ => (k0 R, [])) (o_A H) (m_qd psi) (o_qD H) dt hdt Hd HokH HWpos n st HL1 HZ Hok).
Qed.
