(* C20, all lattice sizes, part 2 (generic): the layers MPO.from_opgraph finds in a LINKED graph (the cross-reference part of
   OpGraph.is_consistent: what C05 proves of every graph returned by from_opchains) that has a level function, explicit level
   sets, and in which every node other than the start node has an incoming edge: layer k = level set k, so
   bond_dims g = the sizes of the level sets.  No well-formedness in the sense of C16 is needed. *)
From Coq Require Import ZArith List Lia Bool.
From PT Require Import Base.Scalar Base.BigSum Base.Mx Model.OpGraph Model.FromOpchains Model.GraphMPO Model.Hamiltonians
                       Proofs.FromOpchainsGraph Proofs.FromOpchainsPart Proofs.GraphMPOSem Proofs.DenRev_C05
                       Proofs.CompactLayers.
Import ListNotations.
Open Scope Z_scope.

Lemma NoDup_zinsert' x l : ~ In x l -> NoDup l -> NoDup (zinsert x l).
Proof.
  induction l as [|y l IH]; simpl; intros Hx Hn; [constructor; [intros []|constructor]|].
  destruct (x <=? y); [constructor; assumption|]. inversion Hn; subst. constructor.
  - rewrite zinsert_In. intros [->|H]; [apply Hx; left; reflexivity|contradiction].
  - apply IH; [intros H; apply Hx; right; exact H|assumption].
Qed.
Lemma NoDup_zsort' l : NoDup l -> NoDup (zsort l).
Proof.
  induction l as [|x l IH]; simpl; intros H; [constructor|]. inversion H; subst.
  apply NoDup_zinsert'; [rewrite zsort_In; assumption|apply IH; assumption].
Qed.

Section Linked.
  Variable R : cring.
  Notation graph := (graph R).
  Variable g : graph.
  Hypothesis HL : linked g = true.
  Definition gnids : list Z := map n_id (g_nodes g).

  Lemma lk_find_edge e : In e (g_edges g) -> find_edge g (e_id e) = Some e.
  Proof. intros He. unfold find_edge. apply (find_key (@e_id R)); [apply (L_edges R g HL)|exact He]. Qed.

  Lemma lk_from e : In e (g_edges g) -> exists n, In n (g_nodes g) /\ n_id n = e_from e /\ In (e_id e) (n_out n).
  Proof.
    intros He. destruct (L_edge_refs R g HL e He) as [[n [Hn Hin]] _]. exists n. split; [exact Hn|]. split; [|exact Hin].
    destruct (proj2 (L_node_refs R g HL n Hn) (e_id e) Hin) as [e' [F K]]. rewrite (lk_find_edge e He) in F. inversion F; subst. auto.
  Qed.
  Lemma lk_to e : In e (g_edges g) -> exists n, In n (g_nodes g) /\ n_id n = e_to e /\ In (e_id e) (n_in n).
  Proof.
    intros He. destruct (L_edge_refs R g HL e He) as [_ [n [Hn Hin]]]. exists n. split; [exact Hn|]. split; [|exact Hin].
    destruct (proj1 (L_node_refs R g HL n Hn) (e_id e) Hin) as [e' [F K]]. rewrite (lk_find_edge e He) in F. inversion F; subst. auto.
  Qed.
  Lemma lk_ends e : In e (g_edges g) -> In (e_from e) gnids /\ In (e_to e) gnids.
  Proof.
    intros He. destruct (lk_from e He) as [n [Hn [E _]]]. destruct (lk_to e He) as [n' [Hn' [E' _]]].
    split; [rewrite <- E|rewrite <- E']; apply in_map; assumption.
  Qed.
  Lemma lk_out x e : In e (out_edges g x) <-> In e (g_edges g) /\ e_from e = x.
  Proof.
    split.
    - intros H. unfold out_edges in H. destruct (find_node g x) as [n|] eqn:F; [|destruct H].
      apply (find_node_id R) in F. destruct F as [Eid Hn]. apply (In_edges_of R) in H. destruct H as [eid [Hi Fe]].
      destruct (proj2 (L_node_refs R g HL n Hn) eid Hi) as [e' [F' K]]. rewrite Fe in F'. inversion F'; subst e'.
      apply (find_edge_id R) in Fe. split; [apply Fe|congruence].
    - intros [He Ef]. destruct (lk_from e He) as [n [Hn [E Hin]]]. unfold out_edges. rewrite <- Ef, <- E.
      rewrite (find_node_In R g HL n Hn). apply (In_edges_of R). exists (e_id e). split; [exact Hin|apply lk_find_edge; exact He].
  Qed.

  Lemma tgt_fold_total' nid : forall eids l,
    (forall eid, In eid eids -> exists e, find_edge g eid = Some e /\ e_from e = nid) ->
    exists l', fold_left (tgt_fold R g nid) eids (Ok l) = Ok l'.
  Proof.
    induction eids as [|eid t IH]; intros l H.
    - exists l. reflexivity.
    - cbn [fold_left]. unfold tgt_fold at 2. cbn [bind].
      destruct (H eid (or_introl eq_refl)) as [e [Fe Hf]]. rewrite Fe, Hf, Z.eqb_refl. cbn [negb].
      apply IH. intros eid' Hin. apply H. right. exact Hin.
  Qed.
  Lemma node_targets_total' nid l : In nid gnids -> exists l', node_targets g nid (Ok l) = Ok l'.
  Proof.
    intros Hn. apply in_map_iff in Hn. destruct Hn as [n [Hid Hn]].
    unfold node_targets. cbn [bind]. rewrite <- Hid, (find_node_In R g HL n Hn).
    apply (tgt_fold_total' (n_id n) (n_out n) l). intros eid Hin. exact (proj2 (L_node_refs R g HL n Hn) eid Hin).
  Qed.
  Lemma next_layer_total' : forall nids0 l, (forall x, In x nids0 -> In x gnids) ->
    exists l', fold_left (fun acc nid => node_targets g nid acc) nids0 (Ok l) = Ok l'.
  Proof.
    induction nids0 as [|nid t IH]; intros l H.
    - exists l. reflexivity.
    - cbn [fold_left]. destruct (node_targets_total' nid l (H nid (or_introl eq_refl))) as [l1 E]. rewrite E.
      apply IH. intros x Hx. apply H. right. exact Hx.
  Qed.

  (* ---- level sets ---- *)
  Variable lv : Z -> Z.
  Hypothesis Hlv : forall e, In e (g_edges g) -> lv (e_to e) = lv (e_from e) + 1.
  Hypothesis Hpred : forall x, In x gnids -> x <> g_t0 g -> exists e, In e (g_edges g) /\ e_to e = x.
  Variable K : nat.                             (* levels 0 .. K, all inhabited *)
  Hypothesis Hrng : forall x, In x gnids -> 0 <= lv x <= Z.of_nat K.
  Hypothesis Hinh : forall j, (j <= K)%nat -> exists x, In x gnids /\ lv x = Z.of_nat j.
  Hypothesis Hlow : forall x, In x gnids -> lv x = 0 -> x = g_t0 g.

  Lemma layers_exact : forall fuel nids0 (j : nat), (j <= K)%nat -> (K - j < fuel)%nat ->
    (forall x, In x nids0 <-> In x gnids /\ lv x = Z.of_nat j) ->
    exists ls, layers fuel g nids0 = Ok ls /\ length ls = (K - j)%nat /\
      forall i l, nth_error ls i = Some l -> NoDup l /\ forall x, In x l <-> In x gnids /\ lv x = Z.of_nat (j + 1 + i).
  Proof.
    induction fuel as [|f IH]; intros nids0 j Hj Hf H0; [lia|].
    cbn [layers]. unfold GraphMPO.next_layer.
    destruct (next_layer_total' nids0 [] (fun x Hx => proj1 (proj1 (H0 x) Hx))) as [n1 E]. rewrite E. cbn [bind].
    destruct (next_layer_conv R g nids0 [] n1 E (NoDup_nil _)) as [C1 C2].
    pose proof (next_layer_spec R g nids0 [] n1 E) as [_ S2].
    assert (Hn1 : forall x, In x n1 <-> In x gnids /\ lv x = Z.of_nat (j + 1)).
    { intros x. split.
      - intros Hx. destruct (C2 x Hx) as [[]|[nid [e [Hnid [He [Hfr Hto]]]]]].
        destruct (lk_ends e He) as [_ Ht]. rewrite Hto in Ht. split; [exact Ht|].
        pose proof (Hlv e He) as Hl. rewrite Hto, Hfr in Hl. destruct (proj1 (H0 nid) Hnid) as [_ Hl0]. lia.
      - intros [Hx Hl]. assert (Hne : x <> g_t0 g).
        { intros ->. destruct (Hinh 0%nat ltac:(lia)) as [y [Hy Hy0]]. pose proof (Hlow y Hy Hy0) as Ey. subst y. lia. }
        destruct (Hpred x Hx Hne) as [e [He Hto]]. destruct (lk_ends e He) as [Hfr _].
        pose proof (Hlv e He) as Hle. rewrite Hto in Hle.
        assert (Hm : In (e_from e) nids0) by (apply H0; split; [exact Hfr|lia]).
        rewrite <- Hto. apply (S2 (e_from e) e Hm). apply lk_out. auto. }
    destruct (Nat.eq_dec j K) as [->|HjK].
    - (* no node above level K *)
      destruct n1 as [|z n1'].
      + exists []. split; [reflexivity|]. split; [cbn; lia|]. intros i l Hi. destruct i; discriminate.
      + exfalso. destruct (proj1 (Hn1 z) (or_introl eq_refl)) as [Hz Hzl]. specialize (Hrng z Hz). lia.
    - destruct n1 as [|z n1'].
      + exfalso. destruct (Hinh (j + 1)%nat ltac:(lia)) as [y Hy]. apply Hn1 in Hy. exact Hy.
      + set (n1 := z :: n1') in *.
        destruct (IH (zsort n1) (j + 1)%nat ltac:(lia) ltac:(lia)) as [r [Er [Lr Hr]]].
        { intros x. rewrite zsort_In. apply Hn1. }
        rewrite Er. cbn [bind]. eexists. split; [reflexivity|]. split; [cbn [length]; lia|].
        intros i l Hi. destruct i as [|i]; cbn [nth_error] in Hi.
        * inversion Hi; subst l. change (zinsert z (zsort n1')) with (zsort n1). split; [apply NoDup_zsort'; exact C1|].
          intros x. rewrite zsort_In, Hn1. replace (j + 1 + 0)%nat with (j + 1)%nat by lia. tauto.
        * destruct (Hr i l Hi) as [A B]. split; [exact A|]. intros x. rewrite B.
          replace (j + 1 + 1 + i)%nat with (j + 1 + S i)%nat by lia. tauto.
  Qed.

  (* explicit level sets: level k = nth k maps *)
  Theorem bond_dims_linked (maps : list (list Z)) : length maps = S K -> (K <= length (g_nodes g))%nat ->
    (forall k l, nth_error maps k = Some l -> NoDup l /\ forall x, In x l <-> In x gnids /\ lv x = Z.of_nat k) ->
    bond_dims g = Some (map (@length Z) maps).
  Proof.
    intros Hlen Hfuel Hmaps.
    destruct (layers_exact (S (length (g_nodes g))) [g_t0 g] 0%nat ltac:(lia) ltac:(lia)) as [ls [E [Ll Hl]]].
    { intros x. split.
      - intros [<-|[]]. destruct (Hinh 0%nat ltac:(lia)) as [y [Hy Hy0]]. pose proof (Hlow y Hy Hy0) as Ey. subst y. auto.
      - intros [Hx Hx0]. left. symmetry. apply Hlow; assumption. }
    unfold bond_dims, graph_layers. rewrite E. cbn [bind]. f_equal.
    destruct maps as [|m0 maps']; [discriminate|]. cbn [length] in Hlen. cbn [map]. f_equal.
    - destruct (Hmaps 0%nat m0 eq_refl) as [N0 M0].
      assert (Hm0 : forall x, In x m0 <-> In x [g_t0 g]).
      { intros x. rewrite M0. split.
        - intros [Hx Hx0]. left. symmetry. apply Hlow; assumption.
        - intros [<-|[]]. destruct (Hinh 0%nat ltac:(lia)) as [y [Hy Hy0]]. pose proof (Hlow y Hy Hy0) as Ey. subst y. auto. }
      assert (A : (length m0 <= 1)%nat).
      { apply (NoDup_incl_length (l' := [g_t0 g]) N0). intros x Hx. apply Hm0. exact Hx. }
      assert (B : (1 <= length m0)%nat).
      { apply (NoDup_incl_length (l := [g_t0 g]) (l' := m0)); [constructor; [intros []|constructor]|]. intros x Hx. apply Hm0. exact Hx. }
      cbn [length] in *. lia.
    - apply (nth_ext _ _ 0%nat 0%nat); [rewrite !map_length; lia|].
      intros n Hn. rewrite map_length in Hn.
      destruct (nth_error ls n) as [l|] eqn:El; [|apply nth_error_None in El; lia].
      destruct (nth_error maps' n) as [m|] eqn:Em; [|apply nth_error_None in Em; lia].
      rewrite (nth_error_nth _ _ 0%nat (map_nth_error (@length Z) n ls El)).
      rewrite (nth_error_nth _ _ 0%nat (map_nth_error (@length Z) n maps' Em)).
      destruct (Hl n l El) as [Nl Ml]. destruct (Hmaps (S n) m Em) as [Nm Mm].
      assert (Hsame : forall x, In x l <-> In x m).
      { intros x. rewrite Ml, Mm. replace (0 + 1 + n)%nat with (S n) by lia. tauto. }
      assert (A : (length l <= length m)%nat) by (apply NoDup_incl_length; [exact Nl|intros x Hx; apply Hsame; exact Hx]).
      assert (B : (length m <= length l)%nat) by (apply NoDup_incl_length; [exact Nm|intros x Hx; apply Hsame; exact Hx]).
      lia.
  Qed.
End Linked.
