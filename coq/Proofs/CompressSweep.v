(* C13 — the truncation sweep of MPS.compress: site induction over any step function meeting [local_spec]
   (Proofs/CompressLocal.v).  Mirrors Proofs/OrthSweep.v with U . (sigma V) in place of Q . R and adds the bookkeeping of
   the centre norm (the tensors ahead are right isometries), exactness for tol = 0 and the overlap <result|input> = T. *)
From Coq Require Import ZArith List Bool Lia Arith Ring Field.
From PT Require Import Base.Scalar Base.Field Base.BigSum Base.Mx Model.Tensor Model.BondOps Model.Orthonormalize.
From PT Require Import Proofs.BondOpsPerm Proofs.BondOpsLoop Proofs.BondOpsSpec Proofs.MPSOpsBase Proofs.MPSOpsShape Proofs.MPSOpsMul.
From PT Require Import Proofs.BondOpsRetained Proofs.BondOpsSVD.
From PT Require Import Proofs.OrthDefs Proofs.OrthGram Proofs.OrthLocal Proofs.OrthSweep Proofs.OrthTop Proofs.CompressPartial.
From PT Require Import Proofs.CompressSVD Proofs.CompressLocal.
Import ListNotations.

(* the arguments (current tensor, charges behind, charges ahead) of the steps a sweep actually performs, in order *)
Fixpoint sweep_args {R : cring} (step : step_t R) (cur : site R) (qb : list Z) (rest : list (site R)) (qrest : list (list Z))
  : list (site R * list Z * list Z) :=
  match rest, qrest with
  | [], [qa] => [(cur, qb, qa)]
  | An :: rest', qa :: qrest' =>
      (cur, qb, qa) ::
      match step cur An qb qa with
      | Some (_, An', q') => sweep_args step An' q' rest' qrest'
      | None => []
      end
  | _, _ => []
  end.

Lemma sweep_calls_args {R : cring} (callsf : site R -> list Z -> list Z -> list (mx R)) (step : step_t R) :
  forall rest cur qb qrest,
  sweep_calls callsf step cur qb rest qrest =
  flat_map (fun a => callsf (fst (fst a)) (snd (fst a)) (snd a)) (sweep_args step cur qb rest qrest).
Proof.
  induction rest as [|An rest IH]; intros cur qb qrest.
  - destruct qrest as [|qa [|? ?]]; simpl; try reflexivity. rewrite app_nil_r. reflexivity.
  - destruct qrest as [|qa qrest]; [reflexivity|]. cbn [sweep_calls sweep_args flat_map fst snd]. f_equal.
    destruct (step cur An qb qa) as [[[B Bn] q']|]; [apply IH|reflexivity].
Qed.

Lemma last_lens_cons (q : list Z) qs : last (map (@length Z) (q :: qs)) 0 = length (last qs q).
Proof.
  revert q; induction qs as [|x qs IH]; intros q; [reflexivity|].
  change (last (map (@length Z) (x :: qs)) 0 = length (last (x :: qs) q)). rewrite IH.
  destruct qs as [|y qs]; [reflexivity|]. rewrite (last_irrel y qs x q). reflexivity.
Qed.

Section OvlAlg.
  Variable R : cring.
  Add Ring Rring_csweep : (k_rt R).
  Infix "*!" := (kmul R) (at level 40, left associativity).
  Notation cj := (kconj R).

  Lemma ovl_step d Db Dq Da (b c : nat -> nat -> nat -> R) (p q : nat -> R) (G : nat -> nat -> R) :
    (forall k l, k < Dq -> l < Da -> sumn d (fun s => sumn Db (fun a => cj (b s a k) *! c s a l)) = G k l) ->
    sumn d (fun s => sumn Db (fun a => cj (sumn Dq (fun k => b s a k *! p k)) *! sumn Da (fun l => c s a l *! q l)))
    = sumn Dq (fun k => cj (p k) *! sumn Da (fun l => G k l *! q l)).
  Proof.
    intros HG.
    set (X := fun s a k l => (cj (p k) *! q l) *! (cj (b s a k) *! c s a l)).
    transitivity (sumn d (fun s => sumn Db (fun a => sumn Dq (fun k => sumn Da (fun l => X s a k l))))).
    { apply sumn_ext; intros s Hs. apply sumn_ext; intros a Ha. rewrite sumn_conj, (sum_mul2 R).
      apply sumn_ext; intros k Hk. apply sumn_ext; intros l Hl. unfold X. rewrite kconj_mul. ring. }
    transitivity (sumn d (fun s => sumn Dq (fun k => sumn Db (fun a => sumn Da (fun l => X s a k l))))).
    { apply sumn_ext; intros s Hs. apply sumn_exch. }
    rewrite sumn_exch. apply sumn_ext; intros k Hk.
    transitivity (sumn d (fun s => sumn Da (fun l => sumn Db (fun a => X s a k l)))).
    { apply sumn_ext; intros s Hs. apply sumn_exch. }
    rewrite sumn_exch. rewrite <- sumn_scal_l. apply sumn_ext; intros l Hl.
    rewrite <- (HG k l Hk Hl).
    transitivity (sumn d (fun s => (cj (p k) *! q l) *! sumn Db (fun a => cj (b s a k) *! c s a l))).
    { apply sumn_ext; intros s Hs. unfold X. apply sumn_scal_l. }
    rewrite sumn_scal_l. ring.
  Qed.
End OvlAlg.

Section CSweep.
  Variable F : ofield.
  Add Field Ffield_csw : (f_ft F).
  Notation CF := (Cx F).
  Add Ring CFring_csw : (k_rt CF).
  Notation mx := (mx CF).
  Notation site := (site CF).
  Notation cO := (k0 CF). Notation cI := (k1 CF).
  Infix "*!" := (kmul CF) (at level 40, left associativity).
  Notation cj := (kconj CF).
  Notation emb := (@cof F).

  Variable d : nat.
  Variable qd : list Z.
  Variable tol : F.
  Hypothesis Hd : 1 <= d.
  Hypothesis Lqd : length qd = d.
  Hypothesis Htol1 : flt F tol (f1 F).

  Variable step : step_t CF.
  Variable ok : site -> list Z -> list Z -> Prop.
  Variable epsf : site -> list Z -> list Z -> F.
  Hypothesis Hloc : local_spec d qd tol step ok epsf.

  Definition argok (a : site * list Z * list Z) : Prop := ok (fst (fst a)) (snd (fst a)) (snd a).
  Definition argeps (a : site * list Z * list Z) : F := epsf (fst (fst a)) (snd (fst a)) (snd a).
  Definition one_minus (e : F) : F := fsub F (f1 F) e.

  (* overlap of two chains with a common (possibly > 1) leading bond dimension *)
  Definition ovl (Db : nat) (As Cs : list site) : CF :=
    suml (words d (length As)) (fun w =>
      sumn Db (fun a => cj (get (mprod 1 (pick As w)) a 0) *! get (mprod 1 (pick Cs w)) a 0)).

  Lemma mprod_dims Ds (As : list site) w : chain_shape d Ds As = true -> As <> [] -> word_ok d (length As) w ->
    nr (mprod 1 (pick As w)) = hd 0 Ds /\ nc (mprod 1 (pick As w)) = last Ds 0.
  Proof.
    intros Hs Hne Hw. pose proof (mchain_pick CF d Ds As w Hs Hw) as Hc.
    destruct (mprod_shape CF _ _ Hc) as [H1 H2].
    destruct As as [|A As]; [congruence|]. destruct Hw as [Hl Hw]. destruct w as [|s w]; [simpl in Hl; discriminate|].
    simpl pick in *. rewrite (mprod_irrel CF 1 (hd 0 Ds)). split; assumption.
  Qed.

  Lemma riso_one_site : riso 1 1 (@one_site CF).
  Proof.
    intros k l Hk Hl. assert (k = 0) by lia. assert (l = 0) by lia. subst. unfold one_site. cbn [length sumn]. unfold sel. cbn [nth].
    rewrite !get_tab by lia. rewrite kconj_1. unfold delta. cbn [Nat.eqb]. ring.
  Qed.

  Lemma frob_11 (G : mx) : nr G = 1 -> nc G = 1 -> frob G G = emb (cnorm2 (get G 0 0)).
  Proof.
    intros Hr Hc. unfold frob. rewrite Hr, Hc. cbn [sumn].
    transitivity (cj (get G 0 0) *! get G 0 0); [ring|]. exact (cconj_mul_self F (get G 0 0)).
  Qed.

  Lemma one_minus_pos e : fle F e tol -> flt F (f0 F) (one_minus e).
  Proof.
    intros He. unfold one_minus. apply (flt_sub_pos F). eapply fle_lt_trans; eauto.
  Qed.

  Lemma sweep_gen : forall (rest : list site) (cur : site) (qb : list Z) (qrest : list (list Z)) (c : F),
    chain_shape d (lens (qb :: qrest)) (cur :: rest) = true ->
    chain_qsparse qd (qb :: qrest) (cur :: rest) = true ->
    Forall (fun q => 1 <= length q) (qb :: qrest) ->
    length (last qrest qb) = 1 ->
    chain_riso (lens qrest) rest ->
    cn2 cur = emb c -> flt F (f0 F) c ->
    Forall argok (sweep_args step cur qb rest qrest) ->
    exists As qs T,
      sweep step cur qb rest qrest = Some (As, qb :: qs, T) /\
      is111 T = true /\
      length As = S (length rest) /\
      chain_shape d (lens (qb :: qs)) As = true /\
      chain_qsparse qd (qb :: qs) As = true /\
      Forall (fun q => 1 <= length q) (qb :: qs) /\
      length (last qs qb) = 1 /\
      bond_bound d (lens (qb :: qs)) (lens (qb :: qrest)) /\
      chain_liso (lens (qb :: qs)) As /\
      length (sweep_args step cur qb rest qrest) = S (length rest) /\
      Forall (fun a => fle F (f0 F) (argeps a) /\ fle F (argeps a) tol) (sweep_args step cur qb rest qrest) /\
      cnorm2 (get (sel T 0) 0 0) = fmul F c (fprod (map (fun a => one_minus (argeps a)) (sweep_args step cur qb rest qrest))) /\
      (tol = f0 F -> forall w, length w = S (length rest) -> letters d w ->
         mprod 1 (pick (cur :: rest) w) = scalemx (get (sel T 0) 0 0) (mprod 1 (pick As w))) /\
      ovl (length qb) As (cur :: rest) = get (sel T 0) 0 0.
  Proof.
    unfold lens. induction rest as [|An rest IH]; intros cur qb qrest c Hshape Hsparse Hpos Hlast Hriso Hcn Hc Hok.
    - (* last tensor *)
      destruct qrest as [|qa [|? ?]]; simpl in Hshape; try discriminate.
      2: { rewrite andb_false_r in Hshape. discriminate. }
      rewrite andb_true_r in Hshape. simpl in Hsparse. rewrite andb_true_r in Hsparse.
      simpl in Hlast. cbn [sweep_args] in *.
      assert (Hpb := Forall_inv Hpos). assert (Hpos' := Forall_inv_tail Hpos). assert (Hpa := Forall_inv Hpos').
      assert (HsN : site_shape 1 (length qa) 1 (@one_site CF) = true) by (rewrite Hlast; reflexivity).
      assert (Hok1 := Forall_inv Hok). unfold argok in Hok1. cbn [fst snd] in Hok1.
      destruct (Hloc 1 1 cur one_site qb qa c Hpb Hpa (le_n 1) Hshape Hsparse HsN Hcn Hc Hok1)
        as (B & G & q' & E & HwG & HnrG & HncG & Hq1 & Hq2 & Hq3 & HspG & HsB & HqB & Hiso & He0 & He1 & HfG & Hex & Hort).
      assert (Lq' : length q' = 1) by lia.
      exists [B], [q'], (lmul G one_site).
      assert (ET : get (sel (lmul G (@one_site CF)) 0) 0 0 = get G 0 0).
      { unfold lmul, one_site, sel. cbn [map nth]. rewrite get_mulmx by (rewrite ?nc_tab; lia). rewrite HncG, Hlast. cbn [sumn].
        rewrite get_tab by lia. ring. }
      split. { simpl. rewrite E. reflexivity. }
      split. { unfold is111, lmul, one_site, sDl, sDr, sel. simpl. rewrite HnrG, Lq'. reflexivity. }
      split; [reflexivity|].
      split. { simpl. rewrite HsB. reflexivity. }
      split. { simpl. rewrite HqB. reflexivity. }
      split. { constructor; [exact Hpb|]. constructor; [lia|constructor]. }
      split; [exact Lq'|].
      split. { simpl. repeat split; lia. }
      split. { simpl. split; [exact Hiso|exact I]. }
      split; [reflexivity|].
      split. { constructor; [|constructor]. unfold argeps. cbn [fst snd]. split; assumption. }
      split. { rewrite ET. apply (cof_inj F). rewrite <- (frob_11 G) by lia. rewrite HfG.
               unfold argeps, one_minus. cbn [map fprod fst snd]. f_equal. ring. }
      split.
      { intros Ht w Hlw Hw. destruct w as [|s [|? ?]]; simpl in Hlw; try discriminate.
        assert (Hs := Forall_inv Hw). cbv beta in Hs.
        destruct (site_shape_sel CF d (length qb) (length qa) cur s Hshape Hs) as (Hwc & Hrc & Hcc).
        destruct (site_shape_sel CF d (length qb) (length q') B s HsB Hs) as (Hwa & Hra & Hca).
        rewrite ET. simpl. rewrite !mulmx_1_r by assumption.
        rewrite <- (Hex Ht s Hs).
        rewrite (mulmx_scalar_r CF _ G) by (try assumption; lia). reflexivity. }
      rewrite ET. unfold ovl. change (length [B]) with 1. rewrite (suml_words_S CF d 0). cbn [words suml].
      rewrite <- (Hort 0 0 ltac:(lia) ltac:(lia)).
      apply sumn_ext. intros s Hs.
      destruct (site_shape_sel CF d (length qb) (length qa) cur s Hshape Hs) as (Hwc & Hrc & Hcc).
      destruct (site_shape_sel CF d (length qb) (length q') B s HsB Hs) as (Hwa & Hra & Hca).
      simpl pick. simpl mprod. rewrite !mulmx_1_r by assumption. ring.
    - (* interior tensor *)
      destruct qrest as [|qa [|qn qrest]].
      { simpl in Hshape. discriminate. }
      { exfalso. cbn [map] in Hshape. rewrite chain_shape_cons in Hshape. apply andb_true_iff in Hshape.
        destruct Hshape as [_ H2]. simpl in H2. discriminate. }
      cbn [map] in Hshape. rewrite chain_shape_cons in Hshape.
      apply andb_true_iff in Hshape. destruct Hshape as [HsC HsRest].
      rewrite (chain_qsparse_cons CF) in Hsparse. apply andb_true_iff in Hsparse. destruct Hsparse as [HqC HqRest].
      assert (Hpb := Forall_inv Hpos). assert (Hpos' := Forall_inv_tail Hpos). assert (Hpa := Forall_inv Hpos'). assert (Hpos'' := Forall_inv_tail Hpos').
      assert (HsRest' := HsRest). rewrite chain_shape_cons in HsRest'. apply andb_true_iff in HsRest'. destruct HsRest' as [HsN HsTail].
      assert (HqRest' := HqRest). rewrite (chain_qsparse_cons CF) in HqRest'. apply andb_true_iff in HqRest'. destruct HqRest' as [HqN HqTail].
      cbn [map] in Hriso. destruct Hriso as [HrisoN HrisoT].
      cbn [sweep_args] in Hok. assert (Hok1 := Forall_inv Hok). assert (Hok2 := Forall_inv_tail Hok).
      unfold argok in Hok1. cbn [fst snd] in Hok1.
      destruct (Hloc d (length qn) cur An qb qa c Hpb Hpa Hd HsC HqC HsN Hcn Hc Hok1)
        as (B & G & q' & E & HwG & HnrG & HncG & Hq1 & Hq2 & Hq3 & HspG & HsB & HqB & Hiso & He0 & He1 & HfG & Hex & Hort).
      rewrite E in Hok2.
      assert (HsN' : site_shape d (length q') (length qn) (lmul G An) = true)
        by (rewrite <- HnrG; eapply site_shape_lmul; eauto).
      assert (HokN := site_shape_site_ok CF d _ _ An HsN).
      assert (HqN' : site_qsparse qd q' qn (lmul G An) = true).
      { apply site_qsp_qsparse. eapply (lmul_qsp CF d (length qa) (length qn)); eauto.
        apply site_qsparse_qsp. exact HqN. }
      assert (Hcn' : cn2 (lmul G An) = emb (fmul F c (one_minus (epsf cur qb qa)))).
      { rewrite (cn2_lmul F d (length qa) (length qn) G An HokN HrisoN HncG). exact HfG. }
      assert (Hc' : flt F (f0 F) (fmul F c (one_minus (epsf cur qb qa)))).
      { apply fmul_pos; [exact Hc|apply one_minus_pos; exact He1]. }
      destruct (IH (lmul G An) q' (qn :: qrest) (fmul F c (one_minus (epsf cur qb qa))))
        as (As & qs & T & ES & H111 & HlAs & HsAs & HqAs & HpAs & HlastAs & Hbb & HisoAs & Hlen & Heps & Hnorm & Hamp & Hovl).
      + cbn [map]. rewrite chain_shape_cons, HsN'. exact HsTail.
      + rewrite (chain_qsparse_cons CF), HqN'. exact HqTail.
      + constructor; [exact Hq1|exact Hpos''].
      + rewrite (last_irrel qn qrest q' qb). exact Hlast.
      + exact HrisoT.
      + exact Hcn'.
      + exact Hc'.
      + exact Hok2.
      + exists (B :: As), (q' :: qs), T.
        cbn [sweep_args]. rewrite E.
        split. { simpl. rewrite E. rewrite ES. reflexivity. }
        split; [exact H111|].
        split; [simpl; rewrite HlAs; reflexivity|].
        split. { simpl. simpl in HsAs. rewrite HsB. exact HsAs. }
        split. { simpl. simpl in HqAs. rewrite HqB. exact HqAs. }
        split. { constructor; [exact Hpb|exact HpAs]. }
        split. { destruct qs as [|l qs]; [exact HlastAs|]. change (length (last (l :: qs) qb) = 1). rewrite (last_irrel l qs qb q'). exact HlastAs. }
        split. { simpl. simpl in Hbb. repeat split; try lia. exact Hbb. }
        split. { simpl. split; [exact Hiso|exact HisoAs]. }
        split; [simpl; rewrite Hlen; reflexivity|].
        split. { constructor; [|exact Heps]. unfold argeps. cbn [fst snd]. split; assumption. }
        split. { rewrite Hnorm. cbn [map fprod]. unfold argeps at 2. cbn [fst snd]. ring. }
        destruct As as [|A0 As]; [simpl in HlAs; discriminate|].
        assert (HsA0 : site_shape d (length q') (hd 0 (map (@length Z) qs)) A0 = true).
        { destruct qs as [|q2 qs]; [simpl in HsAs; discriminate|].
          cbn [map] in HsAs. rewrite chain_shape_cons in HsAs. apply andb_true_iff in HsAs. tauto. }
        split.
        { intros Ht w Hlw Hw. destruct w as [|s [|t w]]; simpl in Hlw; try discriminate; try lia.
          assert (Hs := Forall_inv Hw). assert (Hw' := Forall_inv_tail Hw). assert (Ht' := Forall_inv Hw'). assert (Hw'' := Forall_inv_tail Hw').
          cbv beta in Hs, Ht'.
          change (mprod 1 (pick (cur :: An :: rest) (s :: t :: w)))
            with (mulmx (sel cur s) (mprod 1 (pick (An :: rest) (t :: w)))).
          change (mprod 1 (pick (B :: A0 :: As) (s :: t :: w)))
            with (mulmx (sel B s) (mprod 1 (pick (A0 :: As) (t :: w)))).
          destruct (site_shape_sel CF d (length qb) (length q') B s HsB Hs) as (Hwa & Hra & Hca).
          rewrite <- (Hex Ht s Hs).
          rewrite mulmx_assoc.
          * rewrite <- (mprod_lmul CF d (length qa) (length qn) (lens qrest) G An rest t w 1 HsRest Ht' Hw'' HncG).
            rewrite (Hamp Ht (t :: w)) by (simpl; try lia; exact Hw').
            rewrite mulmx_scalemx_r; [reflexivity|].
            rewrite Hca. simpl. symmetry. apply (site_shape_sel CF d _ _ A0 t HsA0 Ht').
          * congruence.
          * rewrite HncG. simpl. symmetry. apply (site_shape_sel CF d _ _ An t HsN Ht'). }
        (* overlap *)
        rewrite <- Hovl. unfold ovl.
        change (length (B :: A0 :: As)) with (S (length (A0 :: As))). rewrite (suml_words_S CF d (length (A0 :: As))).
        rewrite (sumn_suml_exch CF). apply suml_ext. intros w Hw. apply words_ok in Hw.
        assert (Hw2 : word_ok d (length (lmul G An :: rest)) w) by (simpl in *; rewrite HlAs in Hw; exact Hw).
        assert (Hw3 : word_ok d (length (An :: rest)) w) by exact Hw2.
        destruct (mprod_dims (map (@length Z) (q' :: qs)) (A0 :: As) w HsAs ltac:(discriminate) Hw) as [HPr HPc].
        destruct (mprod_dims (map (@length Z) (qa :: qn :: qrest)) (An :: rest) w HsRest ltac:(discriminate) Hw3) as [HQr HQc].
        cbn [map hd] in HPr, HQr.
        assert (HPc1 : nc (mprod 1 (pick (A0 :: As) w)) = 1).
        { rewrite HPc. rewrite (last_lens_cons q' qs). exact HlastAs. }
        assert (HQc1 : nc (mprod 1 (pick (An :: rest) w)) = 1).
        { rewrite HQc. rewrite (last_lens_cons qa (qn :: qrest)). rewrite (last_irrel qn qrest qa qb). exact Hlast. }
        destruct Hw as [Hlw Hw]. destruct w as [|t w]; [simpl in Hlw; discriminate|].
        assert (Ht' := Forall_inv Hw). assert (Hw'' := Forall_inv_tail Hw). cbv beta in Ht'.
        rewrite (mprod_lmul CF d (length qa) (length qn) (lens qrest) G An rest t w 1 HsRest Ht' Hw'' HncG).
        set (P := mprod 1 (pick (A0 :: As) (t :: w))) in *. set (Q := mprod 1 (pick (An :: rest) (t :: w))) in *.
        transitivity (sumn d (fun s => sumn (length qb) (fun a =>
                        cj (sumn (length q') (fun k => get (sel B s) a k *! get P k 0)) *!
                        sumn (length qa) (fun l => get (sel cur s) a l *! get Q l 0)))).
        { apply sumn_ext. intros s Hs. apply sumn_ext. intros a Ha.
          destruct (site_shape_sel CF d (length qb) (length q') B s HsB Hs) as (Hwa & Hra & Hca).
          destruct (site_shape_sel CF d (length qb) (length qa) cur s HsC Hs) as (Hwc & Hrc & Hcc).
          change (mprod 1 (pick (B :: A0 :: As) (s :: t :: w))) with (mulmx (sel B s) P).
          change (mprod 1 (pick (cur :: An :: rest) (s :: t :: w))) with (mulmx (sel cur s) Q).
          rewrite !get_mulmx by lia. rewrite Hca, Hcc. reflexivity. }
        rewrite (ovl_step CF d (length qb) (length q') (length qa) (fun s a k => get (sel B s) a k)
                   (fun s a l => get (sel cur s) a l) (fun k => get P k 0) (fun l => get Q l 0) (fun k l => get G k l) Hort).
        apply sumn_ext. intros k Hk. rewrite get_mulmx by lia. rewrite HncG. reflexivity.
  Qed.
End CSweep.

Arguments argok {F} ok a. Arguments argeps {F} epsf a. Arguments one_minus {F} e. Arguments ovl {F} d Db As Cs.
