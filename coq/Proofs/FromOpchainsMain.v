(* C05 (b), part 3: the sweep invariant of Appendix B and the theorem
   "if from_opchains returns a graph, the graph denotes the sum of the padded chains" (every cover). *)
From Coq Require Import ZArith List Lia Bool Ring.
From PT Require Import Base.Scalar Base.BigSum Model.OpGraph Model.FromOpchains
                       Proofs.FromOpchainsGraph Proofs.FromOpchainsPart Proofs.FromOpchainsSem.
Import ListNotations.
Open Scope Z_scope.

Lemma zlist_eqb_len a b : length a <> length b -> zlist_eqb a b = false.
Proof.
  intros H. destruct (zlist_eqb a b) eqn:E; [|reflexivity]. apply zlist_eqb_eq in E. subst. congruence.
Qed.
Lemma zlist_eqb_refl a : zlist_eqb a a = true.
Proof. apply zlist_eqb_eq. reflexivity. Qed.
Lemma zlist_eqb_app_r a b c : zlist_eqb (a ++ c) (b ++ c) = zlist_eqb a b.
Proof.
  destruct (zlist_eqb a b) eqn:E.
  - apply zlist_eqb_eq in E. subst. apply zlist_eqb_refl.
  - destruct (zlist_eqb (a ++ c) (b ++ c)) eqn:E2; [|reflexivity].
    apply zlist_eqb_eq in E2. apply app_inv_tail in E2. subst. rewrite zlist_eqb_refl in E. discriminate.
Qed.
Lemma last_tl {A} (l : list A) d : (2 <= length l)%nat -> last (tl l) d = last l d.
Proof. destruct l as [|a [|b l]]; simpl; intros; try lia. reflexivity. Qed.

Ltac gring := repeat match goal with |- context [den_to ?g ?w ?n] => generalize (den_to g w n); intro end; ring.

Section Main.
  Variable R : cring.
  Add Ring Rring_main : (k_rt R).
  Notation "0r" := (k0 R). Notation "1r" := (k1 R).
  Infix "+r" := (kadd R) (at level 50, left associativity).
  Infix "*r" := (kmul R) (at level 40, left associativity).
  Notation graph := (graph R).
  Notation st := (st R).
  Notation chain := (chain R).
  Notation ind := (ind R).

  Definition Phi0 (g : graph) (nx : list (hchain * R)) (pre rest : list Z) : R :=
    suml nx (fun hc => snd hc *r den_to g pre (h_nidl (fst hc)) *r ind (zlist_eqb (h_oids (fst hc)) rest)).

  Lemma ind_f : ind false = 0r. Proof. reflexivity. Qed.
  Lemma ind_t : ind true = 1r. Proof. reflexivity. Qed.
  Lemma ind_andb a b : ind (a && b) = ind a *r ind b.
  Proof. unfold FromOpchainsSem.ind. destruct a, b; simpl; ring. Qed.

  (* ---- one site: Phi0 moves one letter from [rest] to [pre] ---- *)
  Lemma site_Phi0 cover (s s' : st) idn k :
    ginv R (s_g s) (s_nid s) (s_eid s) ->
    Forall (fun hc : hchain * R => h_nidl (fst hc) < s_nid s /\ length (h_oids (fst hc)) = S (S k) /\
                                   last (h_oids (fst hc)) 0 = idn) (s_next s) ->
    site cover s = Ok s' ->
    ginv R (s_g s') (s_nid s') (s_eid s') /\ s_nid s <= s_nid s' /\ g_t0 (s_g s') = g_t0 (s_g s) /\
    (forall m, m < s_nid s -> in_edges (s_g s') m = in_edges (s_g s) m) /\
    Forall (fun hc : hchain * R => s_nid s <= h_nidl (fst hc) < s_nid s' /\ length (h_oids (fst hc)) = S k /\
                                   last (h_oids (fst hc)) 0 = idn) (s_next s') /\
    (forall pre o rest, Phi0 (s_g s') (s_next s') (o :: pre) rest = Phi0 (s_g s) (s_next s) pre (o :: rest)).
  Proof.
    intros Hg Hnx Hs. unfold site in Hs.
    set (p := site_partition (s_next s)) in *.
    destruct (Nat.eqb (length (p_u p)) 0 || Nat.eqb (length (p_v p)) 0); [discriminate|].
    destruct (site_partition_regroup R (s_next s)) as [Hp [HW [HPU HPV]]]. fold p in Hp, HW, HPU, HPV.
    assert (HU : Forall (fun u => u_nidl u < s_nid s) (p_u p)).
    { apply HPU. intros hc Hh. rewrite Forall_forall in Hnx. destruct (Hnx hc Hh) as [A _]. exact A. }
    assert (HV : Forall (fun v => length (h_oids v) = S k /\ last (h_oids v) 0 = idn) (p_v p)).
    { apply HPV. intros hc Hh. rewrite Forall_forall in Hnx. destruct (Hnx hc Hh) as [_ [B C]].
      unfold split_v. cbn [h_oids]. split.
      - destruct (h_oids (fst hc)); simpl in *; lia.
      - rewrite last_tl by lia. exact C. }
    assert (SIall : forall pre o rest, SI R (s_g s) (s_nid s) p pre o rest s' /\ s_rem s' = []).
    { intros pre o rest. eapply site_step_SI; eauto. }
    destruct (SIall [] 0 []) as [[Sg Snb St0 Sold Snx Spv _] _].
    split; [exact Sg|]. split; [exact Snb|]. split; [exact St0|]. split; [exact Sold|]. split.
    - rewrite Forall_forall in *. intros hc Hh. split; [apply Snx; exact Hh|].
      destruct (Spv hc Hh) as [v [Hv [E1 _]]]. rewrite E1. apply HV. exact Hv.
    - intros pre o rest. destruct (SIall pre o rest) as [[_ _ _ _ _ _ Sphi] Er].
      rewrite Er in Sphi. cbn [suml] in Sphi.
      transitivity (TOT R (s_g s) p pre o rest); [rewrite <- Sphi; unfold Phi0, Phi; ring|].
      unfold TOT, p_edges. rewrite suml_map.
      set (F := fun (u : unode) (v : hchain) =>
                  D R (s_g s) pre (u_nidl u) *r ind (u_oid u =? o) *r ind (zlist_eqb (h_oids v) rest)).
      transitivity (W R p F).
      + unfold W. apply suml_ext. intros [e c] He. cbn [fst snd]. unfold Tm, gam.
        destruct Hp as [_ Hnd]. rewrite (gamma_get_In R e c _ Hnd He). reflexivity.
      + rewrite <- HW. unfold Phi0. apply suml_ext. intros hc Hh. unfold F, D, split_u, split_v. cbn [u_nidl u_oid h_oids].
        rewrite Forall_forall in Hnx. destruct (Hnx hc Hh) as [_ [B _]].
        destruct (h_oids (fst hc)) as [|x t]; [simpl in B; lia|]. cbn [hd tl zlist_eqb]. rewrite ind_andb. ring.
  Qed.

  (* ---- the sweep ---- *)
  Variables (L : nat) (idn : Z) (cs : list chain).
  Hypothesis Hcs : Forall (fun c : chain => length (c_oids c) = L) cs.

  Definition REF (x : list Z) : R := suml cs (fun c => c_coeff c *r ind (zlist_eqb (c_oids c ++ [idn]) x)).

  Definition SW (s : st) (t : nat) : Prop :=
    (t <= L)%nat /\
    ginv R (s_g s) (s_nid s) (s_eid s) /\ 1 <= s_nid s /\ g_t0 (s_g s) = 0 /\
    (forall m, m < 1 -> in_edges (s_g s) m = []) /\
    Forall (fun hc : hchain * R => (if Nat.eqb t 0 then 0 else 1) <= h_nidl (fst hc) < s_nid s /\
                                   length (h_oids (fst hc)) = S (L - t) /\ last (h_oids (fst hc)) 0 = idn) (s_next s) /\
    (forall pre rest, length rest = S (L - t) -> Phi0 (s_g s) (s_next s) pre rest = REF (rev pre ++ rest)).

  Lemma REF_len x : length x <> S L -> REF x = 0r.
  Proof.
    intros H. unfold REF. apply suml_zero. intros c Hc. cbv beta. rewrite Forall_forall in Hcs.
    rewrite zlist_eqb_len; [rewrite ind_f; ring|]. rewrite app_length, (Hcs c Hc). simpl. lia.
  Qed.

  Lemma SW_init : SW (mkst init_graph 1 0 (init_next idn cs) []) 0.
  Proof.
    unfold SW. cbn [s_g s_nid s_eid s_next Nat.eqb].
    assert (IE : forall m, in_edges (@init_graph R) m = []).
    { intros m. unfold in_edges, find_node, init_graph. cbn [g_nodes find n_id].
      destruct (0 =? m); [reflexivity|]. destruct (-1 =? m); reflexivity. }
    split; [lia|]. split; [|split; [lia|split; [reflexivity|split; [intros; apply IE|split]]]].
    - split; [|constructor]. unfold init_graph. cbn [g_nodes]. repeat constructor; cbn; lia.
    - unfold init_next. rewrite Forall_map. eapply Forall_impl; [|exact Hcs]. intros c Hc. cbn.
      rewrite app_length, Hc, last_last. simpl. repeat split; lia.
    - intros pre rest Hr. unfold Phi0, init_next. rewrite suml_map. cbn [fst snd h_nidl h_oids].
      destruct pre as [|o pre].
      + unfold REF. cbn [den_to rev app]. apply suml_ext. intros c _. cbv beta. change (0 =? g_t0 (@init_graph R)) with true. cbv iota. ring.
      + cbn [den_to]. rewrite IE. cbn [suml].
        rewrite REF_len by (rewrite app_length, Hr; simpl; rewrite app_length; simpl; lia).
        apply suml_zero. intros c _. cbv beta. ring.
  Qed.

  Lemma SW_step cover s s' t : SW s t -> (t < L)%nat -> site cover s = Ok s' -> SW s' (S t).
  Proof.
    intros [Ht [Hg [Hn [Ht0 [Hie [Hnx HP]]]]]] Hlt Hs.
    assert (EL : (L - t = S (L - S t))%nat) by lia.
    assert (Hnx' : Forall (fun hc : hchain * R => h_nidl (fst hc) < s_nid s /\ length (h_oids (fst hc)) = S (S (L - S t)) /\
                                   last (h_oids (fst hc)) 0 = idn) (s_next s)).
    { eapply Forall_impl; [|exact Hnx]. intros hc [A [B C]]. rewrite <- EL. repeat split; auto; lia. }
    destruct (site_Phi0 cover s s' idn (L - S t) Hg Hnx' Hs) as [G [N [T [I [X P]]]]].
    unfold SW. split; [lia|]. split; [exact G|]. split; [lia|]. split; [congruence|]. split; [|split].
    - intros m Hm. rewrite I by lia. apply Hie. exact Hm.
    - eapply Forall_impl; [|exact X]. intros hc [A [B C]]. cbn [Nat.eqb]. repeat split; auto; lia.
    - intros pre rest Hr. destruct pre as [|o pre].
      + rewrite REF_len by (cbn [rev app]; lia). unfold Phi0. apply suml_zero. intros hc Hh.
        rewrite Forall_forall in X. destruct (X hc Hh) as [A _]. cbn [den_to]. rewrite T, Ht0.
        destruct (h_nidl (fst hc) =? 0) eqn:E; [apply Z.eqb_eq in E; lia|]. ring.
      + rewrite P. rewrite HP by (simpl; lia). f_equal. cbn [rev]. rewrite <- app_assoc. reflexivity.
  Qed.

  Lemma SW_sweep cover : forall n s s' t, SW s t -> (t + n = L)%nat -> sweep cover n s = Ok s' -> SW s' L.
  Proof.
    induction n as [|n IH]; intros s s' t HS Ht H; simpl in H.
    - inversion H; subst. replace L with t by lia. exact HS.
    - destruct (site cover s) as [s1|] eqn:E; [|discriminate]. cbn [bind] in H.
      apply (IH s1 s' (S t)); [eapply SW_step; eauto; lia | lia | exact H].
  Qed.

  (* ---- finish: trailing coefficient, terminal, removal of the dummy node ---- *)
  Lemma find_edge_upd (g : graph) a f x : (forall e, e_id (f e) = e_id e) ->
    find_edge (upd_edge g a f) x = option_map (fun e => if e_id e =? a then f e else e) (find_edge g x).
  Proof.
    intros Hf. unfold find_edge, upd_edge. cbn [g_edges]. induction (g_edges g) as [|e l IH]; simpl; [reflexivity|].
    assert (E : e_id (if e_id e =? a then f e else e) = e_id e) by (destruct (e_id e =? a); auto).
    rewrite E. destruct (e_id e =? x); simpl; auto.
  Qed.

  Lemma opics_coeff_scale o c (l : list (Z * R)) :
    opics_coeff o (map (fun p => (fst p, c *r snd p)) l) = c *r opics_coeff o l.
  Proof.
    unfold opics_coeff. rewrite suml_map. cbn [fst snd]. rewrite <- suml_scal_l. apply suml_ext.
    intros p _. destruct (fst p =? o); ring.
  Qed.

  Lemma find_filter_ne (l : list gnode) m : m <> -1 ->
    find (fun n => n_id n =? m) (filter (fun n => negb (n_id n =? -1)) l) = find (fun n => n_id n =? m) l.
  Proof.
    intros Hm. induction l as [|n l IH]; simpl; [reflexivity|].
    destruct (n_id n =? -1) eqn:E1; simpl.
    - destruct (n_id n =? m) eqn:E2; [apply Z.eqb_eq in E1, E2; congruence | exact IH].
    - destruct (n_id n =? m); [reflexivity | exact IH].
  Qed.
  Lemma in_edges_remove_dummy (g : graph) t1 : in_edges g (-1) = [] ->
    forall m, in_edges (remove_node (mkgraph (g_nodes g) (g_edges g) (g_t0 g) t1) (-1)) m = in_edges g m.
  Proof.
    intros H m.
    assert (EO : forall l, edges_of (remove_node (mkgraph (g_nodes g) (g_edges g) (g_t0 g) t1) (-1)) l = edges_of g l).
    { intros l. apply edges_of_ext. intros; reflexivity. }
    destruct (Z.eq_dec m (-1)) as [->|Hm].
    - rewrite H. unfold in_edges.
      destruct (find_node (remove_node (mkgraph (g_nodes g) (g_edges g) (g_t0 g) t1) (-1)) (-1)) as [n|] eqn:E; [|reflexivity].
      unfold find_node, remove_node in E. cbn [g_nodes] in E.
      apply find_some in E. destruct E as [E1 E2]. apply filter_In in E1. destruct E1 as [_ E1]. rewrite E2 in E1. discriminate.
    - assert (FN : find_node (remove_node (mkgraph (g_nodes g) (g_edges g) (g_t0 g) t1) (-1)) m = find_node g m).
      { unfold find_node, remove_node. cbn [g_nodes]. apply find_filter_ne. exact Hm. }
      unfold in_edges. rewrite FN. destruct (find_node g m); [apply EO|reflexivity].
  Qed.

  Theorem finish_den s g : SW s L -> (1 <= L)%nat -> finish s = Ok g ->
    forall w, den_rev g w = REF (w ++ [idn]).
  Proof.
    intros [_ [Hg [Hn [Ht0 [Hie [Hnx HP]]]]]] HL Hf w. unfold finish in Hf.
    destruct (s_next s) as [|[h c] [|? ?]] eqn:En; try discriminate.
    inversion Hnx as [|? ? [Hh1 [Hh2 Hh3]] _]; subst. cbn [fst] in *.
    replace (Nat.eqb L 0) with false in Hh1 by (symmetry; apply Nat.eqb_neq; lia).
    replace (L - L)%nat with O in * by lia.
    assert (Eo : h_oids h = [idn]).
    { destruct (h_oids h) as [|x [|y l]]; simpl in Hh2; try lia. simpl in Hh3. subst. reflexivity. }
    assert (HP1 : forall pre, c *r den_to (s_g s) pre (h_nidl h) = REF (rev pre ++ [idn])).
    { intros pre. rewrite <- (HP pre [idn] eq_refl). unfold Phi0. cbn [suml fst snd]. rewrite Eo, zlist_eqb_refl, ind_t. gring. }
    unfold den_rev. rewrite <- (rev_involutive w) at 2. rewrite <- HP1.
    set (pre := rev w). clearbody pre.
    destruct (keqb R c 1r) eqn:Ec; cbn [bind] in Hf.
    - apply keqb_spec in Ec. inversion Hf; subst g. cbn [g_t1 remove_node].
      rewrite (den_to_ext R (s_g s)); [rewrite Ec; ring| reflexivity |].
      apply in_edges_remove_dummy. apply Hie. lia.
    - unfold absorb in Hf. destruct (find_node (s_g s) (h_nidl h)) as [n|] eqn:Efn; [|discriminate].
      destruct (n_in n) as [|eid [|? ?]] eqn:Ein; try discriminate.
      destruct (find_edge (s_g s) eid) as [e0|] eqn:Efe; [|discriminate]. cbn [bind] in Hf.
      inversion Hf; subst g. clear Hf. cbn [g_t1 remove_node].
      set (sc := fun e : gedge R => mkedge (e_id e) (e_from e) (e_to e) (map (fun p => (fst p, c *r snd p)) (e_opics e))).
      set (g' := upd_edge (s_g s) eid sc).
      assert (FE : forall x, find_edge g' x = option_map (fun e => if e_id e =? eid then sc e else e) (find_edge (s_g s) x)).
      { intros x. apply find_edge_upd. reflexivity. }
      assert (IEn : in_edges (s_g s) (h_nidl h) = [e0]).
      { unfold in_edges. rewrite Efn, Ein. unfold edges_of. cbn [flat_map]. rewrite Efe. reflexivity. }
      destruct (find_edge_id R _ _ _ Efe) as [Eid0 _].
      (* other nodes do not refer to the edge *)
      assert (Iother : forall m, m < h_nidl h -> in_edges g' m = in_edges (s_g s) m).
      { intros m Hm. unfold in_edges. change (find_node g' m) with (find_node (s_g s) m).
        destruct (find_node (s_g s) m) as [nm|] eqn:Em; [|reflexivity].
        apply edges_of_ext. intros x Hx. rewrite FE. destruct (find_edge (s_g s) x) as [ex|] eqn:Ex; [|reflexivity].
        cbn [option_map]. destruct (e_id ex =? eid) eqn:E; [|reflexivity]. exfalso.
        apply Z.eqb_eq in E. destruct (find_edge_id R _ _ _ Ex) as [Eidx _].
        assert (Hx2 : x = eid) by congruence. rewrite Hx2 in Ex, Hx. rewrite Efe in Ex. inversion Ex; subst ex.
        assert (In e0 (in_edges (s_g s) m)).
        { unfold in_edges. rewrite Em. unfold edges_of. apply in_flat_map. exists eid. split; [exact Hx|]. rewrite Efe. left. reflexivity. }
        pose proof (in_edges_src R _ _ _ _ _ Hg H) as [_ A].
        assert (In e0 (in_edges (s_g s) (h_nidl h))) by (rewrite IEn; left; reflexivity).
        pose proof (in_edges_src R _ _ _ _ _ Hg H0) as [_ B]. lia. }
      rewrite (den_to_ext R g'); [| reflexivity | apply (in_edges_remove_dummy g'); rewrite Iother by lia; apply Hie; lia].
      destruct pre as [|o pre]; cbn [den_to].
      + change (g_t0 g') with (g_t0 (s_g s)). rewrite Ht0.
        destruct (h_nidl h =? 0) eqn:E0; [apply Z.eqb_eq in E0; lia|ring].
      + assert (IEn' : in_edges g' (h_nidl h) = [sc e0]).
        { unfold in_edges. change (find_node g' (h_nidl h)) with (find_node (s_g s) (h_nidl h)). rewrite Efn, Ein.
          unfold edges_of. cbn [flat_map]. rewrite FE, Efe. cbn [option_map]. rewrite Eid0, Z.eqb_refl. reflexivity. }
        rewrite IEn', IEn. cbn [suml]. unfold sc at 1 2. cbn [e_opics e_from]. rewrite opics_coeff_scale.
        assert (Hsrc : e_from e0 < h_nidl h).
        { assert (In e0 (in_edges (s_g s) (h_nidl h))) by (rewrite IEn; left; reflexivity).
          pose proof (in_edges_src R _ _ _ _ _ Hg H) as [A _]. exact A. }
        rewrite (den_to_same R (s_g s) g' _ _ (h_nidl h) Hg eq_refl Iother) by exact Hsrc. ring.
  Qed.
End Main.
