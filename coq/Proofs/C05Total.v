(* C05: construction succeeds and is correct — assembled statements. *)
From Coq Require Import ZArith List Lia Bool.
From PT Require Import Base.Scalar Base.BigSum Model.OpGraph Model.FromOpchains
                       Proofs.DenRev_C05 Proofs.FromOpchainsOk3 Proofs.FromOpchainsCover Proofs.FromOpchainsWF3.
Import ListNotations.
Open Scope Z_scope.

Theorem from_opchains_total (R : cring) cover (chains : list (chain R)) L idn :
  wf_chains L chains = true -> covers_ok R cover chains L idn = true -> (1 <= L)%nat ->
  exists g, from_opchains cover chains L idn = Ok g /\ linked g = true /\ forall w, den g w = chains_den L idn chains w.
Proof.
  intros Hwf Hc HL. destruct (from_opchains_ok R cover chains L idn Hwf Hc HL) as [g Hg].
  exists g. split; [exact Hg|]. apply (from_opchains_den_full R cover chains L idn g HL Hg).
Qed.

Theorem from_opchains_total_model (R : cring) (chains : list (chain R)) L idn :
  wf_chains L chains = true -> (1 <= L)%nat ->
  exists g, from_opchains cover_model chains L idn = Ok g /\ linked g = true /\ forall w, den g w = chains_den L idn chains w.
Proof.
  intros Hwf HL. destruct (from_opchains_ok_model R chains L idn Hwf HL) as [g Hg].
  exists g. split; [exact Hg|]. apply (from_opchains_den_full R cover_model chains L idn g HL Hg).
Qed.

From PT Require Import Proofs.FromOpchainsCons.

(* headline: well-formed chains, the proved model of minimum_vertex_cover, no hypothesis on covers *)
Theorem from_opchains_total_model_cons (R : cring) (chains : list (chain R)) L idn :
  wf_chains L chains = true -> (1 <= L)%nat ->
  exists g, from_opchains cover_model chains L idn = Ok g /\ linked g = true /\
            (forall fuel b, is_consistent_fuel fuel g = Some b -> b = true) /\
            forall w, den g w = chains_den L idn chains w.
Proof.
  intros Hwf HL. destruct (from_opchains_total_model R chains L idn Hwf HL) as [g [Hg [Hl Hd]]].
  exists g. split; [exact Hg|]. split; [exact Hl|]. split; [|exact Hd].
  apply (from_opchains_consistent R cover_model chains L idn g HL Hg).
Qed.
