(* C20: the model of minimum_vertex_cover (Model/Bipartite.v, proved total and optimal in C18) is a CERTIFIED cover oracle
   on every site graph the sweep of from_opchains builds: valid cover, Hopcroft-Karp matching of equal size. *)
From Coq Require Import ZArith List Lia Bool.
From PT Require Import Base.Scalar Base.BigSum Base.Mx Model.OpGraph Model.Bipartite Model.FromOpchains Model.GraphMPO
                       Model.Rewrites Model.Hamiltonians Model.Compact
                       Proofs.BipartiteCert Proofs.BipartiteGraphSem Proofs.BipartiteKonig Proofs.BipartiteTotal
                       Proofs.FromOpchainsPart Proofs.CompactCount.
Import ListNotations.
Open Scope Z_scope.

Lemma NoDup_nodupn' l : NoDup l -> nodupn l = true.
Proof.
  induction 1 as [|x l Hx _ IH]; simpl; [reflexivity|]. rewrite IH, andb_true_r.
  destruct (existsb (Nat.eqb x) l) eqn:E; [|reflexivity]. apply nmem_In' in E. contradiction.
Qed.
Lemma NoDup_map_to_nat' l : NoDup l -> (forall x, In x l -> 0 <= x) -> NoDup (map Z.to_nat l).
Proof.
  induction 1 as [|a l Ha _ IH]; simpl; intros Hp; [constructor|]. constructor.
  - intros Hin. apply in_map_iff in Hin. destruct Hin as [y [Ey Hy]].
    assert (y = a). { pose proof (Hp y (or_intror Hy)). pose proof (Hp a (or_introl eq_refl)). lia. }
    subst. contradiction.
  - apply IH. intros x Hx. apply Hp. right. exact Hx.
Qed.

Theorem cover_model_certified n_u n_v (es : list (nat * nat)) :
  (forall e, In e es -> (fst e < n_u)%nat /\ (snd e < n_v)%nat) ->
  certifiedb n_u n_v es (cover_model n_u n_v es) (matching_model n_u n_v es) = true.
Proof.
  intros Hr. unfold cover_model, matching_model.
  set (esZ := map (fun e : nat * nat => (Z.of_nat (fst e), Z.of_nat (snd e))) es).
  assert (Hok : forall e, In e esZ -> edge_ok n_u n_v e).
  { intros e He. apply in_map_iff in He. destruct He as [[a b] [<- Hab]]. destruct (Hr _ Hab) as [A B]. unfold edge_ok. simpl in *. lia. }
  destruct (mvc_total_mk n_u n_v esZ Hok) as [m [uc [vc [Ehk [Emvc [Hmat [Hcov [Hwf [Hlen _]]]]]]]]].
  cbn zeta in *. rewrite Emvc, Ehk.
  pose proof (mk_bg_nu n_u n_v esZ Hok) as Enu. pose proof (mk_bg_nv n_u n_v esZ Hok) as Env.
  destruct Hwf as [W1 [W2 [_ [_ [W3 [W4 _]]]]]]. rewrite Enu in W1. rewrite Env in W2.
  destruct Hmat as [M1 [M2 M3]].
  assert (Hedge : forall u v, has_edge (mk_bg n_u n_v esZ) u v = true -> 0 <= u /\ 0 <= v /\ In (Z.to_nat u, Z.to_nat v) es).
  { intros u v HE. unfold has_edge, in_range in HE. rewrite Enu, Env in HE. rewrite !andb_true_iff in HE.
    destruct HE as [[[H1 H2] [H3 H4]] H5]. apply Z.leb_le in H1, H3. apply Z.ltb_lt in H2, H4. apply mem_In in H5.
    apply (mk_bg_adj_u n_u n_v esZ Hok) in H5; [|lia]. apply in_map_iff in H5. destruct H5 as [[i j] [E Hij]].
    inversion E; subst. rewrite !Nat2Z.id. repeat split; try lia. exact Hij. }
  unfold certifiedb, valid_coverb, matchingb. cbn [fst snd]. rewrite !andb_true_iff. repeat split.
  - apply NoDup_nodupn', NoDup_map_to_nat'; [exact W3|]. intros x Hx. apply W1 in Hx. lia.
  - apply NoDup_nodupn', NoDup_map_to_nat'; [exact W4|]. intros x Hx. apply W2 in Hx. lia.
  - apply forallb_forall. intros [i j] He. destruct (Hr _ He) as [A B]. cbn [fst snd] in *.
    assert (HE : has_edge (mk_bg n_u n_v esZ) (Z.of_nat i) (Z.of_nat j) = true).
    { unfold has_edge, in_range. rewrite Enu, Env. rewrite !andb_true_iff. repeat split; try (apply Z.leb_le; lia); try (apply Z.ltb_lt; lia).
      apply mem_In. apply (mk_bg_adj_u n_u n_v esZ Hok); [lia|]. apply in_map_iff. exists (i, j). auto. }
    apply orb_true_iff. destruct (Hcov _ _ HE) as [H|H]; [left|right]; apply nmem_In'; apply in_map_iff.
    + exists (Z.of_nat i). split; [apply Nat2Z.id|exact H].
    + exists (Z.of_nat j). split; [apply Nat2Z.id|exact H].
  - apply forallb_forall. intros e He. apply in_map_iff in He. destruct He as [[u v] [<- Huv]]. cbn [fst snd].
    apply pmem_In. apply (Hedge u v). apply (M1 (u, v) Huv).
  - rewrite map_map. cbn [fst]. rewrite <- (map_map fst Z.to_nat). apply NoDup_nodupn', NoDup_map_to_nat'; [exact M2|].
    intros x Hx. apply in_map_iff in Hx. destruct Hx as [[u v] [<- Huv]]. apply (Hedge u v). apply (M1 (u, v) Huv).
  - rewrite map_map. cbn [snd]. rewrite <- (map_map snd Z.to_nat). apply NoDup_nodupn', NoDup_map_to_nat'; [exact M3|].
    intros x Hx. apply in_map_iff in Hx. destruct Hx as [[u v] [<- Huv]]. apply (Hedge u v). apply (M1 (u, v) Huv).
  - apply Nat.eqb_eq. rewrite !map_length. lia.
Qed.

(* every cover answer the model routine gives during any sweep is certified *)
Theorem calls_certified_model (R : cring) : forall n (s : st R), calls_certified cover_model n s.
Proof.
  induction n as [|n IH]; intros s; cbn [calls_certified]; [exact I|]. split.
  - unfold site_call. exists (matching_model (length (p_u (site_partition (s_next s)))) (length (p_v (site_partition (s_next s))))
                                         (p_edges (site_partition (s_next s)))).
    apply cover_model_certified. destruct (site_partition_regroup R (s_next s)) as [[Hr _] _].
    rewrite Forall_forall in Hr. exact Hr.
  - destruct (site cover_model s); [apply IH|exact I].
Qed.

(* the boolean evaluated on the recorded covers in the correspondence check means what it says *)
Lemma calls_certifiedb_sound (R : cring) cover : forall n (s : st R), calls_certifiedb cover n s = true -> calls_certified cover n s.
Proof.
  induction n as [|n IH]; intros s H; cbn [calls_certified calls_certifiedb] in *; [exact I|].
  apply andb_true_iff in H. destruct H as [H1 H2]. split.
  - destruct (site_call s) as [[nu nv] es]. eexists. exact H1.
  - destruct (site cover s); [apply IH; exact H2|exact I].
Qed.
