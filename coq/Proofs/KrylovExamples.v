(* Concrete rational inputs on which the hypotheses of the Krylov theorems hold (non-vacuity):
   A = D Q T Q D^H with Q = I - (2/3) J (a rational reflection), D = diag(1, i, -1), T tridiagonal,
   start vector v = 3 D Q e_0 = (1, -2i, 2): every norm issued by the iteration is rational. *)
From Coq Require Import ZArith QArith Qcanon List Bool Arith Lia PArith.
From PT Require Import Base.Scalar Base.Field Model.Krylov Proofs.KrylovVec Proofs.KrylovLanczos
  Proofs.KrylovArnoldi Proofs.KrylovMatvec.
Import ListNotations.

Definition qq (n : Z) (d : positive) : Qc := Q2Qc (Qmake n d).
(* exact square root of a rational square (numpy.linalg.norm on these inputs) *)
Definition qc_sqrt (q : Qc) : Qc := Q2Qc (Qmake (Z.sqrt (Qnum q)) (Pos.sqrt (Qden q))).
Definition dnorm_ex (x : list (C QcF)) : Qc := qc_sqrt (nrm2 x).
Definition ex_thr : Qc := qq 1 1000000.
Definition ex_small := small_thr QcF ex_thr.

(* T = [[1,2,0],[2,0,1],[0,1,-1]] : full Krylov space *)
Definition ex_A1 : list (list (C QcF)) :=
  [[((qq (-1) 3), (qq 0 1)); ((qq 0 1), (qq (-2) 3)); ((qq (-2) 3), (qq 0 1))];
   [((qq 0 1), (qq 2 3)); ((qq (-4) 3), (qq 0 1)); ((qq 0 1), (qq (-5) 3))];
   [((qq (-2) 3), (qq 0 1)); ((qq 0 1), (qq 5 3)); ((qq 5 3), (qq 0 1))]].
(* T = [[1,2,0],[2,0,0],[0,0,-1]] : the start vector lies in a two-dimensional invariant subspace *)
Definition ex_A2 : list (list (C QcF)) :=
  [[((qq (-11) 9), (qq 0 1)); ((qq 0 1), (qq (-4) 9)); ((qq (-4) 9), (qq 0 1))];
   [((qq 0 1), (qq 4 9)); ((qq (-8) 9), (qq 0 1)); ((qq 0 1), (qq (-10) 9))];
   [((qq (-4) 9), (qq 0 1)); ((qq 0 1), (qq 10 9)); ((qq 19 9), (qq 0 1))]].
Definition ex_v : list (C QcF) := [(qq 1 1, qq 0 1); (qq 0 1, qq (-2) 1); (qq 2 1, qq 0 1)].
(* a non-Hermitian matrix for Arnoldi: upper Hessenberg H0 = [[1,1,2],[2,0,1],[0,1,-1]] in the same basis;
   simplest: use A1 + i*(A1 - A2) which is not Hermitian *)
Definition ex_A3 : list (list (C QcF)) :=
  map (fun rr => map (fun ab => kadd CQ (fst ab) (kmul CQ (qq 0 1, qq 1 1) (ksub CQ (fst ab) (snd ab))))
                     (combine (fst rr) (snd rr))) (combine ex_A1 ex_A2).

Lemma ex_small_sound : small_sound QcF ex_small.
Proof. apply small_thr_sound. vm_compute. reflexivity. Qed.

Lemma ex_v_nonzero : ex_v <> vzero 3.
Proof.
  intros E. apply (f_equal (fun l => match l with (a, _) :: _ => Qnum (this a) | _ => 0%Z end)) in E.
  vm_compute in E. discriminate.
Qed.

Lemma ex1_lanczos :
  exists r, lanczos QcF (matvec ex_A1) dnorm_ex ex_small ex_v 3 = Some r /\
            lanczos_post QcF 3 (matvec ex_A1) 3 r /\ vat QcF (snd (fst r)) 0 = vdivr ex_v (dnorm_ex ex_v).
Proof.
  apply lanczos_spec.
  - apply matvec_len. apply mat_wfb_ok. vm_compute. reflexivity.
  - apply matvec_self_adjoint; [apply mat_wfb_ok|apply hermitianb_ok]; vm_compute; reflexivity.
  - exact ex_small_sound.
  - reflexivity.
  - exact ex_v_nonzero.
  - lia.
  - apply norm_okb_all. vm_compute. reflexivity.
Qed.

Lemma ex2_lanczos :
  exists r, lanczos QcF (matvec ex_A2) dnorm_ex ex_small ex_v 3 = Some r /\
            lanczos_post QcF 3 (matvec ex_A2) 3 r /\ vat QcF (snd (fst r)) 0 = vdivr ex_v (dnorm_ex ex_v).
Proof.
  apply lanczos_spec.
  - apply matvec_len. apply mat_wfb_ok. vm_compute. reflexivity.
  - apply matvec_self_adjoint; [apply mat_wfb_ok|apply hermitianb_ok]; vm_compute; reflexivity.
  - exact ex_small_sound.
  - reflexivity.
  - exact ex_v_nonzero.
  - lia.
  - apply norm_okb_all. vm_compute. reflexivity.
Qed.

Lemma ex3_arnoldi :
  exists cols Vs wn, arnoldi QcF (matvec ex_A3) dnorm_ex ex_small ex_v 2 = Some (hmat (length Vs) cols, Vs, wn) /\
    arnoldi_post QcF 3 (matvec ex_A3) 2 (cols, Vs, wn) /\ vat QcF Vs 0 = vdivr ex_v (dnorm_ex ex_v).
Proof.
  apply arnoldi_spec.
  - apply matvec_len. apply mat_wfb_ok. vm_compute. reflexivity.
  - exact ex_small_sound.
  - reflexivity.
  - exact ex_v_nonzero.
  - lia.
  - apply norm_okb_all. vm_compute. reflexivity.
Qed.
