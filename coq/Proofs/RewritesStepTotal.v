(* C16: one simplification step never fails on a well-formed graph: the guards tested by
   _simplify_step imply every assertion of merge_edges, and the layer loop stops within the fuel. *)
From Coq Require Import ZArith List Lia Bool Permutation.
From PT Require Import Base.Scalar Base.BigSum Model.OpGraph Model.Rewrites
  Proofs.RewritesBase Proofs.RewritesIso Proofs.RewritesRename Proofs.RewritesLevels Proofs.RewritesMergeInv.
Import ListNotations.
Open Scope Z_scope.

Lemma pairs_In (l : list Z) a b : In (a, b) (pairs l) -> In a l /\ In b l.
Proof.
  induction l as [|x t IH]; simpl; intros H; [contradiction|].
  apply in_app_or in H. destruct H as [H|H].
  - apply in_map_iff in H. destruct H as [y [E Hy]]. inversion E; subst. auto.
  - destruct (IH H). auto.
Qed.
Lemma pairs_ne (l : list Z) a b : NoDup l -> In (a, b) (pairs l) -> a <> b.
Proof.
  induction l as [|x t IH]; simpl; intros Hnd H; [contradiction|].
  inversion Hnd as [|? ? Hnotin Hnd']; subst.
  apply in_app_or in H. destruct H as [H|H].
  - apply in_map_iff in H. destruct H as [y [E Hy]]. inversion E; subst. intros ->. contradiction.
  - apply IH; assumption.
Qed.
Lemma dedup_acc_In (l : list Z) : forall acc x,
  In x (fold_left (fun acc x => if zmem x acc then acc else acc ++ [x]) l acc) -> In x acc \/ In x l.
Proof.
  induction l as [|y t IH]; simpl; intros acc x H; [auto|].
  apply IH in H. destruct H as [H|H]; [|auto].
  destruct (zmem y acc); [auto|]. apply in_app_or in H. destruct H as [H|[H|[]]]; auto.
Qed.
Lemma dedup_In (l : list Z) x : In x (dedup l) -> In x l.
Proof. unfold dedup. intros H. apply dedup_acc_In in H. destruct H as [[]|H]. exact H. Qed.
Lemma filter_length_le' {A} (p : A -> bool) (l : list A) : (length (filter p l) <= length l)%nat.
Proof. induction l as [|a l IH]; simpl; [lia|]. destruct (p a); simpl; lia. Qed.
Lemma filter_length_mono {A} (p q : A -> bool) (l : list A) :
  (forall x, q x = true -> p x = true) -> (length (filter q l) <= length (filter p l))%nat.
Proof.
  intros Hqp. induction l as [|a l IH]; simpl; [lia|].
  destruct (q a) eqn:Q.
  - rewrite (Hqp a Q). simpl. lia.
  - destruct (p a); simpl; lia.
Qed.
Lemma filter_length_lt {A} (p q : A -> bool) (l : list A) y :
  (forall x, q x = true -> p x = true) -> In y l -> p y = true -> q y = false ->
  (length (filter q l) < length (filter p l))%nat.
Proof.
  intros Hqp. induction l as [|a l IH]; simpl; intros Hin Py Qy; [contradiction|].
  destruct Hin as [->|Hin].
  - rewrite Py, Qy. simpl. pose proof (filter_length_mono p q l Hqp). lia.
  - specialize (IH Hin Py Qy). destruct (q a) eqn:Q.
    + rewrite (Hqp a Q). simpl. lia.
    + destruct (p a); simpl; lia.
Qed.

Section StepTotal.
  Variable R : cring.
  Notation graph := (graph R).
  Notation gedge := (gedge R).

  (* A: the guards tested by _simplify_step imply all assertions of merge_edges *)
  Lemma mergeable_merge_defined (g : graph) d n a b : WF R g -> (d <= 1)%nat ->
    In n (g_nodes g) -> In (a, b) (pairs (node_eids n (1 - d))) -> mergeable g d (a, b) = true ->
    merge_edges g a b d <> None.
  Proof.
    intros W Hd Hn Hp Hm.
    destruct (wf_ref R g d W Hd) as [ND [RB RC]].
    pose proof (pairs_ne _ a b (ND n Hn) Hp) as Hab.
    destruct (pairs_In _ a b Hp) as [Ia Ib].
    destruct (RB n a Hn Ia) as [e1 [He1 [Ha E1]]].
    destruct (RB n b Hn Ib) as [e2 [He2 [Hb E2]]].
    assert (F1 : find_edge g a = Some e1) by (rewrite <- Ha; apply find_edge_In; [apply W|exact He1]).
    assert (F2 : find_edge g b = Some e2) by (rewrite <- Hb; apply find_edge_In; [apply W|exact He2]).
    assert (Fn : find_node g (n_id n) = Some n) by (apply find_node_In; [apply W|exact Hn]).
    unfold mergeable in Hm. cbn [fst snd] in Hm. rewrite F1, F2 in Hm.
    rewrite (edge_nid_o R e1 d Hd), (edge_nid_o R e2 d Hd) in Hm.
    unfold merge_edges.
    apply Nat.leb_le in Hd. rewrite Hd. cbn [negb option_map]. apply Nat.leb_le in Hd.
    apply Z.eqb_neq in Hab. rewrite Hab. apply Z.eqb_neq in Hab.
    rewrite F1, F2.
    change (edge_nid e1 d) with (end_d R d e1). change (edge_nid e2 d) with (end_d R d e2).
    rewrite (edge_nid_o R e1 d Hd), (edge_nid_o R e2 d Hd).
    rewrite E1, E2, Z.eqb_refl. cbn [negb option_map].
    change (find_node (remove_edge g b) (n_id n)) with (find_node g (n_id n)). rewrite Fn.
    assert (Zb : zmem b (node_eids n (1 - d)) = true) by (apply zmem_In; exact Ib).
    rewrite Zb. cbn [negb option_map].
    set (g2 := upd_node (remove_edge g b) (n_id n) (node_remove_eid b (1 - d))).
    assert (Hfind : forall y, find_node g2 y = option_map (V1 d (n_id n) b) (find_node g y)).
    { intros y. unfold g2. rewrite find_node_upd; [reflexivity|]. intros m. destruct (1 - d)%nat; reflexivity. }
    (* the upstream node of e2 *)
    assert (Hu2 : exists n2, In n2 (g_nodes g) /\ n_id n2 = end_o R d e2).
    { destruct (ends_in_nids R g e2 W He2) as [Hf Ht].
      assert (Hin : In (end_o R d e2) (nids R g)) by (destruct d; simpl; assumption).
      apply in_map_iff in Hin. destruct Hin as [n2 [Hid Hn2]]. exists n2. auto. }
    destruct Hu2 as [n2 [Hn2 Hid2]].
    assert (Fn2 : find_node g (end_o R d e2) = Some n2) by (rewrite <- Hid2; apply find_node_In; [apply W|exact Hn2]).
    assert (Hne2 : n_id n2 <> n_id n).
    { rewrite Hid2, <- E2. intros E. symmetry in E. revert E. apply (ends_ne_d R g e2 d W He2). }
    assert (HV2 : V1 d (n_id n) b n2 = n2) by (unfold V1; apply Z.eqb_neq in Hne2; rewrite Hne2; reflexivity).
    destruct (end_o R d e1 =? end_o R d e2) eqn:Hup.
    - match goal with |- context [find_node ?G (end_o R d e2)] =>
        change (find_node G (end_o R d e2)) with (find_node g2 (end_o R d e2)) end.
      rewrite Hfind, Fn2. cbn [option_map]. rewrite HV2.
      assert (Zu : zmem b (node_eids n2 d) = true).
      { apply zmem_In. rewrite <- Hb. apply (in_list_o R g n2 e2 d W Hd Hn2 He2). congruence. }
      rewrite Zu. cbn [negb]. discriminate.
    - destruct (opics_eqb (e_opics e1) (e_opics e2)) eqn:Hop; cbn [negb] in Hm; [|discriminate].
      cbn [negb]. rewrite !Hfind.
      destruct (find_node g (end_o R d e1)) as [n1|] eqn:Fn1; [|discriminate].
      rewrite Fn2 in Hm. rewrite Fn2. cbn [option_map].
      apply find_node_Some in Fn1. destruct Fn1 as [Hn1 Hid1].
      assert (Hne1 : n_id n1 <> n_id n).
      { rewrite Hid1, <- E1. intros E. symmetry in E. revert E. apply (ends_ne_d R g e1 d W He1). }
      assert (HV1 : V1 d (n_id n) b n1 = n1) by (unfold V1; apply Z.eqb_neq in Hne1; rewrite Hne1; reflexivity).
      rewrite HV1, HV2.
      rewrite !andb_true_iff in Hm. destruct Hm as [[L1 L2] Q].
      rewrite L1, L2, Q. cbn [negb]. discriminate.
  Qed.

  (* B: the layer loop stops within S (number of nodes) iterations *)
  Lemma level_fun (g : graph) d : WF R g -> (d <= 1)%nat ->
    exists s : Z -> Z, forall e, In e (g_edges g) -> s (end_o R d e) = s (end_d R d e) + 1.
  Proof.
    intros W Hd. destruct (wf_layered R g W) as [lv Hlv]. destruct d as [|[|d]]; try lia.
    - exists lv. intros e He. simpl. apply Hlv. exact He.
    - exists (fun x => - lv x). intros e He. simpl. rewrite (Hlv e He). lia.
  Qed.

  Section Loop.
    Variables (g : graph) (d : nat) (s : Z -> Z).
    Hypothesis W : WF R g.
    Hypothesis Hd : (d <= 1)%nat.
    Hypothesis Hs : forall e, In e (g_edges g) -> s (end_o R d e) = s (end_d R d e) + 1.

    Definition mu (l : Z) : nat := length (filter (fun n => l <? s (n_id n)) (g_nodes g)).

    Lemma next_layer_In nids0 l y : (forall x, In x nids0 -> s x = l) ->
      In y (next_layer g d nids0) -> s y = l + 1 /\ In y (nids R g).
    Proof.
      intros Hl Hy. unfold next_layer in Hy. apply dedup_In in Hy. apply in_flat_map in Hy.
      destruct Hy as [x [Hx Hy]]. destruct (find_node g x) as [n|] eqn:Fn; [|contradiction].
      apply find_node_Some in Fn. destruct Fn as [Hn Hid].
      apply in_map_iff in Hy. destruct Hy as [e [Ey He]].
      apply edges_of_In in He. destruct He as [eid [Heid Fe]].
      apply find_edge_Some in Fe. destruct Fe as [He Hide].
      rewrite (edge_nid_o R e d Hd) in Ey. subst y.
      assert (Hend : end_d R d e = n_id n).
      { apply (in_list_iff R g n e d W Hd Hn He). rewrite Hide. exact Heid. }
      split.
      - rewrite (Hs e He), Hend, Hid, (Hl x Hx). reflexivity.
      - destruct (ends_in_nids R g e W He) as [Hf Ht]. destruct d; simpl; assumption.
    Qed.

    Lemma mu_decr l y : In y (nids R g) -> s y = l + 1 -> (mu (l + 1) < mu l)%nat.
    Proof.
      intros Hy Hsy. apply in_map_iff in Hy. destruct Hy as [m [Hid Hm]]. unfold mu.
      apply (filter_length_lt _ _ _ m).
      - intros x Hx. apply Z.ltb_lt in Hx. apply Z.ltb_lt. lia.
      - exact Hm.
      - apply Z.ltb_lt. rewrite Hid. lia.
      - apply Z.ltb_ge. rewrite Hid. lia.
    Qed.

    Lemma simplify_step_fuel_total fuel : forall nids0 l, (mu l < fuel)%nat ->
      (forall x, In x nids0 -> s x = l) -> simplify_step_fuel fuel g d nids0 <> None.
    Proof.
      induction fuel as [|f IH]; intros nids0 l Hmu Hl; [lia|].
      cbn [simplify_step_fuel].
      destruct (layer_pair g d nids0) as [[a b]|] eqn:LP.
      - unfold layer_pair in LP. apply find_some in LP. destruct LP as [Hin Hm].
        unfold layer_pairs in Hin. apply in_flat_map in Hin. destruct Hin as [x [Hx Hp]].
        destruct (find_node g x) as [n|] eqn:Fn; [|contradiction].
        apply find_node_Some in Fn. destruct Fn as [Hn _].
        pose proof (mergeable_merge_defined g d n a b W Hd Hn Hp Hm) as Hdef.
        destruct (merge_edges g a b d); [discriminate|contradiction].
      - destruct (next_layer g d nids0) as [|y t] eqn:NL; [discriminate|].
        assert (Hnext : forall z, In z (y :: t) -> s z = l + 1 /\ In z (nids R g)).
        { intros z Hz. apply (next_layer_In nids0 l z Hl). rewrite NL. exact Hz. }
        apply (IH (y :: t) (l + 1)).
        + destruct (Hnext y (or_introl eq_refl)) as [Hsy Hy]. pose proof (mu_decr l y Hy Hsy). lia.
        + intros z Hz. apply (Hnext z Hz).
    Qed.
  End Loop.

  Lemma simplify_step_total (g : graph) d : (d <= 1)%nat -> WF R g -> simplify_step g d <> None.
  Proof.
    intros Hd W. destruct (level_fun g d W Hd) as [s Hs]. unfold simplify_step.
    apply (simplify_step_fuel_total g d s W Hd Hs _ _ (s (terminal g d))).
    - unfold mu. pose proof (filter_length_le' (fun n => s (terminal g d) <? s (n_id n)) (g_nodes g)). lia.
    - intros x [<-|[]]. reflexivity.
  Qed.
End StepTotal.

Print Assumptions simplify_step_total.
