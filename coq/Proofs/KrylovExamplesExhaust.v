(* Non-vacuity of the exhaustion theorems: ex_A4 (complex Hermitian, rational), start vector (1,-2i,2) in a
   two-dimensional invariant subspace, numiter = 3: the Lanczos / Arnoldi residual at step 1 is EXACTLY zero, the exact
   square-root norm oracle answers 0, the breakdown is signalled, two vectors are returned.
   A concrete operator meeting [E_spec] for a non-constant scalar function: dexp z = 1 + z and E = I + dt A
   (E y = (1 + dt lam) y whenever A y = lam y); the theorems then say expm_krylov returns exactly v + dt A v. *)
From Coq Require Import ZArith QArith Qcanon List Bool Arith Lia PArith Ring.
From PT Require Import Base.Scalar Base.Field Base.BigSum Base.Mx Model.Krylov Proofs.KrylovVec Proofs.KrylovLanczos
  Proofs.KrylovArnoldi Proofs.KrylovMatvec Proofs.KrylovExpm Proofs.KrylovRitz Proofs.KrylovPoly Proofs.KrylovExamples
  Proofs.KrylovExamples15 Proofs.KrylovExhaust Proofs.KrylovExhaustSpec Proofs.KrylovExhaustTop Proofs.KrylovExhaustGen.
Import ListNotations.
Open Scope nat_scope.

Section FirstOrder.
  Variable F : ofield.
  Notation K := (Cx F).
  Add Ring Kring_kfo : (k_rt (Cx F)).
  Notation vec := (list K).
  Notation kz := (k0 K).
  Variable n : nat.
  Variable Afunc : vec -> vec.
  Hypothesis A_len : maps_len F n Afunc.
  Hypothesis A_lin : linear F n Afunc.

  Definition dexp1 (z : K) : K := kadd K (k1 K) z.
  Definition E1 (dt : K) (y : vec) : vec := vadd y (cscale dt (Afunc y)).

  Ltac len := repeat first [assumption | apply length_vadd | apply length_cscale | apply A_len | apply length_vzero].
  Ltac nv := rewrite (nth_vadd F) by (transitivity n; [len|symmetry; len]).

  Lemma E1_spec dt : E_spec F n Afunc dexp1 dt (E1 dt).
  Proof.
    destruct A_lin as (Hadd & Hsc & Hz). unfold E1. split; [split; [|split]|].
    - intros x y Hx Hy. rewrite Hadd by assumption. apply (vec_ext F n); [len|len|].
      intros i Hi. repeat nv. rewrite !(nth_cscale F). nv. ring.
    - intros c x Hx. rewrite Hsc by assumption. apply (vec_ext F n); [len|len|].
      intros i Hi. repeat nv. rewrite !(nth_cscale F). nv. rewrite !(nth_cscale F). ring.
    - rewrite Hz. apply (vec_ext F n); [len|len|].
      intros i Hi. nv. rewrite (nth_cscale F), (nth_vzero F). ring.
    - intros lam y Hy E. rewrite E. apply (vec_ext F n); [len|len|].
      intros i Hi. nv. rewrite !(nth_cscale F). unfold dexp1. ring.
  Qed.
End FirstOrder.

Definition ex_dexp1 : C QcF -> C QcF := dexp1 QcF.
Definition ex_E1 : list (C QcF) -> list (C QcF) := E1 QcF (matvec ex_A4) ex_dt.

Lemma ex5_calls : Forall (norm_ok QcF) (lanczos_calls QcF (matvec ex_A4) dnorm_ex ex_small ex_v 3).
Proof. apply norm_okb_all. vm_compute. reflexivity. Qed.
Lemma ex5_eigh_ok : eigh_oracle_ok QcF (matvec ex_A4) dnorm_ex ex_small deigh_ex ex_v 3.
Proof.
  intros al be Vs wn E. vm_compute in E. injection E as <- <- <- <-.
  apply eigh_okb_ok. vm_compute. reflexivity.
Qed.
Lemma ex5_eigh_sorted : eigh_oracle_sorted QcF (matvec ex_A4) dnorm_ex ex_small deigh_ex ex_v 3.
Proof.
  intros al be Vs wn E. vm_compute in E. injection E as <- <- <- <-.
  apply eigh_sortedb_ok. vm_compute. reflexivity.
Qed.

(* the run: breakdown signalled at step 1, norm answer exactly 0, two vectors *)
Lemma ex5_run : exists al be Vs,
  lanczos QcF (matvec ex_A4) dnorm_ex ex_small ex_v 3 = Some (al, be, Vs, true) /\
  lanczos_last_norm QcF (matvec ex_A4) dnorm_ex be Vs = f0 QcF /\ length Vs = 2.
Proof.
  destruct (lanczos QcF (matvec ex_A4) dnorm_ex ex_small ex_v 3) as [[[[al be] Vs] wn]|] eqn:E.
  - pose proof E as HR. vm_compute in E. injection E as <- <- <- <-.
    eexists. eexists. eexists. split; [reflexivity|]. split; [|reflexivity].
    apply (feqb_spec QcF). vm_compute. reflexivity.
  - vm_compute in E. discriminate.
Qed.

Lemma ex5_AV_VT : exists al be Vs,
  lanczos QcF (matvec ex_A4) dnorm_ex ex_small ex_v 3 = Some (al, be, Vs, true) /\ length Vs = 2 /\
  forall j, j < length Vs -> matvec ex_A4 (vat QcF Vs j) = lincomb 3 (tcol QcF (length Vs) (tri QcF al be) j) Vs.
Proof.
  destruct ex5_run as (al & be & Vs & HR & Hb & Hk). exists al, be, Vs. split; [exact HR|]. split; [exact Hk|].
  exact (proj2 (proj2 (proj2 (proj2
    (lanczos_exact_breakdown_AV_VT QcF 3 (matvec ex_A4) dnorm_ex ex_small ex4_len ex4_sa ex_small_sound ex_v 3 al be Vs
       eq_refl ex_v_nonzero ltac:(lia) ex5_calls HR Hb))))).
Qed.

Lemma ex5_poly : forall p : list (C QcF), exists al be Vs,
  lanczos QcF (matvec ex_A4) dnorm_ex ex_small ex_v 3 = Some (al, be, Vs, true) /\
  pevalA QcF 3 (matvec ex_A4) p ex_v =
  lincomb 3 (pevalT QcF (length Vs) (tri QcF al be) p (cscale (@cof QcF (dnorm_ex ex_v)) (e0 QcF (length Vs)))) Vs.
Proof.
  intros p. destruct ex5_run as (al & be & Vs & HR & Hb & Hk). exists al, be, Vs. split; [exact HR|].
  exact (exhausted_poly_lanczos QcF 3 (matvec ex_A4) dnorm_ex ex_small ex4_len ex4_sa ex_small_sound ex_v 3 al be Vs
           ex4_lin eq_refl ex_v_nonzero ltac:(lia) ex5_calls HR Hb p).
Qed.

Lemma ex5_expm :
  expm_krylov QcF (matvec ex_A4) dnorm_ex ex_small deigh_ex ex_dexp1 (fun M => M) ex_v ex_dt 3 true = Some (ex_E1 ex_v).
Proof.
  destruct ex5_run as (al & be & Vs & HR & Hb & Hk).
  exact (expm_exhausted_breakdown QcF 3 (matvec ex_A4) dnorm_ex ex_small deigh_ex ex_dexp1 (fun M => M)
           ex4_len ex4_lin ex4_sa ex_small_sound ex_v ex_dt 3 ex_E1 al be Vs eq_refl ex_v_nonzero ltac:(lia) ex5_calls
           ex5_eigh_ok ex5_eigh_sorted (E1_spec QcF 3 (matvec ex_A4) ex4_len ex4_lin ex_dt) HR Hb).
Qed.

Lemma ex5_ritz : exists al be Vs,
  lanczos QcF (matvec ex_A4) dnorm_ex ex_small ex_v 3 = Some (al, be, Vs, true) /\
  (exists ws us, eigh_krylov QcF (matvec ex_A4) dnorm_ex ex_small deigh_ex ex_v 3 2 = Some (ws, us) /\
                 ritz_exact_post QcF 3 (matvec ex_A4) ex_v Vs 2 ws us) /\
  ex_v = lincomb 3 (cs_h QcF (snd (deigh_ex al be)) (length Vs) (dnorm_ex ex_v)) (ritzs QcF 3 Vs (snd (deigh_ex al be)) (length Vs)).
Proof.
  destruct ex5_run as (al & be & Vs & HR & Hb & Hk). exists al, be, Vs. split; [exact HR|].
  exact (ritz_exhausted_breakdown QcF 3 (matvec ex_A4) dnorm_ex ex_small deigh_ex
           ex4_len ex4_lin ex4_sa ex_small_sound ex_v 3 2 al be Vs eq_refl ex_v_nonzero ltac:(lia) ex5_calls
           ex5_eigh_ok ex5_eigh_sorted HR Hb).
Qed.

(* ---- general branch: a dense "expm" oracle meeting the contract for dexp1: M |-> I + M ---- *)
Section FirstOrderDense.
  Variable F : ofield.
  Notation K := (Cx F).
  Add Ring Kring_kfd : (k_rt (Cx F)).
  Notation vec := (list K).
  Notation kz := (k0 K).

  Definition idrow (k i : nat) : list K := map (fun j => if Nat.eqb j i then k1 K else kz) (seq 0 k).
  Definition dexpm1 (M : list (list K)) : list (list K) :=
    map (fun i => vadd (idrow (length M) i) (nth i M [])) (seq 0 (length M)).

  Lemma dotu_add_l (x y u : vec) : length x = length y -> dotu (vadd x y) u = kadd K (dotu x u) (dotu y u).
  Proof.
    revert y u; induction x as [|a x IH]; intros [|b y] [|c u] H; cbn [dotu vadd zipw length] in *; try discriminate; try ring.
    fold (vadd x y). rewrite IH by lia. ring.
  Qed.
  Lemma dotu_cscale_l c (x u : vec) : dotu (cscale c x) u = kmul K c (dotu x u).
  Proof.
    revert u; induction x as [|a x IH]; intros [|b u]; cbn [dotu cscale map]; try ring.
    fold (cscale c x). rewrite IH. ring.
  Qed.
  Lemma dotu_idrow k i (u : vec) : length u = k -> i < k -> dotu (idrow k i) u = nth i u kz.
  Proof.
    intros Lu Hi. rewrite (dotu_sumn F k) by (try exact Lu; unfold idrow; rewrite map_length, seq_length; reflexivity).
    rewrite (sumn_ext (Cx F) k _ (fun j => kmul K (if Nat.eqb j i then k1 K else kz) (nth j u kz))).
    - exact (sumn_delta_l (Cx F) k i (fun j => nth j u kz) Hi).
    - intros j Hj. unfold idrow. rewrite nth_map_seq by exact Hj. reflexivity.
  Qed.

  Lemma dexpm1_ok (dt : K) (H : list (list K)) k : length H = k -> (forall i, i < k -> length (nth i H []) = k) ->
    let Em := dexpm1 (map (cscale dt) H) in
    length Em = k /\ (forall i, i < k -> length (nth i Em []) = k) /\
    forall lam u, heig F k H lam u -> matvec Em u = cscale (dexp1 F (kmul K dt lam)) u.
  Proof.
    intros Hk Hrows. set (M := map (cscale dt) H).
    assert (LM : @length (list K) M = k) by (unfold M; rewrite map_length; exact Hk).
    assert (HM : forall i, nth i M [] = cscale dt (nth i H [])).
    { intros i. unfold M. change (@nil K) with (cscale dt (@nil K)) at 1. apply map_nth. }
    clearbody M. intros Em.
    assert (Hrow : forall i, i < k -> nth i Em [] = vadd (idrow k i) (cscale dt (nth i H []))).
    { intros i Hi. unfold Em, dexpm1. transitivity (vadd (idrow (length M) i) (nth i M [])).
      - exact (nth_map_seq [] (length M) (fun i0 => vadd (idrow (length M) i0) (nth i0 M [])) i (eq_ind_r (fun x => i < x) Hi LM)).
      - f_equal; [f_equal; exact LM|apply HM]. }
    assert (Lid : forall i, length (idrow k i) = k) by (intros i; unfold idrow; rewrite map_length, seq_length; reflexivity).
    split; [unfold Em, dexpm1; rewrite map_length, seq_length; exact LM|]. split.
    - intros i Hi. rewrite Hrow by exact Hi. apply length_vadd; [apply Lid|apply length_cscale, Hrows; exact Hi].
    - intros lam u [Lu Eu]. apply (list_eq_nth kz).
      + unfold matvec, cscale, Em, dexpm1. rewrite !map_length, seq_length, LM. symmetry. exact Lu.
      + intros i Hi. unfold matvec in Hi. rewrite map_length in Hi.
        assert (Hi' : i < k) by (unfold Em, dexpm1 in Hi; rewrite map_length, seq_length, LM in Hi; exact Hi).
        rewrite (nth_matvec F), Hrow by exact Hi'.
        rewrite dotu_add_l by (rewrite Lid; symmetry; apply length_cscale, Hrows; exact Hi').
        rewrite dotu_idrow, dotu_cscale_l by assumption.
        rewrite <- (nth_matvec F), Eu, !(nth_cscale F). unfold dexp1. ring.
  Qed.
End FirstOrderDense.

Lemma ex6_calls : Forall (norm_ok QcF) (arnoldi_calls QcF (matvec ex_A4) dnorm_ex ex_small ex_v 3).
Proof. apply norm_okb_all. vm_compute. reflexivity. Qed.

Lemma ex6_run : exists H Vs,
  arnoldi QcF (matvec ex_A4) dnorm_ex ex_small ex_v 3 = Some (H, Vs, true) /\
  arnoldi_last_norm QcF (matvec ex_A4) dnorm_ex Vs = f0 QcF /\ length Vs = 2 /\
  e0_diag QcF H (length Vs).
Proof.
  destruct (arnoldi QcF (matvec ex_A4) dnorm_ex ex_small ex_v 3) as [[[H Vs] wn]|] eqn:E.
  - pose proof E as HR. vm_compute in E. injection E as <- <- <-.
    eexists. eexists. split; [reflexivity|]. split; [apply (feqb_spec QcF); vm_compute; reflexivity|]. split; [reflexivity|].
    exists [(qq 0 1, qq 0 1); (qq 25 1, qq 0 1)],
           [[(qq 3 5, qq 0 1); (qq (-4) 5, qq 0 1)]; [(qq 4 5, qq 0 1); (qq 3 5, qq 0 1)]],
           [(qq 3 5, qq 0 1); (qq 4 5, qq 0 1)].
    split.
    + constructor; [|constructor; [|constructor]]; (split; [reflexivity|apply list_keqb_ok; vm_compute; reflexivity]).
    + apply list_keqb_ok. vm_compute. reflexivity.
  - vm_compute in E. discriminate.
Qed.

Lemma ex6_expm :
  expm_krylov QcF (matvec ex_A4) dnorm_ex ex_small deigh_ex ex_dexp1 (dexpm1 QcF) ex_v ex_dt 3 false = Some (ex_E1 ex_v).
Proof.
  destruct ex6_run as (H & Vs & HR & Hb & Hk & Hd).
  destruct (arnoldi_H_shape QcF (matvec ex_A4) dnorm_ex ex_small ex_v 3 H Vs true HR) as [H_k H_rows].
  exact (expm_exhausted_g_breakdown QcF 3 (matvec ex_A4) dnorm_ex ex_small deigh_ex ex_dexp1 (dexpm1 QcF)
           ex4_len ex4_lin ex_small_sound ex_v ex_dt 3 ex_E1 H Vs eq_refl ex_v_nonzero ltac:(lia) ex6_calls
           (E1_spec QcF 3 (matvec ex_A4) ex4_len ex4_lin ex_dt) HR Hb
           (dexpm1_ok QcF ex_dt H (length Vs) H_k H_rows) Hd).
Qed.
