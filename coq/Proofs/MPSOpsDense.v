(* C03 — as_vector / as_matrix (dense path): pairwise merging from the left followed by row-major flattening
   enumerates the amplitudes in lexicographic word order. *)
From Coq Require Import ZArith List Lia Bool Arith Ring.
From PT Require Import Base.Scalar Base.BigSum Base.Mx Model.Tensor Model.MPSOps Proofs.MPSOpsBase Proofs.MPSOpsMul.
Import ListNotations.

(* ---------- list plumbing ---------- *)
Lemma flat_map_flat_map {A B C} (f : A -> list B) (g : B -> list C) l :
  flat_map g (flat_map f l) = flat_map (fun x => flat_map g (f x)) l.
Proof. induction l as [|x l IH]; simpl; [reflexivity|]. rewrite flat_map_app, IH. reflexivity. Qed.
Lemma map_flat_map {A B C} (f : B -> C) (g : A -> list B) l :
  map f (flat_map g l) = flat_map (fun x => map f (g x)) l.
Proof. induction l as [|x l IH]; simpl; [reflexivity|]. rewrite map_app, IH. reflexivity. Qed.
Lemma flat_map_map {A B C} (f : A -> B) (g : B -> list C) l :
  flat_map g (map f l) = flat_map (fun x => g (f x)) l.
Proof. induction l as [|x l IH]; simpl; [reflexivity|]. rewrite IH. reflexivity. Qed.
Lemma flat_map_ext_in {A B} (f g : A -> list B) l : (forall x, In x l -> f x = g x) -> flat_map f l = flat_map g l.
Proof.
  induction l as [|x l IH]; intros H; simpl; [reflexivity|].
  rewrite (H x) by (left; reflexivity). rewrite IH by (intros; apply H; right; assumption). reflexivity.
Qed.
Lemma flat_map_single {A B} (f : A -> B) l : flat_map (fun x => [f x]) l = map f l.
Proof. induction l as [|x l IH]; simpl; [reflexivity|]. rewrite IH. reflexivity. Qed.
Lemma list_as_tab {A} (dflt : A) l : l = map (fun s => nth s l dflt) (seq 0 (length l)).
Proof.
  apply (list_eq_nth dflt).
  - rewrite map_length, seq_length. reflexivity.
  - intros i Hi. rewrite nth_map_seq by exact Hi. reflexivity.
Qed.

Section Dense.
  Variable R : cring.
  Add Ring Rring_c03dense : (k_rt R).
  Notation "0" := (k0 R). Notation "1" := (k1 R).
  Infix "+" := (kadd R). Infix "*" := (kmul R).
  Notation mx := (mx R).
  Notation site := (site R). Notation osite := (osite R).

  Lemma site_as_tab d (A : site) : length A = d -> A = map (fun s => sel A s) (seq 0 d).
  Proof. intros <-. apply list_as_tab. Qed.

  Lemma site_shape_in d Dl Dr (A : site) M : site_shape d Dl Dr A = true -> In M A -> wf M /\ nr M = Dl /\ nc M = Dr.
  Proof.
    unfold site_shape. rewrite andb_true_iff, forallb_forall. intros [_ H] Hin.
    specialize (H _ Hin). rewrite !andb_true_iff, !Nat.eqb_eq in H. destruct H as [[Hw Hr] Hc].
    split; [apply wfb_wf; exact Hw | split; assumption].
  Qed.

  (* ---------- as_vector ---------- *)
  Lemma fold_merge_mps d (rest : list site) : forall (psi : site) Ds,
    chain_shape d Ds rest = true -> (forall M, In M psi -> wf M /\ nc M = hd 0%nat Ds) ->
    fold_left merge_mps_tensor_pair rest psi =
    flat_map (fun M0 => map (fun w => mulmx M0 (mprod (hd 0%nat Ds) (pick rest w))) (words d (length rest))) psi.
  Proof.
    induction rest as [|A rest IH]; intros psi Ds H Hpsi.
    - destruct Ds as [|D [|? ?]]; try discriminate H. simpl.
      rewrite (flat_map_ext_in _ (fun M0 => [M0])).
      + rewrite flat_map_single, map_id. reflexivity.
      + intros M HM. destruct (Hpsi M HM) as [Hw Hc]. simpl in Hc. rewrite <- Hc, mulmx_1_r by exact Hw. reflexivity.
    - destruct Ds as [|Dl [|Dr Ds]]; [discriminate H | discriminate H |].
      rewrite chain_shape_cons in H. apply andb_true_iff in H. destruct H as [H1 H].
      change (hd 0%nat (Dl :: Dr :: Ds)) with Dl in *.
      change (fold_left merge_mps_tensor_pair (A :: rest) psi)
        with (fold_left merge_mps_tensor_pair rest (merge_mps_tensor_pair psi A)).
      rewrite (IH _ (Dr :: Ds) H).
      2:{ intros M HM. unfold merge_mps_tensor_pair in HM. apply in_flat_map in HM. destruct HM as (M0 & HM0 & HM).
          apply in_map_iff in HM. destruct HM as (M1 & <- & HM1).
          destruct (site_shape_in _ _ _ _ _ H1 HM1) as (_ & _ & Hc). split; [apply wf_mulmx | rewrite nc_mulmx; exact Hc]. }
      change (hd 0%nat (Dr :: Ds)) with Dr.
      unfold merge_mps_tensor_pair. rewrite flat_map_flat_map. apply flat_map_ext_in. intros M0 HM0.
      destruct (Hpsi M0 HM0) as [wM0 cM0].
      pose proof (site_shape_length _ _ _ _ _ H1) as HdA.
      rewrite (site_as_tab d A HdA) at 1. rewrite map_map, flat_map_map.
      change (length (A :: rest)) with (S (length rest)). simpl words. rewrite map_flat_map.
      apply flat_map_ext_in. intros s Hs. apply in_seq in Hs. rewrite map_map.
      apply map_ext_in. intros w Hw. apply words_ok in Hw.
      destruct (site_shape_sel _ _ _ _ _ s H1 ltac:(lia)) as (wA & rA & cA).
      change (pick (A :: rest) (s :: w)) with (sel A s :: pick rest w).
      change (mprod Dl (sel A s :: pick rest w)) with (mulmx (sel A s) (mprod (nc (sel A s)) (pick rest w))).
      rewrite cA. apply mulmx_assoc; [congruence|].
      pose proof (mchain_pick R d (Dr :: Ds) rest w H Hw) as Hc.
      destruct (mprod_shape R _ _ Hc) as [Hr _]. simpl in Hr. congruence.
  Qed.

  Theorem as_vector_amp d Ds (As : list site) :
    chain_shape d Ds As = true -> bdim1 Ds = true -> As <> [] ->
    as_vector As = Some (map (amp As) (words d (length As))).
  Proof.
    intros H H1 Hne. apply bdim1_spec in H1. destruct H1 as [Hh Hl].
    destruct As as [|A rest]; [contradiction|].
    destruct Ds as [|Dl [|Dr Ds]]; [discriminate H | discriminate H |].
    rewrite chain_shape_cons in H. apply andb_true_iff in H. destruct H as [HA H].
    simpl in Hh. subst Dl. rewrite (last_cons_cons 1%nat) in Hl.
    unfold as_vector.
    rewrite (fold_merge_mps d rest A (Dr :: Ds) H).
    2:{ intros M HM. destruct (site_shape_in _ _ _ _ _ HA HM) as (Hw & _ & Hc). split; assumption. }
    change (hd 0%nat (Dr :: Ds)) with Dr.
    pose proof (site_shape_length _ _ _ _ _ HA) as HdA.
    (* every merged block is 1 x 1 *)
    assert (Hall : forallb is1x1
      (flat_map (fun M0 => map (fun w => mulmx M0 (mprod Dr (pick rest w))) (words d (length rest))) A) = true).
    { apply forallb_forall. intros M HM. apply in_flat_map in HM. destruct HM as (M0 & HM0 & HM).
      apply in_map_iff in HM. destruct HM as (w & <- & Hw). apply words_ok in Hw.
      destruct (site_shape_in _ _ _ _ _ HA HM0) as (_ & Hr & _).
      pose proof (mchain_pick R d (Dr :: Ds) rest w H Hw) as Hc.
      destruct (mprod_shape R _ _ Hc) as [_ Hcc]. change (hd 0%nat (Dr :: Ds)) with Dr in Hcc.
      unfold is1x1. rewrite nr_mulmx, nc_mulmx, Hr, Hcc, Hl. reflexivity. }
    rewrite Hall. f_equal.
    rewrite (site_as_tab d A HdA) at 1. rewrite flat_map_map, map_flat_map.
    change (length (A :: rest)) with (S (length rest)). simpl words. rewrite map_flat_map.
    apply flat_map_ext_in. intros s Hs. apply in_seq in Hs. rewrite !map_map.
    apply map_ext_in. intros w Hw.
    destruct (site_shape_sel _ _ _ _ _ s HA ltac:(lia)) as (wA & rA & cA).
    unfold amp. change (pick (A :: rest) (s :: w)) with (sel A s :: pick rest w).
    change (mprod 1 (sel A s :: pick rest w)) with (mulmx (sel A s) (mprod (nc (sel A s)) (pick rest w))).
    rewrite cA. reflexivity.
  Qed.

  (* entry k of the vector is the amplitude of the k-th word *)
  Corollary as_vector_nth d Ds (As : list site) v k :
    chain_shape d Ds As = true -> bdim1 Ds = true -> As <> [] -> as_vector As = Some v ->
    (k < length (words d (length As)))%nat ->
    nth k v 0 = amp As (nth k (words d (length As)) []).
  Proof.
    intros H H1 Hne Hv Hk. rewrite (as_vector_amp d Ds As H H1 Hne) in Hv. injection Hv as <-.
    rewrite (nth_indep _ 0 (amp As [])) by (rewrite map_length; exact Hk). apply map_nth.
  Qed.

  (* ---------- as_matrix, dense path ---------- *)
  Definition merge_row (r0 r1 : list mx) : list mx := flat_map (fun M0 => map (fun M1 => mulmx M0 M1) r1) r0.

  Lemma osite_as_tab d (A : osite) : length A = d -> Forall (fun r => length r = d) A ->
    A = map (fun s => map (fun t => osel A s t) (seq 0 d)) (seq 0 d).
  Proof.
    intros Hd Hr. rewrite (list_as_tab [] A) at 1. rewrite Hd. apply map_ext_in. intros s Hs. apply in_seq in Hs.
    assert (Hl : length (nth s A []) = d).
    { rewrite Forall_forall in Hr. apply Hr. apply nth_In. lia. }
    rewrite (list_as_tab (zeromx 0 0) (nth s A [])) at 1. rewrite Hl. reflexivity.
  Qed.
  Lemma osite_shape_rows d Dl Dr (A : osite) : osite_shape d Dl Dr A = true -> Forall (fun r => length r = d) A.
  Proof.
    unfold osite_shape. rewrite andb_true_iff, forallb_forall. intros [_ H]. apply Forall_forall. intros r Hr.
    eapply site_shape_length. apply H. exact Hr.
  Qed.
  Lemma osite_shape_in d Dl Dr (A : osite) r M : osite_shape d Dl Dr A = true -> In r A -> In M r ->
    wf M /\ nr M = Dl /\ nc M = Dr.
  Proof.
    unfold osite_shape. rewrite andb_true_iff, forallb_forall. intros [_ H] Hr HM.
    eapply site_shape_in; [apply H; exact Hr | exact HM].
  Qed.

  Lemma fold_merge_mpo d (rest : list osite) : forall (Psi : osite) Ds,
    ochain_shape d Ds rest = true -> (forall r M, In r Psi -> In M r -> wf M /\ nc M = hd 0%nat Ds) ->
    fold_left merge_mpo_tensor_pair rest Psi =
    flat_map (fun r0 => map (fun ws =>
      flat_map (fun M0 => map (fun wt => mulmx M0 (mprod (hd 0%nat Ds) (opick rest ws wt))) (words d (length rest))) r0)
      (words d (length rest))) Psi.
  Proof.
    induction rest as [|A rest IH]; intros Psi Ds H HPsi.
    - destruct Ds as [|D [|? ?]]; try discriminate H. simpl.
      rewrite (flat_map_ext_in _ (fun r0 => [r0])).
      + rewrite flat_map_single, map_id. reflexivity.
      + intros r0 Hr0. f_equal. rewrite (flat_map_ext_in _ (fun M0 => [M0])).
        * rewrite flat_map_single, map_id. reflexivity.
        * intros M HM. destruct (HPsi r0 M Hr0 HM) as [Hw Hc]. simpl in Hc.
          rewrite <- Hc, mulmx_1_r by exact Hw. reflexivity.
    - destruct Ds as [|Dl [|Dr Ds]]; [discriminate H | discriminate H |].
      rewrite ochain_shape_cons in H. apply andb_true_iff in H. destruct H as [H1 H].
      change (hd 0%nat (Dl :: Dr :: Ds)) with Dl in *.
      change (fold_left merge_mpo_tensor_pair (A :: rest) Psi)
        with (fold_left merge_mpo_tensor_pair rest (merge_mpo_tensor_pair Psi A)).
      rewrite (IH _ (Dr :: Ds) H).
      2:{ intros r M Hr HM. unfold merge_mpo_tensor_pair in Hr. apply in_flat_map in Hr. destruct Hr as (r0 & Hr0 & Hr).
          apply in_map_iff in Hr. destruct Hr as (r1 & <- & Hr1).
          apply in_flat_map in HM. destruct HM as (M0 & HM0 & HM).
          apply in_map_iff in HM. destruct HM as (M1 & <- & HM1).
          destruct (osite_shape_in _ _ _ _ _ _ H1 Hr1 HM1) as (_ & _ & Hc).
          split; [apply wf_mulmx | rewrite nc_mulmx; exact Hc]. }
      change (hd 0%nat (Dr :: Ds)) with Dr.
      unfold merge_mpo_tensor_pair at 1. rewrite flat_map_flat_map. apply flat_map_ext_in. intros r0 Hr0.
      pose proof (osite_shape_length _ _ _ _ _ H1) as HdA.
      pose proof (osite_shape_rows _ _ _ _ H1) as HrA.
      rewrite (osite_as_tab d A HdA HrA) at 1. rewrite map_map, flat_map_map.
      change (length (A :: rest)) with (S (length rest)). simpl words. rewrite map_flat_map.
      apply flat_map_ext_in. intros s Hs. apply in_seq in Hs. rewrite map_map.
      apply map_ext_in. intros ws Hws. apply words_ok in Hws.
      rewrite flat_map_flat_map. apply flat_map_ext_in. intros M0 HM0.
      destruct (HPsi r0 M0 Hr0 HM0) as [wM0 cM0].
      rewrite map_map, flat_map_map, map_flat_map.
      apply flat_map_ext_in. intros t Ht. apply in_seq in Ht. rewrite map_map.
      apply map_ext_in. intros wt Hwt. apply words_ok in Hwt.
      destruct (osite_shape_osel _ _ _ _ _ s t H1 ltac:(lia) ltac:(lia)) as (wA & rA & cA).
      change (opick (A :: rest) (s :: ws) (t :: wt)) with (osel A s t :: opick rest ws wt).
      change (mprod Dl (osel A s t :: opick rest ws wt))
        with (mulmx (osel A s t) (mprod (nc (osel A s t)) (opick rest ws wt))).
      rewrite cA. apply mulmx_assoc; [congruence|].
      pose proof (mchain_opick R d (Dr :: Ds) rest ws wt H Hws Hwt) as Hc.
      destruct (mprod_shape R _ _ Hc) as [Hr _]. simpl in Hr. congruence.
  Qed.

  (* the dense matrix: row index = word of output indices, column index = word of input indices *)
  Definition opamp_table d (Ws : list osite) : mx :=
    let W := words d (length Ws) in
    mkmx (length W) (length W) (map (fun w => map (fun w' => opamp Ws w w') W) W).

  Theorem as_matrix_opamp d Ds (Ws : list osite) :
    ochain_shape d Ds Ws = true -> bdim1 Ds = true -> Ws <> [] ->
    as_matrix Ws = Some (opamp_table d Ws).
  Proof.
    intros H H1 Hne. apply bdim1_spec in H1. destruct H1 as [Hh Hl].
    destruct Ws as [|A rest]; [contradiction|].
    destruct Ds as [|Dl [|Dr Ds]]; [discriminate H | discriminate H |].
    rewrite ochain_shape_cons in H. apply andb_true_iff in H. destruct H as [HA H].
    simpl in Hh. subst Dl. rewrite (last_cons_cons 1%nat) in Hl.
    unfold as_matrix.
    rewrite (fold_merge_mpo d rest A (Dr :: Ds) H).
    2:{ intros r M Hr HM. destruct (osite_shape_in _ _ _ _ _ _ HA Hr HM) as (Hw & _ & Hc). split; assumption. }
    change (hd 0%nat (Dr :: Ds)) with Dr.
    pose proof (osite_shape_length _ _ _ _ _ HA) as HdA.
    pose proof (osite_shape_rows _ _ _ _ HA) as HrA.
    set (W := words d (length rest)).
    set (W' := words d (length (A :: rest))).
    (* table form of the merged tensor *)
    assert (Etab :
      flat_map (fun r0 => map (fun ws => flat_map (fun M0 => map (fun wt => mulmx M0 (mprod Dr (opick rest ws wt))) W) r0) W) A
      = map (fun w => map (fun w' => mprod 1 (opick (A :: rest) w w')) W') W').
    { rewrite (osite_as_tab d A HdA HrA) at 1. rewrite flat_map_map.
      unfold W'. change (length (A :: rest)) with (S (length rest)). simpl words. fold W.
      rewrite map_flat_map. apply flat_map_ext_in. intros s Hs. apply in_seq in Hs. rewrite map_map.
      apply map_ext_in. intros ws Hws.
      rewrite flat_map_map, map_flat_map. apply flat_map_ext_in. intros t Ht. apply in_seq in Ht. rewrite map_map.
      apply map_ext_in. intros wt Hwt.
      destruct (osite_shape_osel _ _ _ _ _ s t HA ltac:(lia) ltac:(lia)) as (wA & rA & cA).
      change (opick (A :: rest) (s :: ws) (t :: wt)) with (osel A s t :: opick rest ws wt).
      change (mprod 1 (osel A s t :: opick rest ws wt))
        with (mulmx (osel A s t) (mprod (nc (osel A s t)) (opick rest ws wt))).
      rewrite cA. reflexivity. }
    rewrite Etab.
    assert (Hall : forallb (forallb is1x1) (map (fun w => map (fun w' => mprod 1 (opick (A :: rest) w w')) W') W') = true).
    { apply forallb_forall. intros r Hr. apply in_map_iff in Hr. destruct Hr as (w & <- & Hw).
      apply forallb_forall. intros M HM. apply in_map_iff in HM. destruct HM as (w' & <- & Hw').
      apply words_ok in Hw. apply words_ok in Hw'.
      assert (HO : ochain_shape d (1%nat :: Dr :: Ds) (A :: rest) = true)
        by (rewrite ochain_shape_cons, HA, H; reflexivity).
      pose proof (mchain_opick R d _ _ w w' HO Hw Hw') as Hc.
      destruct (mprod_shape R _ _ Hc) as [Hr Hcc]. change (hd 0%nat (1%nat :: Dr :: Ds)) with 1%nat in *.
      rewrite (last_cons_cons 1%nat) in Hcc.
      unfold is1x1. rewrite Hr, Hcc, Hl. reflexivity. }
    rewrite Hall. f_equal. unfold opamp_table. fold W'. f_equal.
    - rewrite map_length. reflexivity.
    - destruct W' as [|w0 W0]; [reflexivity|]. simpl. rewrite map_length. reflexivity.
    - rewrite map_map. apply map_ext. intros w. rewrite map_map. reflexivity.
  Qed.

  Lemma get_opamp_table d (Ws : list osite) k k' :
    (k < length (words d (length Ws)))%nat -> (k' < length (words d (length Ws)))%nat ->
    get (opamp_table d Ws) k k' = opamp Ws (nth k (words d (length Ws)) []) (nth k' (words d (length Ws)) []).
  Proof.
    intros Hk Hk'. unfold opamp_table, get. cbn [dat].
    set (W := words d (length Ws)) in *.
    rewrite (nth_indep _ [] (map (fun w' => opamp Ws [] w') W)) by (rewrite map_length; exact Hk).
    rewrite (map_nth (fun w => map (fun w' => opamp Ws w w') W) W [] k).
    rewrite (nth_indep _ 0 (opamp Ws (nth k W []) [])) by (rewrite map_length; exact Hk').
    apply (map_nth (fun w' => opamp Ws (nth k W []) w') W [] k').
  Qed.
End Dense.

Arguments opamp_table {R} d Ws.
