(* C09 exactness — non-vacuity: a concrete rational instance (L = 2, d = 2, bond dimensions 1, 2, 1 = the complete manifold)
   on which every hypothesis of [tdvp1_exact] holds, with local solvers that really depend on the environment blocks:
     H = sigma^+ (x) sigma^+  as an MPO of bond dimension 1 (H^2 = 0, so exp(tH) = 1 + tH is rational);
     site solver   kexp(t)  A = (A[0] + t * BL[0]^T A[1] BR[0], A[1])      = exp(t * apply_local_hamiltonian BL BR W) A
     bond solver   kexp0(t) C = C + t * BL[0]^T C BR[0]                    = first-order flow of apply_local_bond_contraction
     global flow   G t (v00, v01, v10, v11) = (v00 + t v11, v01, v10, v11) = exp(tH) v;
     QR oracle: Q = a fixed rational rotation, R = Q^H M;  orth oracle: divides the first tensor by 2 and reports 2.
   The contracts (F), (S0), (IL), (IR), (A) (split site m = 1), (G) are PROVED for all arguments, over any cring; the per-call
   QR contracts are evaluated by the kernel on the recorded trace. *)
From Coq Require Import ZArith QArith Qcanon List Bool Lia Ring.
From PT Require Import Base.Scalar Base.BigSum Base.Mx Model.Tensor Model.Operation Model.Sweeps
  Proofs.OperationEntries Proofs.OperationLocal Proofs.SweepsCanon Proofs.SweepsGauge Proofs.SweepsCheck
  Proofs.ReverseDefs Proofs.ReverseMx Proofs.ReverseGauge Proofs.ReverseLocal Proofs.ReverseQR Proofs.ReverseFwd Proofs.ReverseExample
  Proofs.ExactDefs Proofs.ExactMx Proofs.ExactLocal Proofs.ExactRun.
Import ListNotations.
Open Scope nat_scope.

Section ExOracle.
  Variable R : cring.
  Add Ring Rring_exact_ex : (k_rt R).
  Notation mx := (mx R).
  Notation site := (site R).
  Notation env := (env R).
  Infix "*" := (kmul R).

  Definition o1 : mx := tab 1 1 (fun _ _ => k1 R).
  Definition z1 : mx := zeromx 1 1.
  (* W[s][t] = <s| sigma^+ |t> *)
  Definition Wx : osite R := [[z1; o1]; [z1; z1]].
  Definition Hsx : list (osite R) := [Wx; Wx].
  Definition DWx (_ : nat) : nat := 1.

  Lemma Wx_ok : osite_ok 2 1 1 Wx.
  Proof. split; [reflexivity|]. intros s t Hs Ht. destruct s as [|[|s]]; destruct t as [|[|t]]; try lia; split; reflexivity. Qed.
  Lemma get_o1 : get o1 0 0 = k1 R. Proof. unfold o1. apply get_tab; lia. Qed.
  Lemma get_z1 : get z1 0 0 = k0 R. Proof. apply get_zeromx. Qed.

  Lemma wenv1_inv Da Db (E : env) : wenv 1 Da Db E -> E = [esel E 0] /\ wmx Da Db (esel E 0).
  Proof.
    intros [Hl H]. destruct E as [|E0 [|? ?]]; cbn [length] in Hl; try discriminate. split; [reflexivity|].
    inversion H; subst. assumption.
  Qed.
  Lemma wenv1_mk Da Db (M : mx) : wmx Da Db M -> wenv 1 Da Db [M].
  Proof. intros H. split; [reflexivity|]. constructor; [exact H|constructor]. Qed.

  (* the two environment updates for this operator *)
  Lemma stepL_x Dl Dr (A : site) (E : env) : wsite 2 Dl Dr A -> wenv 1 Dl Dl E ->
    contraction_operator_step_left A A Wx E = [mulmx (trmx (sel A 1)) (mulmx (esel E 0) (conjmx (sel A 0)))].
  Proof.
    intros HA HE.
    destruct (site_ok_sdl R 2 Dl Dr A ltac:(lia) (wsite_ok R _ _ _ _ HA)) as (E1 & E2 & E3).
    apply (wenv_ext R 1 Dr Dr).
    - pose proof (wenv_opstep_left R A A Wx E) as H. rewrite E2 in H. exact H.
    - apply wenv1_mk. apply wmx_mulmx; [rewrite nr_trmx; destruct (wsite_sel R _ _ _ _ 1 HA ltac:(lia)) as (_ & _ & h); exact h|].
      rewrite nc_mulmx, nc_conjmx. destruct (wsite_sel R _ _ _ _ 0 HA ltac:(lia)) as (_ & _ & h); exact h.
    - intros w c' c Hw Hc' Hc. assert (w = 0) by lia. subst w.
      rewrite (mform_opstep_left R 2 Dl Dr Dl Dr 1 1) by (try lia; try assumption; try apply Wx_ok; try (apply wsite_ok; exact HA); apply wenv_ok; exact HE).
      cbn [sumn osel Wx nth esel]. rewrite get_o1, !get_z1. ring.
  Qed.
  Lemma stepR_x Dl Dr (B : site) (E : env) : wsite 2 Dl Dr B -> wenv 1 Dr Dr E ->
    contraction_operator_step_right B B Wx E = [mulmx (mulmx (sel B 1) (esel E 0)) (adjmx (sel B 0))].
  Proof.
    intros HB HE.
    destruct (site_ok_sdl R 2 Dl Dr B ltac:(lia) (wsite_ok R _ _ _ _ HB)) as (E1 & E2 & E3).
    apply (wenv_ext R 1 Dl Dl).
    - pose proof (wenv_opstep_right R B B Wx E) as H. rewrite E1 in H. exact H.
    - apply wenv1_mk. apply wmx_mulmx; [rewrite nr_mulmx; destruct (wsite_sel R _ _ _ _ 1 HB ltac:(lia)) as (_ & h & _); exact h|].
      rewrite nc_adjmx. destruct (wsite_sel R _ _ _ _ 0 HB ltac:(lia)) as (_ & h & _); exact h.
    - intros w a b Hw Ha Hb. assert (w = 0) by lia. subst w.
      rewrite (mform_opstep_right R 2 Dl Dr Dl Dr 1 1) by (try lia; try assumption; try apply Wx_ok; try (apply wsite_ok; exact HB); apply wenv_ok; exact HE).
      cbn [sumn osel Wx nth esel]. rewrite get_o1, !get_z1. ring.
  Qed.

  (* ---------------- the solvers ---------------- *)
  Definition kexp_x : kexp_t R := fun _ BL BR _ A t =>
    [addmx (sel A 0) (scalemx t (mulmx (trmx (esel BL 0)) (mulmx (sel A 1) (esel BR 0)))); sel A 1].
  Definition kexp0_x : kexp0_t R := fun _ BL BR C t =>
    addmx C (scalemx t (mulmx (trmx (esel BL 0)) (mulmx C (esel BR 0)))).
  Definition Gx (t : R) (v : list R) : list R :=
    match v with [a; b; c; e] => [kadd R a (t * e); b; c; e] | _ => v end.

  Lemma sel2_0 (X Y : mx) : sel [X; Y] 0 = X. Proof. reflexivity. Qed.
  Lemma sel2_1 (X Y : mx) : sel [X; Y] 1 = Y. Proof. reflexivity. Qed.
  Lemma wsite2_sel Dl Dr (A : site) : wsite 2 Dl Dr A -> A = [sel A 0; sel A 1] /\ wmx Dl Dr (sel A 0) /\ wmx Dl Dr (sel A 1).
  Proof. intros HA. destruct (wsite2_inv R Dl Dr A HA) as (A0 & A1 & -> & H0 & H1). auto. Qed.

  Variable Ds : nat -> nat.

  Lemma kexp_x_flow : kexp_flowH Hsx 2 Ds DWx kexp_x.
  Proof.
    intros i p p' p'' BL BR A s t Hi HA HBL HBR. unfold DWx in *.
    destruct (wsite2_sel _ _ A HA) as (_ & H0 & H1). destruct (wenv1_inv _ _ BL HBL) as (_ & HL0). destruct (wenv1_inv _ _ BR HBR) as (_ & HR0).
    set (M := mulmx (trmx (esel BL 0)) (mulmx (sel A 1) (esel BR 0))).
    assert (HM : wmx (Ds i) (Ds (S i)) M).
    { apply wmx_mulmx; [rewrite nr_trmx; exact (proj2 (proj2 HL0))|rewrite nc_mulmx; exact (proj2 (proj2 HR0))]. }
    unfold kexp_x. fold M. split; [|split].
    - apply wsite2_mk; [apply wmx_addmx; exact H0|exact H1].
    - rewrite (proj1 (wsite2_sel _ _ A HA)) at 3. f_equal.
      apply (lin_ext R _ _ (Ds i) (Ds (S i))); [apply wmx_addmx; exact H0|exact H0|].
      destruct H0 as (a0 & a1 & a2). destruct HM as (b0 & b1 & b2).
      intros a c Ha Hc. rewrite get_addmx, get_scalemx by lia. ring.
    - rewrite !sel2_0, !sel2_1. fold M. f_equal.
      apply (lin_ext R _ _ (Ds i) (Ds (S i))); [apply wmx_addmx; apply wmx_addmx; exact H0|apply wmx_addmx; exact H0|].
      destruct H0 as (a0 & a1 & a2). destruct HM as (b0 & b1 & b2).
      intros a c Ha Hc. rewrite !get_addmx, !get_scalemx by (rewrite ?nr_addmx, ?nc_addmx; lia). ring.
  Qed.

  Lemma kexp0_x_shape : kexp0_shape Hsx Ds DWx kexp0_x.
  Proof. intros i p BL BR C t Hi HC HBL HBR. unfold kexp0_x. apply wmx_addmx. exact HC. Qed.

  Lemma addmx_scale_mul_l (P X M : mx) t : nc P = nr X -> nr X = nr M -> nc X = nc M ->
    mulmx P (addmx X (scalemx t M)) = addmx (mulmx P X) (scalemx t (mulmx P M)).
  Proof.
    intros H1 H2 H3. rewrite mulmx_addmx_r by (rewrite ?nr_scalemx, ?nc_scalemx; congruence).
    rewrite mulmx_scalemx_r by congruence. reflexivity.
  Qed.
  Lemma addmx_scale_mul_r (P X M : mx) t : nc X = nr P -> nr X = nr M -> nc X = nc M ->
    mulmx (addmx X (scalemx t M)) P = addmx (mulmx X P) (scalemx t (mulmx M P)).
  Proof.
    intros H1 H2 H3. rewrite mulmx_addmx_l by (rewrite ?nr_scalemx, ?nc_scalemx; congruence).
    rewrite mulmx_scalemx_l. reflexivity.
  Qed.

  Lemma kexp_x_IL : intertwine_left Hsx 2 Ds DWx kexp_x kexp0_x.
  Proof.
    intros i p p' BL BR Q C t Hi HQ [_ Hco] HC HBL HBR. unfold DWx in *.
    assert (EW : nth i Hsx [] = Wx) by (destruct i as [|[|i]]; [reflexivity|reflexivity|cbn [Hsx length] in Hi; lia]). rewrite EW.
    destruct (wsite2_sel _ _ Q HQ) as (EQ & (q00 & q01 & q02) & (q10 & q11 & q12)).
    destruct (wenv1_inv _ _ BL HBL) as (_ & (l0 & l1 & l2)). destruct (wenv1_inv _ _ BR HBR) as (_ & (r0 & r1 & r2)).
    destruct HC as (c0 & c1 & c2).
    rewrite (stepL_x (Ds i) (Ds (S i)) Q BL HQ HBL).
    unfold kexp_x, kexp0_x. cbn [esel nth].
    set (Q0 := sel Q 0) in *. set (Q1 := sel Q 1) in *. set (L0 := esel BL 0) in *. set (R0 := esel BR 0) in *.
    unfold rmul_site. rewrite !(sel_map_w R (fun M => mulmx M C)) by (rewrite (proj1 HQ); lia). fold Q0 Q1.
    rewrite EQ at 1. cbn [map].
    (* the transposed new left block *)
    assert (ET : trmx (mulmx (trmx Q1) (mulmx L0 (conjmx Q0))) = mulmx (mulmx (adjmx Q0) (trmx L0)) Q1).
    { rewrite trmx_mulmx by shp. rewrite trmx_mulmx by shp. rewrite trmx_conjmx, trmx_trmx by exact q10. reflexivity. }
    rewrite ET.
    pose proof (lcoiso_mx R 2 (Ds i) (Ds (S i)) Q 0 0 ltac:(lia) HQ Hco ltac:(lia) ltac:(lia)) as U00. cbn [Nat.eqb] in U00. fold Q0 in U00.
    pose proof (lcoiso_mx R 2 (Ds i) (Ds (S i)) Q 1 0 ltac:(lia) HQ Hco ltac:(lia) ltac:(lia)) as U10. cbn [Nat.eqb] in U10. fold Q0 Q1 in U10.
    set (T := mulmx (mulmx (mulmx (adjmx Q0) (trmx L0)) Q1) (mulmx C R0)).
    assert (E0 : mulmx Q0 T = mulmx (trmx L0) (mulmx (mulmx Q1 C) R0)).
    { unfold T. repeat rewrite <- mulmx_assoc by shp. rewrite U00.
      rewrite <- l2 at 1. rewrite <- (nr_trmx R L0). rewrite mulmx_1_l by apply wf_trmx. reflexivity. }
    assert (E1 : mulmx Q1 T = zeromx (Ds i) (Ds (S i))).
    { unfold T. repeat rewrite <- mulmx_assoc by shp. rewrite U10.
      rewrite !mulmx_zero_l by shp. f_equal; shp. }
    f_equal; [|f_equal].
    - rewrite addmx_scale_mul_l by (unfold T; shp). fold T. rewrite E0. reflexivity.
    - rewrite addmx_scale_mul_l by (unfold T; shp). fold T. rewrite E1, scalemx_zero.
      transitivity (addmx (mulmx Q1 C) (zeromx (nr (mulmx Q1 C)) (nc (mulmx Q1 C)))); [|f_equal; f_equal; shp].
      symmetry. apply addmx_zero_r. apply wf_mulmx.
  Qed.

  Lemma kexp_x_IR : intertwine_right Hsx 2 Ds DWx kexp_x kexp0_x.
  Proof.
    intros i p p' BL BR B C t Hi HB [_ Hco] HC HBL HBR. unfold DWx in *.
    assert (EW : nth i Hsx [] = Wx) by (destruct i as [|[|i]]; [reflexivity|reflexivity|cbn [Hsx length] in Hi; lia]). rewrite EW.
    destruct (wsite2_sel _ _ B HB) as (EB & (b00 & b01 & b02) & (b10 & b11 & b12)).
    destruct (wenv1_inv _ _ BL HBL) as (_ & (l0 & l1 & l2)). destruct (wenv1_inv _ _ BR HBR) as (_ & (r0 & r1 & r2)).
    destruct HC as (c0 & c1 & c2).
    rewrite (stepR_x (Ds i) (Ds (S i)) B BR HB HBR).
    unfold kexp_x, kexp0_x. cbn [esel nth].
    set (B0 := sel B 0) in *. set (B1 := sel B 1) in *. set (L0 := esel BL 0) in *. set (R0 := esel BR 0) in *.
    unfold lmul_site. rewrite !(sel_map_w R (mulmx C)) by (rewrite (proj1 HB); lia). fold B0 B1.
    rewrite EB at 1. cbn [map].
    pose proof (rcoiso_mx R 2 (Ds i) (Ds (S i)) B 0 0 ltac:(lia) HB Hco ltac:(lia) ltac:(lia)) as U00. cbn [Nat.eqb] in U00. fold B0 in U00.
    pose proof (rcoiso_mx R 2 (Ds i) (Ds (S i)) B 1 0 ltac:(lia) HB Hco ltac:(lia) ltac:(lia)) as U10. cbn [Nat.eqb] in U10. fold B0 B1 in U10.
    set (T := mulmx (trmx L0) (mulmx C (mulmx (mulmx B1 R0) (adjmx B0)))).
    assert (E0 : mulmx T B0 = mulmx (trmx L0) (mulmx (mulmx C B1) R0)).
    { unfold T. repeat rewrite mulmx_assoc by shp. rewrite U00.
      rewrite <- r2 at 1. rewrite mulmx_1_r by exact r0. reflexivity. }
    assert (E1 : mulmx T B1 = zeromx (Ds i) (Ds (S i))).
    { unfold T. repeat rewrite mulmx_assoc by shp. rewrite U10.
      rewrite !mulmx_zero_r by shp. f_equal; shp. }
    f_equal; [|f_equal].
    - rewrite addmx_scale_mul_r by (unfold T; shp). fold T. rewrite E0. reflexivity.
    - rewrite addmx_scale_mul_r by (unfold T; shp). fold T. rewrite E1, scalemx_zero.
      transitivity (addmx (mulmx C B1) (zeromx (nr (mulmx C B1)) (nc (mulmx C B1)))); [|f_equal; f_equal; shp].
      symmetry. apply addmx_zero_r. apply wf_mulmx.
  Qed.


  (* the solvers are the first-order (= exact, the local operators being nilpotent) exponentials of the model's local operators *)
  Lemma alh_x Dl Dr (BL BR : env) (A : site) : wsite 2 Dl Dr A -> wenv 1 Dl Dl BL -> wenv 1 Dr Dr BR ->
    apply_local_hamiltonian BL BR Wx A = [mulmx (trmx (esel BL 0)) (mulmx (sel A 1) (esel BR 0)); zeromx Dl Dr].
  Proof.
    intros HA HBL HBR. destruct (wenv1_inv _ _ BL HBL) as (_ & (l0 & l1 & l2)). destruct (wenv1_inv _ _ BR HBR) as (_ & (r0 & r1 & r2)).
    apply (wsite_ext R 2 Dl Dr).
    - apply (wsite_alh R 2 Dl Dr 1 1); try lia; try assumption. apply Wx_ok.
    - apply wsite2_mk; [apply wmx_mulmx; shp|split; [apply wf_zeromx|split; reflexivity]].
    - intros s b c Hs Hb Hc.
      rewrite (mform_local_hamiltonian R 2 Dl Dr Dl Dr 1 1) by (try lia; try assumption; try apply Wx_ok; try (apply wsite_ok; exact HA); apply wenv_ok; assumption).
      destruct s as [|[|s]]; [| |lia]; cbn [sumn osel Wx nth sel]; rewrite ?get_o1, ?get_z1, ?get_zeromx; ring.
  Qed.
  Lemma albc_x Dl Dr (BL BR : env) (C : mx) : wmx Dl Dr C -> wenv 1 Dl Dl BL -> wenv 1 Dr Dr BR ->
    apply_local_bond_contraction BL BR C = mulmx (trmx (esel BL 0)) (mulmx C (esel BR 0)).
  Proof.
    intros (c0 & c1 & c2) HBL HBR. destruct (wenv1_inv _ _ BL HBL) as (_ & (l0 & l1 & l2)). destruct (wenv1_inv _ _ BR HBR) as (_ & (r0 & r1 & r2)).
    destruct (wmx_albc R Dl Dr 1 BL BR C ltac:(lia) HBL HBR) as (k0' & k1' & k2').
    apply mx_ext; [exact k0'|apply wf_mulmx|shp|shp|]. rewrite k1', k2'. intros b c Hb Hc.
    rewrite (mform_local_bond R Dl Dr Dl Dr 1) by (try lia; try assumption; apply wenv_ok; assumption).
    cbn [sumn]. ring.
  Qed.

  (* ---------------- (A) at the split site m = 1 and (G) ---------------- *)
  Definition a2 (A0 Z : site) (s0 s1 : nat) : R := get (mulmx (sel A0 s0) (sel Z s1)) 0 0.
  Lemma dense2 D (A0 Z : site) : wsite 2 D 1 Z ->
    dense 2 2 [A0; Z] = [a2 A0 Z 0 0; a2 A0 Z 0 1; a2 A0 Z 1 0; a2 A0 Z 1 1].
  Proof.
    intros HZ. unfold dense. change (words 2 2) with [[0; 0]; [0; 1]; [1; 0]; [1; 1]]. cbn [map]. unfold amp, a2. cbn [pick mprod].
    destruct (wsite_sel R _ _ _ _ 0 HZ ltac:(lia)) as (z0 & _ & _). destruct (wsite_sel R _ _ _ _ 1 HZ ltac:(lia)) as (z1' & _ & _).
    rewrite !mulmx_1_r by assumption. reflexivity.
  Qed.

  Lemma Gx_flow : G_flow Hsx 2 Gx.
  Proof.
    intros As. unfold dense. cbn [Hsx length]. change (words 2 2) with [[0; 0]; [0; 1]; [1; 0]; [1; 1]]. cbn [map]. unfold Gx.
    split; [f_equal; ring|]. intros s t. f_equal. ring.
  Qed.

  Lemma kexp_x_global : Ds 0 = 1 -> Ds 2 = 1 -> kexp_global Hsx 2 Ds Gx 1 kexp_x.
  Proof.
    intros D0 D2 As EL ER p X t lA Hsh HX Hlu Hru EL0 ELr ERl ERr. cbn [Hsx length] in *.
    destruct As as [|A0 [|A1' [|? ?]]]; try discriminate. cbn [lset].
    pose proof (Hsh 0 ltac:(lia)) as HA0. cbn [nth] in HA0. destruct (Hlu 0 ltac:(lia)) as [_ Hco]. cbn [nth] in Hco.
    pose proof (ELr 0 ltac:(lia)) as E1. cbn [nth Hsx] in E1. change (nth 1 Hsx []) with Wx. cbn [Nat.sub] in ERl.
    rewrite EL0 in E1. rewrite D0 in HA0.
    rewrite (stepL_x 1 (Ds 1) A0 env_one HA0 (wenv_one R)) in E1. rewrite E1, ERl. rewrite D2 in HX.
    destruct (wsite2_sel _ _ X HX) as (EX & (x00 & x01 & x02) & (x10 & x11 & x12)).
    destruct (wsite2_sel _ _ A0 HA0) as (_ & (a00 & a01 & a02) & (a10 & a11 & a12)).
    unfold kexp_x. cbn [esel nth]. change (esel (@env_one R) 0) with (@idmx R 1).
    set (A00 := sel A0 0) in *. set (A01 := sel A0 1) in *. set (X0 := sel X 0) in *. set (X1 := sel X 1) in *.
    assert (EM : mulmx (trmx (mulmx (trmx A01) (mulmx (idmx 1) (conjmx A00)))) (mulmx X1 (idmx 1)) = mulmx (mulmx (adjmx A00) A01) X1).
    { rewrite <- x12 at 2. rewrite mulmx_1_r by exact x10.
      rewrite <- a01 at 1. rewrite <- (nr_conjmx R A00). rewrite mulmx_1_l by apply wf_conjmx.
      rewrite trmx_mulmx by shp. rewrite trmx_conjmx, trmx_trmx by exact a10. reflexivity. }
    rewrite EM. set (M := mulmx (mulmx (adjmx A00) A01) X1).
    assert (HY : wsite 2 (Ds 1) 1 [addmx X0 (scalemx t M); X1]).
    { apply wsite2_mk; [apply wmx_addmx|]; repeat split; assumption. }
    rewrite (dense2 (Ds 1) A0 _ HY), (dense2 (Ds 1) A0 X HX). unfold Gx, a2. rewrite !sel2_0, !sel2_1. fold A00 A01 X0 X1.
    pose proof (lcoiso_mx R 2 1 (Ds 1) A0 0 0 ltac:(lia) HA0 Hco ltac:(lia) ltac:(lia)) as U00. cbn [Nat.eqb] in U00. fold A00 in U00.
    pose proof (lcoiso_mx R 2 1 (Ds 1) A0 1 0 ltac:(lia) HA0 Hco ltac:(lia) ltac:(lia)) as U10. cbn [Nat.eqb] in U10. fold A00 A01 in U10.
    assert (E0 : mulmx A00 M = mulmx A01 X1).
    { unfold M. repeat rewrite <- mulmx_assoc by shp. rewrite U00. rewrite <- a11 at 1. rewrite mulmx_1_l by exact a10. reflexivity. }
    assert (E1' : mulmx A01 M = zeromx 1 1).
    { unfold M. repeat rewrite <- mulmx_assoc by shp. rewrite U10. rewrite !mulmx_zero_l by shp. f_equal; shp. }
    rewrite !addmx_scale_mul_l by (unfold M; shp). rewrite E0, E1'.
    rewrite !get_addmx, !get_scalemx by (rewrite ?nr_mulmx, ?nc_mulmx, ?nr_zeromx, ?nc_zeromx; lia). rewrite get_zeromx.
    replace (kadd R (get (mulmx A01 X0) 0 0) (t * k0 R)) with (get (mulmx A01 X0) 0 0) by ring. reflexivity.
  Qed.
End ExOracle.

(* ---------------- the rational instance ---------------- *)
Definition e_W : osite Qcring := Wx Qcring.
Definition e_H : mpo Qcring := mkmpo [0; 0]%Z [[0]; [0]; [0]]%Z [e_W; e_W].
Definition e_A0 : site Qcring := [xm 1 2 [[xq 1 1; xq 2 1]]; xm 1 2 [[xq (-1) 1; xq 1 1]]].
Definition e_A1 : site Qcring := [xm 2 1 [[xq 1 1]; [xq 3 1]]; xm 2 1 [[xq 2 1]; [xq 1 1]]].
Definition e_Psi : mps Qcring := mkmps [0; 0]%Z [[0]; [0; 0]; [0]]%Z [e_A0; e_A1].
Definition e_dt : Qcring := xq 1 3.
Definition e_hdt : Qcring := xq 1 6.
Definition e_rot : mx Qcring := xm 2 2 [[xq 3 5; xq 4 5]; [xq (-4) 5; xq 3 5]].
Definition e_qr (_ : nat) (M : mx Qcring) (_ q1 : list Z) : mx Qcring * mx Qcring * list Z := (e_rot, mulmx (adjmx e_rot) M, q1).
Definition e_steps : nat := 2.

Definition row_orthb (Q : mx Qcring) : bool :=
  forallb (fun i => forallb (fun i' => keqb Qcring
    (sumn (nc Q) (fun c => kmul Qcring (get Q i c) (kconj Qcring (get Q i' c)))) (if Nat.eqb i i' then k1 Qcring else k0 Qcring))
    (seq 0 (nr Q))) (seq 0 (nr Q)).
Lemma row_orthb_ok Q : row_orthb Q = true -> row_orth Q.
Proof.
  unfold row_orthb, row_orth. intros H i i' Hi Hi'.
  rewrite forallb_forall in H. specialize (H i ltac:(apply in_seq; lia)).
  rewrite forallb_forall in H. specialize (H i' ltac:(apply in_seq; lia)). apply keqb_spec. exact H.
Qed.
Definition e_call_okb (p : nat) (t : tcall Qcring) : bool :=
  match c_kind (t_call t), t_ten t, t_qs t with
  | QR, [[M]], [q0; q1] =>
      let ans := e_qr p M q0 q1 in
      qr_okb M ans && wfb (snd (fst ans)) && Nat.eqb (nr (snd (fst ans))) (nc M) && (negb (Nat.eqb (nr M) (nc M)) || row_orthb (fst (fst ans)))
  | _, _, _ => true
  end.
Fixpoint e_tr_okb (tr : list (tcall Qcring)) : bool :=
  match tr with [] => true | t :: rest => e_call_okb (length rest) t && e_tr_okb rest end.
Lemma e_tr_okb_ok tr : e_tr_okb tr = true -> ex_tr_ok e_qr tr.
Proof.
  induction tr as [|t rest IH]; [intros _; exact I|]. cbn [e_tr_okb ex_tr_ok]. rewrite andb_true_iff. intros [H1 H2].
  split; [|exact (IH H2)]. clear IH H2. unfold ex_call_ok, e_call_okb in *.
  destruct t as [[k i c] envs ten qs]. cbn [t_call c_kind c_site c_coef t_envs t_ten t_qs] in *.
  destruct k; try exact I.
  destruct ten as [|[|M [|? ?]] [|? ?]]; try exact I. destruct qs as [|q0 [|q1 [|? ?]]]; try exact I.
  cbv zeta in H1. rewrite !andb_true_iff, Nat.eqb_eq in H1. destruct H1 as [[[h1 h2] h3] h4].
  split; [apply qr_okb_ok; exact h1|]. split; [apply wfb_wf; exact h2|]. split; [exact h3|].
  intros Hsq. apply row_orthb_ok. rewrite orb_true_iff, negb_true_iff, Nat.eqb_neq in h4. destruct h4 as [h4|h4]; [contradiction|exact h4].
Qed.

Definition e_run : option x_res :=
  tdvp_singlesite x_orth e_qr (kexp_x Qcring) (kexp0_x Qcring) e_H e_Psi e_dt e_hdt e_steps.
Lemma e_run_some : is_some e_run = true. Proof. vm_compute. reflexivity. Qed.
Lemma e_tr_ok : e_tr_okb (rev (rt e_run)) = true. Proof. vm_compute. reflexivity. Qed.
Lemma e_shapes : forallb (fun j => site_shape 2 (xDs j) (xDs (S j)) (nth j (m_A (fst (x_orth e_Psi))) [])) [0; 1] = true.
Proof. vm_compute. reflexivity. Qed.
Lemma e_hdt2 : kadd Qcring e_hdt e_hdt = e_dt. Proof. apply keqb_spec. vm_compute. reflexivity. Qed.

Theorem e_exact :
  rn e_run = snd (x_orth e_Psi) /\
  dense 2 2 (rA e_run) = Gx Qcring (nmul e_steps e_dt) (dense 2 2 (m_A (fst (x_orth e_Psi)))).
Proof.
  pose proof e_shapes as Hs. cbn [forallb] in Hs. rewrite !andb_true_iff in Hs. destruct Hs as (s0 & s1 & _).
  apply (tdvp1_exact Qcring x_orth e_qr (kexp_x Qcring) (kexp0_x Qcring) e_H e_Psi e_dt e_hdt e_steps 2 xDs (DWx) 1 (Gx Qcring)
           (rA e_run) (rq e_run) (rn e_run) (rt e_run)).
  - exact (some_proj e_run e_run_some).
  - lia.
  - intros j Hj. cbn [e_H o_A length] in Hj. destruct j as [|[|j]]; [exact (Wx_ok Qcring)|exact (Wx_ok Qcring)|lia].
  - intros j. unfold DWx. lia.
  - reflexivity.
  - reflexivity.
  - split; [reflexivity|]. split; [reflexivity|]. split; [cbn [e_H o_A length]; lia|]. split.
    + intros j Hj. assert (j = 0) by lia. subst j. reflexivity.
    + intros j Hj. cbn [e_H o_A length] in Hj. lia.
  - exact e_hdt2.
  - exact (kexp_x_flow Qcring xDs).
  - exact (kexp0_x_shape Qcring xDs).
  - exact (kexp_x_IL Qcring xDs).
  - exact (kexp_x_IR Qcring xDs).
  - exact (kexp_x_global Qcring xDs eq_refl eq_refl).
  - exact (Gx_flow Qcring).
  - intros j Hj. cbn [e_H o_A length] in Hj. destruct j as [|[|j]]; [exact (site_shape_w Qcring 2 1 2 _ s0)|exact (site_shape_w Qcring 2 2 1 _ s1)|lia].
  - intros j Hj. cbn [e_H o_A length] in Hj. lia.
  - exact (e_tr_okb_ok _ e_tr_ok).
Qed.

(* the run is not trivial: the dense state after the run differs from the normalised start state, the kernel computes the same
   conclusion, the reported number is 2, and 18 calls were traced (the QR oracle is a genuine rotation) *)
Lemma e_nontrivial :
  negb (list_eqb (keqb Qcring) (dense 2 2 (rA e_run)) (dense 2 2 (m_A (fst (x_orth e_Psi))))) &&
  list_eqb (keqb Qcring) (dense 2 2 (rA e_run)) (Gx Qcring (nmul e_steps e_dt) (dense 2 2 (m_A (fst (x_orth e_Psi))))) &&
  keqb Qcring (rn e_run) (xq 2 1) && Nat.eqb (length (rt e_run)) 18 = true.
Proof. vm_compute. reflexivity. Qed.
