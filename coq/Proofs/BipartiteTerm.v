(* Termination of the Hopcroft-Karp mirror within its fuels:
   - [dfs] never exhausts its depth fuel nu+2 (dist strictly increases along the recursion and is <= inf = nu+1),
   - a failing [dfs] marks only vertices without a layered path to NIL, so every phase after a successful BFS
     augments at least once, the number of matched vertices strictly increases, and [outer] needs at most nu+1 rounds.
   Together with BipartiteBFS/BipartiteMax: HopcroftKarp() always returns, and returns a maximum matching. *)
From Coq Require Import ZArith List Bool Lia.
From PT Require Import Model.Bipartite Proofs.BipartiteCert Proofs.BipartiteGraphSem Proofs.BipartiteHK
                       Proofs.BipartiteBFS Proofs.BipartiteMax.
Import ListNotations.
Open Scope Z_scope.

Lemma filter_mono_length {A} (R R' : A -> bool) (l : list A) :
  (forall x, In x l -> R x = true -> R' x = true) -> (length (filter R l) <= length (filter R' l))%nat.
Proof.
  induction l as [|a l IH]; intros H; simpl; [lia|].
  assert (IH' : (length (filter R l) <= length (filter R' l))%nat) by (apply IH; intros x Hx; apply H; right; exact Hx).
  pose proof (H a (or_introl eq_refl)) as Ha.
  destruct (R a) eqn:E1, (R' a) eqn:E2; simpl; lia.
Qed.

Lemma filter_gain_length {A} (R R' : A -> bool) (a : A) (l : list A) :
  (forall x, In x l -> R x = true -> R' x = true) -> In a l -> R a = false -> R' a = true ->
  (length (filter R l) + 1 <= length (filter R' l))%nat.
Proof.
  induction l as [|x l IH]; intros H Hin Ha Ha'; [contradiction|]. simpl.
  assert (Hm : (length (filter R l) <= length (filter R' l))%nat)
    by (apply filter_mono_length; intros y Hy; apply H; right; exact Hy).
  destruct Hin as [->|Hin].
  - rewrite Ha, Ha'. simpl. lia.
  - assert (IH' : (length (filter R l) + 1 <= length (filter R' l))%nat)
      by (apply IH; try assumption; intros y Hy; apply H; right; exact Hy).
    pose proof (H x (or_introl eq_refl)) as Hx.
    destruct (R x) eqn:E1, (R' x) eqn:E2; simpl; lia.
Qed.

Section Term.
  Variable g : bg.
  Hypothesis Hadj : adj_ok g.

  Definition dist_ok (s : hk) : Prop :=
    length (dist s) = (nu g + 1)%nat /\ forall w, -1 <= w < Z.of_nat (nu g) -> 0 <= dget (dist s) w <= inf g.

  Lemma dist_ok_dpres s s' : dist_ok s -> dpres g (dist s) (dist s') -> dist_ok s'.
  Proof.
    intros [L R] [L' H]. split; [congruence|]. intros w Hw.
    destruct (H w) as [E|E]; rewrite E; [apply R; exact Hw|unfold inf; lia].
  Qed.

  Lemma range_cases u : -1 <= u < Z.of_nat (nu g) -> u = -1 \/ 0 <= u < Z.of_nat (nu g).
  Proof. intros H. destruct (Z.eq_dec u (-1)); [left; assumption|right; lia]. Qed.

  (* ---------- dfs never runs out of fuel ---------- *)

  Lemma dfs_loop_total f
    (IHf : forall s u, Inv g s -> dist_ok s -> -1 <= u < Z.of_nat (nu g) ->
                       inf g - dget (dist s) u < Z.of_nat f -> exists r, dfs g f s u = Some r)
    u (Hu : 0 <= u < Z.of_nat (nu g)) :
    forall vs, incl vs (adj_u g u) -> forall si, Inv g si -> dist_ok si ->
      inf g - dget (dist si) u < Z.of_nat (S f) -> exists r, dfs_loop g (dfs g f) u vs si = Some r.
  Proof.
    induction vs as [|v vs IH]; intros Hincl si Hi Hd Hfuel.
    - eexists. reflexivity.
    - cbn [dfs_loop].
      assert (Hv : In v (adj_u g u)) by (apply Hincl; left; reflexivity).
      assert (Hincl' : incl vs (adj_u g u)) by (intros x Hx; apply Hincl; right; exact Hx).
      destruct (dget (dist si) (zget (mv si) v) =? dget (dist si) u + 1) eqn:E.
      + apply Z.eqb_eq in E. pose proof (mv_range g Hadj si Hi u v Hv) as Hr.
        destruct (IHf si (zget (mv si) v) Hi Hd Hr) as [[s' b] Er]; [lia|]. rewrite Er.
        destruct b; [eexists; reflexivity|].
        destruct (dfs_ok g Hadj f si _ (s', false) Hi (range_cases _ Hr) Er) as [_ [Hdp [_ [Hfalse _]]]].
        cbn [fst snd] in *. destruct (Hfalse eq_refl) as [E1 E2].
        apply IH; [exact Hincl'|apply (Inv_ext g si); assumption|apply (dist_ok_dpres si); assumption|].
        destruct Hdp as [_ Hc]. destruct (Hc u) as [Ec|Ec]; rewrite Ec; lia.
      + apply IH; assumption.
  Qed.

  Lemma dfs_total : forall f s u, Inv g s -> dist_ok s -> -1 <= u < Z.of_nat (nu g) ->
    inf g - dget (dist s) u < Z.of_nat f -> exists r, dfs g f s u = Some r.
  Proof.
    induction f as [|f IHf]; intros s u Hi Hd Hu Hfuel.
    - destruct Hd as [_ R]. specialize (R u Hu). simpl in Hfuel. lia.
    - rewrite dfs_S. destruct (Z.eqb_spec u (-1)) as [E|E]; [eexists; reflexivity|].
      apply (dfs_loop_total f IHf u); try assumption; [lia|apply incl_refl].
  Qed.

  (* ---------- a failing dfs only removes vertices that cannot reach NIL in the layered graph ---------- *)

  Inductive Reach (s : hk) : Z -> Prop :=
  | R_nil : Reach s (-1)
  | R_step u v : 0 <= u < Z.of_nat (nu g) -> In v (adj_u g u) ->
      dget (dist s) (zget (mv s) v) = dget (dist s) u + 1 -> Reach s (zget (mv s) v) -> Reach s u.

  Lemma Reach_range s w : Reach s w -> -1 <= w < Z.of_nat (nu g).
  Proof. intros H. destruct H; lia. Qed.

  Lemma Reach_transfer s s' : mu s' = mu s -> mv s' = mv s ->
    (forall w, Reach s w -> dget (dist s') w = dget (dist s) w) -> forall w, Reach s w -> Reach s' w.
  Proof.
    intros Emu Emv T w H. induction H as [|u v Hu Hv Hd Hr IH]; [constructor|].
    rewrite <- Emv in IH. apply (R_step s' u v Hu Hv); [|exact IH].
    rewrite Emv. rewrite (T _ Hr). rewrite (T u (R_step s u v Hu Hv Hd Hr)). exact Hd.
  Qed.

  Definition fail_spec (s : hk) (u : Z) (s' : hk) : Prop :=
    ~ Reach s u /\ forall w, Reach s w -> dget (dist s') w = dget (dist s) w.

  Lemma dfs_loop_fail f
    (IHf : forall s u s', Inv g s -> -1 <= u < Z.of_nat (nu g) -> dfs g f s u = Some (s', false) -> fail_spec s u s')
    s u (Hu : 0 <= u < Z.of_nat (nu g)) :
    forall vs, incl vs (adj_u g u) -> forall si s', Inv g si -> mu si = mu s -> mv si = mv s ->
      (forall w, Reach s w -> dget (dist si) w = dget (dist s) w) -> dget (dist si) u = dget (dist s) u ->
      dfs_loop g (dfs g f) u vs si = Some (s', false) ->
      (forall v, In v vs -> dget (dist s) (zget (mv s) v) = dget (dist s) u + 1 -> Reach s (zget (mv s) v) -> False) /\
      (forall w, w <> u -> Reach s w -> dget (dist s') w = dget (dist s) w).
  Proof.
    induction vs as [|v vs IH]; intros Hincl si s' Hi Emu Emv T Tu Hr.
    - simpl in Hr. injection Hr as <-. cbn [dist]. split; [intros v []|].
      intros w Hne Hw. pose proof (Reach_range s w Hw). rewrite dget_dset_other by lia. apply T. exact Hw.
    - cbn [dfs_loop] in Hr.
      assert (Hv : In v (adj_u g u)) by (apply Hincl; left; reflexivity).
      assert (Hincl' : incl vs (adj_u g u)) by (intros x Hx; apply Hincl; right; exact Hx).
      pose proof (mv_range g Hadj si Hi u v Hv) as Hur.
      destruct (dget (dist si) (zget (mv si) v) =? dget (dist si) u + 1) eqn:E.
      + apply Z.eqb_eq in E. destruct (dfs g f si (zget (mv si) v)) as [[s1 b]|] eqn:Er; [|discriminate].
        destruct b; [discriminate|].
        destruct (IHf si _ s1 Hi Hur Er) as [Hnr Hkeep].
        destruct (dfs_ok g Hadj f si _ (s1, false) Hi (range_cases _ Hur) Er) as [Hfr [_ [_ [Hfalse _]]]].
        cbn [fst snd] in *. destruct (Hfalse eq_refl) as [E1 E2].
        assert (Htr : forall w, Reach s w -> Reach si w) by (apply Reach_transfer; assumption).
        destruct (IH Hincl' s1 s') as [L1 L2]; try congruence.
        * apply (Inv_ext g si); assumption.
        * intros w Hw. rewrite (Hkeep w (Htr w Hw)). apply T. exact Hw.
        * rewrite <- Tu. apply Hfr; [lia| |lia]. intros Heq. rewrite <- Heq in E. lia.
        * split; [|exact L2]. intros x [<-|Hx]; [|apply L1; exact Hx]. intros _ Hreach.
          apply Hnr. rewrite Emv. apply Htr. exact Hreach.
      + apply Z.eqb_neq in E. destruct (IH Hincl' si s') as [L1 L2]; try assumption.
        split; [|exact L2]. intros x [<-|Hx]; [|apply L1; exact Hx]. intros Hd Hreach.
        apply E. rewrite Emv, (T _ Hreach), Tu. exact Hd.
  Qed.

  Lemma dfs_fail : forall f s u s', Inv g s -> -1 <= u < Z.of_nat (nu g) ->
    dfs g f s u = Some (s', false) -> fail_spec s u s'.
  Proof.
    induction f as [|f IHf]; intros s u s' Hi Hu Hr; [discriminate|].
    rewrite dfs_S in Hr. destruct (Z.eqb_spec u (-1)) as [E|E]; [discriminate|].
    assert (Hu' : 0 <= u < Z.of_nat (nu g)) by lia.
    destruct (dfs_loop_fail f IHf s u Hu' (adj_u g u) (incl_refl _) s s' Hi eq_refl eq_refl
                (fun w _ => eq_refl) eq_refl Hr) as [L1 L2].
    assert (Hnr : ~ Reach s u).
    { intros H. inversion H as [E0|u0 v Hu0 Hv Hd Hrv E0]; [lia|]. subst u0. exact (L1 v Hv Hd Hrv). }
    split; [exact Hnr|]. intros w Hw. apply L2; [|exact Hw]. intros ->. contradiction.
  Qed.

  (* ---------- every phase after a successful BFS augments ---------- *)

  Definition count (s : hk) : nat := length (filter (fun u => negb (zget (mu s) u =? -1)) (us g)).

  Lemma count_le s : (count s <= nu g)%nat.
  Proof.
    unfold count. pose proof (us_length g) as Hl.
    pose proof (filter_length_split (fun u => negb (zget (mu s) u =? -1)) (us g)) as Hs.
    set (a := length (filter (fun u => negb (zget (mu s) u =? -1)) (us g))) in *. clearbody a.
    set (b := length (filter (fun x => negb (negb (zget (mu s) x =? -1))) (us g))) in *. clearbody b. lia.
  Qed.

  Lemma count_ext s s' : mu s' = mu s -> count s' = count s.
  Proof. unfold count. intros ->. reflexivity. Qed.

  Lemma count_matching s : length (mu s) = nu g -> length (matching_of g s) = count s.
  Proof. apply matching_of_length. Qed.

  (* a free root with a layered path to NIL exists whenever the BFS reached NIL *)
  Lemma reach_root s0 s1 : BI g s0 (dist s1) [] (-2) -> mu s1 = mu s0 -> mv s1 = mv s0 ->
    forall k w, -1 <= w < Z.of_nat (nu g) -> dget (dist s1) w = Z.of_nat k -> Z.of_nat k < inf g -> Reach s1 w ->
    exists u0, 0 <= u0 < Z.of_nat (nu g) /\ zget (mu s1) u0 = -1 /\ Reach s1 u0.
  Proof.
    intros HB Emu Emv. induction k as [|k IH]; intros w Hw Ed Hlt Hr.
    - destruct (b_zero g s0 _ _ _ HB w Hw Ed) as [H0 Hfree]. exists w. rewrite Emu. split; [lia|split; assumption].
    - destruct (b_pred g s0 _ _ _ HB w Hw) as [p [vp [Hp [Hvp [Emp Ep]]]]]; [lia|].
      apply (IH p); [lia|lia|lia|]. apply (R_step s1 p vp Hp Hvp); rewrite Emv, Emp; [lia|exact Hr].
  Qed.

  Definition progress (s1 : hk) (u0 : Z) (l : list Z) (s : hk) : Prop :=
    (count s1 < count s)%nat \/
    (mu s = mu s1 /\ mv s = mv s1 /\ (forall w, Reach s1 w -> dget (dist s) w = dget (dist s1) w) /\ In u0 l).

  Lemma phase_fold_total s1 u0 : zget (mu s1) u0 = -1 -> Reach s1 u0 ->
    forall l, incl l (us g) -> forall s, Inv2 g s -> dist_ok s -> (count s1 <= count s)%nat -> progress s1 u0 l s ->
    exists s', fold_left (phase_step g) l (Some s) = Some s' /\ (count s1 < count s')%nat.
  Proof.
    intros Hfree0 Hreach0. induction l as [|u l IH]; intros Hincl s Hi2 Hd Hle Hp.
    - exists s. split; [reflexivity|]. destruct Hp as [H|[_ [_ [_ []]]]]. exact H.
    - assert (Hu : 0 <= u < Z.of_nat (nu g)) by (apply us_In; apply Hincl; left; reflexivity).
      assert (Hincl' : incl l (us g)) by (intros x Hx; apply Hincl; right; exact Hx).
      cbn [fold_left phase_step]. destruct Hi2 as [Hi Hl].
      destruct (zget (mu s) u =? -1) eqn:E.
      + apply Z.eqb_eq in E.
        destruct (dfs_total (nu g + 2) s u Hi Hd) as [[s2 b] Er]; [lia| |].
        { destruct Hd as [_ R]. specialize (R u). unfold inf. lia. }
        rewrite Er. cbn [option_map fst].
        destruct (dfs_ok g Hadj _ s u (s2, b) Hi (or_intror Hu) Er) as [_ [Hdp [Hkeep [Hfalse [_ Htrue]]]]].
        cbn [fst snd] in *.
        assert (Hi2' : Inv2 g s2) by (apply (dfs_root_ok2 g Hadj (nu g + 2)%nat s u s2 b); [split| | |]; assumption).
        assert (Hd' : dist_ok s2) by (apply (dist_ok_dpres s); assumption).
        assert (Hmono : (count s <= count s2)%nat).
        { unfold count. apply filter_mono_length. intros x Hx Hm. apply us_In in Hx.
          apply negb_true_iff in Hm. apply Z.eqb_neq in Hm. apply negb_true_iff. apply Z.eqb_neq.
          apply Hkeep; assumption. }
        apply (IH Hincl' s2 Hi2' Hd'); [lia|].
        destruct b.
        * left. destruct (Htrue eq_refl) as [_ [_ [_ [_ [Hm _]]]]]; [lia|].
          assert (Hg : (count s + 1 <= count s2)%nat).
          { unfold count. apply (filter_gain_length _ _ u).
            - intros x Hx Hmx. apply us_In in Hx.
              apply negb_true_iff in Hmx. apply Z.eqb_neq in Hmx. apply negb_true_iff. apply Z.eqb_neq.
              apply Hkeep; assumption.
            - apply us_In. exact Hu.
            - rewrite E. reflexivity.
            - apply negb_true_iff. apply Z.eqb_neq. exact Hm. }
          lia.
        * destruct (Hfalse eq_refl) as [E1 E2].
          destruct Hp as [H|[Emu [Emv [T Hin]]]]; [left; rewrite (count_ext s s2 E1); exact H|right].
          assert (Htr : forall w, Reach s1 w -> Reach s w) by (apply Reach_transfer; assumption).
          destruct (dfs_fail _ s u s2 Hi (ltac:(lia)) Er) as [Hnr Hkeep2].
          split; [congruence|split; [congruence|split]].
          -- intros w Hw. rewrite (Hkeep2 w (Htr w Hw)). apply T. exact Hw.
          -- destruct Hin as [<-|Hin]; [|exact Hin]. exfalso. apply Hnr. apply Htr. exact Hreach0.
      + apply Z.eqb_neq in E. apply (IH Hincl' s); [split; assumption|exact Hd|exact Hle|].
        destruct Hp as [H|[Emu [Emv [T Hin]]]]; [left; exact H|right].
        split; [exact Emu|split; [exact Emv|split; [exact T|]]].
        destruct Hin as [<-|Hin]; [|exact Hin]. rewrite Emu in E. contradiction.
  Qed.

  Lemma BI_dist_ok s0 s1 : BI g s0 (dist s1) [] (-2) -> dist_ok s1.
  Proof. intros HB. split; [apply (b_len g s0 _ _ _ HB)|apply (b_rng g s0 _ _ _ HB)]. Qed.

  Lemma phase_total s0 s1 : Inv2 g s0 -> bfs g s0 = Some (s1, true) ->
    exists s2, phase g s1 = Some s2 /\ (count s0 < count s2)%nat.
  Proof.
    intros Hi0 Hb. destruct (bfs_Inv2 g Hadj s0 s1 true Hi0 Hb) as [Hi1 [HB [Eb [Emu Emv]]]].
    assert (Hfin : dget (dist s1) (-1) < inf g).
    { symmetry in Eb. apply negb_true_iff in Eb. apply Z.eqb_neq in Eb.
      pose proof (b_rng g s0 _ _ _ HB (-1)). lia. }
    pose proof (b_rng g s0 _ _ _ HB (-1)) as Hr.
    destruct (reach_root s0 s1 HB Emu Emv (Z.to_nat (dget (dist s1) (-1))) (-1)) as [u0 [Hu0 [Hfree0 Hreach0]]];
      [lia|lia|lia|constructor|].
    destruct (phase_fold_total s1 u0 Hfree0 Hreach0 (us g) (incl_refl _) s1 Hi1 (BI_dist_ok s0 s1 HB) (le_n _))
      as [s2 [Hf Hc]].
    - right. split; [reflexivity|split; [reflexivity|split; [intros; reflexivity|apply us_In; exact Hu0]]].
    - exists s2. split; [exact Hf|]. rewrite <- (count_ext s0 s1 Emu). exact Hc.
  Qed.

  (* ---------- the outer loop ---------- *)

  Lemma outer_total : forall f s, Inv2 g s -> (nu g + 1 <= f + count s)%nat -> exists s', outer g f s = Some s'.
  Proof.
    induction f as [|f IH]; intros s Hi Hf.
    - pose proof (count_le s). lia.
    - cbn [outer]. destruct Hi as [Hi Hl].
      destruct (bfs_ok g Hadj s Hi Hl) as [s1 [b [Hb _]]]. rewrite Hb.
      destruct b; [|eexists; reflexivity].
      destruct (phase_total s s1 (conj Hi Hl) Hb) as [s2 [Hp Hc]]. rewrite Hp.
      apply IH; [|lia].
      destruct (bfs_Inv2 g Hadj s s1 true (conj Hi Hl) Hb) as [Hi1 _]. apply (phase_ok2 g Hadj s1); assumption.
  Qed.

  (* HopcroftKarp() terminates on every graph (no fuel is exhausted) and returns a maximum matching. *)
  Theorem hk_total_maximum :
    exists m, hopcroft_karp g = Some m /\ Matching g m /\ forall m', Matching g m' -> (length m' <= length m)%nat.
  Proof.
    destruct (outer_total (nu g + 2) (hk_init g) (Inv2_init g)) as [s' Ho]; [lia|].
    exists (matching_of g s'). assert (H : hopcroft_karp g = Some (matching_of g s')).
    { rewrite hopcroft_karp_unfold, Ho. reflexivity. }
    split; [exact H|]. apply (hk_maximum g Hadj). exact H.
  Qed.
End Term.

Theorem hk_total_maximum_mk n_u n_v edges : (forall e, In e edges -> edge_ok n_u n_v e) ->
  exists m, hopcroft_karp (mk_bg n_u n_v edges) = Some m /\ Matching (mk_bg n_u n_v edges) m /\
            forall m', Matching (mk_bg n_u n_v edges) m' -> (length m' <= length m)%nat.
Proof. intros Hok. apply hk_total_maximum. apply mk_bg_adj_ok. exact Hok. Qed.
