(* C05 (b), part 1: the site-partition regrouping lemma for _site_partition_halfchains:
   a sum over the half-chains equals the sum over the edges (i, j) of the bipartite graph of
   gamma(i,j) * F(ulist[i], vlist[j]). *)
From Coq Require Import ZArith List Lia Bool Ring.
From PT Require Import Base.Scalar Base.BigSum Model.OpGraph Model.FromOpchains.
Import ListNotations.
Open Scope Z_scope.

Lemma zlist_eqb_eq a b : zlist_eqb a b = true <-> a = b.
Proof.
  revert b; induction a as [|x a IH]; intros [|y b]; simpl; try (split; discriminate); [tauto|].
  rewrite andb_true_iff, Z.eqb_eq, IH. split; [intros [-> ->]; reflexivity | intros H; inversion H; auto].
Qed.
Lemma unode_eqb_eq a b : unode_eqb a b = true -> a = b.
Proof.
  destruct a, b. unfold unode_eqb. simpl. rewrite !andb_true_iff, !Z.eqb_eq. intros [[[-> ->] ->] ->]. reflexivity.
Qed.
Lemma hchain_eqb_eq a b : hchain_eqb a b = true -> a = b.
Proof.
  destruct a, b. unfold hchain_eqb. simpl. rewrite !andb_true_iff, !zlist_eqb_eq, Z.eqb_eq. intros [[-> ->] ->]. reflexivity.
Qed.
Lemma pair_eqb_eq a b : pair_eqb a b = true <-> a = b.
Proof.
  destruct a, b. unfold pair_eqb. simpl. rewrite andb_true_iff, !Nat.eqb_eq. split; [intros [-> ->]; reflexivity|intros H; inversion H; auto].
Qed.
Lemma pmem_In e l : pmem e l = true <-> In e l.
Proof.
  unfold pmem. rewrite existsb_exists. split.
  - intros [x [H E]]. apply pair_eqb_eq in E. subst. exact H.
  - intros H. exists e. split; auto. apply pair_eqb_eq. reflexivity.
Qed.
Lemma index_of_Some {A} (eqb : A -> A -> bool) x l : (forall y, eqb x y = true -> x = y) ->
  forall i, index_of eqb x l = Some i -> nth_error l i = Some x.
Proof.
  intros He. induction l as [|y l IH]; simpl; intros i H; [discriminate|].
  destruct (eqb x y) eqn:E.
  - inversion H; subst. apply He in E. subst. reflexivity.
  - destruct (index_of eqb x l) as [k|]; [|discriminate]. simpl in H. inversion H; subst. simpl. apply IH. reflexivity.
Qed.
Lemma nth_error_app_end {A} (l : list A) x : nth_error (l ++ [x]) (length l) = Some x.
Proof. induction l; simpl; auto. Qed.

Lemma NoDup_app_end {A} (l : list A) x : NoDup l -> ~ In x l -> NoDup (l ++ [x]).
Proof.
  induction l as [|a l IH]; simpl; intros Hn Hx; [constructor; [intros []|constructor]|].
  inversion Hn; subst. constructor.
  - rewrite in_app_iff. intros [H|[H|[]]]; [contradiction|subst; apply Hx; left; reflexivity].
  - apply IH; auto.
Qed.

Section Part.
  Variable R : cring.
  Add Ring Rring_part : (k_rt R).
  Notation "0r" := (k0 R).
  Infix "+r" := (kadd R) (at level 50, left associativity).
  Infix "*r" := (kmul R) (at level 40, left associativity).
  Notation part := (part R).

  Definition du : unode := mku 0 0 0 0.
  Definition dv : hchain := mkh [] [] 0.
  Definition nthu (p : part) (i : nat) : unode := nth i (p_u p) du.
  Definition nthv (p : part) (j : nat) : hchain := nth j (p_v p) dv.

  Definition W (p : part) (F : unode -> hchain -> R) : R :=
    suml (p_gamma p) (fun ge => snd ge *r F (nthu p (fst (fst ge))) (nthv p (snd (fst ge)))).
  Definition pinv (p : part) : Prop :=
    Forall (fun e => (fst e < length (p_u p))%nat /\ (snd e < length (p_v p))%nat) (p_edges p) /\ NoDup (p_edges p).

  Lemma gamma_add_sum (K : nat * nat -> R) e c g :
    suml (gamma_add e c g) (fun ge => snd ge *r K (fst ge)) = suml g (fun ge => snd ge *r K (fst ge)) +r c *r K e.
  Proof.
    induction g as [|[e' c'] g IH]; simpl; [ring|].
    destruct (pair_eqb e e') eqn:E; simpl.
    - apply pair_eqb_eq in E. subst. ring.
    - rewrite IH. ring.
  Qed.
  Lemma gamma_add_keys e (c : R) g :
    map fst (gamma_add e c g) = if pmem e (map fst g) then map fst g else map fst g ++ [e].
  Proof.
    induction g as [|[e' c'] g IH]; simpl; [reflexivity|].
    destruct (pair_eqb e e') eqn:E; simpl; [reflexivity|]. rewrite IH.
    unfold pmem. destruct (existsb (pair_eqb e) (map fst g)); reflexivity.
  Qed.

  Lemma gamma_get_In e (c : R) g : NoDup (map fst g) -> In (e, c) g -> gamma_get e g = Some c.
  Proof.
    unfold gamma_get. induction g as [|[e' c'] g IH]; simpl; intros Hn H; [contradiction|].
    inversion Hn as [|? ? Hni Hn']; subst. destruct H as [H|H].
    - inversion H; subst. assert (E : pair_eqb e e = true) by (apply pair_eqb_eq; reflexivity). rewrite E. reflexivity.
    - destruct (pair_eqb e e') eqn:E.
      + apply pair_eqb_eq in E. subst. exfalso. apply Hni. apply in_map_iff. exists (e', c). auto.
      + apply IH; assumption.
  Qed.

  (* one half-chain *)
  Lemma part_step_spec p hc : pinv p ->
    let p' := part_step p hc in
    pinv p' /\
    (exists lu lv, p_u p' = p_u p ++ lu /\ p_v p' = p_v p ++ lv /\
                   Forall (eq (split_u (fst hc))) lu /\ Forall (eq (split_v (fst hc))) lv) /\
    (forall F, W p' F = W p F +r snd hc *r F (split_u (fst hc)) (split_v (fst hc))).
  Proof.
    intros [Hr Hn]. unfold part_step.
    set (u := split_u (fst hc)). set (v := split_v (fst hc)).
    assert (LU : exists ul i lu, (match index_of unode_eqb u (p_u p) with
                                  | Some i => (p_u p, i) | None => (p_u p ++ [u], length (p_u p)) end) = (ul, i) /\
                                 ul = p_u p ++ lu /\ nth_error ul i = Some u /\ Forall (eq u) lu).
    { destruct (index_of unode_eqb u (p_u p)) as [i|] eqn:E.
      - exists (p_u p), i, []. rewrite app_nil_r. repeat split; auto.
        apply (index_of_Some unode_eqb u _ (unode_eqb_eq u)). exact E.
      - exists (p_u p ++ [u]), (length (p_u p)), [u]. repeat split; auto. apply nth_error_app_end. }
    assert (LV : exists vl j lv, (match index_of hchain_eqb v (p_v p) with
                                  | Some j => (p_v p, j) | None => (p_v p ++ [v], length (p_v p)) end) = (vl, j) /\
                                 vl = p_v p ++ lv /\ nth_error vl j = Some v /\ Forall (eq v) lv).
    { destruct (index_of hchain_eqb v (p_v p)) as [j|] eqn:E.
      - exists (p_v p), j, []. rewrite app_nil_r. repeat split; auto.
        apply (index_of_Some hchain_eqb v _ (hchain_eqb_eq v)). exact E.
      - exists (p_v p ++ [v]), (length (p_v p)), [v]. repeat split; auto. apply nth_error_app_end. }
    destruct LU as [ul [i [lu [EU [Hul [Hi Flu]]]]]]. destruct LV as [vl [j [lv [EV [Hvl [Hj Flv]]]]]].
    rewrite EU, EV. cbn zeta.
    assert (Hil : (i < length ul)%nat) by (apply nth_error_Some; congruence).
    assert (Hjl : (j < length vl)%nat) by (apply nth_error_Some; congruence).
    assert (Hlu : (length (p_u p) <= length ul)%nat) by (rewrite Hul, app_length; lia).
    assert (Hlv : (length (p_v p) <= length vl)%nat) by (rewrite Hvl, app_length; lia).
    split; [|split].
    - unfold pinv, p_edges in *. cbn [p_u p_v p_gamma]. rewrite gamma_add_keys.
      destruct (pmem (i, j) (map fst (p_gamma p))) eqn:Em.
      + split; [|exact Hn]. eapply Forall_impl; [|exact Hr]. intros e [A B]. lia.
      + split.
        * apply Forall_app. split; [eapply Forall_impl; [|exact Hr]; intros e [A B]; lia|].
          constructor; [simpl; lia|constructor].
        * apply NoDup_app_end; [exact Hn|]. intros Hin. apply pmem_In in Hin. congruence.
    - exists lu, lv. cbn [p_u p_v]. auto.
    - intros F. unfold W. cbn [p_u p_v p_gamma].
      rewrite (gamma_add_sum (fun e => F (nthu (mkpart ul vl (gamma_add (i, j) (snd hc) (p_gamma p))) (fst e))
                                         (nthv (mkpart ul vl (gamma_add (i, j) (snd hc) (p_gamma p))) (snd e)))).
      f_equal.
      + apply suml_ext. intros [e c] He. cbn [fst snd]. unfold pinv, p_edges in Hr. rewrite Forall_forall in Hr.
        assert (Hin : In e (map fst (p_gamma p))) by (apply in_map_iff; exists (e, c); auto).
        destruct (Hr e Hin) as [A B]. unfold nthu, nthv. cbn [p_u p_v]. subst ul vl.
        rewrite !app_nth1 by assumption. reflexivity.
      + unfold nthu, nthv. cbn [p_u p_v fst snd].
        rewrite (nth_error_nth _ _ du Hi), (nth_error_nth _ _ dv Hj). reflexivity.
  Qed.


  Lemma fold_part_spec : forall hcs p, pinv p ->
    let p' := fold_left (@part_step R) hcs p in
    pinv p' /\
    (forall F, W p' F = W p F +r suml hcs (fun hc => snd hc *r F (split_u (fst hc)) (split_v (fst hc)))) /\
    (forall PU : unode -> Prop, Forall PU (p_u p) -> (forall hc, In hc hcs -> PU (split_u (fst hc))) -> Forall PU (p_u p')) /\
    (forall PV : hchain -> Prop, Forall PV (p_v p) -> (forall hc, In hc hcs -> PV (split_v (fst hc))) -> Forall PV (p_v p')).
  Proof.
    induction hcs as [|hc hcs IH]; intros p Hp; cbn [fold_left].
    - cbn zeta. split; [exact Hp|]. split; [intros F; simpl; ring|]. split; intros; assumption.
    - destruct (part_step_spec p hc Hp) as [Hp1 [[lu [lv [Eu [Ev [Fu Fv]]]]] HW]].
      destruct (IH _ Hp1) as [A [B [C D]]]. cbn zeta. split; [exact A|]. split; [|split].
      + intros F. rewrite B, HW. simpl. ring.
      + intros PU H0 H1. apply C.
        * rewrite Eu. apply Forall_app. split; [exact H0|].
          apply Forall_forall. intros a Ha. rewrite Forall_forall in Fu. rewrite <- (Fu a Ha). apply H1. left. reflexivity.
        * intros x Hx. apply H1. right. exact Hx.
      + intros PV H0 H1. apply D.
        * rewrite Ev. apply Forall_app. split; [exact H0|].
          apply Forall_forall. intros a Ha. rewrite Forall_forall in Fv. rewrite <- (Fv a Ha). apply H1. left. reflexivity.
        * intros x Hx. apply H1. right. exact Hx.
  Qed.

  (* the site-partition regrouping lemma *)
  Theorem site_partition_regroup (hcs : list (hchain * R)) :
    let p := site_partition hcs in
    pinv p /\
    (forall F, suml hcs (fun hc => snd hc *r F (split_u (fst hc)) (split_v (fst hc))) = W p F) /\
    (forall PU : unode -> Prop, (forall hc, In hc hcs -> PU (split_u (fst hc))) -> Forall PU (p_u p)) /\
    (forall PV : hchain -> Prop, (forall hc, In hc hcs -> PV (split_v (fst hc))) -> Forall PV (p_v p)).
  Proof.
    assert (H0 : pinv (mkpart [] [] [])) by (split; constructor).
    destruct (fold_part_spec hcs _ H0) as [A [B [C D]]]. cbn zeta. unfold site_partition.
    split; [exact A|]. split; [|split].
    - intros F. rewrite B. unfold W at 1. simpl. ring.
    - intros PU H. apply C; [constructor|exact H].
    - intros PV H. apply D; [constructor|exact H].
  Qed.
End Part.
