(* C07 (a): the optimized molecular Hamiltonian graphs denote their enumerated chain lists (corollary of C05),
   and characterisation of the enumerated spinless list for EVERY L: its length, that every chain is well formed
   (len(qnums) = len(oids) + 1, fits the lattice, non-empty), and that the interleaved charges are exactly the running
   particle-number balance of the operators (C: +1, A: -1, I/N/Z: 0), starting and ending at 0. *)
From Coq Require Import ZArith List Lia Bool Arith.
From PT Require Import Base.Scalar Base.BigSum Model.OpGraph Model.FromOpchains Model.Molecular
                       Proofs.DenRev_C05 Proofs.FromOpchainsThm Proofs.FromOpchainsWF3 Proofs.C05Total.
Import ListNotations.
Open Scope nat_scope.

(* ---- charges ---- *)
Definition ocharge (o : Z) : Z := if (o =? oC)%Z then 1%Z else if (o =? oA)%Z then (-1)%Z else 0%Z.
(* running balance after each operator *)
Fixpoint qwalk (q : Z) (oids : list Z) : list Z :=
  match oids with [] => [] | o :: t => (q + ocharge o)%Z :: qwalk (q + ocharge o)%Z t end.

Definition skel_wf (n : nat) (s : skel) : Prop :=
  k_qnums s = 0%Z :: qwalk 0%Z (k_oids s) /\ last (k_qnums s) 1%Z = 0%Z /\
  k_istart s + length (k_oids s) <= n /\ 1 <= length (k_oids s).

Lemma qwalk_length q o : length (qwalk q o) = length o.
Proof. revert q; induction o; intros; cbn; auto. Qed.

(* ---- normalisation of lists built from runs ---- *)
Lemma cons_rep {A} (x : A) r : x :: r = repeat x 1 ++ r. Proof. reflexivity. Qed.
Lemma rep_merge {A} (x : A) n m r : repeat x n ++ repeat x m ++ r = repeat x (n + m) ++ r.
Proof. rewrite repeat_app, <- app_assoc. reflexivity. Qed.
Lemma rep_merge0 {A} (x : A) n m : repeat x n ++ repeat x m = repeat x (n + m).
Proof. rewrite repeat_app. reflexivity. Qed.
Lemma qwalk_rep q o n r : ocharge o = 0%Z -> qwalk q (repeat o n ++ r) = repeat q n ++ qwalk q r.
Proof. intros H. induction n; cbn [repeat app qwalk]; auto. rewrite H, Z.add_0_r. f_equal. exact IHn. Qed.
Lemma last_app_rep {A} (x d : A) l n : 1 <= n -> last (l ++ repeat x n) d = x.
Proof.
  intros Hn. destruct n; [lia|]. replace (S n) with (n + 1) by lia. rewrite repeat_app, app_assoc. apply last_last.
Qed.
Lemma last_rep {A} (x d : A) n : 1 <= n -> last (repeat x n) d = x.
Proof. intros. apply (last_app_rep x d [] n); auto. Qed.

Ltac split_cmp :=
  repeat (cbn -[Nat.ltb Nat.eqb repeat app Nat.sub Nat.add];
          match goal with
          | |- context [Nat.ltb ?x ?y] => destruct (Nat.ltb_spec x y); try lia
          | |- context [Nat.eqb ?x ?y] => destruct (Nat.eqb_spec x y); try lia
          end);
  cbn -[Nat.ltb Nat.eqb repeat app Nat.sub Nat.add].
Ltac norm_runs :=
  rewrite <- ?app_assoc; cbn [app];
  repeat (first [ rewrite qwalk_rep by reflexivity | progress cbn [qwalk] ]);
  cbn -[repeat app Nat.sub Nat.add];
  rewrite ?cons_rep; rewrite ?app_nil_r;
  repeat (first [ rewrite rep_merge | rewrite rep_merge0 ]).
Ltac len_runs := rewrite ?app_length, ?repeat_length; cbn [length]; rewrite ?app_length, ?repeat_length; cbn [length].

(* the thirteen relative orders of i < j and k < l *)
Lemma int_skel_wf i j k l n : i < j -> k < l -> j < n -> l < n -> skel_wf n (int_skel i j k l).
Proof.
  intros Hij Hkl Hj Hl. unfold skel_wf, int_skel, op_sort, fold_right.
  unfold op_insert, op_leb, oA, oC.
  split_cmp.
  all: cbn [k_oids k_qnums k_istart].
  all: split; [ norm_runs; repeat (f_equal; try lia) | ].
  all: split; [ rewrite ?app_assoc; first [ apply last_last | apply last_app_rep; lia | apply last_rep; lia ] | ].
  all: len_runs; lia.
Qed.

Lemma hop_skel_wf i j n : i < n -> j < n -> skel_wf n (hop_skel i j).
Proof.
  intros Hi Hj. unfold skel_wf, hop_skel.
  destruct (Nat.eqb_spec i j) as [E|E].
  - cbn. repeat split; lia.
  - unfold op_sort, fold_right, op_insert, op_leb, oA, oC.
    split_cmp.
    all: cbn [k_oids k_qnums k_istart].
    all: split; [ norm_runs; repeat (f_equal; try lia) | ].
    all: split; [ rewrite ?app_assoc; first [ apply last_last | apply last_app_rep; lia | apply last_rep; lia ] | ].
    all: len_runs; lia.
Qed.

(* ---- the index ranges of the loops ---- *)
Lemma range_from_In k n x : In x (range_from k n) <-> k < x < n.
Proof. unfold range_from. rewrite in_seq. lia. Qed.
Lemma pairs_lt_In n i j : In (i, j) (pairs_lt n) <-> i < j < n.
Proof.
  unfold pairs_lt. rewrite in_flat_map. split.
  - intros [x [Hx H]]. apply in_map_iff in H. destruct H as [y [E Hy]]. inversion E; subst.
    apply range_from_In in Hy. lia.
  - intros H. exists i. split; [apply in_seq; lia|]. apply in_map_iff. exists j. split; auto. apply range_from_In. lia.
Qed.
Lemma pairs_lt_In' n p : In p (pairs_lt n) -> fst p < snd p < n.
Proof. destruct p as [i j]. apply pairs_lt_In. Qed.

Lemma length_flat_map_const {A B} (f : A -> list B) (l : list A) c :
  (forall x, In x l -> length (f x) = c) -> length (flat_map f l) = length l * c.
Proof.
  induction l as [|x l IH]; intros H; cbn [flat_map length]; auto.
  rewrite app_length, H by (left; auto). rewrite IH by (intros; apply H; right; auto). lia.
Qed.
Fixpoint tri (n : nat) : nat := match n with O => O | S m => m + tri m end.   (* n (n - 1) / 2 *)
Lemma tri_closed n : 2 * tri n = n * (n - 1).
Proof. induction n; cbn [tri]; [reflexivity|]. destruct n; [reflexivity|]. cbn [tri] in *. nia. Qed.
Lemma pairs_lt_length_aux n m : m <= n ->
  length (flat_map (fun i => map (fun j => (i, j)) (range_from i n)) (seq (n - m) m)) = tri m.
Proof.
  induction m as [|m IH]; intros H; [reflexivity|].
  cbn [seq flat_map tri]. rewrite app_length, map_length. unfold range_from at 1. rewrite seq_length.
  replace (S (n - S m)) with (n - m) by lia. rewrite IH by lia. lia.
Qed.
Lemma pairs_lt_length n : length (pairs_lt n) = tri n.
Proof. unfold pairs_lt. rewrite <- (pairs_lt_length_aux n n) by lia. rewrite Nat.sub_diag. reflexivity. Qed.

Lemma mol_skels_length L : length (mol_skels L) = L * L + tri L * tri L.
Proof.
  unfold mol_skels, mol_hop_skels, mol_int_skels. rewrite app_length.
  rewrite (length_flat_map_const _ _ L) by (intros; rewrite map_length, seq_length; reflexivity).
  rewrite (length_flat_map_const _ _ (tri L)) by (intros; rewrite map_length; apply pairs_lt_length).
  rewrite seq_length, pairs_lt_length. reflexivity.
Qed.

Lemma mol_skels_wf L : Forall (fun st => skel_wf L (fst st)) (mol_skels L).
Proof.
  unfold mol_skels. apply Forall_app. split; apply Forall_forall; intros st H.
  - unfold mol_hop_skels in H. apply in_flat_map in H. destruct H as [i [Hi H]].
    apply in_map_iff in H. destruct H as [j [E Hj]]. subst st. cbn [fst].
    apply in_seq in Hi. apply in_seq in Hj. apply hop_skel_wf; lia.
  - unfold mol_int_skels in H. apply in_flat_map in H. destruct H as [ij [Hij H]].
    apply in_map_iff in H. destruct H as [kl [E Hkl]]. subst st. cbn [fst].
    apply pairs_lt_In' in Hij. apply pairs_lt_In' in Hkl. apply int_skel_wf; lia.
Qed.

Section MolOpt.
  Variable R : cring.
  Variable half : R.
  Notation chain := (chain R).

  Lemma hd_padded_q n m q : hd 0%Z (repeat 0%Z n ++ (0%Z :: q) ++ repeat 0%Z m) = 0%Z.
  Proof. destruct n; reflexivity. Qed.
  Lemma last_padded_q n m (q : list Z) : q <> [] -> last q 1%Z = 0%Z -> last (repeat 0%Z n ++ q ++ repeat 0%Z m) 0%Z = 0%Z.
  Proof.
    intros Hq Hl. destruct m.
    - cbn [repeat]. rewrite app_nil_r. destruct (exists_last Hq) as [q' [x E]]. subst q.
      rewrite last_last in Hl. rewrite app_assoc, last_last. exact Hl.
    - rewrite app_assoc. apply last_app_rep. lia.
  Qed.

  (* a well-formed skeleton gives a chain meeting the hypotheses of C05's [wf_chain] with final charge 0 *)
  Lemma attach_wf {T} (coeff : T -> R) L (st : skel * T) : skel_wf L (fst st) ->
    wf_chain L (attach coeff st) = true /\ last (padded_qnums L (attach coeff st)) 0%Z = 0%Z /\
    length (padded_oids L 0%Z (attach coeff st)) = L.
  Proof.
    intros [Hq [Hl [Hfit Hne]]]. unfold wf_chain, chain_ok, padded_qnums, padded_oids, attach. cbn [c_oids c_qnums c_istart].
    repeat split.
    - rewrite !andb_true_iff. repeat split.
      + rewrite Hq. cbn [length]. rewrite qwalk_length. apply Nat.eqb_refl.
      + apply Nat.leb_le. lia.
      + rewrite Hq. rewrite hd_padded_q. reflexivity.
    - apply last_padded_q; auto. rewrite Hq. discriminate.
    - rewrite !app_length, !repeat_length. lia.
  Qed.

  Theorem mol_chains_length L t v : length (mol_chains half L t v) = L * L + tri L * tri L.
  Proof. unfold mol_chains. rewrite map_length. apply mol_skels_length. Qed.

  Theorem mol_chains_wf L t v :
    Forall (fun c => wf_chain L c = true /\ last (padded_qnums L c) 0%Z = 0%Z /\ length (padded_oids L 0%Z c) = L /\
                     c_qnums c = 0%Z :: qwalk 0%Z (c_oids c))
           (mol_chains half L t v).
  Proof.
    unfold mol_chains. apply Forall_forall. intros c H. apply in_map_iff in H. destruct H as [st [E Hst]]. subst c.
    pose proof (mol_skels_wf L) as W. rewrite Forall_forall in W. specialize (W st Hst).
    destruct (attach_wf (mol_coeff half t v) L st W) as [A [B C]]. repeat split; auto.
    destruct W as [Hq _]. exact Hq.
  Qed.

  (* hypotheses of C05's full statement hold as soon as one coefficient is non-zero *)
  Lemma wf_chains_intro L (chains : list chain) :
    (forall c, In c chains -> wf_chain L c = true /\ last (padded_qnums L c) 0%Z = 0%Z) ->
    (exists c, In c chains /\ c_coeff c <> k0 R) -> wf_chains L chains = true.
  Proof.
    intros W [c0 [Hin Hnz]]. unfold wf_chains.
    apply andb_true_iff. split.
    - apply forallb_forall. intros c Hc. apply (W c Hc).
    - destruct (filter (@nonzero R) chains) as [|c1 tl] eqn:E.
      + assert (Hf : In c0 (filter (@nonzero R) chains)).
        { apply filter_In. split; auto. unfold nonzero. apply negb_true_iff. apply keqb_false. exact Hnz. }
        rewrite E in Hf. destruct Hf.
      + apply forallb_forall. intros c Hc.
        assert (H1 : In c1 chains) by (apply (proj1 (filter_In (@nonzero R) c1 chains)); rewrite E; left; auto).
        assert (H2 : In c chains) by (apply (proj1 (filter_In (@nonzero R) c chains)); rewrite E; right; auto).
        destruct (W c1 H1) as [_ B1]. destruct (W c H2) as [_ B2]. rewrite B1, B2. reflexivity.
  Qed.

  Theorem mol_chains_wf_chains L t v : (exists c, In c (mol_chains half L t v) /\ c_coeff c <> k0 R) ->
    wf_chains L (mol_chains half L t v) = true.
  Proof.
    intros H. apply wf_chains_intro; auto. intros c Hc.
    pose proof (mol_chains_wf L t v) as W. rewrite Forall_forall in W. destruct (W c Hc) as [A [B _]]. split; auto.
  Qed.

  (* boolean well-formedness of a skeleton (independent of the coefficient) *)
  Definition skel_wfb (L : nat) (s : skel) : bool :=
    Nat.eqb (length (k_qnums s)) (S (length (k_oids s))) && Nat.leb (length (k_oids s) + k_istart s) L &&
    (hd 0%Z (repeat 0%Z (k_istart s) ++ k_qnums s ++ repeat 0%Z (L - length (k_oids s) - k_istart s)) =? 0)%Z &&
    (last (repeat 0%Z (k_istart s) ++ k_qnums s ++ repeat 0%Z (L - length (k_oids s) - k_istart s)) 0%Z =? 0)%Z.
  Lemma attach_wfb {T} (coeff : T -> R) L (st : skel * T) : skel_wfb L (fst st) = true ->
    wf_chain L (attach coeff st) = true /\ last (padded_qnums L (attach coeff st)) 0%Z = 0%Z.
  Proof.
    unfold skel_wfb, wf_chain, chain_ok, padded_qnums, attach. cbn [c_oids c_qnums c_istart].
    rewrite !andb_true_iff. intros [[[A B] C] D]. repeat split; auto. apply Z.eqb_eq. exact D.
  Qed.

  (* ---- (a): the optimized graphs denote the enumerated chain lists ---- *)
  Theorem mol_opt_den_rev cover L t v g : 1 <= L ->
    from_opchains cover (mol_chains half L t v) L 0%Z = Ok g ->
    forall w, den_rev g w = chains_den L 0%Z (mol_chains half L t v) w.
  Proof. intros HL H. exact (from_opchains_den_rev R cover _ L 0%Z g HL H). Qed.

  (* every graph the model of from_opchains returns, for every cover oracle: cross-references consistent, meaning = chain sum *)
  Theorem mol_opt_den cover L t v g : 1 <= L ->
    from_opchains cover (mol_chains half L t v) L 0%Z = Ok g ->
    linked g = true /\ forall w, den g w = chains_den L 0%Z (mol_chains half L t v) w.
  Proof. intros HL H. exact (from_opchains_den_full R cover _ L 0%Z g HL H). Qed.

  Theorem spin_mol_opt_den_rev cover L t v cs g : 1 <= L ->
    spin_chains half L t v = Ok cs -> from_opchains cover cs L 0%Z = Ok g ->
    forall w, den_rev g w = chains_den L 0%Z cs w.
  Proof. intros HL _ H. exact (from_opchains_den_rev R cover _ L 0%Z g HL H). Qed.

  Theorem spin_mol_opt_den cover L t v cs g : 1 <= L ->
    spin_chains half L t v = Ok cs -> from_opchains cover cs L 0%Z = Ok g ->
    linked g = true /\ forall w, den g w = chains_den L 0%Z cs w.
  Proof. intros HL _ H. exact (from_opchains_den_full R cover _ L 0%Z g HL H). Qed.

  (* ---- success of the optimized spinless construction (with the proved model of minimum_vertex_cover):
     for every L >= 1 and all coefficients such that the Hamiltonian has a non-vanishing chain coefficient ---- *)
  Definition mol_nonzero (L : nat) (t : nat -> nat -> R) (v : nat -> nat -> nat -> nat -> R) : Prop :=
    (exists i j, i < L /\ j < L /\ t i j <> k0 R) \/
    (exists i j k l, i < j < L /\ k < l < L /\ gint half v i j k l <> k0 R).

  Lemma mol_nonzero_chain L t v : mol_nonzero L t v -> exists c, In c (mol_chains half L t v) /\ c_coeff c <> k0 R.
  Proof.
    intros [[i [j [Hi [Hj Hn]]]] | [i [j [k [l [Hij [Hkl Hn]]]]]]].
    - exists (attach (mol_coeff half t v) (hop_skel i j, THop i j)). split; [|exact Hn].
      unfold mol_chains. apply in_map. unfold mol_skels. apply in_or_app. left.
      unfold mol_hop_skels. apply in_flat_map. exists i. split; [apply in_seq; lia|].
      apply in_map_iff. exists j. split; [reflexivity|apply in_seq; lia].
    - exists (attach (mol_coeff half t v) (int_skel i j k l, TInt i j k l)). split; [|exact Hn].
      unfold mol_chains. apply in_map. unfold mol_skels. apply in_or_app. right.
      unfold mol_int_skels. apply in_flat_map. exists (i, j). split; [apply pairs_lt_In; lia|].
      apply in_map_iff. exists (k, l). split; [reflexivity|apply pairs_lt_In; lia].
  Qed.

  Theorem mol_opt_total L t v : 1 <= L -> mol_nonzero L t v ->
    exists g, from_opchains cover_model (mol_chains half L t v) L 0%Z = Ok g /\ linked g = true /\
              forall w, den g w = chains_den L 0%Z (mol_chains half L t v) w.
  Proof.
    intros HL Hn. apply from_opchains_total_model; auto.
    apply mol_chains_wf_chains. apply mol_nonzero_chain. exact Hn.
  Qed.

  (* spin orbitals: success for every L for which the skeletons evaluate to well-formed ones *)
  Definition spin_skels_wfb (L : nat) : bool :=
    match spin_skels L with Ok sk => forallb (fun st => skel_wfb L (fst st)) sk | Err _ => false end.
  Theorem spin_mol_opt_total_of_check L t v : 1 <= L -> spin_skels_wfb L = true ->
    exists cs, spin_chains half L t v = Ok cs /\
      ((exists c, In c cs /\ c_coeff c <> k0 R) ->
       exists g, from_opchains cover_model cs L 0%Z = Ok g /\ linked g = true /\ forall w, den g w = chains_den L 0%Z cs w).
  Proof.
    intros HL H. unfold spin_skels_wfb in H. unfold spin_chains. destruct (spin_skels L) as [sk|e]; [|discriminate].
    eexists. split; [reflexivity|]. intros Hn. apply from_opchains_total_model; auto.
    apply wf_chains_intro; auto. intros c Hc. apply in_map_iff in Hc. destruct Hc as [st [E Hst]]. subst c.
    rewrite forallb_forall in H. apply attach_wfb. apply H. exact Hst.
  Qed.
End MolOpt.

Lemma spin_skels_wf_upto_6 : forallb spin_skels_wfb (seq 1 6) = true.
Proof. vm_compute. reflexivity. Qed.
Theorem spin_mol_opt_total_bounded (R : cring) (half : R) L t v : 1 <= L <= 6 ->
  exists cs, spin_chains half L t v = Ok cs /\
    ((exists c, In c cs /\ c_coeff c <> k0 R) ->
     exists g, from_opchains cover_model cs L 0%Z = Ok g /\ linked g = true /\ forall w, den g w = chains_den L 0%Z cs w).
Proof.
  intros HL. apply spin_mol_opt_total_of_check; [lia|].
  pose proof spin_skels_wf_upto_6 as H. rewrite forallb_forall in H. apply H. apply in_seq. lia.
Qed.
