(* Exhausted Krylov space, part 1: the relation A V = V T is DERIVED from an exactly vanishing last residual.

   lanczos_iteration / arnoldi_iteration stop early at step j when the norm of the residual w_j is "small".
   If that residual is exactly zero (the norm oracle answered 0 on a call the model issued; by the norm
   contract r*r = sum |x_i|^2 this forces w_j = 0), the last column of the factorisation closes:
       A v_i = sum_{l<k} T_{l i} v_l   for EVERY i < k,   k = j+1 = number of returned vectors,
   with T = tridiag(alpha, beta) (Lanczos) resp. T = H (Arnoldi). Together with Proofs/KrylovPoly.v this gives
   p(A) v = ||v|| V p(T) e_0 for every polynomial p with no separate hypothesis A V = V T.

   The residual of the last step is a model-level quantity recomputed from the returned state:
     lanczos_last be Vs = lanczos_body (k-1) be Vs = (alpha_{k-1}, w_{k-1}, dnorm w_{k-1})
   (on the early-return path these are exactly the values the loop computed when it broke off; on the normal
   path the code does not compute them, and the "zero residual" theorems then speak about the vector the next
   pass would have produced). *)
From Coq Require Import ZArith List Bool Arith Lia Ring Field.
From PT Require Import Base.Scalar Base.Field Base.BigSum Base.Mx Model.Krylov Proofs.KrylovVec Proofs.KrylovLanczos
  Proofs.KrylovArnoldi Proofs.KrylovMatvec Proofs.KrylovExpm Proofs.KrylovRitz Proofs.KrylovPoly.
Import ListNotations.

Section Exhaust.
  Variable F : ofield.
  Notation K := (Cx F).
  Add Field Ffield_kx : (f_ft F).
  Add Ring Kring_kx : (k_rt (Cx F)).
  Notation vec := (list K).
  Notation kz := (k0 K).
  Notation "a [+] b" := (kadd K a b) (at level 50, left associativity).
  Notation "a [*] b" := (kmul K a b) (at level 40, left associativity).
  Variable n : nat.
  Variable Afunc : vec -> vec.
  Variable dnorm : vec -> F.
  Variable small : F -> bool.
  Notation vat := (vat F).
  Notation fat := (fat F).
  Notation tri := (tri F).
  Notation orthonormal := (orthonormal F n).

  (* ---- a column of tridiag(alpha, beta) has at most three entries ---- *)
  Lemma tri_split al be l j :
    tri al be l j = ((if Nat.eqb l j then cof (fat al j) else kz) [+] (if Nat.eqb l (S j) then cof (fat be j) else kz))
                    [+] (if Nat.eqb (S l) j then cof (fat be l) else kz).
  Proof.
    unfold KrylovLanczos.tri.
    destruct (Nat.eqb l j) eqn:E1; destruct (Nat.eqb (S l) j) eqn:E2; destruct (Nat.eqb l (S j)) eqn:E3;
      try (apply Nat.eqb_eq in E1); try (apply Nat.eqb_eq in E2); try (apply Nat.eqb_eq in E3); try lia; subst; symmetry; ring.
  Qed.

  Lemma sumn_tri_col al be k j (f : nat -> K) : j < k ->
    sumn k (fun l => tri al be l j [*] f l) =
    ((cof (fat al j) [*] f j) [+] (if Nat.ltb (S j) k then cof (fat be j) [*] f (S j) else kz))
    [+] (match j with O => kz | S j' => cof (fat be j') [*] f j' end).
  Proof.
    intros Hj.
    transitivity ((sumn k (fun l => (if Nat.eqb l j then cof (fat al j) else kz) [*] f l) [+]
                   sumn k (fun l => (if Nat.eqb l (S j) then cof (fat be j) else kz) [*] f l)) [+]
                  sumn k (fun l => (if Nat.eqb (S l) j then cof (fat be l) else kz) [*] f l)).
    { rewrite <- !sumn_add. apply (sumn_ext (Cx F)). intros l Hl. cbv beta. rewrite tri_split. ring. }
    assert (E1 : sumn k (fun l => (if Nat.eqb l j then cof (fat al j) else kz) [*] f l) = cof (fat al j) [*] f j).
    { rewrite (sumn_single (Cx F) k j) by
        (try exact Hj; intros i _ Hi; apply Nat.eqb_neq in Hi; rewrite Hi; ring).
      rewrite Nat.eqb_refl. reflexivity. }
    assert (E2 : sumn k (fun l => (if Nat.eqb l (S j) then cof (fat be j) else kz) [*] f l) =
                 if Nat.ltb (S j) k then cof (fat be j) [*] f (S j) else kz).
    { destruct (Nat.ltb (S j) k) eqn:EL.
      - apply Nat.ltb_lt in EL.
        rewrite (sumn_single (Cx F) k (S j)) by
          (try exact EL; intros i _ Hi; apply Nat.eqb_neq in Hi; rewrite Hi; ring).
        rewrite Nat.eqb_refl. reflexivity.
      - apply Nat.ltb_ge in EL. apply (sumn_zero (Cx F)). intros i Hi.
        replace (Nat.eqb i (S j)) with false by (symmetry; apply Nat.eqb_neq; lia). ring. }
    assert (E3 : sumn k (fun l => (if Nat.eqb (S l) j then cof (fat be l) else kz) [*] f l) =
                 match j with O => kz | S j' => cof (fat be j') [*] f j' end).
    { destruct j as [|j'].
      - apply (sumn_zero (Cx F)). intros i Hi. cbn [Nat.eqb]. ring.
      - rewrite (sumn_single (Cx F) k j') by
          (try lia; intros i _ Hi; replace (Nat.eqb (S i) (S j')) with false by (symmetry; apply Nat.eqb_neq; lia); ring).
        rewrite Nat.eqb_refl. reflexivity. }
    rewrite E1, E2, E3. reflexivity.
  Qed.

  (* V (column j of tridiag) = beta_j v_{j+1} (if present) + alpha_j v_j + beta_{j-1} v_{j-1} *)
  Lemma lincomb_tri_col al be (Vs : list vec) j : orthonormal Vs -> j < length Vs ->
    lincomb n (tcol F (length Vs) (tri al be) j) Vs =
    vadd (if Nat.ltb (S j) (length Vs) then rscale (fat be j) (vat Vs (S j)) else vzero n)
         (vadd (rscale (fat al j) (vat Vs j)) (lterm F n be Vs j)).
  Proof.
    intros Ho Hj. pose proof Ho as [Hl _]. pose proof (orth_all F n Vs Ho) as HL.
    assert (L2 : length (rscale (fat al j) (vat Vs j)) = n) by (apply length_rscale, Hl; exact Hj).
    assert (L3 : length (lterm F n be Vs j) = n) by (apply length_lterm; [exact Ho|lia]).
    assert (L23 : length (vadd (rscale (fat al j) (vat Vs j)) (lterm F n be Vs j)) = n) by (apply length_vadd; assumption).
    assert (Eb : forall i, match j with O => kz | S j' => cof (fat be j') [*] nth i (nth j' Vs []) kz end =
                   nth i (lterm F n be Vs j) kz).
    { intros i. destruct j as [|j']; cbn [lterm]; [rewrite (nth_vzero F); reflexivity|unfold rscale; rewrite (nth_cscale F); reflexivity]. }
    assert (Es : forall i, nth i (lincomb n (tcol F (length Vs) (tri al be) j) Vs) kz =
              ((cof (fat al j) [*] nth i (nth j Vs []) kz) [+]
               (if Nat.ltb (S j) (length Vs) then cof (fat be j) [*] nth i (nth (S j) Vs []) kz else kz))
              [+] nth i (lterm F n be Vs j) kz).
    { intros i. rewrite (nth_lincomb F n) by (try exact HL; unfold tcol; rewrite map_length, seq_length; lia).
      rewrite (sumn_ext (Cx F) (length Vs) _ (fun l => tri al be l j [*] nth i (nth l Vs []) kz)).
      2:{ intros l Hl'. unfold tcol. rewrite nth_map_seq by exact Hl'. reflexivity. }
      rewrite (sumn_tri_col al be (length Vs) j (fun l => nth i (nth l Vs []) kz) Hj). rewrite Eb. reflexivity. }
    destruct (Nat.ltb (S j) (length Vs)) eqn:EL.
    - apply Nat.ltb_lt in EL.
      assert (L1 : length (rscale (fat be j) (vat Vs (S j))) = n) by (apply length_rscale, Hl; exact EL).
      apply (vec_ext F n); [apply length_lincomb; exact HL|apply length_vadd; assumption|].
      intros i Hi. rewrite Es.
      rewrite (nth_vadd F _ (vadd _ _)) by (rewrite L1, L23; reflexivity).
      rewrite (nth_vadd F (rscale _ _)) by (rewrite L2, L3; reflexivity).
      unfold rscale. rewrite !(nth_cscale F). unfold KrylovLanczos.vat. ring.
    - assert (L1 : length (@vzero F n) = n) by apply length_vzero.
      apply (vec_ext F n); [apply length_lincomb; exact HL|apply length_vadd; assumption|].
      intros i Hi. rewrite Es.
      rewrite (nth_vadd F _ (vadd _ _)) by (rewrite L1, L23; reflexivity).
      rewrite (nth_vadd F (rscale _ _)) by (rewrite L2, L3; reflexivity).
      unfold rscale. rewrite !(nth_cscale F), (nth_vzero F). unfold KrylovLanczos.vat. ring.
  Qed.

  (* ================================ Lanczos ================================ *)
  Definition lanczos_last (be : list F) (Vs : list vec) : F * vec * F :=
    lanczos_body F Afunc dnorm (length Vs - 1) be Vs.
  Definition lanczos_last_resid (be : list F) (Vs : list vec) : vec := snd (fst (lanczos_last be Vs)).
  Definition lanczos_last_norm (be : list F) (Vs : list vec) : F := snd (lanczos_last be Vs).

  Hypothesis A_len : maps_len F n Afunc.

  Section LanczosPart.
  Hypothesis A_sa : self_adjoint F n Afunc.
  Hypothesis small_pos : small_sound F small.

  (* the residual of the last step, from the returned state *)
  Lemma lanczos_last_form m al be (Vs : list vec) wn : lanczos_post F n Afunc m (al, be, Vs, wn) ->
    let j := length Vs - 1 in
    let vj := vat Vs j in
    let u := vadd (rscale (fat al j) vj) (lterm F n be Vs j) in
    lanczos_last be Vs = (fat al j, vsub (Afunc vj) u, dnorm (vsub (Afunc vj) u)) /\
    length (Afunc vj) = n /\ length u = n.
  Proof.
    intros (H1 & Hm & Hal & Hbe & Hw & Ho & Hpos & Hrec & Hlast) j vj u. pose proof Ho as [Hl Hd].
    assert (Lj : length vj = n) by (apply Hl; unfold j; lia).
    assert (Ea : cre (vdot (Afunc vj) vj) = fat al j).
    { apply cof_inj. rewrite <- (rayleigh_real F n Afunc A_sa vj Lj). exact Hlast. }
    split; [|split].
    - unfold lanczos_last. fold j. rewrite (body_w F n Afunc dnorm j be Vs Lj). cbv zeta. fold vj. rewrite Ea. reflexivity.
    - apply A_len. exact Lj.
    - apply length_vadd; [apply length_rscale; exact Lj|apply length_lterm; [exact Ho|unfold j; lia]].
  Qed.

  (* A V = V T for all k columns as soon as the last residual vanishes *)
  Theorem lanczos_zero_resid_AV_VT m al be (Vs : list vec) wn : lanczos_post F n Afunc m (al, be, Vs, wn) ->
    lanczos_last_resid be Vs = vzero n ->
    forall j, j < length Vs -> Afunc (vat Vs j) = lincomb n (tcol F (length Vs) (tri al be) j) Vs.
  Proof.
    intros HP Hz j Hj. destruct (lanczos_last_form m al be Vs wn HP) as (EL & LA & Lu).
    destruct HP as (H1 & Hm & Hal & Hbe & Hw & Ho & Hpos & Hrec & Hlast).
    rewrite (lincomb_tri_col al be Vs j Ho Hj).
    destruct (Nat.ltb (S j) (length Vs)) eqn:E.
    - apply Nat.ltb_lt in E. exact (Hrec j E).
    - apply Nat.ltb_ge in E. assert (Ej : j = length Vs - 1) by lia.
      unfold lanczos_last_resid in Hz. rewrite EL in Hz. cbn [fst snd] in Hz. rewrite <- Ej in *.
      rewrite vadd_zero_l by exact Lu.
      rewrite <- (vsub_vadd F (Afunc (vat Vs j)) (vadd (rscale (fat al j) (vat Vs j)) (lterm F n be Vs j)))
        by (rewrite LA, Lu; reflexivity).
      rewrite Hz. apply vadd_zero_l. exact Lu.
  Qed.

  (* on the early-return path the last residual and its norm are a call the loop issued, and [small] fired on it *)
  Lemma lanczos_loop_break_call fuel : forall j al be (Vs : list vec) al' be' Vs',
    length Vs = S j ->
    lanczos_loop F Afunc dnorm small fuel j al be Vs = (al', be', Vs', true) ->
    In (lanczos_last_resid be' Vs', lanczos_last_norm be' Vs') (lanczos_loop_calls F Afunc dnorm small fuel j be Vs) /\
    small (lanczos_last_norm be' Vs') = true.
  Proof.
    induction fuel as [|fuel IH]; intros j al be Vs al' be' Vs' HV E; cbn [lanczos_loop lanczos_loop_calls] in *.
    - inversion E.
    - destruct (lanczos_body F Afunc dnorm j be Vs) as [[a w'] b] eqn:EB. destruct (small b) eqn:Hs.
      + inversion E; subst al' be' Vs'.
        assert (EQ : lanczos_last be Vs = (a, w', b)).
        { unfold lanczos_last. rewrite HV. replace (S j - 1) with j by lia. exact EB. }
        unfold lanczos_last_resid, lanczos_last_norm. rewrite EQ. cbn [fst snd]. split; [left; reflexivity|exact Hs].
      + destruct (IH (S j) (al ++ [a]) (be ++ [b]) (Vs ++ [vdivr w' b]) al' be' Vs' ltac:(rewrite app_length; cbn [length]; lia) E) as [HI Hsm].
        split; [right; exact HI|exact Hsm].
  Qed.

  Lemma lanczos_unfold (v : vec) m r : lanczos F Afunc dnorm small v m = Some r ->
    exists m', m = S m' /\ lanczos_loop F Afunc dnorm small m' 0 [] [] [vdivr v (dnorm v)] = r.
  Proof.
    unfold lanczos. destruct (fltb F (f0 F) (dnorm v)); [|discriminate]. destruct m as [|m']; [discriminate|].
    intros E. injection E as E. exists m'. split; [reflexivity|exact E].
  Qed.

  Lemma dnorm_start_ne (v : vec) : length v = n -> v <> vzero n -> norm_ok F (v, dnorm v) -> dnorm v <> f0 F.
  Proof.
    intros Hv Hnz [_ Hc] E. cbn [fst snd] in Hc. rewrite E in Hc. apply Hnz. rewrite <- Hv. apply nrm2_zero. rewrite <- Hc. ring.
  Qed.

  (* the norm contract turns "dnorm w = 0" into "w = 0" *)
  Lemma norm_zero_vec (x : vec) : length x = n -> norm_ok F (x, f0 F) -> x = vzero n.
  Proof.
    intros Hx [_ Hc]. cbn [fst snd] in Hc. rewrite <- Hx. apply nrm2_zero. rewrite <- Hc. ring.
  Qed.

  (* Target 1 (Lanczos): breakdown signalled and the norm oracle answered 0 on the last residual *)
  Theorem lanczos_exact_breakdown_AV_VT (v : vec) m al be (Vs : list vec) :
    length v = n -> v <> vzero n -> 1 <= m ->
    Forall (norm_ok F) (lanczos_calls F Afunc dnorm small v m) ->
    lanczos F Afunc dnorm small v m = Some (al, be, Vs, true) ->
    lanczos_last_norm be Vs = f0 F ->
    1 <= length Vs /\ length Vs < m /\ vat Vs 0 = vdivr v (dnorm v) /\ orthonormal Vs /\
    forall j, j < length Vs -> Afunc (vat Vs j) = lincomb n (tcol F (length Vs) (tri al be) j) Vs.
  Proof.
    intros Hv Hnz Hm HC E Hb.
    destruct (lanczos_spec F n Afunc dnorm small A_len A_sa small_pos v m Hv Hnz Hm HC) as (r & Hr & HP & H0).
    rewrite E in Hr. injection Hr as <-. cbn [fst snd] in H0.
    destruct (lanczos_unfold v m _ E) as (m' & -> & EL).
    destruct (lanczos_loop_break_call m' 0 [] [] [vdivr v (dnorm v)] al be Vs eq_refl EL) as [HI _].
    assert (Hok : norm_ok F (lanczos_last_resid be Vs, lanczos_last_norm be Vs)).
    { rewrite Forall_forall in HC. apply HC. unfold lanczos_calls. right. exact HI. }
    rewrite Hb in Hok.
    destruct (lanczos_last_form (S m') al be Vs true HP) as (EF & LA & Lu).
    assert (Lw : length (lanczos_last_resid be Vs) = n).
    { unfold lanczos_last_resid. rewrite EF. cbn [fst snd]. apply length_vsub; assumption. }
    pose proof (norm_zero_vec _ Lw Hok) as Hz.
    pose proof HP as (Hk1 & _ & _ & _ & Hw & Ho & _).
    split; [exact Hk1|]. split; [apply Hw; reflexivity|]. split; [exact H0|]. split; [exact Ho|].
    exact (lanczos_zero_resid_AV_VT (S m') al be Vs true HP Hz).
  Qed.

  (* with KrylovPoly: p(A) v = ||v|| V p(T) e_0 for every polynomial, no hypothesis A V = V T *)
  Theorem exhausted_poly_lanczos (v : vec) m al be (Vs : list vec) :
    linear F n Afunc ->
    length v = n -> v <> vzero n -> 1 <= m ->
    Forall (norm_ok F) (lanczos_calls F Afunc dnorm small v m) ->
    lanczos F Afunc dnorm small v m = Some (al, be, Vs, true) ->
    lanczos_last_norm be Vs = f0 F ->
    forall p : list K,
      pevalA F n Afunc p v =
      lincomb n (pevalT F (length Vs) (tri al be) p (cscale (cof (dnorm v)) (e0 F (length Vs)))) Vs.
  Proof.
    intros A_lin Hv Hnz Hm HC E Hb p.
    destruct (lanczos_exact_breakdown_AV_VT v m al be Vs Hv Hnz Hm HC E Hb) as (Hk1 & Hk & H0 & Ho & HAV).
    assert (Hc : norm_ok F (v, dnorm v)) by (unfold lanczos_calls in HC; inversion HC; assumption).
    apply (krylov_exhausted_poly_start F n (length Vs) Afunc (tri al be) Vs A_len A_lin (orth_all F n Vs Ho) eq_refl HAV).
    - lia.
    - exact (dnorm_start_ne v Hv Hnz Hc).
    - exact H0.
  Qed.
  End LanczosPart.

  (* ================================ Arnoldi ================================ *)
  Hypothesis small_pos : small_sound F small.

  Definition arnoldi_last (Vs : list vec) : list K * vec * F := arnoldi_body F Afunc dnorm (length Vs - 1) Vs.
  Definition arnoldi_last_resid (Vs : list vec) : vec := snd (fst (arnoldi_last Vs)).
  Definition arnoldi_last_norm (Vs : list vec) : F := snd (arnoldi_last Vs).

  (* padding a coefficient list with the zeros [nth] returns beyond its end does not change V c *)
  Lemma lincomb_pad (c : list K) (Vs : list vec) : (forall v, In v Vs -> length v = n) -> length c <= length Vs ->
    lincomb n (map (fun i => nth i c kz) (seq 0 (length Vs))) Vs = lincomb n c Vs.
  Proof.
    intros HL Hc. apply (vec_ext F n); try (apply length_lincomb; exact HL).
    intros i Hi. rewrite !(nth_lincomb F n) by (try exact HL; rewrite ?map_length, ?seq_length; lia).
    apply (sumn_ext (Cx F)). intros l Hl. rewrite nth_map_seq by exact Hl. reflexivity.
  Qed.

  Lemma arnoldi_last_form m cols (Vs : list vec) wn : arnoldi_post F n Afunc m (cols, Vs, wn) ->
    let j := length Vs - 1 in
    exists hs w', arnoldi_last Vs = (hs, w', dnorm w') /\ length w' = n /\ length hs = length Vs /\
      Afunc (vat Vs j) = vadd (lincomb n hs Vs) w' /\
      hs = tcol F (length Vs) (hentry cols) j.
  Proof.
    intros (H1 & Hm & Hc & Hw & Ho & Hcols & Hlast & Hlc) j. pose proof Ho as [Hl Hd].
    assert (HV : length Vs = S j) by (unfold j; lia).
    assert (Lj : length (vat Vs j) = n) by (apply Hl; lia).
    unfold arnoldi_last. fold j. rewrite (body_mgs F Afunc dnorm j Vs HV).
    destruct (mgs F Vs (Afunc (vat Vs j))) as [hs w'] eqn:E.
    destruct (mgs_spec F n Vs _ hs w' Ho (A_len _ Lj) E) as (C1 & C2 & C3 & C4 & C5).
    exists hs, w'. repeat split; try assumption.
    apply (list_eq_nth kz).
    - unfold tcol. rewrite map_length, seq_length. exact C1.
    - intros i Hi. rewrite C1 in Hi. unfold tcol. rewrite nth_map_seq by exact Hi.
      rewrite C4 by exact Hi. unfold hentry. fold j in Hlc. rewrite Hlc by exact Hi. reflexivity.
  Qed.

  Theorem arnoldi_zero_resid_AV_VH m cols (Vs : list vec) wn : arnoldi_post F n Afunc m (cols, Vs, wn) ->
    arnoldi_last_resid Vs = vzero n ->
    forall j, j < length Vs -> Afunc (vat Vs j) = lincomb n (tcol F (length Vs) (hentry cols) j) Vs.
  Proof.
    intros HP Hz j Hj. destruct (arnoldi_last_form m cols Vs wn HP) as (hs & w' & EL & Lw & Lh & EA & Eh).
    destruct HP as (H1 & Hm & Hc & Hw & Ho & Hcols & Hlast & Hlc).
    destruct (Nat.eq_dec (S j) (length Vs)) as [E|E].
    - assert (Ej : j = length Vs - 1) by lia. rewrite <- Ej in *.
      unfold arnoldi_last_resid in Hz. rewrite EL in Hz. cbn [fst snd] in Hz. subst w'.
      rewrite EA, <- Eh. apply vadd_zero_r. apply length_lincomb. apply (orth_all F n). exact Ho.
    - destruct (Hcols j ltac:(lia)) as (L & Hr & _). rewrite Hr. symmetry.
      unfold tcol, hentry. apply lincomb_pad; [apply (orth_all F n); exact Ho|lia].
  Qed.

  Lemma arnoldi_loop_break_call fuel : forall j cols (Vs : list vec) cols' Vs',
    length Vs = S j ->
    arnoldi_loop F Afunc dnorm small fuel j cols Vs = (cols', Vs', true) ->
    In (arnoldi_last_resid Vs', arnoldi_last_norm Vs') (arnoldi_loop_calls F Afunc dnorm small fuel j Vs) /\
    small (arnoldi_last_norm Vs') = true.
  Proof.
    induction fuel as [|fuel IH]; intros j cols Vs cols' Vs' HV E; cbn [arnoldi_loop arnoldi_loop_calls] in *.
    - destruct (arnoldi_body F Afunc dnorm j Vs) as [[hs w'] b]. inversion E.
    - destruct (arnoldi_body F Afunc dnorm j Vs) as [[hs w'] b] eqn:EB. destruct (small b) eqn:Hs.
      + inversion E; subst cols' Vs'.
        assert (EQ : arnoldi_last Vs = (hs, w', b)).
        { unfold arnoldi_last. rewrite HV. replace (S j - 1) with j by lia. exact EB. }
        unfold arnoldi_last_resid, arnoldi_last_norm. rewrite EQ. cbn [fst snd]. split; [left; reflexivity|exact Hs].
      + destruct (IH (S j) (cols ++ [hs ++ [cof b]]) (Vs ++ [vdivr w' b]) cols' Vs' ltac:(rewrite app_length; cbn [length]; lia) E) as [HI Hsm].
        split; [right; exact HI|exact Hsm].
  Qed.

  (* entries of the returned array H (list of rows) *)
  Definition hfun (H : list (list K)) (i j : nat) : K := nth j (nth i H []) kz.

  (* Target 1 (Arnoldi) *)
  Theorem arnoldi_exact_breakdown_AV_VH (v : vec) m (H : list (list K)) (Vs : list vec) :
    length v = n -> v <> vzero n -> 1 <= m ->
    Forall (norm_ok F) (arnoldi_calls F Afunc dnorm small v m) ->
    arnoldi F Afunc dnorm small v m = Some (H, Vs, true) ->
    arnoldi_last_norm Vs = f0 F ->
    1 <= length Vs /\ length Vs < m /\ vat Vs 0 = vdivr v (dnorm v) /\ orthonormal Vs /\
    forall j, j < length Vs -> Afunc (vat Vs j) = lincomb n (tcol F (length Vs) (hfun H) j) Vs.
  Proof.
    intros Hv Hnz Hm HC E Hb. unfold arnoldi in E. unfold arnoldi_calls in HC.
    destruct m as [|m']; [lia|].
    inversion HC as [|c cs Hc Hcs]; subst c cs.
    pose proof (dnorm_start_ne v Hv Hnz Hc) as Hne.
    destruct (fltb F (f0 F) (dnorm v)); [|discriminate].
    assert (HI : ainv F n Afunc 0 [] [vdivr v (dnorm v)]).
    { unfold ainv. split; [reflexivity|]. split; [reflexivity|]. split; [split|].
      - intros i Hi. cbn [length] in Hi. replace i with 0%nat by lia. apply length_vdivr. exact Hv.
      - intros i j Hi Hj. cbn [length] in Hi, Hj. replace i with 0%nat by lia. replace j with 0%nat by lia.
        unfold KrylovLanczos.vat. cbn [nth]. rewrite delta_refl. apply unit_vdivr; assumption.
      - intros i Hi. lia. }
    pose proof (arnoldi_loop_spec F n Afunc dnorm small A_len small_pos m' 0 [] [vdivr v (dnorm v)] HI Hcs) as HP.
    pose proof (arnoldi_loop_first F Afunc dnorm small m' 0 [] [vdivr v (dnorm v)] ltac:(cbn [length]; lia)) as H0.
    replace (0 + m' + 1) with (S m') in HP by lia.
    destruct (arnoldi_loop F Afunc dnorm small m' 0 [] [vdivr v (dnorm v)]) as [[cols Vs0] wn0] eqn:EL.
    injection E as <- <- ->. cbn [fst snd] in H0.
    destruct (arnoldi_loop_break_call m' 0 [] [vdivr v (dnorm v)] cols Vs0 eq_refl EL) as [HIn _].
    assert (Hok : norm_ok F (arnoldi_last_resid Vs0, arnoldi_last_norm Vs0)).
    { rewrite Forall_forall in Hcs. apply Hcs. exact HIn. }
    rewrite Hb in Hok.
    destruct (arnoldi_last_form (S m') cols Vs0 true HP) as (hs & w' & EF & Lw & _).
    assert (Lw' : length (arnoldi_last_resid Vs0) = n).
    { unfold arnoldi_last_resid. rewrite EF. cbn [fst snd]. exact Lw. }
    assert (Hz : arnoldi_last_resid Vs0 = vzero n).
    { destruct Hok as [_ Hc2]. cbn [fst snd] in Hc2. rewrite <- Lw'. apply nrm2_zero. rewrite <- Hc2. ring. }
    pose proof HP as (Hk1 & _ & _ & Hw & Ho & _).
    split; [exact Hk1|]. split; [apply Hw; reflexivity|]. split; [exact H0|]. split; [exact Ho|].
    intros j Hj. rewrite (arnoldi_zero_resid_AV_VH (S m') cols Vs0 true HP Hz j Hj). f_equal.
    unfold tcol. apply map_ext_in. intros i Hi. apply in_seq in Hi. unfold hfun.
    symmetry. apply (hmat_entry F); [exact (proj2 Hi)|exact Hj].
  Qed.

  Theorem exhausted_poly_arnoldi (v : vec) m (H : list (list K)) (Vs : list vec) :
    linear F n Afunc ->
    length v = n -> v <> vzero n -> 1 <= m ->
    Forall (norm_ok F) (arnoldi_calls F Afunc dnorm small v m) ->
    arnoldi F Afunc dnorm small v m = Some (H, Vs, true) ->
    arnoldi_last_norm Vs = f0 F ->
    forall p : list K,
      pevalA F n Afunc p v =
      lincomb n (pevalT F (length Vs) (hfun H) p (cscale (cof (dnorm v)) (e0 F (length Vs)))) Vs.
  Proof.
    intros A_lin Hv Hnz Hm HC E Hb p.
    destruct (arnoldi_exact_breakdown_AV_VH v m H Vs Hv Hnz Hm HC E Hb) as (Hk1 & Hk & H0 & Ho & HAV).
    assert (Hc : norm_ok F (v, dnorm v)) by (unfold arnoldi_calls in HC; inversion HC; assumption).
    apply (krylov_exhausted_poly_start F n (length Vs) Afunc (hfun H) Vs A_len A_lin (orth_all F n Vs Ho) eq_refl HAV).
    - lia.
    - exact (dnorm_start_ne v Hv Hnz Hc).
    - exact H0.
  Qed.
End Exhaust.
