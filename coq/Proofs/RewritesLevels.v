(* C16: consequences of the layering of a well-formed operator graph: no self loops, the terminals are
   the only nodes at the extreme levels, and merge candidates are never the far terminal. *)
From Coq Require Import ZArith List Lia Bool Permutation.
From PT Require Import Base.Scalar Base.BigSum Model.OpGraph Model.Rewrites Proofs.RewritesBase.
Import ListNotations.
Open Scope Z_scope.

Section Levels.
  Variable R : cring.
  Notation graph := (graph R).
  Notation gedge := (gedge R).

  (* no self loops *)
  Lemma ends_ne (g : graph) e : WF R g -> In e (g_edges g) -> e_from e <> e_to e.
  Proof.
    intros W He E. destruct (wf_layered R g W) as [lv Hlv].
    specialize (Hlv e He). rewrite <- E in Hlv. lia.
  Qed.

  (* finite node lists have bounded levels *)
  Lemma lv_upper (l : list gnode) (lv : Z -> Z) : exists M, forall m, In m l -> lv (n_id m) <= M.
  Proof.
    induction l as [|a l IH].
    - exists 0. intros m Hm. destruct Hm.
    - destruct IH as [M HM]. exists (Z.max M (lv (n_id a))). intros m Hm.
      destruct Hm as [Hm|Hm].
      + subst m. lia.
      + specialize (HM m Hm). lia.
  Qed.
  Lemma lv_lower (l : list gnode) (lv : Z -> Z) : exists M, forall m, In m l -> M <= lv (n_id m).
  Proof.
    induction l as [|a l IH].
    - exists 0. intros m Hm. destruct Hm.
    - destruct IH as [M HM]. exists (Z.min M (lv (n_id a))). intros m Hm.
      destruct Hm as [Hm|Hm].
      + subst m. lia.
      + specialize (HM m Hm). lia.
  Qed.

  (* a node other than the end terminal has an outgoing edge to a node of the graph (and mirrored) *)
  Lemma step_up (g : graph) n : WF R g -> In n (g_nodes g) -> n_id n <> g_t1 g ->
    exists e n', In e (g_edges g) /\ In n' (g_nodes g) /\ e_from e = n_id n /\ e_to e = n_id n'.
  Proof.
    intros W Hn Hne.
    pose proof (wf_nd1 R g W n Hn Hne) as Hout. cbn [node_eids] in Hout.
    destruct (n_out n) as [|eid l] eqn:Eo; [congruence|].
    destruct (wf_ref0 R g W) as [_ [R2 _]].
    assert (Hin : In eid (node_eids n (1 - 0))).
    { cbn [node_eids Nat.sub]. rewrite Eo. left. reflexivity. }
    destruct (R2 n eid Hn Hin) as [e [He [_ Hend]]]. cbn [end_d] in Hend.
    destruct (wf_ref1 R g W) as [_ [_ R3]].
    destruct (R3 e He) as [n' [Hn' [Hid' _]]]. cbn [end_d] in Hid'.
    exists e, n'. repeat split; auto.
  Qed.
  Lemma step_down (g : graph) n : WF R g -> In n (g_nodes g) -> n_id n <> g_t0 g ->
    exists e n', In e (g_edges g) /\ In n' (g_nodes g) /\ e_to e = n_id n /\ e_from e = n_id n'.
  Proof.
    intros W Hn Hne.
    pose proof (wf_nd0 R g W n Hn Hne) as Hinl. cbn [node_eids] in Hinl.
    destruct (n_in n) as [|eid l] eqn:Eo; [congruence|].
    destruct (wf_ref1 R g W) as [_ [R2 _]].
    assert (Hin : In eid (node_eids n (1 - 1))).
    { cbn [node_eids Nat.sub]. rewrite Eo. left. reflexivity. }
    destruct (R2 n eid Hn Hin) as [e [He [_ Hend]]]. cbn [end_d] in Hend.
    destruct (wf_ref0 R g W) as [_ [_ R3]].
    destruct (R3 e He) as [n' [Hn' [Hid' _]]]. cbn [end_d] in Hid'.
    exists e, n'. repeat split; auto.
  Qed.

  (* a node at or beyond the level of the end terminal is the end terminal (and mirrored) *)
  Lemma level_top (g : graph) (lv : Z -> Z) n : WF R g ->
    (forall e, In e (g_edges g) -> lv (e_to e) = lv (e_from e) + 1) ->
    In n (g_nodes g) -> lv (g_t1 g) <= lv (n_id n) -> n_id n = g_t1 g.
  Proof.
    intros W Hlv Hn Hle.
    destruct (lv_upper (g_nodes g) lv) as [M HM].
    assert (K : forall (k : nat) m, In m (g_nodes g) -> M - lv (n_id m) <= Z.of_nat k ->
                  lv (g_t1 g) <= lv (n_id m) -> n_id m = g_t1 g).
    { induction k as [|k IH]; intros m Hm Hk Hlem.
      - destruct (Z.eq_dec (n_id m) (g_t1 g)) as [E|NE]; [exact E|exfalso].
        destruct (step_up g m W Hm NE) as [e [m' [He [Hm' [Ef Et]]]]].
        pose proof (Hlv e He) as Le. rewrite Ef, Et in Le.
        pose proof (HM m' Hm') as B. lia.
      - destruct (Z.eq_dec (n_id m) (g_t1 g)) as [E|NE]; [exact E|exfalso].
        destruct (step_up g m W Hm NE) as [e [m' [He [Hm' [Ef Et]]]]].
        pose proof (Hlv e He) as Le. rewrite Ef, Et in Le.
        assert (E' : n_id m' = g_t1 g) by (apply IH; [exact Hm'|lia|lia]).
        rewrite E' in Le. lia. }
    apply (K (Z.to_nat (M - lv (n_id n))) n Hn); [|exact Hle].
    pose proof (HM n Hn) as B. lia.
  Qed.
  Lemma level_bottom (g : graph) (lv : Z -> Z) n : WF R g ->
    (forall e, In e (g_edges g) -> lv (e_to e) = lv (e_from e) + 1) ->
    In n (g_nodes g) -> lv (n_id n) <= lv (g_t0 g) -> n_id n = g_t0 g.
  Proof.
    intros W Hlv Hn Hle.
    destruct (lv_lower (g_nodes g) lv) as [M HM].
    assert (K : forall (k : nat) m, In m (g_nodes g) -> lv (n_id m) - M <= Z.of_nat k ->
                  lv (n_id m) <= lv (g_t0 g) -> n_id m = g_t0 g).
    { induction k as [|k IH]; intros m Hm Hk Hlem.
      - destruct (Z.eq_dec (n_id m) (g_t0 g)) as [E|NE]; [exact E|exfalso].
        destruct (step_down g m W Hm NE) as [e [m' [He [Hm' [Et Ef]]]]].
        pose proof (Hlv e He) as Le. rewrite Ef, Et in Le.
        pose proof (HM m' Hm') as B. lia.
      - destruct (Z.eq_dec (n_id m) (g_t0 g)) as [E|NE]; [exact E|exfalso].
        destruct (step_down g m W Hm NE) as [e [m' [He [Hm' [Et Ef]]]]].
        pose proof (Hlv e He) as Le. rewrite Ef, Et in Le.
        assert (E' : n_id m' = g_t0 g) by (apply IH; [exact Hm'|lia|lia]).
        rewrite E' in Le. lia. }
    apply (K (Z.to_nat (lv (n_id n) - M)) n Hn); [|exact Hle].
    pose proof (HM n Hn) as B. lia.
  Qed.

  (* two edges with the same d-end and different other ends: the other ends are not the far terminal *)
  Lemma merge_up_not_terminal (g : graph) d e1 e2 : WF R g -> (d <= 1)%nat ->
    In e1 (g_edges g) -> In e2 (g_edges g) -> end_d R d e1 = end_d R d e2 -> end_o R d e1 <> end_o R d e2 ->
    end_o R d e2 <> terminal g (1 - d) /\ end_o R d e1 <> terminal g (1 - d).
  Proof.
    intros W Hd He1 He2 Eend Hne.
    destruct (wf_layered R g W) as [lv Hlv].
    pose proof (Hlv e1 He1) as L1. pose proof (Hlv e2 He2) as L2.
    destruct d as [|[|d]]; [| |lia]; cbn [end_d end_o terminal Nat.sub] in *.
    - destruct (wf_ref1 R g W) as [_ [_ R3]].
      destruct (R3 e1 He1) as [n1 [Hn1 [Hid1 _]]]. destruct (R3 e2 He2) as [n2 [Hn2 [Hid2 _]]].
      cbn [end_d] in Hid1, Hid2. rewrite Eend in L1.
      split; intros T; apply Hne.
      + assert (E1 : n_id n1 = g_t1 g).
        { apply (level_top g lv n1 W Hlv Hn1). rewrite Hid1, <- T. lia. }
        congruence.
      + assert (E2 : n_id n2 = g_t1 g).
        { apply (level_top g lv n2 W Hlv Hn2). rewrite Hid2, <- T. lia. }
        congruence.
    - destruct (wf_ref0 R g W) as [_ [_ R3]].
      destruct (R3 e1 He1) as [n1 [Hn1 [Hid1 _]]]. destruct (R3 e2 He2) as [n2 [Hn2 [Hid2 _]]].
      cbn [end_d] in Hid1, Hid2. rewrite Eend in L1.
      split; intros T; apply Hne.
      + assert (E1 : n_id n1 = g_t0 g).
        { apply (level_bottom g lv n1 W Hlv Hn1). rewrite Hid1, <- T. lia. }
        congruence.
      + assert (E2 : n_id n2 = g_t0 g).
        { apply (level_bottom g lv n2 W Hlv Hn2). rewrite Hid2, <- T. lia. }
        congruence.
  Qed.
End Levels.

Print Assumptions level_top.
Print Assumptions merge_up_not_terminal.
