(* Boolean versions of the eigh_tridiagonal contracts and a concrete rational instance (non-vacuity of the
   C15 theorems): A = D Q (T2 (+) [-1]) Q D^H with T2 = [[16,12],[12,9]] = U diag(0,25) U^T,
   U = [[3/5,4/5],[-4/5,3/5]]; start vector (1,-2i,2); numiter = 2. *)
From Coq Require Import ZArith QArith Qcanon List Bool Arith Lia PArith.
From PT Require Import Base.Scalar Base.Field Base.BigSum Model.Krylov Proofs.KrylovVec Proofs.KrylovLanczos
  Proofs.KrylovArnoldi Proofs.KrylovMatvec Proofs.KrylovExpm Proofs.KrylovRitz Proofs.KrylovExamples.
Import ListNotations.
Open Scope nat_scope.

Section Checkers.
  Variable F : ofield.
  Notation K := (Cx F).
  Notation uent U i j := (nth j (nth i U []) (f0 F)).
  Definition all2 (k : nat) (P : nat -> nat -> bool) : bool :=
    forallb (fun i => forallb (fun j => P i j) (seq 0 k)) (seq 0 k).
  Lemma all2_ok k P : all2 k P = true -> forall i j, i < k -> j < k -> P i j = true.
  Proof.
    unfold all2. rewrite forallb_forall. intros H i j Hi Hj.
    specialize (H i ltac:(apply in_seq; lia)). rewrite forallb_forall in H. apply H, in_seq. lia.
  Qed.
  Definition shapeb (k : nat) (w : list F) (U : list (list F)) : bool :=
    Nat.eqb (length w) k && Nat.eqb (length U) k && forallb (fun i => Nat.eqb (length (nth i U [])) k) (seq 0 k).
  Definition colsb (k : nat) (U : list (list F)) : bool :=
    all2 k (fun p q => keqb K (sumn k (fun i => kmul K (cof (uent U i p)) (cof (uent U i q)))) (delta F p q)).
  Definition eigh_okb (k : nat) (al be : list F) (wU : list F * list (list F)) : bool :=
    let '(w, U) := wU in
    shapeb k w U && colsb k U &&
    all2 k (fun i q => keqb K (sumn k (fun j => kmul K (tri F al be i j) (cof (uent U j q))))
                              (cof (fmul F (uent U i q) (nth q w (f0 F))))).
  Definition eigh_orthb (k : nat) (wU : list F * list (list F)) : bool :=
    let '(w, U) := wU in
    shapeb k w U && colsb k U &&
    keqb K (sumn k (fun l => kmul K (cof (uent U 0 l)) (cof (uent U 0 l)))) (k1 K).
  Definition eigh_sortedb (k : nat) (wU : list F * list (list F)) : bool :=
    let '(w, U) := wU in
    forallb (fun q => fleb F (nth 0 w (f0 F)) (nth q w (f0 F))) (seq 0 k) &&
    forallb (fun j => keqb K (sumn k (fun q => kmul K (cof (uent U j q)) (cof (uent U 0 q)))) (delta F j 0)) (seq 0 k).

  Lemma shapeb_ok k w U : shapeb k w U = true ->
    length w = k /\ length U = k /\ (forall i, i < k -> length (nth i U []) = k).
  Proof.
    unfold shapeb. rewrite !andb_true_iff, !Nat.eqb_eq, forallb_forall. intros [[H1 H2] H3].
    repeat split; try assumption. intros i Hi. apply Nat.eqb_eq, H3, in_seq. lia.
  Qed.
  Lemma colsb_ok k U : colsb k U = true -> forall p q, p < k -> q < k ->
    sumn k (fun i => kmul K (cof (uent U i p)) (cof (uent U i q))) = delta F p q.
  Proof. intros H p q Hp Hq. apply keqb_spec. exact (all2_ok k _ H p q Hp Hq). Qed.

  Lemma eigh_okb_ok k al be wU : eigh_okb k al be wU = true -> eigh_ok F k al be wU.
  Proof.
    destruct wU as [w U]. unfold eigh_okb, eigh_ok. rewrite !andb_true_iff. intros [[H1 H2] H3].
    destruct (shapeb_ok k w U H1) as (A1 & A2 & A3). repeat split; try assumption.
    - apply colsb_ok. exact H2.
    - intros i q Hi Hq. apply keqb_spec. exact (all2_ok k _ H3 i q Hi Hq).
  Qed.
  Lemma eigh_orthb_ok k wU : eigh_orthb k wU = true -> eigh_orth F k wU.
  Proof.
    destruct wU as [w U]. unfold eigh_orthb, eigh_orth. rewrite !andb_true_iff. intros [[H1 H2] H3].
    destruct (shapeb_ok k w U H1) as (A1 & A2 & A3). repeat split; try assumption.
    - apply colsb_ok. exact H2.
    - apply keqb_spec. exact H3.
  Qed.
  Lemma eigh_sortedb_ok k wU : eigh_sortedb k wU = true -> eigh_sorted F k wU.
  Proof.
    destruct wU as [w U]. unfold eigh_sortedb, eigh_sorted. rewrite andb_true_iff, !forallb_forall. intros [H1 H2]. split.
    - intros q Hq. apply H1, in_seq. lia.
    - intros j Hj. apply keqb_spec, H2, in_seq. lia.
  Qed.
End Checkers.

Definition ex_A4 : list (list (C QcF)) :=
  [[((qq 0 1), (qq 0 1)); ((qq 0 1), (qq (-2) 3)); ((qq (-10) 3), (qq 0 1))];
   [((qq 0 1), (qq 2 3)); ((qq 7 3), (qq 0 1)); ((qq 0 1), (qq (-8) 1))];
   [((qq (-10) 3), (qq 0 1)); ((qq 0 1), (qq 8 1)); ((qq 65 3), (qq 0 1))]].
Definition deigh_ex (al be : list Qc) : list Qc * list (list Qc) :=
  ([qq 0 1; qq 25 1], [[qq 3 5; qq 4 5]; [qq (-4) 5; qq 3 5]]).
(* a unimodular "phase": any oracle with |dexp z| = 1 meets the contract used by the isometry theorem *)
Definition dexp_ex (z : C QcF) : C QcF := (qq 3 5, qq 4 5).
Definition ex_dt : C QcF := (qq 0 1, qq 1 2).

Lemma ex4_len : maps_len QcF 3 (matvec ex_A4).
Proof. apply matvec_len, mat_wfb_ok. vm_compute. reflexivity. Qed.
Lemma ex4_sa : self_adjoint QcF 3 (matvec ex_A4).
Proof. apply matvec_self_adjoint; [apply mat_wfb_ok|apply hermitianb_ok]; vm_compute; reflexivity. Qed.
Lemma ex4_lin : linear QcF 3 (matvec ex_A4).
Proof. apply matvec_linear. reflexivity. Qed.
Lemma ex4_calls : Forall (norm_ok QcF) (lanczos_calls QcF (matvec ex_A4) dnorm_ex ex_small ex_v 2).
Proof. apply norm_okb_all. vm_compute. reflexivity. Qed.

Lemma ex4_eigh_ok : eigh_oracle_ok QcF (matvec ex_A4) dnorm_ex ex_small deigh_ex ex_v 2.
Proof.
  intros al be Vs wn E. vm_compute in E. injection E as <- <- <- <-.
  apply eigh_okb_ok. vm_compute. reflexivity.
Qed.
Lemma ex4_eigh_sorted : eigh_oracle_sorted QcF (matvec ex_A4) dnorm_ex ex_small deigh_ex ex_v 2.
Proof.
  intros al be Vs wn E. vm_compute in E. injection E as <- <- <- <-.
  apply eigh_sortedb_ok. vm_compute. reflexivity.
Qed.
Lemma ex4_expm_oracles : expm_h_oracles_ok QcF dexp_ex (matvec ex_A4) dnorm_ex ex_small deigh_ex ex_v ex_dt 2.
Proof.
  intros al be Vs wn E. vm_compute in E. injection E as <- <- <- <-. split.
  - apply eigh_orthb_ok. vm_compute. reflexivity.
  - intros l _. apply (feqb_spec QcF). vm_compute. reflexivity.
Qed.

Lemma ex4_isometry :
  exists x, expm_krylov QcF (matvec ex_A4) dnorm_ex ex_small deigh_ex dexp_ex (fun M => M) ex_v ex_dt 2 true = Some x /\
            length x = 3 /\ nrm2 x = nrm2 ex_v.
Proof.
  apply (expm_hermitian_isometry QcF 3 dexp_ex (matvec ex_A4) dnorm_ex ex_small deigh_ex (fun M => M) ex4_len ex4_sa ex_small_sound);
    [reflexivity|exact ex_v_nonzero|lia|exact ex4_calls|exact ex4_expm_oracles].
Qed.
Lemma ex4_ritz :
  exists ws us, eigh_krylov QcF (matvec ex_A4) dnorm_ex ex_small deigh_ex ex_v 2 2 = Some (ws, us) /\
                ritz_post QcF 3 (matvec ex_A4) 2 2 ws us.
Proof.
  apply (ritz_vectors QcF 3 (matvec ex_A4) ex4_len ex4_lin dnorm_ex ex_small deigh_ex ex4_sa ex_small_sound);
    [reflexivity|exact ex_v_nonzero|lia|exact ex4_calls|exact ex4_eigh_ok].
Qed.
Lemma ex4_upper :
  exists ws us, eigh_krylov QcF (matvec ex_A4) dnorm_ex ex_small deigh_ex ex_v 2 2 = Some (ws, us) /\ 1 <= length ws /\
    fle QcF (fmul QcF (nth 0 ws (f0 QcF)) (nrm2 ex_v)) (cre (vdot ex_v (matvec ex_A4 ex_v))).
Proof.
  apply (ritz_upper_bound QcF 3 (matvec ex_A4) ex4_len ex4_lin dnorm_ex ex_small deigh_ex ex4_sa ex_small_sound);
    [reflexivity|exact ex_v_nonzero|lia|lia|exact ex4_calls|exact ex4_eigh_ok|exact ex4_eigh_sorted].
Qed.

(* ---- exhausted Krylov space: ex_A2 with the two Lanczos vectors returned at breakdown ---- *)
From PT Require Import Proofs.KrylovPoly.
Lemma list_keqb_ok (F : ofield) (x y : list (Cx F)) : list_approx (keqb (Cx F)) x y = true -> x = y.
Proof.
  revert y; induction x as [|a x IH]; intros [|b y] H; cbn [list_approx] in H; try discriminate; [reflexivity|].
  apply andb_true_iff in H. destruct H as [H1 H2]. apply keqb_spec in H1. subst b. f_equal. apply IH. exact H2.
Qed.
Definition ex2_Vs : list (list (C QcF)) :=
  match lanczos QcF (matvec ex_A2) dnorm_ex ex_small ex_v 3 with Some (_, _, Vs, _) => Vs | None => [] end.
Definition ex2_t (i j : nat) : C QcF := tri QcF [qq 1 1; qq 0 1] [qq 2 1] i j.
Lemma ex2_AV_VT : forall j, j < 2 -> matvec ex_A2 (vat QcF ex2_Vs j) = lincomb 3 (tcol QcF 2 ex2_t j) ex2_Vs.
Proof.
  intros j Hj. apply list_keqb_ok. destruct j as [|[|j]]; [vm_compute; reflexivity|vm_compute; reflexivity|lia].
Qed.
Lemma ex2_V_len : forall v, In v ex2_Vs -> length v = 3.
Proof.
  intros v Hv. destruct (In_nth _ _ [] Hv) as (i & Hi & <-).
  change (length ex2_Vs) with 2 in Hi. destruct i as [|[|i]]; [reflexivity|reflexivity|lia].
Qed.
Lemma ex2_poly : forall p : list (C QcF),
  pevalA QcF 3 (matvec ex_A2) p ex_v =
  lincomb 3 (pevalT QcF 2 ex2_t p (cscale (@cof QcF (dnorm_ex ex_v)) (e0 QcF 2))) ex2_Vs.
Proof.
  intros p.
  apply (krylov_exhausted_poly_start QcF 3 2 (matvec ex_A2) ex2_t ex2_Vs).
  - apply matvec_len, mat_wfb_ok. vm_compute. reflexivity.
  - apply matvec_linear. reflexivity.
  - exact ex2_V_len.
  - reflexivity.
  - exact ex2_AV_VT.
  - lia.
  - intros E. apply (f_equal (fun a : Qc => Qnum (this a))) in E. vm_compute in E. discriminate.
  - apply list_keqb_ok. vm_compute. reflexivity.
Qed.
