(* C20, all lattice sizes, XXZ family, part 2: one pass of the site loop.
   Invariant [Psi n started sk] of the half-chains in flight with n sites to go: one node (the identity string so far) carries
   exactly the not yet started terms [Fut c n]; every other half-chain is a started or finished term [Late c n]; after the
   first site there is such a half-chain, before it there is none.
   For EVERY certified cover (valid + matching of the same size) of the site graph of such a state:
     its size is 1 (last site), 4 (first site, or one site before the last), 5 (otherwise), and
     the half-chains after the pass satisfy the invariant again. *)
From Coq Require Import ZArith List Lia Bool.
From PT Require Import Base.Scalar Base.BigSum Model.OpGraph Model.Bipartite Model.FromOpchains Model.Compact
                       Proofs.FromOpchainsGraph Proofs.FromOpchainsPart Proofs.CompactCount Proofs.CompactAllLPart
                       Proofs.CompactAllLMatch Proofs.CompactAllLXXZBody.
Import ListNotations.
Open Scope Z_scope.

Definition mkV (b : wbody) : hchain := mkh (fst b) (snd b) (-1).
Lemma body_mkV b : body (mkV b) = b. Proof. destruct b; reflexivity. Qed.
Lemma mkV_inj b b' : mkV b = mkV b' -> b = b'. Proof. intros H. rewrite <- (body_mkV b), <- (body_mkV b'), H. reflexivity. Qed.
Lemma split_v_mkV h : split_v h = mkV (tailb (body h)). Proof. reflexivity. Qed.
Lemma reh_eta h' v : body h' = body v -> h' = reh v (h_nidl h').
Proof. destruct h', v. unfold body, reh. cbn. intros E. inversion E. reflexivity. Qed.
Lemma wbody_eq_dec (a b : wbody) : {a = b} + {a <> b}.
Proof. decide equality; apply (list_eq_dec Z.eq_dec). Qed.

Definition dsz (n : nat) (started : bool) : nat :=
  match n with
  | O => 0%nat
  | S O => 1%nat
  | S (S O) => 4%nat
  | _ => if started then 5%nat else 4%nat
  end.

Section Site.
  Variable R : cring.
  Variable c : Z.
  Hypothesis c_nz : c <> 0.

  Definition Psi (n : nat) (started : bool) (sk : list hchain) : Prop :=
    exists nid0,
      (forall h, h_nidl h = nid0 -> (In h sk <-> Fut c n (body h))) /\
      (forall h, In h sk -> h_nidl h <> nid0 -> Late c n (body h)) /\
      (if started then exists h, In h sk /\ h_nidl h <> nid0 else forall h, In h sk -> h_nidl h = nid0).

  Lemma Late_dec n b : {Late c n b} + {~ Late c n b}.
  Proof.
    unfold Late. destruct (wbody_eq_dec b (bp n (-1) c)); [left; auto|]. destruct (wbody_eq_dec b (bp n 1 (- c))); [left; auto|].
    destruct (wbody_eq_dec b (bp n 2 0)); [left; auto|]. destruct (wbody_eq_dec b (bd n)); [left; auto|]. right. tauto.
  Qed.

  Variable p : part R.
  Variable sk : list hchain.
  Hypothesis PS : PSpec R p sk.
  Variable n : nat.                                   (* S n sites to go *)
  Variable started : bool.
  Variable nid0 : Z.
  Hypothesis HF : forall h, h_nidl h = nid0 -> (In h sk <-> Fut c (S n) (body h)).
  Hypothesis HL : forall h, In h sk -> h_nidl h <> nid0 -> Late c (S n) (body h).
  Hypothesis HS : if started then exists h, In h sk /\ h_nidl h <> nid0 else forall h, In h sk -> h_nidl h = nid0.

  Notation E := (E sk).
  Let vP := mkU sP nid0.
  Let vX := mkU (sX c) nid0.
  Let vY := mkU (sY c) nid0.
  Let vS := mkU sS nid0.
  Let va := mkV (bp n (-1) c).
  Let vb := mkV (bp n 1 (- c)).
  Let vc' := mkV (bp n 2 0).
  Let vD := mkV (bd n).
  Definition offnode (u : unode) : Prop := forall t, u <> mkU t nid0.

  Lemma Ecases u v : E u v ->
    (u = vP /\ Fut c n (body v)) \/ (u = vX /\ v = va) \/ (u = vY /\ v = vb) \/ (u = vS /\ (v = vc' \/ v = vD)) \/ (offnode u /\ v = vD).
  Proof.
    intros [h [Hh [Eu Ev]]]. rewrite split_u_sig in Eu. rewrite split_v_mkV in Ev. subst u v.
    destruct (Z.eq_dec (h_nidl h) nid0) as [En|Hne].
    - apply (HF h En) in Hh. rewrite En. destruct (FutCase c n (body h) Hh) as [[A B]|[[A B]|[[A B]|[A B]]]].
      + left. rewrite A, body_mkV. auto.
      + right. left. rewrite A, B. auto.
      + right. right. left. rewrite A, B. auto.
      + right. right. right. left. rewrite A. split; [reflexivity|]. destruct B as [B|B]; rewrite B; auto.
    - right. right. right. right. split.
      + intros t Et. apply mkU_inj in Et. destruct Et as [_ Et]. contradiction.
      + rewrite (LateCase c n (body h) (HL h Hh Hne)). reflexivity.
  Qed.

  Lemma E_of_fut b : Fut c (S n) b -> E (mkU (usig b) nid0) (mkV (tailb b)).
  Proof.
    intros Hb. exists (mkh (fst b) (snd b) nid0). split; [|split].
    - apply HF; [reflexivity|]. destruct b; exact Hb.
    - rewrite split_u_sig. destruct b; reflexivity.
    - rewrite split_v_mkV. destruct b; reflexivity.
  Qed.
  Lemma E_P b : Fut c n b -> E vP (mkV b).
  Proof. intros Hb. destruct (FutUp c n b Hb) as [b0 [A [B C]]]. pose proof (E_of_fut b0 A) as H. rewrite B, C in H. exact H. Qed.
  Lemma E_X : (1 <= n)%nat -> E vX va.
  Proof. intros Hn. pose proof (E_of_fut _ (Fut_X c n Hn)) as H. destruct (T2 n 1 (-1) c) as [A B]. rewrite A, B in H. exact H. Qed.
  Lemma E_Y : (1 <= n)%nat -> E vY vb.
  Proof. intros Hn. pose proof (E_of_fut _ (Fut_Y c n Hn)) as H. destruct (T2 n (-1) 1 (- c)) as [A B]. rewrite A, B in H. exact H. Qed.
  Lemma E_S2 : (1 <= n)%nat -> E vS vc'.
  Proof. intros Hn. pose proof (E_of_fut _ (Fut_S2 c n Hn)) as H. destruct (T2 n 2 2 0) as [A B]. rewrite A, B in H. exact H. Qed.
  Lemma E_S1 : E vS vD.
  Proof. pose proof (E_of_fut _ (Fut_S1 c n)) as H. destruct (T4 n 2) as [A B]. rewrite A, B in H. exact H. Qed.
  Lemma E_late : started = true -> exists u, offnode u /\ E u vD.
  Proof.
    intros Hs. rewrite Hs in HS. destruct HS as [h [Hh Hne]]. exists (split_u h). split.
    - intros t Et. rewrite split_u_sig in Et. apply mkU_inj in Et. destruct Et as [_ Et]. contradiction.
    - exists h. split; [exact Hh|]. split; [reflexivity|]. rewrite split_v_mkV, (LateCase c n (body h) (HL h Hh Hne)). reflexivity.
  Qed.
  Lemma not_started_on : started = false -> forall u v, E u v -> ~ offnode u.
  Proof.
    intros Hs u v [h [Hh [Eu _]]] Hoff. rewrite Hs in HS. apply (Hoff (usig (body h))). rewrite <- Eu, split_u_sig, (HS h Hh). reflexivity.
  Qed.
  Lemma Fut_c' : (1 <= n)%nat -> Fut c n (bp n 2 0).
  Proof. intros Hn. rewrite bp_b1. destruct n as [|n0]; [lia|]. apply Fut_S1. Qed.

  (* vertices are distinct *)
  Lemma U4_nodup : NoDup [vP; vX; vY; vS].
  Proof.
    unfold vP, vX, vY, vS. apply (NoDup_map_inj (fun t => mkU t nid0) [sP; sX c; sY c; sS] (sig_distinct c)).
    intros x y _ _ Exy. apply mkU_inj in Exy. apply Exy.
  Qed.
  Lemma V4_nodup : NoDup [va; vb; vc'; vD].
  Proof.
    unfold va, vb, vc', vD. apply (NoDup_map_inj mkV _ (late_distinct c n)). intros x y _ _ Exy. exact (mkV_inj _ _ Exy).
  Qed.
  Lemma off_not4 u : offnode u -> ~ In u [vP; vX; vY; vS].
  Proof. intros Ho [H|[H|[H|[H|[]]]]]; symmetry in H; exact (Ho _ H). Qed.

  Definition ueqb (a b : unode) : bool := unode_eqb a b.
  Lemma ueqb_spec a b : reflect (a = b) (ueqb a b).
  Proof.
    unfold ueqb. destruct (unode_eqb a b) eqn:Eq; constructor.
    - apply unode_eqb_eq. exact Eq.
    - intros ->. rewrite unode_eqb_refl in Eq. discriminate.
  Qed.
  Definition clsU (u : unode) : nat :=
    if ueqb u vP then 0%nat else if ueqb u vX then 1%nat else if ueqb u vY then 2%nat else if ueqb u vS then 3%nat else 4%nat.
  Lemma clsU_4 u : clsU u = 4%nat -> ~ In u [vP; vX; vY; vS].
  Proof.
    unfold clsU. destruct (ueqb_spec u vP); [discriminate|]. destruct (ueqb_spec u vX); [discriminate|].
    destruct (ueqb_spec u vY); [discriminate|]. destruct (ueqb_spec u vS); [discriminate|]. intros _ [H|[H|[H|[H|[]]]]]; congruence.
  Qed.
  Lemma clsU_lt u : clsU u <> 4%nat -> In u [vP; vX; vY; vS] /\ (clsU u < 4)%nat.
  Proof.
    unfold clsU. destruct (ueqb_spec u vP) as [e|]; [intros _; split; [left; symmetry; exact e|lia]|].
    destruct (ueqb_spec u vX) as [e|]; [intros _; split; [right; left; symmetry; exact e|lia]|].
    destruct (ueqb_spec u vY) as [e|]; [intros _; split; [right; right; left; symmetry; exact e|lia]|].
    destruct (ueqb_spec u vS) as [e|]; [intros _; split; [right; right; right; left; symmetry; exact e|lia]|]. congruence.
  Qed.
  Lemma clsU_inj u u' : clsU u = clsU u' -> clsU u <> 4%nat -> u = u'.
  Proof.
    unfold clsU. destruct (ueqb_spec u vP), (ueqb_spec u' vP); try congruence;
    destruct (ueqb_spec u vX), (ueqb_spec u' vX); try congruence;
    destruct (ueqb_spec u vY), (ueqb_spec u' vY); try congruence;
    destruct (ueqb_spec u vS), (ueqb_spec u' vS); try congruence; try discriminate.
  Qed.
  (* an edge whose U end is none of the four vertices of the identity node ends in vD *)
  Lemma other_to_D u v : E u v -> ~ In u [vP; vX; vY; vS] -> v = vD.
  Proof.
    intros HE Hn. destruct (Ecases u v HE) as [[A _]|[[A _]|[[A _]|[[A _]|[_ B]]]]]; try (exfalso; apply Hn; rewrite A; cbn; auto 6). exact B.
  Qed.

  (* ---- certified cover ---- *)
  Variables (uc vc : list nat) (mc : list (nat * nat)).
  Hypothesis cov : forall e, In e (p_edges p) -> In (fst e) uc \/ In (snd e) vc.
  Hypothesis mc_es : incl mc (p_edges p).
  Hypothesis mc_u : NoDup (map fst mc).
  Hypothesis mc_v : NoDup (map snd mc).
  Hypothesis mc_len : length mc = (length uc + length vc)%nat.
  Hypothesis uc_nd : NoDup uc.

  Let d := dsz (S n) started.

  (* the value matchings *)
  Definition Mfirst (v : hchain) : list (unode * hchain) := [(vP, v); (vS, vD); (vX, va); (vY, vb)].
  Definition Mbulk (u : unode) (v : hchain) : list (unode * hchain) := [(vP, v); (vS, vc'); (u, vD); (vX, va); (vY, vb)].
  Definition Mpen (u : unode) : list (unode * hchain) := [(vP, vc'); (u, vD); (vX, va); (vY, vb)].

  Lemma nodup_cons4 {A} (x : A) l : NoDup l -> ~ In x l -> NoDup (x :: l).
  Proof. intros H1 H2. constructor; assumption. Qed.

  Lemma Mfirst_ok v : (1 <= n)%nat -> Fut c n (body v) -> v = mkV (body v) -> ~ In v [va; vb; vD] ->
    (forall uv, In uv (Mfirst v) -> E (fst uv) (snd uv)) /\ NoDup (map fst (Mfirst v)) /\ NoDup (map snd (Mfirst v)).
  Proof.
    intros Hn Hv Ev Hnot. split; [|split].
    - intros uv [<-|[<-|[<-|[<-|[]]]]]; cbn [fst snd]; [rewrite Ev; apply E_P; exact Hv|apply E_S1|apply E_X; exact Hn|apply E_Y; exact Hn].
    - cbn [Mfirst map fst]. pose proof U4_nodup as N. inversion N as [|? ? N1 N2]; subst. inversion N2 as [|? ? N3 N4]; subst.
      inversion N4 as [|? ? N5 N6]; subst. cbn [In] in *. repeat constructor; cbn [In]; intuition.
    - cbn [Mfirst map snd]. pose proof V4_nodup as N. inversion N as [|? ? N1 N2]; subst. inversion N2 as [|? ? N3 N4]; subst.
      inversion N4 as [|? ? N5 N6]; subst. cbn [In] in *. repeat constructor; cbn [In]; intuition.
  Qed.
  Lemma Mbulk_ok u v : (1 <= n)%nat -> offnode u -> E u vD -> Fut c n (body v) -> v = mkV (body v) -> ~ In v [va; vb; vc'; vD] ->
    (forall uv, In uv (Mbulk u v) -> E (fst uv) (snd uv)) /\ NoDup (map fst (Mbulk u v)) /\ NoDup (map snd (Mbulk u v)).
  Proof.
    intros Hn Hoff Hu Hv Ev Hnot. pose proof (off_not4 u Hoff) as Hu4. split; [|split].
    - intros uv [<-|[<-|[<-|[<-|[<-|[]]]]]]; cbn [fst snd];
        [rewrite Ev; apply E_P; exact Hv|apply E_S2; exact Hn|exact Hu|apply E_X; exact Hn|apply E_Y; exact Hn].
    - cbn [Mbulk map fst]. pose proof U4_nodup as N. inversion N as [|? ? N1 N2]; subst. inversion N2 as [|? ? N3 N4]; subst.
      inversion N4 as [|? ? N5 N6]; subst. cbn [In] in *. repeat constructor; cbn [In]; intuition.
    - cbn [Mbulk map snd]. pose proof V4_nodup as N. inversion N as [|? ? N1 N2]; subst. inversion N2 as [|? ? N3 N4]; subst.
      inversion N4 as [|? ? N5 N6]; subst. cbn [In] in *. repeat constructor; cbn [In]; intuition.
  Qed.
  Lemma Mpen_ok u : (1 <= n)%nat -> offnode u -> E u vD ->
    (forall uv, In uv (Mpen u) -> E (fst uv) (snd uv)) /\ NoDup (map fst (Mpen u)) /\ NoDup (map snd (Mpen u)).
  Proof.
    intros Hn Hoff Hu. pose proof (off_not4 u Hoff) as Hu4. split; [|split].
    - intros uv [<-|[<-|[<-|[<-|[]]]]]; cbn [fst snd]; [apply E_P; apply Fut_c'; exact Hn|exact Hu|apply E_X; exact Hn|apply E_Y; exact Hn].
    - cbn [Mpen map fst]. pose proof U4_nodup as N. inversion N as [|? ? N1 N2]; subst. inversion N2 as [|? ? N3 N4]; subst.
      inversion N4 as [|? ? N5 N6]; subst. cbn [In] in *. repeat constructor; cbn [In]; intuition.
    - cbn [Mpen map snd]. pose proof V4_nodup as N. inversion N as [|? ? N1 N2]; subst. inversion N2 as [|? ? N3 N4]; subst.
      inversion N4 as [|? ? N5 N6]; subst. cbn [In] in *. repeat constructor; cbn [In]; intuition.
  Qed.

  Lemma E_v_eta u v : E u v -> v = mkV (body v).
  Proof. intros [h [_ [_ Ev]]]. rewrite <- Ev, split_v_mkV, body_mkV. reflexivity. Qed.
  Lemma E_P_inv v : E vP v -> Fut c n (body v).
  Proof.
    intros HE. pose proof U4_nodup as N. inversion N as [|? ? N1 _]; subst. cbn [In] in N1.
    destruct (Ecases vP v HE) as [[_ A]|[[A _]|[[A _]|[[A _]|[A _]]]]]; [exact A| | | |]; try (exfalso; apply N1; rewrite <- A; auto 6).
    exfalso. exact (A sP eq_refl).
  Qed.
  Lemma late_of_edge u v : E u v -> u <> vP -> Late c n (body v).
  Proof.
    intros HE Hne. unfold Late. destruct (Ecases u v HE) as [[A _]|[[_ A]|[[_ A]|[[_ [A|A]]|[_ A]]]]]; [contradiction| | | | |]; rewrite A; unfold va, vb, vc', vD; rewrite body_mkV; auto.
  Qed.
  (* last site: a single V vertex *)
  Lemma E_last u v : n = 0%nat -> E u v -> v = vD.
  Proof.
    intros Hn [h [Hh [_ Ev]]]. rewrite split_v_mkV in Ev. subst v. unfold vD. f_equal.
    destruct (Z.eq_dec (h_nidl h) nid0) as [En|Hne].
    - apply (HF h En) in Hh. revert Hh. rewrite Hn. intros Hh. rewrite (Fut_one c _ Hh). apply (T4 0 2).
    - apply (LateCase c n). exact (HL h Hh Hne).
  Qed.

  Definition heqb (a b : hchain) : bool := hchain_eqb a b.
  Lemma heqb_spec a b : reflect (a = b) (heqb a b).
  Proof.
    unfold heqb. destruct (hchain_eqb a b) eqn:Eq; constructor.
    - apply hchain_eqb_eq. exact Eq.
    - intros ->. rewrite hchain_eqb_refl in Eq. discriminate.
  Qed.
  Definition clsPen (u : unode) (v : hchain) : nat :=
    if ueqb u vX then 2%nat else if ueqb u vY then 3%nat else if heqb v vc' then 0%nat else 1%nat.

  Theorem site_size : (length uc + length vc)%nat = d.
  Proof.
    unfold d. destruct (Nat.eq_dec n 0) as [Hn0|Hn0].
    - (* last site *)
      replace (dsz (S n) started) with 1%nat by (rewrite Hn0; reflexivity).
      apply (cover_size R p sk PS uc vc mc cov mc_es mc_u mc_v mc_len (fun _ _ => 0%nat) 1%nat [(vS, vD)]).
      + intros; lia.
      + intros u v u' v' H1 H2 _. right. rewrite (E_last u v Hn0 H1), (E_last u' v' Hn0 H2). reflexivity.
      + intros uv [<-|[]]. apply E_S1.
      + repeat constructor; intros [].
      + repeat constructor; intros [].
      + reflexivity.
    - destruct (Nat.eq_dec n 1) as [Hn1|Hn1].
      + (* one site before the last *)
        replace (dsz (S n) started) with 4%nat by (rewrite Hn1; reflexivity).
        assert (Hcls : forall u v u' v', E u v -> E u' v' -> clsPen u v = clsPen u' v' -> u = u' \/ v = v').
        { assert (Hone : forall u v, E u v -> clsPen u v = 1%nat -> v = vD).
          { intros u v HE. unfold clsPen. destruct (ueqb_spec u vX) as [|NX]; [discriminate|]. destruct (ueqb_spec u vY) as [|NY]; [discriminate|].
            destruct (heqb_spec v vc') as [|NC]; [discriminate|]. intros _.
            destruct (Ecases u v HE) as [[_ A]|[[A _]|[[A _]|[[_ [A|A]]|[_ A]]]]]; try contradiction; try exact A.
            exfalso. apply NC. rewrite (E_v_eta u v HE). unfold vc'. f_equal. revert A. rewrite Hn1. intros A.
            rewrite (Fut_one c _ A). symmetry. apply bp_b1. }
          assert (Hc2 : forall u v, clsPen u v = 2%nat -> u = vX).
          { intros u v. unfold clsPen. destruct (ueqb_spec u vX); [auto|]. destruct (ueqb_spec u vY); [discriminate|]. destruct (heqb_spec v vc'); discriminate. }
          assert (Hc3 : forall u v, clsPen u v = 3%nat -> u = vY).
          { intros u v. unfold clsPen. destruct (ueqb_spec u vX); [discriminate|]. destruct (ueqb_spec u vY); [auto|]. destruct (heqb_spec v vc'); discriminate. }
          assert (Hc0 : forall u v, clsPen u v = 0%nat -> v = vc').
          { intros u v. unfold clsPen. destruct (ueqb_spec u vX); [discriminate|]. destruct (ueqb_spec u vY); [discriminate|]. destruct (heqb_spec v vc'); [auto|discriminate]. }
          assert (Hc4 : forall u v, (clsPen u v < 4)%nat).
          { intros u v. unfold clsPen. destruct (ueqb u vX); [lia|]. destruct (ueqb u vY); [lia|]. destruct (heqb v vc'); lia. }
          intros u v u' v' H1 H2 Ec. pose proof (Hc4 u v) as Hlt.
          destruct (clsPen u v) as [|[|[|[|k]]]] eqn:C1; [| | | |lia]; symmetry in Ec.
          - right. rewrite (Hc0 u v C1), (Hc0 u' v' Ec). reflexivity.
          - right. rewrite (Hone u v H1 C1), (Hone u' v' H2 Ec). reflexivity.
          - left. rewrite (Hc2 u v C1), (Hc2 u' v' Ec). reflexivity.
          - left. rewrite (Hc3 u v C1), (Hc3 u' v' Ec). reflexivity. }
        assert (Hlt : forall u v, E u v -> (clsPen u v < 4)%nat).
        { intros u v _. unfold clsPen. destruct (ueqb u vX); [lia|]. destruct (ueqb u vY); [lia|]. destruct (heqb v vc'); lia. }
        destruct (bool_dec started true) as [Es|Es]; [|apply not_true_is_false in Es].
        * destruct (E_late Es) as [u0 [Hoff Hu0]]. destruct (Mpen_ok u0 ltac:(lia) Hoff Hu0) as [A [B C]].
          exact (cover_size R p sk PS uc vc mc cov mc_es mc_u mc_v mc_len clsPen 4%nat (Mpen u0) Hlt Hcls A B C eq_refl).
        * assert (Hnot : ~ In vc' [va; vb; vD]).
          { pose proof V4_nodup as N. inversion N as [|? ? N1 N2]; subst. inversion N2 as [|? ? N3 N4]; subst. inversion N4 as [|? ? N5 N6]; subst.
            cbn [In] in *. intuition. }
          destruct (Mfirst_ok vc' ltac:(lia)) as [A [B C]]; [unfold vc'; rewrite body_mkV; apply Fut_c1; lia|unfold vc'; rewrite body_mkV; reflexivity|exact Hnot|].
          exact (cover_size R p sk PS uc vc mc cov mc_es mc_u mc_v mc_len clsPen 4%nat (Mfirst vc') Hlt Hcls A B C eq_refl).
      + (* first site or bulk *)
        assert (Hd : dsz (S n) started = if started then 5%nat else 4%nat).
        { destruct n as [|[|n0]]; [lia|lia|reflexivity]. }
        rewrite Hd.
        assert (Hcls : forall u v u' v', E u v -> E u' v' -> clsU u = clsU u' -> u = u' \/ v = v').
        { intros u v u' v' H1 H2 Ec. destruct (Nat.eq_dec (clsU u) 4) as [E4|N4]; [|left; exact (clsU_inj u u' Ec N4)].
          right. rewrite (other_to_D u v H1 (clsU_4 u E4)), (other_to_D u' v' H2 (clsU_4 u' ltac:(congruence))). reflexivity. }
        assert (Hl1 : Fut c n (body (mkV (b2 n 0 1 (-1) c))) /\ mkV (b2 n 0 1 (-1) c) = mkV (body (mkV (b2 n 0 1 (-1) c))) /\
                      ~ In (mkV (b2 n 0 1 (-1) c)) [va; vb; vc'; vD]).
        { rewrite body_mkV. split; [apply Fut_l1; lia|]. split; [reflexivity|]. intros Hin.
          apply (l1_not_late' c n ltac:(lia)). unfold Late. cbn [In] in Hin.
          destruct Hin as [H|[H|[H|[H|[]]]]]; apply mkV_inj in H; rewrite <- H; auto. }
        destruct Hl1 as [L1 [L2 L3]].
        destruct (bool_dec started true) as [Es|Es]; [|apply not_true_is_false in Es]; rewrite Es.
        * destruct (E_late Es) as [u0 [Hoff Hu0]]. destruct (Mbulk_ok u0 (mkV (b2 n 0 1 (-1) c)) ltac:(lia) Hoff Hu0 L1 L2 L3) as [A [B C]].
          apply (cover_size R p sk PS uc vc mc cov mc_es mc_u mc_v mc_len (fun u _ => clsU u) 5%nat (Mbulk u0 (mkV (b2 n 0 1 (-1) c)))); auto.
          intros u v _. unfold clsU. destruct (ueqb u vP); [lia|]. destruct (ueqb u vX); [lia|]. destruct (ueqb u vY); [lia|]. destruct (ueqb u vS); lia.
        * destruct (Mfirst_ok (mkV (b2 n 0 1 (-1) c)) ltac:(lia) L1 L2) as [A [B C]]; [intros Hin; apply L3; cbn [In] in *; intuition|].
          apply (cover_size R p sk PS uc vc mc cov mc_es mc_u mc_v mc_len (fun u _ => clsU u) 4%nat (Mfirst (mkV (b2 n 0 1 (-1) c)))); auto.
          intros u v HE. destruct (Nat.eq_dec (clsU u) 4) as [E4|N4]; [|apply clsU_lt; exact N4].
          exfalso. apply (not_started_on Es u v HE). intros t Et.
          destruct (Ecases u v HE) as [[A' _]|[[A' _]|[[A' _]|[[A' _]|[A' _]]]]]; try (apply (clsU_4 u E4); rewrite A'; cbn; auto 6).
          exact (A' t Et).
  Qed.

  Notation UCu := (UCu R p uc).
  Notation VCv := (VCv R p vc).
  Notation atU := (atU R p).
  Notation atV := (atV R p).

  (* the matching used to decide what the cover contains: through (vP, v) for a not yet started, not late half-chain v *)
  Lemma Mgen v : (2 <= n)%nat -> Fut c n (body v) -> v = mkV (body v) -> ~ Late c n (body v) ->
    exists M, (forall uv, In uv M -> E (fst uv) (snd uv)) /\ NoDup (map fst M) /\ NoDup (map snd M) /\
              length M = (length uc + length vc)%nat /\ In (vP, v) M /\
              forall x, In x (map snd M) -> x = v \/ In x [va; vb; vc'; vD].
  Proof.
    intros Hn Hv Ev Hnl.
    assert (Hnot : ~ In v [va; vb; vc'; vD]).
    { intros Hin. apply Hnl. unfold Late. cbn [In] in Hin. destruct Hin as [H|[H|[H|[H|[]]]]]; rewrite <- H; unfold va, vb, vc', vD; rewrite body_mkV; auto. }
    pose proof site_size as Hsz. unfold d in Hsz.
    assert (Hd : dsz (S n) started = if started then 5%nat else 4%nat) by (destruct n as [|[|n0]]; [lia|lia|reflexivity]).
    rewrite Hd in Hsz.
    destruct (bool_dec started true) as [Es|Es]; [|apply not_true_is_false in Es]; rewrite Es in Hsz.
    - destruct (E_late Es) as [u0 [Hoff Hu0]]. destruct (Mbulk_ok u0 v ltac:(lia) Hoff Hu0 Hv Ev Hnot) as [A [B C]].
      exists (Mbulk u0 v). split; [exact A|]. split; [exact B|]. split; [exact C|]. split; [rewrite Hsz; reflexivity|]. split; [left; reflexivity|].
      intros x Hx. cbn [Mbulk map snd In] in Hx. cbn [In]. intuition.
    - destruct (Mfirst_ok v ltac:(lia) Hv Ev) as [A [B C]]; [intros Hin; apply Hnot; cbn [In] in *; intuition|].
      exists (Mfirst v). split; [exact A|]. split; [exact B|]. split; [exact C|]. split; [rewrite Hsz; reflexivity|]. split; [left; reflexivity|].
      intros x Hx. cbn [Mfirst map snd In] in Hx. cbn [In]. intuition.
  Qed.

  Lemma UC_P : (2 <= n)%nat -> UCu vP.
  Proof.
    intros Hn. set (l1 := mkV (b2 n 0 1 (-1) c)). set (l2 := mkV (b2 n 0 (-1) 1 (- c))).
    assert (H1 : E vP l1) by (apply E_P; apply Fut_l1; exact Hn).
    assert (H2 : E vP l2) by (apply E_P; apply Fut_l2; exact Hn).
    destruct (cover_E R p sk PS uc vc cov vP l1 H1) as [HU|HV1]; [exact HU|].
    destruct (cover_E R p sk PS uc vc cov vP l2 H2) as [HU|HV2]; [exact HU|]. exfalso.
    destruct (Mgen l1 Hn) as [M [A [B [C [D [_ F]]]]]].
    { unfold l1. rewrite body_mkV. apply Fut_l1. exact Hn. }
    { unfold l1. rewrite body_mkV. reflexivity. }
    { unfold l1. rewrite body_mkV. apply l1_not_late'. exact Hn. }
    destruct (vcover_partner R p sk PS uc vc mc cov mc_len M A B C D l2 HV2) as [u [Hu _]].
    assert (Hs : In l2 (map snd M)) by (apply in_map_iff; exists (u, l2); auto).
    destruct (F l2 Hs) as [El|Hin].
    - unfold l1, l2 in El. apply mkV_inj in El. exact (l1_l2 c n (eq_sym El)).
    - apply (l2_not_late' c n Hn). unfold Late. cbn [In] in Hin. unfold l2 in Hin.
      destruct Hin as [H|[H|[H|[H|[]]]]]; apply mkV_inj in H; rewrite <- H; auto.
  Qed.

  Lemma VC_late v : (1 <= n)%nat -> VCv v -> E vP v -> Late c n (body v).
  Proof.
    intros Hn HV HE. pose proof (E_P_inv v HE) as Hf.
    destruct (Nat.eq_dec n 1) as [Hn1|Hn1].
    - revert Hf. rewrite Hn1. apply Fut_1_late.
    - destruct (Late_dec n (body v)) as [Hl|Hnl]; [exact Hl|]. exfalso.
      destruct (Mgen v ltac:(lia) Hf (E_v_eta vP v HE) Hnl) as [M [A [B [C [D [G _]]]]]].
      destruct (vcover_partner R p sk PS uc vc mc cov mc_len M A B C D v HV) as [u [Hu Hnu]].
      assert (Eu : (u, v) = (vP, v)) by (apply (NoDup_map_snd_inj M); auto).
      inversion Eu; subst u. apply Hnu. apply UC_P. lia.
  Qed.

  (* ---- the half-chains after the pass ---- *)
  Theorem site_next : (1 <= n)%nat -> forall nid,
    Psi n true (nextU R p nid uc ++ nextV R p (nid + Z.of_nat (length uc)) vc).
  Proof.
    intros Hn nid. set (sk' := nextU R p nid uc ++ nextV R p (nid + Z.of_nat (length uc)) vc).
    assert (HinS : forall h', In h' sk' <->
      (exists a i u v, nth_error uc a = Some i /\ atU i u /\ E u v /\ h' = reh v (nid + Z.of_nat a)) \/
      (exists b j v, nth_error vc b = Some j /\ atV j v /\ h' = reh v (nid + Z.of_nat (length uc) + Z.of_nat b))).
    { intros h'. unfold sk'. rewrite in_app_iff, (nextU_val R p sk PS uc nid h'),
        (nextV_val R p sk PS uc vc mc cov mc_es mc_u mc_v mc_len (nid + Z.of_nat (length uc)) h'). reflexivity. }
    assert (Hpos : forall a i, nth_error uc a = Some i -> (a < length uc)%nat) by (intros a i H; apply nth_error_Some; congruence).
    (* late: everything hung on a node other than the one made for vP *)
    assert (HlateU : forall u v, E u v -> u <> vP -> Late c n (body v)) by exact late_of_edge.
    assert (HlateV : forall j v, In j vc -> atV j v -> Late c n (body v)).
    { intros j v Hj Aj. assert (HV : VCv v) by (exists j; auto).
      assert (Hv : In v (p_v p)) by (eapply nth_error_In; exact Aj).
      apply (ps_v R p sk PS) in Hv. destruct Hv as [h [Hh Ev]].
      assert (HE : E (split_u h) v) by (exists h; auto).
      destruct (unode_eqb (split_u h) vP) eqn:Eq.
      - apply unode_eqb_eq in Eq. rewrite Eq in HE. apply VC_late; assumption.
      - apply (HlateU _ _ HE). intros Ec. rewrite Ec, unode_eqb_refl in Eq. discriminate. }
    (* something is covered besides vP's edges: the edge (vX, va) *)
    pose proof (E_X Hn) as HEX.
    assert (HXP : vX <> vP).
    { pose proof U4_nodup as N. inversion N as [|? ? N1 _]; subst. intros Ec. apply N1. rewrite <- Ec. cbn; auto. }
    assert (Hac : va <> vc').
    { pose proof V4_nodup as N. inversion N as [|? ? N1 _]; subst. intros Ec. apply N1. rewrite Ec. cbn; auto. }
    destruct (E_edge R p sk PS vP vc' (E_P _ (Fut_c1 c n Hn))) as [ip [jc [He [Aip Ajc]]]].
    destruct (in_dec Nat.eq_dec ip uc) as [Hin|Hnin].
    - (* vP in the U cover *)
      destruct (In_nth_error _ _ Hin) as [ap Hap]. pose proof (Hpos _ _ Hap) as Hapl.
      exists (nid + Z.of_nat ap). split; [|split].
      + intros h' Hnid. split.
        * intros Hh'. apply HinS in Hh'. destruct Hh' as [[a [i [u [v [Ha [Ai [HE Eh]]]]]]]|[b [j [v [Hb [Aj Eh]]]]]].
          -- rewrite Eh, nidl_reh in Hnid. assert (a = ap) by lia. subst a. rewrite Hap in Ha. inversion Ha; subst i.
             rewrite (atU_fun R p _ _ _ Ai Aip) in HE. rewrite Eh, body_reh. apply E_P_inv. exact HE.
          -- rewrite Eh, nidl_reh in Hnid. lia.
        * intros Hf. apply HinS. left. exists ap, ip, vP, (mkV (body h')). split; [exact Hap|]. split; [exact Aip|]. split; [apply E_P; exact Hf|].
          rewrite <- Hnid. apply reh_eta. rewrite body_mkV. reflexivity.
      + intros h' Hh' Hne. apply HinS in Hh'. destruct Hh' as [[a [i [u [v [Ha [Ai [HE Eh]]]]]]]|[b [j [v [Hb [Aj Eh]]]]]].
        * rewrite Eh, body_reh. apply (HlateU u v HE). intros Eu. rewrite Eu in Ai.
          pose proof (atU_inj R p sk PS _ _ _ Ai Aip) as Ei. subst i.
          assert (a = ap). { apply (proj1 (NoDup_nth_error uc) uc_nd); [eapply Hpos; exact Ha|congruence]. }
          subst a. apply Hne. rewrite Eh, nidl_reh. reflexivity.
        * rewrite Eh, body_reh. apply (HlateV j v); [eapply nth_error_In; exact Hb|exact Aj].
      + destruct (cover_E R p sk PS uc vc cov vX va HEX) as [[ix [Hix Aix]]|[ja [Hja Aja]]].
        * destruct (In_nth_error _ _ Hix) as [ax Hax]. exists (reh va (nid + Z.of_nat ax)). split.
          -- apply HinS. left. exists ax, ix, vX, va. auto.
          -- rewrite nidl_reh. intros Ec. assert (ax = ap) by lia. subst ax. rewrite Hap in Hax. inversion Hax; subst ix.
             apply HXP. exact (atU_fun R p _ _ _ Aix Aip).
        * destruct (In_nth_error _ _ Hja) as [ba Hba]. exists (reh va (nid + Z.of_nat (length uc) + Z.of_nat ba)). split.
          -- apply HinS. right. exists ba, ja, va. auto.
          -- rewrite nidl_reh. lia.
    - (* vP not in the U cover: only one site before the last, and then vc' is in the V cover *)
      assert (Hn1 : n = 1%nat).
      { destruct (Nat.eq_dec n 1) as [|Hne]; [assumption|]. exfalso. destruct (UC_P ltac:(lia)) as [i [Hi Ai]].
        rewrite (atU_inj R p sk PS _ _ _ Ai Aip) in Hi. contradiction. }
      assert (Hjc : In jc vc) by (destruct (cov _ He) as [H|H]; [contradiction|exact H]).
      destruct (In_nth_error _ _ Hjc) as [bc Hbc].
      exists (nid + Z.of_nat (length uc) + Z.of_nat bc). split; [|split].
      + intros h' Hnid. split.
        * intros Hh'. apply HinS in Hh'. destruct Hh' as [[a [i [u [v [Ha [Ai [HE Eh]]]]]]]|[b [j [v [Hb [Aj Eh]]]]]].
          -- rewrite Eh, nidl_reh in Hnid. pose proof (Hpos _ _ Ha). lia.
          -- rewrite Eh, nidl_reh in Hnid. assert (b = bc) by lia. subst b. rewrite Hbc in Hb. inversion Hb; subst j.
             rewrite Eh, body_reh, (atV_fun R p _ _ _ Aj Ajc). unfold vc'. rewrite body_mkV. apply Fut_c1. exact Hn.
        * intros Hf. apply HinS. right. exists bc, jc, vc'. split; [exact Hbc|]. split; [exact Ajc|].
          rewrite <- Hnid. apply reh_eta. unfold vc'. rewrite body_mkV. revert Hf. rewrite Hn1. intros Hf. rewrite (Fut_one c _ Hf). symmetry. apply bp_b1.
      + intros h' Hh' Hne. apply HinS in Hh'. destruct Hh' as [[a [i [u [v [Ha [Ai [HE Eh]]]]]]]|[b [j [v [Hb [Aj Eh]]]]]].
        * rewrite Eh, body_reh. apply (HlateU u v HE). intros Eu. rewrite Eu in Ai.
          pose proof (atU_inj R p sk PS _ _ _ Ai Aip) as Ei. subst i. apply Hnin. eapply nth_error_In. exact Ha.
        * rewrite Eh, body_reh. apply (HlateV j v); [eapply nth_error_In; exact Hb|exact Aj].
      + destruct (cover_E R p sk PS uc vc cov vX va HEX) as [[ix [Hix Aix]]|[ja [Hja Aja]]].
        * destruct (In_nth_error _ _ Hix) as [ax Hax]. exists (reh va (nid + Z.of_nat ax)). split.
          -- apply HinS. left. exists ax, ix, vX, va. auto.
          -- rewrite nidl_reh. pose proof (Hpos _ _ Hax). lia.
        * destruct (In_nth_error _ _ Hja) as [ba Hba]. exists (reh va (nid + Z.of_nat (length uc) + Z.of_nat ba)). split.
          -- apply HinS. right. exists ba, ja, va. auto.
          -- rewrite nidl_reh. intros Ec. assert (ba = bc) by lia. subst ba. rewrite Hbc in Hba. inversion Hba; subst ja.
             apply Hac. exact (atV_fun R p _ _ _ Aja Ajc).
  Qed.
End Site.
