(* Completeness half of Hopcroft-Karp that does not depend on termination: [outer] returns only after a BFS that
   did not reach NIL; the BFS-finite U-vertices then give a vertex cover no larger than the matching, so by weak
   duality the matching returned by HopcroftKarp() alone is maximum. *)
From Coq Require Import ZArith List Bool Lia.
From PT Require Import Model.Bipartite Proofs.BipartiteCert Proofs.BipartiteGraphSem Proofs.BipartiteHK Proofs.BipartiteBFS.
Import ListNotations.
Open Scope Z_scope.

Lemma filter_two_le {A} (P Q R : A -> bool) (l : list A) :
  (forall x, In x l -> P x = true -> R x = true) ->
  (forall x, In x l -> Q x = true -> R x = true /\ P x = false) ->
  (length (filter P l) + length (filter Q l) <= length (filter R l))%nat.
Proof.
  induction l as [|a l IH]; intros HP HQ; simpl; [lia|].
  assert (IH' : (length (filter P l) + length (filter Q l) <= length (filter R l))%nat).
  { apply IH; intros x Hx; [apply HP|apply HQ]; right; exact Hx. }
  pose proof (HP a (or_introl eq_refl)) as HPa. pose proof (HQ a (or_introl eq_refl)) as HQa.
  destruct (P a) eqn:EP, (Q a) eqn:EQ, (R a) eqn:ER; simpl; lia.
Qed.

Lemma filter_map_length {A B} (h : B -> bool) (f : A -> B) (l : list A) :
  length (filter h (map f l)) = length (filter (fun x => h (f x)) l).
Proof. induction l as [|a l IH]; simpl; [reflexivity|]. destruct (h (f a)); simpl; rewrite IH; reflexivity. Qed.

Lemma combine_as_map {A B} (F : A -> B) (dA : A) (dB : B) : forall (a : list A) (b : list B),
  length b = length a -> (forall i, (i < length a)%nat -> nth i b dB = F (nth i a dA)) ->
  combine a b = map (fun x => (x, F x)) a.
Proof.
  induction a as [|x a IH]; intros b Hlen Hn; [reflexivity|].
  destruct b as [|y b]; [discriminate|]. simpl. f_equal.
  - f_equal. apply (Hn 0%nat). simpl. lia.
  - apply IH; [simpl in Hlen; lia|]. intros i Hi. apply (Hn (S i)). simpl. lia.
Qed.

Section Max.
  Variable g : bg.
  Hypothesis Hadj : adj_ok g.

  Definition Inv2 (s : hk) : Prop := Inv g s /\ length (dist s) = (nu g + 1)%nat.

  Lemma dfs_root_ok2 f s u s' b : Inv2 s -> 0 <= u < Z.of_nat (nu g) -> zget (mu s) u = -1 ->
    dfs g f s u = Some (s', b) -> Inv2 s'.
  Proof.
    intros [Hi Hl] Hu Hf Hr. split; [apply (dfs_root_ok g Hadj f s u s' b); assumption|].
    destruct (dfs_ok g Hadj f s u (s', b) Hi (or_intror Hu) Hr) as [_ [[L _] _]]. cbn [fst] in L. congruence.
  Qed.

  Lemma phase_fold_ok2 : forall l, incl l (us g) -> forall s s', Inv2 s ->
    fold_left (phase_step g) l (Some s) = Some s' -> Inv2 s'.
  Proof.
    induction l as [|u l IH]; intros Hincl s s' Hinv Hr; simpl in Hr.
    - injection Hr as <-. exact Hinv.
    - assert (Hu : 0 <= u < Z.of_nat (nu g)). { apply us_In. apply Hincl. left. reflexivity. }
      assert (Hincl' : incl l (us g)). { intros x Hx. apply Hincl. right. exact Hx. }
      destruct (zget (mu s) u =? -1) eqn:E.
      + apply Z.eqb_eq in E. destruct (dfs g (nu g + 2) s u) as [[s1 b]|] eqn:Ed; simpl in Hr.
        * apply (IH Hincl' s1 s'); [|exact Hr]. apply (dfs_root_ok2 (nu g + 2)%nat s u s1 b); assumption.
        * rewrite phase_fold_None in Hr. discriminate.
      + apply (IH Hincl' s s'); assumption.
  Qed.

  Lemma phase_ok2 s s' : Inv2 s -> phase g s = Some s' -> Inv2 s'.
  Proof. intros Hinv Hr. apply (phase_fold_ok2 (us g) (incl_refl _) s s' Hinv). exact Hr. Qed.

  Lemma bfs_Inv2 s s1 b : Inv2 s -> bfs g s = Some (s1, b) ->
    Inv2 s1 /\ BI g s (dist s1) [] (-2) /\ b = negb (dget (dist s1) (-1) =? inf g) /\ mu s1 = mu s /\ mv s1 = mv s.
  Proof.
    intros [Hi Hl] Hb. destruct (bfs_ok g Hadj s Hi Hl) as [s1' [b' [Hb' [E1 [E2 [HB Eb]]]]]].
    rewrite Hb in Hb'. injection Hb' as <- <-.
    split; [split|]; [apply (Inv_ext g s); assumption|apply (b_len g s _ _ _ HB)|].
    split; [exact HB|split; [exact Eb|split; assumption]].
  Qed.

  (* [outer] returns exactly the state of a BFS that did not reach NIL *)
  Lemma outer_final : forall f s s', Inv2 s -> outer g f s = Some s' ->
    exists s0, Inv2 s0 /\ bfs g s0 = Some (s', false).
  Proof.
    induction f as [|f IH]; intros s s' Hinv Hr; [discriminate|]. simpl in Hr.
    destruct (bfs g s) as [[s1 b]|] eqn:Eb; [|discriminate].
    destruct (bfs_Inv2 s s1 b Hinv Eb) as [Hinv1 _].
    destruct b.
    - destruct (phase g s1) as [s2|] eqn:Ep; [|discriminate].
      apply (IH s2 s'); [|exact Hr]. apply (phase_ok2 s1); assumption.
    - injection Hr as <-. exists s. split; assumption.
  Qed.

  Lemma Inv2_init : Inv2 (hk_init g).
  Proof. split; [apply Inv_init|]. unfold hk_init. cbn [dist]. apply repeat_length. Qed.

  Lemma us_nth i : (i < nu g)%nat -> nth i (us g) 0 = Z.of_nat i.
  Proof.
    intros Hi. unfold us. change 0 with (Z.of_nat 0). rewrite map_nth. rewrite seq_nth by exact Hi. reflexivity.
  Qed.

  Lemma matching_of_length s : length (mu s) = nu g ->
    length (matching_of g s) = length (filter (fun u => negb (zget (mu s) u =? -1)) (us g)).
  Proof.
    intros Hl. unfold matching_of.
    rewrite (combine_as_map (zget (mu s)) 0 0 (us g) (mu s)).
    - rewrite filter_map_length. reflexivity.
    - rewrite us_length. exact Hl.
    - intros i Hi. rewrite us_length in Hi. rewrite us_nth by exact Hi. unfold zget. rewrite Nat2Z.id. reflexivity.
  Qed.

  (* after a BFS that did not reach NIL there is a vertex cover no larger than the current matching *)
  Lemma bfs_false_cover s0 s' : Inv2 s0 -> bfs g s0 = Some (s', false) ->
    exists uc vc, Cover g uc vc /\ (length uc + length vc <= length (matching_of g s'))%nat.
  Proof.
    intros Hinv0 Hb. destruct (bfs_Inv2 s0 s' false Hinv0 Hb) as [[Hinv' _] [HB [Eb [Emu Emv]]]].
    assert (Hnil : dget (dist s') (-1) = inf g).
    { symmetry in Eb. apply negb_false_iff in Eb. apply Z.eqb_eq in Eb. exact Eb. }
    set (d := dist s') in *.
    set (Zb := fun u => dget d u <? inf g).
    set (R := fun u => negb (zget (mu s') u =? -1)).
    exists (filter (fun u => negb (Zb u)) (us g)).
    exists (map (fun u => zget (mu s') u) (filter (fun u => Zb u && R u) (us g))).
    destruct Hinv' as [[Hl1 Hl2] [HA HBm]].
    split.
    - intros u v He. unfold has_edge in He. rewrite !andb_true_iff in He. destruct He as [[Hu _] Hv].
      apply mem_In in Hv. pose proof (in_range_us g u Hu) as Hus. pose proof (proj1 (us_In g u) Hus) as Hur.
      destruct (Zb u) eqn:EZ.
      + right. unfold Zb in EZ. apply Z.ltb_lt in EZ.
        destruct (b_clo g s0 d [] (-2) HB u Hur EZ) as [[]|[Hd|[H|H]]]; [|lia|lia].
        specialize (Hd v Hv). rewrite <- Emv in Hd.
        pose proof (Hadj u v Hv) as Hvr.
        destruct (HBm v Hvr) as [H|[H1 H2]]; [rewrite H, Hnil in Hd; lia|].
        apply in_map_iff. exists (zget (mv s') v). split; [exact H2|].
        apply filter_In. split; [apply us_In; exact H1|].
        unfold Zb, R. rewrite H2. apply andb_true_iff. split; [apply Z.ltb_lt; exact Hd|].
        apply negb_true_iff. apply Z.eqb_neq. lia.
      + left. apply filter_In. split; [exact Hus|]. rewrite EZ. reflexivity.
    - rewrite map_length, (matching_of_length s' Hl1). apply filter_two_le.
      + intros u Hu HP. apply us_In in Hu. unfold R. apply negb_true_iff. apply Z.eqb_neq. intros Hfree.
        rewrite Emu in Hfree. pose proof (b_free g s0 d [] (-2) HB u Hu Hfree) as H0.
        apply negb_true_iff in HP. unfold Zb in HP. apply Z.ltb_ge in HP. unfold inf in HP. lia.
      + intros u Hu HQ. apply andb_true_iff in HQ. destruct HQ as [H1 H2]. split; [exact H2|]. rewrite H1. reflexivity.
  Qed.

  (* Whenever HopcroftKarp() returns, its result is a maximum matching. *)
  Theorem hk_maximum m : hopcroft_karp g = Some m ->
    Matching g m /\ forall m', Matching g m' -> (length m' <= length m)%nat.
  Proof.
    intros H. split; [apply (hk_matching_valid g Hadj m H)|]. intros m' Hm'.
    rewrite hopcroft_karp_unfold in H.
    destruct (outer g (nu g + 2) (hk_init g)) as [s'|] eqn:Eo; [|discriminate]. injection H as <-.
    destruct (outer_final _ _ _ Inv2_init Eo) as [s0 [Hinv0 Hb]].
    destruct (bfs_false_cover s0 s' Hinv0 Hb) as [uc [vc [Hc Hle]]].
    pose proof (weak_duality_sem g uc vc m' Hm' Hc). lia.
  Qed.
End Max.

Theorem hk_maximum_mk n_u n_v edges m : (forall e, In e edges -> edge_ok n_u n_v e) ->
  hopcroft_karp (mk_bg n_u n_v edges) = Some m ->
  Matching (mk_bg n_u n_v edges) m /\ forall m', Matching (mk_bg n_u n_v edges) m' -> (length m' <= length m)%nat.
Proof. intros Hok. apply hk_maximum. apply mk_bg_adj_ok. exact Hok. Qed.
