(* C17: statements about the graphs of from_optrees (raw and simplified) assembled from
   Proofs/C17LenTree.v (construction), Proofs/C17LenBase.v (Built => WF, length, consistency),
   Proofs/C17LenSimplify.v (simplify on a built graph) and Proofs/C17OpTree.v (meaning). *)
From Coq Require Import ZArith List Lia Bool.
From PT Require Import Base.Scalar Base.BigSum Model.OpGraph Model.Rewrites Model.C17Common Model.OpTree
                       Proofs.RewritesBase Proofs.C17GraphSem Proofs.C17OpTree
                       Proofs.C17LenBase Proofs.C17LenTree Proofs.C17LenSimplify.
Import ListNotations.
Open Scope Z_scope.

Theorem from_optrees_raw_length (R : cring) (ts : list (optree R)) (L : nat) (oid_id : Z) (g : graph R) :
  ts <> [] -> Forall (fun t => 0 <= ot_istart t) ts ->
  from_optrees_raw ts (Z.of_nat L) oid_id = Some g -> glength g = Some L.
Proof. intros H1 H2 H. eapply Built_glength. eapply from_optrees_raw_built; eauto. Qed.

Theorem from_optrees_raw_WF (R : cring) (ts : list (optree R)) (L : nat) (oid_id : Z) (g : graph R) :
  ts <> [] -> Forall (fun t => 0 <= ot_istart t) ts ->
  from_optrees_raw ts (Z.of_nat L) oid_id = Some g -> WF R g.
Proof. intros H1 H2 H. eapply Built_WF. eapply from_optrees_raw_built; eauto. Qed.

(* the graph after simplify(): exists, well formed (hence consistent), same meaning, same length, not larger *)
Theorem from_optrees_simplified (R : cring) (ts : list (optree R)) (L : nat) (oid_id : Z) (g : graph R) :
  ts <> [] -> Forall (fun t => 0 <= ot_istart t) ts ->
  from_optrees_raw ts (Z.of_nat L) oid_id = Some g ->
  (exists g', simplify g = Some g') /\
  forall g', simplify g = Some g' ->
    WF R g' /\ (forall w, den g' w = optrees_den oid_id L ts w) /\ glength g' = Some L /\
    (forall fuel b, is_consistent_fuel fuel g' = Some b -> b = true) /\
    (length (g_edges g') <= length (g_edges g))%nat /\ (length (g_nodes g') <= length (g_nodes g))%nat.
Proof.
  intros H1 H2 H. pose proof (from_optrees_raw_built R ts L oid_id g H1 H2 H) as HB.
  split; [eapply simplify_built_total; eauto|].
  intros g' Hs. destruct (simplify_built R g g' L HB Hs) as (W' & Hden & Hlen & _ & _ & C1 & C2).
  split; [exact W'|]. split; [|split; [exact Hlen|split; [|split; assumption]]].
  - intros w. rewrite Hden. apply (from_optrees_raw_den R ts L oid_id g H2 H).
  - intros fuel b. apply RewritesConsistent.WF_is_consistent_true. exact W'.
Qed.

Print Assumptions from_optrees_raw_length.
Print Assumptions from_optrees_raw_WF.
Print Assumptions from_optrees_simplified.
