(* C16: effect of the two merge rewrites on the edge-level path sums [FE] of Proofs/RewritesBase.v:
   [FE_merge_same] (two parallel edges replaced by one edge carrying the sum of the coefficients) and
   [FE_merge_node] (two sibling nodes reached from the same node by edges with equal operators are merged). *)
From Coq Require Import ZArith List Lia Bool Permutation Ring.
From PT Require Import Base.Scalar Base.BigSum Model.OpGraph Model.Rewrites Proofs.RewritesBase Proofs.RewritesIso Proofs.RewritesRename.
Import ListNotations.
Open Scope Z_scope.

Section FEMerge.
  Variable R : cring.
  Add Ring Rring_rwfemerge : (k_rt R).
  Notation gedge := (gedge R).
  Notation "0r" := (k0 R). Notation "1r" := (k1 R).
  Infix "+r" := (kadd R) (at level 50, left associativity).
  Infix "*r" := (kmul R) (at level 40, left associativity).

  (* one unfolding step of FE, as an equation (avoids [simpl] on the whole goal) *)
  Lemma FE_cons (E : list gedge) (t : Z) (d : nat) (o : Z) (w : list Z) (n : Z) :
    FE R E t d (o :: w) n =
    suml E (fun e => if end_d R d e =? n then opics_coeff o (e_opics e) *r FE R E t d w (end_o R d e) else 0r).
  Proof. reflexivity. Qed.
  Lemma FE_nil (E : list gedge) (t : Z) (d : nat) (n : Z) : FE R E t d [] n = if n =? t then 1r else 0r.
  Proof. reflexivity. Qed.

  Lemma suml_cons {A} (a : A) (l : list A) (f : A -> R) : suml (a :: l) f = f a +r suml l f.
  Proof. reflexivity. Qed.

  (* a list sum with a single non-zero term *)
  Lemma suml_single {A} (l : list A) (a : A) (f : A -> R) :
    NoDup l -> In a l -> (forall b, In b l -> b <> a -> f b = 0r) -> suml l f = f a.
  Proof.
    intros Hnd Hin Hz. destruct (in_split _ _ Hin) as [l1 [l2 Hl]]. subst l.
    apply NoDup_remove_2 in Hnd.
    rewrite suml_app, suml_cons.
    rewrite (suml_zero R l1), (suml_zero R l2); [ring| |].
    - intros b Hb. apply Hz; [apply in_or_app; right; right; exact Hb|].
      intros ->. apply Hnd. apply in_or_app. right. exact Hb.
    - intros b Hb. apply Hz; [apply in_or_app; left; exact Hb|].
      intros ->. apply Hnd. apply in_or_app. left. exact Hb.
  Qed.

  (* ---------- two parallel edges replaced by one edge carrying the sum of the coefficients ---------- *)
  Lemma FE_merge_same (E0 : list gedge) (e1 e2 e1' : gedge) (t : Z) (d : nat) :
    e_from e1 = e_from e2 -> e_to e1 = e_to e2 -> e_from e1' = e_from e1 -> e_to e1' = e_to e1 ->
    (forall o, opics_coeff o (e_opics e1') = kadd R (opics_coeff o (e_opics e1)) (opics_coeff o (e_opics e2))) ->
    forall w n, FE R (e1' :: E0) t d w n = FE R (e1 :: e2 :: E0) t d w n.
  Proof.
    intros Hf12 Ht12 Hf' Ht' Hc.
    assert (Hd2 : end_d R d e2 = end_d R d e1) by (destruct d; simpl; congruence).
    assert (Ho2 : end_o R d e2 = end_o R d e1) by (destruct d; simpl; congruence).
    assert (Hd' : end_d R d e1' = end_d R d e1) by (destruct d; simpl; congruence).
    assert (Ho' : end_o R d e1' = end_o R d e1) by (destruct d; simpl; congruence).
    induction w as [|o w IH]; intros n.
    - rewrite !FE_nil. reflexivity.
    - rewrite !FE_cons, !suml_cons. rewrite Hd', Ho', Hd2, Ho2, Hc, !IH.
      assert (Hs : suml E0 (fun e => if end_d R d e =? n
                     then opics_coeff o (e_opics e) *r FE R (e1' :: E0) t d w (end_o R d e) else 0r) =
                   suml E0 (fun e => if end_d R d e =? n
                     then opics_coeff o (e_opics e) *r FE R (e1 :: e2 :: E0) t d w (end_o R d e) else 0r)).
      { apply suml_ext. intros e _. rewrite IH. reflexivity. }
      rewrite Hs. destruct (end_d R d e1 =? n); ring.
  Qed.

  (* ---------- node merge ----------
     e1 : base -> m1 and e2 : base -> m2 (in walking direction d) carry the same operators and are the only edges
     into m1 resp. m2; e2 is dropped and every edge leaving m2 is redirected to leave m1 *)
  Definition redirect (d : nat) (m1 m2 : Z) (e : gedge) : gedge :=
    if end_d R d e =? m2 then edge_set_nid R d m1 e else e.

  Lemma redirect_opics d m1 m2 e : e_opics (redirect d m1 m2 e) = e_opics e.
  Proof. unfold redirect. destruct (end_d R d e =? m2); [|reflexivity]. destruct d; reflexivity. Qed.
  Lemma redirect_id d m1 m2 e : e_id (redirect d m1 m2 e) = e_id e.
  Proof. unfold redirect. destruct (end_d R d e =? m2); [|reflexivity]. destruct d; reflexivity. Qed.
  Lemma redirect_end_o d m1 m2 e : end_o R d (redirect d m1 m2 e) = end_o R d e.
  Proof. unfold redirect. destruct (end_d R d e =? m2); [|reflexivity]. destruct d; reflexivity. Qed.
  Lemma redirect_end_d d m1 m2 e :
    end_d R d (redirect d m1 m2 e) = if end_d R d e =? m2 then m1 else end_d R d e.
  Proof. unfold redirect. destruct (end_d R d e =? m2); [|reflexivity]. destruct d; reflexivity. Qed.

  (* the sum over the redirected d-ends splits into the edges leaving n and (for n = m1) those leaving m2 *)
  Lemma suml_redirect_split (E0 : list gedge) (d : nat) (m1 m2 n : Z) (f : gedge -> R) :
    m1 <> m2 -> n <> m2 ->
    suml E0 (fun e => if (if end_d R d e =? m2 then m1 else end_d R d e) =? n then f e else 0r) =
    suml E0 (fun e => if end_d R d e =? n then f e else 0r) +r
    (if n =? m1 then suml E0 (fun e => if end_d R d e =? m2 then f e else 0r) else 0r).
  Proof.
    intros Hm Hn. destruct (n =? m1) eqn:En.
    - apply Z.eqb_eq in En. subst n. rewrite <- suml_add. apply suml_ext. intros e _.
      destruct (end_d R d e =? m2) eqn:E2.
      + apply Z.eqb_eq in E2. rewrite E2, Z.eqb_refl.
        assert (E3 : m2 =? m1 = false) by (apply Z.eqb_neq; congruence). rewrite E3. ring.
      + ring.
    - apply Z.eqb_neq in En.
      transitivity (suml E0 (fun e => if end_d R d e =? n then f e else 0r)); [|ring].
      apply suml_ext. intros e _.
      destruct (end_d R d e =? m2) eqn:E2; [|reflexivity].
      apply Z.eqb_eq in E2. rewrite E2.
      assert (E3 : m1 =? n = false) by (apply Z.eqb_neq; congruence).
      assert (E4 : m2 =? n = false) by (apply Z.eqb_neq; congruence).
      rewrite E3, E4. reflexivity.
  Qed.

  Lemma FE_merge_node (E0 : list gedge) (e1 e2 : gedge) (t : Z) (d : nat) (m1 m2 : Z) :
    (d <= 1)%nat ->
    NoDup (map (@e_id R) (e2 :: E0)) -> In e1 E0 ->
    end_d R d e1 = end_d R d e2 -> end_o R d e1 = m1 -> end_o R d e2 = m2 -> m1 <> m2 ->
    e_opics e1 = e_opics e2 ->
    (forall e, In e E0 -> end_o R d e = m1 -> e = e1) ->
    (forall e, In e E0 -> end_o R d e <> m2) ->
    end_d R d e2 <> m1 -> end_d R d e2 <> m2 -> t <> m2 ->
    forall w n, n <> m2 ->
      FE R (map (redirect d m1 m2) E0) t d w n =
      kadd R (FE R (e2 :: E0) t d w n) (if n =? m1 then FE R (e2 :: E0) t d w m2 else k0 R).
  Proof.
    intros Hd Hnd Hin1 Hd12 Ho1 Ho2 Hm Hop Huniq Hnom2 Hb1 Hb2 Htm.
    assert (NdE : NoDup E0).
    { apply (NoDup_map_NoDup (@e_id R)). simpl in Hnd. inversion Hnd; assumption. }
    induction w as [|o w IH]; intros n Hn.
    - rewrite !FE_nil. destruct (n =? m1); [|ring].
      assert (E : m2 =? t = false) by (apply Z.eqb_neq; congruence). rewrite E. ring.
    - set (F := FE R (e2 :: E0) t d) in *.
      rewrite FE_cons, suml_map.
      (* left side: use the facts about redirect and the induction hypothesis pointwise *)
      transitivity (
        suml E0 (fun e => if (if end_d R d e =? m2 then m1 else end_d R d e) =? n
                          then opics_coeff o (e_opics e) *r F w (end_o R d e) else 0r) +r
        suml E0 (fun e => if (if end_d R d e =? m2 then m1 else end_d R d e) =? n
                          then (if end_o R d e =? m1 then opics_coeff o (e_opics e) *r F w m2 else 0r) else 0r)).
      { rewrite <- suml_add. apply suml_ext. intros e He.
        rewrite redirect_end_d, redirect_opics, redirect_end_o.
        rewrite (IH (end_o R d e) (Hnom2 e He)).
        destruct ((if end_d R d e =? m2 then m1 else end_d R d e) =? n); [|ring].
        destruct (end_o R d e =? m1); ring. }
      (* the second sum has the single non-zero term e = e1 *)
      assert (Hz : forall b, In b E0 -> b <> e1 ->
                (if (if end_d R d b =? m2 then m1 else end_d R d b) =? n
                 then (if end_o R d b =? m1 then opics_coeff o (e_opics b) *r F w m2 else 0r) else 0r) = 0r).
      { intros b Hb Hne. destruct (end_o R d b =? m1) eqn:Eb.
        - apply Z.eqb_eq in Eb. exfalso. apply Hne. apply Huniq; assumption.
        - destruct ((if end_d R d b =? m2 then m1 else end_d R d b) =? n); reflexivity. }
      rewrite (suml_single E0 e1 _ NdE Hin1 Hz). clear Hz.
      assert (E12 : end_d R d e1 =? m2 = false) by (apply Z.eqb_neq; congruence).
      rewrite E12, Ho1, Z.eqb_refl, Hd12, Hop.
      (* first sum *)
      rewrite (suml_redirect_split E0 d m1 m2 n) by assumption.
      (* right side *)
      assert (HF : forall x, F (o :: w) x =
                (if end_d R d e2 =? x then opics_coeff o (e_opics e2) *r F w m2 else 0r) +r
                suml E0 (fun e => if end_d R d e =? x then opics_coeff o (e_opics e) *r F w (end_o R d e) else 0r)).
      { intros x. unfold F. rewrite FE_cons, suml_cons, Ho2. reflexivity. }
      assert (E22 : end_d R d e2 =? m2 = false) by (apply Z.eqb_neq; assumption).
      rewrite (HF n), (HF m2), E22.
      destruct (n =? m1); destruct (end_d R d e2 =? n); ring.
  Qed.
End FEMerge.

Print Assumptions FE_merge_same.
Print Assumptions FE_merge_node.
