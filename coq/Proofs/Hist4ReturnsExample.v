(* Concrete data for the round-4 non-vacuity example of "when the Krylov solvers return": the merged start tensor of
   Proofs/Hist4ChargeExample.v (entries 0, 4/5, 3/5, 0: norm one), the zero tensor of the same shape, and an exact
   numpy.linalg.norm on vectors of squared norm 0 or 1. *)
From Coq Require Import ZArith QArith Qcanon List Bool.
From PT Require Import Base.Scalar Base.Field Base.BigSum Base.Mx Model.Tensor Model.MPSOps Model.Operation Model.Krylov Model.Sweeps.
From PT Require Import Proofs.SweepsExample.
Import ListNotations.

Open Scope Z_scope.
Definition ex6_Am : site CQ := [exm 1 1 [[exq 0 1]]; exm 1 1 [[exq 4 5]]; exm 1 1 [[exq 3 5]]; exm 1 1 [[exq 0 1]]].
Definition ex6_zero : site CQ := [exm 1 1 [[exq 0 1]]; exm 1 1 [[exq 0 1]]; exm 1 1 [[exq 0 1]]; exm 1 1 [[exq 0 1]]].
Close Scope Z_scope.
Definition ex6_dnorm (v : list CQ) : QcF :=
  if feqb QcF (nrm2 v) (f1 QcF) then f1 QcF else if feqb QcF (nrm2 v) (f0 QcF) then f0 QcF else fopp QcF (f1 QcF).
Definition ex6_small : QcF -> bool := fun _ => false.
Definition ex6_deigh : list QcF -> list QcF -> list QcF * list (list QcF) := fun al _ => (al, [[f1 QcF]]).
Definition ex6_dexp : CQ -> CQ := fun z => z.
Definition ex6_dexpm : list (list CQ) -> list (list CQ) := fun m => m.
Definition ex6_BL : env CQ := [exm 1 1 [[exq 1 1]]].
Definition ex6_W : osite CQ := otab 4 (fun s t => exm 1 1 [[if Nat.eqb s t then exq 1 1 else exq 0 1]]).
