(* C02, part (a) continued: constructors, merge / split (the split under C12's contract on the one call it issues),
   MPS.from_vector (all charges zero) and MPO.from_opgraph establish / preserve the invariant. *)
From Coq Require Import ZArith List Lia Bool Arith Ring.
From PT Require Import Base.Scalar Base.BigSum Base.Mx Model.OpGraph Model.FromOpchains Model.GraphMPO Model.BondOps.
From PT Require Import Model.Tensor Model.MPSOps Model.History.
From PT Require Import Proofs.MPSOpsBase Proofs.MPSOpsMul Proofs.MPSOpsTop Proofs.MPSOpsShape Proofs.GraphMPOSem Proofs.HistSparse Proofs.HistChain.
Import ListNotations.
Open Scope nat_scope.

Lemma nth_flat_map_map {A B C} (g : A -> B -> C) (l1 : list A) (l2 : list B) i j dA dB dC :
  i < length l1 -> j < length l2 ->
  nth (i * length l2 + j) (flat_map (fun x => map (g x) l2) l1) dC = g (nth i l1 dA) (nth j l2 dB).
Proof.
  revert i; induction l1 as [|a l1 IH]; intros i Hi Hj; simpl in Hi; [lia|]. simpl flat_map.
  destruct i as [|i].
  - simpl. rewrite app_nth1 by (rewrite map_length; exact Hj).
    rewrite (nth_indep _ dC (g a dB)) by (rewrite map_length; exact Hj). apply map_nth.
  - rewrite app_nth2 by (rewrite map_length; simpl; lia). rewrite map_length.
    replace (S i * length l2 + j - length l2) with (i * length l2 + j) by (simpl; lia).
    simpl nth. apply IH; [lia|exact Hj].
Qed.
Lemma length_flat_map_map {A B C} (g : A -> B -> C) (l1 : list A) (l2 : list B) :
  length (flat_map (fun x => map (g x) l2) l1) = length l1 * length l2.
Proof. induction l1 as [|a l1 IH]; simpl; [reflexivity|]. rewrite app_length, map_length, IH. reflexivity. Qed.

Section Ops.
  Variable R : cring.
  Add Ring Rring_histops : (k_rt R).
  Notation mx := (mx R).
  Notation site := (site R). Notation osite := (osite R).
  Notation mps := (mps R). Notation mpo := (mpo R).
  Notation rO := (k0 R).

  (* ---------- constructors ---------- *)
  Lemma mask_site_ok qd ql qr (f : nat -> nat -> nat -> R) : site_okP R qd ql qr (mask_site qd ql qr f).
  Proof.
    unfold mask_site. split.
    - apply site_shape_stab. intros s _. split; [apply wfb_tab|split; reflexivity].
    - intros s Hs a b Ha Hb Hnz. rewrite sel_stab in Hnz by exact Hs. rewrite get_tab in Hnz by assumption.
      destruct (Z.eqb (zget qd s + zget ql a) (zget qr b)) eqn:E; [apply Z.eqb_eq; exact E|congruence].
  Qed.
  Lemma omask_site_ok qd ql qr (f : nat -> nat -> nat -> nat -> R) : osite_okP R qd ql qr (omask_site qd ql qr f).
  Proof.
    unfold omask_site. split.
    - apply osite_shape_otab. intros s t _ _. split; [apply wfb_tab|split; reflexivity].
    - intros s t Hs Ht a b Ha Hb Hnz. rewrite osel_otab in Hnz by assumption. rewrite get_tab in Hnz by assumption.
      destruct (Z.eqb (zget qd s - zget qd t + zget ql a) (zget qr b)) eqn:E; [apply Z.eqb_eq; exact E|congruence].
  Qed.
  Lemma mask_chain_ok qd (f : nat -> nat -> nat -> nat -> R) : forall qDs i, qDs <> [] -> chainP (site_okP R qd) qDs (mask_chain qd qDs i f).
  Proof.
    induction qDs as [|ql qDs IH]; intros i Hne; [contradiction|].
    destruct qDs as [|qr qs]; [exact I|].
    change (mask_chain qd (ql :: qr :: qs) i f) with (mask_site qd ql qr (f i) :: mask_chain qd (qr :: qs) (S i) f).
    apply chainP_cons. split; [apply mask_site_ok|apply IH; discriminate].
  Qed.
  Lemma omask_chain_ok qd (f : nat -> nat -> nat -> nat -> nat -> R) : forall qDs i, qDs <> [] -> chainP (osite_okP R qd) qDs (omask_chain qd qDs i f).
  Proof.
    induction qDs as [|ql qDs IH]; intros i Hne; [contradiction|].
    destruct qDs as [|qr qs]; [exact I|].
    change (omask_chain qd (ql :: qr :: qs) i f) with (omask_site qd ql qr (f i) :: omask_chain qd (qr :: qs) (S i) f).
    apply chainP_cons. split; [apply omask_site_ok|apply IH; discriminate].
  Qed.
  Theorem new_mps_ok qd qDs (f : nat -> nat -> nat -> nat -> R) (p : mps) : new_mps qd qDs f = Some p -> mps_ok p = true.
  Proof.
    unfold new_mps. destruct (bond1 qDs) eqn:E; [|discriminate]. intros H. injection H as <-.
    apply mps_ok_P. apply (mask_chain_ok qd f qDs 0). intros ->. discriminate E.
  Qed.
  Theorem new_mpo_ok qd qDs (f : nat -> nat -> nat -> nat -> nat -> R) (o : mpo) : new_mpo qd qDs f = Some o -> mpo_ok o = true.
  Proof.
    unfold new_mpo. destruct qDs as [|q qs] eqn:E; [discriminate|]. intros H. injection H as <-.
    apply mpo_ok_P. apply (omask_chain_ok qd f (q :: qs) 0). discriminate.
  Qed.

  (* ---------- merge_mps_tensor_pair: contraction over the shared bond (the key lemma qsparse_contract) ---------- *)
  Lemma length_merge (A0 A1 : site) : length (merge_mps_tensor_pair A0 A1) = length A0 * length A1.
  Proof. unfold merge_mps_tensor_pair. apply length_flat_map_map. Qed.
  Lemma sel_merge (A0 A1 : site) s0 s1 : s0 < length A0 -> s1 < length A1 ->
    sel (merge_mps_tensor_pair A0 A1) (s0 * length A1 + s1) = mulmx (sel A0 s0) (sel A1 s1).
  Proof. intros H0 H1. unfold sel, merge_mps_tensor_pair. apply (nth_flat_map_map (@mulmx R)); assumption. Qed.

  Theorem merge_pair_ok qd0 qd1 ql qm qr (A0 A1 : site) :
    site_okP R qd0 ql qm A0 -> site_okP R qd1 qm qr A1 ->
    site_okP R (qflat qd0 qd1) ql qr (merge_mps_tensor_pair A0 A1).
  Proof.
    intros [S0 H0] [S1 H1].
    pose proof (site_shape_length R _ _ _ _ S0) as L0. pose proof (site_shape_length R _ _ _ _ S1) as L1.
    split.
    - unfold site_shape. rewrite length_merge, qflat_length, L0, L1, Nat.eqb_refl. simpl.
      apply forallb_forall. intros M HM. unfold merge_mps_tensor_pair in HM. apply in_flat_map in HM.
      destruct HM as (M0 & HM0 & HM). apply in_map_iff in HM. destruct HM as (M1 & <- & HM1).
      unfold site_shape in S0, S1. rewrite andb_true_iff, forallb_forall in S0, S1.
      pose proof (proj2 S0 _ HM0) as E0. pose proof (proj2 S1 _ HM1) as E1.
      rewrite !andb_true_iff, !Nat.eqb_eq in E0, E1.
      assert (W : wfb (mulmx M0 M1) = true) by apply wfb_tab.
      rewrite W, nr_mulmx, nc_mulmx. destruct E0 as [[_ ->] _]. destruct E1 as [_ ->]. rewrite !Nat.eqb_refl. reflexivity.
    - intros s Hs. rewrite qflat_length in Hs.
      assert (Hd1 : length qd1 <> 0) by (intros E; rewrite E in Hs; lia).
      assert (Hs0 : s / length qd1 < length qd0) by (apply Nat.div_lt_upper_bound; [exact Hd1|rewrite Nat.mul_comm; exact Hs]).
      assert (Hs1 : s mod length qd1 < length qd1) by (apply Nat.mod_upper_bound; exact Hd1).
      rewrite zget_qflat by exact Hs.
      assert (Es : s = s / length qd1 * length A1 + s mod length qd1)
        by (rewrite L1, Nat.mul_comm; apply Nat.div_mod; exact Hd1).
      revert Hs0 Hs1 Es. generalize (s / length qd1) (s mod length qd1). intros s0 s1 Hs0 Hs1 Es. subst s.
      rewrite sel_merge by lia.
      destruct (site_shape_sel R _ _ _ _ _ S0 Hs0) as (_ & r0 & c0).
      destruct (site_shape_sel R _ _ _ _ _ S1 Hs1) as (_ & r1 & c1).
      apply (msp_mulmx R _ _ ql qm qr); auto.
  Qed.

  (* ---------- split_mps_tensor ---------- *)
  (* block sparsity of a matrix under row charges q0 and column charges q1 (the predicate [qsp] of C11 / C12) *)
  Definition bsp (M : mx) (q0 q1 : list Z) : Prop :=
    forall i j, i < nr M -> j < nc M -> get M i j <> rO -> nth i q0 0%Z = nth j q1 0%Z.
  (* what C12 states about the answer (u, s, v, q) of split_matrix_svd as far as the invariant is concerned *)
  Definition svd_ans_ok (M : mx) (q0 q1 : list Z) (ans : mx * list R * mx * list Z) : Prop :=
    let '(U, sg, V, qb) := ans in
    nr U = nr M /\ nc U = length sg /\ nr V = length sg /\ nc V = nc M /\ length qb = length sg /\
    bsp U q0 qb /\ bsp V qb q1.

  Theorem split_ok svd ksqrt (A : site) qd0 qd1 qD0 qD2 distr :
    site_shape (length qd0 * length qd1) (length qD0) (length qD2) A = true -> 0 < length qd0 * length qd1 ->
    svd_ans_ok (split_matrix (length qd0) (length qd1) A) (qflat qd0 qD0) (qflat (map Z.opp qd1) qD2)
               (svd (split_matrix (length qd0) (length qd1) A) (qflat qd0 qD0) (qflat (map Z.opp qd1) qD2)) ->
    let '(B0, B1, qb) := split_mps_tensor svd ksqrt A qd0 qd1 qD0 qD2 distr in
    site_okP R qd0 qD0 qb B0 /\ site_okP R qd1 qb qD2 B1.
  Proof.
    intros SA Hd Hans. unfold split_mps_tensor. cbv zeta.
    destruct (site_shape_sel R _ _ _ _ 0 SA Hd) as (_ & rA & cA). rewrite rA, cA.
    destruct (svd (split_matrix (length qd0) (length qd1) A) (qflat qd0 qD0) (qflat (map Z.opp qd1) qD2))
      as [[[U sg] V] qb] eqn:E.
    destruct Hans as (rU & cU & rV & cV & Lq & HU & HV).
    unfold split_matrix in rU, cV. rewrite nr_tab in rU. rewrite nc_tab in cV. rewrite rA in rU. rewrite cA in cV.
    split; split.
    - rewrite Lq. apply site_shape_stab. intros s _. split; [apply wfb_tab|split; reflexivity].
    - intros s Hs a b Ha Hb Hnz. rewrite sel_stab in Hnz by exact Hs. rewrite Lq in Hb. rewrite get_tab in Hnz by assumption.
      apply mul_nz_l in Hnz.
      assert (Hi : s * length qD0 + a < nr U) by (rewrite rU; nia).
      pose proof (HU _ _ Hi ltac:(rewrite cU; exact Hb) Hnz) as Eq.
      rewrite qflat_nth in Eq by assumption. unfold zget. lia.
    - rewrite Lq. apply site_shape_stab. intros s _. split; [apply wfb_tab|split; reflexivity].
    - intros s Hs a b Ha Hb Hnz. rewrite sel_stab in Hnz by exact Hs. rewrite Lq in Ha. rewrite get_tab in Hnz by assumption.
      apply mul_nz_r in Hnz.
      assert (Hj : s * length qD2 + b < nc V) by (rewrite cV; nia).
      pose proof (HV _ _ ltac:(rewrite rV; exact Ha) Hj Hnz) as Eq.
      rewrite qflat_nth in Eq by (rewrite ?map_length; assumption).
      pose proof (zget_opp qd1 s) as Eo. unfold zget in *. lia.
  Qed.

  (* the matrix handed to split_matrix_svd satisfies the assertions at the top of that routine ([valid_in], the
     hypothesis of C12's theorems), whenever the merged tensor satisfies the invariant *)
  Theorem split_input_valid (A : site) qd0 qd1 qD0 qD2 :
    site_okP R (qflat qd0 qd1) qD0 qD2 A -> 0 < length qd0 * length qd1 ->
    valid_in (split_matrix (length qd0) (length qd1) A) (qflat qd0 qD0) (qflat (map Z.opp qd1) qD2) = true.
  Proof.
    intros [SA HA] Hd. rewrite qflat_length in SA.
    destruct (site_shape_sel R _ _ _ _ 0 SA Hd) as (_ & rA & cA).
    unfold valid_in. rewrite !andb_true_iff. unfold split_matrix. rewrite rA, cA.
    split; [split; [split|]|].
    - apply wfb_tab.
    - rewrite nr_tab, qflat_length. apply Nat.eqb_refl.
    - rewrite nc_tab, qflat_length, map_length. apply Nat.eqb_refl.
    - unfold qsparseb. rewrite nr_tab, nc_tab. apply forallb_seq0. intros i Hi. apply forallb_seq0. intros j Hj.
      apply entry_b. rewrite get_tab by assumption. intros Hnz.
      assert (H0 : length qD0 <> 0) by (intros E; rewrite E in Hi; lia).
      assert (H2 : length qD2 <> 0) by (intros E; rewrite E in Hj; lia).
      assert (Hi1 : i / length qD0 < length qd0) by (apply Nat.div_lt_upper_bound; [exact H0|rewrite Nat.mul_comm; exact Hi]).
      assert (Hj1 : j / length qD2 < length qd1) by (apply Nat.div_lt_upper_bound; [exact H2|rewrite Nat.mul_comm; exact Hj]).
      assert (Hi2 : i mod length qD0 < length qD0) by (apply Nat.mod_upper_bound; exact H0).
      assert (Hj2 : j mod length qD2 < length qD2) by (apply Nat.mod_upper_bound; exact H2).
      assert (Hs : i / length qD0 * length qd1 + j / length qD2 < length (qflat qd0 qd1)) by (rewrite qflat_length; nia).
      pose proof (HA _ Hs _ _ Hi2 Hj2 Hnz) as Eq.
      rewrite zget_qflat_pair in Eq by assumption.
      pose proof (zget_qflat qd0 qD0 i Hi) as E0.
      pose proof (zget_qflat (map Z.opp qd1) qD2 j ltac:(rewrite map_length; exact Hj)) as E1.
      rewrite zget_opp in E1. unfold zget in *. lia.
  Qed.

  (* ---------- the in-place two-site update of a state ---------- *)
  Section SplitAt.
    Variable svd : mx -> list Z -> list Z -> mx * list R * mx * list Z.
    Variable ksqrt : R -> R.
    (* the one call of split_matrix_svd issued by [split_at] *)
    Fixpoint split_call (k : nat) (qd : list Z) (qDs : list (list Z)) (As : list site) : option (mx * list Z * list Z) :=
      match k, As, qDs with
      | O, A0 :: A1 :: _, q0 :: _ :: q2 :: _ =>
          Some (split_matrix (length qd) (length qd) (merge_mps_tensor_pair A0 A1), qflat qd q0, qflat (map Z.opp qd) q2)
      | S k', _ :: As', _ :: qs' => split_call k' qd qs' As'
      | _, _, _ => None
      end.
    (* C12's contract on that call: the assertions of split_matrix_svd hold => the factors are block sparse *)
    Definition split_call_ok (c : option (mx * list Z * list Z)) : Prop :=
      match c with
      | Some (M, q0, q1) => valid_in M q0 q1 = true -> svd_ans_ok M q0 q1 (svd M q0 q1)
      | None => True
      end.

    Lemma split_at_ok distr qd : 0 < length qd -> forall k qDs (As : list site) qs2 As2,
      chainP (site_okP R qd) qDs As -> split_at svd ksqrt distr k qd qDs As = Some (qs2, As2) ->
      split_call_ok (split_call k qd qDs As) ->
      chainP (site_okP R qd) qs2 As2 /\ hd [] qs2 = hd [] qDs /\ last qs2 [] = last qDs [] /\ length As2 = length As.
    Proof.
      intros Hd. induction k as [|k IH]; intros qDs As qs2 As2 HC E Hc.
      - destruct As as [|A0 [|A1 As]]; try discriminate E.
        destruct qDs as [|q0 [|q1 [|q2 qs]]]; try discriminate E.
        apply chainP_cons in HC. destruct HC as [H0 HC]. apply chainP_cons in HC. destruct HC as [H1 HC].
        pose proof (merge_pair_ok qd qd q0 q1 q2 A0 A1 H0 H1) as HM.
        simpl in E, Hc.
        assert (Hdd : 0 < length qd * length qd) by nia.
        specialize (Hc (split_input_valid _ qd qd q0 q2 HM Hdd)).
        pose proof (split_ok svd ksqrt (merge_mps_tensor_pair A0 A1) qd qd q0 q2 distr) as HS.
        destruct HM as [SM _]. rewrite qflat_length in SM. specialize (HS SM Hdd Hc).
        destruct (split_mps_tensor svd ksqrt (merge_mps_tensor_pair A0 A1) qd qd q0 q2 distr) as [[B0 B1] qb].
        injection E as <- <-. destruct HS as [HB0 HB1].
        split; [|split; [reflexivity|split; [|reflexivity]]].
        + apply chainP_cons. split; [exact HB0|]. destruct qs as [|q3 qs].
          * destruct As; [|contradiction HC]. apply chainP_cons. split; [exact HB1|exact I].
          * apply chainP_cons. split; [exact HB1|exact HC].
        + destruct qs; reflexivity.
      - destruct As as [|A As]; [discriminate E|]. destruct qDs as [|q qs]; [discriminate E|].
        simpl in E, Hc. destruct (split_at svd ksqrt distr k qd qs As) as [[qs3 As3]|] eqn:E2; [|discriminate E].
        injection E as <- <-.
        destruct qs as [|qr qs]; [contradiction HC|]. apply chainP_cons in HC. destruct HC as [HA HC].
        destruct (IH (qr :: qs) As qs3 As3 HC E2 Hc) as (HC3 & Hhd & Hlast & HL).
        destruct qs3 as [|q3 qs3]; [apply chainP_length in HC3; discriminate HC3|]. simpl in Hhd. subst q3.
        split; [apply chainP_cons; split; assumption|]. split; [reflexivity|]. split; [|simpl; lia].
        rewrite !last_cons_cons. exact Hlast.
    Qed.

    Theorem split_merge_ok distr k (p p' : mps) :
      mps_ok p = true -> split_merge svd ksqrt distr k p = Some p' ->
      split_call_ok (split_call k (m_qd p) (m_qD p) (m_A p)) ->
      mps_ok p' = true /\ m_qd p' = m_qd p /\ hd [] (m_qD p') = hd [] (m_qD p) /\ last (m_qD p') [] = last (m_qD p) [] /\
      length (m_A p') = length (m_A p).
    Proof.
      intros Hp E Hc. unfold split_merge in E. destruct (Nat.eqb (length (m_qd p)) 0) eqn:Ed; [discriminate|].
      apply Nat.eqb_neq in Ed.
      destruct (split_at svd ksqrt distr k (m_qd p) (m_qD p) (m_A p)) as [[qs As]|] eqn:E2; [|discriminate].
      injection E as <-. apply mps_ok_P in Hp.
      destruct (split_at_ok distr (m_qd p) ltac:(lia) k _ _ _ _ Hp E2 Hc) as (HC & Hhd & Hlast & HL).
      split; [apply mps_ok_P; exact HC|]. cbn [m_qd m_qD m_A]. auto.
    Qed.
  End SplitAt.

  (* ---------- MPS.from_vector: all charges are zero, so only the shapes matter ---------- *)
  Lemma msp_zero n m (M : mx) : msp R 0%Z (zeros n) (zeros m) M.
  Proof. intros a b _ _ _. unfold zeros. rewrite !zget_zeros. reflexivity. Qed.
  Lemma chain_qsparse_zeros d : forall (As : list site) Ds, length Ds = S (length As) ->
    chain_qsparse (zeros d) (map zeros Ds) As = true.
  Proof.
    induction As as [|A As IH]; intros Ds HL.
    - destruct Ds as [|D [|? ?]]; try discriminate HL. reflexivity.
    - destruct Ds as [|Dl [|Dr Ds]]; try discriminate HL.
      change (chain_qsparse (zeros d) (map zeros (Dl :: Dr :: Ds)) (A :: As))
        with (site_qsparse (zeros d) (zeros Dl) (zeros Dr) A && chain_qsparse (zeros d) (map zeros (Dr :: Ds)) As).
      apply andb_true_iff. split; [|apply IH; simpl in *; lia].
      apply site_qsparse_spec. intros s _. unfold zeros at 1. rewrite zget_zeros. apply msp_zero.
  Qed.
  Theorem from_vector_ok d (As : list site) :
    chain_shape d (1 :: map site_nc As) As = true -> mps_ok (from_vector_mps d As) = true.
  Proof.
    intros H. unfold mps_ok, from_vector_mps. cbn [m_qd m_qD m_A].
    assert (E : [0%Z] :: map (fun A : site => zeros (site_nc A)) As = map zeros (1 :: map site_nc As)).
    { simpl. f_equal. rewrite map_map. reflexivity. }
    rewrite E. unfold zeros at 1. rewrite repeat_length.
    assert (E2 : map (@length Z) (map zeros (1 :: map site_nc As)) = 1 :: map site_nc As).
    { rewrite map_map. rewrite <- (map_id (1 :: map site_nc As)) at 2. apply map_ext. intros n. apply repeat_length. }
    rewrite E2, H. change (true && ?x) with x.
    apply (chain_qsparse_zeros d As (1 :: map site_nc As)). simpl. rewrite map_length. reflexivity.
  Qed.

  (* ---------- MPO.from_opgraph (and therefore every Hamiltonian constructor) ---------- *)
  Lemma ochain_shape_tensors d (g : graph R) opmap : forall ls l0,
    ochain_shape d (map (@length Z) (l0 :: ls)) (tensors d g opmap l0 ls) = true.
  Proof.
    induction ls as [|l1 ls IH]; intros l0; [reflexivity|].
    change (tensors d g opmap l0 (l1 :: ls)) with (site_tensor d g opmap l0 l1 :: tensors d g opmap l1 ls).
    cbn [map]. rewrite ochain_shape_cons. apply andb_true_iff. split; [|apply (IH l1)].
    change (site_tensor d g opmap l0 l1) with (otab d (fun s t => bond_mx g opmap l0 l1 s t)).
    apply osite_shape_otab. intros s t _ _. unfold bond_mx. split; [apply wfb_tab|split; reflexivity].
  Qed.
  Theorem from_opgraph_ok qd (g : graph R) opmap o m : from_opgraph qd g opmap = Ok (o, m) -> mpo_ok o = true.
  Proof.
    intros H. destruct (from_opgraph_struct R qd g opmap o m H) as (ls & _ & _ & _ & Eqd & EqD & EA & _ & Hsp).
    unfold mpo_ok. rewrite Eqd at 2. rewrite Hsp, andb_true_r. rewrite Eqd, EqD, EA.
    rewrite map_map.
    rewrite (map_ext (fun x : list Z => length (map (charge R g) x)) (@length Z)) by (intros; apply map_length).
    apply ochain_shape_tensors.
  Qed.
End Ops.
