(* C16: a well-formed operator graph never fails its own consistency check
   ([is_consistent_fuel] of Model/OpGraph.v, the mirror of pytenet's OpGraph.is_consistent).
   The level check re-enumerates all paths breadth first, so it may exhaust any fixed fuel ([None]);
   it never answers [Some false]. *)
From Coq Require Import ZArith List Lia Bool Permutation.
From PT Require Import Base.Scalar Base.BigSum Model.OpGraph Model.Rewrites
  Proofs.RewritesBase Proofs.RewritesMergeInv.
Import ListNotations.
Open Scope Z_scope.

Section Consistent.
  Variable R : cring.
  Notation graph := (graph R).
  Notation gedge := (gedge R).

  (* ---------- (1) node -> edge references ---------- *)
  Lemma WF_node_refs_ok (g : graph) : WF R g -> forallb (node_refs_ok R g) (g_nodes g) = true.
  Proof.
    intros W. apply forallb_forall. intros n Hn. unfold node_refs_ok.
    apply forallb_forall. intros dir Hdir. apply forallb_forall. intros eid Hin.
    assert (Hex : exists e, In e (g_edges g) /\ e_id e = eid /\ edge_nid e (1 - dir) = n_id n).
    { destruct Hdir as [<-|[<-|[]]].
      - destruct (wf_ref1 R g W) as [_ [R2 _]]. destruct (R2 n eid Hn Hin) as [e He]. exists e. exact He.
      - destruct (wf_ref0 R g W) as [_ [R2 _]]. destruct (R2 n eid Hn Hin) as [e He]. exists e. exact He. }
    destruct Hex as [e [He [Hid Hend]]]. rewrite <- Hid.
    rewrite (find_edge_In R g e (wf_eids R g W) He). apply Z.eqb_eq. exact Hend.
  Qed.

  (* ---------- (2) edge -> node references, sorted operator ids ---------- *)
  Lemma WF_edge_refs_ok (g : graph) :
    WF R g -> forallb (fun e => edge_refs_ok R g e && sorted_opics (e_opics e)) (g_edges g) = true.
  Proof.
    intros W. apply forallb_forall. intros e He. apply andb_true_iff. split; [|apply (wf_sorted R g W e He)].
    unfold edge_refs_ok. apply forallb_forall. intros dir Hdir.
    assert (Hex : exists n, In n (g_nodes g) /\ n_id n = edge_nid e dir /\ In (e_id e) (node_eids n (1 - dir))).
    { destruct Hdir as [<-|[<-|[]]].
      - destruct (wf_ref0 R g W) as [_ [_ R3]]. destruct (R3 e He) as [n Hn]. exists n. exact Hn.
      - destruct (wf_ref1 R g W) as [_ [_ R3]]. destruct (R3 e He) as [n Hn]. exists n. exact Hn. }
    destruct Hex as [n [Hn [Hid Hmem]]]. rewrite <- Hid.
    rewrite (find_node_In R g n (wf_nids R g W) Hn). apply zmem_In. exact Hmem.
  Qed.

  (* ---------- (3) terminals ---------- *)
  Lemma TermOK_terminal_ok (g : graph) d : NoDup (nids R g) -> TermOK R g d -> terminal_ok R g d = true.
  Proof.
    intros Hnd [n [Hn [Hid Hnil]]]. unfold terminal_ok. rewrite <- Hid.
    rewrite (find_node_In R g n Hnd Hn). rewrite Hnil. reflexivity.
  Qed.
  Lemma WF_terminal_ok (g : graph) : WF R g -> terminal_ok R g 0 && terminal_ok R g 1 = true.
  Proof.
    intros W. rewrite (TermOK_terminal_ok g 0 (wf_nids R g W) (wf_term0 R g W)).
    rewrite (TermOK_terminal_ok g 1 (wf_nids R g W) (wf_term1 R g W)). reflexivity.
  Qed.

  (* ---------- (4) level search ---------- *)
  Definition sgn_dir (d : nat) : Z := match d with O => 1 | _ => -1 end.
  (* every (node, level) entry agrees with the signed level function up to the constant c *)
  Definition LvInv (l : Z -> Z) (d : nat) (c : Z) (q : list (Z * nat)) : Prop :=
    forall nid k, In (nid, k) q -> Z.of_nat k = sgn_dir d * l nid - c.

  Lemma level_step (g : graph) (l : Z -> Z) d e :
    (forall e, In e (g_edges g) -> l (e_to e) = l (e_from e) + 1) -> (d <= 1)%nat -> In e (g_edges g) ->
    sgn_dir d * l (end_o R d e) = sgn_dir d * l (end_d R d e) + 1.
  Proof.
    intros Hl Hd He. specialize (Hl e He). destruct d as [|[|d]]; [| |lia]; simpl end_o; simpl end_d; simpl sgn_dir; lia.
  Qed.

  Lemma LvInv_succ (g : graph) (l : Z -> Z) d c nid k q n :
    WF R g -> (forall e, In e (g_edges g) -> l (e_to e) = l (e_from e) + 1) -> (d <= 1)%nat ->
    LvInv l d c ((nid, k) :: q) -> find_node g nid = Some n ->
    LvInv l d c (q ++ map (fun e => (edge_nid e (1 - d), S k)) (edges_of g (node_eids n (1 - d)))).
  Proof.
    intros W Hl Hd Hq Fn. apply find_node_Some in Fn. destruct Fn as [Hn Hid].
    intros x j Hin. apply in_app_iff in Hin. destruct Hin as [Hin|Hin].
    - apply Hq. right. exact Hin.
    - apply in_map_iff in Hin. destruct Hin as [e [Heq Hine]].
      cut (Z.of_nat (S k) = sgn_dir d * l (edge_nid e (1 - d)) - c).
      { intros Hgoal. injection Heq as Hx Hj. rewrite <- Hx, <- Hj. exact Hgoal. }
      clear Heq.
      apply edges_of_In in Hine. destruct Hine as [eid [Heid Fe]].
      apply find_edge_Some in Fe. destruct Fe as [He Hide].
      destruct (wf_ref R g d W Hd) as [_ [R2 _]].
      destruct (R2 n eid Hn Heid) as [e' [He' [Hide' Hend]]].
      assert (e' = e) by (apply (key_inj (@e_id R) (g_edges g)); [apply (wf_eids R g W)|exact He'|exact He|congruence]).
      subst e'.
      rewrite (edge_nid_o R e d Hd). pose proof (level_step g l d e Hl Hd He) as Hs.
      assert (Hk : Z.of_nat k = sgn_dir d * l nid - c) by (apply Hq; left; reflexivity).
      rewrite Hend, Hid in Hs. rewrite Nat2Z.inj_succ. lia.
  Qed.

  Lemma levels_ok_not_false (g : graph) (l : Z -> Z) d c :
    WF R g -> (forall e, In e (g_edges g) -> l (e_to e) = l (e_from e) + 1) -> (d <= 1)%nat ->
    forall fuel queue lv, LvInv l d c queue -> LvInv l d c lv ->
      levels_ok_fuel R fuel g d queue lv <> Some false.
  Proof.
    intros W Hl Hd. induction fuel as [|f IH]; intros queue lv Hq Hlv.
    - destruct queue as [|[nid k] q']; simpl; discriminate.
    - destruct queue as [|[nid k] q']; [simpl; discriminate|].
      cbn [levels_ok_fuel].
      destruct (find (fun p : Z * nat => fst p =? nid) lv) as [[nid' k']|] eqn:Ff.
      + apply find_some in Ff. destruct Ff as [Hin Heq]. simpl in Heq. apply Z.eqb_eq in Heq. subst nid'.
        assert (Hk : Z.of_nat k = sgn_dir d * l nid - c) by (apply Hq; left; reflexivity).
        assert (Hk' : Z.of_nat k' = sgn_dir d * l nid - c) by (apply Hlv; exact Hin).
        assert (k = k') by lia. subst k'. rewrite Nat.eqb_refl.
        destruct (find_node g nid) as [n|] eqn:Fn; [|discriminate].
        apply IH; [|exact Hlv]. eapply LvInv_succ; eauto.
      + destruct (find_node g nid) as [n|] eqn:Fn; [|discriminate].
        apply IH.
        * eapply LvInv_succ; eauto.
        * intros x j [Heq|Hin]; [|apply Hlv; exact Hin]. inversion Heq; subst x j. apply Hq. left. reflexivity.
  Qed.

  Lemma WF_levels_ok (g : graph) d fuel :
    WF R g -> (d <= 1)%nat -> levels_ok_fuel R fuel g d [(terminal g d, O)] [] <> Some false.
  Proof.
    intros W Hd. destruct (wf_layered R g W) as [l Hl].
    apply (levels_ok_not_false g l d (sgn_dir d * l (terminal g d)) W Hl Hd).
    - intros x j [Heq|[]]. inversion Heq; subst x j. simpl Z.of_nat. lia.
    - intros x j [].
  Qed.

  (* ---------- (5) assembly ---------- *)
  Lemma WF_is_consistent_true (g : graph) fuel b : WF R g -> is_consistent_fuel fuel g = Some b -> b = true.
  Proof.
    intros W. unfold is_consistent_fuel.
    rewrite (WF_node_refs_ok g W), (WF_edge_refs_ok g W), (WF_terminal_ok g W). cbn [negb].
    pose proof (WF_levels_ok g 0 fuel W (le_S _ _ (le_n _))) as H0.
    pose proof (WF_levels_ok g 1 fuel W (le_n _)) as H1.
    change (terminal g 0) with (g_t0 g) in H0. change (terminal g 1) with (g_t1 g) in H1.
    destruct (levels_ok_fuel R fuel g 0 [(g_t0 g, 0%nat)] []) as [[|]|];
      destruct (levels_ok_fuel R fuel g 1 [(g_t1 g, 0%nat)] []) as [[|]|];
      try congruence; intros E; inversion E; reflexivity.
  Qed.

  Lemma WF_is_consistent (g : graph) fuel : WF R g -> is_consistent_fuel fuel g <> Some false.
  Proof.
    intros W H. apply (WF_is_consistent_true g fuel false W) in H. discriminate.
  Qed.
End Consistent.

Print Assumptions WF_is_consistent_true.
Print Assumptions WF_is_consistent.
