(* C20, all lattice sizes, nearest-neighbour tables without coincidences, part 3: assembly.
   A table of two-site terms (o1 o2, charge q, coefficient) and one-site terms (o, coefficient), all coefficients non-zero,
   satisfying the side conditions [table_okb] (computed), translated over L sites: every certified cover oracle chooses covers
   of sizes [w, ..., w, 1] with w = (number of two-site terms) + 2, so the MPO has bond dimensions [1, w, ..., w, 1] for every
   L >= 1.  Instances: bose_hubbard_mpo (w = 4), fermi_hubbard_mpo (w = 6). *)
From Coq Require Import ZArith List Lia Bool.
From PT Require Import Base.Scalar Base.BigSum Base.Mx Model.OpGraph Model.Bipartite Model.FromOpchains Model.GraphMPO
                       Model.Rewrites Model.Hamiltonians Model.Compact Model.CompactAllL
                       Proofs.FromOpchainsGraph Proofs.FromOpchainsPart Proofs.FromOpchainsSem
                       Proofs.CompactCount Proofs.CompactSweep Proofs.CompactCert Proofs.HamTotal
                       Proofs.CompactAllLPart Proofs.CompactAllLMatch Proofs.CompactAllLWidths
                       Proofs.CompactAllLXXZBody Proofs.CompactAllLXXZSite Proofs.CompactAllLXXZTop
                       Proofs.CompactAllLNNBody Proofs.CompactAllLNNSite.
Import ListNotations.
Open Scope Z_scope.

(* ---- the side conditions as a boolean ---- *)
Definition zz_eqb (a b : Z * Z) : bool := (fst a =? fst b) && (snd a =? snd b).
Fixpoint nodupzz (l : list (Z * Z)) : bool :=
  match l with [] => true | x :: t => negb (existsb (zz_eqb x) t) && nodupzz t end.
Lemma nodupzz_NoDup l : nodupzz l = true -> NoDup l.
Proof.
  induction l as [|x l IH]; simpl; intros H; [constructor|]. apply andb_true_iff in H. destruct H as [H1 H2].
  constructor; [|apply IH; exact H2]. intros Hin. apply negb_true_iff in H1.
  assert (E : existsb (zz_eqb x) l = true).
  { apply existsb_exists. exists x. split; [exact Hin|]. unfold zz_eqb. rewrite !Z.eqb_refl. reflexivity. }
  congruence.
Qed.
Definition table_okb (T : list term) (S : list Z) : bool :=
  forallb (fun t => negb (t1 t =? 0) && negb (t2 t =? 0)) T && forallb (fun o => negb (o =? 0)) S &&
  nodupzz (map (fun t => (t1 t, tq t)) T) && nodupzz (map (fun t => (t2 t, tq t)) T) &&
  forallb (fun t => forallb (fun o => negb ((t1 t =? o) && (tq t =? 0)) && negb ((t2 t =? o) && (tq t =? 0))) S) T &&
  match S with oa :: ob :: _ => negb (oa =? ob) | _ => false end.

Lemma table_ok_spec T S : table_okb T S = true ->
  (forall t, In t T -> t1 t <> 0 /\ t2 t <> 0) /\ (forall o, In o S -> o <> 0) /\
  NoDup (map (fun t => (t1 t, tq t)) T) /\ NoDup (map (fun t => (t2 t, tq t)) T) /\
  (forall t o, In t T -> In o S -> ~ (t1 t = o /\ tq t = 0)) /\ (forall t o, In t T -> In o S -> ~ (t2 t = o /\ tq t = 0)) /\
  exists oa ob, In oa S /\ In ob S /\ oa <> ob.
Proof.
  unfold table_okb. rewrite !andb_true_iff. intros [[[[[A B] C] D] F] G].
  rewrite forallb_forall in A, B, F.
  split; [|split; [|split; [|split; [|split; [|split]]]]].
  - intros t Ht. specialize (A t Ht). apply andb_true_iff in A. destruct A as [A1 A2].
    apply negb_true_iff, Z.eqb_neq in A1. apply negb_true_iff, Z.eqb_neq in A2. auto.
  - intros o Ho. specialize (B o Ho). apply negb_true_iff, Z.eqb_neq in B. exact B.
  - apply nodupzz_NoDup. exact C.
  - apply nodupzz_NoDup. exact D.
  - intros t o Ht Ho [E1 E2]. specialize (F t Ht). rewrite forallb_forall in F. specialize (F o Ho). apply andb_true_iff in F.
    destruct F as [F1 _]. apply negb_true_iff in F1. apply andb_false_iff in F1. destruct F1 as [F1|F1]; apply Z.eqb_neq in F1; contradiction.
  - intros t o Ht Ho [E1 E2]. specialize (F t Ht). rewrite forallb_forall in F. specialize (F o Ho). apply andb_true_iff in F.
    destruct F as [_ F2]. apply negb_true_iff in F2. apply andb_false_iff in F2. destruct F2 as [F2|F2]; apply Z.eqb_neq in F2; contradiction.
  - destruct S as [|oa [|ob S']]; try discriminate. apply negb_true_iff, Z.eqb_neq in G. exists oa, ob. cbn; auto.
Qed.

Fixpoint nn_sizes (T : list term) (n : nat) : list nat :=
  match n with O => [] | S m => dszN T n :: nn_sizes T m end.
Lemma nn_sizes_closed T m : nn_sizes T (S m) = repeat (length T + 2)%nat m ++ [1%nat].
Proof.
  induction m as [|m IH]; [reflexivity|]. change (nn_sizes T (S (S m))) with (dszN T (S (S m)) :: nn_sizes T (S m)). rewrite IH. reflexivity.
Qed.
Lemma nn_sizes_dims T L : (1 <= L)%nat -> 1%nat :: nn_sizes T L = dims_const L (length T + 2).
Proof.
  intros HL. destruct L as [|m]; [lia|]. rewrite nn_sizes_closed. unfold dims_const. replace (S m - 1)%nat with m by lia. reflexivity.
Qed.

Section TopN.
  Variable R : cring.
  Notation chain := (chain R).
  Notation st := (st R).
  Variable Tc : list (term * R).
  Variable Sc : list (Z * R).
  Let T := map fst Tc.
  Let S := map fst Sc.
  Hypothesis Hok : table_okb T S = true.
  Hypothesis HnzT : forallb (fun x => negb (keqb R (snd x) (k0 R))) Tc = true.
  Hypothesis HnzS : forallb (fun x => negb (keqb R (snd x) (k0 R))) Sc = true.

  Definition lc2 (x : term * R) : chain := lc [t1 (fst x); t2 (fst x)] [0; tq (fst x); 0] (snd x).
  Definition lc1 (x : Z * R) : chain := lc [fst x] [0; 0] (snd x).
  Definition glop : list chain := map lc2 Tc ++ map lc1 Sc.

  Lemma nn_sweep cover : forall n (s s' : st), PsiN T S n (map fst (s_next s)) ->
    calls_certified cover n s -> sweep cover n s = Ok s' -> cover_sizes cover n s = nn_sizes T n.
  Proof.
    destruct (table_ok_spec T S Hok) as [H1 [H2 [H3 [H4 [H5 [H6 [oa [ob [Ha [Hb Hab]]]]]]]]]].
    induction n as [|n IH]; intros s s' HP Hc H; [reflexivity|].
    cbn [sweep cover_sizes calls_certified nn_sizes] in *. destruct Hc as [Hc1 Hc2].
    destruct (site cover s) as [s1|] eqn:Es; [|discriminate]. cbn [bind] in H.
    unfold site_call in *. set (p := site_partition (s_next s)) in *.
    set (cv := cover (length (p_u p)) (length (p_v p)) (p_edges p)) in *.
    destruct (certified_unpack _ _ _ cv Hc1) as [m [Huc [Hvc [Hcov [Hm [Hmu [Hmv Hlen]]]]]]].
    pose proof (site_partition_PSpec R (s_next s)) as PS. fold p in PS.
    destruct HP as [nid0 [HF HL]].
    pose proof (site_sizeN R T S H1 H2 H3 H4 H5 H6 oa Ha p _ PS n nid0 HF HL (fst cv) (snd cv) m Hcov Hm Hmu Hmv Hlen) as Hsz.
    rewrite Hsz. f_equal.
    destruct n as [|n0]; [reflexivity|].
    unfold site in Es. fold p in Es. destruct (Nat.eqb (length (p_u p)) 0 || Nat.eqb (length (p_v p)) 0); [discriminate|]. fold cv in Es.
    destruct (site_step_X R p cv s s1 Hvc Es) as [_ [A2 _]]. cbn zeta in A2.
    apply (IH s1 s'); [|exact Hc2|exact H]. rewrite A2.
    apply (site_nextN R T S H1 H2 H3 H4 H5 H6 oa ob Ha Hb Hab p _ PS (Datatypes.S n0) nid0 HF HL (fst cv) (snd cv) m Hcov Hm Hmu Hmv Hlen Huc). lia.
  Qed.

  Lemma nn_start L cs : pad_all L 0 (filter (@nonzero R) (local_opchains_to_chains glop L)) = Ok cs ->
    PsiN T S L (map fst (init_next 0 cs)).
  Proof.
    intros Hp. exists 0.
    assert (Hin : forall h, In h (map fst (init_next 0 cs)) <-> h_nidl h = 0 /\ FutN T S L (body h)).
    { intros h. unfold init_next. rewrite map_map. cbn [fst]. rewrite in_map_iff.
      assert (Hcs : forall c' : chain, In c' cs <-> exists l i, In l glop /\ (i < L + 1 - length (c_oids l))%nat /\ padded L 0 (shift_chain l i) = Ok c').
      { intros c'. rewrite (pad_all_In R L 0 _ cs Hp c'). split.
        - intros [x [Hx Ep]]. apply filter_In in Hx. destruct Hx as [Hx _]. unfold local_opchains_to_chains in Hx.
          apply in_flat_map in Hx. destruct Hx as [l [Hl Hx]]. unfold shifts in Hx. apply in_map_iff in Hx. destruct Hx as [i [<- Hi]].
          apply in_seq in Hi. exists l, i. split; [exact Hl|]. split; [lia|exact Ep].
        - intros [l [i [Hl [Hi Ep]]]]. exists (shift_chain l i). split; [|exact Ep]. apply filter_In. split.
          + unfold local_opchains_to_chains. apply in_flat_map. exists l. split; [exact Hl|]. unfold shifts. apply in_map. apply in_seq. lia.
          + unfold nonzero, shift_chain. cbn [c_coeff]. unfold glop in Hl. apply in_app_or in Hl. rewrite forallb_forall in HnzT, HnzS.
            destruct Hl as [Hl|Hl]; apply in_map_iff in Hl; destruct Hl as [x [<- Hx]]; cbn [lc1 lc2 lc c_coeff]; [apply HnzT|apply HnzS]; exact Hx. }
      split.
      - intros [c' [Eh Hc']]. apply Hcs in Hc'. destruct Hc' as [l [i [Hl [Hi Ep]]]]. subst h. cbn [h_nidl]. split; [reflexivity|].
        unfold body. cbn [h_oids h_qnums]. unfold glop in Hl. apply in_app_or in Hl.
        destruct Hl as [Hl|Hl]; apply in_map_iff in Hl; destruct Hl as [x [<- Hx]]; cbn [lc1 lc2 lc c_oids length] in Hi.
        + destruct (pad2 R L i (t1 (fst x)) (t2 (fst x)) (tq (fst x)) (snd x) ltac:(lia)) as [c2 [E2 B2]]. unfold lc2, lc in Ep, E2.
          rewrite Ep in E2. inversion E2; subst c2. rewrite B2. left. exists i, (fst x). split; [lia|]. split; [apply in_map; exact Hx|reflexivity].
        + destruct (pad1 R L i (fst x) (snd x) ltac:(lia)) as [c2 [E2 B2]]. unfold lc1, lc in Ep, E2.
          rewrite Ep in E2. inversion E2; subst c2. rewrite B2. right. exists i, (fst x). split; [lia|]. split; [apply in_map; exact Hx|reflexivity].
      - intros [Hn Hf]. assert (Hmk : forall c' : chain, (c_oids c' ++ [0], c_qnums c' ++ [0]) = body h -> mkh (c_oids c' ++ [0]) (c_qnums c' ++ [0]) 0 = h).
        { intros c' Eb. destruct h as [ho hq hn]. unfold body in Eb. cbn [h_oids h_qnums h_nidl] in *. inversion Eb. subst. reflexivity. }
        destruct Hf as [[i [t [Hi [Ht Hb]]]]|[i [o [Hi [Ho Hb]]]]].
        + apply in_map_iff in Ht. destruct Ht as [x [Ex Hx]]. subst t.
          destruct (pad2 R L i (t1 (fst x)) (t2 (fst x)) (tq (fst x)) (snd x) Hi) as [c2 [E2 B2]]. exists c2. split; [apply Hmk; congruence|].
          apply Hcs. exists (lc2 x), i. split; [unfold glop; apply in_or_app; left; apply in_map; exact Hx|]. split; [cbn [lc2 lc c_oids length]; lia|exact E2].
        + apply in_map_iff in Ho. destruct Ho as [x [Ex Hx]]. subst o.
          destruct (pad1 R L i (fst x) (snd x) Hi) as [c2 [E2 B2]]. exists c2. split; [apply Hmk; congruence|].
          apply Hcs. exists (lc1 x), i. split; [unfold glop; apply in_or_app; right; apply in_map; exact Hx|]. split; [cbn [lc1 lc c_oids length]; lia|exact E2]. }
    split.
    - intros h Hn. rewrite Hin. tauto.
    - intros h Hh Hne. apply Hin in Hh. tauto.
  Qed.

  Theorem glop_bond_dims cover L g : (1 <= L)%nat ->
    (forall s0, start_state (local_opchains_to_chains glop L) L 0 = Some s0 -> calls_certified cover L s0) ->
    from_opchains cover (local_opchains_to_chains glop L) L 0 = Ok g ->
    bond_dims g = Some (dims_const L (length Tc + 2)).
  Proof.
    intros HL Hc Hg.
    destruct (opchains_bond_dims_sizes R cover _ L 0 g HL Hc Hg) as [s0 [Hs0 Hb]]. rewrite Hb. f_equal.
    replace (length Tc) with (length T) by (unfold T; apply map_length).
    rewrite <- (nn_sizes_dims T L HL). f_equal.
    specialize (Hc s0 Hs0). unfold start_state in Hs0.
    destruct (pad_all L 0 (filter (@nonzero R) (local_opchains_to_chains glop L))) as [cs|] eqn:Ep; [|discriminate].
    inversion Hs0; subst s0. clear Hs0.
    unfold from_opchains in Hg. destruct (negb (forallb (@chain_ok R) _)); [discriminate|].
    destruct (local_opchains_to_chains glop L) as [|c0 ct] eqn:Ech; [discriminate|]. rewrite <- Ech in *.
    rewrite Ep in Hg. cbn [bind] in Hg.
    destruct (sweep cover L (mkst init_graph 1 0 (init_next 0 cs) [])) as [s|] eqn:Es; [|discriminate].
    apply (nn_sweep cover L _ s); [|exact Hc|exact Es]. cbn [s_next]. exact (nn_start L cs Ep).
  Qed.
End TopN.

(* ---- Bose-Hubbard and Fermi-Hubbard ---- *)
Section ModelsN.
  Variable R : cring.

  Definition bose_Tc (t : R) : list (term * R) := [((1, -1, 1), kopp R t); ((-1, 1, -1), kopp R t)].
  Definition bose_Sc (U mu : R) : list (Z * R) := [(2, kopp R mu); (3, U)].
  Lemma bose_glop (t U mu : R) : bose_lop t U mu = glop R (bose_Tc t) (bose_Sc U mu).
  Proof. reflexivity. Qed.

  (* bose_hubbard_mpo, any local dimension d: -t (b^dag b + b b^dag) - mu n + U n(n-1)/2 with t, U, mu non-zero *)
  Theorem bose_bond_dims_all d sq (t U mu : R) (L : nat) :
    keqb R (kopp R t) (k0 R) = false -> keqb R U (k0 R) = false -> keqb R (kopp R mu) (k0 R) = false -> (1 <= L)%nat ->
    exists g, spec_graph cover_model (bose_spec d sq t U mu) L = Ok g /\ bond_dims g = Some (dims_const L 4).
  Proof.
    intros N1 N2 N3 HL.
    assert (Hs : some_term R (bose_lop t U mu) L = true).
    { unfold some_term, bose_lop. cbn [existsb lc c_coeff c_oids length]. rewrite N3. cbn [negb andb orb].
      destruct L as [|[|L]]; [lia|rewrite ?andb_false_r; reflexivity|rewrite ?andb_false_r; cbn; rewrite ?orb_true_r; reflexivity]. }
    destruct (bose_total R d sq t U mu L HL Hs) as [g [Hg _]]. exists g. split; [exact Hg|].
    unfold spec_graph, spec_chains in Hg. cbn [h_lop h_idn bose_spec] in Hg. rewrite bose_glop in Hg.
    apply (glop_bond_dims R (bose_Tc t) (bose_Sc U mu) eq_refl) with (cover := cover_model) (L := L); [| |exact HL| |exact Hg].
    - cbn [forallb bose_Tc snd]. rewrite N1. reflexivity.
    - cbn [forallb bose_Sc snd]. rewrite N2, N3. reflexivity.
    - intros s0 _. apply calls_certified_model.
  Qed.

  Definition fermi_Tc (t : R) : list (term * R) :=
    [((3, 2, enc 1 1), kopp R t); ((4, 1, enc (-1) (-1)), kopp R t); ((5, 8, enc 1 (-1)), kopp R t); ((6, 7, enc (-1) 1), kopp R t)].
  Definition fermi_Sc (U mu : R) : list (Z * R) := [(9, kopp R mu); (10, U)].
  Lemma fermi_glop (t U mu : R) : fermi_lop t U mu = glop R (fermi_Tc t) (fermi_Sc U mu).
  Proof. reflexivity. Qed.

  (* fermi_hubbard_mpo: hopping -t for both spins, - mu (n_up + n_dn) + U (n_up - 1/2)(n_dn - 1/2), t, U, mu non-zero *)
  Theorem fermi_bond_dims_all (half t U mu : R) (L : nat) :
    keqb R (kopp R t) (k0 R) = false -> keqb R U (k0 R) = false -> keqb R (kopp R mu) (k0 R) = false -> (1 <= L)%nat ->
    exists g, spec_graph cover_model (fermi_spec half t U mu) L = Ok g /\ bond_dims g = Some (dims_const L 6).
  Proof.
    intros N1 N2 N3 HL.
    assert (Hs : some_term R (fermi_lop t U mu) L = true).
    { unfold some_term, fermi_lop. cbn [existsb lc c_coeff c_oids length]. rewrite N3. cbn [negb andb orb].
      destruct L as [|[|L]]; [lia|rewrite ?andb_false_r; reflexivity|rewrite ?andb_false_r; cbn; rewrite ?orb_true_r; reflexivity]. }
    destruct (fermi_total R half t U mu L HL Hs) as [g [Hg _]]. exists g. split; [exact Hg|].
    unfold spec_graph, spec_chains in Hg. cbn [h_lop h_idn fermi_spec] in Hg. rewrite fermi_glop in Hg.
    apply (glop_bond_dims R (fermi_Tc t) (fermi_Sc U mu) eq_refl) with (cover := cover_model) (L := L); [| |exact HL| |exact Hg].
    - cbn [forallb fermi_Tc snd]. rewrite N1. reflexivity.
    - cbn [forallb fermi_Sc snd]. rewrite N2, N3. reflexivity.
    - intros s0 _. apply calls_certified_model.
  Qed.
End ModelsN.
