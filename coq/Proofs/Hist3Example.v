(* Concrete data for the round-3 non-vacuity example of Properties/C02.v: a two-site TDVP run over Z[i], L = 2, qd = [0; 1],
   bond charges [0] [0; 1] [1] (total charge 1, amplitudes 6 - 3i on the word (0,1) and 20 + 10i on (1,0)), the identity
   operator with bond charges [0] [0] [0], local solver = identity, and the exact split oracle for a pair at the right
   boundary ('left' distribution, Dr = 1): A1[t] = e_t, A0[s][:, t] = Am[s*d + t][:, 0], returned bond charges
   qbond[t] = qD2[0] - qd[t]. *)
From Coq Require Import ZArith List Bool Lia.
From PT Require Import Base.Scalar Base.Field Base.BigSum Base.Mx Model.Tensor Model.MPSOps Model.Operation Model.Sweeps.
From PT Require Import Proofs.HistSparse Proofs.Hist3Sweep2.
Import ListNotations.
Open Scope nat_scope.

Definition gm3 := @mkmx GIring.
Definition ex3c_H : mpo GIring := mpo_identity [0; 1]%Z 2 ((1, 0)%Z : GIring).
Definition ex3c_psi : mps GIring :=
  mkmps [0; 1]%Z [[0]; [0; 1]; [1]]%Z
    [ [gm3 1 2 [[(3, 0)%Z; (0, 0)%Z]]; gm3 1 2 [[(0, 0)%Z; (5, 0)%Z]]];
      [gm3 2 1 [[(0, 0)%Z]; (4, 2)%Z :: nil]; gm3 2 1 [[(2, -1)%Z]; [(0, 0)%Z]]] ].
Definition ex3c_orth : mps GIring -> mps GIring * GIring := fun p => (p, (1, 0)%Z).
Definition ex3c_kexp : nat -> env GIring -> env GIring -> osite GIring -> site GIring -> GIring -> site GIring := fun _ _ _ _ A _ => A.
Definition ex3c_dlt (a b : nat) : GIring := if Nat.eqb a b then (1, 0)%Z else (0, 0)%Z.
Definition ex3c_split (_ : nat) (Am : site GIring) (q0 q1 _ q3 : list Z) (_ : bool) : site GIring * site GIring * list Z :=
  let d1 := length q1 in
  (tabl (length q0) (fun s => tab (sdl Am) d1 (fun a t => get (sel Am (s * d1 + t)) a 0)),
   tabl d1 (fun t => tab d1 1 (fun j _ => ex3c_dlt t j)),
   map (fun x => (zget q3 0 - x)%Z) q1).

(* the split contract in boolean form *)
Definition split_sp_okb {R : cring} (q0 q1 ql qr' : list Z) (ans : site R * site R * list Z) : bool :=
  let '(A0, A1, qb) := ans in
  site_shape (length q0) (length ql) (length qb) A0 && site_qsparse q0 ql qb A0 &&
  site_shape (length q1) (length qb) (length qr') A1 && site_qsparse q1 qb qr' A1.
Lemma split_sp_okb_sound (R : cring) q0 q1 ql qr' ans : split_sp_okb q0 q1 ql qr' ans = true -> split_sp_ok R q0 q1 ql qr' ans.
Proof.
  destruct ans as [[A0 A1] qb]. unfold split_sp_okb, split_sp_ok. rewrite !andb_true_iff. intros [[[H1 H2] H3] H4].
  split; apply site_okP_b; split; assumption.
Qed.
