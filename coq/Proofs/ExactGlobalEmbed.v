(* C09 exactness, contract (A) reduced to naturality of the solver -- part 2: the embedding of the local tensor space.
   Frames Al (sites 0..m-1) and Ar (sites m+1..L-1), E Z = dense vector of Al ++ Z :: Ar.  Over any cring:
     * amp_split        <u s v|E Z> = P_l(u) Z[s] P_r(v)  (products of the frame tensors);
     * dual tensors     Yd u s v = E^H e_{usv}:  <Yd u s v | Z> = <u s v|E Z>  (site_dot_Yd, no hypothesis on the frames) and, for
                        complete (co-isometric) frames,  E (Yd u s v) = e_{usv}  (amp_Yd);
     * embed_intertwine for the environment blocks BL = lfold Al Al Wl [[[1]]], BR = rfold Ar Ar Wr [[[1]]]:
                        E (apply_local_hamiltonian BL BR W X) = Hdense (E X)   -- from C04's projection theorem
                        (Proofs/OperationLocal.v, local_hamiltonian_projection) and E E^H = 1;
     * embed_unitary    E is linear, has the two-sided inverse Einv v = sum_w v_w Yd(w), and preserves inner products, when the
                        frames are unitary (isometric and co-isometric). *)
From Coq Require Import ZArith Arith List Lia Ring Setoid Bool.
From PT Require Import Base.Scalar Base.BigSum Base.Mx Model.Tensor Model.Operation Model.Sweeps
  Proofs.OperationSums Proofs.OperationEntries Proofs.OperationChains Proofs.OperationLocal Proofs.OperationUniform Proofs.SweepsCanon
  Proofs.MPSOpsDense Proofs.MPSOpsLaws
  Proofs.ReverseDefs Proofs.ReverseMx Proofs.ReverseGauge Proofs.ReverseTop Proofs.ExactDefs Proofs.ExactMx Proofs.ExactLocal
  Proofs.ExactGlobalDefs Proofs.ExactGlobalFrames.
Import ListNotations.
Open Scope nat_scope.

Lemma app_eq_len {T} (u u' x y : list T) : length u = length u' -> u ++ x = u' ++ y -> u = u' /\ x = y.
Proof.
  revert u'. induction u as [|a u IH]; intros [|a' u'] Hl E; try discriminate; [split; [reflexivity|exact E]|].
  cbn [app] in E. injection E as -> E. cbn [length] in Hl. destruct (IH u' ltac:(lia) E) as [-> ->]. split; reflexivity.
Qed.

Section Embed.
  Variable R : cring.
  Add Ring Rring_exact_embed : (k_rt R).
  Notation "0" := (k0 R). Notation "1" := (k1 R).
  Infix "+" := (kadd R). Infix "*" := (kmul R).
  Notation site := (site R).
  Notation osite := (osite R).
  Notation env := (env R).
  Notation mx := (mx R).
  Notation cj := (kconj R).
  Notation dlt a b := (if Nat.eqb a b then 1 else 0).
  Variable d : nat.
  Variable Ds : nat -> nat.
  Hypothesis Hd : (0 < d)%nat.
  Variables Al Ar : list site.
  Notation m := (length Al).
  Notation n := (length Ar).
  Hypothesis HAl : fr_ok d Ds 0%nat Al.
  Hypothesis HAr : fr_ok d Ds (S m) Ar.
  Hypothesis HD0 : Ds 0%nat = 1%nat.
  Hypothesis HDL : Ds (S m + n)%nat = 1%nat.
  Notation siteM := (wsite d (Ds m) (Ds (S m))).
  Notation NW := (m + S n)%nat.

  Definition PL (u : list nat) : mx := prodm Ds 0%nat Al u.
  Definition PR (v : list nat) : mx := prodm Ds (S m) Ar v.

  Lemma PL_shape u : wordk d m u -> wmx 1 (Ds m) (PL u).
  Proof. intros Hu. pose proof (prodm_shape R d Ds Hd Al 0%nat u HAl Hu) as H. rewrite HD0 in H. exact H. Qed.
  Lemma PR_shape v : wordk d n v -> wmx (Ds (S m)) 1 (PR v).
  Proof. intros Hv. pose proof (prodm_shape R d Ds Hd Ar (S m) v HAr Hv) as H. rewrite HDL in H. exact H. Qed.

  (* ---------------- splitting an amplitude at the local site ---------------- *)
  Lemma amp_prodm (As : list site) w : amp As w = get (prodm Ds 0%nat As w) 0%nat 0%nat.
  Proof. unfold amp, prodm. rewrite HD0. reflexivity. Qed.

  Lemma amp_split_mx (Z : site) u s v : siteM Z -> wordk d m u -> (s < d)%nat -> wordk d n v ->
    amp (Al ++ Z :: Ar) (u ++ s :: v) = get (mulmx (PL u) (mulmx (sel Z s) (PR v))) 0%nat 0%nat.
  Proof.
    intros HZ Hu Hs Hv. rewrite amp_prodm.
    destruct (wsite_sel R _ _ _ _ s HZ Hs) as (z0 & z1 & z2).
    assert (E : prodm Ds (0 + m) (Z :: Ar) (s :: v) = mulmx (sel Z s) (PR v)).
    { cbn [Nat.add]. apply (prodm_cons R d Ds m Z Ar s v HZ Hs). }
    rewrite (prodm_app R d Ds Hd Al 0%nat (Z :: Ar) u (s :: v) HAl Hu).
    - rewrite E. reflexivity.
    - rewrite E. apply wf_mulmx.
    - rewrite E, nr_mulmx. exact z1.
  Qed.

  Definition ampf (u : list nat) (s : nat) (v : list nat) (Z : site) : R :=
    sumn (Ds m) (fun b => get (PL u) 0%nat b * sumn (Ds (S m)) (fun c => get (sel Z s) b c * get (PR v) c 0%nat)).

  Lemma amp_split (Z : site) u s v : siteM Z -> wordk d m u -> (s < d)%nat -> wordk d n v ->
    amp (Al ++ Z :: Ar) (u ++ s :: v) = ampf u s v Z.
  Proof.
    intros HZ Hu Hs Hv. rewrite (amp_split_mx Z u s v HZ Hu Hs Hv).
    destruct (PL_shape u Hu) as (p0 & p1 & p2). destruct (PR_shape v Hv) as (q0 & q1 & q2).
    destruct (wsite_sel R _ _ _ _ s HZ Hs) as (z0 & z1 & z2).
    rewrite get_mulmx by (rewrite ?nc_mulmx; lia). rewrite p2. unfold ampf. apply sumn_ext; intros b Hb. f_equal.
    rewrite get_mulmx by lia. rewrite z2. reflexivity.
  Qed.

  (* ---------------- the dual tensors ---------------- *)
  Definition Yd (u : list nat) (s : nat) (v : list nat) : site :=
    tabl d (fun s' => if Nat.eqb s' s then mulmx (adjmx (PL u)) (adjmx (PR v)) else zeromx (Ds m) (Ds (S m))).

  Lemma sel_tabl (f : nat -> mx) s : (s < d)%nat -> sel (tabl d f) s = f s.
  Proof. intros Hs. unfold sel, tabl. apply nth_map_seq. exact Hs. Qed.

  Lemma wsite_Yd u s v : wordk d m u -> wordk d n v -> siteM (Yd u s v).
  Proof.
    intros Hu Hv. destruct (PL_shape u Hu) as (p0 & p1 & p2). destruct (PR_shape v Hv) as (q0 & q1 & q2).
    apply wsite_tabl. intros s' _. destruct (Nat.eqb s' s).
    - split; [apply wf_mulmx|]. rewrite nr_mulmx, nc_mulmx, nr_adjmx, nc_adjmx. auto.
    - split; [apply wf_zeromx|split; reflexivity].
  Qed.
  Lemma get_Yd u s v s' b c : wordk d m u -> wordk d n v -> (s' < d)%nat -> (b < Ds m)%nat -> (c < Ds (S m))%nat ->
    get (sel (Yd u s v) s') b c = if Nat.eqb s' s then cj (get (PL u) 0%nat b) * cj (get (PR v) c 0%nat) else 0.
  Proof.
    intros Hu Hv Hs' Hb Hc. destruct (PL_shape u Hu) as (p0 & p1 & p2). destruct (PR_shape v Hv) as (q0 & q1 & q2).
    unfold Yd. rewrite sel_tabl by exact Hs'. destruct (Nat.eqb s' s); [|apply get_zeromx].
    rewrite get_mulmx by (rewrite ?nr_adjmx, ?nc_adjmx; lia). rewrite nc_adjmx, p1. cbn [sumn].
    rewrite !get_adjmx by lia. ring.
  Qed.

  (* <Yd u s v | Z> = <u s v | E Z> : Yd u s v = E^H e_{usv}; no hypothesis on the frames *)
  Lemma site_dot_Yd (Z : site) u s v : siteM Z -> wordk d m u -> (s < d)%nat -> wordk d n v ->
    site_dot (Yd u s v) Z = ampf u s v Z.
  Proof.
    intros HZ Hu Hs Hv. pose proof (wsite_Yd u s v Hu Hv) as HY.
    destruct (site_ok_sdl R _ _ _ _ Hd (wsite_ok R _ _ _ _ HY)) as (E1 & E2 & E3).
    unfold site_dot. rewrite E1, E2, E3.
    rewrite (sumn_single R d s) by (try exact Hs; intros s' Hs' N; apply sumn_zero; intros b Hb; apply sumn_zero; intros c Hc;
                                     rewrite (get_Yd u s v s' b c) by assumption;
                                     replace (Nat.eqb s' s) with false by (symmetry; apply Nat.eqb_neq; lia); rewrite kconj_0; ring).
    unfold ampf. apply sumn_ext; intros b Hb. rewrite <- sumn_scal_l. apply sumn_ext; intros c Hc.
    rewrite (get_Yd u s v s b c) by assumption. rewrite Nat.eqb_refl, kconj_mul, !kconj_inv. ring.
  Qed.

  (* complete (co-isometric) frames: E (Yd u s v) = e_{usv} *)
  Hypothesis HcoL : forall j, (j < m)%nat -> lcoiso (nth j Al []).
  Hypothesis HcoR : forall j, (j < n)%nat -> rcoiso (nth j Ar []).

  Lemma get11_mul (X Y : mx) : nr X = 1%nat -> nc X = 1%nat -> nr Y = 1%nat -> nc Y = 1%nat ->
    get (mulmx X Y) 0%nat 0%nat = get X 0%nat 0%nat * get Y 0%nat 0%nat.
  Proof. intros x1 x2 y1 y2. rewrite get_mulmx by lia. rewrite x2. cbn [sumn]. ring. Qed.

  Lemma amp_Yd u s v u' s' v' : wordk d m u -> (s < d)%nat -> wordk d n v -> wordk d m u' -> (s' < d)%nat -> wordk d n v' ->
    amp (Al ++ Yd u s v :: Ar) (u' ++ s' :: v') = if (weqb u' u && Nat.eqb s' s && weqb v' v)%bool then 1 else 0.
  Proof.
    intros Hu Hs Hv Hu' Hs' Hv'. rewrite (amp_split_mx _ u' s' v' (wsite_Yd u s v Hu Hv) Hu' Hs' Hv').
    destruct (PL_shape u Hu) as (p0 & p1 & p2). destruct (PR_shape v Hv) as (q0 & q1 & q2).
    destruct (PL_shape u' Hu') as (p0' & p1' & p2'). destruct (PR_shape v' Hv') as (q0' & q1' & q2').
    unfold Yd. rewrite sel_tabl by exact Hs'. destruct (Nat.eqb s' s).
    - rewrite (mulmx_assoc R (adjmx (PL u))) by (rewrite ?nr_adjmx, ?nc_adjmx; congruence).
      rewrite <- (mulmx_assoc R (PL u')) by (rewrite ?nr_mulmx, ?nr_adjmx, ?nc_adjmx; congruence).
      unfold PL, PR. rewrite (lco_prod R d Ds Hd Al 0%nat u' u HAl HcoL Hu' Hu).
      rewrite (rco_prod R d Ds Hd Ar (S m) v' v HAr HcoR Hv' Hv). rewrite HD0, HDL. rewrite andb_true_r.
      rewrite get11_mul by (destruct (weqb u' u), (weqb v' v); reflexivity).
      destruct (weqb u' u), (weqb v' v); cbn [andb]; rewrite ?get_idmx, ?get_zeromx by lia; cbn [Nat.eqb]; ring.
    - rewrite andb_false_r. cbn [andb].
      rewrite (mulmx_zero_l R (Ds m) (Ds (S m))) by exact q1'. rewrite q2'.
      rewrite (mulmx_zero_r R (PL u') (Ds m) 1%nat) by exact p2'. apply get_zeromx.
  Qed.

  (* the dual tensor of a whole word *)
  Definition YdW (w : list nat) : site := Yd (firstn m w) (nth m w 0%nat) (skipn (S m) w).
  Lemma YdW_app u s v : length u = m -> YdW (u ++ s :: v) = Yd u s v.
  Proof.
    intros Hu. unfold YdW. f_equal.
    - rewrite firstn_app, Hu, Nat.sub_diag. cbn [firstn]. rewrite app_nil_r. rewrite <- Hu. apply firstn_all.
    - rewrite app_nth2 by lia. rewrite Hu, Nat.sub_diag. reflexivity.
    - rewrite skipn_app. rewrite (skipn_all2 u) by lia. rewrite Hu. replace (S m - m)%nat with 1%nat by lia. reflexivity.
  Qed.

  Lemma amp_YdW w w1 : wordk d NW w -> wordk d NW w1 -> amp (Al ++ YdW w :: Ar) w1 = if weqb w1 w then 1 else 0.
  Proof.
    intros Hw Hw1. destruct (wordk_split d m n w Hw) as (u & s & v & -> & Hu & Hs & Hv).
    destruct (wordk_split d m n w1 Hw1) as (u' & s' & v' & -> & Hu' & Hs' & Hv').
    rewrite (YdW_app u s v (proj1 Hu)). rewrite (amp_Yd u s v u' s' v') by assumption.
    destruct (weqb (u' ++ s' :: v') (u ++ s :: v)) eqn:E.
    - apply weqb_spec in E. apply app_eq_len in E; [|rewrite (proj1 Hu), (proj1 Hu'); reflexivity].
      destruct E as [-> E]. injection E as -> ->. rewrite !weqb_refl, Nat.eqb_refl. reflexivity.
    - destruct (weqb u' u) eqn:E1; [|reflexivity]. destruct (Nat.eqb s' s) eqn:E2; [|reflexivity].
      destruct (weqb v' v) eqn:E3; [|reflexivity]. exfalso.
      apply weqb_spec in E1. apply Nat.eqb_eq in E2. apply weqb_spec in E3. subst. rewrite weqb_refl in E. discriminate.
  Qed.
  Lemma site_dot_YdW (Z : site) w : siteM Z -> wordk d NW w -> site_dot (YdW w) Z = amp (Al ++ Z :: Ar) w.
  Proof.
    intros HZ Hw. destruct (wordk_split d m n w Hw) as (u & s & v & -> & Hu & Hs & Hv).
    rewrite (YdW_app u s v (proj1 Hu)). rewrite (amp_split Z u s v) by assumption. apply site_dot_Yd; assumption.
  Qed.
  Lemma wsite_YdW w : wordk d NW w -> siteM (YdW w).
  Proof.
    intros Hw. destruct (wordk_split d m n w Hw) as (u & s & v & -> & Hu & Hs & Hv).
    rewrite (YdW_app u s v (proj1 Hu)). apply wsite_Yd; assumption.
  Qed.

  (* ---------------- the frames as chains in the sense of C04 ---------------- *)
  Lemma last_map_seq {T} (f : nat -> T) x nn : forall k, last (map f (seq k (S nn))) x = f (k + nn)%nat.
  Proof.
    induction nn as [|nn IH]; intros k; [cbn; f_equal; lia|].
    change (seq k (S (S nn))) with (k :: seq (S k) (S nn)). cbn [map].
    transitivity (last (map f (seq (S k) (S nn))) x); [reflexivity|]. rewrite IH. f_equal. lia.
  Qed.
  Lemma fr_chainx (As : list site) : forall k, fr_ok d Ds k As -> chainx_ok (repeat d (length As)) (map Ds (seq k (S (length As)))) As.
  Proof.
    induction As as [|A As IH]; intros k HA; [exact I|].
    destruct (fr_ok_tail R d Ds Hd _ _ _ HA) as [HA0 HAs]. cbn [length repeat].
    change (seq k (S (S (length As)))) with (k :: seq (S k) (S (length As))). cbn [map].
    specialize (IH (S k) HAs). change (seq (S k) (S (length As))) with (S k :: seq (S (S k)) (length As)) in *. cbn [map] in *.
    split; [exact Hd|]. split; [apply wsite_ok; exact HA0|exact IH].
  Qed.
  Lemma fr_chain (As : list site) : forall k, fr_ok d Ds k As -> Ds (k + length As)%nat = 1%nat ->
    chain_ok (repeat d (length As)) (map Ds (seq k (S (length As)))) As.
  Proof.
    induction As as [|A As IH]; intros k HA HL1; [cbn [length] in HL1; rewrite Nat.add_0_r in HL1; exact HL1|].
    destruct (fr_ok_tail R d Ds Hd _ _ _ HA) as [HA0 HAs]. cbn [length repeat].
    change (seq k (S (S (length As)))) with (k :: seq (S k) (S (length As))). cbn [map].
    specialize (IH (S k) HAs ltac:(rewrite <- HL1; f_equal; cbn [length]; lia)).
    change (seq (S k) (S (length As))) with (S k :: seq (S (S k)) (length As)) in *. cbn [map] in *.
    split; [exact Hd|]. split; [apply wsite_ok; exact HA0|exact IH].
  Qed.

  (* ---------------- E is a unitary map (unitary frames) ---------------- *)
  Hypothesis HisoL : forall j, (j < m)%nat -> left_iso (nth j Al []).
  Hypothesis HisoR : forall j, (j < n)%nat -> right_iso (nth j Ar []).
  Notation Wd := (words d NW).
  Notation NN := (length (words d NW)).

  Definition EE (Z : site) : list R := dense d NW (Al ++ Z :: Ar).
  Definition Einv (vec : list R) : site :=
    tabl d (fun s => tab (Ds m) (Ds (S m)) (fun b c => sumn NN (fun k => nth k vec 0 * get (sel (YdW (nth k Wd [])) s) b c))).

  Lemma length_EE Z : length (EE Z) = NN. Proof. unfold EE, dense. apply map_length. Qed.
  Lemma nth_EE Z k : (k < NN)%nat -> nth k (EE Z) 0 = amp (Al ++ Z :: Ar) (nth k Wd []).
  Proof.
    intros Hk. unfold EE, dense. rewrite (nth_indep _ 0 (amp (Al ++ Z :: Ar) [])) by (rewrite map_length; exact Hk). apply map_nth.
  Qed.
  Lemma wordk_nth k : (k < NN)%nat -> wordk d NW (nth k Wd []).
  Proof. intros Hk. apply words_wordk. apply nth_In. exact Hk. Qed.

  (* linearity *)
  Lemma wmx_addmx_g mm nn (A B : mx) : wmx mm nn A -> wmx mm nn (addmx A B).
  Proof. intros (_ & H1 & H2). split; [apply wf_addmx|]. rewrite nr_addmx, nc_addmx. auto. Qed.
  Lemma wsite_add (X Y : site) : siteM X -> siteM (add_site X Y).
  Proof.
    intros HX. unfold add_site. rewrite (proj1 HX). apply wsite_tabl. intros s Hs. apply wmx_addmx_g. apply (wsite_sel R _ _ _ _ s HX Hs).
  Qed.
  Lemma get_add_site (X Y : site) s b c : siteM X -> (s < d)%nat -> (b < Ds m)%nat -> (c < Ds (S m))%nat ->
    get (sel (add_site X Y) s) b c = get (sel X s) b c + get (sel Y s) b c.
  Proof.
    intros HX Hs Hb Hc. unfold add_site. rewrite (proj1 HX). rewrite sel_tabl by exact Hs.
    destruct (wsite_sel R _ _ _ _ s HX Hs) as (_ & x1 & x2). apply get_addmx; lia.
  Qed.
  Lemma ampf_add u s v (X Y : site) : siteM X -> (s < d)%nat -> ampf u s v (add_site X Y) = ampf u s v X + ampf u s v Y.
  Proof.
    intros HX Hs. unfold ampf. rewrite <- sumn_add. apply sumn_ext; intros b Hb.
    transitivity (get (PL u) 0%nat b * (sumn (Ds (S m)) (fun c => get (sel X s) b c * get (PR v) c 0%nat) +
                                        sumn (Ds (S m)) (fun c => get (sel Y s) b c * get (PR v) c 0%nat))); [|ring].
    f_equal. rewrite <- sumn_add. apply sumn_ext; intros c Hc. rewrite get_add_site by assumption. ring.
  Qed.
  Lemma ampf_scale u s v a (X : site) : siteM X -> (s < d)%nat -> ampf u s v (scale_site a X) = a * ampf u s v X.
  Proof.
    intros HX Hs. unfold ampf. rewrite <- sumn_scal_l. apply sumn_ext; intros b Hb.
    transitivity (get (PL u) 0%nat b * (a * sumn (Ds (S m)) (fun c => get (sel X s) b c * get (PR v) c 0%nat))); [|ring].
    f_equal. rewrite <- sumn_scal_l. apply sumn_ext; intros c Hc. rewrite (get_scale_site R d (Ds m) (Ds (S m))) by assumption. ring.
  Qed.
  Lemma map_combine_add {T} (g h : T -> R) (l : list T) :
    map (fun p => fst p + snd p) (combine (map g l) (map h l)) = map (fun x => g x + h x) l.
  Proof. induction l as [|x l IH]; [reflexivity|]. cbn [map combine fst snd]. rewrite IH. reflexivity. Qed.

  Lemma EE_add (X Y : site) : siteM X -> siteM Y -> EE (add_site X Y) = vadd (EE X) (EE Y).
  Proof.
    intros HX HY. unfold EE, dense, vadd. rewrite map_combine_add. apply map_ext_in. intros w Hw. apply words_wordk in Hw.
    destruct (wordk_split d m n w Hw) as (u & s & v & -> & Hu & Hs & Hv).
    rewrite !amp_split by (try assumption; apply wsite_add; assumption). apply ampf_add; assumption.
  Qed.
  Lemma EE_scale a (X : site) : siteM X -> EE (scale_site a X) = vscale a (EE X).
  Proof.
    intros HX. unfold EE, dense, vscale. rewrite map_map. apply map_ext_in. intros w Hw. apply words_wordk in Hw.
    destruct (wordk_split d m n w Hw) as (u & s & v & -> & Hu & Hs & Hv).
    rewrite !amp_split by (try assumption; apply wsite_scale; assumption). apply ampf_scale; assumption.
  Qed.

  (* the inverse *)
  Lemma wsite_Einv vec : siteM (Einv vec).
  Proof. apply wsite_tabl. intros s _. split; [apply wf_tab|split; reflexivity]. Qed.
  Lemma get_Einv vec s b c : (s < d)%nat -> (b < Ds m)%nat -> (c < Ds (S m))%nat ->
    get (sel (Einv vec) s) b c = sumn NN (fun k => nth k vec 0 * get (sel (YdW (nth k Wd [])) s) b c).
  Proof. intros Hs Hb Hc. unfold Einv. rewrite sel_tabl by exact Hs. apply get_tab; assumption. Qed.

  Lemma ampf_Einv vec u s v : (s < d)%nat ->
    ampf u s v (Einv vec) = sumn NN (fun k => nth k vec 0 * ampf u s v (YdW (nth k Wd []))).
  Proof.
    intros Hs. unfold ampf.
    transitivity (sumn (Ds m) (fun b => sumn NN (fun k => nth k vec 0 * (get (PL u) 0%nat b *
                    sumn (Ds (S m)) (fun c => get (sel (YdW (nth k Wd [])) s) b c * get (PR v) c 0%nat))))).
    { apply sumn_ext; intros b Hb.
      transitivity (get (PL u) 0%nat b * sumn NN (fun k => nth k vec 0 *
                      sumn (Ds (S m)) (fun c => get (sel (YdW (nth k Wd [])) s) b c * get (PR v) c 0%nat))).
      2: { rewrite <- sumn_scal_l. apply sumn_ext; intros k _. ring. }
      f_equal.
      transitivity (sumn (Ds (S m)) (fun c => sumn NN (fun k => nth k vec 0 * (get (sel (YdW (nth k Wd [])) s) b c * get (PR v) c 0%nat)))).
      { apply sumn_ext; intros c Hc. rewrite get_Einv by assumption. rewrite <- sumn_scal_r. apply sumn_ext; intros k _. ring. }
      rewrite sumn_exch. apply sumn_ext; intros k _. rewrite <- sumn_scal_l. reflexivity. }
    rewrite sumn_exch. apply sumn_ext; intros k _. rewrite <- sumn_scal_l. reflexivity.
  Qed.

  Theorem EE_Einv vec : length vec = NN -> EE (Einv vec) = vec.
  Proof.
    intros Hl. apply (list_eq_nth 0); [rewrite length_EE; symmetry; exact Hl|]. intros i Hi. rewrite length_EE in Hi.
    rewrite nth_EE by exact Hi. pose proof (wordk_nth i Hi) as Hwi.
    destruct (wordk_split d m n _ Hwi) as (u & s & v & Ew & Hu & Hs & Hv). rewrite Ew.
    rewrite (amp_split _ u s v (wsite_Einv vec) Hu Hs Hv). rewrite (ampf_Einv vec u s v Hs).
    rewrite (sumn_single R NN i); [| exact Hi |].
    - rewrite <- (amp_split _ u s v (wsite_YdW _ Hwi) Hu Hs Hv). rewrite <- Ew. rewrite (amp_YdW _ _ Hwi Hwi), weqb_refl. ring.
    - intros k Hk N. rewrite <- (amp_split _ u s v (wsite_YdW _ (wordk_nth k Hk)) Hu Hs Hv). rewrite <- Ew.
      rewrite (amp_YdW _ _ (wordk_nth k Hk) Hwi).
      destruct (weqb (nth i Wd []) (nth k Wd [])) eqn:E; [|ring]. apply weqb_spec in E.
      exfalso. apply N. symmetry. apply (words_nth_inj d NW i k Hi Hk E).
  Qed.

  (* completeness of the two families of frame products *)
  Lemma GL_iso b' b : (b' < Ds m)%nat -> (b < Ds m)%nat ->
    suml (words d m) (fun u => get (PL u) 0%nat b' * cj (get (PL u) 0%nat b)) = dlt b' b.
  Proof.
    intros Hb' Hb. rewrite <- (lgram_iso R d Ds Hd Al 0%nat b' b HAl HisoL Hb' Hb).
    apply suml_ext; intros u _. rewrite HD0. cbn [sumn]. unfold PL. ring.
  Qed.
  Lemma PR_mprod1 v : wordk d n v -> PR v = mprod 1 (pick Ar v).
  Proof.
    intros [lv _]. unfold PR, prodm. destruct Ar as [|A Ar']; [|destruct v; [discriminate|reflexivity]].
    cbn [length] in *. rewrite Nat.add_0_r in HDL. destruct v; [|discriminate]. cbn [pick mprod]. rewrite HDL. reflexivity.
  Qed.
  Lemma GR_iso c' c : (c' < Ds (S m))%nat -> (c < Ds (S m))%nat ->
    suml (words d n) (fun v => get (PR v) c' 0%nat * cj (get (PR v) c 0%nat)) = dlt c' c.
  Proof.
    intros Hc' Hc.
    assert (HF : Forall right_iso Ar).
    { apply Forall_forall. intros A HA. destruct (In_nth _ _ [] HA) as (j & Hj & <-). apply HisoR. exact Hj. }
    pose proof (gram_right_iso R Ar (repeat d n) (map Ds (seq (S m) (S n))) c' c (fr_chain Ar (S m) HAr HDL) HF) as G.
    change (seq (S m) (S n)) with (S m :: seq (S (S m)) n) in G. cbn [map hd] in G. specialize (G Hc' Hc).
    rewrite <- G. unfold gram. rewrite gwords_repeat. apply suml_ext; intros v Hv. apply words_wordk in Hv.
    rewrite (PR_mprod1 v Hv). reflexivity.
  Qed.

  Theorem Einv_EE (Z : site) : siteM Z -> Einv (EE Z) = Z.
  Proof.
    intros HZ. apply (wsite_ext R d (Ds m) (Ds (S m))); [apply wsite_Einv|exact HZ|]. intros s b c Hs Hb Hc.
    rewrite get_Einv by assumption.
    transitivity (suml Wd (fun w => amp (Al ++ Z :: Ar) w * get (sel (YdW w) s) b c)).
    { rewrite (suml_nth R []). apply sumn_ext; intros k Hk. rewrite nth_EE by exact Hk. reflexivity. }
    rewrite suml_words_app.
    transitivity (suml (words d m) (fun u => suml (words d n) (fun v =>
                    ampf u s v Z * (cj (get (PL u) 0%nat b) * cj (get (PR v) c 0%nat))))).
    { apply suml_ext; intros u Hu. apply words_wordk in Hu. rewrite suml_words_S.
      rewrite (sumn_single R d s); [| exact Hs |].
      - apply suml_ext; intros v Hv. apply words_wordk in Hv. rewrite (YdW_app u s v (proj1 Hu)), (amp_split Z u s v) by assumption.
        rewrite (get_Yd u s v s b c) by assumption. rewrite Nat.eqb_refl. reflexivity.
      - intros s' Hs' N. apply suml_zero; intros v Hv. apply words_wordk in Hv. rewrite (YdW_app u s' v (proj1 Hu)).
        rewrite (get_Yd u s' v s b c) by assumption. replace (Nat.eqb s s') with false by (symmetry; apply Nat.eqb_neq; lia). ring. }
    set (t := fun (u v : list nat) (b' c' : nat) =>
                get (sel Z s) b' c' * (get (PL u) 0%nat b' * cj (get (PL u) 0%nat b)) * (get (PR v) c' 0%nat * cj (get (PR v) c 0%nat))).
    transitivity (suml (words d m) (fun u => suml (words d n) (fun v => suml (seq 0 (Ds m)) (fun b' => suml (seq 0 (Ds (S m))) (fun c' => t u v b' c'))))).
    { apply suml_ext; intros u _. apply suml_ext; intros v _. rewrite suml_seq. unfold ampf. rewrite <- sumn_scal_r.
      apply sumn_ext; intros b' _. rewrite suml_seq. rewrite <- sumn_scal_l, <- sumn_scal_r. apply sumn_ext; intros c' _. unfold t. ring. }
    rewrite (suml_front4 (words d m) (words d n) (seq 0 (Ds m)) (seq 0 (Ds (S m))) t).
    rewrite (suml_front4 (seq 0 (Ds (S m))) (words d m) (words d n) (seq 0 (Ds m)) (fun c' u v b' => t u v b' c')).
    transitivity (sumn (Ds m) (fun b' => sumn (Ds (S m)) (fun c' => get (sel Z s) b' c' * dlt b' b * dlt c' c))).
    { rewrite suml_seq. apply sumn_ext; intros b' Hb'. rewrite suml_seq. apply sumn_ext; intros c' Hc'.
      rewrite <- (GL_iso b' b Hb' Hb), <- (GR_iso c' c Hc' Hc).
      set (SV := suml (words d n) (fun v => get (PR v) c' 0%nat * cj (get (PR v) c 0%nat))).
      transitivity (suml (words d m) (fun u => (get (sel Z s) b' c' * (get (PL u) 0%nat b' * cj (get (PL u) 0%nat b))) * SV)).
      { apply suml_ext; intros u _. unfold SV. rewrite <- suml_scal_l. apply suml_ext; intros v _. unfold t. ring. }
      rewrite suml_scal_r, suml_scal_l. reflexivity. }
    rewrite (sumn_single R (Ds m) b); [| exact Hb |].
    - rewrite (sumn_single R (Ds (S m)) c); [| exact Hc |].
      + rewrite !Nat.eqb_refl. ring.
      + intros c' _ N. replace (Nat.eqb c' c) with false by (symmetry; apply Nat.eqb_neq; lia). ring.
    - intros b' _ N. apply sumn_zero; intros c' _. replace (Nat.eqb b' b) with false by (symmetry; apply Nat.eqb_neq; lia). ring.
  Qed.

  (* inner products *)
  Lemma sumn_front4 a b c e (f : nat -> nat -> nat -> nat -> R) :
    sumn a (fun i => sumn b (fun j => sumn c (fun k => sumn e (fun l => f i j k l)))) =
    sumn e (fun l => sumn a (fun i => sumn b (fun j => sumn c (fun k => f i j k l)))).
  Proof.
    transitivity (sumn a (fun i => sumn e (fun l => sumn b (fun j => sumn c (fun k => f i j k l))))).
    { apply sumn_ext; intros i _. apply (sumn_exch3 R b c e (fun j k l => f i j k l)). }
    apply (sumn_exch R a e (fun i l => sumn b (fun j => sumn c (fun k => f i j k l)))).
  Qed.
  Theorem EE_iso (Y Z : site) : siteM Y -> siteM Z -> site_dot Y Z = vdotl (EE Y) (EE Z).
  Proof.
    intros HY HZ. unfold vdotl. rewrite length_EE.
    transitivity (sumn NN (fun k => cj (nth k (EE Y) 0) * site_dot (YdW (nth k Wd [])) Z)).
    2: { apply sumn_ext; intros k Hk. rewrite (site_dot_YdW Z _ HZ (wordk_nth k Hk)). rewrite (nth_EE Z k Hk). reflexivity. }
    rewrite <- (Einv_EE Y HY) at 1. set (vec := EE Y).
    destruct (site_ok_sdl R _ _ _ _ Hd (wsite_ok R _ _ _ _ (wsite_Einv vec))) as (E1 & E2 & E3).
    unfold site_dot at 1. rewrite E1, E2, E3.
    transitivity (sumn d (fun s => sumn (Ds m) (fun b => sumn (Ds (S m)) (fun c => sumn NN (fun k =>
                    cj (nth k vec 0) * (cj (get (sel (YdW (nth k Wd [])) s) b c) * get (sel Z s) b c)))))).
    { apply sumn_ext; intros s Hs. apply sumn_ext; intros b Hb. apply sumn_ext; intros c Hc.
      rewrite get_Einv by assumption. rewrite sumn_conj, <- sumn_scal_r. apply sumn_ext; intros k _. rewrite kconj_mul. ring. }
    transitivity (sumn NN (fun k => sumn d (fun s => sumn (Ds m) (fun b => sumn (Ds (S m)) (fun c =>
                    cj (nth k vec 0) * (cj (get (sel (YdW (nth k Wd [])) s) b c) * get (sel Z s) b c)))))).
    { apply (sumn_front4 d (Ds m) (Ds (S m)) NN
               (fun s b c k => cj (nth k vec 0) * (cj (get (sel (YdW (nth k Wd [])) s) b c) * get (sel Z s) b c))). }
    apply sumn_ext; intros k Hk.
    destruct (site_ok_sdl R _ _ _ _ Hd (wsite_ok R _ _ _ _ (wsite_YdW _ (wordk_nth k Hk)))) as (F1 & F2 & F3).
    unfold site_dot. rewrite F1, F2, F3. rewrite <- sumn_scal_l. apply sumn_ext; intros s _. rewrite <- sumn_scal_l.
    apply sumn_ext; intros b _. rewrite <- sumn_scal_l. reflexivity.
  Qed.
  Variable DW : nat -> nat.
  Hypothesis HDWpos : forall j, (0 < DW j)%nat.
  Definition ofr_ok (k : nat) (Ws : list osite) : Prop :=
    forall j, (j < length Ws)%nat -> osite_ok d (DW (k + j)) (DW (S (k + j))) (nth j Ws []).
  Lemma ofr_ok_tail k W0 (Ws : list osite) : ofr_ok k (W0 :: Ws) -> osite_ok d (DW k) (DW (S k)) W0 /\ ofr_ok (S k) Ws.
  Proof.
    intros H. split.
    - specialize (H 0%nat ltac:(cbn [length]; lia)). cbn [nth] in H. rewrite Nat.add_0_r in H. exact H.
    - intros j Hj. specialize (H (S j) ltac:(cbn [length]; lia)). cbn [nth] in H. rewrite Nat.add_succ_r in H. exact H.
  Qed.
  Lemma ofr_chainx (Ws : list osite) : forall k, ofr_ok k Ws -> ochainx_ok (repeat d (length Ws)) (map DW (seq k (S (length Ws)))) Ws.
  Proof.
    induction Ws as [|W0 Ws IH]; intros k HW; [exact I|].
    destruct (ofr_ok_tail _ _ _ HW) as [HW0 HWs]. cbn [length repeat].
    change (seq k (S (S (length Ws)))) with (k :: seq (S k) (S (length Ws))). cbn [map].
    specialize (IH (S k) HWs). change (seq (S k) (S (length Ws))) with (S k :: seq (S (S k)) (length Ws)) in *. cbn [map] in *.
    split; [exact Hd|]. split; [apply HDWpos|]. split; [exact HW0|exact IH].
  Qed.
  Lemma ofr_chain (Ws : list osite) : forall k, ofr_ok k Ws -> DW (k + length Ws)%nat = 1%nat ->
    ochain_ok (repeat d (length Ws)) (map DW (seq k (S (length Ws)))) Ws.
  Proof.
    induction Ws as [|W0 Ws IH]; intros k HW HL1; [cbn [length] in HL1; rewrite Nat.add_0_r in HL1; exact HL1|].
    destruct (ofr_ok_tail _ _ _ HW) as [HW0 HWs]. cbn [length repeat].
    change (seq k (S (S (length Ws)))) with (k :: seq (S k) (S (length Ws))). cbn [map].
    specialize (IH (S k) HWs ltac:(rewrite <- HL1; f_equal; cbn [length]; lia)).
    change (seq (S k) (S (length Ws))) with (S k :: seq (S (S k)) (length Ws)) in *. cbn [map] in *.
    split; [exact Hd|]. split; [apply HDWpos|]. split; [exact HW0|exact IH].
  Qed.

  (* ---------------- the local operator is the dense operator seen through E ---------------- *)
  Variables Wl Wr : list osite.
  Variable W : osite.
  Hypothesis lWl : length Wl = m.
  Hypothesis lWr : length Wr = n.
  Hypothesis HWl : ofr_ok 0%nat Wl.
  Hypothesis HW : osite_ok d (DW m) (DW (S m)) W.
  Hypothesis HWr : ofr_ok (S m) Wr.
  Hypothesis HDW0 : DW 0%nat = 1%nat.
  Hypothesis HDWL : DW (S m + n)%nat = 1%nat.
  Notation BL := (lfold Al Al Wl env_one).
  Notation BR := (rfold Ar Ar Wr env_one).
  Notation Hs := (Wl ++ W :: Wr).

  Theorem embed_intertwine_amp (X : site) w : siteM X -> wenv (DW m) (Ds m) (Ds m) BL -> wenv (DW (S m)) (Ds (S m)) (Ds (S m)) BR ->
    wordk d NW w ->
    amp (Al ++ apply_local_hamiltonian BL BR W X :: Ar) w =
    suml (words d NW) (fun w' => opamp Hs w w' * amp (Al ++ X :: Ar) w').
  Proof.
    intros HX HBL HBR Hw.
    assert (HHX : siteM (apply_local_hamiltonian BL BR W X)).
    { apply (wsite_alh R d (Ds m) (Ds (S m)) (DW m) (DW (S m))); try assumption; apply HDWpos. }
    rewrite <- (site_dot_YdW _ w HHX Hw).
    pose proof (wsite_YdW w Hw) as HY.
    pose proof (fr_chainx Al 0%nat HAl) as cAl. pose proof (ofr_chainx Wl 0%nat HWl) as cWl. rewrite lWl in cWl.
    pose proof (fr_chain Ar (S m) HAr HDL) as cAr. pose proof (ofr_chain Wr (S m) HWr ltac:(rewrite lWr; exact HDWL)) as cWr. rewrite lWr in cWr.
    change (seq (S m) (S n)) with (S m :: seq (S (S m)) n) in cAr, cWr. cbn [map] in cAr, cWr.
    rewrite (local_hamiltonian_projection R Al Ar Al Ar Wl Wr X (YdW w) W (repeat d m) (repeat d n) d (Ds m) (Ds (S m)) (Ds m) (Ds (S m)) (DW m) (DW (S m))
               (map Ds (seq 0 (S m))) (map Ds (seq 0 (S m))) (map DW (seq 0 (S m)))
               (map Ds (seq (S (S m)) n)) (map Ds (seq (S (S m)) n)) (map DW (seq (S (S m)) n)));
      try assumption; try (apply wsite_ok; assumption); try apply HDWpos; try (apply last_map_seq).
    rewrite words_glue.
    transitivity (suml (words d NW) (fun w1 => (if weqb w1 w then 1 else 0) *
                    suml (words d NW) (fun w' => opamp Hs w1 w' * amp (Al ++ X :: Ar) w'))).
    { apply suml_ext; intros w1 Hw1. apply words_wordk in Hw1. rewrite (amp_YdW w w1 Hw Hw1). rewrite <- suml_scal_l.
      apply suml_ext; intros w' _. destruct (weqb w1 w); [rewrite kconj_1|rewrite kconj_0]; ring. }
    apply (suml_words_delta R d Hd NW w (fun w1 => suml (words d NW) (fun w' => opamp Hs w1 w' * amp (Al ++ X :: Ar) w')) Hw).
  Qed.

  Lemma length_Hs : length Hs = NW. Proof. rewrite app_length. cbn [length]. rewrite lWl, lWr. reflexivity. Qed.

  Theorem embed_intertwine (X : site) : siteM X -> wenv (DW m) (Ds m) (Ds m) BL -> wenv (DW (S m)) (Ds (S m)) (Ds (S m)) BR ->
    dense d NW (Al ++ apply_local_hamiltonian BL BR W X :: Ar) = Hvec d Hs (dense d NW (Al ++ X :: Ar)).
  Proof.
    intros HX HBL HBR. unfold dense, Hvec, matvec.
    change (nr (opamp_table d Hs)) with (length (words d (length Hs))). change (nc (opamp_table d Hs)) with (length (words d (length Hs))).
    rewrite length_Hs. set (Wd := words d NW).
    rewrite (list_as_tab [] Wd) at 1. rewrite map_map. apply map_ext_in. intros i Hi. apply in_seq in Hi.
    assert (Hwi : wordk d NW (nth i Wd [])) by (apply words_wordk; apply nth_In; fold Wd; lia).
    rewrite (embed_intertwine_amp X _ HX HBL HBR Hwi). fold Wd. rewrite (suml_nth R []). apply sumn_ext; intros j Hj.
    rewrite get_opamp_table by (rewrite length_Hs; fold Wd; lia). rewrite length_Hs. fold Wd. f_equal.
    rewrite (nth_indep _ 0 (amp (Al ++ X :: Ar) [])) by (rewrite map_length; exact Hj).
    symmetry. apply (map_nth (amp (Al ++ X :: Ar)) Wd [] j).
  Qed.

End Embed.

Arguments EE {R} d Al Ar Z. Arguments Einv {R} d Ds Al Ar vec.
