(* C13 — MPS.compress(tol, mode='left'): the specification of the model's result. *)
From Coq Require Import ZArith List Bool Lia Arith Ring Field.
From PT Require Import Base.Scalar Base.Field Base.BigSum Base.Mx Model.Tensor Model.BondOps Model.Orthonormalize.
From PT Require Import Proofs.BondOpsPerm Proofs.BondOpsLoop Proofs.BondOpsSpec Proofs.MPSOpsBase Proofs.MPSOpsShape Proofs.MPSOpsMul.
From PT Require Import Proofs.BondOpsRetained Proofs.BondOpsSVD.
From PT Require Import Proofs.OrthDefs Proofs.OrthQRExtra Proofs.OrthGram Proofs.OrthLocal Proofs.OrthSweep Proofs.OrthTop Proofs.OrthRight.
From PT Require Import Proofs.CompressPartial Proofs.CompressSVD Proofs.CompressLocal Proofs.CompressSweep.
Import ListNotations.

(* ---------- list helpers ---------- *)
Lemma Forall2_app_c13 {A B} (R : A -> B -> Prop) l1 l1' l2 l2' :
  Forall2 R l1 l1' -> Forall2 R l2 l2' -> Forall2 R (l1 ++ l2) (l1' ++ l2').
Proof. induction 1; simpl; intros H2; [exact H2|constructor; auto]. Qed.
Lemma Forall2_rev_c13 {A B} (R : A -> B -> Prop) l l' : Forall2 R l l' -> Forall2 R (rev l) (rev l').
Proof. induction 1; simpl; [constructor|]. apply Forall2_app_c13; [assumption|constructor; [assumption|constructor]]. Qed.
Lemma Forall2_le_trans (a b c : list nat) : Forall2 le a b -> Forall2 le b c -> Forall2 le a c.
Proof.
  intros H; revert c; induction H as [|x y a b Hxy Hab IH]; intros c Hc; inversion Hc; subst; constructor; [lia|auto].
Qed.
Lemma bond_bound_le pd : forall a b x y, bond_bound pd (x :: a) (y :: b) -> x <= y -> Forall2 le (x :: a) (y :: b).
Proof.
  induction a as [|x' a IH]; intros b x y H Hxy.
  - destruct b; simpl in H; [|contradiction]. constructor; [exact Hxy|constructor].
  - destruct b as [|y' b]; [simpl in H; contradiction|]. destruct H as (_ & H2 & H3).
    constructor; [exact Hxy|]. apply IH; assumption.
Qed.

Section SumConj.
  Variable R : cring.
  Lemma suml_conj {A} (l : list A) (f : A -> R) : kconj R (suml l f) = suml l (fun x => kconj R (f x)).
  Proof. induction l as [|x l IH]; simpl; [apply kconj_0|]. rewrite kconj_add, IH. reflexivity. Qed.
End SumConj.

Section CTop.
  Variable F : ofield.
  Add Field Ffield_ctop : (f_ft F).
  Notation CF := (Cx F).
  Add Ring CFring_ctop : (k_rt CF).
  Notation mx := (mx CF).
  Notation site := (site CF).
  Infix "*!" := (kmul CF) (at level 40, left associativity).
  Notation cj := (kconj CF).
  Notation emb := (@cof F).

  Variable dqr : mx -> mx * mx.
  Variable dsvd : mx -> mx * list F * mx.
  Variable pick : list F -> list nat.
  Variable cabs : CF -> F.

  (* ---------- the steps of the truncation sweep, their oracle contract and their discarded weights ---------- *)
  Definition compress_args (tol : F) (left : bool) (p1 : mps CF) : list (site * list Z * list Z) :=
    match (if left then m_A p1 else rev (m_A p1)), (if left then m_qD p1 else rev (m_qD p1)) with
    | A0 :: rest, q0 :: qrest =>
        sweep_args (if left then stepLs dsvd pick tol (m_qd p1) else stepRs dsvd pick tol (m_qd p1)) A0 q0 rest qrest
    | _, _ => []
    end.
  (* matrix and charge vectors handed to split_matrix_svd by the step with arguments a = (tensor, charges behind, ahead) *)
  Definition step_mx (left : bool) (qd : list Z) (a : site * list Z * list Z) : mx * list Z * list Z :=
    if left then (site_mx (fst (fst a)), qflat qd (snd (fst a)), snd a)
    else (site_mx_r (fst (fst a)), snd a, qflat (zneg qd) (snd (fst a))).
  Definition cstep_ok (left : bool) (qd : list Z) (a : site * list Z * list Z) : Prop :=
    svd_call_ok dsvd pick (fst (fst (step_mx left qd a))) (snd (fst (step_mx left qd a))) (snd (step_mx left qd a)).
  Definition cstep_eps (tol : F) (left : bool) (qd : list Z) (a : site * list Z * list Z) : F :=
    svd_eps tol dsvd pick (fst (fst (step_mx left qd a))) (snd (fst (step_mx left qd a))) (snd (step_mx left qd a)).
  Definition compress_ok (tol : F) (left : bool) (p1 : mps CF) : Prop :=
    Forall (cstep_ok left (m_qd p1)) (compress_args tol left p1).
  Definition compress_eps (tol : F) (left : bool) (p1 : mps CF) : list F :=
    map (cstep_eps tol left (m_qd p1)) (compress_args tol left p1).

  (* the svd calls listed by the model are the calls of these steps *)
  Lemma compress_svd_calls_args tol left (p1 : mps CF) :
    compress_svd_calls dsvd pick tol left p1 =
    flat_map (fun a => block_svd_calls (fst (fst (step_mx left (m_qd p1) a))) (snd (fst (step_mx left (m_qd p1) a))) (snd (step_mx left (m_qd p1) a)))
             (compress_args tol left p1).
  Proof.
    unfold compress_svd_calls, compress_args.
    destruct (if left then m_A p1 else rev (m_A p1)) as [|A0 rest]; [reflexivity|].
    destruct (if left then m_qD p1 else rev (m_qD p1)) as [|q0 qrest]; [reflexivity|].
    destruct left; rewrite sweep_calls_args; reflexivity.
  Qed.

  (* contract of abs on the one value it is applied to *)
  Definition abs_ok (t : CF) : Prop := fle F (f0 F) (cabs t) /\ fmul F (cabs t) (cabs t) = cnorm2 t.

  (* ---------- the unit phase T / |T| ---------- *)
  Lemma phase_facts (t : CF) (sc : F) : fle F (f0 F) sc -> fmul F sc sc = cnorm2 t -> flt F (f0 F) (cnorm2 t) ->
    sc <> f0 F /\ cj (cdivr t sc) *! cdivr t sc = k1 CF /\ t = emb sc *! cdivr t sc /\ cj (cdivr t sc) *! t = emb sc.
  Proof.
    intros H0 Hsq Hpos.
    assert (Hn : sc <> f0 F).
    { intros E. rewrite E in Hsq. apply (flt_neq F _ _ Hpos). rewrite <- Hsq. ring. }
    split; [exact Hn|].
    destruct t as [x y]. unfold cnorm2 in Hsq. cbn [fst snd] in Hsq.
    assert (Hsq' : fadd F (fmul F x x) (fmul F y y) = fmul F sc sc) by (symmetry; exact Hsq).
    split; [|split].
    - change (cmul F (cconj F (cdivr (x, y) sc)) (cdivr (x, y) sc) = (f1 F, f0 F)).
      unfold cmul, cconj, cdivr. cbn [fst snd]. apply injective_projections; cbn [fst snd].
      + transitivity (fdiv F (fadd F (fmul F x x) (fmul F y y)) (fmul F sc sc)); [field; exact Hn|].
        rewrite Hsq'. field. exact Hn.
      + field. exact Hn.
    - change ((x, y) = cmul F (sc, f0 F) (cdivr (x, y) sc)).
      unfold cmul, cdivr. cbn [fst snd]. apply injective_projections; cbn [fst snd]; field; exact Hn.
    - change (cmul F (cconj F (cdivr (x, y) sc)) (x, y) = (sc, f0 F)).
      unfold cmul, cconj, cdivr. cbn [fst snd]. apply injective_projections; cbn [fst snd].
      + transitivity (fdiv F (fadd F (fmul F x x) (fmul F y y)) sc); [field; exact Hn|].
        rewrite Hsq'. field. exact Hn.
      + field. exact Hn.
  Qed.

  Lemma fprod_pos (l : list F) : (forall x, In x l -> flt F (f0 F) x) -> flt F (f0 F) (fprod l).
  Proof.
    induction l as [|x l IH]; intros H; simpl; [apply f1_pos|].
    apply fmul_pos; [apply H; left; reflexivity|apply IH; intros y Hy; apply H; right; exact Hy].
  Qed.

  Lemma fprod_ones (l : list F) : (forall x, In x l -> x = f1 F) -> fprod l = f1 F.
  Proof.
    induction l as [|x l IH]; intros H; simpl; [reflexivity|].
    rewrite (H x (or_introl eq_refl)), IH by (intros y Hy; apply H; right; exact Hy). ring.
  Qed.

  Lemma sq_one_nonneg (a : F) : fle F (f0 F) a -> fmul F a a = f1 F -> a = f1 F.
  Proof.
    intros H0 H. apply fle_antisym.
    - apply (sq_le_le F a (f1 F) H0 (flt_le F _ _ (f1_pos F))). rewrite H. replace (fmul F (f1 F) (f1 F)) with (f1 F) by ring. apply fle_refl.
    - apply (sq_le_le F (f1 F) a (flt_le F _ _ (f1_pos F)) H0). rewrite H. replace (fmul F (f1 F) (f1 F)) with (f1 F) by ring. apply fle_refl.
  Qed.

  (* ---------- the generic result of a truncation sweep + phase absorption on a right-canonical chain ---------- *)
  Section Core.
    Variable d : nat.
    Variable qd : list Z.
    Variable tol : F.
    Hypothesis Hd : 1 <= d.
    Hypothesis Lqd : length qd = d.
    Hypothesis Htol1 : flt F tol (f1 F).
    Variable step : step_t CF.
    Variable ok : site -> list Z -> list Z -> Prop.
    Variable epsf : site -> list Z -> list Z -> F.
    Hypothesis Hloc : local_spec d qd tol step ok epsf.

    Lemma compress_core_spec (A0 : site) (rest : list site) (q0 : list Z) (qrest : list (list Z)) :
      chain_shape d (lens (q0 :: qrest)) (A0 :: rest) = true ->
      chain_qsparse qd (q0 :: qrest) (A0 :: rest) = true ->
      Forall (fun q => 1 <= length q) (q0 :: qrest) ->
      length q0 = 1 -> length (last qrest q0) = 1 ->
      chain_riso (lens (q0 :: qrest)) (A0 :: rest) ->
      Forall (argok ok) (sweep_args step A0 q0 rest qrest) ->
      (forall T, (exists As qs, sweep step A0 q0 rest qrest = Some (As, qs, T)) -> is111 T = true -> abs_ok (get (sel T 0) 0 0)) ->
      exists As qs sc,
        compress_core cabs step (A0 :: rest) (q0 :: qrest) = Some (As, q0 :: qs, sc) /\
        length As = S (length rest) /\
        chain_shape d (lens (q0 :: qs)) As = true /\
        chain_qsparse qd (q0 :: qs) As = true /\
        Forall (fun q => 1 <= length q) (q0 :: qs) /\
        length (last qs q0) = 1 /\
        bond_bound d (lens (q0 :: qs)) (lens (q0 :: qrest)) /\
        chain_liso (lens (q0 :: qs)) As /\
        norm2 d As = k1 CF /\
        fle F (f0 F) sc /\
        length (sweep_args step A0 q0 rest qrest) = S (length rest) /\
        Forall (fun a => fle F (f0 F) (argeps epsf a) /\ fle F (argeps epsf a) tol) (sweep_args step A0 q0 rest qrest) /\
        fmul F sc sc = fprod (map (fun a => one_minus (argeps epsf a)) (sweep_args step A0 q0 rest qrest)) /\
        (tol = f0 F -> sc = f1 F /\ forall w, length w = S (length rest) -> letters d w ->
           amp (A0 :: rest) w = emb sc *! amp As w) /\
        suml (words d (S (length rest))) (fun w => cj (amp As w) *! amp (A0 :: rest) w) = emb sc.
    Proof.
      intros Hshape Hsparse Hpos Hq0 Hlast Hriso Hok Habs.
      assert (Hr0 : riso 1 (hd 0 (lens qrest)) A0 /\ chain_riso (lens qrest) rest).
      { unfold lens in *. destruct qrest as [|qa qrest]; [simpl in Hshape; discriminate|].
        cbn [map] in Hriso. destruct Hriso as [H1 H2]. rewrite Hq0 in H1. split; assumption. }
      destruct Hr0 as [HrA0 HrRest].
      assert (HsA0 : site_shape d 1 (hd 0 (lens qrest)) A0 = true).
      { unfold lens in *. destruct qrest as [|qa qrest]; [simpl in Hshape; discriminate|].
        cbn [map] in Hshape. rewrite chain_shape_cons in Hshape. apply andb_true_iff in Hshape. rewrite Hq0 in Hshape. tauto. }
      assert (Hcn : cn2 A0 = emb (f1 F)).
      { unfold cn2. assert (HlA : length A0 = d) by (eapply site_shape_length; eauto).
        transitivity (delta CF 0 0); [|reflexivity].
        rewrite <- (HrA0 0 0 ltac:(lia) ltac:(lia)). rewrite HlA. apply sumn_ext. intros s Hs.
        destruct (site_shape_sel CF d _ _ A0 s HsA0 ltac:(lia)) as (Hw & Hr & Hc).
        unfold frob. rewrite Hr, Hc. cbn [sumn].
        transitivity (sumn (hd 0 (lens qrest)) (fun j => cj (get (sel A0 s) 0 j) *! get (sel A0 s) 0 j)); [ring|].
        apply sumn_ext. intros b Hb. ring. }
      destruct (sweep_gen F d qd tol Hd Lqd Htol1 step ok epsf Hloc rest A0 q0 qrest (f1 F)
                  Hshape Hsparse Hpos Hlast HrRest Hcn (f1_pos F) Hok)
        as (As & qs & T & ES & H111 & HlAs & HsAs & HqAs & HpAs & HlastAs & Hbb & Hiso & Hlen & Heps & Hnorm & Hamp & Hovl).
      set (t := get (sel T 0) 0 0) in *.
      set (args := sweep_args step A0 q0 rest qrest) in *.
      assert (Habs' : abs_ok t) by (apply Habs; [eauto|exact H111]).
      destruct Habs' as [Hsc0 Hscsq].
      assert (Hprod : flt F (f0 F) (fprod (map (fun a => one_minus (argeps epsf a)) args))).
      { apply fprod_pos. intros x Hx. apply in_map_iff in Hx. destruct Hx as (a & <- & Ha).
        rewrite Forall_forall in Heps. apply (one_minus_pos F tol Htol1). apply (Heps a Ha). }
      assert (Hnorm' : cnorm2 t = fprod (map (fun a => one_minus (argeps epsf a)) args)) by (rewrite Hnorm; ring).
      assert (Htpos : flt F (f0 F) (cnorm2 t)) by (rewrite Hnorm'; exact Hprod).
      destruct (phase_facts t (cabs t) Hsc0 Hscsq Htpos) as (Hscn & Hunit & Hts & Hcjt).
      set (ph := cdivr t (cabs t)) in *.
      assert (HhdL : hd 0 (lens (q0 :: qs)) = 1) by exact Hq0.
      assert (HlsL : last (lens (q0 :: qs)) 0 = 1) by (unfold lens; rewrite (last_lens_cons q0 qs); exact HlastAs).
      assert (Hsh : chain_shape d (lens (q0 :: qs)) (map_last (@scale_site CF ph) As) = true)
        by (apply chain_shape_map_last; exact HsAs).
      assert (Hli : chain_liso (lens (q0 :: qs)) (map_last (@scale_site CF ph) As))
        by (apply (chain_liso_map_last CF d); [exact Hunit|exact HsAs|exact Hiso]).
      assert (HneAs : As <> []) by (intros ->; simpl in HlAs; discriminate).
      assert (Hamp' : forall w, length w = S (length rest) -> letters d w ->
                 amp (map_last (@scale_site CF ph) As) w = ph *! amp As w).
      { intros w Hlw Hw. unfold amp.
        rewrite (mprod_map_last CF d ph As (lens (q0 :: qs)) w 1 HsAs ltac:(lia) Hw HneAs).
        apply get_scalemx_any. apply wf_mprod. }
      exists (map_last (@scale_site CF ph) As), qs, (cabs t).
      split. { unfold compress_core. rewrite ES, H111. reflexivity. }
      split; [rewrite length_map_last; exact HlAs|].
      split; [exact Hsh|].
      split; [apply (chain_qsparse_map_last CF d); assumption|].
      split; [exact HpAs|]. split; [exact HlastAs|]. split; [exact Hbb|]. split; [exact Hli|].
      split; [apply (liso_chain_norm CF d (lens (q0 :: qs))); assumption|].
      split; [exact Hsc0|]. split; [exact Hlen|]. split; [exact Heps|].
      split; [rewrite Hscsq; exact Hnorm'|].
      split.
      - intros Ht.
        assert (Hone : cabs t = f1 F).
        { apply sq_one_nonneg; [exact Hsc0|]. rewrite Hscsq, Hnorm'. apply fprod_ones.
          intros x Hx. apply in_map_iff in Hx. destruct Hx as (a & <- & Ha).
          rewrite Forall_forall in Heps. destruct (Heps a Ha) as [H0 H1]. rewrite Ht in H1.
          assert (E : argeps epsf a = f0 F) by (apply fle_antisym; assumption).
          unfold one_minus. rewrite E. ring. }
        split; [exact Hone|].
        intros w Hlw Hw. rewrite (Hamp' w Hlw Hw).
        rewrite (amp_of_mprod F _ _ _ _ (Hamp Ht w Hlw Hw)). fold t. rewrite Hts at 1. ring.
      - transitivity (cj ph *! t); [|exact Hcjt].
        rewrite <- Hovl. unfold ovl. rewrite HlAs. rewrite <- suml_scal_l. apply suml_ext. intros w Hw.
        apply words_ok in Hw. destruct Hw as [Hlw Hw].
        rewrite (Hamp' w Hlw Hw). rewrite Hq0. cbn [sumn]. unfold amp. rewrite kconj_mul. ring.
    Qed.
  End Core.

  (* ---------- mode = 'left' ---------- *)
  Theorem compress_left_spec (p : mps CF) (d : nat) (tol : F) :
    1 <= d -> length (m_qd p) = d -> m_A p <> [] -> mps_ok p = true ->
    length (hd [] (m_qD p)) = 1 -> length (last (m_qD p) []) = 1 ->
    Forall (fun q => 1 <= length q) (m_qD p) ->
    fle F (f0 F) tol -> flt F tol (f1 F) ->
    Forall (qr_call_ok F dqr) (mps_orth_calls dqr false p) ->
    (forall p1 n1, mps_orthonormalize dqr false p = Some (p1, n1) -> compress_ok tol true p1) ->
    (forall t, compress_T dqr dsvd pick tol true p = Some t -> abs_ok t) ->
    exists p1 p' nrm sc,
      mps_orthonormalize dqr false p = Some (p1, nrm) /\
      mps_compress dqr dsvd pick cabs tol true p = Some (p', nrm, sc) /\
      m_qd p' = m_qd p /\ length (m_A p') = length (m_A p) /\ mps_ok p' = true /\
      length (hd [] (m_qD p')) = 1 /\ length (last (m_qD p') []) = 1 /\
      Forall (fun q => 1 <= length q) (m_qD p') /\
      bond_bound d (lens (m_qD p')) (lens (m_qD p1)) /\
      Forall2 le (lens (m_qD p')) (lens (m_qD p)) /\
      chain_liso (lens (m_qD p')) (m_A p') /\
      norm2 d (m_A p') = k1 CF /\
      fle F (f0 F) nrm /\ norm2 d (m_A p) = emb (fmul F nrm nrm) /\
      fle F (f0 F) sc /\
      length (compress_eps tol true p1) = length (m_A p) /\
      (forall e, In e (compress_eps tol true p1) -> fle F (f0 F) e /\ fle F e tol) /\
      fmul F sc sc = fprod (map (fun e => fsub F (f1 F) e) (compress_eps tol true p1)) /\
      (tol = f0 F -> sc = f1 F /\ forall w, length w = length (m_A p) -> letters d w ->
         amp (m_A p) w = emb nrm *! emb sc *! amp (m_A p') w) /\
      suml (words d (length (m_A p))) (fun w => cj (amp (m_A p') w) *! amp (m_A p) w) = emb (fmul F nrm sc).
  Proof.
    intros Hd Lqd Hne Hok Hfirst Hlast Hpos Htol0 Htol1 Hcalls Hsvd Habs.
    destruct (orth_right_spec F dqr p d Hd Lqd Hne Hok Hfirst Hlast Hpos Hcalls)
      as (p1 & nrm & E1 & Hqd1 & Hlen1 & Hok1 & Hlast1 & Hhd1 & Hpos1 & Hbb1 & Hriso1 & Hnrm & Hamp1 & Hn2 & Hn1).
    specialize (Hsvd p1 nrm E1).
    destruct p1 as [qd1 qDs1 As1]. cbn [m_qd m_qD m_A] in *. subst qd1.
    destruct As1 as [|A0 rest]; [destruct (m_A p); [congruence|simpl in Hlen1; discriminate]|].
    unfold mps_ok in Hok1. cbn [m_qd m_qD m_A] in Hok1. rewrite Lqd in Hok1.
    apply andb_true_iff in Hok1. destruct Hok1 as [Hshape Hsparse].
    destruct qDs1 as [|q0 qrest]; [simpl in Hshape; discriminate|].
    cbn [hd] in Hhd1.
    assert (Hlast' : length (last qrest q0) = 1).
    { destruct qrest as [|q1 qrest]; [exact Hhd1|]. rewrite (last_irrel q1 qrest q0 []).
      change (length (last (q0 :: q1 :: qrest) []) = 1). rewrite Hlast1. exact Hlast. }
    unfold compress_ok, compress_args in Hsvd. cbn [m_qd m_qD m_A] in Hsvd.
    destruct (compress_core_spec d (m_qd p) tol Hd Lqd Htol1 (stepLs dsvd pick tol (m_qd p)) (okL (m_qd p) dsvd pick)
                (epsL (m_qd p) tol dsvd pick) (local_left_svd_spec F d (m_qd p) tol dsvd pick Hd Lqd Htol0 Htol1)
                A0 rest q0 qrest Hshape Hsparse Hpos1 Hhd1 Hlast' Hriso1 Hsvd)
      as (As & qs & sc & EC & HlAs & HsAs & HqAs & HpAs & HlastAs & Hbb & Hli & Hn1' & Hsc0 & Hlen & Heps & Hsq & Hex & Hovl).
    { intros T (As & qs & ES) _. apply Habs. unfold compress_T. cbn [negb]. rewrite E1. cbn [m_qd m_qD m_A]. rewrite ES. reflexivity. }
    exists (mkmps (m_qd p) (q0 :: qrest) (A0 :: rest)), (mkmps (m_qd p) (q0 :: qs) As), nrm, sc.
    split; [exact E1|].
    split. { unfold mps_compress. cbn [negb]. rewrite E1. cbn [m_qd m_qD m_A]. rewrite EC. reflexivity. }
    cbn [m_qd m_qD m_A].
    assert (HL : length (m_A p) = S (length rest)) by (simpl in Hlen1; lia).
    split; [reflexivity|]. split; [lia|].
    split. { unfold mps_ok. cbn [m_qd m_qD m_A]. rewrite Lqd. fold (lens (q0 :: qs)). rewrite HsAs, HqAs. reflexivity. }
    split; [exact Hhd1|].
    split. { destruct qs as [|q1 qs]; [exact HlastAs|]. change (length (last (q1 :: qs) []) = 1). rewrite (last_irrel q1 qs [] q0). exact HlastAs. }
    split; [exact HpAs|]. split; [exact Hbb|].
    split.
    { apply (Forall2_le_trans _ (lens (q0 :: qrest))).
      - apply (bond_bound_le d); [exact Hbb|lia].
      - rewrite <- (rev_involutive (lens (q0 :: qrest))), <- (rev_involutive (lens (m_qD p))). apply Forall2_rev_c13.
        destruct (rev (lens (q0 :: qrest))) as [|x a] eqn:Ea; destruct (rev (lens (m_qD p))) as [|y b] eqn:Eb.
        { simpl in Hbb1; contradiction. }
        { simpl in Hbb1; contradiction. }
        { destruct a; simpl in Hbb1; contradiction. }
        apply (bond_bound_le d); [exact Hbb1|].
        assert (Hx : x = length (last (q0 :: qrest) [])).
        { rewrite <- last_lens. rewrite <- (rev_involutive (lens (q0 :: qrest))), Ea. rewrite last_rev. reflexivity. }
        assert (Hy : y = length (last (m_qD p) [])).
        { rewrite <- last_lens. rewrite <- (rev_involutive (lens (m_qD p))), Eb. rewrite last_rev. reflexivity. }
        rewrite Hx, Hy, Hlast1. lia. }
    split; [exact Hli|]. split; [exact Hn1'|]. split; [exact Hnrm|]. split; [exact Hn2|]. split; [exact Hsc0|].
    unfold compress_eps, compress_args. cbn [m_qd m_qD m_A].
    split; [rewrite map_length, Hlen; lia|].
    split. { intros e He. apply in_map_iff in He. destruct He as (a & <- & Ha). rewrite Forall_forall in Heps. apply (Heps a Ha). }
    split. { rewrite Hsq. rewrite map_map. reflexivity. }
    split.
    - intros Ht. destruct (Hex Ht) as [Hone Hw]. split; [exact Hone|].
      intros w Hlw Hlet. rewrite (Hamp1 w Hlw Hlet). rewrite (Hw w ltac:(lia) Hlet). ring.
    - rewrite HL. rewrite cof_mul. rewrite <- Hovl. rewrite <- suml_scal_l. apply suml_ext. intros w Hw.
      apply words_ok in Hw. destruct Hw as [Hlw Hw]. rewrite (Hamp1 w ltac:(lia) Hw). ring.
  Qed.
End CTop.

Arguments compress_args {F} dsvd pick tol left p1.
Arguments step_mx {F} left qd a.
Arguments cstep_ok {F} dsvd pick left qd a.
Arguments cstep_eps {F} dsvd pick tol left qd a.
Arguments compress_ok {F} dsvd pick tol left p1.
Arguments compress_eps {F} dsvd pick tol left p1.
Arguments abs_ok {F} cabs t.
