(* C08/C10 — mixed-canonical form: with left-isometric tensors before the local site and right-isometric tensors after
   it, the norm of the state is the norm of the local tensor; together with C04's projection theorems (energy
   = <A | H_eff A> for the environment blocks of Model/Operation.v) this is the invariant of the TDVP / DMRG sweeps. *)
From Coq Require Import Arith List Lia Ring Setoid Morphisms Bool.
From PT Require Import Base.Scalar Base.BigSum Base.Mx Model.Tensor Model.Operation
  Proofs.OperationSums Proofs.OperationEntries Proofs.OperationChains Proofs.OperationLocal Proofs.OperationUniform.
Import ListNotations.

Section Canon.
  Variable R : cring.
  Add Ring Rring_sweeps_canon : (k_rt R).
  Notation "0" := (k0 R). Notation "1" := (k1 R).
  Infix "+" := (kadd R). Infix "*" := (kmul R).
  Notation site := (site R).
  Notation osite := (osite R).
  Notation env := (env R).
  Notation mx := (mx R).
  Notation cj := (kconj R).
  Notation dlt a b := (if Nat.eqb a b then 1 else 0).

  (* sum_s A[s] A[s]^H = I  resp.  sum_s A[s]^H A[s] = I, entry-wise *)
  Definition right_iso (A : site) : Prop := forall a a', a < sdl A -> a' < sdl A ->
    sumn (length A) (fun s => sumn (sdr A) (fun c => get (sel A s) a c * cj (get (sel A s) a' c))) = dlt a a'.
  Definition left_iso (A : site) : Prop := forall c c', c < sdr A -> c' < sdr A ->
    sumn (length A) (fun s => sumn (sdl A) (fun a => get (sel A s) a c * cj (get (sel A s) a c'))) = dlt c c'.
  (* executable versions (non-vacuity examples, correspondence) *)
  Definition right_isob (A : site) : bool :=
    forallb (fun a => forallb (fun a' => keqb R
      (sumn (length A) (fun s => sumn (sdr A) (fun c => get (sel A s) a c * cj (get (sel A s) a' c)))) (dlt a a'))
      (seq 0 (sdl A))) (seq 0 (sdl A)).
  Definition left_isob (A : site) : bool :=
    forallb (fun c => forallb (fun c' => keqb R
      (sumn (length A) (fun s => sumn (sdl A) (fun a => get (sel A s) a c * cj (get (sel A s) a c')))) (dlt c c'))
      (seq 0 (sdr A))) (seq 0 (sdr A)).
  Lemma right_isob_ok A : right_isob A = true -> right_iso A.
  Proof.
    unfold right_isob, right_iso. rewrite forallb_forall. intros H a a' Ha Ha'.
    specialize (H a). rewrite forallb_forall in H. apply keqb_spec. apply H; apply in_seq; lia.
  Qed.
  Lemma left_isob_ok A : left_isob A = true -> left_iso A.
  Proof.
    unfold left_isob, left_iso. rewrite forallb_forall. intros H c c' Hc Hc'.
    specialize (H c). rewrite forallb_forall in H. apply keqb_spec. apply H; apply in_seq; lia.
  Qed.

  (* ---- sum helpers ---- *)
  Lemma suml_sumn_exch {A} (l : list A) n (f : A -> nat -> R) :
    suml l (fun x => sumn n (fun i => f x i)) = sumn n (fun i => suml l (fun x => f x i)).
  Proof.
    transitivity (suml l (fun x => suml (seq 0 n) (fun i => f x i))).
    { apply suml_ext; intros x _. symmetry. apply suml_seq. }
    rewrite suml_exch, suml_seq. reflexivity.
  Qed.
  Lemma sumn_exch3 a b c (f : nat -> nat -> nat -> R) :
    sumn a (fun i => sumn b (fun j => sumn c (fun k => f i j k))) = sumn c (fun k => sumn a (fun i => sumn b (fun j => f i j k))).
  Proof.
    transitivity (sumn a (fun i => sumn c (fun k => sumn b (fun j => f i j k)))).
    { apply sumn_ext; intros i _. apply sumn_exch. }
    apply (sumn_exch R a c (fun i k => sumn b (fun j => f i j k))).
  Qed.
  Lemma sumn_mul_conj m n (f g : nat -> R) :
    sumn m f * cj (sumn n g) = sumn m (fun i => sumn n (fun j => f i * cj (g j))).
  Proof.
    rewrite sumn_conj, <- sumn_scal_r. apply sumn_ext; intros i _. rewrite <- sumn_scal_l. reflexivity.
  Qed.
  Lemma sumn_delta_sym n k (f : nat -> R) : k < n -> sumn n (fun i => f i * dlt k i) = f k.
  Proof.
    intros Hk. transitivity (sumn n (fun i => f i * dlt i k)).
    { apply sumn_ext; intros i _. rewrite (Nat.eqb_sym k i). reflexivity. }
    apply sumn_delta_r. exact Hk.
  Qed.

  (* ---- Gram matrices of the right part of a chain ---- *)
  Definition gram (As : list site) (ds : list nat) (a a' : nat) : R :=
    suml (gwords ds) (fun w => cvec As w a * cj (cvec As w a')).
  Definition tnorm (As : list site) (ds : list nat) (D0 : nat) : R := sumn D0 (fun a => gram As ds a a).

  Lemma gram_cons d ds Dl Dr Ds (A : site) As a a' :
    chain_ok (d :: ds) (Dl :: Dr :: Ds) (A :: As) -> a < Dl -> a' < Dl ->
    gram (A :: As) (d :: ds) a a' =
    sumn d (fun s => sumn Dr (fun c => sumn Dr (fun c' => get (sel A s) a c * cj (get (sel A s) a' c') * gram As ds c c'))).
  Proof.
    intros H Ha Ha'. unfold gram. rewrite suml_gwords_cons, suml_seq. apply sumn_ext; intros s Hs.
    transitivity (suml (gwords ds) (fun w =>
       sumn Dr (fun c => sumn Dr (fun c' => (get (sel A s) a c * cvec As w c) * cj (get (sel A s) a' c' * cvec As w c'))))).
    { apply suml_ext; intros w Hw.
      rewrite (cvec_cons R d ds Dl Dr Ds) by assumption. rewrite (cvec_cons R d ds Dl Dr Ds) by assumption.
      apply sumn_mul_conj. }
    rewrite suml_sumn_exch. apply sumn_ext; intros c Hc. rewrite suml_sumn_exch. apply sumn_ext; intros c' Hc'.
    rewrite <- suml_scal_l. apply suml_ext; intros w _. rewrite kconj_mul. ring.
  Qed.

  Lemma gram_right_iso (As : list site) : forall ds Ds a a',
    chain_ok ds Ds As -> Forall right_iso As -> a < hd 0%nat Ds -> a' < hd 0%nat Ds -> gram As ds a a' = dlt a a'.
  Proof.
    induction As as [|A As IH]; intros ds Ds a a' H Hiso Ha Ha'.
    - apply chain_ok_nil_inv in H. destruct H as [-> ->]. cbn [hd] in *.
      assert (a = 0%nat) by lia. assert (a' = 0%nat) by lia. subst.
      unfold gram. cbn [gwords]. rewrite suml_one, cvec_nil, kconj_1. cbn. ring.
    - apply chain_ok_cons_inv in H. destruct H as (d & ds' & Dl & Dr & Ds' & -> & -> & Hd & HA & HAs). cbn [hd] in *.
      inversion Hiso as [|? ? HisoA HisoAs]; subst.
      rewrite (gram_cons d ds' Dl Dr Ds') by (try assumption; apply chain_ok_cons; assumption).
      destruct (site_ok_sdl _ _ _ _ _ Hd HA) as (E1 & E2 & E3).
      transitivity (sumn d (fun s => sumn Dr (fun c => get (sel A s) a c * cj (get (sel A s) a' c)))).
      { apply sumn_ext; intros s Hs. apply sumn_ext; intros c Hc.
        transitivity (sumn Dr (fun c' => (get (sel A s) a c * cj (get (sel A s) a' c')) * dlt c c')).
        { apply sumn_ext; intros c' Hc'. rewrite (IH ds' (Dr :: Ds')) by (cbn [hd]; assumption). reflexivity. }
        apply (sumn_delta_sym Dr c (fun c' => get (sel A s) a c * cj (get (sel A s) a' c'))). exact Hc. }
      specialize (HisoA a a'). rewrite E1, E2, E3 in HisoA. apply HisoA; assumption.
  Qed.

  (* ---- a left-isometric tensor in front does not change the total norm ---- *)
  Lemma tnorm_left_iso_cons d ds Dl Dr Ds (A : site) As :
    chain_ok (d :: ds) (Dl :: Dr :: Ds) (A :: As) -> left_iso A -> tnorm (A :: As) (d :: ds) Dl = tnorm As ds Dr.
  Proof.
    intros H Hiso. unfold tnorm.
    destruct H as (Hd & HA & HAs). destruct (site_ok_sdl _ _ _ _ _ Hd HA) as (E1 & E2 & E3).
    transitivity (sumn Dl (fun a => sumn d (fun s => sumn Dr (fun c => sumn Dr (fun c' =>
                    get (sel A s) a c * cj (get (sel A s) a c') * gram As ds c c'))))).
    { apply sumn_ext; intros a Ha. apply (gram_cons d ds Dl Dr Ds); try assumption. apply chain_ok_cons; assumption. }
    rewrite (sumn_exch3 Dl d Dr (fun a s c => sumn Dr (fun c' => get (sel A s) a c * cj (get (sel A s) a c') * gram As ds c c'))).
    apply sumn_ext; intros c Hc.
    rewrite (sumn_exch3 Dl d Dr (fun a s c' => get (sel A s) a c * cj (get (sel A s) a c') * gram As ds c c')).
    transitivity (sumn Dr (fun c' => gram As ds c c' * dlt c c')).
    { apply sumn_ext; intros c' Hc'.
      specialize (Hiso c c'). rewrite E1, E2, E3 in Hiso. rewrite <- Hiso by assumption.
      rewrite (sumn_exch R d Dl). rewrite <- sumn_scal_l. apply sumn_ext; intros a _.
      rewrite <- sumn_scal_l. apply sumn_ext; intros s _. ring. }
    apply (sumn_delta_sym Dr c (fun c' => gram As ds c c')). exact Hc.
  Qed.

  Lemma chain_ok_skipn (Al : list site) : forall ds Ds rest,
    chain_ok ds Ds (Al ++ rest) -> chain_ok (skipn (length Al) ds) (skipn (length Al) Ds) rest.
  Proof.
    induction Al as [|A Al IH]; intros ds Ds rest H; [exact H|].
    cbn [app] in H. apply chain_ok_cons_inv in H. destruct H as (d & ds' & Dl & Dr & Ds' & -> & -> & Hd & HA & HAs).
    cbn [length skipn]. apply (IH ds' (Dr :: Ds') rest HAs).
  Qed.

  Lemma tnorm_left_part (Al : list site) : forall ds Ds rest,
    chain_ok ds Ds (Al ++ rest) -> Forall left_iso Al ->
    tnorm (Al ++ rest) ds (hd 0%nat Ds) = tnorm rest (skipn (length Al) ds) (hd 0%nat (skipn (length Al) Ds)).
  Proof.
    induction Al as [|A Al IH]; intros ds Ds rest H Hiso; [reflexivity|].
    cbn [app] in *. pose proof H as H0.
    apply chain_ok_cons_inv in H. destruct H as (d & ds' & Dl & Dr & Ds' & -> & -> & Hd & HA & HAs).
    inversion Hiso as [|? ? HisoA HisoAl]; subst. cbn [hd length skipn].
    rewrite (tnorm_left_iso_cons d ds' Dl Dr Ds') by assumption.
    apply (IH ds' (Dr :: Ds') rest HAs HisoAl).
  Qed.

  Lemma tnorm_center d ds Dl Dr Ds (X : site) (Ar : list site) :
    chain_ok (d :: ds) (Dl :: Dr :: Ds) (X :: Ar) -> Forall right_iso Ar -> tnorm (X :: Ar) (d :: ds) Dl = site_dot X X.
  Proof.
    intros H Hiso. unfold tnorm. pose proof H as H0. destruct H as (Hd & HX & HAr).
    destruct (site_ok_sdl _ _ _ _ _ Hd HX) as (E1 & E2 & E3).
    transitivity (sumn Dl (fun a => sumn d (fun s => sumn Dr (fun c => get (sel X s) a c * cj (get (sel X s) a c))))).
    { apply sumn_ext; intros a Ha. rewrite (gram_cons d ds Dl Dr Ds) by assumption.
      apply sumn_ext; intros s Hs. apply sumn_ext; intros c Hc.
      transitivity (sumn Dr (fun c' => (get (sel X s) a c * cj (get (sel X s) a c')) * dlt c c')).
      { apply sumn_ext; intros c' Hc'. rewrite (gram_right_iso Ar ds (Dr :: Ds)) by (cbn [hd]; assumption). reflexivity. }
      apply (sumn_delta_sym Dr c (fun c' => get (sel X s) a c * cj (get (sel X s) a c'))). exact Hc. }
    unfold site_dot. rewrite E1, E2, E3. rewrite (sumn_exch R Dl d).
    apply sumn_ext; intros s _. apply sumn_ext; intros a _. apply sumn_ext; intros c _. ring.
  Qed.

  (* ---- the norm in mixed-canonical form (per-site physical dimensions ds) ---- *)
  Theorem mixed_canonical_norm_g (Al Ar : list site) (X : site) ds Ds :
    chain_ok ds Ds (Al ++ X :: Ar) -> hd 0%nat Ds = 1%nat -> Forall left_iso Al -> Forall right_iso Ar ->
    suml (gwords ds) (fun w => cj (amp (Al ++ X :: Ar) w) * amp (Al ++ X :: Ar) w) = site_dot X X.
  Proof.
    intros H H1 HL HR.
    transitivity (tnorm (Al ++ X :: Ar) ds (hd 0%nat Ds)).
    { rewrite H1. unfold tnorm, gram. cbn [sumn]. rewrite <- (suml_ext R _ (fun w => 0 + cvec (Al ++ X :: Ar) w 0 * cj (cvec (Al ++ X :: Ar) w 0))).
      - rewrite suml_add, suml_0. reflexivity.
      - intros w _. rewrite !amp_cvec. ring. }
    rewrite (tnorm_left_part Al ds Ds (X :: Ar) H HL).
    pose proof (chain_ok_skipn Al ds Ds (X :: Ar) H) as H2.
    pose proof H2 as H3. apply chain_ok_cons_inv in H3.
    destruct H3 as (d & ds' & Dl & Dr & Ds' & E1 & E2 & Hd & HX & HAr). rewrite E1, E2 in *. cbn [hd].
    apply (tnorm_center d ds' Dl Dr Ds'); assumption.
  Qed.

  (* uniform physical dimension, boolean shape hypothesis as in Properties/C04.v *)
  Theorem mixed_canonical_norm_u d Ds (Al Ar : list site) (X : site) :
    mps_shapeb d Ds (Al ++ X :: Ar) = true -> Forall left_iso Al -> Forall right_iso Ar ->
    suml (words d (length Al + S (length Ar))) (fun w => cj (amp (Al ++ X :: Ar) w) * amp (Al ++ X :: Ar) w) = site_dot X X.
  Proof.
    intros H HL HR. apply mps_shapeb_ok in H. destruct H as (Hd & _ & Hc & H1).
    rewrite app_length in Hc. cbn [length] in Hc. rewrite <- gwords_repeat.
    apply (mixed_canonical_norm_g Al Ar X _ Ds Hc H1 HL HR).
  Qed.
  Theorem mixed_canonical_vdot_u d Ds (Al Ar : list site) (X : site) qd qD :
    mps_shapeb d Ds (Al ++ X :: Ar) = true -> Forall left_iso Al -> Forall right_iso Ar ->
    vdot (mkmps qd qD (Al ++ X :: Ar)) (mkmps qd qD (Al ++ X :: Ar)) = Some (site_dot X X).
  Proof.
    intros H HL HR. rewrite (vdot_spec_u R _ _ d Ds Ds) by (cbn [m_A]; auto). cbn [m_A].
    rewrite app_length. cbn [length]. rewrite (mixed_canonical_norm_u d Ds) by assumption. reflexivity.
  Qed.

  (* ---- zero-site (bond) form: the bond matrix C in front of a right-isometric tensor ---- *)
  Lemma site_dot_cmul_right_iso d Dc Dl Dr (C : mx) (A : site) :
    0 < d -> site_ok d Dl Dr A -> nr C = Dc -> nc C = Dl -> right_iso A ->
    site_dot (cmul_site C A) (cmul_site C A) = frob C C.
  Proof.
    intros Hd HA HrC HcC Hiso. destruct (site_ok_sdl _ _ _ _ _ Hd HA) as (E1 & E2 & E3).
    pose proof (cmul_site_ok R d Dc Dl Dr C A HA HrC) as HCA.
    destruct (site_ok_sdl _ _ _ _ _ Hd HCA) as (F1 & F2 & F3).
    unfold site_dot, frob. rewrite F1, F2, F3, HrC, HcC.
    transitivity (sumn d (fun s => sumn Dc (fun b => sumn Dr (fun c =>
       sumn Dl (fun a' => sumn Dl (fun a => (cj (get C b a) * get C b a') * (get (sel A s) a' c * cj (get (sel A s) a c)))))))).
    { apply sumn_ext; intros s Hs. apply sumn_ext; intros b Hb. apply sumn_ext; intros c Hc.
      rewrite (get_cmul_site R d Dc Dl Dr) by assumption.
      replace (cj (sumn Dl (fun k => get C b k * get (sel A s) k c)) * sumn Dl (fun k => get C b k * get (sel A s) k c))
        with (sumn Dl (fun k => get C b k * get (sel A s) k c) * cj (sumn Dl (fun k => get C b k * get (sel A s) k c))) by ring.
      rewrite sumn_mul_conj. apply sumn_ext; intros a' _. apply sumn_ext; intros a _. rewrite kconj_mul. ring. }
    (* reorder [s b c a' a] -> [b a' a s c] *)
    rewrite (sumn_exch R d Dc). apply sumn_ext; intros b Hb.
    transitivity (sumn Dl (fun a' => sumn Dl (fun a => sumn d (fun s => sumn Dr (fun c =>
                   (cj (get C b a) * get C b a') * (get (sel A s) a' c * cj (get (sel A s) a c))))))).
    { transitivity (sumn d (fun s => sumn Dl (fun a' => sumn Dl (fun a => sumn Dr (fun c =>
                   (cj (get C b a) * get C b a') * (get (sel A s) a' c * cj (get (sel A s) a c))))))).
      { apply sumn_ext; intros s _.
        rewrite (sumn_exch R Dr Dl). apply sumn_ext; intros a' _. apply (sumn_exch R Dr Dl). }
      rewrite (sumn_exch R d Dl). apply sumn_ext; intros a' _. apply (sumn_exch R d Dl). }
    transitivity (sumn Dl (fun a' => sumn Dl (fun a => (cj (get C b a) * get C b a') * dlt a' a))).
    { apply sumn_ext; intros a' Ha'. apply sumn_ext; intros a Ha.
      specialize (Hiso a' a). rewrite E1, E2, E3 in Hiso. rewrite <- Hiso by assumption.
      rewrite <- sumn_scal_l. apply sumn_ext; intros s _. rewrite <- sumn_scal_l. reflexivity. }
    apply sumn_ext; intros a' Ha'.
    rewrite (sumn_delta_sym Dl a' (fun a => cj (get C b a) * get C b a')) by exact Ha'. reflexivity.
  Qed.

  Lemma chain_ok_cmul (Al Ar : list site) (A : site) (C : mx) : forall ds Ds,
    chain_ok ds Ds (Al ++ A :: Ar) -> nr C = sdl A -> chain_ok ds Ds (Al ++ cmul_site C A :: Ar).
  Proof.
    induction Al as [|B Al IH]; intros ds Ds Hc HrC.
    - cbn [app] in *. apply chain_ok_cons_inv in Hc. destruct Hc as (d0 & ds0 & Dl0 & Dr0 & Ds0 & -> & -> & Hd0 & HA0 & HAr0).
      apply chain_ok_cons; [exact Hd0| |exact HAr0].
      destruct (site_ok_sdl _ _ _ _ _ Hd0 HA0) as (G1 & _ & _). apply (cmul_site_ok R d0 Dl0 Dl0 Dr0); [exact HA0|]. rewrite HrC. exact G1.
    - cbn [app] in *. apply chain_ok_cons_inv in Hc. destruct Hc as (d0 & ds0 & Dl0 & Dr0 & Ds0 & -> & -> & Hd0 & HB0 & Hrest).
      apply chain_ok_cons; [exact Hd0|exact HB0|]. apply IH; assumption.
  Qed.

  Theorem mixed_canonical_bond_norm_g (Al Ar : list site) (A : site) (C : mx) ds Ds :
    chain_ok ds Ds (Al ++ A :: Ar) -> hd 0%nat Ds = 1%nat -> nr C = sdl A -> nc C = sdl A ->
    Forall left_iso Al -> Forall right_iso (A :: Ar) ->
    suml (gwords ds) (fun w => cj (amp (Al ++ cmul_site C A :: Ar) w) * amp (Al ++ cmul_site C A :: Ar) w) = frob C C.
  Proof.
    intros Hc H1 HrC HcC HL HR. inversion HR as [|? ? HisoA HisoAr]; subst.
    pose proof (chain_ok_skipn Al _ Ds (A :: Ar) Hc) as H2. apply chain_ok_cons_inv in H2.
    destruct H2 as (d' & ds' & Dl & Dr & Ds' & E1 & E2 & Hd' & HA & HAr).
    destruct (site_ok_sdl _ _ _ _ _ Hd' HA) as (F1 & F2 & F3).
    pose proof (chain_ok_cmul Al Ar A C ds Ds Hc HrC) as Hshape.
    rewrite (mixed_canonical_norm_g Al Ar (cmul_site C A) ds Ds Hshape H1 HL HisoAr).
    apply (site_dot_cmul_right_iso d' Dl Dl Dr); try assumption; congruence.
  Qed.

  Theorem mixed_canonical_bond_norm_u d Ds (Al Ar : list site) (A : site) (C : mx) :
    mps_shapeb d Ds (Al ++ A :: Ar) = true -> nr C = sdl A -> nc C = sdl A ->
    Forall left_iso Al -> Forall right_iso (A :: Ar) ->
    suml (words d (length Al + S (length Ar)))
         (fun w => cj (amp (Al ++ cmul_site C A :: Ar) w) * amp (Al ++ cmul_site C A :: Ar) w) = frob C C.
  Proof.
    intros H HrC HcC HL HR. apply mps_shapeb_ok in H. destruct H as (Hd & _ & Hc & H1).
    rewrite app_length in Hc. cbn [length] in Hc. rewrite <- gwords_repeat.
    apply (mixed_canonical_bond_norm_g Al Ar A C _ Ds); assumption.
  Qed.
End Canon.

Arguments right_iso {R} A. Arguments left_iso {R} A. Arguments right_isob {R} A. Arguments left_isob {R} A.
