(* C20, all lattice sizes, nearest-neighbour tables without coincidences, part 2: one pass of the site loop.
   Invariant [PsiN n sk] with n sites to go: one node carries exactly the not yet started terms, every other half-chain is a
   started or finished term.  For EVERY certified cover of the site graph of such a state: its size is 1 at the last site and
   |T| + 2 before (the identity vertex, one vertex per two-site term, and the all-identity tail), and the half-chains after
   the pass satisfy the invariant again. *)
From Coq Require Import ZArith List Lia Bool.
From PT Require Import Base.Scalar Base.BigSum Model.OpGraph Model.Bipartite Model.FromOpchains Model.Compact
                       Proofs.FromOpchainsGraph Proofs.FromOpchainsPart Proofs.CompactCount Proofs.CompactAllLPart
                       Proofs.CompactAllLMatch Proofs.CompactAllLXXZBody Proofs.CompactAllLXXZSite Proofs.CompactAllLNNBody.
Import ListNotations.
Open Scope Z_scope.

Lemma index_of_lt {A} (eqb : A -> A -> bool) x : forall l i, index_of eqb x l = Some i -> (i < length l)%nat.
Proof.
  induction l as [|y l IH]; simpl; intros i H; [discriminate|]. destruct (eqb x y); [inversion H; lia|].
  destruct (index_of eqb x l) as [k|]; [|discriminate]. simpl in H. inversion H. specialize (IH k eq_refl). lia.
Qed.

Section SiteN.
  Variable R : cring.
  Variable T : list term.
  Variable S : list Z.
  Hypothesis H_T : forall t, In t T -> t1 t <> 0 /\ t2 t <> 0.
  Hypothesis H_S : forall o, In o S -> o <> 0.
  Hypothesis H_u : NoDup (map (fun t => (t1 t, tq t)) T).
  Hypothesis H_v : NoDup (map (fun t => (t2 t, tq t)) T).
  Hypothesis H_su : forall t o, In t T -> In o S -> ~ (t1 t = o /\ tq t = 0).
  Hypothesis H_sv : forall t o, In t T -> In o S -> ~ (t2 t = o /\ tq t = 0).
  Variables oa ob : Z.
  Hypothesis H_oa : In oa S.
  Hypothesis H_ob : In ob S.
  Hypothesis H_ab : oa <> ob.

  Notation FutN := (FutN T S).
  Notation LateN := (LateN T).

  Definition PsiN (n : nat) (sk : list hchain) : Prop :=
    exists nid0,
      (forall h, h_nidl h = nid0 -> (In h sk <-> FutN n (body h))) /\
      (forall h, In h sk -> h_nidl h <> nid0 -> LateN n (body h)).

  Variable p : part R.
  Variable sk : list hchain.
  Hypothesis PS : PSpec R p sk.
  Variable n : nat.                                   (* S n sites to go *)
  Variable nid0 : Z.
  Hypothesis HF : forall h, h_nidl h = nid0 -> (In h sk <-> FutN (Datatypes.S n) (body h)).
  Hypothesis HL : forall h, In h sk -> h_nidl h <> nid0 -> LateN (Datatypes.S n) (body h).

  Notation E := (E sk).
  Let vP := mkU sP nid0.
  Definition vT (t : term) : unode := mkU (sT t) nid0.
  Definition vO (o : Z) : unode := mkU (sO o) nid0.
  Definition va (t : term) : hchain := mkV (bp n (t2 t) (tq t)).
  Let vD := mkV (bd n).
  Definition offn (u : unode) : Prop := forall t, u <> mkU t nid0.

  Lemma EcasesN u v : E u v ->
    (u = vP /\ FutN n (body v)) \/ (exists t, In t T /\ (1 <= n)%nat /\ u = vT t /\ v = va t) \/
    (exists o, In o S /\ u = vO o /\ v = vD) \/ (offn u /\ v = vD).
  Proof.
    intros [h [Hh [Eu Ev]]]. rewrite split_u_sig in Eu. rewrite split_v_mkV in Ev. subst u v.
    destruct (Z.eq_dec (h_nidl h) nid0) as [En|Hne].
    - apply (HF h En) in Hh. rewrite En. destruct (FutCaseN T S n (body h) Hh) as [[A B]|[[t [Ht [Hn [A B]]]]|[o [Ho [A B]]]]].
      + left. rewrite A, body_mkV. auto.
      + right. left. exists t. unfold vT, va. rewrite A, B. auto.
      + right. right. left. exists o. unfold vO. rewrite A, B. auto.
    - right. right. right. split.
      + intros t Et. apply mkU_inj in Et. destruct Et as [_ Et]. contradiction.
      + rewrite (LateCaseN T n (body h) (HL h Hh Hne)). reflexivity.
  Qed.
  Lemma E_of_futN b : FutN (Datatypes.S n) b -> E (mkU (usig b) nid0) (mkV (tailb b)).
  Proof.
    intros Hb. exists (mkh (fst b) (snd b) nid0). split; [|split].
    - apply HF; [reflexivity|]. destruct b; exact Hb.
    - rewrite split_u_sig. destruct b; reflexivity.
    - rewrite split_v_mkV. destruct b; reflexivity.
  Qed.
  Lemma EN_P b : FutN n b -> E vP (mkV b).
  Proof. intros Hb. destruct (FutUpN T S n b Hb) as [b0 [A [B C]]]. pose proof (E_of_futN b0 A) as H. rewrite B, C in H. exact H. Qed.
  Lemma EN_T t : (1 <= n)%nat -> In t T -> E (vT t) (va t).
  Proof. intros Hn Ht. pose proof (E_of_futN _ (FutN_T T S n t Hn Ht)) as H. destruct (T2 n (t1 t) (t2 t) (tq t)) as [A B]. rewrite A, B in H. exact H. Qed.
  Lemma EN_O o : In o S -> E (vO o) vD.
  Proof. intros Ho. pose proof (E_of_futN _ (FutN_S T S n o Ho)) as H. destruct (T4 n o) as [A B]. rewrite A, B in H. exact H. Qed.
  Lemma EN_eta u v : E u v -> v = mkV (body v).
  Proof. intros [h [_ [_ Ev]]]. rewrite <- Ev, split_v_mkV, body_mkV. reflexivity. Qed.
  Lemma EN_last u v : n = 0%nat -> E u v -> v = vD.
  Proof.
    intros Hn [h [Hh [_ Ev]]]. rewrite split_v_mkV in Ev. subst v. unfold vD. f_equal.
    destruct (Z.eq_dec (h_nidl h) nid0) as [En|Hne].
    - apply (HF h En) in Hh. revert Hh. rewrite Hn. intros Hh. destruct (FutN_one T S _ Hh) as [o [_ Eb]]. rewrite Eb. apply (T4 0 o).
    - apply (LateCaseN T n). exact (HL h Hh Hne).
  Qed.

  (* distinct vertices *)
  Lemma T_nodup : NoDup T. Proof. exact (NoDup_of_map _ T H_u). Qed.
  Lemma vT_nodup : NoDup (map vT T).
  Proof.
    apply NoDup_map_inj; [exact T_nodup|]. intros x y Hx Hy Exy. unfold vT in Exy. apply mkU_inj in Exy. apply (sT_inj T H_u x y Hx Hy). apply Exy.
  Qed.
  Lemma va_nodup : NoDup (map va T).
  Proof.
    apply NoDup_map_inj; [exact T_nodup|]. intros x y Hx Hy Exy. unfold va in Exy. apply mkV_inj in Exy. exact (bp_inj T H_v n x y Hx Hy Exy).
  Qed.
  Lemma vP_not_T : ~ In vP (map vT T).
  Proof. intros H. apply in_map_iff in H. destruct H as [t [Et Ht]]. unfold vT, vP in Et. apply mkU_inj in Et. exact (sT_not_P T H_T t Ht (proj1 Et)). Qed.
  Lemma vO_not_T o : In o S -> ~ In (vO o) (map vT T).
  Proof. intros Ho H. apply in_map_iff in H. destruct H as [t [Et Ht]]. unfold vT, vO in Et. apply mkU_inj in Et. exact (sT_not_O T S H_su t o Ht Ho (proj1 Et)). Qed.
  Lemma vO_not_P o : In o S -> vO o <> vP.
  Proof. intros Ho H. unfold vO, vP in H. apply mkU_inj in H. exact (sO_not_P S H_S o Ho (proj1 H)). Qed.
  Lemma vD_not_a : ~ In vD (map va T).
  Proof. intros H. apply in_map_iff in H. destruct H as [t [Et Ht]]. unfold va, vD in Et. apply mkV_inj in Et. exact (bp_not_bd T H_T n t Ht Et). Qed.
  Lemma late_vertex v : v = mkV (body v) -> (v = vD \/ In v (map va T)) -> LateN n (body v).
  Proof.
    intros Ev [H|H].
    - right. rewrite H. unfold vD. apply body_mkV.
    - apply in_map_iff in H. destruct H as [t [Et Ht]]. left. exists t. split; [exact Ht|]. rewrite <- Et. unfold va. apply body_mkV.
  Qed.

  (* classification of the edges *)
  Definition clsN (u : unode) : nat :=
    if ueqb u vP then 0%nat else
    match index_of unode_eqb u (map vT T) with Some k => Datatypes.S k | None => Datatypes.S (length T) end.
  Lemma clsN_lt u : (clsN u < length T + 2)%nat.
  Proof.
    unfold clsN. destruct (ueqb u vP); [lia|]. destruct (index_of unode_eqb u (map vT T)) as [k|] eqn:Ei; [|lia].
    apply index_of_lt in Ei. rewrite map_length in Ei. lia.
  Qed.
  Lemma clsN_same u v u' v' : E u v -> E u' v' -> clsN u = clsN u' -> u = u' \/ v = v'.
  Proof.
    intros H1 H2. unfold clsN.
    destruct (ueqb_spec u vP) as [e|NP], (ueqb_spec u' vP) as [e'|NP'].
    - intros _. left. congruence.
    - destruct (index_of unode_eqb u' (map vT T)); discriminate.
    - destruct (index_of unode_eqb u (map vT T)); discriminate.
    - destruct (index_of unode_eqb u (map vT T)) as [k|] eqn:Ei, (index_of unode_eqb u' (map vT T)) as [k'|] eqn:Ei'.
      + intros Ek. inversion Ek; subst k'. left.
        apply (index_of_Some unode_eqb u _ (unode_eqb_eq u)) in Ei. apply (index_of_Some unode_eqb u' _ (unode_eqb_eq u')) in Ei'. congruence.
      + intros Ek. inversion Ek; subst k. apply index_of_lt in Ei. rewrite map_length in Ei. lia.
      + intros Ek. inversion Ek; subst k'. apply index_of_lt in Ei'. rewrite map_length in Ei'. lia.
      + intros _. right.
        assert (Hto : forall x y, E x y -> x <> vP -> index_of unode_eqb x (map vT T) = None -> y = vD).
        { intros x y HE Hx Hi. apply (index_of_None_notin unode_eqb x _ (fun z Hz => eq_ind x (fun w => unode_eqb x w = true) (unode_eqb_refl x) z Hz)) in Hi.
          destruct (EcasesN x y HE) as [[A _]|[[t [Ht [_ [A _]]]]|[[o [_ [_ A]]]|[_ A]]]]; [contradiction| |exact A|exact A].
          exfalso. apply Hi. rewrite A. apply in_map. exact Ht. }
        rewrite (Hto u v H1 NP Ei), (Hto u' v' H2 NP' Ei'). reflexivity.
  Qed.

  (* the value matching through (vP, v), v a not yet started term *)
  Definition MN (v : hchain) : list (unode * hchain) := (vP, v) :: (vO oa, vD) :: map (fun t => (vT t, va t)) T.
  Lemma MN_ok v : (1 <= n)%nat -> FutN n (body v) -> v = mkV (body v) ->
    (forall uv, In uv (MN v) -> E (fst uv) (snd uv)) /\ NoDup (map fst (MN v)) /\ NoDup (map snd (MN v)) /\
    length (MN v) = (length T + 2)%nat /\ (forall x, In x (map snd (MN v)) -> x = v \/ x = vD \/ In x (map va T)).
  Proof.
    intros Hn Hv Ev.
    assert (Hnl : ~ (v = vD \/ In v (map va T))) by (intros H; exact (FutN_not_late T S H_T H_S H_sv n _ Hv (late_vertex v Ev H))).
    assert (Ef : map fst (MN v) = vP :: vO oa :: map vT T) by (unfold MN; cbn [map fst]; rewrite map_map; reflexivity).
    assert (Es : map snd (MN v) = v :: vD :: map va T) by (unfold MN; cbn [map snd]; rewrite map_map; reflexivity).
    split; [|split; [|split; [|split]]].
    - intros uv [<-|[<-|Hin]]; cbn [fst snd]; [rewrite Ev; apply EN_P; exact Hv|apply EN_O; exact H_oa|].
      apply in_map_iff in Hin. destruct Hin as [t [<- Ht]]. cbn [fst snd]. apply EN_T; assumption.
    - rewrite Ef. constructor; [|constructor; [apply vO_not_T; exact H_oa|exact vT_nodup]].
      intros [H|H]; [exact (vO_not_P oa H_oa H)|exact (vP_not_T H)].
    - rewrite Es. constructor; [|constructor; [exact vD_not_a|exact va_nodup]]. intros [H|H]; apply Hnl; [left; congruence|right; exact H].
    - unfold MN. cbn [length]. rewrite map_length. lia.
    - intros x Hx. rewrite Es in Hx. cbn [In] in Hx. destruct Hx as [H|[H|H]]; auto.
  Qed.

  (* ---- certified cover ---- *)
  Variables (uc vc : list nat) (mc : list (nat * nat)).
  Hypothesis cov : forall e, In e (p_edges p) -> In (fst e) uc \/ In (snd e) vc.
  Hypothesis mc_es : incl mc (p_edges p).
  Hypothesis mc_u : NoDup (map fst mc).
  Hypothesis mc_v : NoDup (map snd mc).
  Hypothesis mc_len : length mc = (length uc + length vc)%nat.
  Hypothesis uc_nd : NoDup uc.

  Definition dszN (m : nat) : nat := match m with O => 0%nat | Datatypes.S O => 1%nat | _ => (length T + 2)%nat end.

  Theorem site_sizeN : (length uc + length vc)%nat = dszN (Datatypes.S n).
  Proof.
    destruct (Nat.eq_dec n 0) as [Hn0|Hn0].
    - replace (dszN (Datatypes.S n)) with 1%nat by (rewrite Hn0; reflexivity).
      apply (cover_size R p sk PS uc vc mc cov mc_es mc_u mc_v mc_len (fun _ _ => 0%nat) 1%nat [(vO oa, vD)]).
      + intros; lia.
      + intros u v u' v' H1 H2 _. right. rewrite (EN_last u v Hn0 H1), (EN_last u' v' Hn0 H2). reflexivity.
      + intros uv [<-|[]]. apply EN_O. exact H_oa.
      + repeat constructor; intros [].
      + repeat constructor; intros [].
      + reflexivity.
    - replace (dszN (Datatypes.S n)) with (length T + 2)%nat by (destruct n as [|n0]; [lia|reflexivity]).
      destruct (MN_ok (mkV (b1 n 0 oa)) ltac:(lia)) as [A [B [C [D _]]]].
      { rewrite body_mkV. apply FutN_S'; [lia|exact H_oa]. }
      { rewrite body_mkV. reflexivity. }
      apply (cover_size R p sk PS uc vc mc cov mc_es mc_u mc_v mc_len (fun u _ => clsN u) (length T + 2)%nat (MN (mkV (b1 n 0 oa)))); auto.
      + intros u v _. apply clsN_lt.
      + intros u v u' v'. apply clsN_same.
  Qed.

  Notation UCu := (UCu R p uc).
  Notation VCv := (VCv R p vc).
  Notation atU := (atU R p).
  Notation atV := (atV R p).

  Lemma MN_len v : (1 <= n)%nat -> length (MN v) = (length uc + length vc)%nat.
  Proof.
    intros Hn. rewrite site_sizeN. unfold MN. cbn [length]. rewrite map_length. destruct n as [|n0]; [lia|]. cbn [dszN]. lia.
  Qed.

  Lemma UC_PN : (1 <= n)%nat -> UCu vP.
  Proof.
    intros Hn. set (la := mkV (b1 n 0 oa)). set (lb := mkV (b1 n 0 ob)).
    assert (Fa : FutN n (body la)) by (unfold la; rewrite body_mkV; apply FutN_S'; assumption).
    assert (Fb : FutN n (body lb)) by (unfold lb; rewrite body_mkV; apply FutN_S'; assumption).
    assert (H1 : E vP la) by (apply EN_P; rewrite <- (body_mkV (b1 n 0 oa)); exact Fa).
    assert (H2 : E vP lb) by (apply EN_P; rewrite <- (body_mkV (b1 n 0 ob)); exact Fb).
    destruct (cover_E R p sk PS uc vc cov vP la H1) as [HU|HV1]; [exact HU|].
    destruct (cover_E R p sk PS uc vc cov vP lb H2) as [HU|HV2]; [exact HU|]. exfalso.
    destruct (MN_ok la Hn Fa) as [A [B [C [_ F]]]]; [unfold la; rewrite body_mkV; reflexivity|].
    destruct (vcover_partner R p sk PS uc vc mc cov mc_len (MN la) A B C (MN_len la Hn) lb HV2) as [u [Hu _]].
    assert (Hs : In lb (map snd (MN la))) by (apply in_map_iff; exists (u, lb); auto).
    destruct (F lb Hs) as [El|Hl].
    - unfold la, lb in El. apply mkV_inj, b1_inj in El. congruence.
    - apply (FutN_not_late T S H_T H_S H_sv n _ Fb). apply late_vertex; [unfold lb; rewrite body_mkV; reflexivity|exact Hl].
  Qed.

  Lemma VC_notP v : (1 <= n)%nat -> VCv v -> E vP v -> False.
  Proof.
    intros Hn HV HE.
    assert (Hf : FutN n (body v)).
    { destruct (EcasesN vP v HE) as [[_ A]|[[t [Ht [_ [A _]]]]|[[o [Ho [A _]]]|[A _]]]]; [exact A| | |].
      - exfalso. apply vP_not_T. rewrite A. apply in_map. exact Ht.
      - exfalso. exact (vO_not_P o Ho (eq_sym A)).
      - exfalso. exact (A sP eq_refl). }
    destruct (MN_ok v Hn Hf (EN_eta vP v HE)) as [A [B [C _]]].
    destruct (vcover_partner R p sk PS uc vc mc cov mc_len (MN v) A B C (MN_len v Hn) v HV) as [u [Hu Hnu]].
    assert (Eu : (u, v) = (vP, v)) by (apply (NoDup_map_snd_inj (MN v)); auto; left; reflexivity).
    inversion Eu; subst u. apply Hnu. apply UC_PN. exact Hn.
  Qed.

  Theorem site_nextN : (1 <= n)%nat -> forall nid,
    PsiN n (nextU R p nid uc ++ nextV R p (nid + Z.of_nat (length uc)) vc).
  Proof.
    intros Hn nid. set (sk' := nextU R p nid uc ++ nextV R p (nid + Z.of_nat (length uc)) vc).
    assert (HinS : forall h', In h' sk' <->
      (exists a i u v, nth_error uc a = Some i /\ atU i u /\ E u v /\ h' = reh v (nid + Z.of_nat a)) \/
      (exists b j v, nth_error vc b = Some j /\ atV j v /\ h' = reh v (nid + Z.of_nat (length uc) + Z.of_nat b))).
    { intros h'. unfold sk'. rewrite in_app_iff, (nextU_val R p sk PS uc nid h'),
        (nextV_val R p sk PS uc vc mc cov mc_es mc_u mc_v mc_len (nid + Z.of_nat (length uc)) h'). reflexivity. }
    assert (Hpos : forall a i, nth_error uc a = Some i -> (a < length uc)%nat) by (intros a i H; apply nth_error_Some; congruence).
    assert (HlateU : forall u v, E u v -> u <> vP -> LateN n (body v)).
    { intros u v HE Hne. apply (late_vertex v (EN_eta u v HE)).
      destruct (EcasesN u v HE) as [[A _]|[[t [Ht [_ [_ A]]]]|[[o [_ [_ A]]]|[_ A]]]]; [contradiction| |left; exact A|left; exact A].
      right. rewrite A. apply in_map. exact Ht. }
    assert (HlateV : forall j v, In j vc -> atV j v -> LateN n (body v)).
    { intros j v Hj Aj. assert (HV : VCv v) by (exists j; auto).
      assert (Hv : In v (p_v p)) by (eapply nth_error_In; exact Aj).
      apply (ps_v R p sk PS) in Hv. destruct Hv as [h [Hh Ev]].
      assert (HE : E (split_u h) v) by (exists h; auto).
      destruct (unode_eqb (split_u h) vP) eqn:Eq.
      - apply unode_eqb_eq in Eq. rewrite Eq in HE. exfalso. exact (VC_notP v Hn HV HE).
      - apply (HlateU _ _ HE). intros Ec. rewrite Ec, unode_eqb_refl in Eq. discriminate. }
    destruct (UC_PN Hn) as [ip [Hin Aip]].
    destruct (In_nth_error _ _ Hin) as [ap Hap]. pose proof (Hpos _ _ Hap) as Hapl.
    exists (nid + Z.of_nat ap). split.
    - intros h' Hnid. split.
      + intros Hh'. apply HinS in Hh'. destruct Hh' as [[a [i [u [v [Ha [Ai [HE Eh]]]]]]]|[b [j [v [Hb [Aj Eh]]]]]].
        * rewrite Eh, nidl_reh in Hnid. assert (a = ap) by lia. subst a. rewrite Hap in Ha. inversion Ha; subst i.
          rewrite (atU_fun R p _ _ _ Ai Aip) in HE. rewrite Eh, body_reh.
          destruct (EcasesN vP v HE) as [[_ A]|[[t [Ht [_ [A _]]]]|[[o [Ho [A _]]]|[A _]]]]; [exact A| | |].
          -- exfalso. apply vP_not_T. rewrite A. apply in_map. exact Ht.
          -- exfalso. exact (vO_not_P o Ho (eq_sym A)).
          -- exfalso. exact (A sP eq_refl).
        * rewrite Eh, nidl_reh in Hnid. lia.
      + intros Hf. apply HinS. left. exists ap, ip, vP, (mkV (body h')). split; [exact Hap|]. split; [exact Aip|]. split; [apply EN_P; exact Hf|].
        rewrite <- Hnid. apply reh_eta. rewrite body_mkV. reflexivity.
    - intros h' Hh' Hne. apply HinS in Hh'. destruct Hh' as [[a [i [u [v [Ha [Ai [HE Eh]]]]]]]|[b [j [v [Hb [Aj Eh]]]]]].
      + rewrite Eh, body_reh. apply (HlateU u v HE). intros Eu. rewrite Eu in Ai.
        pose proof (atU_inj R p sk PS _ _ _ Ai Aip) as Ei. subst i.
        assert (a = ap). { apply (proj1 (NoDup_nth_error uc) uc_nd); [eapply Hpos; exact Ha|congruence]. }
        subst a. apply Hne. rewrite Eh, nidl_reh. reflexivity.
      + rewrite Eh, body_reh. apply (HlateV j v); [eapply nth_error_In; exact Hb|exact Aj].
  Qed.
End SiteN.
