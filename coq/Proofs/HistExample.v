(* Concrete data for the non-vacuity examples of Properties/C02.v: a pool over Z[i] with non-trivial U(1) charges
   (qd = [0; 1], L = 2) and a history of ring operations. *)
From Coq Require Import ZArith List Bool.
From PT Require Import Base.Scalar Base.BigSum Base.Mx Model.Tensor Model.MPSOps Model.History.
Import ListNotations.
Open Scope Z_scope.

Definition gm := @mkmx GIring.
(* psi: bond charges [0] [0;1] [1];  phi: bond charges [0] [1] [1] *)
Definition ex_psi : mps GIring :=
  mkmps [0; 1] [[0]; [0; 1]; [1]]
    [ [gm 1 2 [[(2, 0); (0, 0)]]; gm 1 2 [[(0, 0); (1, 1)]]];
      [gm 2 1 [[(0, 0)]; [(3, 0)]]; gm 2 1 [[(0, -1)]; [(0, 0)]]] ].
Definition ex_phi : mps GIring :=
  mkmps [0; 1] [[0]; [1]; [1]]
    [ [gm 1 1 [[(0, 0)]]; gm 1 1 [[(5, 0)]]];
      [gm 1 1 [[(-1, 0)]]; gm 1 1 [[(0, 0)]]] ].
(* an operator with bond charges [0] [0;1] [0]: identity plus a hopping-like term *)
Definition ex_W : mpo GIring :=
  mkmpo [0; 1] [[0]; [0; 1]; [0]]
    [ [[gm 1 2 [[(1, 0); (0, 0)]]; gm 1 2 [[(0, 0); (0, 0)]]];
       [gm 1 2 [[(0, 0); (2, 0)]]; gm 1 2 [[(1, 0); (0, 0)]]]];
      [[gm 2 1 [[(1, 0)]; [(0, 0)]]; gm 2 1 [[(0, 0)]; [(3, 0)]]];
       [gm 2 1 [[(0, 0)]; [(0, 0)]]; gm 2 1 [[(1, 0)]; [(0, 0)]]]] ].
(* psi with one entry moved to a position that violates the charge rule *)
Definition ex_bad : mps GIring :=
  mkmps [0; 1] [[0]; [0; 1]; [1]]
    [ [gm 1 2 [[(2, 0); (7, 0)]]; gm 1 2 [[(0, 0); (1, 1)]]];
      [gm 2 1 [[(0, 0)]; [(3, 0)]]; gm 2 1 [[(0, -1)]; [(0, 0)]]] ].

Definition ex_pool : state GIring := mkstate [ex_psi; ex_phi] [ex_W].
(* states[2] = psi + (2-i) phi;  ops[1] = W @ W;  states[3] = (W@W) states[2];  states[0] = states[3] - states[2] fails?  no:
   both have boundary charges [0] and [1] (the operator's boundary charges are 0), so the difference exists;
   ops[2] = identity;  ops[1] = ops[1] + 3 ops[2];  states[1] = ops[1] states[0] *)
Definition ex_ops : list (op GIring) :=
  [ @AddMps GIring 2%nat 0%nat 1%nat ((2, -1) : GIring); MulMpo 1%nat 0%nat 0%nat; Apply 3%nat 1%nat 2%nat; SubMps 0%nat 3%nat 2%nat;
    Identity 2%nat [0; 1] 2%nat ((1, 0) : GIring); AddMpo 1%nat 1%nat 2%nat ((3, 0) : GIring); Apply 1%nat 1%nat 0%nat ].

Fixpoint run_opt {R : cring} (O : oracles R) (ops : list (op R)) (s : state R) : option (state R) :=
  match ops with
  | [] => Some s
  | o :: r => match step_opt O s o with Some s' => run_opt O r s' | None => None end
  end.
Definition mps_nonzero (p : mps GIring) : bool :=
  existsb (fun A => existsb (fun M => existsb (existsb (fun x => negb (keqb GIring x (k0 GIring)))) (dat M)) A) (m_A p).
