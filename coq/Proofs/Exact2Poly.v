(* C09 exactness, two-site -- the contracts of Proofs/Exact2Defs.v / Exact2Global.v hold for the first-order POLYNOMIAL solver
     kexp_p(t) X = X + t * apply_local_hamiltonian BL BR W X
   (the model's own local operator; the SAME function for the one-site and for the merged two-site problem, as in the code), for every
   operator chain, over any cring:
     (IL2), (IR2)      unconditionally  (from the operator identities of Proofs/Exact2Local.v, linearity of merge);
     solver2_natural   for every G with  G t v = v + t * Hdense v  (only linearity of E is used);
     (F), (F2)         whenever the local operator is NILPOTENT of order 2 on the shapes of the profile (then X + t H X = exp(tH) X).
   Used by the non-vacuity example (Proofs/Exact2Example.v), where H = sigma+ x sigma+ x sigma+ x sigma+. *)
From Coq Require Import ZArith Arith List Lia Ring Setoid Bool.
From PT Require Import Base.Scalar Base.BigSum Base.Mx Model.Tensor Model.Operation Model.Sweeps
  Proofs.OperationEntries Proofs.OperationTwoSite Proofs.SweepsCanon Proofs.SweepsGauge
  Proofs.ReverseDefs Proofs.ReverseMx Proofs.ReverseGauge Proofs.ReverseLocal Proofs.ReverseFwd
  Proofs.ExactDefs Proofs.ExactMx Proofs.ExactLocal Proofs.ExactExample Proofs.ExactGlobalDefs
  Proofs.Exact2Defs Proofs.Exact2Local Proofs.Exact2Global.
Import ListNotations.
Open Scope nat_scope.

Section Poly.
  Variable R : cring.
  Add Ring Rring_exact2_poly : (k_rt R).
  Infix "*" := (kmul R).
  Infix "+" := (kadd R).
  Notation site := (site R).
  Notation osite := (osite R).
  Notation env := (env R).
  Notation mx := (mx R).
  Notation mrg := (@c04_merge_site R).
  Notation alh := (@apply_local_hamiltonian R).
  Notation stepL := (@contraction_operator_step_left R).
  Notation stepR := (@contraction_operator_step_right R).

  Definition kexp_p : kexp_t R := fun _ BL BR W X t => add_site X (scale_site t (alh BL BR W X)).

  (* ---------------- X + c Y on site tensors ---------------- *)
  Lemma sel_add_scale dd Dl Dr (X Y : site) c u : wsite dd Dl Dr X -> wsite dd Dl Dr Y -> (u < dd)%nat ->
    sel (add_site X (scale_site c Y)) u = addmx (sel X u) (scalemx c (sel Y u)).
  Proof.
    intros HX HY Hu. unfold add_site. rewrite (proj1 HX). rewrite (sel_tabl R dd) by exact Hu.
    unfold scale_site. rewrite sel_map_w by (rewrite (proj1 HY); exact Hu). reflexivity.
  Qed.
  Lemma wsite_add_scale dd Dl Dr (X Y : site) c : wsite dd Dl Dr X -> wsite dd Dl Dr (add_site X (scale_site c Y)).
  Proof. intros HX. apply (wsite_add2 R dd Dl Dr). exact HX. Qed.
  Lemma get_add_scale dd Dl Dr (X Y : site) c u a b : wsite dd Dl Dr X -> wsite dd Dl Dr Y -> (u < dd)%nat -> (a < Dl)%nat -> (b < Dr)%nat ->
    get (sel (add_site X (scale_site c Y)) u) a b = get (sel X u) a b + c * get (sel Y u) a b.
  Proof.
    intros HX HY Hu Ha Hb. rewrite (sel_add_scale dd Dl Dr) by assumption.
    destruct (wsite_sel R _ _ _ _ u HX Hu) as (_ & x1 & x2). destruct (wsite_sel R _ _ _ _ u HY Hu) as (_ & y1 & y2).
    rewrite get_addmx by lia. rewrite get_scalemx by lia. reflexivity.
  Qed.

  (* ---------------- the local operator is linear ---------------- *)
  Lemma get_alh_lin dd Dl Dr Dwl Dwr (BL BR : env) (W : osite) (X Y : site) c u a b :
    (0 < dd)%nat -> (0 < Dwl)%nat -> (0 < Dwr)%nat -> osite_ok dd Dwl Dwr W -> wenv Dwl Dl Dl BL -> wenv Dwr Dr Dr BR ->
    wsite dd Dl Dr X -> wsite dd Dl Dr Y -> (u < dd)%nat -> (a < Dl)%nat -> (b < Dr)%nat ->
    get (sel (alh BL BR W (add_site X (scale_site c Y))) u) a b =
    get (sel (alh BL BR W X) u) a b + c * get (sel (alh BL BR W Y) u) a b.
  Proof.
    intros Hd Hwl Hwr HW HBL HBR HX HY Hu Ha Hb.
    assert (HZ : wsite dd Dl Dr (add_site X (scale_site c Y))) by (apply wsite_add_scale; exact HX).
    rewrite !(mform_local_hamiltonian R dd Dl Dr Dl Dr Dwl Dwr) by (try assumption; try apply wsite_ok; try apply wenv_ok; assumption).
    rewrite <- sumn_scal_l, <- sumn_add. apply sumn_ext; intros t Ht.
    rewrite <- sumn_scal_l, <- sumn_add. apply sumn_ext; intros wl Hwl'.
    rewrite <- sumn_scal_l, <- sumn_add. apply sumn_ext; intros wr Hwr'.
    rewrite (sel_add_scale dd Dl Dr) by assumption.
    destruct (wsite_sel R _ _ _ _ t HX Ht) as (x0 & x1 & x2). destruct (wsite_sel R _ _ _ _ t HY Ht) as (y0 & y1 & y2).
    destruct (wenv_esel R _ _ _ _ wl HBL Hwl') as (l0 & l1 & l2). destruct (wenv_esel R _ _ _ _ wr HBR Hwr') as (r0 & r1 & r2).
    rewrite (addmx_scale_mul_r R (esel BR wr) (sel X t) (sel Y t) c) by congruence.
    rewrite (addmx_scale_mul_l R (trmx (esel BL wl))) by shp.
    rewrite get_addmx by shp. rewrite get_scalemx by shp. ring.
  Qed.

  Lemma wsite_kexp_p dd Dl Dr p (BL BR : env) (W : osite) (X : site) t : wsite dd Dl Dr X -> wsite dd Dl Dr (kexp_p p BL BR W X t).
  Proof. intros HX. unfold kexp_p. apply wsite_add_scale. exact HX. Qed.

  (* flow law of one local problem whose operator squares to zero on X *)
  Lemma poly_flow_local dd Dl Dr Dwl Dwr (BL BR : env) (W : osite) (X : site) s t p p' p'' :
    (0 < dd)%nat -> (0 < Dwl)%nat -> (0 < Dwr)%nat -> osite_ok dd Dwl Dwr W -> wenv Dwl Dl Dl BL -> wenv Dwr Dr Dr BR -> wsite dd Dl Dr X ->
    (forall u a b, (u < dd)%nat -> (a < Dl)%nat -> (b < Dr)%nat -> get (sel (alh BL BR W (alh BL BR W X)) u) a b = k0 R) ->
    wsite dd Dl Dr (kexp_p p BL BR W X t) /\ kexp_p p BL BR W X (k0 R) = X /\
    kexp_p p' BL BR W (kexp_p p BL BR W X s) t = kexp_p p'' BL BR W X (kadd R s t).
  Proof.
    intros Hd Hwl Hwr HW HBL HBR HX Hnil.
    assert (HA : wsite dd Dl Dr (alh BL BR W X)) by (apply (wsite_alh R dd Dl Dr Dwl Dwr); assumption).
    split; [apply wsite_kexp_p; exact HX|]. split.
    - unfold kexp_p. apply (wsite_ext R dd Dl Dr); [apply wsite_add_scale; exact HX|exact HX|].
      intros u a b Hu Ha Hb. rewrite (get_add_scale dd Dl Dr) by assumption. ring.
    - unfold kexp_p. apply (wsite_ext R dd Dl Dr); [apply wsite_add_scale; apply wsite_add_scale; exact HX|apply wsite_add_scale; exact HX|].
      intros u a b Hu Ha Hb.
      assert (HA2 : wsite dd Dl Dr (alh BL BR W (add_site X (scale_site s (alh BL BR W X))))).
      { apply (wsite_alh R dd Dl Dr Dwl Dwr); assumption. }
      rewrite (get_add_scale dd Dl Dr) by (try assumption; apply wsite_add_scale; exact HX).
      rewrite (get_alh_lin dd Dl Dr Dwl Dwr) by assumption.
      rewrite !(get_add_scale dd Dl Dr) by assumption. rewrite Hnil by assumption. ring.
  Qed.

  (* ---------------- merge is linear in each factor ---------------- *)
  Lemma mrg_lin_r d Dl k Dr (Q C Y : site) c : (0 < d)%nat -> wsite d Dl k Q -> wsite d k Dr C -> wsite d k Dr Y ->
    mrg Q (add_site C (scale_site c Y)) = add_site (mrg Q C) (scale_site c (mrg Q Y)).
  Proof.
    intros Hd HQ HC HY.
    assert (HZ : wsite d k Dr (add_site C (scale_site c Y))) by (apply wsite_add_scale; exact HC).
    assert (H1 : wsite (d * d) Dl Dr (mrg Q C)) by (apply (wsite_merge R d Dl k Dr); assumption).
    assert (H2 : wsite (d * d) Dl Dr (mrg Q Y)) by (apply (wsite_merge R d Dl k Dr); assumption).
    apply (wsite_ext R (d * d) Dl Dr); [apply (wsite_merge R d Dl k Dr); assumption|apply wsite_add_scale; exact H1|].
    intros u a b Hu Ha Hb. destruct (divmod_lt d u Hd Hu) as (Eu & Hs & Hs1).
    rewrite (get_add_scale (d * d) Dl Dr) by assumption. rewrite Eu.
    rewrite !(merge_sel R d) by (try assumption; try (rewrite (proj1 HQ); exact Hs); try apply (proj1 HZ); try apply (proj1 HC); apply (proj1 HY)).
    rewrite (sel_add_scale d k Dr) by assumption.
    destruct (wsite_sel R _ _ _ _ (u / d) HQ Hs) as (q0 & q1 & q2).
    destruct (wsite_sel R _ _ _ _ (u mod d) HC Hs1) as (c0 & c1 & c2). destruct (wsite_sel R _ _ _ _ (u mod d) HY Hs1) as (y0 & y1 & y2).
    rewrite (addmx_scale_mul_l R (sel Q (u / d))) by congruence.
    rewrite get_addmx by shp. rewrite get_scalemx by shp. reflexivity.
  Qed.
  Lemma mrg_lin_l d Dl k Dr (C Y B : site) c : (0 < d)%nat -> wsite d Dl k C -> wsite d Dl k Y -> wsite d k Dr B ->
    mrg (add_site C (scale_site c Y)) B = add_site (mrg C B) (scale_site c (mrg Y B)).
  Proof.
    intros Hd HC HY HB.
    assert (HZ : wsite d Dl k (add_site C (scale_site c Y))) by (apply wsite_add_scale; exact HC).
    assert (H1 : wsite (d * d) Dl Dr (mrg C B)) by (apply (wsite_merge R d Dl k Dr); assumption).
    assert (H2 : wsite (d * d) Dl Dr (mrg Y B)) by (apply (wsite_merge R d Dl k Dr); assumption).
    apply (wsite_ext R (d * d) Dl Dr); [apply (wsite_merge R d Dl k Dr); assumption|apply wsite_add_scale; exact H1|].
    intros u a b Hu Ha Hb. destruct (divmod_lt d u Hd Hu) as (Eu & Hs & Hs1).
    rewrite (get_add_scale (d * d) Dl Dr) by assumption. rewrite Eu.
    rewrite !(merge_sel R d) by (try assumption; try apply (proj1 HB); try (rewrite (proj1 HZ); exact Hs); try (rewrite (proj1 HC); exact Hs); rewrite (proj1 HY); exact Hs).
    rewrite (sel_add_scale d Dl k) by assumption.
    destruct (wsite_sel R _ _ _ _ (u mod d) HB Hs1) as (q0 & q1 & q2).
    destruct (wsite_sel R _ _ _ _ (u / d) HC Hs) as (c0 & c1 & c2). destruct (wsite_sel R _ _ _ _ (u / d) HY Hs) as (y0 & y1 & y2).
    rewrite (addmx_scale_mul_r R (sel B (u mod d))) by congruence.
    rewrite get_addmx by shp. rewrite get_scalemx by shp. reflexivity.
  Qed.

  (* ---------------- the contracts ---------------- *)
  Section Contracts.
    Variable Hs : list osite.
    Variable d : nat.
    Variables Ds DW : nat -> nat.
    Notation L := (length Hs).
    Hypothesis Hd : 0 < d.
    Hypothesis HW : forall j, j < L -> osite_ok d (DW j) (DW (S j)) (nth j Hs []).
    Hypothesis HWst : forall j, j < L -> osite_struct d (nth j Hs []).
    Hypothesis HDW : forall j, 0 < DW j.
    Notation Wat i := (nth i Hs []).
    Notation W2at i := (c04_merge_osite (nth i Hs []) (nth (S i) Hs [])).

    Lemma W2_ok i : S i < L -> osite_ok (d * d) (DW i) (DW (S (S i))) (W2at i).
    Proof. intros Hi. apply (merge_osite_ok R d d (DW i) (DW (S i)) (DW (S (S i)))); try assumption; try (apply HWst; lia); apply HW; lia. Qed.

    Theorem poly_IL2 : intertwine2_left Hs d Ds DW kexp_p.
    Proof.
      intros i p p' BL BR Q C t Hi HQ [_ Hco] HC HBL HBR. unfold kexp_p.
      rewrite (alh2_intertwine_left R d (Ds i) (Ds (S i)) (Ds (S (S i))) (DW i) (DW (S i)) (DW (S (S i)))) by
        (try assumption; try apply HDW; try (apply HWst; lia); apply HW; lia).
      symmetry. apply (mrg_lin_r d (Ds i) (Ds (S i)) (Ds (S (S i)))); try assumption.
      apply (wsite_alh R d (Ds (S i)) (Ds (S (S i))) (DW (S i)) (DW (S (S i)))); try assumption; try apply HDW; [apply HW; lia|].
      apply (wenv_stepL R Hs d Ds DW Hd HW); [lia|exact HQ].
    Qed.

    Theorem poly_IR2 : intertwine2_right Hs d Ds DW kexp_p.
    Proof.
      intros i p p' BL BR C B t Hi HC HB [_ Hco] HBL HBR. unfold kexp_p.
      rewrite (alh2_intertwine_right R d (Ds i) (Ds (S i)) (Ds (S (S i))) (DW i) (DW (S i)) (DW (S (S i)))) by
        (try assumption; try apply HDW; try (apply HWst; lia); apply HW; lia).
      symmetry. apply (mrg_lin_l d (Ds i) (Ds (S i)) (Ds (S (S i)))); try assumption.
      apply (wsite_alh R d (Ds i) (Ds (S i)) (DW i) (DW (S i))); try assumption; try apply HDW; [apply HW; lia|].
      apply (wenv_stepR R Hs d Ds DW Hd HW); [lia|exact HB].
    Qed.

    Theorem poly_intertwines : intertwine2_left Hs d Ds DW kexp_p /\ intertwine2_right Hs d Ds DW kexp_p.
    Proof. split; [exact poly_IL2|exact poly_IR2]. Qed.

    Theorem poly_flowH :
      (forall i BL BR X u a b, i < L -> wsite d (Ds i) (Ds (S i)) X -> wenv (DW i) (Ds i) (Ds i) BL -> wenv (DW (S i)) (Ds (S i)) (Ds (S i)) BR ->
         u < d -> a < Ds i -> b < Ds (S i) -> get (sel (alh BL BR (Wat i) (alh BL BR (Wat i) X)) u) a b = k0 R) ->
      kexp_flowH Hs d Ds DW kexp_p.
    Proof.
      intros Hnil i p p' p'' BL BR A s t Hi HA HBL HBR.
      apply (poly_flow_local d (Ds i) (Ds (S i)) (DW i) (DW (S i))); try assumption; try apply HDW; [apply HW; exact Hi|].
      intros u a b Hu Ha Hb. apply Hnil; assumption.
    Qed.

    Theorem poly_flow2H :
      (forall i BL BR X u a b, S i < L -> wsite (d * d) (Ds i) (Ds (S (S i))) X -> wenv (DW i) (Ds i) (Ds i) BL ->
         wenv (DW (S (S i))) (Ds (S (S i))) (Ds (S (S i))) BR ->
         u < d * d -> a < Ds i -> b < Ds (S (S i)) -> get (sel (alh BL BR (W2at i) (alh BL BR (W2at i) X)) u) a b = k0 R) ->
      kexp2_flowH Hs d Ds DW kexp_p.
    Proof.
      intros Hnil i p p' p'' BL BR M s t Hi HM HBL HBR.
      apply (poly_flow_local (d * d) (Ds i) (Ds (S (S i))) (DW i) (DW (S (S i)))); try assumption; try apply HDW; [nia|apply W2_ok; exact Hi|].
      intros u a b Hu Ha Hb. apply Hnil; assumption.
    Qed.

    Theorem poly_natural2 (G : R -> list R -> list R) i : S i < L ->
      (forall t v, length v = length (words d L) -> G t v = vadd v (vscale t (Hvec d Hs v))) ->
      solver2_natural Hs d Ds DW G i kexp_p.
    Proof.
      intros Hi HGp E Einv p BL BR wBL wBR (Ulen & Uadd & Uscale & _) Hint X t HX.
      assert (HHX : wsite (d * d) (Ds i) (Ds (S (S i))) (alh BL BR (W2at i) X)).
      { apply (wsite_alh R (d * d) (Ds i) (Ds (S (S i))) (DW i) (DW (S (S i)))); try assumption; try apply HDW; [nia|apply W2_ok; exact Hi]. }
      unfold kexp_p. rewrite Uadd by (try assumption; apply wsite_scale; exact HHX). rewrite Uscale by exact HHX. rewrite Hint by exact HX.
      symmetry. apply HGp. apply Ulen. exact HX.
    Qed.
  End Contracts.
End Poly.
