(* C07 (c), soundness of the translation validation of Model/MolCheck.v, for EVERY graph:
   den = coefficient in the walk list;  poly_eqb P Q = true -> equal coefficients on every word. *)
From Coq Require Import ZArith List Lia Bool Ring.
From PT Require Import Base.Scalar Base.BigSum Model.OpGraph Model.FromOpchains Model.Molecular Model.MolCheck
                       Proofs.FromOpchainsPart Proofs.DenRev_C05 Proofs.FromOpchainsThm Proofs.MolOpt.
Import ListNotations.
Open Scope Z_scope.

Section MolWalks.
  Variable R : cring.
  Add Ring Rring_molwalks : (k_rt R).
  Notation "0r" := (k0 R). Notation "1r" := (k1 R).
  Notation graph := (graph R).

  Lemma suml_flat_map {A B} (f : A -> list B) (l : list A) (h : B -> R) :
    suml (flat_map f l) h = suml l (fun x => suml (f x) h).
  Proof. induction l as [|x l IH]; cbn [flat_map suml]; [reflexivity|]. rewrite suml_app, IH. reflexivity. Qed.

  Lemma pcoef_cons (P : poly R) a c o w :
    pcoef (map (fun wc => (a :: fst wc, kmul R c (snd wc))) P) (o :: w) =
    kmul R (if a =? o then c else 0r) (pcoef P w).
  Proof.
    unfold pcoef. rewrite suml_map. cbn [fst snd zlist_eqb].
    destruct (a =? o); cbn [andb].
    - rewrite <- suml_scal_l. apply suml_ext. intros x _. destruct (zlist_eqb (fst x) w); ring.
    - rewrite suml_zero by reflexivity. ring.
  Qed.

  Theorem den_from_walks (g : graph) w nid : den_from g w nid = pcoef (walks g (length w) nid) w.
  Proof.
    revert nid. induction w as [|o w IH]; intros nid; cbn [den_from walks length].
    - destruct (nid =? g_t1 g); unfold pcoef; cbn; ring.
    - unfold pcoef at 1. rewrite suml_flat_map. apply suml_ext. intros e _.
      rewrite suml_flat_map. unfold opics_coeff. rewrite <- suml_scal_r. apply suml_ext. intros p _.
      fold (pcoef (map (fun wc => (fst p :: fst wc, kmul R (snd p) (snd wc))) (walks g (length w) (e_to e))) (o :: w)).
      rewrite pcoef_cons, IH. reflexivity.
  Qed.

  Lemma pcoef_app (P Q : poly R) w : pcoef (P ++ Q) w = kadd R (pcoef P w) (pcoef Q w).
  Proof. unfold pcoef. apply suml_app. Qed.

  Lemma pcoef_absent (P : poly R) w : existsb (fun wc => zlist_eqb (fst wc) w) P = false -> pcoef P w = 0r.
  Proof.
    intros H. unfold pcoef. apply suml_zero. intros x Hx.
    destruct (zlist_eqb (fst x) w) eqn:E; auto.
    assert (existsb (fun wc => zlist_eqb (fst wc) w) P = true) by (apply existsb_exists; exists x; auto). congruence.
  Qed.

  Theorem poly_eqb_sound (P Q : poly R) : poly_eqb P Q = true -> forall w, pcoef P w = pcoef Q w.
  Proof.
    intros H w. unfold poly_eqb in H. rewrite forallb_forall in H.
    destruct (existsb (fun wc => zlist_eqb (fst wc) w) (P ++ Q)) eqn:E.
    - apply existsb_exists in E. destruct E as [x [Hx E]]. apply zlist_eqb_eq in E. subst w.
      apply keqb_spec. apply H. exact Hx.
    - rewrite existsb_app in E. apply orb_false_iff in E. destruct E as [E1 E2].
      rewrite (pcoef_absent P w E1), (pcoef_absent Q w E2). reflexivity.
  Qed.

  Lemma pcoef_chain_poly L idn (chains : list (chain R)) w : pcoef (chain_poly L idn chains) w = chains_den L idn chains w.
  Proof. unfold pcoef, chain_poly, chains_den. rewrite suml_map. reflexivity. Qed.

  (* a graph whose walk list equals the chain polynomial denotes the chain sum on every word of length L *)
  Theorem graph_chains_validated (g : graph) L idn (chains : list (chain R)) :
    poly_eqb (walks g L (g_t0 g)) (chain_poly L idn chains) = true ->
    forall w, length w = L -> den g w = chains_den L idn chains w.
  Proof.
    intros H w Hw. unfold den. rewrite den_from_walks, Hw, (poly_eqb_sound _ _ H w). apply pcoef_chain_poly.
  Qed.

  Theorem check_graph_chains_sound (g : graph) L idn (chains : list (chain R)) fuel :
    check_graph_chains g L idn chains fuel = true ->
    linked g = true /\ layers_end g = true /\ is_consistent_fuel fuel g = Some true /\ glength g = Some L /\
    forall w, length w = L -> den g w = chains_den L idn chains w.
  Proof.
    unfold check_graph_chains. rewrite !andb_true_iff. intros [[[[H1 H2] H3] H4] H5].
    repeat split; auto.
    - unfold consistent in H3. destruct (is_consistent_fuel fuel g) as [[|]|]; congruence.
    - destruct (glength g) as [n|]; [|discriminate]. apply Nat.eqb_eq in H4. congruence.
    - apply graph_chains_validated; auto.
  Qed.

  (* both build paths: an implementation graph validated against the enumerated list denotes the same operator as the
     optimized graph of the model, word by word *)
  Theorem both_paths_agree (half : R) cover L t v gopt gexp : (1 <= L)%nat ->
    from_opchains cover (mol_chains half L t v) L 0 = Ok gopt ->
    poly_eqb (walks gexp L (g_t0 gexp)) (chain_poly L 0 (mol_chains half L t v)) = true ->
    forall w, length w = L -> den gexp w = den gopt w.
  Proof.
    intros HL Ho Hp w Hw. rewrite (graph_chains_validated gexp L 0 _ Hp w Hw).
    symmetry. apply (proj2 (mol_opt_den R half cover L t v gopt HL Ho)).
  Qed.
  Theorem spin_both_paths_agree (half : R) cover L t v cs gopt gexp : (1 <= L)%nat ->
    spin_chains half L t v = Ok cs ->
    from_opchains cover cs L 0 = Ok gopt ->
    poly_eqb (walks gexp L (g_t0 gexp)) (chain_poly L 0 cs) = true ->
    forall w, length w = L -> den gexp w = den gopt w.
  Proof.
    intros HL Hc Ho Hp w Hw. rewrite (graph_chains_validated gexp L 0 _ Hp w Hw).
    symmetry. apply (proj2 (spin_mol_opt_den R half cover L t v cs gopt HL Hc Ho)).
  Qed.
End MolWalks.
