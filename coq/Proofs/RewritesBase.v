(* C16, part 1: list/dictionary lemmas, the edge-level path semantics [FE], its independence of the
   reading direction, the bridge from the node-driven [den_from]/[den_to] of Model/OpGraph.v to [FE]
   on well-formed graphs, the well-formedness predicate [WF] and soundness of its boolean [wfb]. *)
From Coq Require Import ZArith List Lia Bool Permutation Ring.
From PT Require Import Base.Scalar Base.BigSum Model.OpGraph Model.Rewrites.
Import ListNotations.
Open Scope Z_scope.

(* ---------- keyed association lists ---------- *)
Section Keyed.
  Context {A : Type} (key : A -> Z).
  Lemma find_key_Some l x a : find (fun b => key b =? x) l = Some a -> In a l /\ key a = x.
  Proof. intros H. apply find_some in H. destruct H as [H1 H2]. apply Z.eqb_eq in H2. auto. Qed.
  Lemma find_key_None l x : find (fun b => key b =? x) l = None -> ~ In x (map key l).
  Proof.
    intros H Hin. apply in_map_iff in Hin. destruct Hin as [a [Ha Hl]].
    pose proof (find_none _ _ H a Hl) as E. simpl in E. apply Z.eqb_neq in E. auto.
  Qed.
  Lemma find_key_In l a : NoDup (map key l) -> In a l -> find (fun b => key b =? key a) l = Some a.
  Proof.
    induction l as [|b l IH]; simpl; intros Hnd Hin; [contradiction|].
    inversion Hnd as [|? ? Hnotin Hnd']; subst.
    destruct Hin as [->|Hin].
    - rewrite Z.eqb_refl. reflexivity.
    - destruct (key b =? key a) eqn:E.
      + apply Z.eqb_eq in E. exfalso. apply Hnotin. rewrite E. apply in_map. exact Hin.
      + apply IH; auto.
  Qed.
  Lemma key_inj l a b : NoDup (map key l) -> In a l -> In b l -> key a = key b -> a = b.
  Proof.
    intros Hnd Ha Hb E. pose proof (find_key_In l a Hnd Ha) as Fa.
    pose proof (find_key_In l b Hnd Hb) as Fb. rewrite E in Fa. congruence.
  Qed.
  Lemma find_key_iff l x a : NoDup (map key l) ->
    (find (fun b => key b =? x) l = Some a <-> In a l /\ key a = x).
  Proof.
    intros Hnd. split; [apply find_key_Some|]. intros [Hin <-]. apply find_key_In; auto.
  Qed.
  Lemma existsb_key l x : existsb (fun b => key b =? x) l = true <-> In x (map key l).
  Proof.
    rewrite existsb_exists, in_map_iff. split; intros [a [H1 H2]]; exists a.
    - apply Z.eqb_eq in H2. auto.
    - split; [tauto|]. apply Z.eqb_eq. tauto.
  Qed.
  Lemma NoDup_map_NoDup l : NoDup (map key l) -> NoDup l.
  Proof.
    induction l as [|a l IH]; simpl; intros H; [constructor|].
    inversion H; subst. constructor; auto. intros Hin. apply H2. apply in_map. exact Hin.
  Qed.
End Keyed.

Lemma zmem_In x l : zmem x l = true <-> In x l.
Proof.
  unfold zmem. rewrite existsb_exists. split.
  - intros [y [H1 H2]]. apply Z.eqb_eq in H2. subst. exact H1.
  - intros H. exists x. split; [exact H|apply Z.eqb_refl].
Qed.
Lemma zmem_false x l : zmem x l = false <-> ~ In x l.
Proof.
  rewrite <- zmem_In. destruct (zmem x l); split; intros H; congruence.
Qed.
Lemma nodupz_NoDup l : nodupz l = true <-> NoDup l.
Proof.
  induction l as [|x l IH]; simpl.
  - split; [constructor|reflexivity].
  - rewrite andb_true_iff, negb_true_iff, zmem_false, IH. split.
    + intros [H1 H2]. constructor; auto.
    + intros H. inversion H; auto.
Qed.
Lemma remove_first_In x y l : In y (remove_first x l) -> In y l.
Proof.
  induction l as [|z l IH]; simpl; [tauto|]. destruct (x =? z); simpl; tauto.
Qed.
Lemma remove_first_NoDup x l : NoDup l -> NoDup (remove_first x l).
Proof.
  induction l as [|z l IH]; simpl; intros H; [constructor|]. inversion H; subst.
  destruct (x =? z); auto. constructor; auto. intros Hin. apply remove_first_In in Hin. auto.
Qed.
Lemma remove_first_In_iff x y l : NoDup l -> (In y (remove_first x l) <-> In y l /\ y <> x).
Proof.
  induction l as [|z l IH]; simpl; intros H; [tauto|]. inversion H; subst.
  destruct (x =? z) eqn:E.
  - apply Z.eqb_eq in E. subst z. split.
    + intros Hy. split; [tauto|]. intros ->. auto.
    + intros [[->|Hy] Hne]; [congruence|auto].
  - apply Z.eqb_neq in E. simpl. rewrite IH by auto. split.
    + intros [->|[Hy Hne]]; auto.
    + intros [[->|Hy] Hne]; auto.
Qed.

Section Base.
  Variable R : cring.
  Add Ring Rring_rwbase : (k_rt R).
  Notation graph := (graph R).
  Notation gedge := (gedge R).
  Notation "0r" := (k0 R). Notation "1r" := (k1 R).
  Infix "+r" := (kadd R) (at level 50, left associativity).
  Infix "*r" := (kmul R) (at level 40, left associativity).

  Definition nids (g : graph) : list Z := map n_id (g_nodes g).
  Definition eids (g : graph) : list Z := map (@e_id R) (g_edges g).

  Lemma suml_filter {A} (p : A -> bool) (l : list A) (f : A -> R) :
    suml (filter p l) f = suml l (fun x => if p x then f x else 0r).
  Proof.
    induction l as [|a l IH]; simpl; [reflexivity|]. destruct (p a); simpl; rewrite IH; ring.
  Qed.

  (* ---------- edge-level semantics ----------
     FE E tend d w n: sum over the walks that start at node n, use edges whose d-end is the current
     node, move to their (1-d)-end, read the word w, and stop at node tend. *)
  Definition end_d (d : nat) (e : gedge) : Z := match d with O => e_from e | _ => e_to e end.
  Definition end_o (d : nat) (e : gedge) : Z := match d with O => e_to e | _ => e_from e end.
  Fixpoint FE (E : list gedge) (tend : Z) (d : nat) (w : list Z) (n : Z) : R :=
    match w with
    | [] => if n =? tend then 1r else 0r
    | o :: w' => suml E (fun e => if end_d d e =? n
                                  then opics_coeff o (e_opics e) *r FE E tend d w' (end_o d e) else 0r)
    end.

  Lemma FE_perm E E' tend d w n : Permutation E E' -> FE E tend d w n = FE E' tend d w n.
  Proof.
    intros P. revert n. induction w as [|o w IH]; intros n; simpl; [reflexivity|].
    rewrite (suml_permutation R _ _ _ P). apply suml_ext. intros e _.
    destruct (end_d d e =? n); [rewrite IH|]; reflexivity.
  Qed.

  (* direction independence: reading the word forwards from a to b = backwards from b to a *)
  Section Dir.
    Variables (E : list gedge) (a b : Z).
    Let F := FE E b 0.
    Let B := FE E a 1.
    Definition Smid (u : list Z) (o : Z) (w : list Z) : R :=
      suml E (fun e => B u (e_from e) *r opics_coeff o (e_opics e) *r F w (e_to e)).
    Lemma Smid_shift u o o' w : Smid u o (o' :: w) = Smid (o :: u) o' w.
    Proof.
      unfold Smid, F, B. simpl.
      transitivity (suml E (fun e => suml E (fun e' =>
         if e_from e' =? e_to e then
           FE E a 1 u (e_from e) *r opics_coeff o (e_opics e) *r
           (opics_coeff o' (e_opics e') *r FE E b 0 w (e_to e')) else 0r))).
      - apply suml_ext. intros e _. rewrite <- suml_scal_l. apply suml_ext. intros e' _.
        destruct (e_from e' =? e_to e); ring.
      - rewrite suml_exch. apply suml_ext. intros e' _.
        rewrite <- suml_scal_r, <- suml_scal_r. apply suml_ext. intros e _.
        rewrite (Z.eqb_sym (e_to e) (e_from e')). destruct (e_from e' =? e_to e); ring.
    Qed.
    Lemma F_Smid o w : F (o :: w) a = Smid [] o w.
    Proof.
      unfold Smid, F, B. simpl. apply suml_ext. intros e _. destruct (e_from e =? a); ring.
    Qed.
    Lemma B_Smid u o : B (o :: u) b = Smid u o [].
    Proof.
      unfold Smid, F, B. simpl. apply suml_ext. intros e _. destruct (e_to e =? b); ring.
    Qed.
    Lemma Smid_B w : forall u o, Smid u o w = B (rev (o :: w) ++ u) b.
    Proof.
      induction w as [|o' w IH]; intros u o.
      - rewrite <- B_Smid. reflexivity.
      - rewrite Smid_shift, IH. f_equal. simpl. rewrite <- !app_assoc. reflexivity.
    Qed.
    Lemma FE_dir w : FE E b 0 w a = FE E a 1 (rev w) b.
    Proof.
      destruct w as [|o w].
      - simpl. rewrite Z.eqb_sym. reflexivity.
      - fold F. rewrite F_Smid, Smid_B, app_nil_r. reflexivity.
    Qed.
  End Dir.

  (* ---------- node-driven semantics, direction-generic ---------- *)
  Definition dedges (g : graph) (d : nat) (x : Z) : list gedge :=
    match find_node g x with Some nd => edges_of g (node_eids nd (1 - d)) | None => [] end.
  Fixpoint den_dir (g : graph) (d : nat) (w : list Z) (n : Z) : R :=
    match w with
    | [] => if n =? terminal g (1 - d) then 1r else 0r
    | o :: w' => suml (dedges g d n) (fun e => opics_coeff o (e_opics e) *r den_dir g d w' (end_o d e))
    end.
  Lemma den_from_dir (g : graph) w n : den_from g w n = den_dir g 0 w n.
  Proof.
    revert n. induction w as [|o w IH]; intros n; simpl; [reflexivity|].
    apply suml_ext. intros e _. rewrite IH. reflexivity.
  Qed.
  Lemma den_to_dir (g : graph) w n : den_to g w n = den_dir g 1 w n.
  Proof.
    revert n. induction w as [|o w IH]; intros n; simpl; [reflexivity|].
    apply suml_ext. intros e _. rewrite IH. reflexivity.
  Qed.

  (* ---------- cross references between node lists and edge endpoints ---------- *)
  (* RefOK g d: the (1-d)-lists of the nodes are exactly the edges whose d-end is that node *)
  Definition RefOK (g : graph) (d : nat) : Prop :=
    (forall n, In n (g_nodes g) -> NoDup (node_eids n (1 - d))) /\
    (forall n eid, In n (g_nodes g) -> In eid (node_eids n (1 - d)) ->
        exists e, In e (g_edges g) /\ e_id e = eid /\ end_d d e = n_id n) /\
    (forall e, In e (g_edges g) ->
        exists n, In n (g_nodes g) /\ n_id n = end_d d e /\ In (e_id e) (node_eids n (1 - d))).

  Lemma find_edge_Some (g : graph) x e : find_edge g x = Some e -> In e (g_edges g) /\ e_id e = x.
  Proof. apply (find_key_Some (@e_id R)). Qed.
  Lemma find_node_Some (g : graph) x n : find_node g x = Some n -> In n (g_nodes g) /\ n_id n = x.
  Proof. apply (find_key_Some n_id). Qed.
  Lemma find_edge_In (g : graph) e : NoDup (eids g) -> In e (g_edges g) -> find_edge g (e_id e) = Some e.
  Proof. apply (find_key_In (@e_id R)). Qed.
  Lemma find_node_In (g : graph) n : NoDup (nids g) -> In n (g_nodes g) -> find_node g (n_id n) = Some n.
  Proof. apply (find_key_In n_id). Qed.

  Lemma edges_of_In (g : graph) l e : In e (edges_of g l) <-> exists x, In x l /\ find_edge g x = Some e.
  Proof.
    unfold edges_of. rewrite in_flat_map. split; intros [x [H1 H2]]; exists x; split; auto.
    - destruct (find_edge g x); simpl in H2; [destruct H2 as [->|[]]; reflexivity|contradiction].
    - rewrite H2. simpl. auto.
  Qed.
  Lemma edges_of_NoDup (g : graph) l : NoDup l -> NoDup (edges_of g l).
  Proof.
    induction l as [|x l IH]; simpl; intros H; [constructor|]. inversion H; subst.
    destruct (find_edge g x) as [e|] eqn:Fe; simpl; auto. constructor; auto.
    intros Hin. apply edges_of_In in Hin. destruct Hin as [y [Hy Fy]].
    apply find_edge_Some in Fe. apply find_edge_Some in Fy. destruct Fe, Fy. congruence.
  Qed.

  Lemma dedges_perm (g : graph) d x : NoDup (nids g) -> NoDup (eids g) -> RefOK g d ->
    Permutation (dedges g d x) (filter (fun e => end_d d e =? x) (g_edges g)).
  Proof.
    intros Hn He [R1 [R2 R3]]. unfold dedges.
    assert (NdE : NoDup (g_edges g)) by (eapply NoDup_map_NoDup; exact He).
    destruct (find_node g x) as [nd|] eqn:Fn.
    - apply find_node_Some in Fn. destruct Fn as [Hnd Hx].
      apply NoDup_Permutation.
      + apply edges_of_NoDup. apply R1. exact Hnd.
      + apply NoDup_filter. exact NdE.
      + intros e. rewrite edges_of_In, filter_In. split.
        * intros [y [Hy Fy]]. apply find_edge_Some in Fy. destruct Fy as [Hine Hid]. split; [exact Hine|].
          destruct (R2 nd y Hnd Hy) as [e' [He' [Hid' Hend]]].
          assert (e' = e) by (eapply (key_inj (@e_id R)); eauto; congruence). subst e'.
          apply Z.eqb_eq. congruence.
        * intros [Hine Hend]. apply Z.eqb_eq in Hend.
          destruct (R3 e Hine) as [n [Hnn [Hidn Hmem]]].
          assert (n = nd) by (eapply (key_inj n_id); eauto; congruence). subst n.
          exists (e_id e). split; [exact Hmem|]. apply find_edge_In; auto.
    - assert (Hnil : filter (fun e => end_d d e =? x) (g_edges g) = []).
      { destruct (filter (fun e => end_d d e =? x) (g_edges g)) as [|e l] eqn:Ef; [reflexivity|].
        assert (Hin : In e (filter (fun e => end_d d e =? x) (g_edges g))) by (rewrite Ef; left; reflexivity).
        apply filter_In in Hin. destruct Hin as [Hine Hend]. apply Z.eqb_eq in Hend.
        destruct (R3 e Hine) as [n [Hnn [Hidn _]]].
        apply (find_key_None n_id) in Fn. exfalso. apply Fn. rewrite <- Hend, <- Hidn. apply in_map. exact Hnn. }
      rewrite Hnil. constructor.
  Qed.

  Lemma den_dir_FE (g : graph) d w n : NoDup (nids g) -> NoDup (eids g) -> RefOK g d ->
    den_dir g d w n = FE (g_edges g) (terminal g (1 - d)) d w n.
  Proof.
    intros Hn He Hr. revert n. induction w as [|o w IH]; intros n; simpl; [reflexivity|].
    rewrite (suml_permutation R _ _ _ (dedges_perm g d n Hn He Hr)), suml_filter.
    apply suml_ext. intros e _. rewrite IH. reflexivity.
  Qed.

  (* ---------- well-formedness ---------- *)
  Definition TermOK (g : graph) (d : nat) : Prop :=
    exists n, In n (g_nodes g) /\ n_id n = terminal g d /\ node_eids n d = [].
  Definition NoDangle (g : graph) (d : nat) : Prop :=
    forall n, In n (g_nodes g) -> n_id n <> terminal g d -> node_eids n d <> [].
  Definition Layered (g : graph) : Prop :=
    exists lv : Z -> Z, forall e, In e (g_edges g) -> lv (e_to e) = lv (e_from e) + 1.
  Record WF (g : graph) : Prop := mkWF {
    wf_nids : NoDup (nids g);
    wf_eids : NoDup (eids g);
    wf_ref0 : RefOK g 0;
    wf_ref1 : RefOK g 1;
    wf_sorted : forall e, In e (g_edges g) -> sorted_opics (e_opics e) = true;
    wf_term0 : TermOK g 0;
    wf_term1 : TermOK g 1;
    wf_nd0 : NoDangle g 0;
    wf_nd1 : NoDangle g 1;
    wf_layered : Layered g }.

  Lemma wf_ref (g : graph) d : WF g -> (d <= 1)%nat -> RefOK g d.
  Proof. intros W Hd. destruct d as [|[|d]]; [apply W|apply W|lia]. Qed.

  (* the two denotations of Model/OpGraph.v in terms of FE *)
  Lemma den_FE (g : graph) w : WF g -> den g w = FE (g_edges g) (g_t1 g) 0 w (g_t0 g).
  Proof.
    intros W. unfold den. rewrite den_from_dir, den_dir_FE; try apply W. reflexivity.
  Qed.
  Lemma den_rev_FE (g : graph) w : WF g -> den_rev g w = FE (g_edges g) (g_t0 g) 1 (rev w) (g_t1 g).
  Proof.
    intros W. unfold den_rev. rewrite den_to_dir, den_dir_FE; try apply W. reflexivity.
  Qed.
  (* as_matrix(direction = 0) and as_matrix(direction = 1) denote the same operator *)
  Lemma den_rev_den (g : graph) w : WF g -> den_rev g w = den g w.
  Proof. intros W. rewrite den_rev_FE, den_FE by exact W. symmetry. apply FE_dir. Qed.

  (* ---------- soundness of the boolean ---------- *)
  Lemma nonempty_spec l : nonempty l = true <-> l <> [].
  Proof. destruct l; simpl; split; congruence. Qed.

  Lemma zlookup_levels (g : graph) lv : levels_table_ok g lv = true -> Layered g.
  Proof.
    intros H. exists (fun x => match zlookup lv x with Some v => v | None => 0 end).
    intros e He. unfold levels_table_ok in H. rewrite forallb_forall in H. specialize (H e He).
    destruct (zlookup lv (e_from e)), (zlookup lv (e_to e)); try discriminate.
    apply Z.eqb_eq in H. exact H.
  Qed.

  Lemma terminal_ok_TermOK (g : graph) d : terminal_ok R g d = true -> TermOK g d.
  Proof.
    unfold terminal_ok, TermOK. intros H. destruct (find_node g (terminal g d)) as [n|] eqn:F; [|discriminate].
    apply find_node_Some in F. exists n. destruct F. repeat split; auto.
    destruct (node_eids n d); [reflexivity|discriminate].
  Qed.

  Lemma wfb_WF (g : graph) : wfb g = true -> WF g.
  Proof.
    unfold wfb. rewrite !andb_true_iff. intros [[[[[[H1 H2] H3] H4] H5] H6] H7].
    apply nodupz_NoDup in H1. apply nodupz_NoDup in H2.
    rewrite forallb_forall in H3. rewrite forallb_forall in H4.
    assert (N : forall n, In n (g_nodes g) ->
              NoDup (n_in n) /\ NoDup (n_out n) /\ node_refs_ok R g n = true /\
              (n_id n <> g_t0 g -> n_in n <> []) /\ (n_id n <> g_t1 g -> n_out n <> [])).
    { intros n Hn. specialize (H3 n Hn). unfold node_ok in H3. rewrite !andb_true_iff in H3.
      destruct H3 as [[[[A B] C] D] E]. apply nodupz_NoDup in A. apply nodupz_NoDup in B.
      repeat split; auto.
      - intros Hne. apply orb_true_iff in D. destruct D as [D|D]; [apply Z.eqb_eq in D; contradiction|].
        apply nonempty_spec; exact D.
      - intros Hne. apply orb_true_iff in E. destruct E as [E|E]; [apply Z.eqb_eq in E; contradiction|].
        apply nonempty_spec; exact E. }
    assert (NR : forall n d eid, In n (g_nodes g) -> (d <= 1)%nat -> In eid (node_eids n d) ->
               exists e, In e (g_edges g) /\ e_id e = eid /\ edge_nid e (1 - d) = n_id n).
    { intros n d eid Hn Hd Hin. destruct (N n Hn) as [_ [_ [C _]]]. unfold node_refs_ok in C.
      rewrite forallb_forall in C. assert (Hd' : In d [0%nat; 1%nat]) by (simpl; lia).
      specialize (C d Hd'). rewrite forallb_forall in C. specialize (C eid Hin).
      destruct (find_edge g eid) as [e|] eqn:F; [|discriminate]. apply find_edge_Some in F.
      exists e. destruct F. apply Z.eqb_eq in C. auto. }
    assert (ER : forall e d, In e (g_edges g) -> (d <= 1)%nat ->
               exists n, In n (g_nodes g) /\ n_id n = edge_nid e d /\ In (e_id e) (node_eids n (1 - d))).
    { intros e d He Hd. specialize (H4 e He). unfold edge_ok in H4. apply andb_true_iff in H4.
      destruct H4 as [A _]. unfold edge_refs_ok in A. rewrite forallb_forall in A.
      assert (Hd' : In d [0%nat; 1%nat]) by (simpl; lia). specialize (A d Hd').
      destruct (find_node g (edge_nid e d)) as [n|] eqn:F; [|discriminate]. apply find_node_Some in F.
      exists n. destruct F. apply zmem_In in A. auto. }
    constructor; auto.
    - split; [|split].
      + intros n Hn. apply (N n Hn).
      + intros n eid Hn Hin. destruct (NR n 1%nat eid Hn (le_n _) Hin) as [e He]. exists e. exact He.
      + intros e He. destruct (ER e 0%nat He (le_S _ _ (le_n _))) as [n Hn]. exists n. exact Hn.
    - split; [|split].
      + intros n Hn. apply (N n Hn).
      + intros n eid Hn Hin. destruct (NR n 0%nat eid Hn (le_S _ _ (le_n _)) Hin) as [e He]. exists e. exact He.
      + intros e He. destruct (ER e 1%nat He (le_n _)) as [n Hn]. exists n. exact Hn.
    - intros e He. specialize (H4 e He). unfold edge_ok in H4. apply andb_true_iff in H4. tauto.
    - apply terminal_ok_TermOK. exact H5.
    - apply terminal_ok_TermOK. exact H6.
    - intros n Hn. apply (N n Hn).
    - intros n Hn. apply (N n Hn).
    - eapply zlookup_levels. exact H7.
  Qed.
End Base.
