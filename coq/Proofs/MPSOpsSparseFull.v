(* C03 — the sparse path of MPO.as_matrix equals the dense path, for every number of sites.
   Loop invariant of the hstack / reshape path ([sparse_step]): after the sites 0..i have been processed, [op] has shape
   (n*n, D_{i+1}) with n = d^(i+1), and row (X*n + Y), column b holds entry (0, b) of the product of the matrices
   W_0[x_0,y_0] ... W_i[x_i,y_i] picked by the base-d digits of X (output word) and Y (input word).
   It is proved in the "remaining sites" form [fold_sparse]: folding over the remaining sites multiplies every row of
   the current [op] with the product of the matrices picked by the remaining letters. *)
From Coq Require Import ZArith List Lia Bool Arith Ring.
From PT Require Import Base.Scalar Base.BigSum Base.Mx Model.Tensor Model.MPSOps.
From PT Require Import Proofs.MPSOpsBase Proofs.MPSOpsMul Proofs.MPSOpsDense Proofs.MPSOpsTop Proofs.MPSOpsLaws.
Import ListNotations.

(* ---------- index arithmetic ---------- *)
Lemma flat_lt a b i j : (i < a)%nat -> (j < b)%nat -> (i * b + j < a * b)%nat.
Proof. intros Hi Hj. nia. Qed.

Lemma divmod_flat q r b k : (r < b)%nat -> k = (q * b + r)%nat -> (k / b = q)%nat /\ (k mod b = r)%nat.
Proof.
  intros Hr ->. split.
  - rewrite Nat.div_add_l by lia. rewrite Nat.div_small by exact Hr. lia.
  - rewrite Nat.add_comm, Nat.mod_add by lia. apply Nat.mod_small. exact Hr.
Qed.

(* ---------- words and their positions ---------- *)
Lemma length_flat_map_const {A B} (f : A -> list B) m l :
  (forall x, In x l -> length (f x) = m) -> length (flat_map f l) = (length l * m)%nat.
Proof.
  induction l as [|a l IH]; intros H; [reflexivity|]. simpl. rewrite app_length, IH, (H a); auto with datatypes.
Qed.

Lemma length_words d L : length (words d L) = (d ^ L)%nat.
Proof.
  induction L as [|L IH]; [reflexivity|]. simpl words.
  rewrite (length_flat_map_const _ (d ^ L)).
  - rewrite seq_length. reflexivity.
  - intros s _. rewrite map_length. exact IH.
Qed.

Lemma nth_flat_map_const {A B} (f : A -> list B) m l j u (da : A) (db : B) :
  (forall x, In x l -> length (f x) = m) -> (j < length l)%nat -> (u < m)%nat ->
  nth (j * m + u) (flat_map f l) db = nth u (f (nth j l da)) db.
Proof.
  revert j; induction l as [|a l IH]; intros j H Hj Hu; [simpl in Hj; lia|].
  simpl flat_map. destruct j as [|j].
  - simpl. rewrite app_nth1 by (rewrite (H a) by (left; reflexivity); exact Hu). reflexivity.
  - rewrite app_nth2 by (rewrite (H a) by (left; reflexivity); simpl; lia).
    rewrite (H a) by (left; reflexivity).
    replace (S j * m + u - m)%nat with (j * m + u)%nat by (simpl; lia).
    simpl nth. apply IH; [intros x Hx; apply H; right; exact Hx | simpl in Hj; lia | exact Hu].
Qed.

Lemma nth_words_S d L j u : (j < d)%nat -> (u < d ^ L)%nat ->
  nth (j * d ^ L + u) (words d (S L)) [] = j :: nth u (words d L) [].
Proof.
  intros Hj Hu. simpl words.
  rewrite (nth_flat_map_const _ (d ^ L) _ j u 0%nat []).
  - rewrite seq_nth by exact Hj. simpl.
    rewrite (nth_indep _ [] (j :: [])) by (rewrite map_length, length_words; exact Hu).
    apply (map_nth (cons j)).
  - intros s _. rewrite map_length. apply length_words.
  - rewrite seq_length. exact Hj.
  - exact Hu.
Qed.

Lemma nth_words_ok d L u : (u < d ^ L)%nat -> word_ok d L (nth u (words d L) []).
Proof. intros Hu. apply words_ok. apply nth_In. rewrite length_words. exact Hu. Qed.

Section SparseFull.
  Variable R : cring.
  Add Ring Rring_c03sparse : (k_rt R).
  Notation "0" := (k0 R). Notation "1" := (k1 R).
  Infix "+" := (kadd R). Infix "*" := (kmul R).
  Notation mx := (mx R).
  Notation osite := (osite R).

  (* ---------- the reshape / hstack primitives, entrywise ---------- *)
  Lemma get_reshape m n (M : mx) i j : (i < m)%nat -> (j < n)%nat ->
    get (reshape m n M) i j = get M ((i * n + j) / nc M) ((i * n + j) mod nc M).
  Proof. intros Hi Hj. unfold reshape. rewrite get_tab by assumption. reflexivity. Qed.

  Lemma get_tphys d D D' (T : osite) j a t b : osite_shape d D D' T = true ->
    (j < d)%nat -> (a < D)%nat -> (t < d)%nat -> (b < D')%nat ->
    get (tphys T j) a (t * D' + b) = get (osel T j t) a b.
  Proof.
    intros HT Hj Ha Ht Hb. unfold tphys.
    destruct (osite_shape_osel _ _ _ _ _ j 0%nat HT Hj ltac:(lia)) as (_ & Hr0 & Hc0).
    rewrite Hr0, Hc0, (osite_shape_length _ _ _ _ _ HT).
    rewrite get_tab by (try assumption; apply flat_lt; assumption).
    rewrite div_flat, mod_flat by assumption. reflexivity.
  Qed.

  Lemma shape_tphys d D D' (T : osite) j : osite_shape d D D' T = true -> (j < d)%nat ->
    nr (tphys T j) = D /\ nc (tphys T j) = (d * D')%nat.
  Proof.
    intros HT Hj. unfold tphys.
    destruct (osite_shape_osel _ _ _ _ _ j 0%nat HT Hj ltac:(lia)) as (_ & Hr0 & Hc0).
    rewrite nr_tab, nc_tab, Hr0, Hc0, (osite_shape_length _ _ _ _ _ HT). split; reflexivity.
  Qed.

  (* ---------- one iteration of the loop ---------- *)
  Lemma sparse_step_spec d n (op : mx) (T : osite) D D' :
    (0 < d)%nat -> (0 < n)%nat -> osite_shape d D D' T = true -> nr op = (n * n)%nat -> nc op = D ->
    let r := sparse_step d (n, op) T in
    fst r = (n * d)%nat /\ nr (snd r) = ((n * d) * (n * d))%nat /\ nc (snd r) = D' /\
    forall x j y t b, (x < n)%nat -> (j < d)%nat -> (y < n)%nat -> (t < d)%nat -> (b < D')%nat ->
      get (snd r) ((x * d + j) * (n * d) + (y * d + t)) b =
      sumn D (fun a => get op (x * n + y) a * get (osel T j t) a b).
  Proof.
    intros Hd Hn HT Hro Hco.
    set (c1 := (n * (d * D'))%nat).
    (* the list of reshaped products *)
    set (Q := fun j => let P := mulmx op (tphys T j) in reshape n ((nr P * nc P) / n) P).
    assert (HQ : forall j, (j < d)%nat -> Q j = reshape n c1 (mulmx op (tphys T j))).
    { intros j Hj. unfold Q. cbv zeta. rewrite nr_mulmx, nc_mulmx, Hro.
      destruct (shape_tphys d D D' T j HT Hj) as [_ Hc]. rewrite Hc.
      replace (n * n * (d * D'))%nat with (c1 * n)%nat by (unfold c1; lia).
      rewrite Nat.div_mul by lia. reflexivity. }
    set (lst := map Q (seq 0 d)).
    assert (Hhd : hd (zeromx 0 0) lst = Q 0%nat).
    { unfold lst. destruct d as [|d']; [lia|]. reflexivity. }
    assert (Hlen : length lst = d) by (unfold lst; rewrite map_length, seq_length; reflexivity).
    set (H := hstack lst).
    assert (HrH : nr H = n).
    { unfold H, hstack. rewrite nr_tab, Hhd, (HQ 0%nat Hd). reflexivity. }
    assert (HcH : nc H = (d * c1)%nat).
    { unfold H, hstack. rewrite nc_tab, Hhd, (HQ 0%nat Hd), Hlen. reflexivity. }
    assert (Er : sparse_step d (n, op) T =
                 ((n * d)%nat, reshape ((n * d) * (n * d)) ((nr H * nc H) / ((n * d) * (n * d))) H)) by reflexivity.
    intros r. subst r. rewrite Er. cbn [fst snd].
    assert (Ediv : ((nr H * nc H) / ((n * d) * (n * d)) = D')%nat).
    { rewrite HrH, HcH. replace (n * (d * c1))%nat with (D' * ((n * d) * (n * d)))%nat by (unfold c1; lia).
      apply Nat.div_mul. nia. }
    rewrite Ediv. split; [reflexivity|]. split; [reflexivity|]. split; [reflexivity|].
    intros x j y t b Hx Hj Hy Ht Hb.
    assert (Hxj : (x * d + j < n * d)%nat) by (apply flat_lt; assumption).
    assert (Hyt : (y * d + t < n * d)%nat) by (apply flat_lt; assumption).
    rewrite get_reshape by (try assumption; apply flat_lt; assumption).
    rewrite HcH.
    (* position inside H *)
    set (r3 := (t * D' + b)%nat).
    assert (Hr3 : (r3 < d * D')%nat) by (apply flat_lt; assumption).
    set (r2 := (y * (d * D') + r3)%nat).
    assert (Hr2 : (r2 < c1)%nat) by (apply flat_lt; assumption).
    set (r1 := (j * c1 + r2)%nat).
    assert (Hr1 : (r1 < d * c1)%nat) by (apply flat_lt; assumption).
    destruct (divmod_flat x r1 (d * c1) (((x * d + j) * (n * d) + (y * d + t)) * D' + b) Hr1) as [E1 E2].
    { unfold r1, r2, r3, c1. lia. }
    rewrite E1, E2.
    unfold H, hstack. rewrite Hhd, (HQ 0%nat Hd). cbn [nr nc reshape tab]. rewrite Hlen.
    rewrite get_tab by assumption.
    destruct (divmod_flat j r2 c1 r1 Hr2 eq_refl) as [E3 E4]. rewrite E3, E4.
    unfold lst. rewrite nth_map_seq by exact Hj. rewrite (HQ j Hj).
    rewrite get_reshape by assumption.
    destruct (shape_tphys d D D' T j HT Hj) as [HrT HcT].
    rewrite nc_mulmx, HcT.
    destruct (divmod_flat (x * n + y)%nat r3 (d * D') (x * c1 + r2)%nat Hr3) as [E5 E6].
    { unfold r2, c1. lia. }
    rewrite E5, E6.
    rewrite get_mulmx by (rewrite ?Hro, ?HcT; try assumption; apply flat_lt; assumption).
    rewrite Hco. apply sumn_ext. intros a Ha. unfold r3.
    rewrite (get_tphys d D D') by assumption. reflexivity.
  Qed.

  (* ---------- the loop over the remaining sites ---------- *)
  Lemma fold_sparse d (rest : list osite) : forall Ds n (op : mx),
    (0 < d)%nat -> (0 < n)%nat -> ochain_shape d Ds rest = true -> nr op = (n * n)%nat -> nc op = hd 0%nat Ds ->
    let m := (d ^ length rest)%nat in
    let r := fold_left (sparse_step d) rest (n, op) in
    fst r = (n * m)%nat /\ nr (snd r) = ((n * m) * (n * m))%nat /\ nc (snd r) = last Ds 0%nat /\
    forall x y u u' b, (x < n)%nat -> (y < n)%nat -> (u < m)%nat -> (u' < m)%nat -> (b < last Ds 0%nat)%nat ->
      get (snd r) ((x * m + u) * (n * m) + (y * m + u')) b =
      sumn (hd 0%nat Ds) (fun a => get op (x * n + y) a *
        get (mprod (hd 0%nat Ds) (opick rest (nth u (words d (length rest)) []) (nth u' (words d (length rest)) []))) a b).
  Proof.
    induction rest as [|T rest IH]; intros Ds n op Hd Hn HS Hro Hco.
    - destruct Ds as [|D [|? ?]]; try discriminate HS. cbn [hd last length fold_left fst snd Nat.pow] in *.
      split; [lia|]. split; [rewrite Hro; lia|]. split; [exact Hco|].
      intros x y u u' b Hx Hy Hu Hu' Hb.
      assert (u = 0%nat) by lia. assert (u' = 0%nat) by lia. subst u u'.
      replace ((x * 1 + 0) * (n * 1) + (y * 1 + 0))%nat with (x * n + y)%nat by lia.
      cbn [words nth opick mprod].
      transitivity (sumn D (fun a => get op (x * n + y) a * (if Nat.eqb a b then 1 else 0))).
      + symmetry. apply sumn_delta_r. exact Hb.
      + apply sumn_ext. intros a Ha. rewrite get_idmx by assumption. reflexivity.
    - destruct Ds as [|Dl [|Dr Ds]]; [discriminate HS | discriminate HS |].
      rewrite ochain_shape_cons in HS. apply andb_true_iff in HS. destruct HS as [HT HS].
      change (hd 0%nat (Dl :: Dr :: Ds)) with Dl in *. rewrite (last_cons_cons Dl).
      change (fold_left (sparse_step d) (T :: rest) (n, op))
        with (fold_left (sparse_step d) rest (sparse_step d (n, op) T)).
      destruct (sparse_step_spec d n op T Dl Dr Hd Hn HT Hro Hco) as (S1 & S2 & S3 & S4).
      destruct (sparse_step d (n, op) T) as [n1 op1]. cbn [fst snd] in S1, S2, S3, S4. subst n1.
      assert (Hn1 : (0 < n * d)%nat) by nia.
      destruct (IH (Dr :: Ds) (n * d)%nat op1 Hd Hn1 HS S2 S3) as (I1 & I2 & I3 & I4).
      change (hd 0%nat (Dr :: Ds)) with Dr in *.
      change (length (T :: rest)) with (S (length rest)).
      set (m' := (d ^ length rest)%nat) in *.
      assert (Em : (d ^ S (length rest) = d * m')%nat) by reflexivity.
      cbv zeta. rewrite Em.
      split; [rewrite I1; lia|]. split; [rewrite I2; lia|]. split; [exact I3|].
      intros x y u u' b Hx Hy Hu Hu' Hb.
      assert (Hm' : (0 < m')%nat) by (unfold m'; apply Nat.neq_0_lt_0, Nat.pow_nonzero; lia).
      (* split the positions of the remaining words into their first letter and the rest *)
      destruct (divmod_lt d m' u ltac:(lia)) as [Hj Hu1]. destruct (divmod_lt d m' u' ltac:(lia)) as [Ht Hu1'].
      set (j := (u / m')%nat) in *. set (u1 := (u mod m')%nat) in *.
      set (t := (u' / m')%nat) in *. set (u1' := (u' mod m')%nat) in *.
      assert (Eu : u = (j * m' + u1)%nat) by (unfold j, u1; rewrite (Nat.div_mod u m') at 1 by lia; lia).
      assert (Eu' : u' = (t * m' + u1')%nat) by (unfold t, u1'; rewrite (Nat.div_mod u' m') at 1 by lia; lia).
      rewrite Eu, Eu'. unfold m'. rewrite !nth_words_S by assumption. fold m'.
      replace ((x * (d * m') + (j * m' + u1)) * (n * (d * m')) + (y * (d * m') + (t * m' + u1')))%nat
        with (((x * d + j) * m' + u1) * (n * d * m') + ((y * d + t) * m' + u1'))%nat by lia.
      rewrite (I4 (x * d + j)%nat (y * d + t)%nat u1 u1' b) by (try assumption; apply flat_lt; assumption).
      set (wu := nth u1 (words d (length rest)) []). set (wu' := nth u1' (words d (length rest)) []).
      change (opick (T :: rest) (j :: wu) (t :: wu')) with (osel T j t :: opick rest wu wu').
      change (mprod Dl (osel T j t :: opick rest wu wu'))
        with (mulmx (osel T j t) (mprod (nc (osel T j t)) (opick rest wu wu'))).
      destruct (osite_shape_osel _ _ _ _ _ j t HT Hj Ht) as (_ & HrT & HcT). rewrite HcT.
      set (P := mprod Dr (opick rest wu wu')).
      assert (HcP : nc P = last (Dr :: Ds) 0%nat).
      { pose proof (mchain_opick R d (Dr :: Ds) rest wu wu' HS (nth_words_ok d _ u1 Hu1) (nth_words_ok d _ u1' Hu1')) as Hc.
        destruct (mprod_shape R _ _ Hc) as [_ Hcc]. exact Hcc. }
      transitivity (sumn Dr (fun a' => sumn Dl (fun a => get op (x * n + y) a * get (osel T j t) a a' * get P a' b))).
      { apply sumn_ext. intros a' Ha'. rewrite (S4 x j y t a') by assumption.
        rewrite <- sumn_scal_r. reflexivity. }
      rewrite sumn_exch. apply sumn_ext. intros a Ha.
      rewrite get_mulmx by (rewrite ?HrT, ?HcP; assumption). rewrite HcT, <- sumn_scal_l.
      apply sumn_ext. intros a' Ha'. ring.
  Qed.

  (* ---------- the theorem ---------- *)
  Theorem as_matrix_sparse_chain d Ds (Ws : list osite) :
    ochain_shape d Ds Ws = true -> bdim1 Ds = true -> Ws <> [] -> (0 < d)%nat ->
    as_matrix_sparse d Ws = as_matrix Ws.
  Proof.
    intros HS H1 Hne Hd. rewrite (as_matrix_opamp R d Ds Ws HS H1 Hne).
    apply bdim1_spec in H1. destruct H1 as [Hh Hl].
    destruct Ws as [|W rest]; [contradiction|].
    destruct Ds as [|Dl [|Dr Ds]]; [discriminate HS | discriminate HS |].
    pose proof HS as HS0.
    rewrite ochain_shape_cons in HS. apply andb_true_iff in HS. destruct HS as [HW HS].
    simpl in Hh. subst Dl. rewrite (last_cons_cons 1%nat) in Hl.
    unfold as_matrix_sparse.
    destruct (osite_shape_osel _ _ _ _ _ 0%nat 0%nat HW Hd Hd) as (_ & Hr0 & Hc0).
    rewrite Hr0, Hc0. cbn [Nat.eqb negb].
    set (op0 := tab (d * d) Dr (fun r b => get (osel W (r / d) (r mod d)) 0%nat b)).
    destruct (fold_sparse d rest (Dr :: Ds) d op0 Hd Hd HS eq_refl eq_refl) as (F1 & F2 & F3 & F4).
    change (hd 0%nat (Dr :: Ds)) with Dr in *.
    set (m := (d ^ length rest)%nat) in *.
    destruct (fold_left (sparse_step d) rest (d, op0)) as [nf opf]. cbn [fst snd] in F1, F2, F3, F4.
    rewrite F3, Hl. cbn [Nat.eqb]. f_equal.
    assert (Hm : (0 < m)%nat) by (unfold m; apply Nat.neq_0_lt_0, Nat.pow_nonzero; lia).
    assert (HN : length (words d (length (W :: rest))) = nf).
    { rewrite length_words, F1. reflexivity. }
    apply mx_ext.
    - unfold reshape. apply wf_tab.
    - apply wf_opamp_table.
    - unfold reshape, opamp_table. rewrite nr_tab. cbn [nr]. symmetry. exact HN.
    - unfold reshape, opamp_table. rewrite nc_tab. cbn [nc]. symmetry. exact HN.
    - unfold reshape at 1 2. rewrite nr_tab, nc_tab. intros X Y HX HY.
      rewrite get_reshape by assumption. rewrite F3, Hl, Nat.div_1_r, Nat.mod_1_r.
      rewrite get_opamp_table by (rewrite HN; assumption).
      change (length (W :: rest)) with (S (length rest)).
      subst nf.
      destruct (divmod_lt d m X HX) as [Hx Hu]. destruct (divmod_lt d m Y HY) as [Hy Hu'].
      set (x := (X / m)%nat) in *. set (u := (X mod m)%nat) in *.
      set (y := (Y / m)%nat) in *. set (u' := (Y mod m)%nat) in *.
      assert (EX : X = (x * m + u)%nat) by (unfold x, u; rewrite (Nat.div_mod X m) at 1 by lia; lia).
      assert (EY : Y = (y * m + u')%nat) by (unfold y, u'; rewrite (Nat.div_mod Y m) at 1 by lia; lia).
      rewrite EX, EY. rewrite (F4 x y u u' 0%nat) by (try assumption; lia).
      unfold m. rewrite !nth_words_S by assumption. fold m.
      set (wu := nth u (words d (length rest)) []). set (wu' := nth u' (words d (length rest)) []).
      unfold opamp.
      change (opick (W :: rest) (x :: wu) (y :: wu')) with (osel W x y :: opick rest wu wu').
      change (mprod 1 (osel W x y :: opick rest wu wu'))
        with (mulmx (osel W x y) (mprod (nc (osel W x y)) (opick rest wu wu'))).
      destruct (osite_shape_osel _ _ _ _ _ x y HW Hx Hy) as (_ & HrW & HcW). rewrite HcW.
      set (P := mprod Dr (opick rest wu wu')).
      assert (HcP : nc P = 1%nat).
      { pose proof (mchain_opick R d (Dr :: Ds) rest wu wu' HS (nth_words_ok d _ u Hu) (nth_words_ok d _ u' Hu')) as Hc.
        destruct (mprod_shape R _ _ Hc) as [_ Hcc]. unfold P. change (hd 0%nat (Dr :: Ds)) with Dr in Hcc. lia. }
      rewrite get_mulmx by (rewrite ?HrW, ?HcP; lia). rewrite HcW.
      apply sumn_ext. intros a Ha. unfold op0.
      rewrite get_tab by (try assumption; apply flat_lt; assumption).
      rewrite div_flat, mod_flat by assumption. reflexivity.
  Qed.

  Theorem as_matrix_sparse_dense (o : mpo R) :
    mpo_wf o = true -> (0 < length (o_qd o))%nat ->
    as_matrix_sparse (length (o_qd o)) (o_A o) = as_matrix (o_A o).
  Proof.
    intros Ho Hd. apply mpo_wf_spec in Ho. destruct Ho as (Ho1 & Ho2 & Ho3).
    apply (as_matrix_sparse_chain _ _ _ Ho1 Ho2 Ho3 Hd).
  Qed.
End SparseFull.
